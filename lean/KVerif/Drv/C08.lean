/-
C08 driver.
  `run`       : model output for a C08 case line = trace of the layout model (`LAY` cases:
                `Lay.modelOut`; `KAN` cases: layout model + the cancellation glue of
                Model/MacroCancel.lean), followed by the expansion of every macro body by the parser
                MODEL (`X<y>:<form><rep>:<events>[:D<duration>]`), which the harness prints from the
                `SequenceEvent` list the REAL parser produced.
  `runOracle` : judges the IMPLEMENTATION's trace against the specification (Spec/Macro.lean).
-/
import KVerif.Drv.Trace
import KVerif.Spec.Macro
import KVerif.Model.MacroCancel
namespace KVerif.Drv.C08
open KVerif.L KVerif.Drv KVerif.Drv.Cfg KVerif.Drv.Trace KVerif.Macro

/-! ## Case tail: `MAC … PATCH … FAM … [CUST …]` -/

mutual
  partial def item : P Macro.Item := do
    let t ← tok
    match t with
    | "n" => return .num (← num)
    | "k" => return .act (.key (← num))
    | "c" => do let n ← num; return .act (.chord (← rep n num))
    | "u" => return .act (.custom (← num))
    | "o" => return .act .other
    | "l0" => return .list none (← items)
    | "lo" => return .list (some .other) (← items)
    | "lk" => do let k ← num; return .list (some (.key k)) (← items)
    | "lu" => do let k ← num; return .list (some (.custom k)) (← items)
    | "m" => do let n ← num; return .mods (← rep n num)
    | "b" => return .bad
    | x => throw s!"bad macro item token {x}"
  partial def items : P (List Macro.Item) := do
    let n ← num
    rep n item
end

structure Mac where
  y : Nat
  form : Form
  rep : Bool
  params : List Macro.Item

structure Tail where
  macs : List Mac
  patch : List Nat
  fam : String
  cust : List (List CAct)

def formOf : Nat → Form
  | 0 => .plain | 1 => .releaseCancel | 2 => .cancelOnPress | _ => .cancelOnPressAndRelease

def cact : P CAct := do
  let t ← tok
  match t with
  | "cr" => return .cancelMacroOnRelease
  | "cp" => return .cancelMacroOnNextPress (← num)
  | _ => return .other

def tail : P Tail := do
  expect "MAC"
  let n ← num
  let macs ← rep n (do
    let y ← num; let f ← num; let r ← num; let ps ← items
    pure { y, form := formOf f, rep := r == 1, params := ps : Mac })
  expect "PATCH"
  let np ← num
  let patch ← rep np num
  expect "FAM"
  let fam ← tok
  let cust ← match (← peek?) with
    | some "CUST" => do
      let _ ← tok
      let n ← num
      rep n (do let k ← num; rep k cact)
    | _ => pure []
  return { macs, patch, fam, cust }

structure C08Case where
  tag : String
  c : Case
  t : Tail

def parseCase (line : String) : Except String C08Case :=
  let tag := if line.startsWith "KAN" then "KAN" else "LAY"
  runP (do let c ← Cfg.case tag; let t ← tail; pure { tag, c, t }) line

/-! ## Expansion by the parser model -/

def fmtEv : SeqEv → String
  | .noOp => "n"
  | .press k => s!"p{k}"
  | .release k => s!"r{k}"
  | .tap k => s!"t{k}"
  | .delay d => s!"d{d}"
  | .custom id => s!"c{id}"
  | .complete => "x"

def formBits : List CAct → Nat
  | [] => 0
  | .cancelMacroOnRelease :: r => 1 ||| formBits r
  | .cancelMacroOnNextPress _ :: r => 2 ||| formBits r
  | .other :: r => 4 ||| formBits r

def fmtMac (m : Mac) : String :=
  match compile m.form m.rep m.params with
  | .error _ => s!"X{m.y}:rej"
  | .ok c =>
    let d := (c.customs.filterMap fun a => match a with | .cancelMacroOnNextPress d => some s!":D{d}" | _ => none)
    s!"X{m.y}:{formBits c.customs}{if c.repeatable then 1 else 0}:{joinWith "," (c.events.map fmtEv)}{String.join d}"

def expansions (t : Tail) : String := " ".intercalate (t.macs.map fmtMac)

def modelRejects (t : Tail) : Bool := t.macs.any fun m => match compile m.form m.rep m.params with | .error _ => true | .ok _ => false

/-! ## Runs: bare layout (`LAY`) and layout + cancellation glue (`KAN`), with the count of ring
evictions observed from outside (as the harness observes them on the real code) -/

/-- a sequence that is dropped by this tick's `process_sequences`: one event left, no delay or tap pending -/
def canFinish (q : SeqState) : Bool := q.remaining.length ≤ 1 && q.delay == 0 && q.tapped.isNone

/-- sequences dropped from the ring by `push_back` during one tick: those that could not finish in
this tick plus those started in it (never stepped: `cur_event` is `None`), minus those present
afterwards; a ring that is not full afterwards was emptied by a cancellation instead -/
def evictions (before after : List SeqState) : Nat :=
  let survivors := (before.filter (!canFinish ·)).length
  let fresh := (after.filter (·.curEvent.isNone)).length
  if after.length == ACTIVE_SEQ_CAP then survivors + fresh - after.length else 0

structure KRun where
  k : KState
  tick : Nat := 0
  prev : List Nat := []
  out : Array String := #[]
  ev : Nat := 0

def kDigest (kan : Bool) (k : KState) : String :=
  if kan then s!"{Lay.digest k.lay};mc={k.cancelDur}" else Lay.digest k.lay

/-- one tick: `KAN` = `tick_states` (layout tick, key list, custom actions, countdown);
`LAY` = `Layout::tick` alone, custom events are printed -/
def stepTick (kan : Bool) (tbl : Nat → List CAct) (k : KState) : Except Crash (KState × List KeyCode × String) :=
  if kan then
    match k.tick tbl with
    | .error c => .error c
    | .ok (k, keys) => .ok (k, keys, "")
  else
    match L.tick k.lay with
    | .error c => .error c
    | .ok (l, ce) =>
      let cs := match ce with
        | .noEvent => ""
        | .press id => s!" cp{id}"
        | .release id => s!" cr{id}"
      .ok ({ k with lay := l }, l.keycodes, cs)

def kTicks (kan : Bool) (tbl : Nat → List CAct) (dbg : Bool) : Nat → KRun → Except Crash KRun
  | 0, r => .ok r
  | n + 1, r =>
    match stepTick kan tbl r.k with
    | .error c => .error c
    | .ok (k, keys, cs) =>
      let t := r.tick + 1
      let out := if keys != r.prev || cs != "" then r.out.push s!"@{t} K{Lay.fmtKeys keys}{cs}" else r.out
      let out := if dbg then out.push s!"#{t} {kDigest kan k}" else out
      let ev := r.ev + evictions r.k.lay.activeSequences k.lay.activeSequences
      kTicks kan tbl dbg n { k, tick := t, prev := keys, out, ev }

def kRunHist (kan : Bool) (tbl : Nat → List CAct) (dbg : Bool) : List HEv → KRun → Except Crash KRun
  | [], r => .ok r
  | e :: rest, r =>
    match e with
    | .press c => match (if kan then r.k.press c else r.k.rawEvent (.press c)) with
      | .error cr => .error cr
      | .ok k => kRunHist kan tbl dbg rest { r with k }
    | .release c => match r.k.rawEvent (.release c) with
      | .error cr => .error cr
      | .ok k => kRunHist kan tbl dbg rest { r with k }
    | .tick n => match kTicks kan tbl dbg n r with
      | .error cr => .error cr
      | .ok r => kRunHist kan tbl dbg rest r

def runModel (kan : Bool) (c : Case) (t : Tail) : String :=
  if c.unsupported then "unsupported chordsv2" else
  match c.layout with
  | none => "rej"
  | some l =>
    let tbl : Nat → List CAct := fun id => t.cust.getD id []
    match kRunHist kan tbl c.dbg c.hist { k := { lay := l } } with
    | .ok r => " ".intercalate (r.out.push s!"D {kDigest kan r.k} EV{r.ev}").toList
    | .error cr => s!"crash {Lay.crashName cr}"

def modelOut (cc : C08Case) : String :=
  let base := runModel (cc.tag == "KAN") cc.c cc.t
  if base == "rej" then (if modelRejects cc.t then "rej" else s!"rej-but-model-accepts {expansions cc.t}")
  else if base.startsWith "crash" || base.startsWith "unsupported" then base
  else s!"{base} {expansions cc.t}"

def run (line : String) : String × String :=
  match parseCase line with
  | .error e => (s!"bad-case {e}", "-")
  | .ok cc => (modelOut cc, "-")

/-! ## Oracle on the implementation trace -/

def dedupConsec : List (List Nat) → List (List Nat)
  | [] => []
  | [x] => [x]
  | x :: y :: rest => if x == y then dedupConsec (y :: rest) else x :: dedupConsec (y :: rest)

/-- steps of a macro (its events without the final `complete`) -/
def stepsOf (evs : List SeqEv) : List SeqEv := evs.filter (· != .complete)

/-- the key states a run of the steps goes through, starting (and, for a balanced spelling, ending)
with nothing held; each entry carries the sum of the delays spelled since the previous change -/
def runStates (steps : List SeqEv) : List (List Nat × Nat) :=
  let rec go (held : List Nat) (delay : Nat) : List SeqEv → List (List Nat × Nat)
    | [] => []
    | e :: rest =>
      let held' := applySlot held (some e)
      let delay' := match e with | .delay d => delay + d | _ => delay
      if held' != held then (held', delay') :: go held' 0 rest else go held' delay' rest
  go [] 0 steps

/-- ticks one run takes: every step its `ticksOf`, plus the tick that processes `complete` -/
def runTicks (steps : List SeqEv) : Nat := (steps.map ticksOf).foldl (· + ·) 0 + 1

/-- ticks before the first change of the key list in a run -/
def leadTicks (steps : List SeqEv) : Nat :=
  let rec go (held : List Nat) : List SeqEv → Nat
    | [] => 0
    | e :: rest => if applySlot held (some e) != held then 1 else ticksOf e + go held rest
  go [] steps

def pressedKeys (steps : List SeqEv) : List Nat :=
  (steps.filterMap fun e => match e with | .press k | .tap k => some k | _ => none).eraseDups

/-- arrival time (ticks elapsed) and running event count of every press / release of the history -/
def arrivals (h : List HEv) : List (HEv × Nat × Nat) :=
  let rec go (t n : Nat) : List HEv → List (HEv × Nat × Nat)
    | [] => []
    | .tick k :: rest => go (t + k) n rest
    | e :: rest => (e, t, n + 1) :: go t (n + 1) rest
  go 0 0 h

structure MacInfo where
  y : Nat
  rep : Bool
  steps : List SeqEv
  keys : List Nat

/-- observed projection: (tick, held macro keys) at every change, starting from nothing held -/
def projection (items : List Trace.Item) (keys : List Nat) : List (Nat × List Nat) :=
  let rec go (prev : List Nat) : List Trace.Item → List (Nat × List Nat)
    | [] => []
    | it :: rest =>
      let cur := it.keys.filter (keys.contains ·)
      if cur != prev then (it.tick, cur) :: go cur rest else go prev rest
  go [] items

/-- walks the observed changes through repeated runs of `exp`.  `strict`: every run must be
complete; otherwise a run may be cut short by a return to nothing-held (cancellation; invisible
when nothing was held at that moment).
Returns the number of runs started and the tick of the first change of the last run, or an error. -/
def matchRuns (exp : List (List Nat × Nat)) (strict : Bool) (obs : List (Nat × List Nat)) :
    Except String (Nat × Nat) :=
  let startRun (_t : Nat) (st : List Nat) : Option (List (List Nat × Nat)) :=
    match exp with
    | (e, _) :: pos' => if st == e then some pos' else none
    | [] => none
  let rec go (pos : List (List Nat × Nat)) (lastTick : Nat) (prev : List Nat) (runs : Nat) (lastStart : Nat) :
      List (Nat × List Nat) → Except String (Nat × Nat)
    | [] =>
      if pos.isEmpty || !strict then .ok (runs, lastStart)
      else .error s!"run {runs} stops after the change at tick {lastTick}: expected next {repr (pos.head?.map (·.1))}"
    | (t, st) :: rest =>
      match pos with
      | (e, d) :: pos' =>
        if st == e && t ≥ lastTick + d then go pos' t st runs lastStart rest
        else if !strict && st == [] then go [] t st runs lastStart rest
        else if !strict && prev == [] then
          match startRun t st with
          | some pos' => go pos' t st (runs + 1) t rest
          | none => .error s!"at tick {t} the macro's keys are {repr st}; the spelling requires {repr e} (or a fresh run after a cancellation)"
        else if st == e then .error s!"change to {repr st} at tick {t} comes {t - lastTick} ticks after the previous one; the spelled delay is {d}"
        else .error s!"at tick {t} the macro's keys are {repr st}; the spelling requires {repr e}"
      | [] =>
        match startRun t st with
        | some pos' => go pos' t st (runs + 1) t rest
        | none => .error s!"at tick {t} the macro's keys are {repr st}; a run starts with {repr (exp.head?.map (·.1))}"
  go [] 0 [] 0 0 obs

/-- the same walk when runs may be cut short by a cancellation (which is invisible when nothing is
held at that moment, so that several readings of the trace are possible): the set of positions
in `exp` the macro may be at is tracked.  `none` = no reading fits. -/
def matchCancellable (exp : List (List Nat × Nat)) (obs : List (Nat × List Nat)) : Option String :=
  let n := exp.length
  let rec go (poss : List (Nat × Nat)) (prev : List Nat) : List (Nat × List Nat) → Option String
    | [] => none
    | (t, st) :: rest =>
      let next := poss.flatMap fun (pos, lastTick) =>
        let adv := match exp[pos]? with
          | some (e, d) => if st == e && t ≥ lastTick + d then [(pos + 1, t)] else []
          | none => []
        let reset := if st == [] then [(n, t)] else []
        let fresh := if pos == n || prev == [] then
            match exp[0]? with
            | some (e, _) => if st == e then [(1, t)] else []
            | none => []
          else []
        adv ++ reset ++ fresh
      let next := next.eraseDups
      if next.isEmpty then
        some s!"at tick {t} the macro's keys are {repr st}: neither the next spelled state, nor released, nor the start of a run"
      else go next st rest
  go [(n, 0)] [] obs

/-- physically consistent: every press is of a key that is up, every release of a key that is
down, and every key is up again at the end -/
def consistent (h : List HEv) : Bool :=
  let rec go : List Coord → List HEv → Bool
    | down, [] => down.isEmpty
    | down, .press c :: r => !down.contains c && go (c :: down) r
    | down, .release c :: r => down.contains c && go (down.erase c) r
    | down, .tick _ :: r => go down r
  go [] h

def plainKeys (l : Layout) : List (Coord × Nat) :=
  match l.cfg.layers with
  | tbl :: _ => tbl.filterMap fun (c, a) => match a with | .keyCode k => some (c, k) | _ => none
  | _ => []

/-- ring evictions the harness observed on the real code: the `EV<n>` token after the digest -/
def evictionsSeen (impl : String) : Nat :=
  match ((impl.splitOn " ").filter (·.startsWith "EV")).head? with
  | some t => ((t.drop 2).toString.toNat?).getD 0
  | none => 0

def oracle (cc : C08Case) (l : Layout) (items : List Trace.Item) (evicted : Nat) : String :=
  let hist := cc.c.hist
  let compiled := cc.t.macs.filterMap fun m => match compile m.form m.rep m.params with
    | .ok c => some (m, c) | .error _ => none
  if compiled.length != cc.t.macs.length || compiled.isEmpty then "skip" else
  let infos : List MacInfo := compiled.map fun (m, c) =>
    { y := m.y, rep := c.repeatable, steps := stepsOf c.events, keys := pressedKeys (stepsOf c.events) }
  let arr := arrivals hist
  let nEvents := arr.length
  let totalTicks := (hist.map fun e => match e with | .tick n => n | _ => 0).foldl (· + ·) 0
  let lastArrival := (arr.map (·.2.1)).foldl max 0
  let longest := (infos.map fun i => runTicks i.steps).foldl max 0
  -- the history must leave room for everything to finish: all input processed, a run in flight
  -- and (repeat macros) one more run
  if totalTicks < lastArrival + nEvents + 2 * longest + 2 then "skip" else
  if !consistent hist then "skip" else
  let plains := plainKeys l
  let plainCodes := plains.map (·.2)
  let finalKeys := match items.getLast? with | some it => it.keys | none => []
  -- O1: when everything is over, every key of every macro is up
  let allMacroKeys := (infos.flatMap (·.keys)).eraseDups
  let o1 : Option String :=
    match finalKeys.find? (allMacroKeys.contains ·) with
    | some k => some s!"key {k} pressed by a macro is still down at the end (final keys {repr finalKeys})"
    | none => none
  -- cancellation possible?  Kanata-level: any cancelling form (it cancels all macros);
  -- layout level: the CancelSequences key is pressed
  let cancelForms := compiled.any fun (_, c) => !c.customs.isEmpty
  let patchPressed := hist.any fun e => match e with | .press c => c.1 == 0 && cc.t.patch.contains c.2 | _ => false
  -- a 5th concurrently active macro evicts the oldest from the ring of 4 (capacity limit of the
  -- layout, documented): the evicted macro is cut short like a cancelled one, its keys released
  let cancellable := (cc.tag == "KAN" && cancelForms) || patchPressed || evicted > 0
  -- O2: projection onto each macro's own keys
  let o2 := infos.filterMap fun i =>
    let others := (infos.filter (·.y != i.y)).flatMap (·.keys)
    if i.keys.isEmpty || i.keys.any (fun k => others.contains k || plainCodes.contains k) then none else
    let presses := arr.filter fun a => match a.1 with | .press c => c == (0, i.y) | _ => false
    let releases := arr.filter fun a => match a.1 with | .release c => c == (0, i.y) | _ => false
    let n := presses.length
    let dur := runTicks i.steps
    -- activations of the same macro that may overlap in time: nothing is claimed.  A plain macro
    -- is over `dur` ticks after its press was dequeued; a repeating one `2 * dur` after its release
    let rec overlapping : List (HEv × Nat × Nat) → Bool
      | a :: b :: rest =>
        (if i.rep then
          match (releases.filter fun r => r.2.2 > a.2.2 && r.2.2 < b.2.2).head? with
          | some r => b.2.1 < r.2.1 + 2 * dur + nEvents + 1
          | none => true
         else b.2.1 < a.2.1 + dur + nEvents + 1) || overlapping (b :: rest)
      | _ => false
    if overlapping presses then none else
    let obs := projection items i.keys
    let exp := runStates i.steps
    if cancellable then (matchCancellable exp obs).map (s!"macro at {i.y}: " ++ ·) else
    match matchRuns exp true obs with
    | .error e => some s!"macro at {i.y}: {e}"
    | .ok (runs, lastStart) =>
      if !i.rep then
        if runs == n then none else some s!"macro at {i.y}: activated {n} times but played {runs} times"
      else
        -- repeat: at least one run per ... press that is not overlapped; restarts only while held
        if n > 0 && runs == 0 then some s!"repeating macro at {i.y}: pressed but never played" else
        match releases.getLast? with
        | some r =>
          let bound := r.2.1 + r.2.2 + 1 + leadTicks i.steps
          if runs > 0 && lastStart > bound && n == releases.length then
            some s!"repeating macro at {i.y}: a run started at tick {lastStart}, after its key was released (released by tick {r.2.1 + r.2.2})"
          else none
        | none => none
  -- O3: plain keys typed meanwhile come out in the order they were pressed
  let o3 : Option String :=
    if plainCodes.any (allMacroKeys.contains ·) then none else
    let pressedSeq := hist.filterMap fun e => match e with
      | .press c => (plains.find? (·.1 == c)).map (·.2)
      | _ => none
    let outSeq := ((downs items).filter fun d => plainCodes.contains d.2).map (·.2)
    if pressedSeq == outSeq then none else some s!"plain keys pressed {pressedSeq} but output {outSeq}"
  match o1.toList ++ o2 ++ o3.toList with
  | [] => "ok"
  | e :: _ => s!"fail {e}"

/-- `<case> ### <impl trace>` → ok | fail … | skip -/
def runOracle (line : String) : String × String :=
  let (cs, impl) := splitOracleLine line
  match parseCase cs with
  | .error _ => ("skip", "-")
  | .ok cc =>
    match cc.c.layout, Trace.parse impl with
    | some l, some items => (oracle cc l items (evictionsSeen impl), "-")
    | _, _ => ("skip", "-")

end KVerif.Drv.C08
