import KVerif.Drv.Tok
import KVerif.Model.Override
/-
Line protocol for C13 (keys are OsCode numbers):

  C13 L  T <n> {I <ni> k.. O <no> k..}^n K <len> k.. C <len> k..
      the configured table (input list / output list per override, as written), the key list under
      test and a second list that is run first to leave a used `OverrideStates` behind.
  C13 LM ...        same, correspondence only (specification not consulted)
  C13 P  R <0|1> T <n> {...}^n H <len> {p k | r k | t n}^len
      release-on-activation flag, table, history (press / release / n ticks) through the pipeline.
  C13 PM ...        same, correspondence only
-/
namespace KVerif.Drv.C13
open KVerif.Override KVerif.Drv

def numList : P (List Nat) := do
  let n ← num
  rep n num

def table : P (List (List Nat × List Nat)) := do
  expect "T"
  let n ← num
  rep n (do expect "I"; let i ← numList; expect "O"; let o ← numList; pure (i, o))

inductive HItem | p (k : Nat) | r (k : Nat) | t (n : Nat)

def hitem : P HItem := do
  match (← tok) with
  | "p" => return .p (← num)
  | "r" => return .r (← num)
  | "t" => return .t (← num)
  | x => throw s!"bad history token {x}"

inductive Case
  | list (spec : Bool) (tbl : List (List Nat × List Nat)) (ks carry : List Nat)
  | pipe (spec : Bool) (roa : Bool) (tbl : List (List Nat × List Nat)) (h : List HItem)

def parseCase : P Case := do
  expect "C13"
  let mode ← tok
  match mode with
  | "L" | "LM" =>
    let t ← table
    expect "K"; let ks ← numList
    expect "C"; let c ← numList
    return .list (mode == "L") t ks c
  | "P" | "PM" =>
    expect "R"; let r ← num
    let t ← table
    expect "H"; let n ← num
    let h ← rep n hitem
    return .pipe (mode == "P") (r != 0) t h
  | x => throw s!"bad mode {x}"

def errName : NewErr → String
  | .inNone => "inNone" | .inMultiple => "inMultiple"
  | .outNone => "outNone" | .outMultiple => "outMultiple"

/-- `parse_overrides`: `Override::try_new` on each pair in order, first diagnostic wins. -/
def buildTable : List (List Nat × List Nat) → Except NewErr (List Override)
  | [] => .ok []
  | (i, o) :: rest =>
    match Override.tryNew i o with
    | .error e => .error e
    | .ok ovd => match buildTable rest with
      | .error e => .error e
      | .ok l => .ok (ovd :: l)

def nums (l : List Nat) : String := joinWith "," (l.map toString)

def fmtRes : Except Crash (List Nat × OverrideStates) → String
  | .error .modOnly => "crash modOnly"
  | .ok (ks, st) => s!"keys {nums ks} rm {nums st.toRemove} add {nums st.toAdd} mods {st.modsPressed}"

def b01 (b : Bool) : String := if b then "1" else "0"

def fmtOsEv : OsEv → String
  | .up k => s!"-{k}"
  | .down k => s!"+{k}"

def fmtState (s : NKey) : String := s!"{s.kc}.{s.coord}.{s.flags}"

structure PRun where
  p : Pipe := Pipe.init
  tick : Nat := 0
  held : List Nat := []
  late : Bool := false
  recs : List String := []        -- reversed
  specs : List (Option String) := []   -- reversed
  crashed : Bool := false

def doTick (t : Overrides) (tbl : List Override) (roa : Bool) (r : PRun) : PRun :=
  if r.crashed then r else
  -- the key list `override_keys` is applied to in this tick
  let preStates : List NKey := match r.p.queue with
    | [] => r.p.states
    | e :: _ => dequeue r.p.states e
  let pre := preStates.map (·.kc)
  match r.p.tick t roa with
  | .error _ => { r with crashed := true, recs := "crash modOnly" :: r.recs }
  | .ok (p', evs) =>
    let held := evs.foldl osApply r.held
    let n := r.tick + 1
    let lateNow := lateMod tbl (p'.states.map (·.kc))
    let rec_ := s!"@{n} e:{joinWith "," (evs.map fmtOsEv)} h:{nums p'.prev} r:{nums p'.ost.toRemove} s:{joinWith "," (p'.states.map fmtState)} os:{nums (sortDedup held)}"
    let sp := match specHeld tbl pre with
      | some s => some s!"@{n} os:{nums s}"
      | none => none
    { r with p := p', tick := n, held := held, late := r.late || lateNow,
             recs := rec_ :: r.recs, specs := sp :: r.specs }

def doTicks (t : Overrides) (tbl : List Override) (roa : Bool) : Nat → PRun → PRun
  | 0, r => r
  | n + 1, r => doTicks t tbl roa n (doTick t tbl roa r)

def runHist (t : Overrides) (tbl : List Override) (roa : Bool) : List HItem → PRun → PRun
  | [], r => r
  | .p k :: rest, r => runHist t tbl roa rest { r with p := r.p.input (.press k) }
  | .r k :: rest, r => runHist t tbl roa rest { r with p := r.p.input (.release k) }
  | .t n :: rest, r => runHist t tbl roa rest (doTicks t tbl roa n r)

/-- returns (model output, spec output) -/
def run (line : String) : String × String :=
  match runP parseCase line with
  | .error e => (s!"bad-case {e}", "-")
  | .ok (.list withSpec raw ks carry) =>
    match buildTable raw with
    | .error e => (s!"rej {errName e}", "-")
    | .ok tbl =>
      let t := Overrides.new tbl
      let fresh := t.overrideKeys ks OverrideStates.new
      let carried := match t.overrideKeys carry OverrideStates.new with
        | .error c => .error c
        | .ok (_, st) => t.overrideKeys ks st
      let model := s!"{fmtRes fresh} | carried {fmtRes carried} | late={b01 (lateMod tbl ks)}"
      let spec := if withSpec then
          match specHeld tbl ks with
          | some s => s!"held {nums s}"
          | none => "-"
        else "-"
      (model, spec)
  | .ok (.pipe withSpec roa raw h) =>
    match buildTable raw with
    | .error e => (s!"rej {errName e}", "-")
    | .ok tbl =>
      let t := Overrides.new tbl
      let r := runHist t tbl roa h {}
      let model := " | ".intercalate (r.recs.reverse ++ [s!"late={b01 r.late}"])
      let spec := if withSpec && !r.crashed && r.specs.all (·.isSome) then
          " | ".intercalate (r.specs.reverse.filterMap id)
        else "-"
      (model, if spec == "" then "-" else spec)

end KVerif.Drv.C13
