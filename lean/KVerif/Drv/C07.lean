import KVerif.Drv.Kan
import KVerif.Drv.Trace
import KVerif.Drv.C14
namespace KVerif.Drv.C07o
open KVerif.Drv KVerif.Drv.Kan

/-- the trace without the layout digest (` D …`) and without the dynamic-macro digest (` M rec=…`, [dyn]) -/
def dropDigest (s : String) : String :=
  let s := (s.splitOn " D ").headD s
  ((s.splitOn " M rec=").headD s).trimAscii.toString

def flatten (items : List C14.TItem) : List (Nat × String) :=
  items.flatMap fun it => it.evs.map fun e => (it.vt, e)

/-- the model's diagnosis of a case: at which blocking points a tick would still change something -/
def diagnose (cs : String) : String :=
  match runP (Kan.case "KAN") cs with
  | .ok c =>
    match c.k with
    | some k =>
      match Kan.runHist false true false c.hist { c.run0 k with sched := c.sched1 } with
      | .ok r => (match r.diag with | [] => "" | d :: _ => s!" [model: {d}]")
      | .error _ => ""
    | none => ""
  | .error _ => ""

/-- The implementation run under the processing loop (which blocks whenever it may) is compared with
the run that asks the same question every millisecond but never blocks:
* different events, or a different order  → `fail different-output`
* same events, some of them later than the rapid-event-delay allows → `fail postponed`
  (a timeout waited for the next input)
* same events, every one at most rapid-event-delay later → `fail bounded-delay`
* identical → ok -/
def runOracle (line : String) : String × String :=
  let (cs, impl) := Trace.splitOracleLine line
  match impl.splitOn " || STEP " with
  | [lp, st] =>
    let a := dropDigest lp
    let b := dropDigest st
    if a == b then ("ok", "-") else
    let slack := match runP (Kan.case "KAN") cs with
      | .ok c => (match c.k with | some k => k.layout.oneshot.pauseInputProcessingDelay | none => 5)
      | .error _ => 5
    let la := flatten (C14.parseTrace ((a.splitOn " ").filter (· ≠ "")) [])
    let lb := flatten (C14.parseTrace ((b.splitOn " ").filter (· ≠ "")) [])
    if la.map (·.2) != lb.map (·.2) then
      let rec firstDiff : List (Nat × String) → List (Nat × String) → String
        | x :: xs, y :: ys => if x.2 == y.2 then firstDiff xs ys else s!"blocking loop emits {x.2} at {x.1} where the always-ticking loop emits {y.2} at {y.1}"
        | x :: _, [] => s!"blocking loop emits an extra {x.2} at {x.1}"
        | [], y :: _ => s!"blocking loop never emits {y.2} (always-ticking: at {y.1})"
        | [], [] => "idle flag differs"
      (s!"fail different-output {firstDiff la lb}{diagnose cs}", "-")
    else
      let worst := (la.zip lb).foldl (fun m (x, y) => max m (x.1 - y.1)) 0
      let early := (la.zip lb).any fun (x, y) => x.1 < y.1
      if early then ("fail different-timing an event is earlier under the blocking loop", "-")
      else if worst > slack + 1 then
        match (la.zip lb).find? (fun (x, y) => x.1 - y.1 > slack + 1) with
        | some (x, y) => (s!"fail postponed {x.2} is emitted at {x.1} under the blocking loop, at {y.1} when ticking: it waited for the next input{diagnose cs}", "-")
        | none => ("fail postponed", "-")
      else if worst == 0 then ("fail idle-flag the final idle flag differs", "-")
      else (s!"fail bounded-delay events are up to {worst} ms later under the blocking loop (rapid-event-delay {slack}){diagnose cs}", "-")
  | _ => ("skip", "-")

/-- model output; for configurations outside the kanata-level model the harness still runs the two
loops of the real code and reports whether they agree (`:: PAIR same|differ…`): the required answer
is `same` -/
def run (line : String) : String × String :=
  let (m, s) := Kan.run "KAN" line
  let isLoop := (line.splitOn " gap ").length > 1
  if m.startsWith "unsupported" && isLoop then (m ++ " :: PAIR same", s) else (m, s)

end KVerif.Drv.C07o
