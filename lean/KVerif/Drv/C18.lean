import KVerif.Drv.C14
namespace KVerif.Drv.C18
open KVerif.L KVerif.K KVerif.Drv KVerif.Drv.Kan KVerif.Drv.C14

def run (line : String) : String × String := Kan.run "KAN" line

/-- marker key code of a virtual key whose action is a plain key on layer 0 -/
def marker (k : KState) (y : Nat) : Option Nat :=
  match k.layout.cfg.layers[0]? with
  | some tbl => match tbl.find? (·.1 == (1, y)) with
    | some (_, .keyCode m) => some m
    | _ => none
  | none => none

/-- the custom action list of a physical key on layer 0 -/
def keyCustom (k : KState) (y : Nat) : Option (List CAct) :=
  match k.layout.cfg.layers[0]? with
  | some tbl => match tbl.find? (·.1 == (0, y)) with
    | some (_, .custom id) => k.customs[id]?
    | _ => none
  | none => none

def applyOp (n : Nat) : FkAction → Nat
  | .press => n + 1
  | .release => 0
  | .tap => 0
  | .toggle => if n > 0 then 0 else 1

/-- OS-down keys after every trace item up to virtual time `vt` -/
def downAt (items : List TItem) (vt : Nat) : List Nat :=
  (items.filter (·.vt ≤ vt)).foldl (fun d it => it.evs.foldl applyEv d) []

/-- family 1: settled press/release/tap/toggle operations on virtual key 0 (events ≥ 4 ticks apart) -/
def oracleSettled (k : KState) (hist : List KEv) (items : List TItem) : Option String :=
  match marker k 0 with
  | none => none
  | some m =>
    let rec go : List KEv → Nat → Nat → Option String   -- history, vt, expected hold count
      | [], _, _ => none
      | e :: rest, vt, n =>
        match e with
        | .tick t =>
          let vt' := vt + t
          -- checkpoint: state has settled when at least 4 ticks passed
          if t ≥ 4 then
            let isDown := (downAt items vt').contains m
            if isDown != decide (n > 0) then
              some s!"at {vt'} virtual key 0 should be {if n > 0 then "held" else "up"} but its output is {if isDown then "down" else "up"}"
            else go rest vt' n
          else go rest vt' n
        | .fake a c => if c == (1, 0) then go rest vt (applyOp n a) else go rest vt n
        | .press c =>
          match keyCustom k c.2 with
          | some [.fakeKey (1, 0) a] => go rest vt (applyOp n a)
          | _ => go rest vt n
        | .release c =>
          match keyCustom k c.2 with
          | some [.fakeKeyOnRelease (1, 0) a] => go rest vt (applyOp n a)
          | _ => go rest vt n
        | _ => go rest vt n
    go hist 0 0

def settled (hist : List KEv) : Bool :=
  -- every event is followed by a tick of at least 4
  let rec go : List KEv → Bool
    | [] => true
    | .tick _ :: rest => go rest
    | _ :: .tick t :: rest => t ≥ 4 && go rest
    | _ => false
  go hist

/-- family 2: hold-for-duration on virtual key 1: presses of the hold key only -/
def oracleHold (k : KState) (hist : List KEv) (items : List TItem) : Option String :=
  match marker k 1 with
  | none => none
  | some m =>
    -- the hold keys: the physical keys whose custom list is [fakeKeyHold (1,1) D] (each with its own D)
    let holdKeys : List (Nat × Nat) := (k.layout.cfg.layers[0]?.getD []).filterMap fun (c, a) =>
      match a with
      | .custom id => match k.customs[id]? with
        | some [.fakeKeyHold (1, 1) d] => if c.1 == 0 then some (c.2, d) else none
        | _ => none
      | _ => none
    if holdKeys.isEmpty then none else
      let durOf (y : Nat) : Option Nat := (holdKeys.find? (·.1 == y)).map (·.2)
      let dmax := holdKeys.foldl (fun m p => max m p.2) 0
      let onlyHold := hist.all fun e => match e with
        | .press c | .release c => c.1 == 0 && (durOf c.2).isSome
        | .tick _ => true
        | _ => false
      let longTail := match hist.getLast? with | some (.tick t) => t ≥ dmax + 10 | _ => false
      if !onlyHold || !longTail then none else
      -- activations (time, stated duration): each press is processed one tick after it arrives
      let rec acts : List KEv → Nat → List (Nat × Nat)
        | [], _ => []
        | .tick t :: rest, vt => acts rest (vt + t)
        | .press c :: rest, vt => (vt, (durOf c.2).getD 0) :: acts rest vt
        | _ :: rest, vt => acts rest vt
      let ts := acts hist 0
      match ts with
      | [] => none
      | (t0, _) :: _ =>
        let ds := (items.flatMap fun it => it.evs.filterMap fun e =>
          if e == s!"d{m}" then some (it.vt, true) else if e == s!"u{m}" then some (it.vt, false) else none)
        -- with presses and releases queued one per tick the exact ticks depend on queue position;
        -- what must hold: down no earlier than the first activation + 1, up no earlier than some
        -- activation's own time + its stated duration, up at the end, and the LAST release no later
        -- than the most recent activation's time + ITS stated duration (+ queueing slack): the most
        -- recent activation decides, whatever was left of an earlier, longer one
        let endsUp := !(downAt items 1000000).contains m
        let firstDown := ds.find? (·.2)
        if !endsUp then some s!"hold-for-duration: virtual key 1 still down at the end"
        else match firstDown with
          | none => some "hold-for-duration: virtual key 1 never went down"
          | some (td, _) =>
            if td < t0 + 2 then some s!"hold-for-duration: down at {td}, before the activation at {t0} could be processed"
            else
              let bad := ds.find? fun (tu, isDown) => !isDown && !(ts.any fun a => a.1 + 1 + a.2 ≤ tu)
              match bad with
              | some (tu, _) => some s!"hold-for-duration: released at {tu}, earlier than the stated time after every activation {ts}"
              | none =>
                let lastUp := (ds.filter (!·.2)).getLast?.map (·.1)
                match lastUp, ts.getLast? with
                | some tu, some (la, ld) =>
                  if tu > la + ld + 2 * ts.length + 3 then
                    some s!"hold-for-duration: released at {tu}, long after the most recent activation at {la} with stated time {ld}"
                  else none
                | _, _ => none

/-- family 3: on-idle tap of virtual key 2 under the processing loop -/
def oracleIdle (k : KState) (hist : List KEv) (items : List TItem) : Option String :=
  match marker k 2 with
  | none => none
  | some m =>
    let idleKey : Option (Nat × Nat) := (k.layout.cfg.layers[0]?.getD []).findSome? fun (c, a) =>
      match a with
      | .custom id => match k.customs[id]? with
        | some [.fakeKeyOnIdle (1, 2) .tap d] => if c.1 == 0 then some (c.2, d) else none
        | _ => none
      | _ => none
    match idleKey with
    | none => none
    | some (ik, d) =>
      if !(Kan.isLoop hist) then none else
      let pressedIdle := hist.any fun e => match e with | .press c => c == (0, ik) | _ => false
      if !pressedIdle then none else
      -- time of the last input event and total time
      let rec scan : List KEv → Nat → Nat → Nat × Nat
        | [], vt, last => (vt, last)
        | .gap t :: rest, vt, last => scan rest (vt + t) last
        | .tick t :: rest, vt, last => scan rest (vt + t) last
        | .press _ :: rest, vt, _ => scan rest (vt + 1) (vt + 1)
        | .release _ :: rest, vt, _ => scan rest (vt + 1) (vt + 1)
        | _ :: rest, vt, last => scan rest vt last
      let (total, lastInput) := scan hist 0 0
      let downs := items.flatMap fun it => it.evs.filterMap fun e => if e == s!"d{m}" then some it.vt else none
      if total < lastInput + d + 12 then none else
      match downs with
      | [] => some s!"on-idle {d}: never fired although idle for {total - lastInput} ms"
      | [t] =>
        if t < lastInput + d then some s!"on-idle {d}: fired at {t}, only {t - lastInput} ms after the last input at {lastInput}"
        else if t > lastInput + d + 12 then some s!"on-idle {d}: fired at {t}, much later than {d} ms after the last input at {lastInput}"
        else none
      | _ => some s!"on-idle {d}: fired {downs.length} times: {downs}"

def runOracle (line : String) : String × String :=
  let (cs, impl) := Trace.splitOracleLine line
  match runP (Kan.case "KAN") cs with
  | .error _ => ("skip", "-")
  | .ok c =>
    match c.k with
    | none => ("skip", "-")
    | some k =>
      if impl.startsWith "rej" || impl.startsWith "crash" || impl.startsWith "unsupported" then ("skip", "-") else
      let loopPart := (impl.splitOn " || STEP ").headD impl
      let items := parseTrace ((loopPart.splitOn " ").filter (· ≠ "")) []
      let r1 := if settled c.hist then oracleSettled k c.hist items else none
      let r := r1.orElse fun _ => (oracleHold k c.hist items).orElse fun _ => oracleIdle k c.hist items
      match r with
      | some e => (s!"fail {e}", "-")
      | none => ("ok", "-")

end KVerif.Drv.C18
