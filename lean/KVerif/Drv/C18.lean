import KVerif.Drv.C14
namespace KVerif.Drv.C18
open KVerif.L KVerif.K KVerif.Drv KVerif.Drv.Kan KVerif.Drv.C14

def run (line : String) : String × String := Kan.run "KAN" line

/-- marker key code of a virtual key whose action is a plain key on layer 0 -/
def marker (k : KState) (y : Nat) : Option Nat :=
  match k.layout.cfg.layers[0]? with
  | some tbl => match tbl.find? (·.1 == (1, y)) with
    | some (_, .keyCode m) => some m
    | _ => none
  | none => none

/-- the custom action list of a physical key on layer 0 -/
def keyCustom (k : KState) (y : Nat) : Option (List CAct) :=
  match k.layout.cfg.layers[0]? with
  | some tbl => match tbl.find? (·.1 == (0, y)) with
    | some (_, .custom id) => k.customs[id]?
    | _ => none
  | none => none

def applyOp (n : Nat) : FkAction → Nat
  | .press => n + 1
  | .release => 0
  | .tap => 0
  | .toggle => if n > 0 then 0 else 1

/-- OS-down keys after every trace item up to virtual time `vt` -/
def downAt (items : List TItem) (vt : Nat) : List Nat :=
  (items.filter (·.vt ≤ vt)).foldl (fun d it => it.evs.foldl applyEv d) []

/-- family 1: settled press/release/tap/toggle operations on virtual key 0 (events ≥ 4 ticks apart) -/
def oracleSettled (k : KState) (hist : List KEv) (items : List TItem) : Option String :=
  match marker k 0 with
  | none => none
  | some m =>
    let rec go : List KEv → Nat → Nat → Option String   -- history, vt, expected hold count
      | [], _, _ => none
      | e :: rest, vt, n =>
        match e with
        | .tick t =>
          let vt' := vt + t
          -- checkpoint: state has settled when at least 4 ticks passed
          if t ≥ 4 then
            let isDown := (downAt items vt').contains m
            if isDown != decide (n > 0) then
              some s!"at {vt'} virtual key 0 should be {if n > 0 then "held" else "up"} but its output is {if isDown then "down" else "up"}"
            else go rest vt' n
          else go rest vt' n
        | .fake a c => if c == (1, 0) then go rest vt (applyOp n a) else go rest vt n
        | .press c =>
          match keyCustom k c.2 with
          | some [.fakeKey (1, 0) a] => go rest vt (applyOp n a)
          | _ => go rest vt n
        | .release c =>
          match keyCustom k c.2 with
          | some [.fakeKeyOnRelease (1, 0) a] => go rest vt (applyOp n a)
          | _ => go rest vt n
        | _ => go rest vt n
    go hist 0 0

def settled (hist : List KEv) : Bool :=
  -- every event is followed by a tick of at least 4
  let rec go : List KEv → Bool
    | [] => true
    | .tick _ :: rest => go rest
    | _ :: .tick t :: rest => t ≥ 4 && go rest
    | _ => false
  go hist

/-- family 2: hold-for-duration on virtual key 1: presses of the hold key only -/
def oracleHold (k : KState) (hist : List KEv) (items : List TItem) : Option String :=
  match marker k 1 with
  | none => none
  | some m =>
    -- the hold keys: the physical keys whose custom list is [fakeKeyHold (1,1) D] (each with its own D)
    let holdKeys : List (Nat × Nat) := (k.layout.cfg.layers[0]?.getD []).filterMap fun (c, a) =>
      match a with
      | .custom id => match k.customs[id]? with
        | some [.fakeKeyHold (1, 1) d] => if c.1 == 0 then some (c.2, d) else none
        | _ => none
      | _ => none
    if holdKeys.isEmpty then none else
      let durOf (y : Nat) : Option Nat := (holdKeys.find? (·.1 == y)).map (·.2)
      let dmax := holdKeys.foldl (fun m p => max m p.2) 0
      let onlyHold := hist.all fun e => match e with
        | .press c | .release c => c.1 == 0 && (durOf c.2).isSome
        | .tick _ => true
        | _ => false
      let longTail := match hist.getLast? with | some (.tick t) => t ≥ dmax + 10 | _ => false
      if !onlyHold || !longTail then none else
      -- activations (time, stated duration): each press is processed one tick after it arrives
      let rec acts : List KEv → Nat → List (Nat × Nat)
        | [], _ => []
        | .tick t :: rest, vt => acts rest (vt + t)
        | .press c :: rest, vt => (vt, (durOf c.2).getD 0) :: acts rest vt
        | _ :: rest, vt => acts rest vt
      let ts := acts hist 0
      match ts with
      | [] => none
      | (t0, _) :: _ =>
        let ds := (items.flatMap fun it => it.evs.filterMap fun e =>
          if e == s!"d{m}" then some (it.vt, true) else if e == s!"u{m}" then some (it.vt, false) else none)
        -- with presses and releases queued one per tick the exact ticks depend on queue position;
        -- what must hold: down no earlier than the first activation + 1, up no earlier than some
        -- activation's own time + its stated duration, up at the end, and the LAST release no later
        -- than the most recent activation's time + ITS stated duration (+ queueing slack): the most
        -- recent activation decides, whatever was left of an earlier, longer one
        let endsUp := !(downAt items 1000000).contains m
        let firstDown := ds.find? (·.2)
        if !endsUp then some s!"hold-for-duration: virtual key 1 still down at the end"
        else match firstDown with
          | none => some "hold-for-duration: virtual key 1 never went down"
          | some (td, _) =>
            if td < t0 + 2 then some s!"hold-for-duration: down at {td}, before the activation at {t0} could be processed"
            else
              let bad := ds.find? fun (tu, isDown) => !isDown && !(ts.any fun a => a.1 + 1 + a.2 ≤ tu)
              match bad with
              | some (tu, _) => some s!"hold-for-duration: released at {tu}, earlier than the stated time after every activation {ts}"
              | none =>
                let lastUp := (ds.filter (!·.2)).getLast?.map (·.1)
                match lastUp, ts.getLast? with
                | some tu, some (la, ld) =>
                  if tu > la + ld + 2 * ts.length + 3 then
                    some s!"hold-for-duration: released at {tu}, long after the most recent activation at {la} with stated time {ld}"
                  else none
                | _, _ => none

/-- an operation on virtual key 1 as the statement sees it -/
inductive HOp
  | act (d : Nat)     -- hold-for-duration activation with stated time `d`
  | rel               -- an explicit release (release-vkey on the key, a direct release call, release-key of its code)
  deriving Repr, DecidableEq

/-- family 2c: hold-for-duration on virtual key 1 mixed with EXPLICIT releases of that key
(`release-vkey` from a physical key, a direct release call, `release-key` of its key code), every
operation at least 8 ticks after the previous one.  Written from the statement: "hold-for-duration
keeps the key pressed until the stated time has passed since its most recent activation", "press
holds its action until a release".  So at every instant the most recent operation decides: after a
release the key is up; after an activation at `ta` with stated time `D` the key is down from
`ta + 6` (queueing slack) to `ta + D` and up again from `ta + D + 6` on.  Instants inside the
slack windows are not judged.  A failure whose activation came after an explicit release but inside
the countdown of an earlier activation is tagged `rearmed-after-release` (recorded finding). -/
def oracleHoldRelease (k : KState) (hist : List KEv) (items : List TItem) : Option String :=
  match marker k 1 with
  | none => none
  | some m =>
    let layer0 : List (Coord × Action) := k.layout.cfg.layers[0]?.getD []
    let opOfKey (c : Coord) : Option (Option HOp) :=   -- none = the key is not understood
      if c.1 != 0 then none else
      match layer0.find? (·.1 == c) with
      | some (_, .custom id) => match k.customs[id]? with
        | some [.fakeKeyHold (1, 1) d] => some (some (.act d))
        | some [.fakeKey (1, 1) .release] => some (some .rel)
        | _ => none
      | some (_, .releaseState (.keyCode kc)) => if kc == m then some (some .rel) else none
      | some (_, .keyCode kc) => if kc == m then none else some none   -- a plain key: no operation
      | _ => none
    -- operations with their times; `none` when something is not understood
    let rec ops : List KEv → Nat → Option (List (Nat × HOp))
      | [], _ => some []
      | .tick t :: rest, vt => ops rest (vt + t)
      | .press c :: rest, vt =>
        match opOfKey c with
        | none => none
        | some o => (ops rest vt).map fun l => match o with | some op => (vt, op) :: l | none => l
      | .release c :: rest, vt =>
        match opOfKey c with
        | none => none
        | some _ => ops rest vt
      | .fake a c :: rest, vt =>
        if c == (1, 1) then (if a == .release then (ops rest vt).map ((vt, .rel) :: ·) else none)
        else none
      | _ :: _, _ => none
    match ops hist 0 with
    | none => none
    | some os =>
      let hasRel := os.any fun o => o.2 == .rel
      let hasAct := os.any fun o => match o.2 with | .act _ => true | .rel => false
      -- histories without an explicit release belong to family 2
      if !hasRel || !hasAct then none else
      let spaced := (os.zip (os.drop 1)).all fun (a, b) => a.1 + 8 ≤ b.1
      let total := hist.foldl (fun n e => match e with | .tick t => n + t | _ => n) 0
      let dmax := os.foldl (fun mx o => match o.2 with | .act d => max mx d | .rel => mx) 0
      let longTail := match hist.getLast?, os.getLast? with
        | some (.tick t), some (tl, _) => t ≥ dmax + 10 && total ≥ tl + dmax + 10
        | _, _ => false
      if !spaced || !longTail then none else
      -- the operation that decides at instant `vt`, and what came before it
      let rec judge : Nat → Nat → Option String   -- fuel, vt
        | 0, _ => none
        | f + 1, vt =>
          if vt > total then none else
          let before := os.filter (·.1 ≤ vt)
          let verdict : Option String :=
            match before.getLast? with
            | none => none
            | some (tl, op) =>
              let isDown := (downAt items vt).contains m
              match op with
              | .rel =>
                if vt ≥ tl + 6 && isDown then some s!"hold-release: virtual key 1 still down at {vt}, after the explicit release at {tl}" else none
              | .act d =>
                if vt ≥ tl + 6 && vt ≤ tl + d && !isDown then
                  -- was this activation issued after an explicit release, inside an earlier countdown?
                  let prev := before.dropLast
                  let afterRel := match prev.getLast? with | some (_, .rel) => true | _ => false
                  let insideOld := prev.any fun o => match o.2 with | .act d0 => tl ≤ o.1 + d0 + 2 | .rel => false
                  -- ... and the key was not pressed at all after it (anything else - pressed late,
                  -- released early - is not the recorded finding)
                  let neverDown := !(items.any fun it => it.vt ≥ tl && it.vt ≤ tl + d && it.evs.contains s!"d{m}")
                  let tag := if afterRel && insideOld && neverDown then "rearmed-after-release" else "not-held"
                  some s!"hold-release {tag}: virtual key 1 is up at {vt}, but hold-for-duration {d} was activated at {tl} (its most recent operation); operations {os.map fun o => (o.1, match o.2 with | .act d => s!"hold {d}" | .rel => "release")}"
                else if vt ≥ tl + d + 6 && isDown then
                  some s!"hold-release: virtual key 1 still down at {vt}, activated at {tl} for {d}"
                else none
          match verdict with
          | some e => some e
          | none => judge f (vt + 1)
      judge (total + 1) 0

/-- hold count and number of up→down transitions after one operation -/
def applyOpCount (st : Nat × Nat) : FkAction → Nat × Nat
  | .press => (st.1 + 1, st.2 + (if st.1 == 0 then 1 else 0))
  | .release => (0, st.2)
  | .tap => (0, st.2 + (if st.1 == 0 then 1 else 0))
  | .toggle => if st.1 > 0 then (0, st.2) else (1, st.2 + 1)

/-- family 2d: a MACRO operating virtual key 1 (`(macro (on-press-fakekey v1 ..) D ..)`) while other
keys operate virtual key 0 or a mouse button through custom actions of their own.  From the
statement ("press holds its action until a release, tap does both, toggle alternates ..., the same
effect whether triggered from a key, a macro, ..."): the operations written in the macro take effect
in the order written, whatever else is processed in the same tick, so after a long quiet tail the
output of each virtual key is down iff its operations leave it held, and it went down exactly as
often as an operation found it up.  Judged when at most one macro key is pressed, once. -/
def oracleMacro (k : KState) (hist : List KEv) (items : List TItem) : Option String :=
  match marker k 0, marker k 1 with
  | some m0, some m1 =>
    let layer0 : List (Coord × Action) := k.layout.cfg.layers[0]?.getD []
    -- the operations on v1 written in a macro (delays and nothing else in between)
    let macroOps (evs : List SeqEv) : Option (List FkAction) :=
      evs.foldl (fun acc e => match acc, e with
        | none, _ => none
        | some l, .custom id => match k.customs[id]? with
          | some [.fakeKey (1, 1) a] => some (l ++ [a])
          | _ => none
        | some l, .delay _ => some l
        | some l, .complete => some l
        | some l, .noOp => some l
        | some _, _ => none) (some [])
    let macroOf (c : Coord) : Option (List FkAction) :=
      match layer0.find? (·.1 == c) with
      | some (_, .sequence evs) => match macroOps evs with
        | some [] => none
        | r => r
      | _ => none
    -- what a non-macro key does to v0: (on press, on release); none = not understood
    let keyOps (c : Coord) : Option (Option FkAction × Option FkAction) :=
      match layer0.find? (·.1 == c) with
      | some (_, .custom id) => match k.customs[id]? with
        | some [.fakeKey (1, 0) a] => some (some a, none)
        | some [.fakeKeyOnRelease (1, 0) a] => some (none, some a)
        | some [.mouse _] => some (none, none)
        | _ => none
      | some (_, .keyCode kc) => if kc == m0 || kc == m1 then none else some (none, none)
      | _ => none
    let macroPresses := hist.filter fun e => match e with | .press c => (macroOf c).isSome | _ => false
    if macroPresses.length != 1 then none else
    let longTail := match hist.getLast? with | some (.tick t) => t ≥ 60 | _ => false
    if !longTail then none else
    -- replay: v1 from the macro's list, v0 from the key events in order
    let rec go : List KEv → (Nat × Nat) → (Nat × Nat) → Option ((Nat × Nat) × (Nat × Nat))
      | [], s0, s1 => some (s0, s1)
      | .tick _ :: rest, s0, s1 => go rest s0 s1
      | .press c :: rest, s0, s1 =>
        if c.1 != 0 then none else
        match macroOf c with
        | some ops => go rest s0 (ops.foldl applyOpCount s1)
        | none => match keyOps c with
          | some (some a, _) => go rest (applyOpCount s0 a) s1
          | some (none, _) => go rest s0 s1
          | none => none
      | .release c :: rest, s0, s1 =>
        if c.1 != 0 then none else
        match macroOf c with
        | some _ => go rest s0 s1
        | none => match keyOps c with
          | some (_, some a) => go rest (applyOpCount s0 a) s1
          | some (_, none) => go rest s0 s1
          | none => none
      | _ :: _, _, _ => none
    match go hist (0, 0) (0, 0) with
    | none => none
    | some (s0, s1) =>
      let downsOf (m : Nat) : Nat := (items.flatMap fun it => it.evs.filter (· == s!"d{m}")).length
      let final := downAt items 1000000
      let chk (name : String) (m : Nat) (st : Nat × Nat) : Option String :=
        if final.contains m != decide (st.1 > 0) then
          some s!"macro-vkey: virtual key {name} should end {if st.1 > 0 then "held" else "up"} but its output is {if final.contains m then "down" else "up"}"
        else if downsOf m != st.2 then
          some s!"macro-vkey: the output of virtual key {name} went down {downsOf m} time(s), its operations press it {st.2} time(s)"
        else none
      (chk "1 (operated by the macro)" m1 s1).orElse fun _ => chk "0 (operated by the other key)" m0 s0
  | _, _ => none

/-- family 3: on-idle tap of virtual key 2 under the processing loop -/
def oracleIdle (k : KState) (hist : List KEv) (items : List TItem) : Option String :=
  match marker k 2 with
  | none => none
  | some m =>
    let idleKey : Option (Nat × Nat) := (k.layout.cfg.layers[0]?.getD []).findSome? fun (c, a) =>
      match a with
      | .custom id => match k.customs[id]? with
        | some [.fakeKeyOnIdle (1, 2) .tap d] => if c.1 == 0 then some (c.2, d) else none
        | _ => none
      | _ => none
    match idleKey with
    | none => none
    | some (ik, d) =>
      if !(Kan.isLoop hist) then none else
      let pressedIdle := hist.any fun e => match e with | .press c => c == (0, ik) | _ => false
      if !pressedIdle then none else
      -- time of the last input event and total time
      let rec scan : List KEv → Nat → Nat → Nat × Nat
        | [], vt, last => (vt, last)
        | .gap t :: rest, vt, last => scan rest (vt + t) last
        | .tick t :: rest, vt, last => scan rest (vt + t) last
        | .press _ :: rest, vt, _ => scan rest (vt + 1) (vt + 1)
        | .release _ :: rest, vt, _ => scan rest (vt + 1) (vt + 1)
        | _ :: rest, vt, last => scan rest vt last
      let (total, lastInput) := scan hist 0 0
      let downs := items.flatMap fun it => it.evs.filterMap fun e => if e == s!"d{m}" then some it.vt else none
      if total < lastInput + d + 12 then none else
      match downs with
      | [] => some s!"on-idle {d}: never fired although idle for {total - lastInput} ms"
      | [t] =>
        if t < lastInput + d then some s!"on-idle {d}: fired at {t}, only {t - lastInput} ms after the last input at {lastInput}"
        else if t > lastInput + d + 12 then some s!"on-idle {d}: fired at {t}, much later than {d} ms after the last input at {lastInput}"
        else none
      | _ => some s!"on-idle {d}: fired {downs.length} times: {downs}"

def runOracle (line : String) : String × String :=
  let (cs, impl) := Trace.splitOracleLine line
  match runP (Kan.case "KAN") cs with
  | .error _ => ("skip", "-")
  | .ok c =>
    match c.k with
    | none => ("skip", "-")
    | some k =>
      if impl.startsWith "rej" || impl.startsWith "crash" || impl.startsWith "unsupported" then ("skip", "-") else
      let loopPart := (impl.splitOn " || STEP ").headD impl
      let items := parseTrace ((loopPart.splitOn " ").filter (· ≠ "")) []
      let r1 := if settled c.hist then oracleSettled k c.hist items else none
      let r := r1.orElse fun _ => (oracleHold k c.hist items).orElse fun _ =>
        (oracleHoldRelease k c.hist items).orElse fun _ => (oracleMacro k c.hist items).orElse fun _ =>
        oracleIdle k c.hist items
      match r with
      | some e => (s!"fail {e}", "-")
      | none => ("ok", "-")

end KVerif.Drv.C18
