/- Dynamic-macro parts of the kanata-level line protocol (`KANX` lines): the `DYN` section written by
harness/src/kandyn.rs (options and the hash-set order hints observed on the real code, stamped with
virtual time), and the digest of the dynamic-macro state printed at the end of a run. -/
import KVerif.Drv.Tok
import KVerif.Model.KanataDynTick
namespace KVerif.Drv.KanDyn
open KVerif KVerif.K KVerif.Drv

/-- hints with the virtual time (before the step) at which the real code produced them -/
abbrev Sched := List (Nat × List Nat)

def sched (tag : String) : P Sched := do
  expect tag
  let n ← num
  rep n (do let vt ← num; let m ← num; let h ← rep m num; pure (vt, h))

/-- ` DYN <max presses> <behaviour 0 constant / 1 recorded> <fix 0/1> DMH … DMH2 …` (optional) -/
def dynSection (k : KState) : P (KState × Sched × Sched) := do
  match (← peek?) with
  | some "DYN" => do
    let _ ← tok
    let max ← num; let beh ← num; let fix ← num
    let s1 ← sched "DMH"
    let s2 ← sched "DMH2"
    pure ({ k with dyn := { k.dyn with maxPresses := max, beh := if beh == 0 then .constant else .recorded, fix := fix == 1 } }, s1, s2)
  | _ => pure (k, [], [])

/-- the hints known at virtual time `vt`, newest first -/
def hintsAt (s : Sched) (vt : Nat) : List (List Nat) :=
  ((s.filter (·.1 ≤ vt)).map (·.2)).reverse

def withHints (s : Sched) (vt : Nat) (k : KState) : KState :=
  if s.isEmpty then k else { k with dyn := { k.dyn with hints := hintsAt s vt } }

def usesDyn (k : KState) : Bool :=
  k.customs.any fun l => l.any fun a => match a with | .dyn _ => true | _ => false

def fmtItem : DynMacro.Item → String
  | .press o d => s!"P{o}.{d}"
  | .release o d => s!"R{o}.{d}"
  | .endMacro id => s!"E{id}"

def fmtItems (l : List DynMacro.Item) : String := ",".intercalate (l.map fmtItem)

/-- insertion sort of the store by macro id (the real store is a hash map) -/
def insertById (e : Nat × List DynMacro.Item) : List (Nat × List DynMacro.Item) → List (Nat × List DynMacro.Item)
  | [] => [e]
  | x :: r => if e.1 ≤ x.1 then e :: x :: r else x :: insertById e r

def insertNat (e : Nat) : List Nat → List Nat
  | [] => [e]
  | x :: r => if e ≤ x then e :: x :: r else x :: insertNat e r

/-- `M rec=<id;waiting;delay;items | -> rep=<active;delay;items | -> st=<id=[items];… | ->` as the
verification hooks `verif_digest` of src/kanata/dynamic_macro.rs print them -/
def digest (d : Dyn) : String :=
  let rc := match d.rcd with
    | none => "-"
    | some r =>
      let w := match r.waiting with
        | none => "-"
        | some (o, .press) => s!"P{o}"
        | some (o, .release) => s!"R{o}"
      s!"{r.id};{w};{r.delay};{fmtItems r.items}"
  let rp := match d.rep with
    | none => "-"
    | some r => s!"{",".intercalate ((r.active.foldr insertNat []).map toString)};{r.delay};{fmtItems r.queue}"
  let st := match d.store.foldr insertById [] with
    | [] => "-"
    | l => ";".intercalate (l.map fun (e : Nat × List DynMacro.Item) => s!"{e.1}=[{if e.2.isEmpty then "-" else fmtItems e.2}]")
  s!"M rec={rc} rep={rp} st={st}"

end KVerif.Drv.KanDyn
