import KVerif.Drv.Lay
import KVerif.Spec.Layered
namespace KVerif.Drv.C04
open KVerif.L KVerif.Drv KVerif.Drv.Cfg KVerif.Spec

mutual
  partial def frag04 : Action → Bool
    | .noOp | .trans | .keyCode _ | .multipleKeyCodes _ | .layer _ | .defaultLayer _
    | .releaseState _ | .src => true
    | .multipleActions acs => acs.all frag04
    | _ => false
end

def cfgFrag04 (l : Layout) : Bool :=
  l.cfg.layers.all (fun tbl => tbl.all (fun e => frag04 e.2)) &&
  l.cfg.srcKeys.all (fun e => match e.2 with | .keyCode _ | .noOp => true | _ => false)

structure SRun where
  s : Layered.State
  tick : Nat := 0
  prev : List Nat := []
  out : Array String := #[]
  overflow : Bool := false

def specRun (km : Layered.Keymap) : List HEv → SRun → SRun
  | [], r => r
  | .press c :: rest, r =>
    specRun km rest { r with s := Layered.input r.s (.press c), overflow := r.overflow || r.s.pending.length ≥ 31 }
  | .release c :: rest, r =>
    specRun km rest { r with s := Layered.input r.s (.release c), overflow := r.overflow || r.s.pending.length ≥ 31 }
  | .tick n :: rest, r =>
    let rec go : Nat → SRun → SRun
      | 0, r => r
      | n + 1, r =>
        let s := Layered.step km r.s
        let t := r.tick + 1
        let ks := Layered.keys s
        let out := if ks != r.prev then r.out.push s!"@{t} K{Lay.fmtKeys ks}" else r.out
        go n { r with s, tick := t, prev := ks, out }
    specRun km rest (go n r)

def run (line : String) : String × String :=
  match runP (Cfg.case "LAY") line with
  | .error e => (s!"bad-case {e}", "-")
  | .ok c =>
    -- the harness appends the verdict of "layer table built by the parser = the generator's intent"
    -- and of "the OS key events of the real Kanata are the de-duplicated diff of consecutive key
    -- lists" (no release of a key that is up, no press of a key that is down: `release_once`);
    -- the model runs on the table the parser built, so its side of that comparison is always `ok`
    let m0 := Lay.modelOut c
    let model := if m0.startsWith "rej" || m0.startsWith "crash" || m0.startsWith "unsupported" then m0 else m0 ++ " TBL=ok OS=ok"
    let spec := match c.layout with
      | none => "-"
      | some l =>
        if cfgFrag04 l then
          let km : Layered.Keymap := { cfg := l.cfg, layerStack := l.transV2, delegateToFirst := l.delegateToFirstLayer }
          let r := specRun km c.hist { s := {} }
          if r.overflow then "-" else
          joinWith " " r.out.toList
        else "-"
    (model, spec)

end KVerif.Drv.C04
