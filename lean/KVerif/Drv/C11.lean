import KVerif.Drv.Tok
import KVerif.Model.KeyId
import KVerif.Spec.KeyId
/-! Line-protocol driver for C11 (formats: harness/src/c11.rs). -/
namespace KVerif.Drv.C11
open KVerif.KeyId KVerif.Gen.KeyTables KVerif.Drv

/-- `97.98` → encoded name; `-` → the empty name -/
def nameTok : P Name := do
  let t ← tok
  if t == "-" then return encName [] else
  let parts := t.splitOn "."
  let cps ← parts.mapM (fun p => match p.toNat? with
    | some n => pure n
    | none => throw s!"bad code point {p}")
  return encName cps

def lmIn : P LmIn := do
  let t ← tok
  match t with
  | "_" => return .any1
  | "__" => return .any2
  | "___" => return .any3
  | _ =>
    if t.startsWith "k:" then
      let cps ← ((t.drop 2).toString.splitOn ".").mapM (fun p => match p.toNat? with
        | some n => pure n
        | none => throw s!"bad code point {p}")
      return .key (encName cps)
    else throw s!"bad deflayermap input {t}"

def layer : P Layer := do
  let k ← tok
  match k with
  | "plain" => do let n ← num; return .plain (← rep n nameTok)
  | "map" => do
    let n ← num
    return .map (← rep n (do let i ← lmIn; let a ← nameTok; pure (i, a)))
  | x => throw s!"bad layer kind {x}"

def config : P Config := do
  expect "loc"
  let n ← num
  let loc ← rep n (do let nm ← nameTok; let v ← num; pure (nm, v))
  expect "puk"
  let p ← tok
  let puk ← match p with
    | "no" => pure Puk.no
    | "yes" => pure Puk.yes
    | "exc" => do let n ← num; pure (Puk.allExcept (← rep n nameTok))
    | x => throw s!"bad puk {x}"
  expect "src"
  let n ← num
  let src ← rep n nameTok
  expect "layers"
  let n ← num
  let layers ← rep n layer
  return { localKeys := loc, puk := puk, defsrc := src, layers := layers }

inductive Case where
  | code (v : Nat)
  | name (n : Name) (act : Bool)
  | mapped (c : Config)
  | tap (v : Nat) (c : Config)

def parseCase : P Case := do
  expect "C11"
  let k ← tok
  match k with
  | "code" => return .code (← num)
  | "name" => do let n ← nameTok; let a ← num; return .name n (a == 1)
  | "mapped" => return .mapped (← config)
  | "tap" => do let v ← num; return .tap v (← config)
  | x => throw s!"unknown case kind {x}"

def perrName : PErr → String
  | .localDup => "localDup" | .localUnknownNumber => "localUnknownNumber"
  | .excUnknown => "excUnknown" | .excDup => "excDup" | .excEmpty => "excEmpty"
  | .srcUnknown => "srcUnknown" | .srcRepeat => "srcRepeat" | .srcExcepted => "srcExcepted"
  | .lmUnknown => "lmUnknown" | .lmRepeat => "lmRepeat" | .lmAny1Twice => "lmAny1Twice"
  | .lmAny2Twice => "lmAny2Twice" | .lmAny3Twice => "lmAny3Twice" | .lmAnyMix => "lmAnyMix"
  | .lmNeedsPuk => "lmNeedsPuk" | .action => "action"

def crashStr : Crash → String
  | .invalidEnum v => s!"crash invalidEnum {v}"
  | .indexOOB i => s!"crash indexOOB {i}"

def fmtCodes (l : List Nat) : String := joinWith "," (l.map toString)

def fmtOut : Out → String
  | .down c => s!"d{c}" | .up c => s!"u{c}"
  | .btnDown c => s!"bd{c}" | .btnUp c => s!"bu{c}"
  | .scroll c d => s!"wh{c}:{d}"
  | .raw c r => s!"raw{c}:{if r then 1 else 0}"

def fmtOuts (l : List Out) : String := joinWith " " (l.map fmtOut)

def insertSorted (x : Nat) : List Nat → List Nat
  | [] => [x]
  | y :: ys => if x < y then x :: y :: ys else if x = y then y :: ys else y :: insertSorted x ys

def sortDedup (l : List Nat) : List Nat := l.foldl (fun acc x => insertSorted x acc) []

def actTag : Option (Except Crash Act) → String
  | none => "err"
  | some (.error c) => crashStr c
  | some (.ok .noOp) => "noop"
  | some (.ok .trans) => "trans"
  | some (.ok (.keyCode k)) => s!"key {k}"
  | some (.ok (.mouseBtn c)) => s!"btn {c}"
  | some (.ok (.mouseWheel c)) => s!"wheel {c}"
  | some (.ok .other) => "other"

def runCode (v : Nat) : String × String :=
  let m := if modifierCodes.contains v && accepted v then 1 else 0
  let model := match fromU16 v with
    | none => "from none | mod 0"
    | some c =>
      match keyCodeOfOsCode c with
      | .error e => s!"from {asU16 c} kc {crashStr e} | mod {m}"
      | .ok k => match osCodeOfKeyCode k with
        | .error e => s!"from {asU16 c} kc {k} back {crashStr e} | mod {m}"
        | .ok o => s!"from {asU16 c} kc {k} back {asU16 o} | mod {m}"
  let spec :=
    if Spec.known v then s!"from {v} kc {v} back {v}"
    else if !isOsCode v then "from none"
    else "-"
  (model, spec)

def runName (n : Name) (act : Bool) : String × String :=
  let looked := strToOscode defaultCustom n
  let a := if act then actTag (parseActionAtom defaultCustom n) else "-"
  -- what a non-key atom means as an action (alias, chord prefix, unicode, …) is outside this slice
  let a := if looked.isNone && (a == "err" || a == "other") then "nokey" else a
  let model := s!"name {match looked with | some c => toString c | none => "none"} act {a}"
  let spec := match Spec.nameSpec n looked with
    | none => "-"
    | some c =>
      if act then
        -- written as an action the name must denote the same key, unless it is one of the
        -- non-key special atoms of parse_action_atom
        if specialActionAtoms.contains n && (mouseActionAtoms.lookup n).isNone then "-"
        else s!"name {c} denotes {c}"
      else s!"name {c} denotes -"
  (model, spec)

def runMapped (c : Config) : String × String :=
  match mappedKeys c with
  | .rejected e => (s!"rej {perrName e}", "-")
  | .crash e => (crashStr e, s!"ok {fmtCodes (sortDedup (Spec.mappedSpec c))}")
  | .ok m => (s!"ok {fmtCodes (sortDedup m)}", s!"ok {fmtCodes (sortDedup (Spec.mappedSpec c))}")

def runTap (v : Nat) (c : Config) : String × String :=
  match parseCfg c with
  | .rejected e => (s!"rej {perrName e}", "-")
  | .crash e =>
    -- an accepted configuration must not crash the parser; the rows are not available here, so
    -- the expected output is the one of an identity configuration
    let m := (Spec.mappedSpec c).contains v
    (crashStr e, if accepted v && v != 0 then s!"m {if m then 1 else 0} | {fmtOuts (Spec.tapSpec m v)}" else "-")
  | .ok p =>
    if !accepted v then ("notacode", "-") else
    let row := p.rows.headD []
    let model := match tap p.mapped row v with
      | .error e => crashStr e
      | .ok outs => s!"m {if p.mapped.contains v then 1 else 0} | {fmtOuts outs}"
    let identityCfg := match row.lookup v with
      | none => true
      | some .trans => true
      | some (.keyCode k) => k == v
      | some (.mouseBtn k) => k == v
      | some (.mouseWheel k) => k == v
      | _ => false
    let spec :=
      if v == 0 || !identityCfg then "-"
      else
        let m := (Spec.mappedSpec c).contains v
        s!"m {if m then 1 else 0} | {fmtOuts (Spec.tapSpec m v)}"
    (model, spec)

/-- returns (model output, spec output) -/
def run (line : String) : String × String :=
  -- [t8:pipe] whole configurations on the real pipeline are judged on the implementation's own
  -- trace by the runner (`_c11_free_oracle`); the model says nothing about them
  if line.startsWith "C11 pipe " then ("pipe", "-") else
  match runP parseCase line with
  | .error e => (s!"bad-case {e}", "-")
  | .ok (.code v) => runCode v
  | .ok (.name n a) => runName n a
  | .ok (.mapped c) => runMapped c
  | .ok (.tap v c) => runTap v c

end KVerif.Drv.C11
