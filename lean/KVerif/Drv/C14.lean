import KVerif.Drv.Kan
import KVerif.Drv.Trace
import KVerif.Model.KeyOutputs
namespace KVerif.Drv.C14
open KVerif.L KVerif.K KVerif.KO KVerif.Drv KVerif.Drv.Kan

/-- the key-output table recomputed by the model from the serialised layer actions, for the physical
keys the harness serialised; compared with the table the real parser built -/
-- chv2: `add_chordsv2_output_for_key_pos`: after the key's own action, the action of every chord the
-- key takes part in that is not disabled on the layer
def rowWithChords (k : KState) (chv2 : Option ChV2Cfg) (li slot : Nat) (a : Action) : List Nat :=
  let chords := ((chv2.bind (·.get slot)).getD []).filter fun ch => !ch.disabledLayers.contains li
  chords.foldl (fun o ch => addOutputs k.customs slot ch.action o) (keyOutputs k.customs slot a)

def tableMismatch (k : KState) (chv2 : Option ChV2Cfg := none) : Option String :=
  let layers := k.layout.cfg.layers
  (List.range layers.length).findSome? fun li =>
    let tbl := layers[li]!
    let real := k.keyOutputs[li]?.getD []
    -- every serialised row-0 position
    (tbl.filter (·.1.1 == 0)).findSome? fun (c, a) =>
      let mine := withOverrides k.overrides (rowWithChords k chv2 li c.2 a)
      let theirs := ((real.find? (·.1 == c.2)).map (·.2)).getD []
      if mine == theirs then none
      else some s!"layer {li} key {c.2}: parser table {theirs} model {mine}"

/-- the state with the key-output table the MODEL computes (the complete one, `keyouts_complete`)
in place of the one the parser built, for every serialised key: the model then behaves as the
statement requires even when the parser's table is missing an output, and the difference shows as a
repeat the implementation drops -/
def withModelTable (k : KState) (chv2 : Option ChV2Cfg := none) : KState :=
  let layers := k.layout.cfg.layers
  { k with keyOutputs := (List.range layers.length).map fun li =>
      let tbl := layers[li]!
      let real := k.keyOutputs[li]?.getD []
      let mine := (tbl.filter (·.1.1 == 0)).map fun (c, a) => (c.2, withOverrides k.overrides (rowWithChords k chv2 li c.2 a))
      mine ++ real.filter fun e => !(mine.any (·.1 == e.1)) }

def modelOut (c : Kan.Case) : String :=
  let base := Kan.modelOut { c with k := c.k.map (withModelTable · c.chv2) }
  match c.k with
  | some k => match tableMismatch k c.chv2 with
    | some why => s!"{base} KEYOUTS-DIFFER {why}"
    | none => base
  | none => base

def run (line : String) : String × String :=
  match runP (Kan.case "KAN") line with
  | .error e => (s!"bad-case {e}", "-")
  | .ok c => (modelOut c, "-")

/-! ### oracle on the implementation trace -/

structure TItem where
  vt : Nat
  isRepeat : Bool
  evs : List String
  deriving Repr

partial def parseTrace (toks : List String) (acc : List TItem) : List TItem :=
  match toks with
  | [] => acc.reverse
  | t :: rest =>
    if t.startsWith "@" then
      let body := (t.drop 1).toString
      let isR := body.endsWith "R"
      let num := if isR then (body.dropEnd 1).toString else body
      let evs := rest.takeWhile fun x => !(x.startsWith "@") && x != "I" && x != "D" && !(x.startsWith "#")
      parseTrace (rest.drop evs.length) ({ vt := num.toNat?.getD 0, isRepeat := isR, evs } :: acc)
    else if t == "I" || t == "D" then acc.reverse
    else parseTrace rest acc

def applyEv (down : List Nat) (e : String) : List Nat :=
  if e.startsWith "d" then match (e.drop 1).toNat? with | some k => k :: down | none => down
  else if e.startsWith "u" then match (e.drop 1).toNat? with | some k => down.erase k | none => down
  else down

/-- simple single-layer configurations: every row-0 action is built from plain keys, output chords,
multi and use-defsrc only -/
partial def simpleAct : Action → Bool
  | .keyCode _ | .multipleKeyCodes _ | .src | .noOp => true
  | .multipleActions as => as.all simpleAct
  | _ => false

def hasUnmod (k : KState) : Bool :=
  k.customs.any fun l => l.any fun a => match a with | .unmodded .. | .unshifted .. => true | _ => false

def oracle (k : KState) (hist : List KEv) (items : List TItem) : String :=
  let simple := k.layout.cfg.layers.length == 1 &&
    k.layout.cfg.layers.all fun tbl => tbl.all fun e => e.1.1 != 0 || simpleAct e.2
  -- walk history and trace together
  let rec go : List KEv → List TItem → Nat → List Nat → List (Nat × Nat) → Nat → Option String
    -- args: history, remaining items, vt, OS-down keys, physically down keys with press time,
    -- time of the last physical release (+1; 0 = none yet)
    | [], _, _, _, _, _ => none
    | e :: rest, items, vt, down, phys, lastRel =>
      match e with
      | .tick n =>
        let vt' := vt + n
        let (mine, later) := items.span fun it => it.vt ≤ vt' && !it.isRepeat
        let down' := mine.foldl (fun d it => it.evs.foldl applyEv d) down
        go rest later vt' down' phys lastRel
      | .press c => go rest items vt down (if c.1 == 0 then (c.2, vt) :: phys else phys) lastRel
      | .release c => go rest items vt down (phys.filter (·.1 != c.2)) (vt + 1)
      | .rep y =>
        match items with
        | it :: later =>
          if !it.isRepeat then some s!"repeat at {vt}: no item recorded" else
          let emitted := it.evs.filter (· != "-")
          if emitted.length > 1 then some s!"repeat at {vt} emitted {emitted.length} events" else
          let bad : Option String := match emitted with
            | [ev] =>
              if !ev.startsWith "d" then some s!"repeat at {vt} emitted {ev}"
              else match (ev.drop 1).toNat? with
                | some kc => if down.contains kc then none else some s!"repeat at {vt} forwarded for key {kc} which is up at the OS"
                | none => some s!"repeat at {vt} emitted {ev}"
            | _ => none
          match bad with
          | some b => some b
          | none =>
            -- completeness on simple configurations: the key is held, its press was processed, and
            -- it put an output down → a repeat for its last-listed output that is down
            let heldLongEnough := phys.any fun p => p.1 == y && p.2 + 3 ≤ vt
            if simple && heldLongEnough && !hasUnmod k then
              match (k.layout.cfg.layers[0]!).find? (·.1 == (0, y)) with
              | some (_, a) =>
                let outs := withOverrides k.overrides (keyOutputs k.customs y a)
                match (if outs.any (fun c => k.ignoreMin ≤ c && c ≤ k.ignoreMax) then none else outs.reverse.find? (down.contains ·)) with
                | some want =>
                  if emitted == [s!"d{want}"] then go rest later vt down phys lastRel
                  else some s!"repeat at {vt} for held key {y}: expected d{want}, got {emitted}"
                | none => go rest later vt down phys lastRel
              | none => go rest later vt down phys lastRel
            else go rest later vt down phys lastRel
        | [] => some s!"repeat at {vt}: trace ended"
      | _ => go rest items vt down phys lastRel
  match go hist items 0 [] [] 0 with
  | none => "ok"
  | some e => s!"fail {e}"

def runOracle (line : String) : String × String :=
  let (cs, impl) := Trace.splitOracleLine line
  match runP (Kan.case "KAN") cs with
  | .error _ => ("skip", "-")
  | .ok c =>
    match c.k with
    | none => ("skip", "-")
    | some k =>
      if impl.startsWith "rej" || impl.startsWith "crash" || impl.startsWith "unsupported" then ("skip", "-")
      else (oracle k c.hist (parseTrace ((impl.splitOn " ").filter (· ≠ "")) []), "-")

end KVerif.Drv.C14
