import KVerif.Drv.Kan
import KVerif.Drv.Trace
import KVerif.Model.KeyOutputs
namespace KVerif.Drv.C14
open KVerif.L KVerif.K KVerif.KO KVerif.Drv KVerif.Drv.Kan

/-- the key-output table recomputed by the model from the serialised layer actions, for the physical
keys the harness serialised; compared with the table the real parser built -/
-- chv2: `add_chordsv2_output_for_key_pos`: after the key's own action, the action of every chord the
-- key takes part in that is not disabled on the layer
def rowWithChords (k : KState) (chv2 : Option ChV2Cfg) (li slot : Nat) (a : Action) : List Nat :=
  let chords := ((chv2.bind (·.get slot)).getD []).filter fun ch => !ch.disabledLayers.contains li
  chords.foldl (fun o ch => addOutputs k.customs slot ch.action o) (keyOutputs k.customs slot a)

def tableMismatch (k : KState) (chv2 : Option ChV2Cfg := none) : Option String :=
  let layers := k.layout.cfg.layers
  (List.range layers.length).findSome? fun li =>
    let tbl := layers[li]!
    let real := k.keyOutputs[li]?.getD []
    -- every serialised row-0 position
    (tbl.filter (·.1.1 == 0)).findSome? fun (c, a) =>
      let mine := withOverrides k.overrides (rowWithChords k chv2 li c.2 a)
      let theirs := ((real.find? (·.1 == c.2)).map (·.2)).getD []
      if mine == theirs then none
      else some s!"layer {li} key {c.2}: parser table {theirs} model {mine}"

/-- the state with the key-output table the MODEL computes (the complete one, `keyouts_complete`)
in place of the one the parser built, for every serialised key: the model then behaves as the
statement requires even when the parser's table is missing an output, and the difference shows as a
repeat the implementation drops -/
def withModelTable (k : KState) (chv2 : Option ChV2Cfg := none) : KState :=
  let layers := k.layout.cfg.layers
  { k with keyOutputs := (List.range layers.length).map fun li =>
      let tbl := layers[li]!
      let real := k.keyOutputs[li]?.getD []
      let mine := (tbl.filter (·.1.1 == 0)).map fun (c, a) => (c.2, withOverrides k.overrides (rowWithChords k chv2 li c.2 a))
      mine ++ real.filter fun e => !(mine.any (·.1 == e.1)) }

def modelOut (c : Kan.Case) : String :=
  let base := Kan.modelOut { c with k := c.k.map (withModelTable · c.chv2) }
  match c.k with
  | some k => match tableMismatch k c.chv2 with
    | some why => s!"{base} KEYOUTS-DIFFER {why}"
    | none => base
  | none => base

def run (line : String) : String × String :=
  match runP (Kan.case "KAN") line with
  | .error e => (s!"bad-case {e}", "-")
  | .ok c => (modelOut c, "-")

/-! ### oracle on the implementation trace -/

structure TItem where
  vt : Nat
  isRepeat : Bool
  evs : List String
  deriving Repr

partial def parseTrace (toks : List String) (acc : List TItem) : List TItem :=
  match toks with
  | [] => acc.reverse
  | t :: rest =>
    if t.startsWith "@" then
      let body := (t.drop 1).toString
      let isR := body.endsWith "R"
      let num := if isR then (body.dropEnd 1).toString else body
      let evs := rest.takeWhile fun x => !(x.startsWith "@") && x != "I" && x != "D" && !(x.startsWith "#")
      parseTrace (rest.drop evs.length) ({ vt := num.toNat?.getD 0, isRepeat := isR, evs } :: acc)
    else if t == "I" || t == "D" then acc.reverse
    else parseTrace rest acc

def applyEv (down : List Nat) (e : String) : List Nat :=
  if e.startsWith "d" then match (e.drop 1).toNat? with | some k => k :: down | none => down
  else if e.startsWith "u" then match (e.drop 1).toNat? with | some k => down.erase k | none => down
  else down

/-- simple single-layer configurations: every row-0 action is built from plain keys, output chords,
multi and use-defsrc only -/
partial def simpleAct : Action → Bool
  | .keyCode _ | .multipleKeyCodes _ | .src | .noOp => true
  | .multipleActions as => as.all simpleAct
  | _ => false

/-- the output chords (and single keys, as one-element lists) an action can list, through every
key-producing form -/
partial def chordsOf : Action → List (List Nat)
  | .keyCode kc => [[kc]]
  | .multipleKeyCodes kcs => [kcs]
  | .holdTap _ hold tap ta _ _ => chordsOf tap ++ chordsOf hold ++ chordsOf ta
  | .oneShot a _ _ => chordsOf a
  | .multipleActions as => as.flatMap chordsOf
  | .tapDance as _ _ => as.flatMap chordsOf
  | .fork l r _ => chordsOf l ++ chordsOf r
  | .chords _ chs _ => chs.flatMap fun c => chordsOf c.2
  | .switch cases => cases.flatMap fun c => chordsOf c.2.1
  | _ => []

/-- "preferring the last-listed key of a chord over its modifiers", independent of how the table is
ordered: a repeat forwarded for modifier `e` fails when the held key's own action lists an output
chord `… e … key` whose last-listed key is a non-modifier that is down at the OS -/
def modifierPreferred (a : Action) (e : Nat) (down : List Nat) : Option (List Nat × Nat) :=
  if !Override.isMod e then none else
  (chordsOf a).findSome? fun c =>
    match c.getLast? with
    | some key => if c.dropLast.contains e && !Override.isMod key && down.contains key then some (c, key) else none
    | none => none

def hasUnmod (k : KState) : Bool :=
  k.customs.any fun l => l.any fun a => match a with | .unmodded .. | .unshifted .. => true | _ => false

def oracle (k : KState) (hist : List KEv) (items : List TItem) : String :=
  let simple := k.layout.cfg.layers.length == 1 &&
    k.layout.cfg.layers.all fun tbl => tbl.all fun e => e.1.1 != 0 || simpleAct e.2
  -- walk history and trace together
  let rec go : List KEv → List TItem → Nat → List Nat → List (Nat × Nat) → Nat → Option String
    -- args: history, remaining items, vt, OS-down keys, physically down keys with press time,
    -- time of the last physical release (+1; 0 = none yet)
    | [], _, _, _, _, _ => none
    | e :: rest, items, vt, down, phys, lastRel =>
      match e with
      | .tick n =>
        let vt' := vt + n
        let (mine, later) := items.span fun it => it.vt ≤ vt' && !it.isRepeat
        let down' := mine.foldl (fun d it => it.evs.foldl applyEv d) down
        go rest later vt' down' phys lastRel
      | .press c => go rest items vt down (if c.1 == 0 then (c.2, vt) :: phys else phys) lastRel
      | .release c => go rest items vt down (phys.filter (·.1 != c.2)) (vt + 1)
      | .rep y =>
        match items with
        | it :: later =>
          if !it.isRepeat then some s!"repeat at {vt}: no item recorded" else
          let emitted := it.evs.filter (· != "-")
          if emitted.length > 1 then some s!"repeat at {vt} emitted {emitted.length} events" else
          let bad : Option String := match emitted with
            | [ev] =>
              if !ev.startsWith "d" then some s!"repeat at {vt} emitted {ev}"
              else match (ev.drop 1).toNat? with
                | some kc => if down.contains kc then none else some s!"repeat at {vt} forwarded for key {kc} which is up at the OS"
                | none => some s!"repeat at {vt} emitted {ev}"
            | _ => none
          -- single-layer configurations, any action form: the key of a chord before its modifiers
          let bad : Option String := match bad, emitted with
            | some b, _ => some b
            | none, [ev] =>
              if k.layout.cfg.layers.length == 1 && !hasUnmod k then
                match (k.layout.cfg.layers[0]!).find? (·.1 == (0, y)), (ev.drop 1).toNat? with
                | some (_, a), some e =>
                  match modifierPreferred a e down with
                  | some (c, key) => some s!"repeat at {vt} for held key {y}: forwarded for modifier {e} of its output chord {c} although the chord's last-listed key {key} is down"
                  | none => none
                | _, _ => none
              else none
            | none, _ => none
          match bad with
          | some b => some b
          | none =>
            -- completeness on simple configurations: the key is held, its press was processed, and
            -- it put an output down → a repeat for its last-listed output that is down
            let heldLongEnough := phys.any fun p => p.1 == y && p.2 + 3 ≤ vt
            if simple && heldLongEnough && !hasUnmod k then
              match (k.layout.cfg.layers[0]!).find? (·.1 == (0, y)) with
              | some (_, a) =>
                let outs := withOverrides k.overrides (keyOutputs k.customs y a)
                -- the statement asks for "one of those output keys, preferring the last-listed key of
                -- a chord over its modifiers": the last-listed non-modifier that is down, or - when
                -- the forwarded key is a modifier - the last-listed modifier that is down (whether a
                -- modifier listed after a key that is not part of its chord, as in `(multi x lsft)`,
                -- may win over that key is left open by the statement; both are accepted)
                let downOuts := if outs.any (fun c => k.ignoreMin ≤ c && c ≤ k.ignoreMax) then [] else outs.reverse.filter (down.contains ·)
                match downOuts with
                | [] => go rest later vt down phys lastRel
                | first :: _ =>
                  let wantKey := downOuts.find? (fun c => !Override.isMod c)
                  let wantMod := downOuts.find? (fun c => Override.isMod c)
                  let okKey := match wantKey with | some w => emitted == [s!"d{w}"] | none => false
                  let okMod := match wantMod with | some w => emitted == [s!"d{w}"] | none => false
                  if okKey || okMod then go rest later vt down phys lastRel
                  else some s!"repeat at {vt} for held key {y}: expected d{(wantKey.getD first)}, got {emitted}"
              | none => go rest later vt down phys lastRel
            else go rest later vt down phys lastRel
        | [] => some s!"repeat at {vt}: trace ended"
      | _ => go rest items vt down phys lastRel
  match go hist items 0 [] [] 0 with
  | none => "ok"
  | some e => s!"fail {e}"

def runOracle (line : String) : String × String :=
  let (cs, impl) := Trace.splitOracleLine line
  match runP (Kan.case "KAN") cs with
  | .error _ => ("skip", "-")
  | .ok c =>
    match c.k with
    | none => ("skip", "-")
    | some k =>
      if impl.startsWith "rej" || impl.startsWith "crash" || impl.startsWith "unsupported" then ("skip", "-")
      else (oracle k c.hist (parseTrace ((impl.splitOn " ").filter (· ≠ "")) []), "-")

end KVerif.Drv.C14
