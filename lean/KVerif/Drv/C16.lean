import KVerif.Drv.Tok
import KVerif.Model.CfgTree
/-!
Driver for C16.  Case line:

  C16 <pos|posrej|neg> N nkeys K n (name code button)×n  O <forest>  R <forest>  F m (fname <forest>)×m  H …

`<forest>` = `(` tree* `)`, tree = `(` tree* `)` | `:`percent-encoded-atom.  `O` is the original
configuration (top-level items), `R` the rewritten one, `F` the include files of the rewritten one,
`K` the `str_to_oscode` table for every key name the case uses (dumped by the harness from the real
function) and whether `is_a_button` holds for the code.  Everything after `H` (the input history for
the paired runs on the real code) is ignored here.

Model output:  `exp <O expanded> && <R expanded> | view <O resolved> && <R resolved> | pair equal|differ`
  * exp  = `pipeline` (include, platform, environment, templates) — compared with the real functions
  * view = `parseVars` + `resolve` of every expanded item       — compared with the real accessors
  * pair = equality of the two normal forms (`normalForm`): the model's prediction of what the paired
           runs of the real parser / state machine observe.
Spec output: `equal` for `pos` cases (the rewrite is claimed neutral), `-` for `neg` cases.
-/
namespace KVerif.Drv.C16
open KVerif.CfgTree KVerif.Drv

def hexVal (c : Char) : Nat :=
  if c.isDigit then c.toNat - '0'.toNat
  else if 'a' ≤ c ∧ c ≤ 'f' then c.toNat - 'a'.toNat + 10
  else if 'A' ≤ c ∧ c ≤ 'F' then c.toNat - 'A'.toNat + 10
  else 0

def decodePct : List Char → List Char
  | '%' :: a :: b :: rest => Char.ofNat (hexVal a * 16 + hexVal b) :: decodePct rest
  | c :: rest => c :: decodePct rest
  | [] => []

/-- parses trees until the matching `)` (which is consumed) -/
partial def forestTail : P (List Tree) := do
  let t ← tok
  if t == ")" then return []
  else if t == "(" then
    let sub ← forestTail
    let rest ← forestTail
    return .list sub :: rest
  else
    match t.toList with
    | ':' :: cs =>
      let rest ← forestTail
      return .atom (decodePct cs) :: rest
    | _ => throw s!"bad tree token {t}"

def forest : P (List Tree) := do
  expect "("
  forestTail

def asItems (ts : List Tree) : Except String (List (List Tree)) :=
  ts.mapM fun t => match t with
    | .list l => .ok l
    | .atom _ => .error "top-level atom"

structure KeyInfo where
  name : Str
  code : Nat
  button : Bool

structure Case where
  pos : Bool
  origRejected : Bool
  keys : List KeyInfo
  orig : List (List Tree)
  rew : List (List Tree)
  files : Files
  nkeys : Nat

def parseCase : P Case := do
  expect "C16"
  let k ← tok
  expect "N"
  let nkeys ← num
  expect "K"
  let n ← num
  let keys ← rep n (do
    let nm ← tok
    let c ← num
    let b ← num
    pure { name := decodePct nm.toList, code := c, button := b != 0 : KeyInfo })
  expect "O"
  let o ← forest
  expect "R"
  let r ← forest
  expect "F"
  let m ← num
  let fs ← rep m (do
    let nm ← tok
    let f ← forest
    pure (nm, f))
  let o ← match asItems o with | .ok x => pure x | .error e => throw e
  let r ← match asItems r with | .ok x => pure x | .error e => throw e
  let fs ← fs.mapM fun (nm, f) => match asItems f with
    | .ok x => pure (decodePct nm.toList, x)
    | .error e => throw e
  return { pos := k == "pos" || k == "posrej", origRejected := k == "posrej", keys := keys, orig := o, rew := r, files := fs, nkeys := nkeys }

/-! ### printing -/

mutual
  partial def showTree : Tree → String
    | .atom a => String.ofList a
    | .list l => "(" ++ " ".intercalate (showForest l) ++ ")"
  partial def showForest : List Tree → List String
    | [] => []
    | t :: rest => showTree t :: showForest rest
end

def showItems (items : List (List Tree)) : String :=
  " ".intercalate (items.map fun l => showTree (.list l))

def showRes (r : Res String) : String :=
  match r with
  | .ok s => s
  | .error (.rej _) => "rej"
  | .error (.crash w) => s!"crash {w}"

/-! ### the normal form -/

def FUEL : Nat := 200
def curPlatform : Str := "linux".toList

def kw (s : String) : Str := s.toList

def ofOpt {α} (o : Option α) : Res α := match o with | some a => .ok a | none => fuelOut

def startsWith (pre : Str) : List Tree → Bool
  | .atom a :: _ => pre.isPrefixOf a
  | _ => false

def keyCode? (keys : List KeyInfo) (n : Str) : Option Nat :=
  (keys.find? (·.name = n)).map (·.code)

def boolOpt (cfg : List Tree) (name : String) : Bool :=
  let rec go : List Tree → Bool
    | .atom k :: .atom v :: rest => if k = kw name then (v = kw "yes" || v = kw "true") else go rest
    | _ :: _ :: rest => go rest
    | _ => false
  go (cfg.drop 1)

def mapMRes {α β} (f : α → Res β) : List α → Res (List β)
  | [] => .ok []
  | a :: rest => match f a with
    | .error e => .error e
    | .ok b => match mapMRes f rest with
      | .error e => .error e
      | .ok r => .ok (b :: r)

def pairsOf : List Tree → Res (List (Tree × Tree))
  | [] => .ok []
  | [_] => rej "input must by followed by an action"
  | a :: b :: rest => match pairsOf rest with
    | .error e => .error e
    | .ok r => .ok ((a, b) :: r)

structure NormCtx where
  keys : List KeyInfo
  nkeys : Nat
  vars : Vars
  aliases : List (Str × Tree)

def NormCtx.norm0 (c : NormCtx) (t : Tree) : Res Tree := ofOpt (resolve FUEL c.vars t)
def NormCtx.norm (c : NormCtx) (t : Tree) : Res Tree :=
  match c.norm0 t with
  | .error e => .error e
  | .ok t' => inlineTree c.aliases t'

def aliasItems (vars : Vars) : List (Str × Tree) → List (List Tree) → Res (List (Str × Tree))
  | al, [] => .ok al
  | al, item :: rest =>
    match parseAliasPairs (fun al e => match ofOpt (resolve FUEL vars e) with
        | .error e => .error e
        | .ok t => inlineTree al t) al (item.drop 1) with
    | .error e => .error e
    | .ok al' => aliasItems vars al' rest

def layerText (c : NormCtx) (order : List Nat) (univ : List Nat) (block pu : Bool)
    (item : List Tree) : Res String := do
  let nameT ← match item[1]? with
    | some t => c.norm0 t
    | none => rej "layer requires a name"
  let isButton := fun i => (c.keys.find? (·.code = i)).map (·.button) |>.getD false
  let table ←
    if headIs (kw "deflayer") item then do
      let acts ← mapMRes c.norm (item.drop 2)
      if acts.length ≠ order.length then rej "layer length does not match defsrc"
      else pure (deflayerFill Table.empty order acts)
    else do
      let ps ← pairsOf (item.drop 2)
      let ins ← mapMRes (fun (p : Tree × Tree) => do
        let a ← c.norm p.2
        let i ← match atomView FUEL c.vars p.1 with
          | none => fuelOut
          | some none => rej "input must be a key name"
          | some (some s) =>
            if s = kw "_" then pure MapIn.anyDefsrc
            else if s = kw "__" then pure MapIn.anyUnmapped
            else if s = kw "___" then pure MapIn.anyBoth
            else match keyCode? c.keys s with
              | some k => pure (MapIn.key k)
              | none => rej "input must be a key name"
        pure (i, a)) ps
      let st ← layermapFill order c.nkeys pu { table := Table.empty } ins
      pure st.table
  let fin := finishLayer block isButton (Tree.atom (kw "_")) (Tree.atom (kw "XX")) table
  pure (showTree nameT ++ "[" ++ ",".intercalate (univ.map fun i => s!"{i}={showTree (fin i)}") ++ "]")

def dedup (l : List Nat) : List Nat := l.foldl (fun acc x => if x ∈ acc then acc else acc ++ [x]) []

def normalForm (keys : List KeyInfo) (nkeys : Nat) (files : Files) (items : List (List Tree)) : Res String := do
  let items ← pipeline FUEL files curPlatform items
  if items.any (headIs sInclude) then rej "Nested includes are not allowed" else
  let cfgItem := (items.find? (headIs (kw "defcfg"))).getD []
  let block := boolOpt cfgItem "block-unmapped-keys"
  let pu := boolOpt cfgItem "process-unmapped-keys"
  let srcItem ← match items.find? (headIs (kw "defsrc")) with
    | some s => pure s
    | none => rej "Exactly one defsrc must exist"
  let order ← mapMRes (fun t => match t with
    | .atom a => match keyCode? keys a with
      | some k => .ok k
      | none => rej "Unknown key in defsrc"
    | .list _ => rej "No lists allowed in defsrc") (srcItem.drop 1)
  let vars ← parseVars FUEL [] ((items.filter (headIs (kw "defvar"))).map (·.drop 1))
  let al ← aliasItems vars [] (items.filter (startsWith (kw "defalias")))
  let c : NormCtx := { keys := keys, nkeys := nkeys, vars := vars, aliases := al }
  let cNoAlias : NormCtx := { c with aliases := [] }
  let univ := dedup (0 :: (keys.map (·.code)))
  let isLayer := fun (i : List Tree) => headIs (kw "deflayer") i || headIs (kw "deflayermap") i
  let layers ← mapMRes (layerText c order univ block pu) (items.filter isLayer)
  let definitional := fun (i : List Tree) =>
    headIs (kw "defvar") i || startsWith (kw "defalias") i || headIs sDeftemplate i || isLayer i
      || headIs (kw "defcfg") i || headIs (kw "defsrc") i
  let others ← mapMRes (fun (i : List Tree) =>
      -- fake/virtual keys are parsed before the aliases exist
      let ctx := if headIs (kw "defvirtualkeys") i || headIs (kw "deffakekeys") i then cNoAlias else c
      match ctx.norm (.list i) with
      | .error e => .error e
      | .ok t => .ok (showTree t)) (items.filter (fun i => !definitional i))
  pure ("cfg " ++ showTree (.list cfgItem) ++ " src " ++ showTree (.list srcItem) ++ " layers " ++
        " ".intercalate layers ++ " items " ++ " ".intercalate others.mergeSort)

def expText (files : Files) (items : List (List Tree)) : String :=
  showRes ((pipeline FUEL files curPlatform items).map showItems)

def viewText (files : Files) (items : List (List Tree)) : String :=
  showRes (do
    let items ← pipeline FUEL files curPlatform items
    let vars ← parseVars FUEL [] ((items.filter (headIs (kw "defvar"))).map (·.drop 1))
    let vs ← mapMRes (fun i => ofOpt (resolve FUEL vars (.list i))) items
    pure (" ".intercalate (vs.map showTree)))

def resEq (a b : Res String) : Bool :=
  match a, b with
  | .ok x, .ok y => x == y
  | .error _, .error _ => true
  | _, _ => false

def run (line : String) : String × String :=
  match runP parseCase line with
  | .error e => (s!"bad-case {e}", "-")
  | .ok c =>
    let nfO := normalForm c.keys c.nkeys c.files c.orig
    let nfR := normalForm c.keys c.nkeys c.files c.rew
    -- an original the real parser rejects (marked by the generator, re-checked by the harness): the
    -- model does not contain the argument parsers, so its prediction is the property itself
    let verdict := if c.origRejected || resEq nfO nfR then "equal" else "differ"
    let model := s!"exp {expText c.files c.orig} && {expText c.files c.rew} | view {viewText c.files c.orig} && {viewText c.files c.rew} | pair {verdict}"
    (model, if c.pos then "equal" else "-")

/-- debugging aid: the two normal forms -/
def debugNF (line : String) : String :=
  match runP parseCase line with
  | .error e => s!"bad-case {e}"
  | .ok c => s!"O: {showRes (normalForm c.keys c.nkeys c.files c.orig)}\nR: {showRes (normalForm c.keys c.nkeys c.files c.rew)}"

end KVerif.Drv.C16
