/-
Helper lemmas for C15 (live reload): state update algebra, frame properties of the interpreted
`do_live_reload`, monotonicity of the request flag through a tick.
-/
import KVerif.Model.Reload
namespace KVerif.Reload
open KVerif.Gen.Reload

variable {W : World}

/-! ### states -/

theorem St.ext' {T : Types} {a b : St T} (h : ∀ f, a f = b f) : a = b := by
  cases a; cases b; congr; funext f; exact h f

@[simp] theorem St.set_same {T : Types} (s : St T) (f : Field) (v : Val T f) : (s.set f v) f = v := by
  simp [St.set]

theorem St.set_other {T : Types} (s : St T) (f g : Field) (v : Val T f) (h : g ≠ f) :
    (s.set f v) g = s g := by
  simp [St.set, h]

theorem frame_in (old new : KSt W) (f : Field) (h : f ∈ framed) : (frame old new) f = old f := by
  simp [frame, h]

theorem frame_out (old new : KSt W) (f : Field) (h : f ∉ framed) : (frame old new) f = new f := by
  simp [frame, h]

/-! ### one statement of `do_live_reload` -/

/-- a statement that does not assign `g` leaves `g` alone -/
theorem stepOne_frame (env : Env W.toTypes) (c : W.Cfg) (cur : Option Nat) (s : KSt W) (log : List Msg)
    (st : RStep) (cur' : Option Nat) (s' : KSt W) (log' : List Msg) (g : Field)
    (h : stepOne env c cur s log st = .ok (.cont cur' s' log')) (hg : ∀ b, st ≠ .assign g b) :
    s' g = s g := by
  cases st with
  | parse => simp [stepOne] at h
  | fallible callee =>
    simp only [stepOne] at h
    split at h <;> simp at h
    obtain ⟨_, rfl, _⟩ := h; rfl
  | assign f b =>
    have hne : g ≠ f := fun e => hg b (by rw [e])
    cases b with
    | true =>
      simp only [stepOne] at h
      simp at h
      obtain ⟨_, rfl, _⟩ := h
      exact St.set_other _ _ _ _ hne
    | false =>
      simp only [stepOne] at h
      split at h <;> simp at h
      obtain ⟨_, rfl, _⟩ := h
      exact St.set_other _ _ _ _ hne
  | bindCurLayer =>
    simp only [stepOne] at h
    simp at h
    obtain ⟨_, rfl, _⟩ := h; rfl
  | effect m =>
    simp only [stepOne] at h
    simp at h
    obtain ⟨_, rfl, _⟩ := h; rfl
  | notify m =>
    simp only [stepOne] at h
    repeat' split at h
    all_goals simp at h
    all_goals (obtain ⟨_, rfl, _⟩ := h; rfl)
  | unknown t => simp [stepOne] at h

/-- an early return happens only at a failing fallible call and hands back the state reached so far -/
theorem stepOne_stop (env : Env W.toTypes) (c : W.Cfg) (cur : Option Nat) (s : KSt W) (log : List Msg)
    (st : RStep) (r : RRes W.toTypes) (h : stepOne env c cur s log st = .ok (.stop r)) :
    (∃ callee, st = .fallible callee ∧ env.callFails callee c = true) ∧ r = ⟨s, log, false⟩ := by
  cases st with
  | parse => simp [stepOne] at h
  | fallible callee =>
    simp only [stepOne] at h
    split at h <;> simp at h
    rename_i hc
    exact ⟨⟨callee, rfl, hc⟩, h.symm⟩
  | assign f b =>
    cases b <;> simp only [stepOne] at h
    · split at h <;> simp at h
    · simp at h
  | bindCurLayer => simp [stepOne] at h
  | effect m => simp [stepOne] at h
  | notify m =>
    simp only [stepOne] at h
    repeat' split at h
    all_goals simp at h
  | unknown t => simp [stepOne] at h

theorem mem_assigned (steps : List RStep) (g : Field) :
    g ∈ assigned steps ↔ ∃ b, RStep.assign g b ∈ steps := by
  simp only [assigned, List.mem_filterMap]
  constructor
  · rintro ⟨a, ha, hm⟩
    cases a <;> simp at hm
    subst hm; exact ⟨_, ha⟩
  · rintro ⟨b, hb⟩
    exact ⟨_, hb, rfl⟩

theorem mem_assignedFromCfg (steps : List RStep) (g : Field) :
    g ∈ assignedFromCfg steps ↔ RStep.assign g true ∈ steps := by
  simp only [assignedFromCfg, List.mem_filterMap]
  constructor
  · rintro ⟨a, ha, hm⟩
    cases a with
    | assign f b => cases b <;> simp at hm; subst hm; exact ha
    | _ => simp at hm
  · intro hb
    exact ⟨_, hb, rfl⟩

theorem mem_assignedReset (steps : List RStep) (g : Field) :
    g ∈ assignedReset steps ↔ RStep.assign g false ∈ steps := by
  simp only [assignedReset, List.mem_filterMap]
  constructor
  · rintro ⟨a, ha, hm⟩
    cases a with
    | assign f b => cases b <;> simp at hm; subst hm; exact ha
    | _ => simp at hm
  · intro hb
    exact ⟨_, hb, rfl⟩

theorem mem_falliblesOf (steps : List RStep) (callee : String) :
    callee ∈ falliblesOf steps ↔ RStep.fallible callee ∈ steps := by
  simp only [falliblesOf, List.mem_filterMap]
  constructor
  · rintro ⟨a, ha, hm⟩
    cases a <;> simp at hm
    subst hm; exact ha
  · intro hb
    exact ⟨_, hb, rfl⟩

/-- the fields a statement list assigns -/
theorem assigned_cons (st : RStep) (rest : List RStep) (g : Field) :
    g ∉ assigned (st :: rest) ↔ (∀ b, st ≠ .assign g b) ∧ g ∉ assigned rest := by
  simp only [mem_assigned, List.mem_cons, not_exists, not_or]
  constructor
  · intro h
    exact ⟨fun b e => (h b).1 e.symm, fun b => (h b).2⟩
  · rintro ⟨h1, h2⟩ b
    exact ⟨fun e => h1 b e.symm, h2 b⟩

/-- **frame**: whatever `do_live_reload` does after parsing, a field it never assigns keeps its value
— on success and on an early return alike -/
theorem runSteps_frame (env : Env W.toTypes) (c : W.Cfg) (steps : List RStep) (cur : Option Nat) (s : KSt W)
    (log : List Msg) (r : RRes W.toTypes) (g : Field)
    (h : runSteps env c steps cur s log = .ok r) (hg : g ∉ assigned steps) : r.st g = s g := by
  induction steps generalizing cur s log with
  | nil => simp [runSteps] at h; subst h; rfl
  | cons st rest ih =>
    rw [assigned_cons] at hg
    simp only [runSteps] at h
    split at h
    · simp at h
    · rename_i r' h1
      simp at h; subst h
      rw [(stepOne_stop env c cur s log st _ h1).2]
    · rename_i cur' s' log' h1
      rw [ih cur' s' log' h hg.2]
      exact stepOne_frame env c cur s log st cur' s' log' g h1 hg.1

/-- if none of the fallible calls fails, `do_live_reload` does not return early -/
theorem runSteps_ok (env : Env W.toTypes) (c : W.Cfg) (steps : List RStep) (cur : Option Nat) (s : KSt W)
    (log : List Msg) (r : RRes W.toTypes)
    (h : runSteps env c steps cur s log = .ok r)
    (hf : ∀ callee ∈ falliblesOf steps, env.callFails callee c = false) : r.ok = true := by
  induction steps generalizing cur s log with
  | nil => simp [runSteps] at h; subst h; rfl
  | cons st rest ih =>
    simp only [runSteps] at h
    split at h
    · simp at h
    · rename_i r' h1
      obtain ⟨⟨callee, rfl, hc⟩, _⟩ := stepOne_stop env c cur s log st _ h1
      have := hf callee (by simp [mem_falliblesOf])
      simp [hc] at this
    · rename_i cur' s' log' h1
      refine ih cur' s' log' h (fun callee hm => hf callee ?_)
      rw [mem_falliblesOf] at hm ⊢
      exact List.mem_cons_of_mem _ hm

/-- an early return leaves the channel as it was at that point and reports failure -/
theorem runSteps_early (env : Env W.toTypes) (c : W.Cfg) (steps : List RStep) (cur : Option Nat) (s : KSt W)
    (log : List Msg) (r : RRes W.toTypes)
    (h : runSteps env c steps cur s log = .ok r) (hr : r.ok = false) :
    ∃ callee ∈ falliblesOf steps, env.callFails callee c = true := by
  induction steps generalizing cur s log with
  | nil => simp [runSteps] at h; subst h; simp at hr
  | cons st rest ih =>
    simp only [runSteps] at h
    split at h
    · simp at h
    · rename_i r' h1
      obtain ⟨⟨callee, rfl, hc⟩, _⟩ := stepOne_stop env c cur s log st _ h1
      exact ⟨callee, by simp [mem_falliblesOf], hc⟩
    · rename_i cur' s' log' h1
      obtain ⟨callee, hm, hc⟩ := ih cur' s' log' h
      refine ⟨callee, ?_, hc⟩
      rw [mem_falliblesOf] at hm ⊢
      exact List.mem_cons_of_mem _ hm

/-- a run that reports success met no failing call -/
theorem runSteps_ok_fallibles (env : Env W.toTypes) (c : W.Cfg) (steps : List RStep) (cur : Option Nat) (s : KSt W)
    (log : List Msg) (r : RRes W.toTypes)
    (h : runSteps env c steps cur s log = .ok r) (hok : r.ok = true) :
    ∀ callee ∈ falliblesOf steps, env.callFails callee c = false := by
  induction steps generalizing cur s log with
  | nil => intro callee hm; simp [falliblesOf] at hm
  | cons st rest ih =>
    simp only [runSteps] at h
    split at h
    · simp at h
    · rename_i r' h1
      simp at h; subst h
      rw [(stepOne_stop env c cur s log st _ h1).2] at hok
      simp at hok
    · rename_i cur' s' log' h1
      intro callee hm
      rw [mem_falliblesOf] at hm
      rcases List.mem_cons.1 hm with e | e
      · subst e
        simp only [stepOne] at h1
        split at h1
        · simp at h1
        · rename_i hc; simpa using hc
      · exact ih cur' s' log' h callee ((mem_falliblesOf _ _).2 e)

/-! ### configuration-derived fields -/

/-- `g` is assigned from `cfg`, never from anything else -/
def cfgOnly (steps : List RStep) (g : Field) : Bool :=
  g ∈ assignedFromCfg steps && !(g ∈ assignedReset steps)

theorem stepOne_cfg_keep (env : Env W.toTypes) (c : W.Cfg) (cur : Option Nat) (s : KSt W) (log : List Msg)
    (st : RStep) (cur' : Option Nat) (s' : KSt W) (log' : List Msg) (g : Field)
    (h : stepOne env c cur s log st = .ok (.cont cur' s' log')) (hg : st ≠ .assign g false)
    (hs : s g = W.cfgVal g c) : s' g = W.cfgVal g c := by
  by_cases hst : st = .assign g true
  · subst hst
    simp only [stepOne] at h
    simp at h
    obtain ⟨_, rfl, _⟩ := h
    simp
  · rw [stepOne_frame env c cur s log st cur' s' log' g h ?_, hs]
    intro b; cases b
    · exact hg
    · exact hst

theorem stepOne_cfg_set (env : Env W.toTypes) (c : W.Cfg) (cur : Option Nat) (s : KSt W) (log : List Msg)
    (g : Field) (cur' : Option Nat) (s' : KSt W) (log' : List Msg)
    (h : stepOne env c cur s log (.assign g true) = .ok (.cont cur' s' log')) : s' g = W.cfgVal g c := by
  simp only [stepOne] at h
  simp at h
  obtain ⟨_, rfl, _⟩ := h
  simp

theorem runSteps_cfg_keep (env : Env W.toTypes) (c : W.Cfg) (steps : List RStep) (cur : Option Nat) (s : KSt W)
    (log : List Msg) (r : RRes W.toTypes) (g : Field)
    (h : runSteps env c steps cur s log = .ok r) (hr : g ∉ assignedReset steps)
    (hs : s g = W.cfgVal g c) : r.st g = W.cfgVal g c := by
  induction steps generalizing cur s log with
  | nil => simp [runSteps] at h; subst h; exact hs
  | cons st rest ih =>
    have hr1 : st ≠ .assign g false := by
      intro e; subst e; simp [mem_assignedReset] at hr
    have hr2 : g ∉ assignedReset rest := by
      intro hm; apply hr
      rw [mem_assignedReset] at hm ⊢
      exact List.mem_cons_of_mem _ hm
    simp only [runSteps] at h
    split at h
    · simp at h
    · rename_i r' h1
      simp at h; subst h
      rw [(stepOne_stop env c cur s log st _ h1).2]; exact hs
    · rename_i cur' s' log' h1
      exact ih cur' s' log' h hr2 (stepOne_cfg_keep env c cur s log st cur' s' log' g h1 hr1 hs)

/-- **a field assigned from `cfg` (and from nothing else) holds the new configuration's value after
a reload that ran to the end** -/
theorem runSteps_cfg (env : Env W.toTypes) (c : W.Cfg) (steps : List RStep) (cur : Option Nat) (s : KSt W)
    (log : List Msg) (r : RRes W.toTypes) (g : Field)
    (h : runSteps env c steps cur s log = .ok r) (hok : r.ok = true)
    (hg : cfgOnly steps g = true) : r.st g = W.cfgVal g c := by
  induction steps generalizing cur s log with
  | nil => simp [cfgOnly, assignedFromCfg] at hg
  | cons st rest ih =>
    simp only [cfgOnly, Bool.and_eq_true, Bool.not_eq_true', decide_eq_true_eq, decide_eq_false_iff_not] at hg
    obtain ⟨hin, hnr⟩ := hg
    have hnr2 : g ∉ assignedReset rest := by
      intro hm; apply hnr
      rw [mem_assignedReset] at hm ⊢
      exact List.mem_cons_of_mem _ hm
    simp only [runSteps] at h
    split at h
    · simp at h
    · rename_i r' h1
      simp at h; subst h
      rw [(stepOne_stop env c cur s log st _ h1).2] at hok
      simp at hok
    · rename_i cur' s' log' h1
      by_cases hst : st = .assign g true
      · subst hst
        exact runSteps_cfg_keep env c rest cur' s' log' r g h hnr2
          (stepOne_cfg_set env c cur s log g cur' s' log' h1)
      · have hin2 : g ∈ assignedFromCfg rest := by
          rw [mem_assignedFromCfg] at hin ⊢
          rcases List.mem_cons.1 hin with h | h
          · exact absurd h.symm hst
          · exact h
        exact ih cur' s' log' h (by simp [cfgOnly, hin2, hnr2])

/-! ### splitting the statement list -/

/-- run a prefix of the statements: early return, or the (binding, state, channel) reached -/
def runPrefix (env : Env W.toTypes) (c : W.Cfg) : List RStep → Option Nat → KSt W → List Msg → Except Crash (StepOut W.toTypes)
  | [], cur, s, log => .ok (.cont cur s log)
  | st :: rest, cur, s, log =>
    match stepOne env c cur s log st with
    | .error e => .error e
    | .ok (.stop r) => .ok (.stop r)
    | .ok (.cont cur' s' log') => runPrefix env c rest cur' s' log'

theorem runSteps_append (env : Env W.toTypes) (c : W.Cfg) (A B : List RStep) (cur : Option Nat) (s : KSt W)
    (log : List Msg) :
    runSteps env c (A ++ B) cur s log =
      match runPrefix env c A cur s log with
      | .error e => .error e
      | .ok (.stop r) => .ok r
      | .ok (.cont cur' s' log') => runSteps env c B cur' s' log' := by
  induction A generalizing cur s log with
  | nil => simp [runPrefix]
  | cons st rest ih =>
    simp only [List.cons_append, runSteps, runPrefix]
    cases h : stepOne env c cur s log st with
    | error e => simp
    | ok o =>
      cases o with
      | stop r => simp
      | cont cur' s' log' => simp [ih]

/-- statements that neither send anything nor bind `cur_layer`: `self.f = <cfg …>`, `callee(..)?`
and `self.helper();` -/
def isSilent : RStep → Bool
  | .assign _ true => true
  | .fallible _ => true
  | .effect _ => true
  | _ => false

/-- all the `self.f = <cfg …>` assignments of a statement list, applied in order -/
def applyCfg (c : W.Cfg) : List RStep → KSt W → KSt W
  | [], s => s
  | .assign f true :: rest, s => applyCfg c rest (s.set f (W.cfgVal f c))
  | _ :: rest, s => applyCfg c rest s

theorem applyCfg_get (c : W.Cfg) (A : List RStep) (s : KSt W) (g : Field) :
    (applyCfg c A s) g = if g ∈ assignedFromCfg A then W.cfgVal g c else s g := by
  induction A generalizing s with
  | nil => simp [applyCfg, assignedFromCfg]
  | cons st rest ih =>
    cases st with
    | assign f b =>
      cases b with
      | true =>
        simp only [applyCfg, ih, mem_assignedFromCfg, List.mem_cons, RStep.assign.injEq, and_true]
        by_cases hg : g = f
        · subst hg; simp
        · simp [hg, St.set_other _ _ _ _ hg]
      | false =>
        simp only [applyCfg, ih, mem_assignedFromCfg, List.mem_cons]
        simp
    | _ => simp only [applyCfg, ih, mem_assignedFromCfg, List.mem_cons]; simp

/-- a silent prefix whose fallible calls succeed just performs its assignments -/
theorem runPrefix_silent (env : Env W.toTypes) (c : W.Cfg) (A : List RStep) (cur : Option Nat) (s : KSt W)
    (log : List Msg) (hA : A.all isSilent = true)
    (hf : ∀ callee ∈ falliblesOf A, env.callFails callee c = false) :
    runPrefix env c A cur s log = .ok (.cont cur (applyCfg c A s) log) := by
  induction A generalizing s with
  | nil => simp [runPrefix, applyCfg]
  | cons st rest ih =>
    simp only [List.all_cons, Bool.and_eq_true] at hA
    have hf' : ∀ callee ∈ falliblesOf rest, env.callFails callee c = false := by
      intro callee hm
      apply hf
      rw [mem_falliblesOf] at hm ⊢
      exact List.mem_cons_of_mem _ hm
    cases st with
    | assign f b =>
      cases b with
      | true => simp [runPrefix, stepOne, applyCfg, ih _ hA.2 hf']
      | false => simp [isSilent] at hA
    | fallible callee =>
      have := hf callee (by simp [mem_falliblesOf])
      simp [runPrefix, stepOne, applyCfg, this, ih _ hA.2 hf']
    | effect m => simp [runPrefix, stepOne, applyCfg, ih _ hA.2 hf']
    | _ => simp [isSilent] at hA

/-- `self.f = <constant>` / `self.prev_layer = cur_layer` -/
def isReset : RStep → Bool
  | .assign _ false => true
  | _ => false

/-- all the `self.f = <not cfg>` assignments of a statement list, applied in order, with
`cur_layer = l` -/
def applyReset (l : Nat) : List RStep → KSt W → KSt W
  | [], s => s
  | .assign f false :: rest, s => applyReset l rest (s.set f (resetVal (W := W) l f))
  | _ :: rest, s => applyReset l rest s

theorem applyReset_get (l : Nat) (R : List RStep) (s : KSt W) (g : Field) :
    (applyReset l R s) g = if g ∈ assignedReset R then resetVal (W := W) l g else s g := by
  induction R generalizing s with
  | nil => simp [applyReset, assignedReset]
  | cons st rest ih =>
    cases st with
    | assign f b =>
      cases b with
      | false =>
        simp only [applyReset, ih, mem_assignedReset, List.mem_cons, RStep.assign.injEq, and_true]
        by_cases hg : g = f
        · subst hg; simp
        · simp [hg, St.set_other _ _ _ _ hg]
      | true =>
        simp only [applyReset, ih, mem_assignedReset, List.mem_cons]
        simp
    | _ => simp only [applyReset, ih, mem_assignedReset, List.mem_cons]; simp

/-- a block of resets after `let cur_layer` just performs its assignments -/
theorem runPrefix_resets (env : Env W.toTypes) (c : W.Cfg) (R : List RStep) (l : Nat) (s : KSt W)
    (log : List Msg) (hR : R.all isReset = true) :
    runPrefix env c R (some l) s log = .ok (.cont (some l) (applyReset l R s) log) := by
  induction R generalizing s with
  | nil => simp [runPrefix, applyReset]
  | cons st rest ih =>
    simp only [List.all_cons, Bool.and_eq_true] at hR
    cases st with
    | assign f b =>
      cases b with
      | false => simp [runPrefix, stepOne, applyReset, ih _ hR.2]
      | true => simp [isReset] at hR
    | _ => simp [isReset] at hR

def isFallible : RStep → Bool
  | .fallible _ => true
  | _ => false

/-- a block of fallible calls either returns early with everything untouched or changes nothing -/
theorem runPrefix_fallibles (env : Env W.toTypes) (c : W.Cfg) (F : List RStep) (cur : Option Nat)
    (s : KSt W) (log : List Msg) (hF : F.all isFallible = true) :
    (runPrefix env c F cur s log = .ok (.stop ⟨s, log, false⟩) ∧
      ∃ callee ∈ falliblesOf F, env.callFails callee c = true) ∨
    (runPrefix env c F cur s log = .ok (.cont cur s log) ∧
      ∀ callee ∈ falliblesOf F, env.callFails callee c = false) := by
  induction F with
  | nil => right; simp [runPrefix, falliblesOf]
  | cons st rest ih =>
    simp only [List.all_cons, Bool.and_eq_true] at hF
    cases st with
    | fallible callee =>
      by_cases hc : env.callFails callee c = true
      · left
        exact ⟨by simp [runPrefix, stepOne, hc], callee, by simp [mem_falliblesOf], hc⟩
      · have hc' : env.callFails callee c = false := by simpa using hc
        rcases ih hF.2 with ⟨h1, callee', hm, hf⟩ | ⟨h1, hall⟩
        · left
          refine ⟨by simp [runPrefix, stepOne, hc', h1], callee', ?_, hf⟩
          rw [mem_falliblesOf] at hm ⊢
          exact List.mem_cons_of_mem _ hm
        · right
          refine ⟨by simp [runPrefix, stepOne, hc', h1], ?_⟩
          intro callee' hm
          rw [mem_falliblesOf] at hm
          rcases List.mem_cons.1 hm with e | e
          · cases e; exact hc'
          · exact hall callee' ((mem_falliblesOf _ _).2 e)
    | _ => simp [isFallible] at hF

/-! ### the request flag through a tick -/

theorem applyAct_framed (s s' : KSt W) (a : KAct W.toTypes) (h : applyAct s a = .ok s') :
    (s' .cfg_paths = s .cfg_paths) ∧ (s' .prev_layer = s .prev_layer) ∧
    (s .live_reload_requested = true → s' .live_reload_requested = true) ∧
    (∀ g, g ∉ framed → s' g = s g) := by
  cases a with
  | reload r =>
    simp only [applyAct] at h
    split at h
    · simp at h
    · rename_i i req _
      simp at h; subst h
      cases req <;> simp [St.set, framed]
      all_goals
        intro g h1 h2 h3 h4 h5 h6
        simp [h1, h2]
  | onIdle w =>
    simp only [applyAct] at h
    simp at h; subst h
    simp [St.set, framed]
    intro g h1 h2 h3 h4 h5 h6
    simp [h5, h6]

theorem applyActs_framed (s s' : KSt W) (as : List (KAct W.toTypes)) (h : applyActs s as = .ok s') :
    (s' .cfg_paths = s .cfg_paths) ∧ (s' .prev_layer = s .prev_layer) ∧
    (s .live_reload_requested = true → s' .live_reload_requested = true) ∧
    (∀ g, g ∉ framed → s' g = s g) := by
  induction as generalizing s with
  | nil => simp [applyActs] at h; subst h; simp
  | cons a rest ih =>
    simp only [applyActs] at h
    split at h
    · simp at h
    · rename_i s1 h1
      obtain ⟨a1, a2, a3, a4⟩ := applyAct_framed s s1 a h1
      obtain ⟨b1, b2, b3, b4⟩ := ih s1 h
      exact ⟨b1.trans a1, b2.trans a2, fun hr => b3 (a3 hr), fun g hg => (b4 g hg).trans (a4 g hg)⟩

theorem tickIdleTimeout_framed (s : KSt W) :
    ((tickIdleTimeout s) .cfg_paths = s .cfg_paths) ∧ ((tickIdleTimeout s) .cur_cfg_idx = s .cur_cfg_idx) ∧
    ((tickIdleTimeout s) .prev_layer = s .prev_layer) ∧
    ((tickIdleTimeout s) .live_reload_requested = s .live_reload_requested) ∧
    ((tickIdleTimeout s) .ticks_since_idle = s .ticks_since_idle) ∧
    ((tickIdleTimeout s) .cur_keys = s .cur_keys) := by
  unfold tickIdleTimeout
  split <;> simp [St.set]

end KVerif.Reload
