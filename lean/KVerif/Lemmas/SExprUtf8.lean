/-
UTF-8 facts used by the lexer proofs: in a well-formed text a continuation byte never follows an
ASCII byte, the first byte is not a continuation byte, and removing a leading BOM leaves a
well-formed text.
-/
import KVerif.Model.SExpr
namespace KVerif.SExpr

/-- "no continuation byte after an ASCII byte": the only consequence of UTF-8 well-formedness the
lexer needs, because it only ever stops after an ASCII byte, before an ASCII byte, or at the end. -/
def NCA : List Nat → Prop
  | [] => True
  | [_] => True
  | a :: b :: r => (a < 128 → isCont b = false) ∧ NCA (b :: r)

theorem NCA.tail {a : Nat} {l : List Nat} (h : NCA (a :: l)) : NCA l := by
  cases l with
  | nil => trivial
  | cons b r => exact h.2

theorem NCA.suffix {pre l : List Nat} (h : NCA (pre ++ l)) : NCA l := by
  induction pre with
  | nil => simpa using h
  | cons a r ih => exact ih (NCA.tail h)

theorem NCA.cons_hi {a : Nat} {l : List Nat} (ha : 128 ≤ a) (h : NCA l) : NCA (a :: l) := by
  cases l with
  | nil => trivial
  | cons b r => exact ⟨fun h' => by omega, h⟩

/-- one decoding step of `validUtf8`, with only what the proofs need of each byte -/
theorem valid_cases {a : Nat} {r : List Nat} (h : validUtf8 (a :: r) = true) :
    (a < 128 ∧ validUtf8 r = true) ∨
    (192 ≤ a ∧ ∃ b1 r1, r = b1 :: r1 ∧ 128 ≤ b1 ∧ validUtf8 r1 = true) ∨
    (192 ≤ a ∧ ∃ b1 b2 r2, r = b1 :: b2 :: r2 ∧ 128 ≤ b1 ∧ 128 ≤ b2 ∧ validUtf8 r2 = true) ∨
    (192 ≤ a ∧ ∃ b1 b2 b3 r3, r = b1 :: b2 :: b3 :: r3 ∧ 128 ≤ b1 ∧ 128 ≤ b2 ∧ 128 ≤ b3 ∧ validUtf8 r3 = true) := by
  unfold validUtf8 at h
  split at h
  · exact .inl ⟨by assumption, h⟩
  · split at h
    · rename_i h2
      simp only [Bool.and_eq_true, decide_eq_true_eq] at h2
      split at h
      · rename_i b1 r1
        simp only [isCont, Bool.and_eq_true, decide_eq_true_eq] at h
        exact .inr (.inl ⟨by omega, b1, r1, rfl, by omega, h.2⟩)
      · simp at h
    · split at h
      · rename_i h3
        simp only [Bool.and_eq_true, decide_eq_true_eq] at h3
        split at h
        · rename_i b1 b2 r2
          simp only [isCont, Bool.and_eq_true, decide_eq_true_eq] at h
          refine .inr (.inr (.inl ⟨by omega, b1, b2, r2, rfl, ?_, by omega, h.2⟩))
          have := h.1.1
          split at this
          · simp at this; omega
          · split at this <;> (simp at this; omega)
        · simp at h
      · split at h
        · rename_i h4
          simp only [Bool.and_eq_true, decide_eq_true_eq] at h4
          split at h
          · rename_i b1 b2 b3 r3
            simp only [isCont, Bool.and_eq_true, decide_eq_true_eq] at h
            refine .inr (.inr (.inr ⟨by omega, b1, b2, b3, r3, rfl, ?_, by omega, by omega, h.2⟩))
            have := h.1.1.1
            split at this
            · simp at this; omega
            · split at this <;> (simp at this; omega)
          · simp at h
        · simp at h

theorem head_not_cont_of_valid {b : Nat} {r : List Nat} (h : validUtf8 (b :: r) = true) : isCont b = false := by
  rcases valid_cases h with h | h | h | h <;> simp [isCont] <;> omega

theorem nca_of_valid_aux : ∀ (n : Nat) (s : List Nat), s.length ≤ n → validUtf8 s = true → NCA s
  | 0, s, hn, _ => by
    cases s with
    | nil => trivial
    | cons _ _ => simp at hn
  | n + 1, s, hn, h => by
    cases s with
    | nil => trivial
    | cons a r =>
      rcases valid_cases h with ⟨ha, hr⟩ | ⟨ha, b1, r1, rfl, h1, hr⟩ | ⟨ha, b1, b2, r2, rfl, h1, h2, hr⟩ |
          ⟨ha, b1, b2, b3, r3, rfl, h1, h2, h3, hr⟩
      · have ih := nca_of_valid_aux n r (by simp at hn; omega) hr
        cases r with
        | nil => trivial
        | cons b r' => exact ⟨fun _ => head_not_cont_of_valid hr, ih⟩
      · exact NCA.cons_hi (by omega) (NCA.cons_hi h1 (nca_of_valid_aux n r1 (by simp at hn; omega) hr))
      · exact NCA.cons_hi (by omega) (NCA.cons_hi h1 (NCA.cons_hi h2 (nca_of_valid_aux n r2 (by simp at hn; omega) hr)))
      · exact NCA.cons_hi (by omega) (NCA.cons_hi h1 (NCA.cons_hi h2 (NCA.cons_hi h3
          (nca_of_valid_aux n r3 (by simp at hn; omega) hr))))

theorem nca_of_valid {s : List Nat} (h : validUtf8 s = true) : NCA s :=
  nca_of_valid_aux s.length s (Nat.le_refl _) h

/-- `strip_utf8_bom`'s `expect("valid input")` cannot fire: what follows a BOM in a `&str` is a `&str`. -/
theorem valid_after_bom {r : List Nat} (h : validUtf8 (0xEF :: 0xBB :: 0xBF :: r) = true) : validUtf8 r = true := by
  unfold validUtf8 at h
  simpa [isCont] using h

end KVerif.SExpr
