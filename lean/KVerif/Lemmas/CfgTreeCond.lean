/-
Lemmas for C16 about the conditional forms of templates: the pass/loop of `evaluate_conditionals`
against the one-traversal specification `condSpec`.
-/
import KVerif.Model.CfgTree
namespace KVerif.CfgTree

mutual
  /-- no conditional form anywhere -/
  def nfcTree : Tree → Bool
    | .atom _ => true
    | .list l => (condTest l).isNone && nfcList l
  def nfcList : List Tree → Bool
    | [] => true
    | t :: rest => nfcTree t && nfcList rest
end

theorem nfcList_append (a b : List Tree) : nfcList (a ++ b) = (nfcList a && nfcList b) := by
  induction a with
  | nil => simp [nfcList]
  | cons t rest ih => simp [nfcList, ih, Bool.and_assoc]

theorem condSpec_append (a b : List Tree) :
    condSpec (a ++ b) =
      match condSpec a with
      | .error e => .error e
      | .ok ra => match condSpec b with
        | .error e => .error e
        | .ok rb => .ok (ra ++ rb) := by
  induction a with
  | nil => simp only [List.nil_append, condSpec]; cases condSpec b <;> rfl
  | cons t rest ih =>
    simp only [List.cons_append, condSpec]
    cases condSpecTree t with
    | error e => rfl
    | ok r1 =>
      simp only [ih]
      cases condSpec rest with
      | error e => rfl
      | ok ra => cases condSpec b <;> simp

theorem condPass_nil : condPass [] = .ok ([], false) := by simp [condPass]

theorem condPass_atom (a : Str) (rest : List Tree) :
    condPass (.atom a :: rest) =
      match condPass rest with
      | .error e => .error e
      | .ok (r, c) => .ok (.atom a :: r, c) := by
  simp only [condPass, condPassTree]
  cases condPass rest with
  | error e => rfl
  | ok p => obtain ⟨r, c⟩ := p; simp

theorem condPass_list (l rest : List Tree) :
    condPass (.list l :: rest) =
      match condReplacement l with
      | some (.error e) => .error e
      | some (.ok repl) =>
        match condPass rest with
        | .error e => .error e
        | .ok (r, _) => .ok (repl ++ r, true)
      | none =>
        match condPass l with
        | .error e => .error e
        | .ok (l', c1) =>
          match condPass rest with
          | .error e => .error e
          | .ok (r, c2) => .ok (.list l' :: r, c1 || c2) := by
  simp only [condPass, condPassTree]
  cases condReplacement l with
  | some res =>
    cases res with
    | error e => rfl
    | ok repl =>
      simp only
      cases condPass rest with
      | error e => rfl
      | ok p => obtain ⟨r, c⟩ := p; simp
  | none =>
    simp only
    cases condPass l with
    | error e => rfl
    | ok pl =>
      obtain ⟨l', c1⟩ := pl
      simp only
      cases condPass rest with
      | error e => rfl
      | ok p => obtain ⟨r, c⟩ := p; simp

theorem condTest_cons_atom (a : Str) (r1 r2 : List Tree) :
    (condTest (.atom a :: r1)).isNone = (condTest (.atom a :: r2)).isNone := by
  simp only [condTest]
  cases condKind? a <;> rfl

theorem condTest_list_head (l0 : List Tree) (r : List Tree) : condTest (.list l0 :: r) = none := rfl

theorem condTest_nil : condTest [] = none := rfl

/-- what `condReplacement` returns, from `condTest` -/
theorem condReplacement_eq (l : List Tree) :
    condReplacement l = match condTest l with
      | none => none
      | some (.error e) => some (.error e)
      | some (.ok b) => some (.ok (if b then l.drop 3 else [])) := rfl

theorem sizeList_append (a b : List Tree) : sizeList (a ++ b) = sizeList a + sizeList b := by
  induction a with
  | nil => simp [sizeList]
  | cons t rest ih => simp [sizeList, ih, Nat.add_assoc]

theorem sizeList_drop_le (n : Nat) (l : List Tree) : sizeList (l.drop n) ≤ sizeList l := by
  induction n generalizing l with
  | zero => simp
  | succ n ih =>
    cases l with
    | nil => simp
    | cons t rest =>
      simp only [List.drop_succ_cons, sizeList]
      have := ih rest
      omega


theorem condReplacement_size (l repl : List Tree) (h : condReplacement l = some (.ok repl)) :
    sizeList repl ≤ sizeList l := by
  rw [condReplacement_eq] at h
  split at h
  · cases h
  · cases h
  · rename_i b hb
    simp only [Option.some.injEq, Except.ok.injEq] at h
    subst h
    split
    · exact sizeList_drop_le 3 l
    · simp [sizeList]

/-- a pass never grows the forest; it reports `false` only when it changed nothing, and `true`
only when it removed something -/
theorem condPass_size : ∀ (ts ts1 : List Tree) (c : Bool), condPass ts = .ok (ts1, c) →
    (c = false → ts1 = ts) ∧ (c = true → sizeList ts1 < sizeList ts) ∧ sizeList ts1 ≤ sizeList ts
  | [], ts1, c, h => by
    simp only [condPass_nil, condPass_atom, condPass_list, Except.ok.injEq, Prod.mk.injEq] at h
    obtain ⟨rfl, rfl⟩ := h
    simp
  | .atom a :: rest, ts1, c, h => by
    simp only [condPass_nil, condPass_atom, condPass_list] at h
    cases hr : condPass rest with
    | error e => simp [hr] at h
    | ok p =>
      obtain ⟨r, c'⟩ := p
      simp only [hr, Except.ok.injEq, Prod.mk.injEq] at h
      obtain ⟨rfl, rfl⟩ := h
      obtain ⟨i1, i2, i3⟩ := condPass_size rest r c' hr
      refine ⟨fun hc => by rw [i1 hc], fun hc => ?_, ?_⟩
      · have := i2 hc; simp only [sizeList]; omega
      · simp only [sizeList]; omega
  | .list l :: rest, ts1, c, h => by
    simp only [condPass_nil, condPass_atom, condPass_list] at h
    cases hrep : condReplacement l with
    | some res =>
      cases res with
      | error e => simp [hrep] at h
      | ok repl =>
        simp only [hrep] at h
        cases hr : condPass rest with
        | error e => simp [hr] at h
        | ok p =>
          obtain ⟨r, c'⟩ := p
          simp only [hr, Except.ok.injEq, Prod.mk.injEq] at h
          obtain ⟨rfl, rfl⟩ := h
          obtain ⟨-, -, i3⟩ := condPass_size rest r c' hr
          have hs := condReplacement_size l repl hrep
          refine ⟨fun hc => by simp at hc, fun _ => ?_, ?_⟩
          · simp only [sizeList_append, sizeList, sizeTree]; omega
          · simp only [sizeList_append, sizeList, sizeTree]; omega
    | none =>
      simp only [hrep] at h
      cases hl : condPass l with
      | error e => simp [hl] at h
      | ok pl =>
        obtain ⟨l', c1⟩ := pl
        simp only [hl] at h
        cases hr : condPass rest with
        | error e => simp [hr] at h
        | ok p =>
          obtain ⟨r, c2⟩ := p
          simp only [hr, Except.ok.injEq, Prod.mk.injEq] at h
          obtain ⟨rfl, rfl⟩ := h
          obtain ⟨a1, a2, a3⟩ := condPass_size l l' c1 hl
          obtain ⟨b1, b2, b3⟩ := condPass_size rest r c2 hr
          refine ⟨fun hc => ?_, fun hc => ?_, ?_⟩
          · simp only [Bool.or_eq_false_iff] at hc
            rw [a1 hc.1, b1 hc.2]
          · simp only [sizeList, sizeTree]
            simp only [Bool.or_eq_true] at hc
            cases hc with
            | inl hc => have := a2 hc; omega
            | inr hc => have := b2 hc; omega
          · simp only [sizeList, sizeTree]; omega


theorem condReplacement_none_iff (l : List Tree) : condReplacement l = none ↔ condTest l = none := by
  rw [condReplacement_eq]
  split <;> simp_all

theorem condSpec_body_drop (l : List Tree) :
    (match l with
      | _ :: _ :: _ :: body => condSpec body
      | _ => .ok []) = condSpec (l.drop 3) := by
  match l with
  | [] => rfl
  | [_] => rfl
  | [_, _] => rfl
  | _ :: _ :: _ :: body => rfl

theorem condSpecTree_unfold (l : List Tree) : condSpecTree (.list l) =
   match condTest l with
   | some (.error e) => .error e
   | some (.ok b) => if b then condSpec (l.drop 3) else .ok []
   | none => match condSpec l with
     | .error e => .error e
     | .ok l' => .ok [.list l'] := by
  rcases l with _ | ⟨x, _ | ⟨y, _ | ⟨z, body⟩⟩⟩
  · rw [condSpecTree]
    · cases condTest [] with
      | none => rfl
      | some r => cases r with
        | error e => rfl
        | ok b => cases b <;> simp [condSpec]
    · intro _ _ _ _ h; cases h
  · rw [condSpecTree]
    · cases condTest [x] with
      | none => rfl
      | some r => cases r with
        | error e => rfl
        | ok b => cases b <;> simp [condSpec]
    · intro _ _ _ _ h; cases h
  · rw [condSpecTree]
    · cases condTest [x, y] with
      | none => rfl
      | some r => cases r with
        | error e => rfl
        | ok b => cases b <;> simp [condSpec]
    · intro _ _ _ _ h; cases h
  · rw [condSpecTree]
    cases condTest (x :: y :: z :: body) with
    | none => rfl
    | some r => cases r with
      | error e => rfl
      | ok b => cases b <;> simp

theorem condSpecTree_none (l : List Tree) (h : condTest l = none) :
    condSpecTree (.list l) = match condSpec l with
      | .error e => .error e
      | .ok l' => .ok [.list l'] := by
  rw [condSpecTree_unfold, h]

theorem condSpecTree_err (l : List Tree) (e : Fail) (h : condTest l = some (.error e)) :
    condSpecTree (.list l) = .error e := by
  rw [condSpecTree_unfold, h]

theorem condSpecTree_ok (l : List Tree) (b : Bool) (h : condTest l = some (.ok b)) :
    condSpecTree (.list l) = if b then condSpec (l.drop 3) else .ok [] := by
  rw [condSpecTree_unfold, h]

/-- a pass that reports no change ran over a forest without conditional forms: the specification
leaves such a forest as it is -/
theorem condPass_false_spec : ∀ (ts ts1 : List Tree), condPass ts = .ok (ts1, false) →
    condSpec ts = .ok ts
  | [], _, _ => rfl
  | .atom a :: rest, ts1, h => by
    simp only [condPass_nil, condPass_atom, condPass_list] at h
    cases hr : condPass rest with
    | error e => simp [hr] at h
    | ok p =>
      obtain ⟨r, c'⟩ := p
      simp only [hr, Except.ok.injEq, Prod.mk.injEq] at h
      obtain ⟨-, rfl⟩ := h
      simp [condSpec, condSpecTree, condPass_false_spec rest r hr]
  | .list l :: rest, ts1, h => by
    simp only [condPass_nil, condPass_atom, condPass_list] at h
    cases hrep : condReplacement l with
    | some res =>
      cases res with
      | error e => simp [hrep] at h
      | ok repl =>
        simp only [hrep] at h
        cases hr : condPass rest with
        | error e => simp [hr] at h
        | ok p => simp [hr] at h
    | none =>
      simp only [hrep] at h
      cases hl : condPass l with
      | error e => simp [hl] at h
      | ok pl =>
        obtain ⟨l', c1⟩ := pl
        simp only [hl] at h
        cases hr : condPass rest with
        | error e => simp [hr] at h
        | ok p =>
          obtain ⟨r, c2⟩ := p
          simp only [hr, Except.ok.injEq, Prod.mk.injEq, Bool.or_eq_false_iff] at h
          obtain ⟨-, rfl, rfl⟩ := h
          have ht := (condReplacement_none_iff l).mp hrep
          have e1 := condPass_false_spec l l' hl
          have e2 := condPass_false_spec rest r hr
          have e3 : condSpecTree (.list l) = .ok [.list l] := by
            rw [condSpecTree_none l ht, e1]
          simp only [condSpec, e3, e2]
          rfl

/-- the specification keeps a leading atom in place -/
theorem condTest_of_spec (l' l'' : List Tree) (h : condSpec l' = .ok l'')
    (hn : condTest l'' = none) : condTest l' = none := by
  match l' with
  | [] => rfl
  | .list _ :: _ => rfl
  | .atom a :: rest =>
    simp only [condSpec, condSpecTree] at h
    cases hr : condSpec rest with
    | error e => simp [hr] at h
    | ok r =>
      simp only [hr, Except.ok.injEq] at h
      subst h
      have := condTest_cons_atom a rest r
      simp only [List.singleton_append] at hn
      rw [hn] at this
      simpa using this

/-- One pass does not change what the specification computes, as long as that result is free of
conditional forms (i.e. no conditional produced the keyword of another one). -/
theorem condPass_preserves_spec : ∀ (ts r : List Tree), condSpec ts = .ok r → nfcList r = true →
    ∃ ts1 c, condPass ts = .ok (ts1, c) ∧ condSpec ts1 = .ok r
  | [], r, h, _ => ⟨[], false, by simp [condPass_nil, condPass_atom, condPass_list], h⟩
  | .atom a :: rest, r, h, hn => by
    simp only [condSpec, condSpecTree] at h
    cases hr : condSpec rest with
    | error e => simp [hr] at h
    | ok r2 =>
      simp only [hr, Except.ok.injEq] at h
      subst h
      simp only [List.singleton_append, nfcList, nfcTree, Bool.true_and] at hn
      obtain ⟨rest1, c, h1, h2⟩ := condPass_preserves_spec rest r2 hr hn
      exact ⟨.atom a :: rest1, c, by simp [condPass_nil, condPass_atom, condPass_list, h1], by simp [condSpec, condSpecTree, h2]⟩
  | .list l :: rest, r, h, hn => by
    simp only [condSpec] at h
    cases ht : condSpecTree (.list l) with
    | error e => simp [ht] at h
    | ok r1 =>
      simp only [ht] at h
      cases hr : condSpec rest with
      | error e => simp [hr] at h
      | ok r2 =>
        simp only [hr, Except.ok.injEq] at h
        subst h
        rw [nfcList_append, Bool.and_eq_true] at hn
        obtain ⟨rest1, c, h1, h2⟩ := condPass_preserves_spec rest r2 hr hn.2
        cases hct : condTest l with
        | some res =>
          cases res with
          | error e => rw [condSpecTree_err l e hct] at ht; cases ht
          | ok b =>
            rw [condSpecTree_ok l b hct] at ht
            have hrep : condReplacement l = some (.ok (if b then l.drop 3 else [])) := by
              rw [condReplacement_eq, hct]
            refine ⟨(if b then l.drop 3 else []) ++ rest1, true, by simp [condPass_nil, condPass_atom, condPass_list, hrep, h1], ?_⟩
            rw [condSpec_append, h2]
            cases b with
            | true =>
              simp only [if_true] at ht ⊢
              simp [ht]
            | false =>
              simp only [Bool.false_eq_true, if_false] at ht ⊢
              cases ht
              simp [condSpec]
        | none =>
          rw [condSpecTree_none l hct] at ht
          cases hl : condSpec l with
          | error e => simp [hl] at ht
          | ok l'' =>
            simp only [hl, Except.ok.injEq] at ht
            subst ht
            simp only [nfcList, nfcTree, Bool.and_true, Bool.and_eq_true, Option.isNone_iff_eq_none] at hn
            obtain ⟨l', c1, g1, g2⟩ := condPass_preserves_spec l l'' hl hn.1.2
            have hrep := (condReplacement_none_iff l).mpr hct
            refine ⟨.list l' :: rest1, c1 || c, by simp [condPass_nil, condPass_atom, condPass_list, hrep, g1, h1], ?_⟩
            have ht' := condTest_of_spec l' l'' g2 hn.1.1
            simp only [condSpec, condSpecTree_none l' ht', g2, h2]

/-- **the loop computes the specification**, within `size + 1` iterations -/
theorem condLoop_complete : ∀ (n : Nat) (ts r : List Tree), sizeList ts < n →
    condSpec ts = .ok r → nfcList r = true → condLoop n ts = .ok r := by
  intro n
  induction n with
  | zero => intro ts r h; omega
  | succ n ih =>
    intro ts r hsz hs hn
    obtain ⟨ts1, c, h1, h2⟩ := condPass_preserves_spec ts r hs hn
    simp only [condLoop, h1]
    obtain ⟨a1, a2, -⟩ := condPass_size ts ts1 c h1
    cases c with
    | false =>
      have := a1 rfl
      subst this
      have := condPass_false_spec ts1 ts1 h1
      rw [this] at hs
      simp only [Bool.false_eq_true, if_false]
      exact hs
    | true =>
      simp only [if_true]
      have := a2 rfl
      exact ih ts1 r (by omega) h2 hn

end KVerif.CfgTree
