/-
C06 on the mixed fragment, helper lemmas part 3: whole ticks — with a tap-hold key pending while
one-shot keys are active (countdown only / the tick on which `tick_osh` fires), the resolution tick,
and the paused ticks after it.
-/
import KVerif.Lemmas.OneShotMixInv
namespace KVerif.C06
open KVerif.L

theorem osh_waits_eq (o : OneShotState) (hi : o.ticksToIgnoreEvents = 0) :
    ({ o with ticksToIgnoreEvents := o.ticksToIgnoreEvents - 1, timeout := o.timeout - 1 } : OneShotState) =
      { o with timeout := o.timeout - 1 } := by
  cases o; simp only at hi; subst hi; rfl

/-- the exact waiting state the tap-hold arm creates -/
theorem armHoldTapWait_exact (s : Layout) (c : Coord) (d T : Nat) (hold tap to : Action) (cfg : HTConfig)
    (iv : Nat) (ls : List Nat) (hw : s.waiting = none) :
    (armHoldTapWait s c d T hold tap to cfg iv ls).waiting =
      some { coord := c, timeout := if s.quickTapHoldTimeout then T - d else T,
             delay := if s.quickTapHoldTimeout then 0 else d, ticks := 0, hold := hold, tap := tap,
             timeoutAction := to, config := .holdTap cfg, layerStack := ls, prevQueueLen := 255 } := by
  unfold armHoldTapWait
  simp only [hw]
  unfold updateCoord
  split <;> rfl

theorem prelude_quick (s : Layout) (c : Coord) (iv : Nat)
    (hnq : iv = 0 ∨ c ≠ s.lptCoord ∨ s.lptTapHoldTimeout = 0) :
    (iv == 0 || c != (prelude s c).lptCoord || (prelude s c).lptTapHoldTimeout == 0) = true := by
  have hl : (prelude s c).lptCoord = s.lptCoord := by unfold prelude; split <;> rfl
  rcases hnq with g | g | g
  · simp [g]
  · rw [hl]; simp [g]
  · have := Quiesce.prelude_lpt s c
    have : (prelude s c).lptTapHoldTimeout = 0 := by omega
    simp [this]

/-! ### the first two stages when `tick_osh` only counts down -/

theorem pre_osh_waits {s : Layout} {down : List Coord} (h : MInv s down) (hk : s.oneshot.keys ≠ [])
    (hr : s.oneshot.releaseOnNextTick = false) (h2 : 2 ≤ s.oneshot.timeout) :
    ∃ s1, tickOneshot (tickPre s) = .ok (s1, .noEvent) ∧ MInv s1 down ∧ s1.queue = age s.queue ∧
      s1.waiting = s.waiting ∧ s1.states = s.states ∧
      s1.oneshot = { s.oneshot with timeout := s.oneshot.timeout - 1 } := by
  obtain ⟨i0, t4, tw, t2, t3, _⟩ := h.pre
  have e1 := tickOneshot_waits (s := tickPre s) (t2 ▸ hk) (t2 ▸ hr) (t2 ▸ h2)
  obtain ⟨s1, e1', i1, q1, w1, _⟩ := i0.osh
  rw [e1] at e1'
  injection e1' with e1'; injection e1' with e1'
  refine ⟨s1, by rw [← e1']; exact e1, i1, q1.trans t4, w1.trans tw, by rw [← e1']; exact t3, ?_⟩
  rw [← e1']
  simp only [t2]
  exact osh_waits_eq _ h.ignore

/-- **the tick on which `tick_osh` fires**, whatever is pending: every deferred release is applied in
the second stage, the one-shot state is cleared, and the pending tap-hold key is exactly as it was —
it is looked at only afterwards, in the third stage, on `sr` -/
theorem m_tick_fires {s : Layout} {down : List Coord} (h : MInv s down) (hk : s.oneshot.keys ≠ [])
    (hf : s.oneshot.releaseOnNextTick = true ∨ s.oneshot.timeout ≤ 1) :
    ∃ sr, tickOneshot (tickPre s) = .ok (sr, .noEvent) ∧ MInv sr down ∧
      sr.oneshot = OneShotState.cleared s.oneshot ∧
      sr.states = dropCoords s.oneshot.releasedKeys s.states ∧ sr.queue = age s.queue ∧
      sr.waiting = s.waiting ∧ sr.extraWaiting = [] ∧
      (∀ s' cu, tick s = .ok (s', cu) ↔ tickMain sr = .ok (s', cu)) := by
  obtain ⟨i0, t4, tw, t2, t3, _⟩ := h.pre
  have e1 := tickOneshot_fires (s := tickPre s) i0.states (t2 ▸ hk) (t2 ▸ hf)
  obtain ⟨sr, e1', i1, hiff⟩ := tick_iff_main h
  rw [e1] at e1'
  injection e1' with e1'; injection e1' with e1'
  refine ⟨sr, by rw [← e1']; exact e1, i1, ?_, ?_, ?_, ?_, i1.extra, hiff⟩
  · rw [← e1']; simp only [t2]
  · rw [← e1']; simp only [t2, t3]
  · rw [← e1']; exact t4
  · rw [← e1']; exact tw

/-! ### a tick with a tap-hold key pending -/

/-- the result of a tick with the tap-hold key `w` pending, given the layout `s1` the first two
stages leave: counted down, or resolved on `s1` -/
def pendingResult (s1 : Layout) (w : Waiting) : Layout :=
  match (C05.htStep w s1.queue).2 with
  | none => { s1 with waiting := some (C05.htStep w s1.queue).1 }
  | some a => resolved { s1 with waiting := none } (C05.htStep w s1.queue).1 a

theorem pending_tick_core {s s1 : Layout} {down : List Coord} (h : MInv s down) (w : Waiting)
    (e1 : tickOneshot (tickPre s) = .ok (s1, .noEvent)) (i1 : MInv s1 down) (hw1 : s1.waiting = some w) :
    tick s = .ok (pendingResult s1 w, .noEvent) ∧ MInv (pendingResult s1 w) down := by
  have hm := tickMain_pending i1 w hw1
  have i2 := (i1.main _ _ hm).1
  exact ⟨tick_M h e1 hm i2, i2⟩

/-- **undecided**: nothing but the two countdowns moves -/
theorem pendingResult_none {s1 : Layout} {w : Waiting} (hd : (C05.htStep w s1.queue).2 = none) :
    pendingResult s1 w = { s1 with waiting := some (C05.htStep w s1.queue).1 } := by
  unfold pendingResult; rw [hd]

/-- **decided**: the key's action is performed on `s1` -/
theorem pendingResult_some {s1 : Layout} {w : Waiting} {a : WAct} (hd : (C05.htStep w s1.queue).2 = some a) :
    pendingResult s1 w = resolved { s1 with waiting := none } (C05.htStep w s1.queue).1 a := by
  unfold pendingResult; rw [hd]

/-- what the resolution does to the layout `s1` it is performed on -/
theorem resolution_spec {s1 : Layout} {down : List Coord} (i1 : MInv s1 down) (w : Waiting)
    (hw1 : s1.waiting = some w) (a : WAct) (hd : (C05.htStep w s1.queue).2 = some a) :
    (pendingResult s1 w).waiting = none ∧ (pendingResult s1 w).queue = s1.queue ∧
    Adds w.coord s1 (pendingResult s1 w) ∧
    (pendingResult s1 w).oneshot = resolvedOsh s1.oneshot w.coord a := by
  obtain ⟨wk, _⟩ := i1.wok w hw1
  have hc := C05.htStep_counted w s1.queue
  have ha : a ≠ .noOp := fun h0 => C05.htStep_ne_noOp w s1.queue (h0 ▸ hd)
  obtain ⟨f, q, ad, o⟩ := resolved_spec { s1 with waiting := none } (C05.htStep w s1.queue).1 (wk.counted hc) a ha
  rw [hc.coord] at ad o
  rw [pendingResult_some hd]
  exact ⟨f.waiting, q, ⟨ad.old, ad.new⟩, o⟩

/-! ### the paused ticks after the resolution (nothing pending) -/

theorem m_tick_waits_paused {s : Layout} {down : List Coord} (h : MInv s down) (hw : s.waiting = none)
    (hk : s.oneshot.keys ≠ []) (hr : s.oneshot.releaseOnNextTick = false) (h2 : 2 ≤ s.oneshot.timeout)
    (hp : 0 < s.oneshot.pauseInputProcessingTicks) :
    ∃ s', tick s = .ok (s', .noEvent) ∧ MInv s' down ∧ s'.waiting = none ∧ s'.states = s.states ∧
      s'.queue = age s.queue ∧ SameKeys s.oneshot s'.oneshot ∧ s'.oneshot.timeout = s.oneshot.timeout - 1 ∧
      s'.oneshot.pauseInputProcessingTicks = s.oneshot.pauseInputProcessingTicks - 1 := by
  obtain ⟨s1, e1, i1, q1, w1, st1, o1⟩ := pre_osh_waits h hk hr h2
  have e2 := tickMain_paused (s := s1) (w1.trans hw) i1.extra (by rw [o1]; exact hp)
  obtain ⟨i2, _⟩ := i1.main _ _ e2
  refine ⟨_, tick_M h e1 e2 i2, i2, w1.trans hw, st1, q1, ?_, by simp [o1], by simp [o1]⟩
  exact ⟨by simp [o1], by simp [o1], by simp [o1], by simp [o1], by simp [o1], by simp [o1]⟩

end KVerif.C06
