/-
Invariants of the byte iterator and of `Lexer::next_token` (Model/SExpr.lean).
`Good s pre it`: the iterator `it` is positioned in the text `s` after the prefix `pre`, and its
counters are the ones the Rust iterator would have there.
-/
import KVerif.Lemmas.SExprUtf8
set_option linter.unnecessarySimpa false
namespace KVerif.SExpr

/-- number of newlines -/
def nl (l : List Nat) : Nat := l.count 10

theorem nl_le (l : List Nat) : nl l ≤ l.length := List.count_le_length

theorem nl_append (a b : List Nat) : nl (a ++ b) = nl a + nl b := by simp [nl]

structure Good (s pre : List Nat) (it : It) : Prop where
  split : s = pre ++ it.inp
  len : it.len = s.length
  rem : it.rem = it.inp.length
  line : it.line = nl pre
  lb : it.lineBeg ≤ pre.length

theorem Good.ofText (s : List Nat) : Good s [] (It.ofText s) :=
  ⟨by simp [It.ofText], rfl, rfl, rfl, Nat.le_refl _⟩

theorem Good.abs {s pre it} (g : Good s pre it) : it.abs = pre.length := by
  have := congrArg List.length g.split
  simp [It.abs, g.len, g.rem] at *
  omega

theorem Good.pos {s pre it} (g : Good s pre it) : it.pos = .ok ⟨pre.length, nl pre, it.lineBeg⟩ := by
  have := nl_le pre
  simp [It.pos, Pos.new, g.abs, g.line, g.lb, this]

theorem Good.adv {s pre it b r} (g : Good s pre it) (h : it.inp = b :: r) :
    Good s (pre ++ [b]) (it.adv b r) := by
  have hs := g.split
  have hl := congrArg List.length hs
  rw [h] at hs hl
  simp at hl
  unfold It.adv
  split
  · subst_vars
    refine ⟨by simpa using hs, g.len, by simp [g.rem, h], by simp [g.line, nl], ?_⟩
    simp [g.len, g.rem, h, hl]; omega
  · rename_i hb
    refine ⟨by simpa using hs, g.len, by simp [g.rem, h], ?_, by simp; have := g.lb; omega⟩
    simp [g.line, nl, hb]

theorem Good.skip {s pre it} (g : Good s pre it) :
    ∃ mid, Good s (pre ++ mid) it.skip ∧ mid.length ≤ 1 ∧ (it.inp ≠ [] → mid = [it.inp.head!]) ∧
      (it.inp = [] → mid = []) := by
  unfold It.skip
  split
  · rename_i h; exact ⟨[], by simpa using g, by simp, by simp [h], by simp⟩
  · rename_i b r h; exact ⟨[b], g.adv h, by simp, by simp [h, List.head!], by simp [h]⟩

/-- `next_while`: consumes the longest prefix of bytes that satisfy `f` -/
theorem nextWhileL_spec (f : Nat → Bool) (s : List Nat) :
    ∀ (inp pre : List Nat) (rem line lb : Nat), Good s pre ⟨inp, rem, s.length, line, lb⟩ →
      ∃ mid, Good s (pre ++ mid) (nextWhileL f s.length inp rem line lb) ∧ (∀ b ∈ mid, f b = true) ∧
        (∀ b r, (nextWhileL f s.length inp rem line lb).inp = b :: r → f b = false) ∧
        (mid = [] → nextWhileL f s.length inp rem line lb = ⟨inp, rem, s.length, line, lb⟩) := by
  intro inp
  induction inp with
  | nil =>
    intro pre rem line lb g
    exact ⟨[], by simpa [nextWhileL] using g, by simp, by simp [nextWhileL], by simp [nextWhileL]⟩
  | cons b r ih =>
    intro pre rem line lb g
    unfold nextWhileL
    by_cases hf : f b = true
    · have g' := g.adv (b := b) (r := r) rfl
      simp only [hf, if_true]
      by_cases hb : b = 10
      · simp only [hb, if_true]
        simp only [It.adv, hb, if_true] at g'
        obtain ⟨mid, g2, h1, h2, _⟩ := ih (pre ++ [10]) _ _ _ g'
        refine ⟨10 :: mid, by simpa using g2, ?_, h2, by simp⟩
        intro x hx
        simp at hx
        rcases hx with rfl | hx
        · simpa [hb] using hf
        · exact h1 x hx
      · simp only [hb, if_false]
        simp only [It.adv, hb, if_false] at g'
        obtain ⟨mid, g2, h1, h2, _⟩ := ih (pre ++ [b]) _ _ _ g'
        refine ⟨b :: mid, by simpa using g2, ?_, h2, by simp⟩
        intro x hx
        simp at hx
        rcases hx with rfl | hx
        · exact hf
        · exact h1 x hx
    · simp only [hf]
      refine ⟨[], by simpa using g, by simp, ?_, by simp⟩
      intro b' r' h
      simp at h
      simpa [← h.1] using hf

theorem Good.nextWhile {s pre it} (f : Nat → Bool) (g : Good s pre it) :
    ∃ mid, Good s (pre ++ mid) (it.nextWhile f) ∧ (∀ b ∈ mid, f b = true) ∧
      (∀ b r, (it.nextWhile f).inp = b :: r → f b = false) ∧ (mid = [] → it.nextWhile f = it) := by
  have := nextWhileL_spec f s it.inp pre it.rem it.line it.lineBeg (by
    have := g.len
    cases it; simp_all)
  unfold It.nextWhile
  rw [g.len]
  obtain ⟨mid, h1, h2, h3, h4⟩ := this
  refine ⟨mid, h1, h2, h3, fun hm => ?_⟩
  rw [h4 hm, ← g.len]

theorem It.adv_inp (it : It) (b : Nat) (r : List Nat) : (it.adv b r).inp = r := by
  unfold It.adv; split <;> rfl

theorem It.adv_len (it : It) (b : Nat) (r : List Nat) : (it.adv b r).len = it.len := by
  unfold It.adv; split <;> rfl

/-- `read_until_multiline_*_end` -/
theorem readUntil2L_spec (c1 c2 : Nat) (cl : Bool) (s : List Nat) :
    ∀ (n : Nat) (inp pre : List Nat) (rem line lb : Nat), inp.length ≤ n →
      Good s pre ⟨inp, rem, s.length, line, lb⟩ →
      ∃ mid, Good s (pre ++ mid) (readUntil2L c1 c2 cl s.length inp rem line lb).2 ∧
        ((readUntil2L c1 c2 cl s.length inp rem line lb).1 = true → ∃ m, mid = m ++ [c1, c2]) ∧
        ((readUntil2L c1 c2 cl s.length inp rem line lb).1 = false →
          (cl = true → (readUntil2L c1 c2 cl s.length inp rem line lb).2.inp = []) ∧
          (readUntil2L c1 c2 cl s.length inp rem line lb).2.inp.length ≤ 1) := by
  intro n
  induction n with
  | zero =>
    intro inp pre rem line lb hn g
    have : inp = [] := by cases inp <;> simp_all
    subst this
    exact ⟨[], by simpa [readUntil2L] using g, by simp [readUntil2L], by simp [readUntil2L]⟩
  | succ n ih =>
    intro inp pre rem line lb hn g
    match inp, hn, g with
    | [], _, g => exact ⟨[], by simpa [readUntil2L] using g, by simp [readUntil2L], by simp [readUntil2L]⟩
    | [b], _, g =>
      unfold readUntil2L
      cases cl with
      | false => exact ⟨[], by simpa using g, by simp, by simp⟩
      | true =>
        have g' := g.adv (b := b) (r := []) rfl
        exact ⟨[b], g', by simp, by simp [It.adv_inp]⟩
    | b1 :: b2 :: r, hn, g =>
      unfold readUntil2L
      have g1 := g.adv (b := b1) (r := b2 :: r) rfl
      simp only
      by_cases hc : b1 = c1 ∧ b2 = c2
      · obtain ⟨rfl, rfl⟩ := hc
        simp only [and_self, if_true]
        have g2 := g1.adv (b := b2) (r := r) (It.adv_inp _ _ _)
        refine ⟨[b1, b2], by simpa using g2, fun _ => ⟨[], by simp⟩, by simp⟩
      · simp only [hc, if_false]
        have hlen := It.adv_len (⟨b1 :: b2 :: r, rem, s.length, line, lb⟩ : It) b1 (b2 :: r)
        have hinp := It.adv_inp (⟨b1 :: b2 :: r, rem, s.length, line, lb⟩ : It) b1 (b2 :: r)
        obtain ⟨mid, h1, h2, h3⟩ := ih (b2 :: r) (pre ++ [b1]) _ _ _ (by simp at hn ⊢; omega) (by
          have := g1
          rw [show (It.adv ⟨b1 :: b2 :: r, rem, s.length, line, lb⟩ b1 (b2 :: r)) =
            ⟨b2 :: r, (It.adv ⟨b1 :: b2 :: r, rem, s.length, line, lb⟩ b1 (b2 :: r)).rem, s.length,
             (It.adv ⟨b1 :: b2 :: r, rem, s.length, line, lb⟩ b1 (b2 :: r)).line,
             (It.adv ⟨b1 :: b2 :: r, rem, s.length, line, lb⟩ b1 (b2 :: r)).lineBeg⟩ from by
              unfold It.adv; split <;> rfl] at this
          exact this)
        refine ⟨b1 :: mid, by simpa using h1, fun hf => ?_, h3⟩
        obtain ⟨m, hm⟩ := h2 hf
        exact ⟨b1 :: m, by simp [hm]⟩

theorem Good.readUntil2 {s pre it} (c1 c2 : Nat) (cl : Bool) (g : Good s pre it) :
    ∃ mid, Good s (pre ++ mid) (it.readUntil2 c1 c2 cl).2 ∧
      ((it.readUntil2 c1 c2 cl).1 = true → ∃ m, mid = m ++ [c1, c2]) ∧
      ((it.readUntil2 c1 c2 cl).1 = false →
        (cl = true → (it.readUntil2 c1 c2 cl).2.inp = []) ∧ (it.readUntil2 c1 c2 cl).2.inp.length ≤ 1) := by
  have := readUntil2L_spec c1 c2 cl s it.inp.length it.inp pre it.rem it.line it.lineBeg (Nat.le_refl _) (by
    have := g.len
    cases it; simp_all)
  unfold It.readUntil2
  rw [g.len]
  exact this

/-! ### character boundaries -/

/-- the iterator stands at a character boundary: at the end, or before a non-continuation byte -/
def Bnd (it : It) : Prop :=
  match it.inp with
  | [] => True
  | c :: _ => isCont c = false

theorem bnd_after_ascii {b : Nat} {r : List Nat} (hn : NCA (b :: r)) (hb : b < 128) (it : It) (h : it.inp = r) :
    Bnd it := by
  unfold Bnd
  rw [h]
  cases r with
  | nil => trivial
  | cons c r' => exact hn.1 hb

theorem Good.bnd_adv {s pre it b r} (g : Good s pre it) (h : it.inp = b :: r) (hn : NCA s) (hb : b < 128) :
    Bnd (it.adv b r) := by
  have hs := g.split
  rw [h] at hs
  rw [hs] at hn
  exact bnd_after_ascii hn.suffix hb _ (It.adv_inp _ _ _)

theorem Good.bnd_last {s p it c} (g : Good s (p ++ [c]) it) (hn : NCA s) (hc : c < 128) : Bnd it := by
  have hs := g.split
  rw [hs, List.append_assoc] at hn
  exact bnd_after_ascii (r := it.inp) (by simpa using hn.suffix) hc it rfl

theorem Good.bnd_nextWhile_ascii {s pre it} (f : Nat → Bool) (g : Good s pre it) (hn : NCA s) (hb : Bnd it)
    (hf : ∀ b, f b = true → b < 128) : Bnd (it.nextWhile f) := by
  obtain ⟨mid, g2, h1, _, h4⟩ := g.nextWhile f
  by_cases hm : mid = []
  · rw [h4 hm]; exact hb
  · have hd := List.dropLast_concat_getLast hm
    rw [← hd, ← List.append_assoc] at g2
    exact g2.bnd_last hn (hf _ (h1 _ (List.getLast_mem hm)))

theorem bnd_nextWhile_stop (it : It) (f : Nat → Bool) (h3 : ∀ b r, (it.nextWhile f).inp = b :: r → f b = false)
    (hf : ∀ b, f b = false → isCont b = false) : Bnd (it.nextWhile f) := by
  unfold Bnd
  split
  · trivial
  · rename_i c r h; exact hf c (h3 c r h)

theorem isStart_false_cont {b : Nat} (h : (!isStart b) = false) : isCont b = false := by
  have h' : isStart b = true := by cases hs : isStart b <;> simp [hs] at h ⊢
  simp only [isStart, isWs, Bool.or_eq_true, decide_eq_true_eq] at h'
  simp only [isCont]
  rcases h' with ((rfl | rfl) | rfl) | (((rfl | rfl) | rfl) | rfl) | rfl <;> decide

theorem isWs_lt {b : Nat} (h : isWs b = true) : b < 128 := by
  simp [isWs] at h; omega

theorem Good.rem_lt {s pre mid it it'} (g : Good s pre it) (g' : Good s (pre ++ mid) it') (hm : mid ≠ []) :
    it'.rem < it.rem := by
  have h1 := congrArg List.length g.split
  have h2 := congrArg List.length g'.split
  have : 0 < mid.length := List.length_pos_iff.mpr hm
  simp [g.rem, g'.rem] at *
  omega

/-- what `next_token` guarantees about the token it returns -/
def TokPost (fx : Fixes) (s pre : List Nat) (it : It)
    (res : Option ((Pos × It) × Except LexErr Tok × It)) : Prop :=
  match res with
  | none => True
  | some ((start, its), t, it') =>
    ∃ sk tok, Good s (pre ++ sk) its ∧ Good s (pre ++ sk ++ tok) it' ∧ tok ≠ [] ∧
      start = ⟨(pre ++ sk).length, nl (pre ++ sk), its.lineBeg⟩ ∧
      (t = .error .untermMlComment → ∃ r, its.inp = 35 :: 124 :: r) ∧
      (NCA s → Bnd it → Bnd its ∧
        (t ≠ .error .untermMlComment → (t = .error .untermMlString → fx.rawEnd = true) → Bnd it'))

theorem tokPost_leaf {fx : Fixes} {s pre : List Nat} {it : It} {t : Except LexErr Tok} {it' : It} (tok : List Nat)
    (g : Good s pre it) (g' : Good s (pre ++ tok) it') (ht : tok ≠ [])
    (hc : t = .error .untermMlComment → ∃ r, it.inp = 35 :: 124 :: r)
    (hb : NCA s → Bnd it → t ≠ .error .untermMlComment → (t = .error .untermMlString → fx.rawEnd = true) → Bnd it') :
    ∃ res, (Except.ok (some ((⟨pre.length, nl pre, it.lineBeg⟩, it), t, it')) : Except Crash _) = .ok res ∧
      TokPost fx s pre it res :=
  ⟨_, rfl, [], tok, by simpa using g, by simpa using g', ht, by simp, hc, fun hn hbi => ⟨hbi, hb hn hbi⟩⟩

theorem tokPost_skip {fx : Fixes} {s pre mid : List Nat} {it it2 : It} {res}
    (hb : NCA s → Bnd it → Bnd it2) (h : TokPost fx s (pre ++ mid) it2 res) : TokPost fx s pre it res := by
  unfold TokPost at *
  split
  · trivial
  · rename_i start its t it'
    simp only at h
    obtain ⟨sk, tok, g1, g2, h3, h4, h5, h6⟩ := h
    refine ⟨mid ++ sk, tok, by simpa using g1, by simpa using g2, h3, by simpa using h4, h5, fun hn hbi => h6 hn (hb hn hbi)⟩

theorem Good.bnd_skip_ascii {s pre it} (g : Good s pre it) (hn : NCA s)
    (h : ∀ b r, it.inp = b :: r → b < 128) : Bnd it.skip := by
  unfold It.skip
  split
  · rename_i h0; simp [Bnd, h0]
  · rename_i b r h0; exact g.bnd_adv h0 hn (h b r h0)

theorem bnd_nil {it : It} (h : it.inp = []) : Bnd it := by simp [Bnd, h]

theorem nextToken_spec (fx : Fixes) (ignore : Bool) (s : List Nat) :
    ∀ (fuel : Nat) (it : It) (pre : List Nat), Good s pre it → it.rem + 1 ≤ fuel →
      ∃ res, nextToken fx ignore fuel it = .ok res ∧ TokPost fx s pre it res := by
  intro fuel
  induction fuel with
  | zero => intro it pre g h; omega
  | succ fuel ih =>
    intro it pre g hf
    unfold nextToken
    simp only [g.pos, bind, Except.bind, pure, Except.pure]
    split
    · exact ⟨none, rfl, trivial⟩
    · rename_i b r hinp
      have g1 := g.adv hinp
      have hr1 : (it.adv b r).rem < it.rem := g.rem_lt g1 (by simp)
      split
      · -- (
        rename_i hb
        exact tokPost_leaf [b] g g1 (by simp) (by simp) (fun hn _ _ _ => g.bnd_adv hinp hn (by omega))
      split
      · -- )
        rename_i hb
        exact tokPost_leaf [b] g g1 (by simp) (by simp) (fun hn _ _ _ => g.bnd_adv hinp hn (by omega))
      split
      · -- "
        rename_i hb
        obtain ⟨mid, g2, h1, h3, h4⟩ := g1.nextWhile (fun b => b != 34 && b != 10)
        split
        · rename_i r2 hq
          have g3 := g2.adv hq
          exact tokPost_leaf (b :: mid ++ [34]) g (by simpa using g3) (by simp) (by simp)
            (fun hn _ _ _ => g2.bnd_adv hq hn (by omega))
        · rename_i hq
          obtain ⟨m2, g3, hm2, hne, hnil⟩ := g2.skip
          refine tokPost_leaf (b :: mid ++ m2) g (by simpa using g3) (by simp) (by simp) (fun hn _ _ _ => ?_)
          refine g2.bnd_skip_ascii hn (fun b' r' hb' => ?_)
          have := h3 b' r' hb'
          simp at this
          by_cases h34 : b' = 34
          · omega
          · have := this h34; omega
      split
      · -- ;
        rename_i hb
        split
        · -- ;; line comment
          rename_i r2 hq
          obtain ⟨mid, g2, h1, h3, h4⟩ := g1.nextWhile (fun b => b != 10)
          obtain ⟨m2, g3, hm2, hne, hnil⟩ := g2.skip
          have hbnd : NCA s → Bnd (It.nextWhile (fun b => b != 10) (it.adv b r)).skip := fun hn =>
            g2.bnd_skip_ascii hn (fun b' r' hb' => by have := h3 b' r' hb'; simp at this; omega)
          split
          · -- ignore: continue
            have g3' : Good s (pre ++ (b :: mid ++ m2)) (It.nextWhile (fun b => b != 10) (it.adv b r)).skip := by
              simpa using g3
            obtain ⟨res, hres, hpost⟩ := ih _ _ g3' (by have := g.rem_lt g3' (by simp); omega)
            exact ⟨res, hres, tokPost_skip (fun hn _ => hbnd hn) hpost⟩
          · exact tokPost_leaf (b :: mid ++ m2) g (by simpa using g3) (by simp) (by simp) (fun hn _ _ _ => hbnd hn)
        · -- atom starting with ;
          obtain ⟨mid, g2, h1, h3, h4⟩ := g1.nextWhile (fun b => !isStart b)
          exact tokPost_leaf (b :: mid) g (by simpa [It.nextString] using g2) (by simp) (by simp)
            (fun _ _ _ _ => bnd_nextWhile_stop _ _ h3 (fun _ h => isStart_false_cont h))
      split
      · -- r
        rename_i hb
        split
        · -- r#"
          rename_i r2 hq
          have g2 := g1.adv hq
          have g3 := g2.adv (It.adv_inp _ _ _)
          obtain ⟨mid, g4, hfound, hnot⟩ := g3.readUntil2 34 35 fx.rawEnd
          split
          · rename_i it3 hres
            have hfst : ((it.adv b r).adv 35 (34 :: r2) |>.adv 34 r2 |>.readUntil2 34 35 fx.rawEnd).1 = true := by rw [hres]
            have hsnd : ((it.adv b r).adv 35 (34 :: r2) |>.adv 34 r2 |>.readUntil2 34 35 fx.rawEnd).2 = it3 := by rw [hres]
            obtain ⟨m, hm⟩ := hfound hfst
            rw [hsnd] at g4
            refine tokPost_leaf (b :: 35 :: 34 :: mid) g (by simpa using g4) (by simp) (by simp) (fun hn _ _ _ => ?_)
            rw [hm] at g4
            have g4' : Good s ((pre ++ [b] ++ [35] ++ [34] ++ m ++ [34]) ++ [35]) it3 := by simpa using g4
            exact g4'.bnd_last hn (by omega)
          · rename_i it3 hres
            have hfst : ((it.adv b r).adv 35 (34 :: r2) |>.adv 34 r2 |>.readUntil2 34 35 fx.rawEnd).1 = false := by rw [hres]
            have hsnd : ((it.adv b r).adv 35 (34 :: r2) |>.adv 34 r2 |>.readUntil2 34 35 fx.rawEnd).2 = it3 := by rw [hres]
            rw [hsnd] at g4
            refine tokPost_leaf (b :: 35 :: 34 :: mid) g (by simpa using g4) (by simp) (by simp) (fun hn _ _ hraw => ?_)
            have := (hnot hfst).1 (hraw rfl)
            rw [hsnd] at this
            exact bnd_nil this
        · obtain ⟨mid, g2, h1, h3, h4⟩ := g1.nextWhile (fun b => !isStart b)
          exact tokPost_leaf (b :: mid) g (by simpa [It.nextString] using g2) (by simp) (by simp)
            (fun _ _ _ _ => bnd_nextWhile_stop _ _ h3 (fun _ h => isStart_false_cont h))
      split
      · -- #
        rename_i hb
        split
        · -- #|
          rename_i r2 hq
          have g2 := g1.adv hq
          obtain ⟨mid, g4, hfound, hnot⟩ := g2.readUntil2 124 35 false
          split
          · rename_i it3 hres
            have hfst : ((it.adv b r).adv 124 r2 |>.readUntil2 124 35 false).1 = true := by rw [hres]
            have hsnd : ((it.adv b r).adv 124 r2 |>.readUntil2 124 35 false).2 = it3 := by rw [hres]
            obtain ⟨m, hm⟩ := hfound hfst
            rw [hsnd] at g4
            have hbnd : NCA s → Bnd it3 := fun hn => by
              rw [hm] at g4
              have g4' : Good s ((pre ++ [b] ++ [124] ++ m ++ [124]) ++ [35]) it3 := by simpa using g4
              exact g4'.bnd_last hn (by omega)
            split
            · have g4' : Good s (pre ++ (b :: 124 :: mid)) it3 := by simpa using g4
              obtain ⟨res, hres, hpost⟩ := ih _ _ g4' (by have := g.rem_lt g4' (by simp); omega)
              exact ⟨res, hres, tokPost_skip (fun hn _ => hbnd hn) hpost⟩
            · exact tokPost_leaf (b :: 124 :: mid) g (by simpa using g4) (by simp) (by simp) (fun hn _ _ _ => hbnd hn)
          · rename_i it3 hres
            have hsnd : ((it.adv b r).adv 124 r2 |>.readUntil2 124 35 false).2 = it3 := by rw [hres]
            rw [hsnd] at g4
            refine tokPost_leaf (b :: 124 :: mid) g (by simpa using g4) (by simp) (fun _ => ⟨r2, ?_⟩) (fun _ _ hne _ => absurd rfl hne)
            rw [hinp, hb]
            rw [It.adv_inp] at hq
            rw [hq]
        · obtain ⟨mid, g2, h1, h3, h4⟩ := g1.nextWhile (fun b => !isStart b)
          exact tokPost_leaf (b :: mid) g (by simpa [It.nextString] using g2) (by simp) (by simp)
            (fun _ _ _ _ => bnd_nextWhile_stop _ _ h3 (fun _ h => isStart_false_cont h))
      split
      · -- whitespace
        rename_i hws
        obtain ⟨mid, g2, h1, h3, h4⟩ := g1.nextWhile isWs
        have hbnd : NCA s → Bnd ((it.adv b r).nextWhile isWs) := fun hn =>
          g1.bnd_nextWhile_ascii isWs hn (g.bnd_adv hinp hn (isWs_lt hws)) (fun _ h => isWs_lt h)
        split
        · have g2' : Good s (pre ++ (b :: mid)) ((it.adv b r).nextWhile isWs) := by simpa using g2
          obtain ⟨res, hres, hpost⟩ := ih _ _ g2' (by have := g.rem_lt g2' (by simp); omega)
          exact ⟨res, hres, tokPost_skip (fun hn _ => hbnd hn) hpost⟩
        · exact tokPost_leaf (b :: mid) g (by simpa using g2) (by simp) (by simp) (fun hn _ _ _ => hbnd hn)
      · obtain ⟨mid, g2, h1, h3, h4⟩ := g1.nextWhile (fun b => !isStart b)
        exact tokPost_leaf (b :: mid) g (by simpa [It.nextString] using g2) (by simp) (by simp)
          (fun _ _ _ _ => bnd_nextWhile_stop _ _ h3 (fun _ h => isStart_false_cont h))

end KVerif.SExpr
