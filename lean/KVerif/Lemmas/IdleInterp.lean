/-
Meaning of the conjunct names of `Model/IdleTag.lean` on the kanata-level model state, and the proof
that the model's `isIdle` / `canBlockUpdateIdleWaiting` are the conjunction of exactly the conjuncts
that the translator found in the CURRENT source text of `Kanata::is_idle` /
`Kanata::can_block_update_idle_waiting` (`Gen/IdleFields.lean`, regenerated on every run).
-/
import KVerif.Model.Kanata
import KVerif.Gen.IdleFields
namespace KVerif.K
open KVerif.L KVerif.Gen.Idle

/-- conjuncts about components that are part of the kanata-level model; the others (zippychord,
chords v2) belong to components every configuration of this
model leaves absent, where the real conjunct is constantly true -/
def IdleTag.modelled : IdleTag → Bool
  | .zippyIdle | .chordsV2Idle => false
  | _ => true

/-- `pressed_keys_means_not_idle` -/
def pressedKeysMeansNotIdle (k : KState) : Bool := !k.waitingForIdle.isEmpty || k.liveReloadRequested

/-- what each conjunct of `is_idle` says about the model state -/
def evalIdleTag (k : KState) : IdleTag → Bool
  | .queueEmpty => k.layout.queue.isEmpty
  | .waitingNone => k.layout.waiting.isNone
  | .extraWaitingEmpty => k.layout.extraWaiting.isEmpty
  | .quickTapWindowOver => k.layout.lptTapHoldTimeout == 0
  | .oneshotKeysEmpty => k.layout.oneshot.keys.isEmpty
  | .rapidEventPauseOver => k.layout.oneshot.pauseInputProcessingTicks == 0
  | .activeSequencesEmpty => k.layout.activeSequences.isEmpty
  | .tapDanceEagerNone => k.layout.tapDanceEager.isNone
  | .actionQueueEmpty => k.layout.actionQueue.isEmpty
  | .scrollNone => k.scroll.isNone
  | .hscrollNone => k.hscroll.isNone
  | .moveVNone => k.moveV.isNone
  | .macroCancelWindowOver => k.macroOnPressCancelDuration == 0
  | .moveHNone => k.moveH.isNone
  | .capsWordNone => k.capsWord.isNone
  | .vkeysPendingReleaseEmpty => k.vkeysPendingRelease.isEmpty
  | .noSeqCustomOrCountedKeyState =>
      !(k.layout.states.any fun s => match s with
        | .seqCustomPending _ | .seqCustomActive _ => true
        | .normalKey .. => pressedKeysMeansNotIdle k
        | _ => false)
  | .sequenceInactive => !k.seq.st.active      -- [seq] `self.sequence_state.is_inactive()`
  | .dynMacroReplayNone => k.dyn.rep.isNone     -- [dyn] `self.dynamic_macro_replay_state.is_none()`
  | .zippyIdle | .chordsV2Idle => true

/-- what each conjunct of `can_block_update_idle_waiting` says about the model state -/
def evalBlockTag (k : KState) : BlockTag → Bool
  | .cbIsIdle => isIdle k
  | .cbNotCountingIdleTicks => !pressedKeysMeansNotIdle k
  | .cbPassedMaxSwitchTiming =>
      (match k.layout.histKeys.head? with
       | some (_, t) => decide (t ≥ k.switchMaxKeyTiming)
       | none => true)
  | .cbChordsV2Accepts => true
  | .cbNotRecordingDynMacro => k.dyn.rcd.isNone   -- [dyn] `!k.dynamic_macro_record_state.is_some()`

theorem canBlock_layout (k : KState) (ms : Nat) :
    (canBlockUpdateIdleWaiting k ms).1.layout = k.layout ∧
    (canBlockUpdateIdleWaiting k ms).1.switchMaxKeyTiming = k.switchMaxKeyTiming := by
  unfold canBlockUpdateIdleWaiting
  simp only []
  split
  · exact ⟨rfl, rfl⟩
  · split <;> exact ⟨rfl, rfl⟩

/-- the decision in closed form -/
theorem canBlock_decision (k : KState) (ms : Nat) :
    (canBlockUpdateIdleWaiting k ms).2 =
      (isIdle k && !pressedKeysMeansNotIdle k && evalBlockTag k .cbPassedMaxSwitchTiming &&
        evalBlockTag k .cbNotRecordingDynMacro) := by
  unfold canBlockUpdateIdleWaiting evalBlockTag pressedKeysMeansNotIdle
  simp only []
  by_cases h1 : isIdle k = true
  · by_cases h2 : (!k.waitingForIdle.isEmpty || k.liveReloadRequested) = true
    · simp only [h1, h2, Bool.not_true, Bool.false_eq_true, if_false, if_true]
      cases k.layout.histKeys.head? <;> rfl
    · simp only [h1, h2, Bool.not_true, Bool.false_eq_true, if_false]
      cases k.layout.histKeys.head? <;> rfl
  · have h1' : isIdle k = false := by simpa using h1
    simp only [h1', Bool.not_false, if_true, Bool.false_and]

end KVerif.K
