/-
Lemmas for C16 (templates): the loop `while evaluate_conditionals(..)? {}` against the one-traversal
denotation `condSpec`, in both directions and on failures, for forests in which the four conditional
keywords occur only at the head of a list (`khList`).
-/
import KVerif.Lemmas.CfgTreeHeadOnly
namespace KVerif.CfgTree

/-- `if-equal`, `if-not-equal`, `if-in-list`, `if-not-in-list` -/
def condKw (a : Str) : Bool := (condKind? a).isSome
def noStr (_ : Str) : Bool := false

/-- **the conditional keywords occur only as the first element of a list** (decidable): in every
list of the forest, no atom after the first element is one of the four keywords. -/
abbrev khList (ts : List Tree) : Bool := hoList noStr condKw ts

theorem noStr_sub : ∀ a, noStr a = true → condKw a = true := by intro a h; cases h

theorem condTest_none_of_freeTop (l : List Tree) (h : freeTop condKw l = true) :
    condTest l = none := by
  match l, h with
  | [], _ => rfl
  | .list _ :: _, _ => rfl
  | .atom a :: rest, h =>
    simp only [freeTop, condKw, Bool.and_eq_true, Bool.not_eq_true', Option.isSome_eq_false_iff,
      Option.isNone_iff_eq_none] at h
    simp only [condTest, h.1]

theorem freeTop_of_condTest_none (l : List Tree) (h : condTest l = none)
    (ht : freeTop condKw l.tail = true) : freeTop condKw l = true := by
  match l, h, ht with
  | [], _, _ => rfl
  | .list _ :: tl, _, ht => simpa [freeTop] using ht
  | .atom a :: tl, h, ht =>
    simp only [condTest] at h
    cases hk : condKind? a with
    | some k => simp [hk] at h
    | none =>
      simp only [freeTop, condKw, hk, Option.isSome_none, Bool.not_false, Bool.true_and]
      simpa using ht

/-- every failure of a conditional test is a diagnostic (`Err`), never a crash -/
theorem condTest_rej (l : List Tree) (e : Fail) (h : condTest l = some (.error e)) :
    ∃ w, e = .rej w := by
  unfold condTest at h
  split at h
  · split at h
    · cases h
    · simp only [Option.some.injEq] at h
      split at h
      · exact ⟨_, by simpa [rej] using h.symm⟩
      · exact ⟨_, by simpa [rej] using h.symm⟩
      · split at h <;> first | (cases h; done) | (cases h; exact ⟨_, rfl⟩)
  · cases h

theorem condPass_error_rej : ∀ (ts : List Tree) (e : Fail), condPass ts = .error e → ∃ w, e = .rej w
  | [], e, h => by simp [condPass_nil] at h
  | .atom a :: rest, e, h => by
    simp only [condPass_atom] at h
    cases hr : condPass rest with
    | error e' => simp only [hr, Except.error.injEq] at h; subst h; exact condPass_error_rej rest e' hr
    | ok p => simp [hr] at h
  | .list l :: rest, e, h => by
    simp only [condPass_list] at h
    cases hrep : condReplacement l with
    | some res =>
      cases res with
      | error e' =>
        simp only [hrep, Except.error.injEq] at h
        subst h
        rw [condReplacement_eq] at hrep
        split at hrep
        · cases hrep
        · rename_i e'' ht
          simp only [Option.some.injEq, Except.error.injEq] at hrep
          subst hrep
          exact condTest_rej l _ ht
        · cases hrep
      | ok repl =>
        simp only [hrep] at h
        cases hr : condPass rest with
        | error e' => simp only [hr, Except.error.injEq] at h; subst h; exact condPass_error_rej rest e' hr
        | ok p => simp [hr] at h
    | none =>
      simp only [hrep] at h
      cases hl : condPass l with
      | error e' => simp only [hl, Except.error.injEq] at h; subst h; exact condPass_error_rej l e' hl
      | ok pl =>
        simp only [hl] at h
        cases hr : condPass rest with
        | error e' => simp only [hr, Except.error.injEq] at h; subst h; exact condPass_error_rej rest e' hr
        | ok p => simp [hr] at h

/-- a sweep that fails found a malformed conditional form that the denotation also reaches, or the
denotation fails before it -/
theorem condPass_error_spec : ∀ (ts : List Tree) (e : Fail), condPass ts = .error e →
    ∃ e', condSpec ts = .error e'
  | [], e, h => by simp [condPass_nil] at h
  | .atom a :: rest, e, h => by
    simp only [condPass_atom] at h
    cases hr : condPass rest with
    | error e' =>
      obtain ⟨e2, h2⟩ := condPass_error_spec rest e' hr
      exact ⟨e2, by simp [condSpec, condSpecTree, h2]⟩
    | ok p => simp [hr] at h
  | .list l :: rest, e, h => by
    simp only [condPass_list] at h
    have viaRest : ∀ e', condPass rest = .error e' → ∃ e2, condSpec (.list l :: rest) = .error e2 := by
      intro e' hr
      obtain ⟨e2, h2⟩ := condPass_error_spec rest e' hr
      simp only [condSpec]
      cases condSpecTree (.list l) with
      | error e3 => exact ⟨e3, rfl⟩
      | ok r1 => exact ⟨e2, by simp [h2]⟩
    cases hrep : condReplacement l with
    | some res =>
      cases res with
      | error e' =>
        rw [condReplacement_eq] at hrep
        split at hrep
        · cases hrep
        · rename_i e'' ht
          exact ⟨e'', by simp [condSpec, condSpecTree_err l e'' ht]⟩
        · cases hrep
      | ok repl =>
        simp only [hrep] at h
        cases hr : condPass rest with
        | error e' => exact viaRest e' hr
        | ok p => simp [hr] at h
    | none =>
      simp only [hrep] at h
      have ht := (condReplacement_none_iff l).mp hrep
      cases hl : condPass l with
      | error e' =>
        obtain ⟨e2, h2⟩ := condPass_error_spec l e' hl
        exact ⟨e2, by simp [condSpec, condSpecTree_none l ht, h2]⟩
      | ok pl =>
        simp only [hl] at h
        cases hr : condPass rest with
        | error e' => exact viaRest e' hr
        | ok p => simp [hr] at h

/-- **a successful sweep does not change the denotation** — successes and failures alike — when the
keywords occur only in head position. -/
theorem condPass_spec_eq : ∀ (ts ts1 : List Tree) (c : Bool), condPass ts = .ok (ts1, c) →
    khList ts = true → condSpec ts1 = condSpec ts
  | [], ts1, c, h, _ => by
    simp only [condPass_nil, Except.ok.injEq, Prod.mk.injEq] at h
    rw [← h.1]
  | .atom a :: rest, ts1, c, h, ho => by
    simp only [condPass_atom] at h
    cases hr : condPass rest with
    | error e => simp [hr] at h
    | ok p =>
      obtain ⟨r, c'⟩ := p
      simp only [hr, Except.ok.injEq, Prod.mk.injEq] at h
      obtain ⟨rfl, rfl⟩ := h
      simp only [hoList, Bool.and_eq_true] at ho
      simp only [condSpec, condPass_spec_eq rest r c' hr ho.2]
  | .list l :: rest, ts1, c, h, ho => by
    simp only [condPass_list] at h
    simp only [hoList, Bool.and_eq_true] at ho
    cases hrep : condReplacement l with
    | some res =>
      cases res with
      | error e => simp [hrep] at h
      | ok repl =>
        simp only [hrep] at h
        cases hr : condPass rest with
        | error e => simp [hr] at h
        | ok p =>
          obtain ⟨r, c'⟩ := p
          simp only [hr, Except.ok.injEq, Prod.mk.injEq] at h
          obtain ⟨rfl, rfl⟩ := h
          have ih := condPass_spec_eq rest r c' hr ho.2
          rw [condReplacement_eq] at hrep
          split at hrep
          · cases hrep
          · cases hrep
          · rename_i b hb
            simp only [Option.some.injEq, Except.ok.injEq] at hrep
            subst hrep
            rw [condSpec_append, ih]
            simp only [condSpec, condSpecTree_ok l b hb]
            cases b with
            | true =>
              simp only [if_true]
              cases condSpec (List.drop 3 l) with
              | error e => rfl
              | ok ra => cases condSpec rest <;> rfl
            | false =>
              simp only [Bool.false_eq_true, if_false, condSpec, List.nil_append]
              cases condSpec rest <;> rfl
    | none =>
      simp only [hrep] at h
      have ht := (condReplacement_none_iff l).mp hrep
      cases hl : condPass l with
      | error e => simp [hl] at h
      | ok pl =>
        obtain ⟨l', c1⟩ := pl
        simp only [hl] at h
        cases hr : condPass rest with
        | error e => simp [hr] at h
        | ok p =>
          obtain ⟨r, c2⟩ := p
          simp only [hr, Except.ok.injEq, Prod.mk.injEq] at h
          obtain ⟨rfl, rfl⟩ := h
          have hol := ho.1
          rw [hoTree_list] at hol
          simp only [Bool.and_eq_true] at hol
          have ih1 := condPass_spec_eq l l' c1 hl hol.2
          have ih2 := condPass_spec_eq rest r c2 hr ho.2
          obtain ⟨-, k2, -⟩ := condPass_ho noStr condKw noStr_sub l l' c1 hl hol.2
          have ht' : condTest l' = none :=
            condTest_none_of_freeTop l' (k2 (freeTop_of_condTest_none l ht hol.1.2))
          simp only [condSpec, condSpecTree_none l' ht', condSpecTree_none l ht, ih1, ih2]

/-- **the loop computes the denotation, and fails exactly when the denotation fails** (with a
diagnostic, never by running out of iterations), given more iterations than the forest has nodes. -/
theorem condLoop_spec : ∀ (n : Nat) (ts : List Tree), sizeList ts < n → khList ts = true →
    match condLoop n ts with
    | .ok r => condSpec ts = .ok r
    | .error e => (∃ w, e = .rej w) ∧ ∃ e', condSpec ts = .error e' := by
  intro n
  induction n with
  | zero => intro ts h; omega
  | succ n ih =>
    intro ts hsz ho
    simp only [condLoop]
    cases hp : condPass ts with
    | error e => exact ⟨condPass_error_rej ts e hp, condPass_error_spec ts e hp⟩
    | ok p =>
      obtain ⟨ts1, c⟩ := p
      obtain ⟨a1, a2, -⟩ := condPass_size ts ts1 c hp
      cases c with
      | false =>
        have := a1 rfl
        subst this
        simp only [Bool.false_eq_true, if_false]
        exact condPass_false_spec ts1 ts1 hp
      | true =>
        simp only [if_true]
        have hs := a2 rfl
        obtain ⟨i1, -, -⟩ := condPass_ho noStr condKw noStr_sub ts ts1 true hp ho
        have := ih ts1 (by omega) i1
        rw [condPass_spec_eq ts ts1 true hp ho] at this
        exact this

end KVerif.CfgTree
