/-
C09 helper lemmas for chords v2: whole ticks of the v2 machine (`tick_chv2`) while the keys of a chord
arrive - the scan tick on a queue that starts with a press, the fast path, and the tail of the tick
for zero / one freshly activated chord.
-/
import KVerif.Lemmas.ChordsV2Full
namespace KVerif.C09
open KVerif.L

def pressEv (k : Nat) : Ev := .press (0, k)

/-- `Layout::event` on the chords-v2 state -/
def pushV2 (s : ChV2) (ev : Ev) : ChV2 := { s with queue := (pushBackWrap QUEUE_SIZE s.queue ⟨ev, 0⟩).1 }

/-- the condition of the fast path of `drain_inputs` -/
def FastCond (s : ChV2) (layer : Nat) : Prop :=
  s.ticksUntilChange > 0 ∧ s.prevActiveLayer = layer ∧ s.prevQueueLen = s.queue.length

instance (s : ChV2) (layer : Nat) : Decidable (FastCond s layer) := by unfold FastCond; exact inferInstance

theorem minPending_le_aux : ∀ (l : List ChordV2) (m : Nat), l.foldl (fun m c => min m c.pending) m ≤ m := by
  intro l
  induction l with
  | nil => intro m; exact Nat.le_refl _
  | cons c l ih => intro m; exact Nat.le_trans (ih _) (Nat.min_le_left _ _)

theorem minPending_le (l : List ChordV2) : minPending l ≤ U16_MAX := minPending_le_aux l _

theorem foldl_min_le_mem : ∀ (l : List ChordV2) (m : Nat) (c : ChordV2), c ∈ l →
    l.foldl (fun m c => min m c.pending) m ≤ c.pending := by
  intro l
  induction l with
  | nil => intro m c h; cases h
  | cons x l ih =>
    intro m c h
    rcases List.mem_cons.mp h with e | h'
    · subst e
      exact Nat.le_trans (minPending_le_aux l _) (Nat.min_le_right _ _)
    · exact ih _ c h'

theorem minPending_le_mem (l : List ChordV2) (c : ChordV2) (h : c ∈ l) : minPending l ≤ c.pending :=
  foldl_min_le_mem l _ c h

theorem lt_foldl_min : ∀ (l : List ChordV2) (m t : Nat), t < m → (∀ c ∈ l, t < c.pending) →
    t < l.foldl (fun m c => min m c.pending) m := by
  intro l
  induction l with
  | nil => intro m t h _; exact h
  | cons x l ih =>
    intro m t h hall
    apply ih
    · have := hall x (List.mem_cons_self)
      show t < min m x.pending
      omega
    · intro c hc; exact hall c (List.mem_cons_of_mem _ hc)

/-- the shortest timeout of a candidate list exceeds `t` iff every candidate's does -/
theorem lt_minPending (l : List ChordV2) (t : Nat) (h : t < U16_MAX) (hall : ∀ c ∈ l, t < c.pending) : t < minPending l :=
  lt_foldl_min l _ t h hall

/-- fewer candidates, later deadline -/
theorem minPending_mono (l1 l2 : List ChordV2) (h : ∀ c ∈ l2, c ∈ l1) : minPending l1 ≤ minPending l2 := by
  by_cases hlt : minPending l1 ≤ minPending l2
  · exact hlt
  · exfalso
    have hm : minPending l2 < minPending l1 := by omega
    have hU := minPending_le l1
    have : minPending l2 < minPending l2 := by
      apply lt_minPending l2 _ (by omega)
      intro c hc
      exact Nat.lt_of_lt_of_le hm (minPending_le_mem l1 c (h c hc))
    omega

theorem Fk_prefix_subset (possible : List ChordV2) (layer : Nat) (r ps : List Nat) (hr : r <+: ps) :
    ∀ c ∈ Fk possible layer ps, c ∈ Fk possible layer r := by
  intro c hc
  rw [mem_Fk] at hc ⊢
  refine ⟨hc.1, hc.2.1, ?_⟩
  rw [List.all_eq_true] at *
  intro k hk
  exact hc.2.2 k (hr.subset hk)

/-! ## The pieces of `drain_inputs` on a queue of real-key events that starts with a press -/

theorem drainVirtualKeys_row0 : ∀ (q dq : List Queued), (∀ qd ∈ q, qd.ev.coord.1 = 0) →
    drainVirtualKeys q dq = .ok (q, dq) := by
  intro q
  induction q with
  | nil => intro dq _; rfl
  | cons qd rest ih =>
    intro dq h
    have h0 : (qd.ev.coord.1 == 0) = true := by simp [h qd (List.mem_cons_self)]
    simp only [drainVirtualKeys, h0, if_true, ih dq (fun x hx => h x (List.mem_cons_of_mem _ hx))]

theorem applyReleases_nil (q : List Queued) : applyReleases q [] = [] := by
  rw [applyReleases_eq]; rfl

theorem drainReleases_np : ∀ (q : List Queued) (np : Nat) (dq : List Queued), 0 < np →
    drainReleases q np [] dq = .ok (q, [], dq) := by
  intro q
  induction q with
  | nil => intro np dq _; rfl
  | cons qd rest ih =>
    intro np dq h
    simp only [drainReleases]
    split
    · rw [ih (np + 1) dq (by omega)]
    · have : (np == 0) = false := by simp; omega
      simp only [this, Bool.false_eq_true, if_false, releaseKeyInActive, List.map_nil]
      rw [ih np dq h]

theorem drainReleases_press_first (c : Coord) (t : Nat) (rest dq : List Queued) :
    drainReleases (⟨.press c, t⟩ :: rest) 0 [] dq = .ok (⟨.press c, t⟩ :: rest, [], dq) := by
  simp only [drainReleases]
  rw [drainReleases_np rest 1 dq (by omega)]

/-- the state `process_presses` runs on in a scan tick -/
def scanState (s : ChV2) (layer : Nat) : ChV2 :=
  { agedV2 s with ticksUntilChange := 0, prevActiveLayer := layer }

/-- after the pass the length of what is left in the queue is remembered -/
def afterScan (s1 : ChV2) : ChV2 := { s1 with prevQueueLen := s1.queue.length % 256 }

theorem scanState_queue (s : ChV2) (layer : Nat) : (scanState s layer).queue = (agedV2 s).queue := rfl
theorem scanState_cfg (s : ChV2) (layer : Nat) : (scanState s layer).cfg = s.cfg := rfl
theorem scanState_tti (s : ChV2) (layer : Nat) : (scanState s layer).ticksToIgnore = s.ticksToIgnore := rfl

theorem agedV2_evs (s : ChV2) : (agedV2 s).queue.map (·.ev) = s.queue.map (·.ev) := by
  simp only [agedV2, List.map_map]
  rfl

theorem sinceOf_aged (s : ChV2) (h : s.queue ≠ []) : sinceOf (agedV2 s) = min (sinceOf s + 1) U16_MAX := by
  unfold sinceOf agedV2
  cases hq : s.queue with
  | nil => exact absurd hq h
  | cons a l => rfl

/-- **the scan tick**: no cool-down, no active chord, not the fast path, only real-key events queued
and a press first: the tick is `process_presses` on the aged queue followed by the tail of the tick -/
theorem tick_scan (s : ChV2) (layer : Nat) (h0 : s.ticksToIgnore = 0) (ha : s.active = [])
    (hscan : ¬ FastCond s layer) (hrow : ∀ qd ∈ s.queue, qd.ev.coord.1 = 0)
    (c : Coord) (t : Nat) (rest : List Queued) (hq : s.queue = ⟨.press c, t⟩ :: rest) :
    tickChv2 s layer =
      match processPresses (scanState s layer) layer with
      | .error c => .error c
      | .ok s1 => tickTail 0 (afterScan s1) [] := by
  rw [tickChv2_eq]
  have hal : (agedV2 s).active.length = 0 := by rw [agedV2_active_length, ha]; rfl
  rw [hal]
  have hd : drainInputs (agedV2 s) [] layer =
      match processPresses (scanState s layer) layer with
      | .error c => .error c
      | .ok s1 => .ok (afterScan s1, []) := by
    unfold drainInputs
    have h0' : ¬ (agedV2 s).ticksToIgnore > 0 := by
      show ¬ s.ticksToIgnore > 0
      omega
    rw [if_neg h0']
    have hf : ((agedV2 s).ticksUntilChange > 0 && (agedV2 s).prevActiveLayer == layer &&
        (agedV2 s).prevQueueLen == (agedV2 s).queue.length) = false := by
      rw [agedV2_queue_length]
      show (s.ticksUntilChange > 0 && s.prevActiveLayer == layer && s.prevQueueLen == s.queue.length) = false
      cases hb : (decide (s.ticksUntilChange > 0) && s.prevActiveLayer == layer && s.prevQueueLen == s.queue.length) with
      | false => rfl
      | true =>
        exfalso; apply hscan
        simp only [Bool.and_eq_true, decide_eq_true_eq, beq_iff_eq] at hb
        exact ⟨hb.1.1, hb.1.2, hb.2⟩
    rw [if_neg (by rw [hf]; exact Bool.false_ne_true)]
    have hrow' : ∀ qd ∈ (agedV2 s).queue, qd.ev.coord.1 = 0 := by
      intro qd hqd
      simp only [agedV2, List.mem_map] at hqd
      obtain ⟨x, hx, e⟩ := hqd
      rw [← e]; exact hrow x hx
    have hq' : (agedV2 s).queue = ⟨.press c, min (t + 1) U16_MAX⟩ :: rest.map (fun (q : Queued) => { q with since := min (q.since + 1) U16_MAX }) := by
      simp only [agedV2, hq, List.map_cons]
    have haa : (agedV2 s).active = [] := by simp only [agedV2, ha, List.map_nil]
    simp only [drainVirtualKeys_row0 _ _ hrow']
    rw [hq', haa, drainReleases_press_first]
    simp only []
    have hst : ∀ X : ChV2, X = scanState s layer →
        (match processPresses X layer with
          | .error c => (Except.error c : Except Crash (ChV2 × List Queued))
          | .ok s => Except.ok ({ s with prevQueueLen := s.queue.length % 256 }, [])) =
        match processPresses (scanState s layer) layer with
          | .error c => Except.error c
          | .ok s => Except.ok (afterScan s, []) := by
      intro X h; rw [h]; rfl
    apply hst
    unfold scanState
    generalize agedV2 s = A at haa hq'
    obtain ⟨a1, a2, a3, a4, a5, a6, a7, a8⟩ := A
    simp only at haa hq'
    subst haa
    subst hq'
    rfl
  rw [hd]
  cases processPresses (scanState s layer) layer <;> rfl

/-- **the fast path**: nothing is looked at, the countdown goes down by one -/
theorem tick_fast (s : ChV2) (layer : Nat) (h0 : s.ticksToIgnore = 0) (ha : s.active = [])
    (hfast : FastCond s layer) :
    tickChv2 s layer = .ok ({ agedV2 s with ticksUntilChange := s.ticksUntilChange - 1, active := [], ticksToIgnore := 0 }, []) := by
  rw [tickChv2_eq]
  have hal : (agedV2 s).active.length = 0 := by rw [agedV2_active_length, ha]; rfl
  rw [hal]
  have haa : (agedV2 s).active = [] := by simp only [agedV2, ha, List.map_nil]
  have hd : drainInputs (agedV2 s) [] layer = .ok ({ agedV2 s with ticksUntilChange := s.ticksUntilChange - 1 }, []) := by
    unfold drainInputs
    have h0' : ¬ (agedV2 s).ticksToIgnore > 0 := by
      show ¬ s.ticksToIgnore > 0
      omega
    rw [if_neg h0']
    have hf : ((agedV2 s).ticksUntilChange > 0 && (agedV2 s).prevActiveLayer == layer &&
        (agedV2 s).prevQueueLen == (agedV2 s).queue.length) = true := by
      rw [agedV2_queue_length]
      show (decide (s.ticksUntilChange > 0) && s.prevActiveLayer == layer && s.prevQueueLen == s.queue.length) = true
      simp only [Bool.and_eq_true, decide_eq_true_eq, beq_iff_eq]
      exact ⟨⟨hfast.1, hfast.2.1⟩, hfast.2.2⟩
    rw [if_pos hf]
    rfl
  rw [hd]
  simp only [tickTail, haa, List.length_nil, bne_self_eq_false, Bool.false_eq_true, if_false, List.any_nil, clearReleased]
  congr 2
  show _ = _
  rw [show (agedV2 s).ticksToIgnore = s.ticksToIgnore from rfl, h0]

/-! ## The tail of the tick -/

theorem tickTail_none (s1 : ChV2) (ha : s1.active = []) :
    tickTail 0 s1 [] = .ok ({ s1 with active := [], ticksToIgnore := s1.ticksToIgnore - 1 }, []) := by
  simp only [tickTail, ha, List.length_nil, bne_self_eq_false, Bool.false_eq_true, if_false, List.any_nil, clearReleased]

theorem drainPush_nil (x : Queued) : drainPush [] x = [x] := rfl

theorem tickTail_one (s1 : ChV2) (a : ActiveChord) (ha : s1.active = [a]) (hst : a.status = .unread ∨ a.status = .unreadReleased) :
    tickTail 0 s1 [] = .ok ({ s1 with active := [a], ticksToIgnore := s1.ticksToIgnore - 1 },
      ⟨.press (0, 0), 0⟩ :: (if a.status = .unreadReleased then [⟨.release (0, 0), 0⟩] else [])) := by
  rcases hst with h | h
  · simp [tickTail, ha, h, clearReleased, drainPush_nil]
  · simp [tickTail, ha, h, clearReleased, drainPush_nil]
    rfl

/-! ## While the keys of a chord arrive -/

theorem collectPresses_presses : ∀ (ks : List Nat) (q1 q2 : List Queued) (acc : List Nat),
    q1.map (·.ev) = ks.map pressEv → acc.length + ks.length ≤ SMOL_Q_LEN →
    collectPresses (q1 ++ q2) acc = collectPresses q2 (acc ++ ks) := by
  intro ks
  induction ks with
  | nil =>
    intro q1 q2 acc h _
    have : q1 = [] := by simpa using h
    subst this
    simp
  | cons k ks ih =>
    intro q1 q2 acc h hl
    cases q1 with
    | nil => simp at h
    | cons qd q1 =>
      simp only [List.map_cons, List.cons.injEq] at h
      obtain ⟨he, h'⟩ := h
      simp only [List.length_cons] at hl
      have hnl : ¬ acc.length ≥ SMOL_Q_LEN := by omega
      have he' : qd.ev = .press (0, k) := he
      simp only [List.cons_append, collectPresses, he', if_neg hnl]
      rw [ih q1 q2 (acc ++ [k]) h' (by simp; omega)]
      simp

/-- the v2 state while the keys `pre` are queued (followed by the events `tail`), the first of them
`t` ticks old, nothing active, no cool-down -/
structure Entry (cfg : ChV2Cfg) (pre : List Nat) (tail : List Ev) (t : Nat) (s : ChV2) : Prop where
  cfg : s.cfg = cfg
  evs : s.queue.map (·.ev) = pre.map pressEv ++ tail
  since : sinceOf s = t
  active : s.active = []
  tti : s.ticksToIgnore = 0

/-- the last scan saw a queue no longer than the present one (or no countdown is running) -/
def Sync (s : ChV2) : Prop := s.ticksUntilChange = 0 ∨ s.prevQueueLen ≤ s.queue.length
/-- an event arrived since the last scan (or no countdown is running): the next tick is a scan -/
def SyncStrict (s : ChV2) : Prop := s.ticksUntilChange = 0 ∨ s.prevQueueLen < s.queue.length

theorem SyncStrict.not_fast {s : ChV2} (h : SyncStrict s) (layer : Nat) : ¬ FastCond s layer := by
  intro hf
  rcases h with h | h
  · have := hf.1; omega
  · have := hf.2.2; omega

theorem Entry.push {cfg : ChV2Cfg} {pre : List Nat} {t : Nat} {s : ChV2} (he : Entry cfg pre [] t s)
    (hne : pre ≠ []) (hlen : pre.length < QUEUE_SIZE) (ev : Ev) :
    Entry cfg pre [ev] t (pushV2 s ev) ∧ (Sync s → SyncStrict (pushV2 s ev)) := by
  have hql : s.queue.length = pre.length := by
    have := congrArg List.length he.evs
    simpa using this
  have hq : (pushV2 s ev).queue = s.queue ++ [⟨ev, 0⟩] := by
    unfold pushV2 pushBackWrap
    simp only [hql, hlen, if_true]
  refine ⟨⟨he.cfg, ?_, ?_, he.active, he.tti⟩, ?_⟩
  · rw [hq, List.map_append, he.evs]; simp
  · have hs := he.since
    unfold sinceOf at hs ⊢
    rw [hq]
    cases hqq : s.queue with
    | nil => rw [hqq] at hql; simp at hql; exact absurd hql.symm (by simpa using hne)
    | cons a l => rw [hqq] at hs; exact hs
  · intro hsy
    rcases hsy with h | h
    · exact Or.inl h
    · right
      show s.prevQueueLen < (pushV2 s ev).queue.length
      rw [hq, List.length_append]; simp; omega

theorem Entry.snoc {cfg : ChV2Cfg} {pre : List Nat} {t k : Nat} {s : ChV2} (he : Entry cfg pre [pressEv k] t s) :
    Entry cfg (pre ++ [k]) [] t s :=
  ⟨he.cfg, by rw [he.evs]; simp, he.since, he.active, he.tti⟩

theorem Entry.first (s0 : ChV2) (hq : s0.queue = []) (ha : s0.active = []) (ht : s0.ticksToIgnore = 0)
    (hu : s0.ticksUntilChange = 0) (k : Nat) :
    Entry s0.cfg [k] [] 0 (pushV2 s0 (pressEv k)) ∧ SyncStrict (pushV2 s0 (pressEv k)) := by
  have hq' : (pushV2 s0 (pressEv k)).queue = [⟨pressEv k, 0⟩] := by
    unfold pushV2 pushBackWrap
    simp [hq]
  refine ⟨⟨rfl, by rw [hq']; rfl, by unfold sinceOf; rw [hq']; rfl, ha, ht⟩, Or.inl hu⟩

theorem Entry.row0 {cfg : ChV2Cfg} {pre : List Nat} {tail : List Ev} {t : Nat} {s : ChV2} (he : Entry cfg pre tail t s)
    (htail : ∀ e ∈ tail, e.coord.1 = 0) : ∀ qd ∈ s.queue, qd.ev.coord.1 = 0 := by
  intro qd hqd
  have : qd.ev ∈ pre.map pressEv ++ tail := by rw [← he.evs]; exact List.mem_map_of_mem hqd
  rcases List.mem_append.mp this with h | h
  · obtain ⟨k, _, e⟩ := List.mem_map.mp h
    rw [← e]; rfl
  · exact htail _ h

theorem Entry.head_press {cfg : ChV2Cfg} {pre : List Nat} {tail : List Ev} {t : Nat} {s : ChV2} (he : Entry cfg pre tail t s)
    (k1 : Nat) (hhead : pre.head? = some k1) : ∃ rest, s.queue = ⟨.press (0, k1), t⟩ :: rest := by
  have hs := he.since
  have hev := he.evs
  cases pre with
  | nil => cases hhead
  | cons k pre =>
    simp only [List.head?_cons, Option.some.injEq] at hhead
    subst hhead
    cases hq : s.queue with
    | nil => rw [hq] at hev; simp at hev
    | cons a l =>
      rw [hq] at hev
      simp only [List.map_cons, List.cons_append, List.cons.injEq] at hev
      unfold sinceOf at hs
      rw [hq] at hs
      simp only [List.head?_cons, Option.map_some, Option.getD_some] at hs
      refine ⟨l, ?_⟩
      congr 1
      cases a
      simp only at hs hev
      rw [hs, hev.1]; rfl

/-- the scan state of an `Entry` state -/
theorem Entry.scan {cfg : ChV2Cfg} {pre : List Nat} {tail : List Ev} {t : Nat} {s : ChV2} (he : Entry cfg pre tail t s)
    (hne : pre ≠ []) (ht16 : t + 1 ≤ U16_MAX) (layer : Nat) :
    Entry cfg pre tail (t + 1) (scanState s layer) := by
  refine ⟨he.cfg, ?_, ?_, ?_, he.tti⟩
  · rw [scanState_queue, agedV2_evs, he.evs]
  · show sinceOf (agedV2 s) = t + 1
    have hqne : s.queue ≠ [] := by
      intro h
      have := he.evs
      rw [h] at this
      cases pre with
      | nil => exact hne rfl
      | cons a l => simp at this
    rw [sinceOf_aged s hqne, he.since]; omega
  · show (agedV2 s).active = []
    simp only [agedV2, he.active, List.map_nil]

theorem Entry.collect {cfg : ChV2Cfg} {pre : List Nat} {t : Nat} {s : ChV2} (he : Entry cfg pre [] t s)
    (hlen : pre.length ≤ SMOL_Q_LEN) : collectPresses s.queue [] = .ok (pre, none) := by
  have := collectPresses_presses pre s.queue [] [] (by rw [he.evs]; simp) (by simpa using hlen)
  rw [List.append_nil] at this
  rw [this]; rfl

/-- **one tick while the keys arrive**: the keys `pre` queued so far are undecided at every prefix and
(if this tick scans) the shortest timeout of the remaining candidates has not run out: nothing is
handed to the layout, nothing is activated, the queue only ages -/
theorem entry_tick (cfg : ChV2Cfg) (layer : Nat) (pre : List Nat) (t : Nat) (s : ChV2) (k1 : Nat) (possible : List ChordV2)
    (he : Entry cfg pre [] t s) (hhead : pre.head? = some k1) (hget : cfg.get k1 = some possible)
    (hu : ∀ r, r <+: pre → r ≠ [] → Undecided possible layer r) (hlen : pre.length ≤ SMOL_Q_LEN)
    (ht16 : t + 1 ≤ U16_MAX) (htime : ¬ FastCond s layer → t + 1 < minPending (Fk possible layer pre)) :
    ∃ s', tickChv2 s layer = .ok (s', []) ∧ Entry cfg pre [] (t + 1) s' ∧ s'.queue.length = s.queue.length ∧
      (FastCond s layer → s'.ticksUntilChange = s.ticksUntilChange - 1 ∧
        s'.prevActiveLayer = s.prevActiveLayer ∧ s'.prevQueueLen = s.prevQueueLen) ∧
      (¬ FastCond s layer → s'.ticksUntilChange = minPending (Fk possible layer pre) - (t + 1) ∧
        s'.prevActiveLayer = layer ∧ s'.prevQueueLen = s.queue.length % 256) := by
  have hne : pre ≠ [] := by intro h; rw [h] at hhead; cases hhead
  have hsc := he.scan hne ht16 layer
  by_cases hf : FastCond s layer
  · rw [tick_fast s layer he.tti he.active hf]
    refine ⟨_, rfl, ⟨he.cfg, hsc.evs, hsc.since, rfl, rfl⟩, agedV2_queue_length s, fun _ => ⟨rfl, rfl, rfl⟩,
      fun h => absurd hf h⟩
  · obtain ⟨rest, hq⟩ := he.head_press k1 hhead
    rw [tick_scan s layer he.tti he.active hf (he.row0 (by intro e h; cases h)) (0, k1) t rest hq]
    obtain ⟨s1, hp, hq1, ha1, ht1, hu1⟩ := processPresses_wait (scanState s layer) layer pre k1 possible
      (hsc.collect hlen) hhead (by rw [hsc.cfg]; exact hget) hu (by rw [hsc.since]; exact htime hf)
    obtain ⟨hc1, hl1, hql1⟩ := processPresses_frame _ _ _ hp
    rw [hp]
    simp only []
    rw [tickTail_none (afterScan s1) (by show s1.active = []; rw [ha1]; exact hsc.active)]
    refine ⟨_, rfl, ⟨by show s1.cfg = cfg; rw [hc1]; exact hsc.cfg, by show s1.queue.map _ = _; rw [hq1]; exact hsc.evs,
      by show sinceOf s1 = _; unfold sinceOf; rw [hq1]; exact hsc.since, rfl,
      by show s1.ticksToIgnore - 1 = 0; rw [ht1, hsc.tti]⟩, ?_, fun h => absurd h hf, fun _ => ⟨?_, ?_, ?_⟩⟩
    · show s1.queue.length = _
      rw [hq1, scanState_queue, agedV2_queue_length]
    · show s1.ticksUntilChange = _
      rw [hu1, hsc.since]
    · show s1.prevActiveLayer = _
      rw [hl1]; rfl
    · show s1.queue.length % 256 = _
      rw [hq1, scanState_queue, agedV2_queue_length]

end KVerif.C09
