/-
C13 helper lemmas, part 1: the `u8` modifier masks of key_override.rs read as sets of modifiers.
-/
import KVerif.Model.Override
namespace KVerif.Override

/-- bit index of a modifier in `mask_for_key` -/
def bitOf (osc : Nat) : Option Nat :=
  if osc = 29 then some 0 else if osc = 42 then some 1 else if osc = 56 then some 2
  else if osc = 125 then some 3 else if osc = 97 then some 4 else if osc = 54 then some 5
  else if osc = 100 then some 6 else if osc = 126 then some 7 else none

def keyOfBit : Nat → Nat
  | 0 => 29 | 1 => 42 | 2 => 56 | 3 => 125 | 4 => 97 | 5 => 54 | 6 => 100 | _ => 126

theorem maskForKey_eq (osc : Nat) : maskForKey osc = (bitOf osc).map (2 ^ ·) := by
  unfold maskForKey bitOf
  repeat' split
  all_goals first | rfl | (exfalso; omega)

theorem bitOf_some {a i : Nat} (h : bitOf a = some i) : a = keyOfBit i := by
  unfold bitOf at h
  repeat' split at h
  all_goals first | (cases h; simp [keyOfBit]; done) | (cases h; assumption) | cases h

/-- distinct modifiers have distinct mask bits -/
theorem bitOf_inj {a b i : Nat} (ha : bitOf a = some i) (hb : bitOf b = some i) : a = b := by
  rw [bitOf_some ha, bitOf_some hb]

theorem isMod_iff (k : Nat) : isMod k = true ↔ ∃ i, bitOf k = some i := by
  simp [isMod, maskForKey_eq, Option.isSome_iff_exists]

theorem isMod_false_iff (k : Nat) : isMod k = false ↔ maskForKey k = none := by
  simp [isMod]

/-- `mods_pressed` after the keys `pre` have been visited, starting from `acc` -/
def modsOf (pre : List Nat) (acc : Nat) : Nat :=
  pre.foldl (fun a k => match maskForKey k with | some m => a ||| m | none => a) acc

theorem modsOf_testBit (pre : List Nat) (acc i : Nat) :
    (modsOf pre acc).testBit i = (acc.testBit i || pre.any (fun k => bitOf k == some i)) := by
  induction pre generalizing acc with
  | nil => simp [modsOf]
  | cons k rest ih =>
    have : modsOf (k :: rest) acc =
        modsOf rest (match maskForKey k with | some m => acc ||| m | none => acc) := rfl
    rw [this, ih, maskForKey_eq]
    cases hb : bitOf k with
    | none => simp [hb]
    | some j =>
      simp only [Option.map_some, Nat.testBit_or, Nat.testBit_two_pow, List.any_cons, hb]
      by_cases hji : j = i
      · simp [hji]
      · have : (j == i) = false := by simp [hji]
        simp [hji, this]

theorem modsOf_append (a b : List Nat) (acc : Nat) : modsOf (a ++ b) acc = modsOf b (modsOf a acc) := by
  simp [modsOf, List.foldl_append]

theorem modsOf_snoc_mod {pre : List Nat} {k m : Nat} (acc : Nat) (h : maskForKey k = some m) :
    modsOf (pre ++ [k]) acc = modsOf pre acc ||| m := by
  simp [modsOf, h]

theorem modsOf_snoc_nonmod {pre : List Nat} {k : Nat} (acc : Nat) (h : maskForKey k = none) :
    modsOf (pre ++ [k]) acc = modsOf pre acc := by
  simp [modsOf, h]

/-- `Override::get_mod_mask` panics exactly when a non-modifier sits in `in_mod_oscs`. -/
theorem orMasks_eq (l : List Nat) (acc : Nat) :
    orMasks l acc = if l.all isMod then .ok (modsOf l acc) else .error .modOnly := by
  induction l generalizing acc with
  | nil => simp [orMasks, modsOf]
  | cons k rest ih =>
    cases hm : maskForKey k with
    | none => simp [orMasks, hm, isMod]
    | some m =>
      have : modsOf (k :: rest) acc = modsOf rest (acc ||| m) := by simp [modsOf, hm]
      simp [orMasks, hm, isMod, ih, this]

theorem and_eq_left_iff (a b : Nat) : a &&& b = a ↔ ∀ i, a.testBit i = true → b.testBit i = true := by
  constructor
  · intro h i hi
    have := congrArg (fun x => x.testBit i) h
    simpa [Nat.testBit_and, hi] using this
  · intro h
    apply Nat.eq_of_testBit_eq
    intro i
    rw [Nat.testBit_and]
    cases ha : a.testBit i with
    | false => simp
    | true => simp [h i ha]

/-- `mask & active_mod_mask == mask`, for an override whose input modifiers are modifiers: every
input modifier is among the keys visited before. -/
theorem mask_match_iff (mods pre : List Nat) (hm : ∀ m ∈ mods, isMod m = true) :
    (modsOf mods 0 &&& modsOf pre 0 = modsOf mods 0) ↔ ∀ m ∈ mods, m ∈ pre := by
  rw [and_eq_left_iff]
  simp only [modsOf_testBit, Nat.zero_testBit, Bool.false_or, List.any_eq_true, beq_iff_eq]
  constructor
  · intro h m hmem
    obtain ⟨i, hi⟩ := (isMod_iff m).mp (hm m hmem)
    obtain ⟨k, hk, hki⟩ := h i ⟨m, hmem, hi⟩
    rw [bitOf_inj hi hki]; exact hk
  · rintro h i ⟨m, hmem, hi⟩
    exact ⟨m, h m hmem, hi⟩

end KVerif.Override
