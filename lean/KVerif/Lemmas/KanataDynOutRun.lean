/-
Stage (b) of `replay_same_os_output_kan`: the OS events of a whole run of the kanata-level model
(inputs and `tick_states`, other kanata-level components at rest) are a function of the sequence of
the layout's key-code lists after the ticks (`C04.runM`), namely `osTrace`: the key diffs between
consecutive lists.  Repeating a key list adds nothing (`osTrace_dedup`).
-/
import KVerif.Lemmas.KanataDynOut
import KVerif.Props.C04
namespace KVerif.K
open KVerif KVerif.L

theorem osDiff_congr {a b : KState} (h : SameTables a b) (prev cur : List KeyCode) :
    osDiff a prev cur = osDiff b prev cur := by
  unfold osDiff
  have e1 : keyUp a = keyUp b := funext (keyUp_congr h)
  have e2 : keyDown a = keyDown b := funext (keyDown_congr h)
  rw [e1, e2]

/-- the OS events of a sequence of key lists, starting from the OS key state `prev` -/
def osTrace (k : KState) (prev : List KeyCode) : List (List KeyCode) → List Os
  | [] => []
  | c :: r => osDiff k prev c ++ osTrace k c r

theorem osTrace_congr {a b : KState} (h : SameTables a b) (prev : List KeyCode) (t : List (List KeyCode)) :
    osTrace a prev t = osTrace b prev t := by
  induction t generalizing prev with
  | nil => rfl
  | cons c r ih => simp only [osTrace, osDiff_congr h, ih]

/-- what reaches the kanata-level model from outside -/
inductive KIn
  | key (press : Bool) (code : Nat)    -- handle_input_event (Press / Release)
  | tick                                -- tick_states
  deriving Repr, DecidableEq

def KIn.toIn : KIn → C04.In
  | .key true code => .ev (.press (0, code))
  | .key false code => .ev (.release (0, code))
  | .tick => .tick

def runK : KState → List KIn → Except Crash KState
  | k, [] => .ok k
  | k, .key p code :: r =>
    match handleInputEvent k (if p then .press code else .release code) with
    | .error c => .error c
    | .ok k' => runK k' r
  | k, .tick :: r =>
    match tickStates k with
    | .error c => .error c
    | .ok k' => runK k' r

/-- **(b) the OS events of a run are a function of the sequence of key lists** -/
theorem runK_out : ∀ (ins : List KIn) (k k' : KState), C07.KRest k → runK k ins = .ok k' →
    ∃ trace, C04.runM k.layout (ins.map KIn.toIn) = .ok trace ∧
      k'.out = k.out ++ osTrace k k.prevKeys trace ∧ C07.KRest k' ∧ SameTables k' k := by
  intro ins
  induction ins with
  | nil =>
    intro k k' hr h
    simp only [runK] at h; injection h with h; subst h
    exact ⟨[], rfl, by simp [osTrace], hr, ⟨rfl, rfl, rfl, rfl⟩⟩
  | cons i rest ih =>
    intro k k' hr h
    cases i with
    | tick =>
      simp only [runK] at h
      split at h
      · cases h
      · rename_i k1 ht
        obtain ⟨l', hl, _, _, hr1⟩ := C07.tickStates_rest k k1 hr ht
        have hk1 : k1 = C07.afterTick k l' := by
          have := C07.tickStates_rest_ok k hr l' hl
          rw [ht] at this; injection this
        obtain ⟨a1, a2, a3⟩ := afterTick_out k l'
        have hlay : k1.layout = l' := by rw [hk1]; exact C07.afterTick_layout k l'
        obtain ⟨tr, b1, b2, b3, b4⟩ := ih k1 k' hr1 h
        refine ⟨l'.keycodes :: tr, ?_, ?_, b3, ?_⟩
        · simp only [List.map_cons, KIn.toIn, C04.runM, hl]
          rw [hlay] at b1
          simp only [b1]
        · rw [b2, hk1, a1, a2, osTrace_congr a3]
          simp only [osTrace, List.append_assoc]
        · rw [hk1] at b4
          exact ⟨b4.1.trans a3.1, b4.2.1.trans a3.2.1, b4.2.2.1.trans a3.2.2.1, b4.2.2.2.trans a3.2.2.2⟩
    | key p code =>
      simp only [runK] at h
      split at h
      · cases h
      · rename_i k1 he
        have hstep : ∃ l, k.layout.event (if p then .press (0, code) else .release (0, code)) = .ok l ∧
            k1 = C07.setL { k with ticksSinceIdle := 0 } l := by
          cases p with
          | true =>
            simp only [if_true] at he ⊢
            rw [C07.handleInput_press_eq k hr.mcd hr.noRec code] at he
            split at he
            · cases he
            · rename_i l hl; injection he with he; exact ⟨l, hl, he.symm⟩
          | false =>
            simp only [Bool.false_eq_true, if_false] at he ⊢
            rw [C07.handleInput_release_eq k hr.noRec code] at he
            split at he
            · cases he
            · rename_i l hl; injection he with he; exact ⟨l, hl, he.symm⟩
        obtain ⟨l, hl, hk1⟩ := hstep
        have hr1 : C07.KRest k1 := by
          rw [hk1]
          have hr0 : C07.KRest ({ k with ticksSinceIdle := 0 } : KState) :=
            ⟨hr.customs, hr.noOvr, hr.ovrClean, hr.cur, hr.unmod, hr.unshift, hr.caps, hr.scroll,
              hr.hscroll, hr.moveV, hr.moveH, hr.wfi, hr.vk, hr.mcd, hr.seqOff, hr.noRec⟩
          exact hr0.setL l
        obtain ⟨tr, b1, b2, b3, b4⟩ := ih k1 k' hr1 h
        have ht : SameTables k1 k := by rw [hk1]; exact ⟨rfl, rfl, rfl, rfl⟩
        refine ⟨tr, ?_, ?_, b3, ?_⟩
        · have hl1 : k1.layout = l := by rw [hk1]; rfl
          rw [hl1] at b1
          cases p with
          | true => simp only [List.map_cons, KIn.toIn, C04.runM]; simp only [if_true] at hl; rw [hl]; exact b1
          | false => simp only [List.map_cons, KIn.toIn, C04.runM]; simp only [Bool.false_eq_true, if_false] at hl; rw [hl]; exact b1
        · rw [b2, osTrace_congr ht]
          have : k1.out = k.out ∧ k1.prevKeys = k.prevKeys := by rw [hk1]; exact ⟨rfl, rfl⟩
          rw [this.1, this.2]
        · exact ⟨b4.1.trans ht.1, b4.2.1.trans ht.2.1, b4.2.2.1.trans ht.2.2.1, b4.2.2.2.trans ht.2.2.2⟩

/-! ### repeating a key list adds nothing -/

theorem newKeys_subset (cur : List KeyCode) : ∀ prev : List KeyCode, (∀ x ∈ cur, x ∈ prev) → newKeys prev cur = [] := by
  induction cur with
  | nil => intro _ _; rfl
  | cons x r ih =>
    intro prev h
    have hx : prev.contains x = true := by simpa using h x (by simp)
    simp only [newKeys, hx, if_true]
    exact ih prev (fun y hy => h y (by simp [hy]))

theorem osDiff_self (k : KState) (c : List KeyCode) : osDiff k c c = [] := by
  unfold osDiff
  have h1 : c.filter (fun x => !c.contains x) = [] := by
    apply List.filter_eq_nil_iff.mpr
    intro x hx; simp [hx]
  rw [h1, newKeys_subset c c (fun _ h => h)]
  rfl

/-- drop a key list that repeats the one before it -/
def dedupAdj (prev : List KeyCode) : List (List KeyCode) → List (List KeyCode)
  | [] => []
  | c :: r => if c = prev then dedupAdj prev r else c :: dedupAdj c r

theorem osTrace_dedup (k : KState) : ∀ (t : List (List KeyCode)) (prev : List KeyCode),
    osTrace k prev (dedupAdj prev t) = osTrace k prev t := by
  intro t
  induction t with
  | nil => intro _; rfl
  | cons c r ih =>
    intro prev
    by_cases h : c = prev
    · subst h
      simp only [dedupAdj, if_true, osTrace, osDiff_self, List.nil_append]
      exact ih c
    · simp only [dedupAdj, h, if_false, osTrace, ih c]

end KVerif.K
