/-
C14 helper lemmas: the SEMANTIC link between the key-output table (`Model/KeyOutputs.lean`,
`possibleOutputs`, a syntactic walk over the action tree) and the layout model
(`Model/Layout.lean`, `doAction` and everything it stores for later).

The vehicle is one invariant `Inv K Q s` of the layout state, parametrised by

* `K : Coord → KeyCode → Prop`   "key code `kc` may be put down on behalf of coordinate `c`", and
* `Q : Coord → Prop`             "the configuration cells of coordinate `c` (every layer and the defsrc
                                   row) are covered by `K`", which is what a transparent / use-defsrc
                                   leaf executed at `c` needs,

and the syntactic predicate `ActOK K Q c a` "every key code in the closure of action `a` is allowed by
`K` at coordinate `c`".  `Inv` says: every `normalKey` state carries an allowed key code, and
everything stored for later execution (waiting tap-hold / tap-dance / chord states, eager tap-dance
state, action queue entries, queued presses) only carries actions inside the same closure.
-/
import KVerif.Model.KeyOutputs
import KVerif.Lemmas.TapHold
namespace KVerif.C14L
open KVerif.L KVerif.K KVerif.KO

abbrev KSet := Coord → KeyCode → Prop

/-! ### The syntactic closure -/

mutual
  /-- every key code action `a` can put down when executed at coordinate `c` - now or, through a
  waiting state / the action queue, later - is allowed by `K`.
  * `Trans` / `Src` are looked up in the configuration at run time: they need `Q c`.
  * `Repeat` re-runs whatever action ran last, at THIS coordinate: it is outside every closure that
    depends on the coordinate (the real table has no arm for it either), hence `False`.
  * chords v1 run their members at the coordinates of the group's participants (the released
    participant, the participants of the pressed queue, the coordinate chosen for a decomposed
    sub-chord) as well as at the coordinate the action sits on: the members must be allowed at all of
    those.
  * the eager tap-dance runs its later members at "the last pressed real key", which is another key
    when the tap-dance sits on a virtual key: its members must be allowed at every coordinate. -/
  def ActOK (K : KSet) (Q : Coord → Prop) : Coord → Action → Prop
    | c, .trans => Q c
    | c, .src => Q c
    | c, .keyCode kc => K c kc
    | c, .multipleKeyCodes kcs => ∀ kc ∈ kcs, K c kc
    | c, .bufKeyCodes kcs => ∀ kc ∈ kcs, K c kc
    | c, .multipleActions acs => ActOKL K Q c acs
    | c, .holdTap _ hold tap ta _ _ => ActOK K Q c hold ∧ ActOK K Q c tap ∧ ActOK K Q c ta
    | c, .oneShot a _ _ => ActOK K Q c a
    | c, .tapDance acs _ false => ActOKL K Q c acs
    | _, .tapDance acs _ true => ∀ c', ActOKL K Q c' acs
    | c, .chords coords chs _ => ∀ c', (c' = c ∨ c' ∈ coords.map (·.1)) → ActOKC K Q c' chs
    | _, .repeat => False
    | c, .fork l r _ => ActOK K Q c l ∧ ActOK K Q c r
    | c, .switch cases => ActOKS K Q c cases
    | _, _ => True
  def ActOKL (K : KSet) (Q : Coord → Prop) : Coord → List Action → Prop
    | _, [] => True
    | c, a :: rest => ActOK K Q c a ∧ ActOKL K Q c rest
  def ActOKC (K : KSet) (Q : Coord → Prop) : Coord → List (Nat × Action) → Prop
    | _, [] => True
    | c, (_, a) :: rest => ActOK K Q c a ∧ ActOKC K Q c rest
  def ActOKS (K : KSet) (Q : Coord → Prop) : Coord → List (List Nat × Action × Bool) → Prop
    | _, [] => True
    | c, (_, a, _) :: rest => ActOK K Q c a ∧ ActOKS K Q c rest
end

theorem ActOKL_iff {K : KSet} {Q : Coord → Prop} {c : Coord} {l : List Action} :
    ActOKL K Q c l ↔ ∀ a ∈ l, ActOK K Q c a := by
  induction l with
  | nil => simp [ActOKL]
  | cons a r ih => simp [ActOKL, ih]

theorem ActOKC_iff {K : KSet} {Q : Coord → Prop} {c : Coord} {l : List (Nat × Action)} :
    ActOKC K Q c l ↔ ∀ e ∈ l, ActOK K Q c e.2 := by
  induction l with
  | nil => simp [ActOKC]
  | cons a r ih => obtain ⟨m, a⟩ := a; simp [ActOKC, ih]

theorem ActOKS_iff {K : KSet} {Q : Coord → Prop} {c : Coord} {l : List (List Nat × Action × Bool)} :
    ActOKS K Q c l ↔ ∀ e ∈ l, ActOK K Q c e.2.1 := by
  induction l with
  | nil => simp [ActOKS]
  | cons a r ih => obtain ⟨m, a, b⟩ := a; simp [ActOKS, ih]

/-! ### The invariant -/

def StatesOK (K : KSet) (l : List St) : Prop := ∀ kc c fl, St.normalKey kc c fl ∈ l → K c kc

/-- the cells of every covered coordinate are inside the closure: the action of every layer at `c`
(what `resolve_coord` can return for a `Trans` executed at `c`) and the defsrc key of `c`'s column
(what `Src` executes, and where `resolve_coord` ends) -/
def CfgOK (K : KSet) (Q : Coord → Prop) (cfg : LCfg) : Prop :=
  ∀ c, Q c → (∀ l a, cfg.layerAction l c = .ok a → ActOK K Q c a) ∧ ActOK K Q c (cfg.srcKey c.2)

/-- the coordinates a waiting state may run its actions at: its own; for a chord state also those of
the group's participants -/
def wAt (w : Waiting) (c' : Coord) : Prop :=
  c' = w.coord ∨ ∃ g, w.config = .chord g ∧ c' ∈ g.coords.map (·.1)

def WCfgOK (K : KSet) (Q : Coord → Prop) (c' : Coord) : WCfg → Prop
  | .holdTap _ => True
  | .tapDance acs _ _ => ActOKL K Q c' acs
  | .chord g => ActOKC K Q c' g.chords

/-- a waiting state stores only actions inside the closure -/
def WOK (K : KSet) (Q : Coord → Prop) (w : Waiting) : Prop :=
  ∀ c', wAt w c' → ActOK K Q c' w.hold ∧ ActOK K Q c' w.tap ∧ ActOK K Q c' w.timeoutAction ∧
    WCfgOK K Q c' w.config

structure Inv (K : KSet) (Q : Coord → Prop) (s : Layout) : Prop where
  cfg : CfgOK K Q s.cfg
  states : StatesOK K s.states
  waiting : ∀ w, s.waiting = some w → WOK K Q w
  extra : ∀ w ∈ s.extraWaiting, WOK K Q w
  tde : ∀ t, s.tapDanceEager = some t → ∀ c', ActOKL K Q c' t.actions
  aq : ∀ e ∈ s.actionQueue, ActOK K Q e.1 e.2.2
  queue : ∀ q ∈ s.queue, ∀ c, q.ev = .press c → Q c

/-- the fields the invariant reads, except `states`, agree -/
structure Same (s' s : Layout) : Prop where
  cfg : s'.cfg = s.cfg
  waiting : s'.waiting = s.waiting
  extra : s'.extraWaiting = s.extraWaiting
  tde : s'.tapDanceEager = s.tapDanceEager
  aq : s'.actionQueue = s.actionQueue
  queue : s'.queue = s.queue

theorem Same.refl (s : Layout) : Same s s := ⟨rfl, rfl, rfl, rfl, rfl, rfl⟩
theorem Same.trans {a b c : Layout} (h1 : Same a b) (h2 : Same b c) : Same a c :=
  ⟨h1.cfg.trans h2.cfg, h1.waiting.trans h2.waiting, h1.extra.trans h2.extra, h1.tde.trans h2.tde,
   h1.aq.trans h2.aq, h1.queue.trans h2.queue⟩

theorem Inv.of_same {K : KSet} {Q : Coord → Prop} {s s' : Layout} (h : Inv K Q s) (hs : Same s' s)
    (hst : StatesOK K s'.states) : Inv K Q s' where
  cfg := by rw [hs.cfg]; exact h.cfg
  states := hst
  waiting := by rw [hs.waiting]; exact h.waiting
  extra := by rw [hs.extra]; exact h.extra
  tde := by rw [hs.tde]; exact h.tde
  aq := by rw [hs.aq]; exact h.aq
  queue := by rw [hs.queue]; exact h.queue

/-! ### container facts -/

theorem mem_pushCap {α : Type} {cap : Nat} {l : List α} {x y : α} (h : y ∈ pushCap cap l x) : y ∈ l ∨ y = x := by
  unfold pushCap at h
  split at h
  · rcases List.mem_append.mp h with h | h
    · exact Or.inl h
    · exact Or.inr (List.mem_singleton.mp h)
  · exact Or.inl h

theorem mem_pushBackWrap {α : Type} {cap : Nat} {l : List α} {x y : α} (h : y ∈ (pushBackWrap cap l x).1) :
    y ∈ l ∨ y = x := by
  unfold pushBackWrap at h
  split at h
  · rcases List.mem_append.mp h with h | h
    · exact Or.inl h
    · exact Or.inr (List.mem_singleton.mp h)
  · split at h
    · cases h
    · rcases List.mem_append.mp h with h | h
      · exact Or.inl (List.mem_cons_of_mem _ h)
      · exact Or.inr (List.mem_singleton.mp h)

theorem pushBackWrap_ov {α : Type} {cap : Nat} {l : List α} {x y : α} (h : (pushBackWrap cap l x).2 = some y) :
    y ∈ l ∨ y = x := by
  unfold pushBackWrap at h
  split at h
  · cases h
  · split at h
    · injection h with h; exact Or.inr h.symm
    · injection h with h; subst h; exact Or.inl (by simp)

theorem StatesOK.sub {K : KSet} {l l' : List St} (h : StatesOK K l) (hs : ∀ st ∈ l', st ∈ l) : StatesOK K l' :=
  fun kc c fl hm => h kc c fl (hs _ hm)

theorem StatesOK.filter {K : KSet} {l : List St} (h : StatesOK K l) (p : St → Bool) : StatesOK K (l.filter p) :=
  h.sub fun _ hm => (List.mem_filter.mp hm).1

theorem StatesOK.pushCap {K : KSet} {l : List St} (h : StatesOK K l) (st : St)
    (hst : ∀ kc c fl, st = .normalKey kc c fl → K c kc) : StatesOK K (pushCap STATES_CAP l st) := by
  intro kc c fl hm
  rcases mem_pushCap hm with hm | hm
  · exact h kc c fl hm
  · exact hst kc c fl hm.symm

/-! ### the small building blocks of `do_action` -/

theorem updateCoord_same (s : Layout) (c : Coord) : Same (updateCoord s c) s := by
  unfold updateCoord; split <;> exact ⟨rfl, rfl, rfl, rfl, rfl, rfl⟩

theorem updateCoord_states (s : Layout) (c : Coord) : (updateCoord s c).states = s.states := by
  unfold updateCoord; split <;> rfl

theorem oshPress_fst (s : Layout) (k : OshKey) :
    (s.oshPress k).1 = { s with oneshot := (s.oneshot.handlePress k).1 } := rfl

theorem oshPress_same (s : Layout) (k : OshKey) : Same (s.oshPress k).1 s := by
  rw [oshPress_fst]; exact ⟨rfl, rfl, rfl, rfl, rfl, rfl⟩

theorem oshPress_states (s : Layout) (k : OshKey) : (s.oshPress k).1.states = s.states := by
  rw [oshPress_fst]

theorem oshOther_same (s : Layout) (b : Bool) (c : Coord) : Same (oshOther s b c).1 s := by
  unfold oshOther; split
  · exact oshPress_same s _
  · exact Same.refl s

theorem oshOther_states (s : Layout) (b : Bool) (c : Coord) : (oshOther s b c).1.states = s.states := by
  unfold oshOther; split
  · exact oshPress_states s _
  · rfl

theorem pushState_same (s : Layout) (st : St) : Same (s.pushState st) s := ⟨rfl, rfl, rfl, rfl, rfl, rfl⟩

theorem prelude_same (s : Layout) (c : Coord) : Same (prelude s c) s := by
  unfold prelude; simp only []; split <;> exact ⟨rfl, rfl, rfl, rfl, rfl, rfl⟩

theorem prelude_states (s : Layout) (c : Coord) :
    (prelude s c).states = s.states.filter (fun st => !st.clearOnNextAction) := by
  unfold prelude; simp only []; split <;> rfl

theorem Inv.prelude {K : KSet} {Q : Coord → Prop} {s : Layout} (h : Inv K Q s) (c : Coord) :
    Inv K Q (prelude s c) :=
  h.of_same (prelude_same s c) (by rw [prelude_states]; exact h.states.filter _)

theorem Inv.updateCoord {K : KSet} {Q : Coord → Prop} {s : Layout} (h : Inv K Q s) (c : Coord) :
    Inv K Q (updateCoord s c) :=
  h.of_same (updateCoord_same s c) (by rw [updateCoord_states]; exact h.states)

theorem Same.rpt {s1 s : Layout} (h : Same s1 s) (x : Option Action) : Same { s1 with rptAction := x } s :=
  ⟨h.cfg, h.waiting, h.extra, h.tde, h.aq, h.queue⟩

/-! ### the arms of `do_action` that do not recurse -/

theorem armNoOp_same (s : Layout) (a : Action) (c : Coord) (b : Bool) :
    Same (armNoOp s a c b) s ∧ (armNoOp s a c b).states = s.states := by
  unfold armNoOp; simp only []
  split
  · exact ⟨(oshPress_same s _).rpt _, oshPress_states s _⟩
  · exact ⟨(Same.refl s).rpt _, rfl⟩

theorem armKeyCode_same (s : Layout) (a : Action) (kc : KeyCode) (c : Coord) (b : Bool) :
    Same (armKeyCode s a kc c b) s ∧
      (armKeyCode s a kc c b).states = pushCap STATES_CAP s.states (.normalKey kc c 0) := by
  unfold armKeyCode; simp only []
  have h1 := oshOther_same (({ updateCoord s c with histKeys := histPush (updateCoord s c).histKeys kc } : Layout).pushState (.normalKey kc c 0)) b c
  have h2 := oshOther_states (({ updateCoord s c with histKeys := histPush (updateCoord s c).histKeys kc } : Layout).pushState (.normalKey kc c 0)) b c
  generalize oshOther (({ updateCoord s c with histKeys := histPush (updateCoord s c).histKeys kc } : Layout).pushState (.normalKey kc c 0)) b c = p at h1 h2
  obtain ⟨s4, oc⟩ := p
  have hu := updateCoord_same s c
  have hs : Same s4 s := h1.trans ⟨hu.cfg, hu.waiting, hu.extra, hu.tde, hu.aq, hu.queue⟩
  have hst : s4.states = pushCap STATES_CAP s.states (.normalKey kc c 0) := by
    rw [h2]; show pushCap STATES_CAP (updateCoord s c).states _ = _; rw [updateCoord_states]
  simp only []
  split
  · exact ⟨hs.rpt _, hst⟩
  · exact ⟨hs.rpt _, hst⟩

theorem pushKeyCodes_same (kcs : List KeyCode) (c : Coord) (fl : Nat) : ∀ s : Layout,
    Same (pushKeyCodes s kcs c fl) s ∧
      ∀ st ∈ (pushKeyCodes s kcs c fl).states, st ∈ s.states ∨ ∃ kc ∈ kcs, st = .normalKey kc c fl := by
  induction kcs with
  | nil => intro s; exact ⟨Same.refl s, fun st h => Or.inl h⟩
  | cons k rest ih =>
    intro s
    obtain ⟨i1, i2⟩ := ih (({ s with histKeys := histPush s.histKeys k } : Layout).pushState (.normalKey k c fl))
    refine ⟨i1.trans ⟨rfl, rfl, rfl, rfl, rfl, rfl⟩, ?_⟩
    intro st hst
    rcases i2 st hst with h | ⟨kc, hk, he⟩
    · rcases mem_pushCap h with h | h
      · exact Or.inl h
      · exact Or.inr ⟨k, by simp, h⟩
    · exact Or.inr ⟨kc, by simp [hk], he⟩

theorem StatesOK.pushKeyCodes {K : KSet} {s : Layout} (h : StatesOK K s.states) (kcs : List KeyCode) (c : Coord)
    (fl : Nat) (hk : ∀ kc ∈ kcs, K c kc) : StatesOK K (pushKeyCodes s kcs c fl).states := by
  intro kc c' fl' hm
  rcases (pushKeyCodes_same kcs c fl s).2 _ hm with h1 | ⟨k, hk1, he⟩
  · exact h kc c' fl' h1
  · injection he with e1 e2 e3; subst e1; subst e2; exact hk _ hk1

theorem armMultipleKeyCodes_inv {K : KSet} {Q : Coord → Prop} {s : Layout} (h : Inv K Q s) (a : Action)
    (kcs : List KeyCode) (c : Coord) (b : Bool) (hk : ∀ kc ∈ kcs, K c kc) :
    Inv K Q (armMultipleKeyCodes s a kcs c b) := by
  unfold armMultipleKeyCodes; simp only []
  have h0 := pushKeyCodes_same kcs c (if b then 0 else NORMAL_KEY_FLAG_CLEAR_ON_NEXT_ACTION) (updateCoord s c)
  have h1 := oshOther_same (pushKeyCodes (updateCoord s c) kcs c (if b then 0 else NORMAL_KEY_FLAG_CLEAR_ON_NEXT_ACTION)) b c
  have h2 := oshOther_states (pushKeyCodes (updateCoord s c) kcs c (if b then 0 else NORMAL_KEY_FLAG_CLEAR_ON_NEXT_ACTION)) b c
  have hst := (h.updateCoord c).states.pushKeyCodes kcs c (if b then 0 else NORMAL_KEY_FLAG_CLEAR_ON_NEXT_ACTION) hk
  rw [← h2] at hst
  generalize oshOther (pushKeyCodes (updateCoord s c) kcs c (if b then 0 else NORMAL_KEY_FLAG_CLEAR_ON_NEXT_ACTION)) b c = p at h1 h2 hst
  obtain ⟨s4, oc⟩ := p
  have hs : Same s4 s := (h1.trans h0.1).trans (updateCoord_same s c)
  simp only []
  split
  · exact h.of_same (hs.rpt _) hst
  · exact h.of_same (hs.rpt _) hst

theorem armBufKeyCodes_inv {K : KSet} {Q : Coord → Prop} {s : Layout} (h : Inv K Q s) (a : Action)
    (kcs : List KeyCode) (c : Coord) (b : Bool) (hk : ∀ kc ∈ kcs, K c kc) :
    Inv K Q (armBufKeyCodes s a kcs c b) := by
  unfold armBufKeyCodes; simp only []
  have h0 := pushKeyCodes_same kcs c (if b then 0 else NORMAL_KEY_FLAG_CLEAR_ON_NEXT_ACTION) (updateCoord s c)
  have h1 := oshOther_same (pushKeyCodes (updateCoord s c) kcs c (if b then 0 else NORMAL_KEY_FLAG_CLEAR_ON_NEXT_ACTION)) b c
  have h2 := oshOther_states (pushKeyCodes (updateCoord s c) kcs c (if b then 0 else NORMAL_KEY_FLAG_CLEAR_ON_NEXT_ACTION)) b c
  have hst := (h.updateCoord c).states.pushKeyCodes kcs c (if b then 0 else NORMAL_KEY_FLAG_CLEAR_ON_NEXT_ACTION) hk
  rw [← h2] at hst
  generalize oshOther (pushKeyCodes (updateCoord s c) kcs c (if b then 0 else NORMAL_KEY_FLAG_CLEAR_ON_NEXT_ACTION)) b c = p at h1 h2 hst
  obtain ⟨s4, oc⟩ := p
  have hs : Same s4 s := (h1.trans h0.1).trans (updateCoord_same s c)
  simp only []
  split
  · exact h.of_same (hs.rpt _) hst
  · exact h.of_same (hs.rpt _) hst

theorem armKeyCode_inv {K : KSet} {Q : Coord → Prop} {s : Layout} (h : Inv K Q s) (a : Action)
    (kc : KeyCode) (c : Coord) (b : Bool) (hk : K c kc) : Inv K Q (armKeyCode s a kc c b) := by
  obtain ⟨h1, h2⟩ := armKeyCode_same s a kc c b
  refine h.of_same h1 ?_
  rw [h2]
  exact h.states.pushCap _ (fun kc' c' fl' e => by injection e with e1 e2 e3; subst e1; subst e2; exact hk)

theorem armNoOp_inv {K : KSet} {Q : Coord → Prop} {s : Layout} (h : Inv K Q s) (a : Action) (c : Coord) (b : Bool) :
    Inv K Q (armNoOp s a c b) := by
  obtain ⟨h1, h2⟩ := armNoOp_same s a c b
  exact h.of_same h1 (by rw [h2]; exact h.states)

theorem armLayer_inv {K : KSet} {Q : Coord → Prop} {s : Layout} (h : Inv K Q s) (v : Nat) (c : Coord) (b : Bool) :
    Inv K Q (armLayer s v c b) := by
  unfold armLayer; simp only []
  refine h.of_same ((oshOther_same _ b c).trans ((pushState_same _ _).trans (updateCoord_same s c))) ?_
  rw [oshOther_states]
  show StatesOK K (pushCap STATES_CAP (updateCoord s c).states _)
  rw [updateCoord_states]
  exact h.states.pushCap _ (fun _ _ _ e => by cases e)

theorem armDefaultLayer_inv {K : KSet} {Q : Coord → Prop} {s : Layout} (h : Inv K Q s) (v : Nat) (c : Coord) (b : Bool) :
    Inv K Q (armDefaultLayer s v c b) := by
  unfold armDefaultLayer; simp only []
  have hu := updateCoord_same s c
  split
  · refine h.of_same ((oshOther_same _ b c).trans ⟨hu.cfg, hu.waiting, hu.extra, hu.tde, hu.aq, hu.queue⟩) ?_
    rw [oshOther_states]
    show StatesOK K (updateCoord s c).states
    rw [updateCoord_states]; exact h.states
  · refine h.of_same ((oshOther_same _ b c).trans hu) ?_
    rw [oshOther_states, updateCoord_states]; exact h.states

theorem Inv.rpt {K : KSet} {Q : Coord → Prop} {s : Layout} (h : Inv K Q s) (x : Option Action) :
    Inv K Q { s with rptAction := x } := h.of_same ((Same.refl s).rpt x) h.states

theorem Inv.oshOther {K : KSet} {Q : Coord → Prop} {s : Layout} (h : Inv K Q s) (b : Bool) (c : Coord) :
    Inv K Q (oshOther s b c).1 :=
  h.of_same (oshOther_same s b c) (by rw [oshOther_states]; exact h.states)

theorem Inv.filter {K : KSet} {Q : Coord → Prop} {s : Layout} (h : Inv K Q s) (p : St → Bool) :
    Inv K Q { s with states := s.states.filter p } :=
  h.of_same ⟨rfl, rfl, rfl, rfl, rfl, rfl⟩ (h.states.filter p)

theorem armReleaseState_inv {K : KSet} {Q : Coord → Prop} {s : Layout} (h : Inv K Q s) (a : Action) (rs : RelState)
    (c : Coord) (b : Bool) : Inv K Q (armReleaseState s a rs c b) :=
  (((h.filter (fun st => st.releaseState rs)).oshOther b c).rpt (some a))

theorem armCustom_inv {K : KSet} {Q : Coord → Prop} {s : Layout} (h : Inv K Q s) (a : Action) (id : Nat)
    (c : Coord) (b : Bool) : Inv K Q (armCustom s a id c b).1 := by
  unfold armCustom; simp only []
  have hs : Same ({ (oshOther (updateCoord s c) b c).1 with rptAction := some a } : Layout) s :=
    ((oshOther_same _ b c).trans (updateCoord_same s c)).rpt _
  have hst : StatesOK K ({ (oshOther (updateCoord s c) b c).1 with rptAction := some a } : Layout).states := by
    show StatesOK K (oshOther (updateCoord s c) b c).1.states
    rw [oshOther_states, updateCoord_states]; exact h.states
  split
  · exact h.of_same ((pushState_same _ _).trans hs) (hst.pushCap _ (fun _ _ _ e => by cases e))
  · exact h.of_same hs hst

theorem releaseEvicted_sub (q : SeqState) : ∀ (states : List St), ∀ st ∈ releaseEvicted states q, st ∈ states := by
  unfold releaseEvicted
  generalize seqOwedKeys q = ks
  induction ks with
  | nil => intro states st h; exact h
  | cons k rest ih =>
    intro states st h
    exact (List.mem_filter.mp (ih _ st h)).1

theorem startSequence_same (s : Layout) (ev : List SeqEv) :
    Same (startSequence s ev) s ∧ ∀ st ∈ (startSequence s ev).states, st ∈ s.states := by
  unfold startSequence; simp only []
  refine ⟨⟨rfl, rfl, rfl, rfl, rfl, rfl⟩, ?_⟩
  intro st hst
  split at hst
  · exact releaseEvicted_sub _ _ st hst
  · exact hst

theorem armSequence_inv {K : KSet} {Q : Coord → Prop} {s : Layout} (h : Inv K Q s) (a : Action) (ev : List SeqEv)
    (c : Coord) (b : Bool) (r : Bool) : Inv K Q (armSequence s a ev c b r) := by
  unfold armSequence; simp only []
  obtain ⟨h1, h2⟩ := startSequence_same s ev
  have hst : StatesOK K (startSequence s ev).states := h.states.sub h2
  split
  · refine h.of_same (((oshOther_same _ b c).trans ((pushState_same _ _).trans h1)).rpt _) ?_
    show StatesOK K (oshOther _ b c).1.states
    rw [oshOther_states]
    exact hst.pushCap _ (fun _ _ _ e => by cases e)
  · refine h.of_same (((oshOther_same _ b c).trans h1).rpt _) ?_
    show StatesOK K (oshOther _ b c).1.states
    rw [oshOther_states]; exact hst

theorem armCancelSequences_inv {K : KSet} {Q : Coord → Prop} {s : Layout} (h : Inv K Q s) (a : Action)
    (c : Coord) (b : Bool) : Inv K Q (armCancelSequences s a c b) :=
  ((Inv.oshOther (s := { s with activeSequences := [], states := s.states.filter (fun st => !(match st with | .fakeKey _ => true | _ => false)) })
    (h.of_same ⟨rfl, rfl, rfl, rfl, rfl, rfl⟩ (h.states.filter _)) b c).rpt (some a))

/-! ### the arms that store something for later -/

theorem WOK_holdTap {K : KSet} {Q : Coord → Prop} {w : Waiting} {cfg : HTConfig} (hc : w.config = .holdTap cfg)
    (h1 : ActOK K Q w.coord w.hold) (h2 : ActOK K Q w.coord w.tap) (h3 : ActOK K Q w.coord w.timeoutAction) :
    WOK K Q w := by
  intro c' hc'
  rcases hc' with rfl | ⟨g, hg, _⟩
  · rw [hc]; exact ⟨h1, h2, h3, trivial⟩
  · rw [hc] at hg; cases hg

theorem armHoldTapWait_inv {K : KSet} {Q : Coord → Prop} {s : Layout} (h : Inv K Q s) (c : Coord) (delay timeout : Nat)
    (hold tap ta : Action) (config : HTConfig) (thi : Nat) (ls : List Nat)
    (h1 : ActOK K Q c hold) (h2 : ActOK K Q c tap) (h3 : ActOK K Q c ta) :
    Inv K Q (armHoldTapWait s c delay timeout hold tap ta config thi ls) := by
  unfold armHoldTapWait; simp only []
  apply Inv.updateCoord
  split
  · refine ⟨h.cfg, h.states, h.waiting, ?_, h.tde, h.aq, h.queue⟩
    intro w hm
    rcases mem_pushBackWrap hm with hm | hm
    · exact h.extra w hm
    · rw [hm]; exact WOK_holdTap (cfg := config) rfl h1 h2 h3
  · refine ⟨h.cfg, h.states, ?_, h.extra, h.tde, h.aq, h.queue⟩
    intro w hm
    injection hm with hm; rw [← hm]; exact WOK_holdTap (cfg := config) rfl h1 h2 h3

theorem armWait_inv {K : KSet} {Q : Coord → Prop} {s : Layout} (h : Inv K Q s) (c : Coord) (delay timeout : Nat)
    (config : WCfg) (ls : List Nat)
    (hw : ∀ c', (c' = c ∨ ∃ g, config = .chord g ∧ c' ∈ g.coords.map (·.1)) → WCfgOK K Q c' config) :
    Inv K Q (armWait s c delay timeout config ls) := by
  unfold armWait; simp only []
  have hu := h.updateCoord c
  refine ⟨hu.cfg, hu.states, ?_, hu.extra, hu.tde, hu.aq, hu.queue⟩
  intro w hm
  injection hm with hm; rw [← hm]
  intro c' hc'
  exact ⟨by simp [ActOK], by simp [ActOK], by simp [ActOK], hw c' hc'⟩

theorem armEager_inv {K : KSet} {Q : Coord → Prop} {s : Layout} (h : Inv K Q s) (c : Coord) (actions : List Action)
    (timeout : Nat) (ha : ∀ c', ActOKL K Q c' actions) : Inv K Q (armEager s c actions timeout) := by
  unfold armEager; simp only []
  have hu := h.updateCoord c
  have hnew : Inv K Q { updateCoord s c with tapDanceEager := some { coord := c, actions := actions, timeout := timeout, origTimeout := timeout, numTaps := 1 } } :=
    ⟨hu.cfg, hu.states, hu.waiting, hu.extra, fun t ht => (by injection ht with ht; rw [← ht]; exact ha), hu.aq, hu.queue⟩
  split
  · exact hnew
  · split
    · exact hnew
    · exact hu

theorem armOneShotPost_inv {K : KSet} {Q : Coord → Prop} {s : Layout} (h : Inv K Q s) (a : Action) (c : Coord)
    (timeout : Nat) (ec : OneShotEnd) : Inv K Q (armOneShotPost s a c timeout ec).1 := by
  have h1 : Inv K Q (({ s with rptAction := some a } : Layout).oshPress (.oneShotKey c)).1 :=
    (h.rpt (some a)).of_same (oshPress_same _ _) (by rw [oshPress_states]; exact h.states)
  exact h1.of_same ⟨rfl, rfl, rfl, rfl, rfl, rfl⟩ h1.states

theorem foldl_pushBackWrap_mem {α : Type} (cap : Nat) (f : Action → α) (acs : List Action) : ∀ (aq : List α) (e : α),
    e ∈ acs.foldl (fun aq a => (pushBackWrap cap aq (f a)).1) aq → e ∈ aq ∨ ∃ a ∈ acs, e = f a := by
  induction acs with
  | nil => intro aq e h; exact Or.inl h
  | cons a rest ih =>
    intro aq e h
    rcases ih _ e h with h1 | ⟨a', ha', he⟩
    · rcases mem_pushBackWrap h1 with h2 | h2
      · exact Or.inl h2
      · exact Or.inr ⟨a, by simp, h2⟩
    · exact Or.inr ⟨a', by simp [ha'], he⟩

theorem switchActions_sub (eval : List Nat → Except Switch.Crash Bool) :
    ∀ (cases : List (List Nat × Action × Bool)) (acs : List Action), switchActions eval cases = .ok acs →
      ∀ a ∈ acs, ∃ e ∈ cases, a = e.2.1 := by
  intro cases
  induction cases with
  | nil => intro acs h a ha; simp only [switchActions] at h; injection h with h; subst h; cases ha
  | cons e rest ih =>
    obtain ⟨ops, a0, brk⟩ := e
    intro acs h a ha
    simp only [switchActions] at h
    split at h
    · cases h
    · split at h
      · injection h with h; subst h
        simp only [List.mem_singleton] at ha
        exact ⟨(ops, a0, brk), by simp, ha⟩
      · split at h
        · cases h
        · rename_i l hl
          injection h with h; subst h
          rcases List.mem_cons.mp ha with ha | ha
          · exact ⟨(ops, a0, brk), by simp, ha⟩
          · obtain ⟨e, he, hx⟩ := ih l hl a ha
            exact ⟨e, by simp [he], hx⟩
    · obtain ⟨e, he, hx⟩ := ih acs h a ha
      exact ⟨e, by simp [he], hx⟩

/-! ### `resolve_coord` -/

theorem resolveCoord_ok {K : KSet} {Q : Coord → Prop} (s : Layout) (hc : CfgOK K Q s.cfg) (c : Coord) (hq : Q c) :
    ∀ (ls : List Nat) (a : Action) (ls' : List Nat), s.resolveCoord c ls = .ok (a, ls') → ActOK K Q c a := by
  intro ls
  induction ls with
  | nil =>
    intro a ls' h
    simp only [Layout.resolveCoord] at h
    split at h
    · cases h
    · split at h
      · cases h
      · split at h
        · split at h
          · cases h
          · injection h with h; injection h with h1 h2; subst h1; exact (hc c hq).2
        · injection h with h; injection h with h1 h2; subst h1; simp [ActOK]
  | cons l rest ih =>
    intro a ls' h
    simp only [Layout.resolveCoord] at h
    split at h
    · cases h
    · split at h
      · cases h
      · split at h
        · cases h
        · exact ih a ls' h
        · injection h with h; injection h with h1 h2; subst h1
          exact (hc c hq).1 l _ (by assumption)

/-! ### taking a waiting state out, releasing states -/

theorem takeWaiting_inv {K : KSet} {Q : Coord → Prop} {s s1 : Layout} {w : Waiting} (h : Inv K Q s) (idx : Option Nat)
    (ht : takeWaiting s idx = some (w, s1)) : Inv K Q s1 ∧ WOK K Q w := by
  unfold takeWaiting at ht
  split at ht
  · cases hw : s.waiting with
    | none => rw [hw] at ht; cases ht
    | some w0 =>
      rw [hw] at ht
      simp only [Option.map_some, Option.some.injEq, Prod.mk.injEq] at ht
      obtain ⟨e1, e2⟩ := ht
      subst e1; subst e2
      exact ⟨⟨h.cfg, h.states, fun _ hm => (by cases hm), h.extra, h.tde, h.aq, h.queue⟩, h.waiting _ hw⟩
  · rename_i i
    cases hw : s.extraWaiting[i]? with
    | none => rw [hw] at ht; cases ht
    | some w0 =>
      rw [hw] at ht
      simp only [Option.map_some, Option.some.injEq, Prod.mk.injEq] at ht
      obtain ⟨e1, e2⟩ := ht
      subst e1; subst e2
      exact ⟨⟨h.cfg, h.states, h.waiting, fun w hm => h.extra w (List.mem_of_mem_eraseIdx hm), h.tde, h.aq, h.queue⟩,
        h.extra _ (List.mem_of_getElem? hw)⟩

theorem holdPrep_inv {K : KSet} {Q : Coord → Prop} {s : Layout} (h : Inv K Q s) (w : Waiting) : Inv K Q (holdPrep s w) := by
  unfold holdPrep; simp only []
  split <;> exact h.of_same ⟨rfl, rfl, rfl, rfl, rfl, rfl⟩ h.states

theorem timeoutPrep_inv {K : KSet} {Q : Coord → Prop} {s : Layout} (h : Inv K Q s) (w : Waiting) : Inv K Q (timeoutPrep s w) := by
  unfold timeoutPrep
  split
  · exact h.of_same ⟨rfl, rfl, rfl, rfl, rfl, rfl⟩ h.states
  · exact h

theorem tapPost_inv {K : KSet} {Q : Coord → Prop} {s : Layout} (h : Inv K Q s) : Inv K Q (tapPost s) :=
  h.of_same ⟨rfl, rfl, rfl, rfl, rfl, rfl⟩ h.states

theorem St.release_sub (st : St) (c : Coord) (cu : CustomEv) : ∀ st', (st.release c cu).1 = some st' → st' = st := by
  intro st' h
  cases st <;> simp only [St.release] at h <;>
    first
    | exact (Option.some.inj h).symm
    | (split at h
       · cases h
       · exact (Option.some.inj h).symm)

theorem releaseStates_sub (b : Bool) (c : Coord) : ∀ (l : List St) (cu : CustomEv),
    ∀ st ∈ (releaseStates b c l cu).1, st ∈ l := by
  intro l
  induction l with
  | nil => intro cu st h; simp only [releaseStates] at h; cases h
  | cons x rest ih =>
    intro cu st h
    simp only [releaseStates] at h
    split at h
    · exact List.mem_cons_of_mem _ (ih cu st h)
    · split at h
      · rename_i st' hr
        rcases List.mem_cons.mp h with h | h
        · have := St.release_sub x c cu st' hr
          rw [h, this]; simp
        · exact List.mem_cons_of_mem _ (ih _ st h)
      · exact List.mem_cons_of_mem _ (ih _ st h)

/-! ### the mutual block `do_action` … `event`: one induction on the fuel -/

theorem ok_inj {α ε : Type} {a b : α} (h : (Except.ok a : Except ε α) = .ok b) : a = b := by injection h

section Mutual
variable (K : KSet) (Q : Coord → Prop)

def P1 (fuel : Nat) : Prop := ∀ s a c d f ls s' cu, Inv K Q s → ActOK K Q c a →
  doAction fuel s a c d f ls = .ok (s', cu) → Inv K Q s'
def P2 (fuel : Nat) : Prop := ∀ s a c d f ls s' cu, Inv K Q s → ActOK K Q c a →
  dispatch fuel s a c d f ls = .ok (s', cu) → Inv K Q s'
def P3 (fuel : Nat) : Prop := ∀ s acs c d f ls cu0 s' cu, Inv K Q s → ActOKL K Q c acs →
  doActions fuel s acs c d f ls cu0 = .ok (s', cu) → Inv K Q s'
def P4 (fuel : Nat) : Prop := ∀ s idx s' cu, Inv K Q s → waitingIntoHold fuel s idx = .ok (s', cu) → Inv K Q s'
def P5 (fuel : Nat) : Prop := ∀ s l s', Inv K Q s → flushWaitings fuel s l = .ok s' → Inv K Q s'
def P6 (fuel : Nat) : Prop := ∀ s q s' cu, Inv K Q s → (∀ c, q.ev = .press c → Q c) →
  dequeue fuel s q = .ok (s', cu) → Inv K Q s'
def P7 (fuel : Nat) : Prop := ∀ s ev s', Inv K Q s → (∀ c, ev = .press c → Q c) →
  event fuel s ev = .ok s' → Inv K Q s'

theorem step1 {fuel : Nat} (h2 : P2 K Q fuel) : P1 K Q (fuel + 1) := by
  intro s a c d f ls s' cu hi ha h
  have hp := hi.prelude c
  cases a
  case trans =>
    simp only [ActOK] at ha
    simp only [doAction] at h
    cases hr : s.resolveCoord c ls with
    | error e => rw [hr] at h; cases h
    | ok r =>
      obtain ⟨a', ls'⟩ := r
      rw [hr] at h
      exact h2 _ a' c d f ls' s' cu hp (resolveCoord_ok s hi.cfg c ha ls a' ls' hr) h
  all_goals
    simp only [doAction] at h
    exact h2 _ _ c d f ls s' cu hp ha h

theorem step3 {fuel : Nat} (h1 : P1 K Q fuel) (h3 : P3 K Q fuel) : P3 K Q (fuel + 1) := by
  intro s acs c d f ls cu0 s' cu hi ha h
  cases acs with
  | nil =>
    simp only [doActions] at h
    obtain ⟨rfl, rfl⟩ := Prod.mk.inj (ok_inj h)
    exact hi
  | cons a rest =>
    simp only [ActOKL] at ha
    simp only [doActions] at h
    split at h
    · cases h
    · rename_i s1 c1 hr
      exact h3 _ _ _ _ _ _ _ _ _ (h1 _ _ _ _ _ _ _ _ hi ha.1 hr) ha.2 h

theorem step4 {fuel : Nat} (h1 : P1 K Q fuel) : P4 K Q (fuel + 1) := by
  intro s idx s' cu hi h
  simp only [waitingIntoHold] at h
  split at h
  · obtain ⟨rfl, rfl⟩ := Prod.mk.inj (ok_inj h); exact hi
  · rename_i w s1 ht
    obtain ⟨i1, i2⟩ := takeWaiting_inv hi idx ht
    exact h1 _ _ _ _ _ _ _ _ (holdPrep_inv i1 w) (i2 w.coord (Or.inl rfl)).1 h

theorem step5 {fuel : Nat} (h4 : P4 K Q fuel) (h5 : P5 K Q fuel) : P5 K Q (fuel + 1) := by
  intro s l s' hi h
  cases l with
  | nil => simp only [flushWaitings] at h; rw [← ok_inj h]; exact hi
  | cons i rest =>
    simp only [flushWaitings, bind, Except.bind] at h
    split at h
    · cases h
    · rename_i r hr
      obtain ⟨s1, c1⟩ := r
      exact h5 _ _ _ (h4 _ _ _ _ hi hr) h

theorem step2 {fuel : Nat} (h1 : P1 K Q fuel) (h3 : P3 K Q fuel) (h7 : P7 K Q fuel) : P2 K Q (fuel + 1) := by
  intro s a c d f ls s' cu hi ha h
  cases a
  case noOp =>
    simp only [dispatch] at h
    obtain ⟨rfl, rfl⟩ := Prod.mk.inj (ok_inj h); exact armNoOp_inv hi _ _ _
  case src =>
    simp only [ActOK] at ha
    simp only [dispatch] at h
    split at h
    · cases h
    · split at h
      · cases h
      · rename_i r hr
        obtain ⟨rfl, rfl⟩ := Prod.mk.inj (ok_inj h)
        exact h1 _ _ _ _ _ _ r.1 r.2 hi (hi.cfg c ha).2 hr
  case trans => simp only [dispatch] at h; cases h
  case «repeat» => simp only [ActOK] at ha
  case holdTap timeout hold tap ta config thi =>
    simp only [ActOK] at ha
    simp only [dispatch] at h
    split at h
    · split at h
      · cases h
      · obtain ⟨rfl, rfl⟩ := Prod.mk.inj (ok_inj h)
        exact armHoldTapWait_inv hi _ _ _ _ _ _ _ _ _ ha.1 ha.2.1 ha.2.2
    · split at h
      · cases h
      · rename_i s1 cu1 hr
        obtain ⟨rfl, rfl⟩ := Prod.mk.inj (ok_inj h)
        have hi0 : Inv K Q ({ s with lptTapHoldTimeout := 0 } : Layout) :=
          hi.of_same ⟨rfl, rfl, rfl, rfl, rfl, rfl⟩ hi.states
        exact (h1 _ _ _ _ _ _ _ _ hi0 ha.2.1 hr).updateCoord c
  case oneShot inner timeout ec =>
    simp only [ActOK] at ha
    simp only [dispatch] at h
    split at h
    · cases h
    · rename_i s1 cu1 hr
      have i1 := h1 _ _ _ _ _ _ _ _ (hi.updateCoord c) ha hr
      have i2 := armOneShotPost_inv i1 (.oneShot inner timeout ec) c timeout ec
      split at h
      · rename_i s2 c2 hp
        rw [hp] at i2
        split at h
        · cases h
        · rename_i s3 he
          obtain ⟨rfl, rfl⟩ := Prod.mk.inj (ok_inj h)
          exact h7 _ _ _ i2 (fun c hc => by cases hc) he
      · rename_i s2 hp
        rw [hp] at i2
        obtain ⟨rfl, rfl⟩ := Prod.mk.inj (ok_inj h)
        exact i2
  case oneShotIgnoreEventsTicks ticks =>
    simp only [dispatch] at h
    obtain ⟨rfl, rfl⟩ := Prod.mk.inj (ok_inj h)
    exact (hi.updateCoord c).of_same ⟨rfl, rfl, rfl, rfl, rfl, rfl⟩ (hi.updateCoord c).states
  case tapDance actions timeout eager =>
    cases eager
    · simp only [ActOK] at ha
      simp only [dispatch, Bool.not_false, if_true] at h
      split at h
      · cases h
      · obtain ⟨rfl, rfl⟩ := Prod.mk.inj (ok_inj h)
        refine armWait_inv hi _ _ _ _ _ ?_
        intro c' hc'
        rcases hc' with rfl | ⟨g, hg, _⟩
        · exact ha
        · cases hg
    · simp only [ActOK] at ha
      simp only [dispatch, Bool.not_true, Bool.false_eq_true, if_false] at h
      split at h
      · cases h
      · rename_i a0 h0
        split at h
        · cases h
        · rename_i r hr
          obtain ⟨rfl, rfl⟩ := Prod.mk.inj (ok_inj h)
          exact h1 _ _ _ _ _ _ r.1 r.2 (armEager_inv hi c actions timeout ha)
            (ActOKL_iff.mp (ha c) a0 (List.mem_of_getElem? h0)) hr
  case chords coords chs timeout =>
    simp only [ActOK] at ha
    simp only [dispatch] at h
    split at h
    · cases h
    · obtain ⟨rfl, rfl⟩ := Prod.mk.inj (ok_inj h)
      refine armWait_inv hi _ _ _ _ _ ?_
      intro c' hc'
      show ActOKC K Q c' chs
      apply ha c'
      rcases hc' with h1 | ⟨g, hg, hm⟩
      · exact Or.inl h1
      · injection hg with hg; subst hg; exact Or.inr hm
  case keyCode kc =>
    simp only [ActOK] at ha
    simp only [dispatch] at h
    obtain ⟨rfl, rfl⟩ := Prod.mk.inj (ok_inj h); exact armKeyCode_inv hi _ _ _ _ ha
  case multipleKeyCodes kcs =>
    simp only [ActOK] at ha
    simp only [dispatch] at h
    obtain ⟨rfl, rfl⟩ := Prod.mk.inj (ok_inj h); exact armMultipleKeyCodes_inv hi _ _ _ _ ha
  case bufKeyCodes kcs =>
    simp only [ActOK] at ha
    simp only [dispatch] at h
    obtain ⟨rfl, rfl⟩ := Prod.mk.inj (ok_inj h); exact armBufKeyCodes_inv hi _ _ _ _ ha
  case multipleActions acs =>
    simp only [ActOK] at ha
    simp only [dispatch] at h
    split at h
    · cases h
    · rename_i s1 cu1 hr
      obtain ⟨rfl, rfl⟩ := Prod.mk.inj (ok_inj h)
      exact (h3 _ _ _ _ _ _ _ _ _ (hi.updateCoord c) ha hr).rpt _
  case sequence events =>
    simp only [dispatch] at h
    obtain ⟨rfl, rfl⟩ := Prod.mk.inj (ok_inj h); exact armSequence_inv hi _ _ _ _ _
  case repeatableSequence events =>
    simp only [dispatch] at h
    obtain ⟨rfl, rfl⟩ := Prod.mk.inj (ok_inj h); exact armSequence_inv hi _ _ _ _ _
  case cancelSequences =>
    simp only [dispatch] at h
    obtain ⟨rfl, rfl⟩ := Prod.mk.inj (ok_inj h); exact armCancelSequences_inv hi _ _ _
  case layer v =>
    simp only [dispatch] at h
    obtain ⟨rfl, rfl⟩ := Prod.mk.inj (ok_inj h); exact armLayer_inv hi _ _ _
  case defaultLayer v =>
    simp only [dispatch] at h
    obtain ⟨rfl, rfl⟩ := Prod.mk.inj (ok_inj h); exact armDefaultLayer_inv hi _ _ _
  case custom id =>
    simp only [dispatch] at h
    have := congrArg Prod.fst (ok_inj h)
    simp only [] at this
    rw [← this]; exact armCustom_inv hi _ _ _ _
  case releaseState rs =>
    simp only [dispatch] at h
    obtain ⟨rfl, rfl⟩ := Prod.mk.inj (ok_inj h); exact armReleaseState_inv hi _ _ _ _
  case fork l r trig =>
    simp only [ActOK] at ha
    simp only [dispatch] at h
    split at h
    · cases h
    · rename_i s1 cu1 hr
      obtain ⟨rfl, rfl⟩ := Prod.mk.inj (ok_inj h)
      refine (h1 _ _ _ _ _ _ _ _ hi ?_ hr).rpt _
      split
      · exact ha.2
      · exact ha.1
  case switch cases =>
    simp only [ActOK] at ha
    simp only [dispatch] at h
    split at h
    · cases h
    · rename_i order ho
      split at h
      · cases h
      · rename_i acs hacs
        obtain ⟨rfl, rfl⟩ := Prod.mk.inj (ok_inj h)
        refine ⟨hi.cfg, hi.states, hi.waiting, hi.extra, hi.tde, ?_, hi.queue⟩
        intro e he
        rcases foldl_pushBackWrap_mem _ (fun a => (c, 0, a)) acs _ e he with he | ⟨a, ha', rfl⟩
        · exact hi.aq e he
        · obtain ⟨e', he', rfl⟩ := switchActions_sub _ cases acs hacs a ha'
          exact ActOKS_iff.mp ha e' he'

/-- `dequeue` of a release only removes states (and updates the one-shot bookkeeping) -/
theorem dequeue_release_spec (fuel : Nat) (s : Layout) (c : Coord) (since : Nat) :
    ∃ o sts cu, dequeue (fuel + 1) s ⟨.release c, since⟩ = .ok ({ s with oneshot := o, states := sts }, cu) ∧
      ∀ st ∈ sts, st ∈ s.states := by
  simp only [dequeue]
  generalize s.oneshot.handleRelease c = p
  obtain ⟨o, dr, ov⟩ := p
  simp only []
  have h1 : ∀ st ∈ (if dr = true then releaseStates true c s.states .noEvent else (s.states, .noEvent)).1, st ∈ s.states := by
    split
    · exact releaseStates_sub _ _ _ _
    · exact fun _ h => h
  generalize (if dr = true then releaseStates true c s.states .noEvent else (s.states, CustomEv.noEvent)) = p1 at h1
  obtain ⟨st1, cu1⟩ := p1
  simp only []
  cases ov with
  | none => exact ⟨_, _, _, rfl, h1⟩
  | some c2 =>
    simp only []
    refine ⟨_, (releaseStates false c2 st1 cu1).1, (releaseStates false c2 st1 cu1).2, rfl, ?_⟩
    intro st hst
    exact h1 st (releaseStates_sub _ _ _ _ st hst)

theorem step6 {fuel : Nat} (h1 : P1 K Q fuel) : P6 K Q (fuel + 1) := by
  intro s q s' cu hi hq h
  obtain ⟨ev, since⟩ := q
  cases ev with
  | release c =>
    obtain ⟨o, sts, cu', he, hsub⟩ := dequeue_release_spec fuel s c since
    rw [he] at h
    obtain ⟨rfl, rfl⟩ := Prod.mk.inj (ok_inj h)
    exact hi.of_same ⟨rfl, rfl, rfl, rfl, rfl, rfl⟩ (hi.states.sub hsub)
  | press c =>
    have hqc : Q c := hq c rfl
    simp only [dequeue, bind, Except.bind] at h
    split at h
    · cases h
    · rename_i order ho
      split at h
      · rename_i tde htde
        split at h
        · split at h
          · cases h
          · rename_i a hidx
            split at h
            · cases h
            · rename_i r hr
              obtain ⟨s1, cu1⟩ := r
              obtain ⟨rfl, rfl⟩ := Prod.mk.inj (ok_inj h)
              have i1 := h1 _ _ _ _ _ _ _ _ hi (ActOKL_iff.mp (hi.tde tde htde c) a (List.mem_of_getElem? hidx)) hr
              refine ⟨i1.cfg, i1.states, i1.waiting, i1.extra, ?_, i1.aq, i1.queue⟩
              intro t ht c'
              cases ht1 : s1.tapDanceEager with
              | none => rw [ht1] at ht; cases ht
              | some t1 =>
                rw [ht1] at ht
                simp only [Option.map_some, Option.some.injEq] at ht
                rw [← ht]
                exact i1.tde t1 ht1 c'
        · refine h1 _ _ _ _ _ _ _ _ ?_ (by simp only [ActOK]; exact hqc) h
          split
          · refine ⟨hi.cfg, hi.states, hi.waiting, hi.extra, ?_, hi.aq, hi.queue⟩
            intro t ht c'
            injection ht with ht
            rw [← ht]
            exact hi.tde tde htde c'
          · exact hi
      · exact h1 _ _ _ _ _ _ _ _ hi (by simp only [ActOK]; exact hqc) h

/-- `event` after the input history has been updated -/
def eventTail (fuel : Nat) (s0 : Layout) (ev : Ev) : Except L.Crash Layout :=
  let (q, ov) := pushBackWrap QUEUE_SIZE s0.queue ⟨ev, 0⟩
  let s := { s0 with queue := q }
  match ov with
  | none => pure s
  | some overflow => do
    let s ← flushWaitings fuel s (none :: (List.range EXTRA_WAITING_LEN).map some)
    let (s, _) ← dequeue fuel s overflow
    pure s

theorem event_press_eq (fuel : Nat) (s : Layout) (c : Coord) :
    event (fuel + 1) s (.press c) = eventTail fuel { s with histInputs := histPush s.histInputs c } (.press c) := by
  simp only [event]; rfl

theorem event_release_eq (fuel : Nat) (s : Layout) (c : Coord) :
    event (fuel + 1) s (.release c) = eventTail fuel s (.release c) := by
  simp only [event]; rfl

theorem eventTail_inv {fuel : Nat} (h5 : P5 K Q fuel) (h6 : P6 K Q fuel) (s0 : Layout) (ev : Ev) (s' : Layout)
    (hi0 : Inv K Q s0) (hq : ∀ c, ev = .press c → Q c) (h : eventTail fuel s0 ev = .ok s') : Inv K Q s' := by
  unfold eventTail at h
  have hq1 : ∀ q ∈ (pushBackWrap QUEUE_SIZE s0.queue ⟨ev, 0⟩).1, ∀ c, q.ev = .press c → Q c := by
    intro q hm c hc
    rcases mem_pushBackWrap hm with hm | hm
    · exact hi0.queue q hm c hc
    · subst hm; exact hq c hc
  have hq2 : ∀ q, (pushBackWrap QUEUE_SIZE s0.queue ⟨ev, 0⟩).2 = some q → ∀ c, q.ev = .press c → Q c := by
    intro q hm c hc
    rcases pushBackWrap_ov hm with hm | hm
    · exact hi0.queue q hm c hc
    · subst hm; exact hq c hc
  generalize pushBackWrap QUEUE_SIZE s0.queue ⟨ev, 0⟩ = p at h hq1 hq2
  obtain ⟨q, ov⟩ := p
  simp only [] at h hq2
  have hi1 : Inv K Q { s0 with queue := q } :=
    ⟨hi0.cfg, hi0.states, hi0.waiting, hi0.extra, hi0.tde, hi0.aq, hq1⟩
  cases ov with
  | none => rw [← ok_inj h]; exact hi1
  | some overflow =>
    simp only [bind, Except.bind, pure, Except.pure] at h
    split at h
    · cases h
    · rename_i s2 hf
      split at h
      · cases h
      · rename_i r hd
        obtain ⟨s3, cu3⟩ := r
        rw [← ok_inj h]
        exact h6 _ _ _ _ (h5 _ _ _ hi1 hf) (hq2 overflow rfl) hd

theorem step7 {fuel : Nat} (h5 : P5 K Q fuel) (h6 : P6 K Q fuel) : P7 K Q (fuel + 1) := by
  intro s ev s' hi hq h
  cases ev with
  | press c =>
    rw [event_press_eq] at h
    have hi0 : Inv K Q ({ s with histInputs := histPush s.histInputs c } : Layout) :=
      hi.of_same ⟨rfl, rfl, rfl, rfl, rfl, rfl⟩ hi.states
    exact eventTail_inv K Q h5 h6 _ _ _ hi0 hq h
  | release c =>
    rw [event_release_eq] at h
    exact eventTail_inv K Q h5 h6 _ _ _ hi hq h

/-- **the invariant is preserved by every function of the mutual block**, for every fuel -/
theorem inv_all : ∀ fuel : Nat,
    P1 K Q fuel ∧ P2 K Q fuel ∧ P3 K Q fuel ∧ P4 K Q fuel ∧ P5 K Q fuel ∧ P6 K Q fuel ∧ P7 K Q fuel := by
  intro fuel
  induction fuel with
  | zero =>
    refine ⟨?_, ?_, ?_, ?_, ?_, ?_, ?_⟩
    · intro s a c d f ls s' cu _ _ h; simp only [doAction] at h; cases h
    · intro s a c d f ls s' cu _ _ h; simp only [dispatch] at h; cases h
    · intro s acs c d f ls cu0 s' cu _ _ h; simp only [doActions] at h; cases h
    · intro s idx s' cu _ h; simp only [waitingIntoHold] at h; cases h
    · intro s l s' _ h; simp only [flushWaitings] at h; cases h
    · intro s q s' cu _ _ h; simp only [dequeue] at h; cases h
    · intro s ev s' _ _ h; simp only [event] at h; cases h
  | succ fuel ih =>
    obtain ⟨i1, i2, i3, i4, i5, i6, i7⟩ := ih
    exact ⟨step1 K Q i2, step2 K Q i1 i3 i7, step3 K Q i1 i3, step4 K Q i1, step5 K Q i4 i5, step6 K Q i1,
      step7 K Q i5 i6⟩

end Mutual

/-! ### the waiting states: `tick_wt` keeps the stored actions inside the closure -/

/-- an action a chord group can hand out: one of its members, or `NoOp` -/
def InCh (g : ChordsGroup) (a : Action) : Prop := a = .noOp ∨ ∃ m, (m, a) ∈ g.chords

theorem getChord_mem {g : ChordsGroup} {keys : Nat} {a : Action} (h : g.getChord keys = some a) :
    ∃ m, (m, a) ∈ g.chords := by
  unfold ChordsGroup.getChord at h
  cases hf : g.chords.find? (·.1 == keys) with
  | none => rw [hf] at h; cases h
  | some e =>
    rw [hf] at h
    obtain ⟨m, a0⟩ := e
    simp only [Option.map_some, Option.some.injEq] at h
    subst h
    exact ⟨m, List.mem_of_find?_eq_some hf⟩

theorem getChordGo_mem (keys : Nat) : ∀ (l : List (Nat × Action)) (res : Option Action) (a : Action),
    ChordsGroup.getChordIfUnambiguous.go keys l res = some a → res = some a ∨ ∃ m, (m, a) ∈ l := by
  intro l
  induction l with
  | nil => intro res a h; simp only [ChordsGroup.getChordIfUnambiguous.go] at h; exact Or.inl h
  | cons e rest ih =>
    obtain ⟨ck, a0⟩ := e
    intro res a h
    simp only [ChordsGroup.getChordIfUnambiguous.go] at h
    split at h
    · rcases ih _ a h with h1 | ⟨m, hm⟩
      · injection h1 with h1; subst h1; exact Or.inr ⟨ck, by simp⟩
      · exact Or.inr ⟨m, by simp [hm]⟩
    · split at h
      · cases h
      · rcases ih _ a h with h1 | ⟨m, hm⟩
        · exact Or.inl h1
        · exact Or.inr ⟨m, by simp [hm]⟩

theorem getChordIfUnambiguous_mem {g : ChordsGroup} {keys : Nat} {a : Action}
    (h : g.getChordIfUnambiguous keys = some a) : ∃ m, (m, a) ∈ g.chords := by
  unfold ChordsGroup.getChordIfUnambiguous at h
  rcases getChordGo_mem keys _ _ a h with h1 | h1
  · cases h1
  · exact h1

theorem chordRetain_sub (w : Waiting) (g : ChordsGroup) : ∀ (queued : List Queued) (handled : Nat),
    ∀ x ∈ (chordRetain w g handled queued).1, x ∈ queued := by
  intro queued
  induction queued with
  | nil => intro handled x h; simp only [chordRetain] at h; cases h
  | cons q rest ih =>
    intro handled x h
    simp only [chordRetain] at h
    split at h
    · rcases List.mem_cons.mp h with h | h
      · rw [h]; simp
      · exact List.mem_cons_of_mem _ (ih _ x h)
    · split at h
      · exact List.mem_cons_of_mem _ (ih _ x h)
      · rcases List.mem_cons.mp h with h | h
        · rw [h]; simp
        · exact List.mem_cons_of_mem _ (ih _ x h)

theorem shrinkEnd_mem (g : ChordsGroup) (keys : List Nat) (start : Nat) : ∀ (e : Nat) (r : Nat × Action),
    shrinkEnd g keys start e = some r → ∃ m, (m, r.2) ∈ g.chords := by
  intro e
  induction e with
  | zero => intro r h; simp only [shrinkEnd] at h; cases h
  | succ e ih =>
    intro r h
    simp only [shrinkEnd] at h
    split at h
    · split at h
      · rename_i a hg
        injection h with h; subst h
        exact getChord_mem hg
      · exact ih r h
    · cases h

theorem getKeys_mem {g : ChordsGroup} {c : Coord} {k : Nat} (h : g.getKeys c = some k) :
    c ∈ g.coords.map (·.1) := by
  unfold ChordsGroup.getKeys at h
  cases hf : g.coords.find? (·.1 == c) with
  | none => rw [hf] at h; cases h
  | some e =>
    have h1 := List.find?_some hf
    have h2 := List.mem_of_find?_eq_some hf
    have h3 : e.1 = c := by simpa using h1
    exact List.mem_map.mpr ⟨e, h2, h3⟩

theorem chordFold_released (w : Waiting) (g : ChordsGroup) (c : Coord) : ∀ (q : List Queued) (st : ChordFold),
    (chordFold w g st q).1.released = some c → st.released = some c ∨ c ∈ g.coords.map (·.1) := by
  intro q
  induction q with
  | nil => intro st h; simp only [chordFold] at h; exact Or.inl h
  | cons x rest ih =>
    intro st h
    simp only [chordFold] at h
    split at h
    · exact ih _ h
    · split at h
      · rename_i ck hk
        split at h
        · have h' := ih _ h
          exact h'
        · rename_i c0 hev
          simp only [Option.some.injEq] at h
          subst h
          rw [hev] at hk
          exact Or.inr (getKeys_mem hk)
      · split at h
        · exact Or.inl h
        · exact ih _ h

theorem chordRetain_pressed (w : Waiting) (g : ChordsGroup) : ∀ (queued : List Queued) (handled : Nat),
    ∀ c ∈ (chordRetain w g handled queued).2, c ∈ g.coords.map (·.1) := by
  intro queued
  induction queued with
  | nil => intro handled c h; simp only [chordRetain] at h; cases h
  | cons q rest ih =>
    intro handled c h
    simp only [chordRetain] at h
    split at h
    · exact ih _ c h
    · split at h
      · rename_i hc
        rcases List.mem_cons.mp h with h | h
        · simp only [Bool.and_eq_true, Option.isSome_iff_exists] at hc
          obtain ⟨k, hk⟩ := hc.1.2
          rw [h]; exact getKeys_mem hk
        · exact ih _ c h
      · exact ih _ c h

theorem decomposeFold_dflt (w : Waiting) (g : ChordsGroup) : ∀ (q : List Queued) (active : Nat) (order : List Nat)
    (dflt : Coord), (decomposeFold w g active order dflt q).2 = dflt ∨
      (decomposeFold w g active order dflt q).2 ∈ g.coords.map (·.1) := by
  intro q
  induction q with
  | nil => intro active order dflt; simp only [decomposeFold]; exact Or.inl trivial
  | cons x rest ih =>
    intro active order dflt
    simp only [decomposeFold]
    split
    · exact ih _ _ _
    · split
      · rename_i ck hk
        split
        · exact ih _ _ _
        · rename_i c0 hev
          rw [hev] at hk
          exact Or.inr (getKeys_mem hk)
      · split
        · exact Or.inl rfl
        · exact ih _ _ _

theorem coordForChord_mem (w : Waiting) (g : ChordsGroup) (dflt : Coord) (queued : List Queued) (mask : Nat) :
    coordForChord w g dflt queued mask = dflt ∨ coordForChord w g dflt queued mask = w.coord ∨
      coordForChord w g dflt queued mask ∈ g.coords.map (·.1) := by
  unfold coordForChord
  split
  · exact Or.inl rfl
  · split
    · exact Or.inr (Or.inl rfl)
    · split
      · rename_i q' hf
        have h1 := List.find?_some hf
        cases hk : g.getKeys q'.ev.coord with
        | none => rw [hk] at h1; simp at h1
        | some k => exact Or.inr (Or.inr (getKeys_mem hk))
      · exact Or.inl rfl

/-- where a chord group may run an action: the given coordinate or one of its participants -/
def CoIn (g : ChordsGroup) (c0 c : Coord) : Prop := c = c0 ∨ c ∈ g.coords.map (·.1)

theorem decomposeLoop_mem (w : Waiting) (g : ChordsGroup) (dflt : Coord) (queued : List Queued) (keys : List Nat)
    (delay : Nat) (hd : CoIn g w.coord dflt) : ∀ (fuel start : Nat) (aq : ActionQueue),
    ∀ e ∈ decomposeLoop w g dflt queued keys delay fuel start aq,
      e ∈ aq ∨ ((∃ m, (m, e.2.2) ∈ g.chords) ∧ CoIn g w.coord e.1) := by
  have hco : ∀ mask, CoIn g w.coord (coordForChord w g dflt queued mask) := by
    intro mask
    rcases coordForChord_mem w g dflt queued mask with h | h | h
    · rw [h]; exact hd
    · exact Or.inl h
    · exact Or.inr h
  intro fuel
  induction fuel with
  | zero => intro start aq e h; simp only [decomposeLoop] at h; exact Or.inl h
  | succ fuel ih =>
    intro start aq e h
    simp only [decomposeLoop] at h
    split at h
    · split at h
      · rename_i a hg
        rcases ih _ _ e h with h1 | h1
        · rcases mem_pushBackWrap h1 with h2 | h2
          · exact Or.inl h2
          · subst h2; exact Or.inr ⟨getChord_mem hg, hco _⟩
        · exact Or.inr h1
      · split at h
        · rename_i e0 a hs
          rcases ih _ _ e h with h1 | h1
          · rcases mem_pushBackWrap h1 with h2 | h2
            · exact Or.inl h2
            · subst h2; exact Or.inr ⟨shrinkEnd_mem g keys start _ (e0, a) hs, hco _⟩
          · exact Or.inr h1
        · exact ih _ _ e h
    · exact Or.inl h

theorem decomposeChord_mem (w : Waiting) (g : ChordsGroup) (queued : List Queued) (aq : ActionQueue) :
    ∀ e ∈ decomposeChord w g queued aq, e ∈ aq ∨ ((∃ m, (m, e.2.2) ∈ g.chords) ∧ CoIn g w.coord e.1) := by
  unfold decomposeChord
  simp only []
  have hd := decomposeFold_dflt w g queued ((g.getKeys w.coord).getD 0) [(g.getKeys w.coord).getD 0] w.coord
  generalize decomposeFold w g _ _ w.coord queued = p at hd
  obtain ⟨order, dflt⟩ := p
  exact decomposeLoop_mem w g dflt queued order _ hd _ _ aq

/-- what `handle_chord` changes: `coord` (to a participant) and `prevQueueLen` of the state only; the
queue shrinks; new action-queue entries and the returned action are members of the group, for the
original coordinate or a participant; the pressed queue holds the original coordinate and participants -/
structure ChordRes (w : Waiting) (g : ChordsGroup) (queued : List Queued) (aq : ActionQueue)
    (R : Waiting × List Queued × ActionQueue × Option (WAct × Action × List Coord)) : Prop where
  hold : R.1.hold = w.hold
  tap : R.1.tap = w.tap
  ta : R.1.timeoutAction = w.timeoutAction
  config : R.1.config = w.config
  coord : CoIn g w.coord R.1.coord
  queue : ∀ x ∈ R.2.1, x ∈ queued
  aq : ∀ e ∈ R.2.2.1, e ∈ aq ∨ ((∃ m, (m, e.2.2) ∈ g.chords) ∧ CoIn g w.coord e.1)
  act : ∀ r, R.2.2.2 = some r → InCh g r.2.1
  pq : ∀ r, R.2.2.2 = some r → ∀ c ∈ r.2.2, CoIn g w.coord c

theorem finish_res (w0 w : Waiting) (g : ChordsGroup) (queued : List Queued) (aq0 aq : ActionQueue) (handled : Nat)
    (r : WAct × Action)
    (h1 : w.hold = w0.hold) (h2 : w.tap = w0.tap) (h3 : w.timeoutAction = w0.timeoutAction) (h4 : w.config = w0.config)
    (h5 : CoIn g w0.coord w.coord)
    (haq : ∀ e ∈ aq, e ∈ aq0 ∨ ((∃ m, (m, e.2.2) ∈ g.chords) ∧ CoIn g w0.coord e.1)) (hr : InCh g r.2) :
    ChordRes w0 g queued aq0
      (match chordRetain w g handled queued with
        | (kept, pressed) => (w, kept, aq, some (r.1, r.2, (w0.coord :: pressed).take QUEUE_SIZE))) := by
  have hsub := chordRetain_sub w g queued handled
  have hpr := chordRetain_pressed w g queued handled
  generalize chordRetain w g handled queued = p at hsub hpr
  obtain ⟨kept, pressed⟩ := p
  refine ⟨h1, h2, h3, h4, h5, hsub, haq, fun r' hr' => (by injection hr' with hr'; rw [← hr']; exact hr), ?_⟩
  intro r' hr' c hc
  injection hr' with hr'
  rw [← hr'] at hc
  rcases List.mem_cons.mp (List.mem_of_mem_take hc) with h | h
  · exact Or.inl h
  · exact Or.inr (hpr c h)

theorem released_fields (w : Waiting) (rel : Option Coord) :
    (match rel with | some c => { w with coord := c } | none => w).hold = w.hold ∧
    (match rel with | some c => { w with coord := c } | none => w).tap = w.tap ∧
    (match rel with | some c => { w with coord := c } | none => w).timeoutAction = w.timeoutAction ∧
    (match rel with | some c => { w with coord := c } | none => w).config = w.config ∧
    ((match rel with | some c => { w with coord := c } | none => w).coord = w.coord ∨
      rel = some (match rel with | some c => { w with coord := c } | none => w).coord) := by
  cases rel
  · exact ⟨rfl, rfl, rfl, rfl, Or.inl rfl⟩
  · exact ⟨rfl, rfl, rfl, rfl, Or.inr rfl⟩

theorem handleChord_res (w : Waiting) (g : ChordsGroup) (queued : List Queued) (aq : ActionQueue) :
    ChordRes w g queued aq (handleChord w g queued aq) := by
  unfold handleChord
  split
  · exact ⟨rfl, rfl, rfl, rfl, Or.inl rfl, fun _ h => h, fun _ h => Or.inl h, fun _ h => (by cases h),
      fun _ h => (by cases h)⟩
  · simp only []
    have hrel : ∀ c, (chordFold { w with prevQueueLen := queued.length % 256 } g
        ⟨(g.getKeys w.coord).getD 0, 0, none⟩ queued).1.released = some c → c ∈ g.coords.map (·.1) := by
      intro c hc
      rcases chordFold_released _ g c queued _ hc with h | h
      · cases h
      · exact h
    generalize chordFold { w with prevQueueLen := queued.length % 256 } g ⟨(g.getKeys w.coord).getD 0, 0, none⟩ queued = p at hrel
    obtain ⟨st, ok⟩ := p
    simp only [] at hrel ⊢
    have hco : CoIn g w.coord (match st.released with
        | some c => { ({ w with prevQueueLen := queued.length % 256 } : Waiting) with coord := c }
        | none => { w with prevQueueLen := queued.length % 256 }).coord := by
      rcases (released_fields { w with prevQueueLen := queued.length % 256 } st.released).2.2.2.2 with h | h
      · exact Or.inl h
      · exact Or.inr (hrel _ h)
    split
    · split
      · rename_i a ha
        obtain ⟨f1, f2, f3, f4, _⟩ := released_fields { w with prevQueueLen := queued.length % 256 } st.released
        exact finish_res w _ g queued aq aq st.handled (.tap, a) f1 f2 f3 f4 hco (fun _ h => Or.inl h)
          (Or.inr (getChordIfUnambiguous_mem ha))
      · exact ⟨rfl, rfl, rfl, rfl, Or.inl rfl, fun _ h => h, fun _ h => Or.inl h, fun _ h => (by cases h),
          fun _ h => (by cases h)⟩
    · split
      · rename_i a ha
        obtain ⟨f1, f2, f3, f4, _⟩ := released_fields { w with prevQueueLen := queued.length % 256 } st.released
        exact finish_res w _ g queued aq aq st.handled (.tap, a) f1 f2 f3 f4 hco (fun _ h => Or.inl h)
          (Or.inr (getChord_mem ha))
      · exact finish_res w _ g queued aq _ st.handled (.noOp, .noOp) rfl rfl rfl rfl (Or.inl rfl)
          (decomposeChord_mem { w with prevQueueLen := queued.length % 256 } g queued aq) (Or.inl rfl)

theorem WOK.congr {K : KSet} {Q : Coord → Prop} {w w' : Waiting} (hw : WOK K Q w) (hc : w'.coord = w.coord)
    (hh : w'.hold = w.hold) (ht : w'.tap = w.tap) (hta : w'.timeoutAction = w.timeoutAction)
    (hcfg : w'.config = w.config) : WOK K Q w' := by
  intro c' hc'
  have : wAt w c' := by unfold wAt at *; rw [hc, hcfg] at hc'; exact hc'
  rw [hh, ht, hta, hcfg]
  exact hw c' this

theorem evictSameCoord_sub (w : Waiting) : ∀ (q : List Queued) (a b : Nat), ∀ x ∈ evictSameCoord w a b q, x ∈ q := by
  intro q
  induction q with
  | nil => intro a b x h; simp only [evictSameCoord] at h; cases h
  | cons y rest ih =>
    intro a b x h
    simp only [evictSameCoord] at h
    split at h
    · split at h
      · exact List.mem_cons_of_mem _ (ih _ _ x h)
      · rcases List.mem_cons.mp h with h | h
        · rw [h]; simp
        · exact List.mem_cons_of_mem _ (ih _ _ x h)
    · split at h
      · exact List.mem_cons_of_mem _ (ih _ _ x h)
      · rcases List.mem_cons.mp h with h | h
        · rw [h]; simp
        · exact List.mem_cons_of_mem _ (ih _ _ x h)

theorem handleTapDance_sub (w : Waiting) (n m : Nat) (q : List Queued) :
    ∀ x ∈ (handleTapDance w n m q).1, x ∈ q := by
  unfold handleTapDance
  split
  · exact fun _ h => h
  · split
    · exact evictSameCoord_sub w q _ _
    · split
      · split
        · exact evictSameCoord_sub w q _ _
        · exact fun _ h => h
      · exact evictSameCoord_sub w q _ _

theorem tickWtTd_res {K : KSet} {Q : Coord → Prop} (w : Waiting) (actions : List Action) (tdT tdN : Nat)
    (q : List Queued) (hcfg : w.config = .tapDance actions tdT tdN) (hw : WOK K Q w)
    (w1 : Waiting) (q1 : List Queued) (ret : Option WAct)
    (h : tickWtTd w actions tdT tdN q = .ok (w1, q1, ret)) :
    WOK K Q w1 ∧ (∀ x ∈ q1, x ∈ q) ∧ ∃ n, w1.config = .tapDance actions tdT n := by
  have hb := hw w.coord (Or.inl rfl)
  rw [hcfg] at hb
  have hsub := handleTapDance_sub w tdN actions.length q
  unfold tickWtTd at h
  generalize handleTapDance w tdN actions.length q = p at h hsub
  obtain ⟨q', r, numTaps⟩ := p
  cases r with
  | none =>
    simp only [] at h
    obtain ⟨rfl, h2⟩ := Prod.mk.inj (ok_inj h)
    obtain ⟨rfl, rfl⟩ := Prod.mk.inj h2
    refine ⟨?_, hsub, _, rfl⟩
    intro c' hc'
    rcases hc' with rfl | ⟨g, hg, _⟩
    · exact hb
    · cases hg
  | some r =>
    simp only [] at h
    split at h
    · cases h
    · rename_i a hp
      obtain ⟨rfl, h2⟩ := Prod.mk.inj (ok_inj h)
      obtain ⟨rfl, rfl⟩ := Prod.mk.inj h2
      refine ⟨?_, hsub, _, rfl⟩
      intro c' hc'
      rcases hc' with rfl | ⟨g, hg, _⟩
      · exact ⟨hb.1, ActOKL_iff.mp hb.2.2.2 a (List.mem_of_getElem? hp), hb.2.2.1, hb.2.2.2⟩
      · cases hg

/-- what `tick_wt` guarantees about a waiting state inside the closure -/
structure WtRes (K : KSet) (Q : Coord → Prop) (q : List Queued) (w' : Waiting) (q' : List Queued) (aq' : ActionQueue)
    (r : Option (WAct × Option (List Coord))) : Prop where
  wok : WOK K Q w'
  queue : ∀ x ∈ q', x ∈ q
  aq : ∀ e ∈ aq', ActOK K Q e.1 e.2.2
  chord : ∀ act pq, r = some (act, some pq) → ∀ c ∈ pq, ActOK K Q c w'.tap

theorem tickWt_res {K : KSet} {Q : Coord → Prop} (w : Waiting) (q : List Queued) (aq : ActionQueue)
    (hw : WOK K Q w) (haq : ∀ e ∈ aq, ActOK K Q e.1 e.2.2)
    (w' : Waiting) (q' : List Queued) (aq' : ActionQueue) (r : Option (WAct × Option (List Coord)))
    (h : tickWt w q aq = .ok (w', q', aq', r)) : WtRes K Q q w' q' aq' r := by
  have hw0 : WOK K Q { w with timeout := w.timeout - 1, ticks := min (w.ticks + 1) U16_MAX } :=
    hw.congr rfl rfl rfl rfl rfl
  unfold tickWt at h
  simp only [] at h
  split at h
  · -- tap-hold
    rename_i htc hcfg
    obtain ⟨_, f2, f3, _, f5, f6, f7, _, _⟩ := C05.handleHoldTap_fields { w with timeout := w.timeout - 1, ticks := min (w.ticks + 1) U16_MAX } htc q
    generalize handleHoldTap { w with timeout := w.timeout - 1, ticks := min (w.ticks + 1) U16_MAX } htc q = p at h f2 f3 f5 f6 f7
    obtain ⟨w1, r1⟩ := p
    simp only [] at h f2 f3 f5 f6 f7
    obtain ⟨rfl, h2⟩ := Prod.mk.inj (ok_inj h)
    obtain ⟨rfl, h3⟩ := Prod.mk.inj h2
    obtain ⟨rfl, rfl⟩ := Prod.mk.inj h3
    refine ⟨hw0.congr f3 f5 f6 f7 f2, fun _ h => h, haq, ?_⟩
    intro act pq he
    cases r1 with
    | none => cases he
    | some x => simp at he
  · -- tap-dance
    rename_i actions tdT tdN hcfg
    split at h
    · cases h
    · rename_i w1 q1 ret htd
      obtain ⟨rfl, h2⟩ := Prod.mk.inj (ok_inj h)
      obtain ⟨rfl, h3⟩ := Prod.mk.inj h2
      obtain ⟨rfl, rfl⟩ := Prod.mk.inj h3
      obtain ⟨t1, t2, n, t3⟩ := tickWtTd_res { w with timeout := w.timeout - 1, ticks := min (w.ticks + 1) U16_MAX } actions tdT tdN q hcfg hw0 _ _ _ htd
      refine ⟨t1, t2, haq, ?_⟩
      intro act pq he
      cases ret with
      | none => cases he
      | some x => simp at he
  · -- chord
    rename_i g hcfg
    have hres := handleChord_res { w with timeout := w.timeout - 1, ticks := min (w.ticks + 1) U16_MAX } g q aq
    have hall : ∀ c', CoIn g w.coord c' →
        ActOK K Q c' w.hold ∧ ActOK K Q c' w.tap ∧ ActOK K Q c' w.timeoutAction ∧ ActOKC K Q c' g.chords := by
      intro c' hc'
      have : wAt { w with timeout := w.timeout - 1, ticks := min (w.ticks + 1) U16_MAX } c' := by
        rcases hc' with h1 | h1
        · exact Or.inl h1
        · exact Or.inr ⟨g, hcfg, h1⟩
      have := hw0 c' this
      rw [hcfg] at this
      exact this
    have hin : ∀ a, InCh g a → ∀ c', CoIn g w.coord c' → ActOK K Q c' a := by
      intro a ha c' hc'
      rcases ha with rfl | ⟨m, hm⟩
      · simp [ActOK]
      · exact ActOKC_iff.mp (hall c' hc').2.2.2 (m, a) hm
    generalize handleChord { w with timeout := w.timeout - 1, ticks := min (w.ticks + 1) U16_MAX } g q aq = R at h hres
    obtain ⟨w1, q1, aq1, ro⟩ := R
    have haq1 : ∀ e ∈ aq1, ActOK K Q e.1 e.2.2 := by
      intro e he
      rcases hres.aq e he with h1 | ⟨⟨m, hm⟩, hco⟩
      · exact haq e h1
      · exact hin _ (Or.inr ⟨m, hm⟩) e.1 hco
    have hc1 : w1.config = .chord g := hres.config.trans hcfg
    have hcoord : CoIn g w.coord w1.coord := hres.coord
    have hat : ∀ c', (c' = w1.coord ∨ ∃ g', WCfg.chord g = .chord g' ∧ c' ∈ g'.coords.map (·.1)) → CoIn g w.coord c' := by
      intro c' hc'
      rcases hc' with h1 | ⟨g', hg', hm⟩
      · rw [h1]; exact hcoord
      · injection hg' with hg'; subst hg'; exact Or.inr hm
    have e1 : w1.hold = w.hold := hres.hold
    have e2 : w1.tap = w.tap := hres.tap
    have e3 : w1.timeoutAction = w.timeoutAction := hres.ta
    cases ro with
    | none =>
      simp only [] at h
      obtain ⟨rfl, h2⟩ := Prod.mk.inj (ok_inj h)
      obtain ⟨rfl, h3⟩ := Prod.mk.inj h2
      obtain ⟨rfl, rfl⟩ := Prod.mk.inj h3
      refine ⟨?_, hres.queue, haq1, fun _ _ he => by cases he⟩
      intro c' hc'
      unfold wAt at hc'
      rw [hc1] at hc'
      rw [e1, e2, e3, hc1]
      exact hall c' (hat c' hc')
    | some x =>
      obtain ⟨act, a, pq⟩ := x
      simp only [] at h
      obtain ⟨rfl, h2⟩ := Prod.mk.inj (ok_inj h)
      obtain ⟨rfl, h3⟩ := Prod.mk.inj h2
      obtain ⟨rfl, rfl⟩ := Prod.mk.inj h3
      refine ⟨?_, hres.queue, haq1, ?_⟩
      · intro c' hc'
        have hc'' : c' = w1.coord ∨ ∃ g', w1.config = .chord g' ∧ c' ∈ g'.coords.map (·.1) := hc'
        rw [hc1] at hc''
        show ActOK K Q c' w1.hold ∧ ActOK K Q c' a ∧ ActOK K Q c' w1.timeoutAction ∧ WCfgOK K Q c' w1.config
        rw [e1, e3, hc1]
        have := hall c' (hat c' hc'')
        exact ⟨this.1, hin a (hres.act _ rfl) c' (hat c' hc''), this.2.2.1, this.2.2.2⟩
      · intro act' pq' he c' hc'
        simp only [Option.some.injEq, Prod.mk.injEq] at he
        obtain ⟨_, rfl⟩ := he
        exact hin a (hres.act _ rfl) c' (hres.pq _ rfl c' hc')

/-! ### the rest of `tick`: the waiting state decides, one-shot expiry, sequences -/

section Tick
variable {K : KSet} {Q : Coord → Prop}

theorem doAction_inv {fuel : Nat} {s : Layout} {a : Action} {c : Coord} {d : Nat} {f : Bool} {ls : List Nat}
    {s' : Layout} {cu : CustomEv} (hi : Inv K Q s) (ha : ActOK K Q c a)
    (h : doAction fuel s a c d f ls = .ok (s', cu)) : Inv K Q s' :=
  (inv_all K Q fuel).1 s a c d f ls s' cu hi ha h

theorem dequeue_inv {fuel : Nat} {s : Layout} {q : Queued} {s' : Layout} {cu : CustomEv} (hi : Inv K Q s)
    (hq : ∀ c, q.ev = .press c → Q c) (h : dequeue fuel s q = .ok (s', cu)) : Inv K Q s' :=
  (inv_all K Q fuel).2.2.2.2.2.1 s q s' cu hi hq h

theorem event_inv {fuel : Nat} {s : Layout} {ev : Ev} {s' : Layout} (hi : Inv K Q s)
    (hq : ∀ c, ev = .press c → Q c) (h : event fuel s ev = .ok s') : Inv K Q s' :=
  (inv_all K Q fuel).2.2.2.2.2.2 s ev s' hi hq h

theorem waitingIntoHold_inv {fuel : Nat} {s : Layout} {idx : Option Nat} {s' : Layout} {cu : CustomEv}
    (hi : Inv K Q s) (h : waitingIntoHold fuel s idx = .ok (s', cu)) : Inv K Q s' :=
  (inv_all K Q fuel).2.2.2.1 s idx s' cu hi h

theorem repeatForCoords_inv (ac : Action) (delay : Nat) (ls : List Nat) : ∀ (cs : List Coord) (s s' : Layout),
    Inv K Q s → (∀ c ∈ cs, ActOK K Q c ac) → repeatForCoords ac delay ls cs s = .ok s' → Inv K Q s' := by
  intro cs
  induction cs with
  | nil => intro s s' hi _ h; simp only [repeatForCoords] at h; rw [← ok_inj h]; exact hi
  | cons c rest ih =>
    intro s s' hi ha h
    simp only [repeatForCoords] at h
    split at h
    · cases h
    · rename_i s1 cu1 hr
      exact ih _ _ (doAction_inv hi (ha c (by simp)) hr) (fun c' hc' => ha c' (by simp [hc'])) h

theorem repeatSimpleActions_inv (acs0 : List Action) (pq : List Coord) (delay : Nat) (ls : List Nat) :
    ∀ (acs : List Action) (s s' : Layout), Inv K Q s → (∀ ac ∈ acs, ∀ c ∈ pq, ActOK K Q c ac) →
      repeatSimpleActions acs0 pq delay ls acs s = .ok s' → Inv K Q s' := by
  intro acs
  induction acs with
  | nil => intro s s' hi _ h; simp only [repeatSimpleActions] at h; rw [← ok_inj h]; exact hi
  | cons ac rest ih =>
    intro s s' hi ha h
    simp only [repeatSimpleActions] at h
    split at h
    · split at h
      · cases h
      · rename_i s1 hr
        exact ih _ _ (repeatForCoords_inv ac delay ls pq _ _ hi (ha ac (by simp)) hr)
          (fun a' ha' => ha a' (by simp [ha'])) h
    · exact ih _ _ hi (fun a' ha' => ha a' (by simp [ha'])) h

theorem chordRepeat_inv (tap : Action) (pq : List Coord) (delay : Nat) (ls : List Nat) (s s' : Layout)
    (hi : Inv K Q s) (ha : ∀ c ∈ pq, ActOK K Q c tap) (h : chordRepeat tap pq delay ls s = .ok s') : Inv K Q s' := by
  unfold chordRepeat at h
  split at h
  · exact repeatForCoords_inv tap delay ls pq _ _ hi ha h
  · split at h
    · rename_i acs _
      refine repeatSimpleActions_inv acs pq delay ls acs _ _ hi ?_ h
      intro ac hac c hc
      have := ha c hc
      simp only [ActOK] at this
      exact ActOKL_iff.mp this ac hac
    · rw [← ok_inj h]; exact hi

theorem waitingIntoTap_inv (s : Layout) (pq : Option (List Coord)) (idx : Option Nat) (s' : Layout) (cu : CustomEv)
    (hi : Inv K Q s)
    (hch : ∀ l, pq = some l → ∀ w s1, takeWaiting s idx = some (w, s1) → ∀ c ∈ l, ActOK K Q c w.tap)
    (h : waitingIntoTap s pq idx = .ok (s', cu)) : Inv K Q s' := by
  unfold waitingIntoTap at h
  split at h
  · obtain ⟨rfl, rfl⟩ := Prod.mk.inj (ok_inj h); exact hi
  · rename_i w s1 ht
    obtain ⟨i1, i2⟩ := takeWaiting_inv hi idx ht
    split at h
    · cases h
    · rename_i s2 ret hr
      have i3 := doAction_inv i1 (i2 w.coord (Or.inl rfl)).2.1 hr
      split at h
      · obtain ⟨rfl, rfl⟩ := Prod.mk.inj (ok_inj h); exact tapPost_inv i3
      · rename_i l
        split at h
        · cases h
        · rename_i s3 hc
          obtain ⟨rfl, rfl⟩ := Prod.mk.inj (ok_inj h)
          exact tapPost_inv (chordRepeat_inv _ _ _ _ _ _ i3 (hch l rfl w s1 ht) hc)

theorem waitingIntoTimeout_inv (s : Layout) (idx : Option Nat) (s' : Layout) (cu : CustomEv)
    (hi : Inv K Q s) (h : waitingIntoTimeout s idx = .ok (s', cu)) : Inv K Q s' := by
  unfold waitingIntoTimeout at h
  split at h
  · obtain ⟨rfl, rfl⟩ := Prod.mk.inj (ok_inj h); exact hi
  · rename_i w s1 ht
    obtain ⟨i1, i2⟩ := takeWaiting_inv hi idx ht
    exact doAction_inv (timeoutPrep_inv i1 w) (i2 w.coord (Or.inl rfl)).2.2.1 h

theorem applyWaitingAction_inv (s : Layout) (r : Option (WAct × Option (List Coord))) (idx : Option Nat)
    (dflt : CustomEv) (s' : Layout) (cu : CustomEv) (hi : Inv K Q s)
    (hch : ∀ act l, r = some (act, some l) → ∀ w s1, takeWaiting s idx = some (w, s1) → ∀ c ∈ l, ActOK K Q c w.tap)
    (h : applyWaitingAction s r idx dflt = .ok (s', cu)) : Inv K Q s' := by
  unfold applyWaitingAction at h
  split at h
  · exact waitingIntoHold_inv hi h
  · rename_i pq
    exact waitingIntoTap_inv s pq idx s' cu hi (fun l hl => hch .tap l (by rw [hl])) h
  · exact waitingIntoTimeout_inv s idx s' cu hi h
  · obtain ⟨rfl, rfl⟩ := Prod.mk.inj (ok_inj h)
    exact ⟨hi.cfg, hi.states, fun _ hm => (by cases hm), hi.extra, hi.tde, hi.aq, hi.queue⟩
  · obtain ⟨rfl, rfl⟩ := Prod.mk.inj (ok_inj h); exact hi

theorem tickMain_inv (s s' : Layout) (cu : CustomEv) (hi : Inv K Q s) (h : tickMain s = .ok (s', cu)) :
    Inv K Q s' := by
  unfold tickMain at h
  split at h
  · rename_i w hw
    split at h
    · cases h
    · rename_i w1 q1 aq1 r ht
      have hres := tickWt_res w s.queue s.actionQueue (hi.waiting w hw) hi.aq w1 q1 aq1 r ht
      have hi1 : Inv K Q { s with waiting := some w1, queue := q1, actionQueue := aq1 } :=
        ⟨hi.cfg, hi.states, fun w' hm => (by injection hm with hm; rw [← hm]; exact hres.wok), hi.extra, hi.tde,
          hres.aq, fun q hq => hi.queue q (hres.queue q hq)⟩
      refine applyWaitingAction_inv _ r none .noEvent s' cu hi1 ?_ h
      intro act l hr w' s1 htk
      simp only [takeWaiting, Option.map_some, Option.some.injEq, Prod.mk.injEq] at htk
      rw [← htk.1]
      exact hres.chord act l hr
  · split at h
    · split at h
      · obtain ⟨rfl, rfl⟩ := Prod.mk.inj (ok_inj h)
        exact hi.of_same ⟨rfl, rfl, rfl, rfl, rfl, rfl⟩ hi.states
      · split at h
        · rename_i q rest hq
          have hi1 : Inv K Q (s.setQueue rest) :=
            ⟨hi.cfg, hi.states, hi.waiting, hi.extra, hi.tde, hi.aq,
              fun x hx => hi.queue x (by rw [hq]; exact List.mem_cons_of_mem _ hx)⟩
          exact dequeue_inv hi1 (hi.queue q (by rw [hq]; simp)) h
        · obtain ⟨rfl, rfl⟩ := Prod.mk.inj (ok_inj h); exact hi
    · obtain ⟨rfl, rfl⟩ := Prod.mk.inj (ok_inj h); exact hi

theorem tickExtraWaitings_res : ∀ (ws : List Waiting) (q : List Queued) (aq : ActionQueue) (done : List Waiting)
    (ews : List Waiting) (q' : List Queued) (aq' : ActionQueue) (r : Option (Nat × (WAct × Option (List Coord)))),
    (∀ w ∈ ws, WOK K Q w) → (∀ w ∈ done, WOK K Q w) → (∀ e ∈ aq, ActOK K Q e.1 e.2.2) →
    tickExtraWaitings ws q aq done = .ok (ews, q', aq', r) →
    (∀ w ∈ ews, WOK K Q w) ∧ (∀ x ∈ q', x ∈ q) ∧ (∀ e ∈ aq', ActOK K Q e.1 e.2.2) ∧
      (∀ i act l, r = some (i, (act, some l)) → ∃ w, ews[i]? = some w ∧ ∀ c ∈ l, ActOK K Q c w.tap) := by
  intro ws
  induction ws with
  | nil =>
    intro q aq done ews q' aq' r _ hd haq h
    simp only [tickExtraWaitings] at h
    obtain ⟨rfl, h2⟩ := Prod.mk.inj (ok_inj h)
    obtain ⟨rfl, h3⟩ := Prod.mk.inj h2
    obtain ⟨rfl, rfl⟩ := Prod.mk.inj h3
    exact ⟨fun w hw => hd w (List.mem_reverse.mp hw), fun _ h => h, haq, fun _ _ _ he => by cases he⟩
  | cons w rest ih =>
    intro q aq done ews q' aq' r hws hd haq h
    simp only [tickExtraWaitings] at h
    split at h
    · cases h
    · rename_i w1 q1 aq1 ht
      have hres := tickWt_res w q aq (hws w (by simp)) haq w1 q1 aq1 none ht
      obtain ⟨r1, r2, r3, r4⟩ := ih q1 aq1 (w1 :: done) ews q' aq' r (fun x hx => hws x (by simp [hx]))
        (fun x hx => by
          rcases List.mem_cons.mp hx with hx | hx
          · rw [hx]; exact hres.wok
          · exact hd x hx) hres.aq h
      exact ⟨r1, fun x hx => hres.queue x (r2 x hx), r3, r4⟩
    · rename_i w1 q1 aq1 r0 ht
      have hres := tickWt_res w q aq (hws w (by simp)) haq w1 q1 aq1 (some r0) ht
      obtain ⟨rfl, h2⟩ := Prod.mk.inj (ok_inj h)
      obtain ⟨rfl, h3⟩ := Prod.mk.inj h2
      obtain ⟨rfl, rfl⟩ := Prod.mk.inj h3
      refine ⟨?_, hres.queue, hres.aq, ?_⟩
      · intro x hx
        rcases List.mem_append.mp hx with hx | hx
        · exact hd x (List.mem_reverse.mp hx)
        · rcases List.mem_cons.mp hx with hx | hx
          · rw [hx]; exact hres.wok
          · exact hws x (by simp [hx])
      · intro i act l he
        simp only [Option.some.injEq, Prod.mk.injEq] at he
        obtain ⟨rfl, rfl⟩ := he
        refine ⟨w1, ?_, hres.chord act l rfl⟩
        rw [List.getElem?_append_right (by simp)]
        simp

theorem processExtraWaitings_inv (s : Layout) (cur : CustomEv) (s' : Layout) (cu : CustomEv) (hi : Inv K Q s)
    (h : processExtraWaitings s cur = .ok (s', cu)) : Inv K Q s' := by
  unfold processExtraWaitings at h
  split at h
  · obtain ⟨rfl, rfl⟩ := Prod.mk.inj (ok_inj h); exact hi
  · split at h
    · cases h
    · rename_i ews q aq r ht
      obtain ⟨r1, r2, r3, r4⟩ := tickExtraWaitings_res s.extraWaiting s.queue s.actionQueue [] ews q aq r hi.extra
        (fun _ hx => by cases hx) hi.aq ht
      have hi1 : Inv K Q { s with extraWaiting := ews, queue := q, actionQueue := aq } :=
        ⟨hi.cfg, hi.states, hi.waiting, r1, hi.tde, r3, fun x hx => hi.queue x (r2 x hx)⟩
      simp only [] at h
      split at h
      · obtain ⟨rfl, rfl⟩ := Prod.mk.inj (ok_inj h); exact hi1
      · rename_i i wa
        refine applyWaitingAction_inv _ (some wa) (some i) cur s' cu hi1 ?_ h
        intro act l hr w' s1 htk
        injection hr with hr
        obtain ⟨w, hw, hg⟩ := r4 i act l (by rw [hr])
        simp only [takeWaiting] at htk
        rw [hw] at htk
        simp only [Option.map_some, Option.some.injEq, Prod.mk.injEq] at htk
        rw [← htk.1]
        exact hg

theorem releaseOneshotKeys_inv : ∀ (keys : List Coord) (s : Layout) (cu0 : CustomEv) (s' : Layout) (cu : CustomEv),
    Inv K Q s → releaseOneshotKeys keys s cu0 = .ok (s', cu) → Inv K Q s' := by
  intro keys
  induction keys with
  | nil => intro s cu0 s' cu hi h; simp only [releaseOneshotKeys] at h; obtain ⟨rfl, rfl⟩ := Prod.mk.inj (ok_inj h); exact hi
  | cons k rest ih =>
    intro s cu0 s' cu hi h
    simp only [releaseOneshotKeys] at h
    split at h
    · cases h
    · rename_i s1 c1 hd
      exact ih _ _ _ _ (dequeue_inv hi (fun c hc => by cases hc) hd) h

theorem tickOneshot_inv (s s' : Layout) (cu : CustomEv) (hi : Inv K Q s) (h : tickOneshot s = .ok (s', cu)) :
    Inv K Q s' := by
  unfold tickOneshot at h
  split at h
  · rename_i o keys _
    have hi1 : Inv K Q { s with oneshot := o } := hi.of_same ⟨rfl, rfl, rfl, rfl, rfl, rfl⟩ hi.states
    exact releaseOneshotKeys_inv keys _ _ _ _ hi1 h
  · obtain ⟨rfl, rfl⟩ := Prod.mk.inj (ok_inj h)
    exact hi.of_same ⟨rfl, rfl, rfl, rfl, rfl, rfl⟩ hi.states

/-- `normalKey` states of `l'` are `normalKey` states of `l` -/
def NKSub (l' l : List St) : Prop := ∀ kc c fl, St.normalKey kc c fl ∈ l' → St.normalKey kc c fl ∈ l

theorem NKSub.refl (l : List St) : NKSub l l := fun _ _ _ h => h
theorem NKSub.trans {a b c : List St} (h1 : NKSub a b) (h2 : NKSub b c) : NKSub a c :=
  fun kc co fl h => h2 kc co fl (h1 kc co fl h)
theorem NKSub.of_sub {l' l : List St} (h : ∀ st ∈ l', st ∈ l) : NKSub l' l := fun _ _ _ hm => h _ hm
theorem NKSub.filter (l : List St) (p : St → Bool) : NKSub (l.filter p) l :=
  NKSub.of_sub fun _ hm => (List.mem_filter.mp hm).1
theorem NKSub.pushCap (l : List St) (st : St) (hst : ∀ kc c fl, st ≠ .normalKey kc c fl) :
    NKSub (pushCap STATES_CAP l st) l := by
  intro kc c fl hm
  rcases mem_pushCap hm with hm | hm
  · exact hm
  · exact absurd hm.symm (hst kc c fl)
theorem StatesOK.nksub {l' l : List St} (h : StatesOK K l) (hs : NKSub l' l) : StatesOK K l' :=
  fun kc c fl hm => h kc c fl (hs kc c fl hm)

theorem pushFake_same (s : Layout) (st : St) (hk : List (KeyCode × Nat)) (k : OshKey)
    (hst : ∀ kc c fl, st ≠ .normalKey kc c fl) :
    Same (({ s.pushState st with histKeys := hk } : Layout).oshPress k).1 s ∧
      NKSub (({ s.pushState st with histKeys := hk } : Layout).oshPress k).1.states s.states := by
  refine ⟨(oshPress_same _ _).trans ⟨rfl, rfl, rfl, rfl, rfl, rfl⟩, ?_⟩
  rw [oshPress_states]
  exact NKSub.pushCap s.states st hst

theorem stepSequence_same (s : Layout) (seq : SeqState) :
    Same (stepSequence s seq).1 s ∧ NKSub (stepSequence s seq).1.states s.states := by
  unfold stepSequence
  split
  · exact ⟨Same.refl s, NKSub.refl _⟩
  · split
    · exact ⟨⟨rfl, rfl, rfl, rfl, rfl, rfl⟩, NKSub.filter _ _⟩
    · simp only []
      split
      · exact ⟨Same.refl s, NKSub.refl _⟩
      · dsimp only
        exact pushFake_same s (.fakeKey _) _ _ (by intro _ _ _ e; cases e)
      · dsimp only
        exact pushFake_same s (.fakeKey _) _ _ (by intro _ _ _ e; cases e)
      · exact ⟨⟨rfl, rfl, rfl, rfl, rfl, rfl⟩, NKSub.filter _ _⟩
      · exact ⟨Same.refl s, NKSub.refl _⟩
      · exact ⟨pushState_same s _, NKSub.pushCap s.states _ (fun _ _ _ e => by cases e)⟩
      · exact ⟨Same.refl s, NKSub.refl _⟩

theorem processSequencesGo_same : ∀ (n : Nat) (s : Layout),
    Same (processSequences.go n s) s ∧ NKSub (processSequences.go n s).states s.states := by
  intro n
  induction n with
  | zero => intro s; exact ⟨Same.refl s, NKSub.refl _⟩
  | succ n ih =>
    intro s
    simp only [processSequences.go]
    split
    · exact ⟨Same.refl s, NKSub.refl _⟩
    · rename_i seq rest _
      have hst := stepSequence_same { s with activeSequences := rest } seq
      generalize stepSequence { s with activeSequences := rest } seq = p at hst
      obtain ⟨s1, seq1⟩ := p
      simp only [] at hst ⊢
      obtain ⟨h1, h2⟩ := hst
      have hs1 : Same s1 s := h1.trans ⟨rfl, rfl, rfl, rfl, rfl, rfl⟩
      split
      · obtain ⟨i1, i2⟩ := ih { s1 with activeSequences := (pushBackWrap ACTIVE_SEQ_CAP s1.activeSequences seq1).1 }
        have hx : Same ({ s1 with activeSequences := (pushBackWrap ACTIVE_SEQ_CAP s1.activeSequences seq1).1 } : Layout) s1 :=
          ⟨rfl, rfl, rfl, rfl, rfl, rfl⟩
        exact ⟨(i1.trans hx).trans hs1, i2.trans h2⟩
      · obtain ⟨i1, i2⟩ := ih s1
        exact ⟨i1.trans hs1, i2.trans h2⟩

theorem processSequences_same (s : Layout) :
    Same (processSequences s) s ∧ NKSub (processSequences s).states s.states := by
  unfold processSequences
  obtain ⟨i1, i2⟩ := processSequencesGo_same s.activeSequences.length s
  simp only []
  split
  · split
    · exact ⟨⟨i1.cfg, i1.waiting, i1.extra, i1.tde, i1.aq, i1.queue⟩, i2⟩
    · exact ⟨i1, i2⟩
  · exact ⟨i1, i2⟩

theorem tickPre_inv (s : Layout) (hi : Inv K Q s) : Inv K Q (tickPre s) := by
  unfold tickPre
  simp only []
  have hi1 : Inv K Q { s with queue := s.queue.map fun (q : Queued) => { q with since := min (q.since + 1) U16_MAX },
                              lptTapHoldTimeout := s.lptTapHoldTimeout - 1 } := by
    refine ⟨hi.cfg, hi.states, hi.waiting, hi.extra, hi.tde, hi.aq, ?_⟩
    intro q hq c hc
    obtain ⟨q0, hq0, rfl⟩ := List.mem_map.mp hq
    exact hi.queue q0 hq0 c hc
  have hi2 : Inv K Q (match s.tapDanceEager with
      | some tde => { s with queue := s.queue.map fun (q : Queued) => { q with since := min (q.since + 1) U16_MAX },
                              lptTapHoldTimeout := s.lptTapHoldTimeout - 1, tapDanceEager := tdeTick tde }
      | none => { s with queue := s.queue.map fun (q : Queued) => { q with since := min (q.since + 1) U16_MAX },
                              lptTapHoldTimeout := s.lptTapHoldTimeout - 1 }) := by
    split
    · rename_i tde htde
      refine ⟨hi1.cfg, hi1.states, hi1.waiting, hi1.extra, ?_, hi1.aq, hi1.queue⟩
      intro t ht c'
      have ht' : tdeTick tde = some t := ht
      unfold tdeTick at ht'
      split at ht'
      · cases ht'
      · injection ht' with ht'; rw [← ht']; exact hi.tde tde htde c'
    · exact hi1
  obtain ⟨p1, p2⟩ := processSequences_same (match s.tapDanceEager with
      | some tde => { s with queue := s.queue.map fun (q : Queued) => { q with since := min (q.since + 1) U16_MAX },
                              lptTapHoldTimeout := s.lptTapHoldTimeout - 1, tapDanceEager := tdeTick tde }
      | none => { s with queue := s.queue.map fun (q : Queued) => { q with since := min (q.since + 1) U16_MAX },
                              lptTapHoldTimeout := s.lptTapHoldTimeout - 1 })
  exact (hi2.of_same p1 (hi2.states.nksub p2)).of_same ⟨rfl, rfl, rfl, rfl, rfl, rfl⟩ (hi2.states.nksub p2)

theorem processSequenceCustomGo_nksub (cur : CustomEv) : ∀ l : List St, NKSub (processSequenceCustom.go cur l).1 l := by
  intro l
  induction l with
  | nil => simp only [processSequenceCustom.go]; exact NKSub.refl _
  | cons st rest ih =>
    cases st
    case seqCustomPending id =>
      simp only [processSequenceCustom.go]
      intro kc c fl hm
      rcases List.mem_cons.mp hm with hm | hm
      · cases hm
      · exact List.mem_cons_of_mem _ hm
    case seqCustomActive id =>
      simp only [processSequenceCustom.go]
      intro kc c fl hm
      rcases List.mem_cons.mp hm with hm | hm
      · cases hm
      · exact List.mem_cons_of_mem _ hm
    all_goals
      simp only [processSequenceCustom.go]
      intro kc c fl hm
      rcases List.mem_cons.mp hm with hm | hm
      · rw [hm]; simp
      · exact List.mem_cons_of_mem _ (ih kc c fl hm)

theorem processSequenceCustom_inv (s : Layout) (cur : CustomEv) (hi : Inv K Q s) :
    Inv K Q (processSequenceCustom s cur).1 := by
  unfold processSequenceCustom
  split
  · exact hi
  · simp only []
    have h1 := processSequenceCustomGo_nksub cur (s.states.filter (· != .tombstone))
    generalize processSequenceCustom.go cur (s.states.filter (· != .tombstone)) = p at h1
    obtain ⟨sts, cu⟩ := p
    exact hi.of_same ⟨rfl, rfl, rfl, rfl, rfl, rfl⟩ (hi.states.nksub (h1.trans (NKSub.filter _ _)))

/-- **one `tick` keeps the invariant** -/
theorem tick_inv (s s' : Layout) (cu : CustomEv) (hi : Inv K Q s) (h : tick s = .ok (s', cu)) : Inv K Q s' := by
  unfold tick at h
  split at h
  · rename_i coord delay action rest haq
    simp only [] at h
    split at h
    · cases h
    · rename_i order _
      have hi1 : Inv K Q { s with actionQueue := rest } :=
        ⟨hi.cfg, hi.states, hi.waiting, hi.extra, hi.tde,
          fun e he => hi.aq e (by rw [haq]; exact List.mem_cons_of_mem _ he), hi.queue⟩
      exact doAction_inv hi1 (hi.aq (coord, delay, action) (by rw [haq]; simp)) h
  · split at h
    · cases h
    · rename_i s1 c1 h1
      have i1 := tickOneshot_inv _ _ _ (tickPre_inv s hi) h1
      split at h
      · cases h
      · rename_i s2 c2 h2
        have i2 := tickMain_inv _ _ _ i1 h2
        split at h
        · cases h
        · rename_i s3 c3 h3
          have i3 := processExtraWaitings_inv _ _ _ _ i2 h3
          have := congrArg Prod.fst (ok_inj h)
          simp only [] at this
          rw [← this]
          exact processSequenceCustom_inv s3 c3 i3

/-- **`Layout::event` keeps the invariant** when a pressed coordinate is covered -/
theorem layoutEvent_inv (s s' : Layout) (ev : Ev) (hi : Inv K Q s) (hq : ∀ c, ev = .press c → Q c)
    (h : s.event ev = .ok s') : Inv K Q s' := event_inv hi hq h

/-- the initial layout of a covered configuration satisfies the invariant -/
theorem inv_init (cfg : LCfg) (hc : CfgOK K Q cfg) : Inv K Q { cfg := cfg } :=
  ⟨hc, fun _ _ _ h => (by cases h), fun _ h => (by cases h), fun _ h => (by cases h), fun _ h => (by cases h),
   fun _ h => (by cases h), fun _ h => (by cases h)⟩

end Tick

/-! ### from the syntactic table to the closure -/

mutual
  /-- the fragment on which the coordinate an action sits on is the only one it acts for: no `Repeat`
  (`rpt-any`, re-runs another key's action here), no repeat-buffer action (never in a configuration),
  no chords v1 and no eager tap-dance (both run their members at other coordinates as well) -/
  def plain : Action → Bool
    | .repeat | .bufKeyCodes _ | .chords _ _ _ => false
    | .tapDance acs _ eager => !eager && plainL acs
    | .multipleActions acs => plainL acs
    | .holdTap _ h t ta _ _ => plain h && plain t && plain ta
    | .oneShot a _ _ => plain a
    | .fork l r _ => plain l && plain r
    | .switch cases => plainS cases
    | _ => true
  def plainL : List Action → Bool
    | [] => true
    | a :: r => plain a && plainL r
  def plainS : List (List Nat × Action × Bool) → Bool
    | [] => true
    | (_, a, _) :: r => plain a && plainS r
end

mutual
  /-- no transparent / use-defsrc leaf inside (read together with `plain`: chords are not entered) -/
  def refFree : Action → Bool
    | .trans | .src => false
    | .tapDance acs _ _ => refFreeL acs
    | .multipleActions acs => refFreeL acs
    | .holdTap _ h t ta _ _ => refFree h && refFree t && refFree ta
    | .oneShot a _ _ => refFree a
    | .fork l r _ => refFree l && refFree r
    | .switch cases => refFreeS cases
    | _ => true
  def refFreeL : List Action → Bool
    | [] => true
    | a :: r => refFree a && refFreeL r
  def refFreeS : List (List Nat × Action × Bool) → Bool
    | [] => true
    | (_, a, _) :: r => refFree a && refFreeS r
end

mutual
  /-- **bridge**: on the plain fragment, an action whose `possibleOutputs` are all allowed at `c` is
  inside the closure at `c` (a transparent / use-defsrc leaf needs the cells of `c` covered) -/
  theorem actOK_of_possible (cu : List (List CAct)) (slot : Nat) (K : KSet) (Q : Coord → Prop) (c : Coord) :
      (a : Action) → plain a = true → (refFree a = true ∨ Q c) →
      (∀ kc ∈ possibleOutputs cu slot a, K c kc) → ActOK K Q c a
    | .keyCode kc, _, _, h => by simp only [ActOK]; exact h kc (by simp [possibleOutputs])
    | .multipleKeyCodes kcs, _, _, h => by simp only [ActOK]; exact fun kc hk => h kc (by simpa [possibleOutputs] using hk)
    | .trans, _, hr, _ => by simp only [ActOK]; exact hr.resolve_left (by simp [refFree])
    | .src, _, hr, _ => by simp only [ActOK]; exact hr.resolve_left (by simp [refFree])
    | .repeat, hp, _, _ => by simp [plain] at hp
    | .bufKeyCodes _, hp, _, _ => by simp [plain] at hp
    | .chords _ _ _, hp, _, _ => by simp [plain] at hp
    | .holdTap _ hold tap ta _ _, hp, hr, h => by
      simp only [plain, Bool.and_eq_true] at hp
      simp only [refFree, Bool.and_eq_true] at hr
      simp only [possibleOutputs, List.mem_append] at h
      simp only [ActOK]
      exact ⟨actOK_of_possible cu slot K Q c hold hp.1.1 (hr.imp (·.1.1) id) (fun kc hk => h kc (Or.inl (Or.inr hk))),
             actOK_of_possible cu slot K Q c tap hp.1.2 (hr.imp (·.1.2) id) (fun kc hk => h kc (Or.inl (Or.inl hk))),
             actOK_of_possible cu slot K Q c ta hp.2 (hr.imp (·.2) id) (fun kc hk => h kc (Or.inr hk))⟩
    | .oneShot a _ _, hp, hr, h => by
      simp only [plain] at hp
      simp only [refFree] at hr
      simp only [possibleOutputs] at h
      simp only [ActOK]
      exact actOK_of_possible cu slot K Q c a hp hr h
    | .multipleActions acs, hp, hr, h => by
      simp only [plain] at hp
      simp only [refFree] at hr
      simp only [possibleOutputs] at h
      simp only [ActOK]
      exact actOKL_of_possible cu slot K Q c acs hp hr h
    | .tapDance acs _ eager, hp, hr, h => by
      simp only [plain, Bool.and_eq_true, Bool.not_eq_true'] at hp
      simp only [refFree] at hr
      simp only [possibleOutputs] at h
      obtain ⟨rfl, hp2⟩ := hp
      simp only [ActOK]
      exact actOKL_of_possible cu slot K Q c acs hp2 hr h
    | .fork l r _, hp, hr, h => by
      simp only [plain, Bool.and_eq_true] at hp
      simp only [refFree, Bool.and_eq_true] at hr
      simp only [possibleOutputs, List.mem_append] at h
      simp only [ActOK]
      exact ⟨actOK_of_possible cu slot K Q c l hp.1 (hr.imp (·.1) id) (fun kc hk => h kc (Or.inl hk)),
             actOK_of_possible cu slot K Q c r hp.2 (hr.imp (·.2) id) (fun kc hk => h kc (Or.inr hk))⟩
    | .switch cases, hp, hr, h => by
      simp only [plain] at hp
      simp only [refFree] at hr
      simp only [possibleOutputs] at h
      simp only [ActOK]
      exact actOKS_of_possible cu slot K Q c cases hp hr h
    | .noOp, _, _, _ | .layer _, _, _, _ | .defaultLayer _, _, _, _ | .sequence _, _, _, _
    | .repeatableSequence _, _, _, _ | .cancelSequences, _, _, _ | .releaseState _, _, _, _
    | .custom _, _, _, _ | .oneShotIgnoreEventsTicks _, _, _, _ => by simp only [ActOK]
  theorem actOKL_of_possible (cu : List (List CAct)) (slot : Nat) (K : KSet) (Q : Coord → Prop) (c : Coord) :
      (acs : List Action) → plainL acs = true → (refFreeL acs = true ∨ Q c) →
      (∀ kc ∈ possibleOutputsL cu slot acs, K c kc) → ActOKL K Q c acs
    | [], _, _, _ => by simp only [ActOKL]
    | a :: rest, hp, hr, h => by
      simp only [plainL, Bool.and_eq_true] at hp
      simp only [refFreeL, Bool.and_eq_true] at hr
      simp only [possibleOutputsL, List.mem_append] at h
      simp only [ActOKL]
      exact ⟨actOK_of_possible cu slot K Q c a hp.1 (hr.imp (·.1) id) (fun kc hk => h kc (Or.inl hk)),
             actOKL_of_possible cu slot K Q c rest hp.2 (hr.imp (·.2) id) (fun kc hk => h kc (Or.inr hk))⟩
  theorem actOKS_of_possible (cu : List (List CAct)) (slot : Nat) (K : KSet) (Q : Coord → Prop) (c : Coord) :
      (cs : List (List Nat × Action × Bool)) → plainS cs = true → (refFreeS cs = true ∨ Q c) →
      (∀ kc ∈ possibleOutputsS cu slot cs, K c kc) → ActOKS K Q c cs
    | [], _, _, _ => by simp only [ActOKS]
    | (_, a, _) :: rest, hp, hr, h => by
      simp only [plainS, Bool.and_eq_true] at hp
      simp only [refFreeS, Bool.and_eq_true] at hr
      simp only [possibleOutputsS, List.mem_append] at h
      simp only [ActOKS]
      exact ⟨actOK_of_possible cu slot K Q c a hp.1 (hr.imp (·.1) id) (fun kc hk => h kc (Or.inl hk)),
             actOKS_of_possible cu slot K Q c rest hp.2 (hr.imp (·.2) id) (fun kc hk => h kc (Or.inr hk))⟩
end

/-! ### the cover used for "what this press itself puts down" -/

/-- allowed: a key code of `P` at coordinate `c`; or what some coordinate already holds in `s` -/
def localK (s : Layout) (c : Coord) (P : KeyCode → Prop) : KSet :=
  fun c' kc => (c' = c ∧ P kc) ∨ ∃ fl, St.normalKey kc c' fl ∈ s.states

/-- nothing is stored for later in `s`: no waiting state, no eager tap-dance, empty action queue -/
structure Quiet (s : Layout) : Prop where
  waiting : s.waiting = none
  extra : s.extraWaiting = []
  tde : s.tapDanceEager = none
  aq : s.actionQueue = []

theorem inv_local_of_quiet (s : Layout) (c : Coord) (P : KeyCode → Prop) (Q : Coord → Prop)
    (hcfg : CfgOK (localK s c P) Q s.cfg) (hq : Quiet s) (hqu : ∀ q ∈ s.queue, ∀ c', q.ev = .press c' → Q c') :
    Inv (localK s c P) Q s where
  cfg := hcfg
  states := fun kc c' fl h => Or.inr ⟨fl, h⟩
  waiting := by rw [hq.waiting]; intro _ h; cases h
  extra := by rw [hq.extra]; intro _ h; cases h
  tde := by rw [hq.tde]; intro _ h; cases h
  aq := by rw [hq.aq]; intro _ h; cases h
  queue := hqu

/-- key codes the configuration cells of coordinate `c` can put down: `possibleOutputs` of every
layer's action at `c` and of the defsrc key of its column -/
def cellOutputs (cu : List (List CAct)) (cfg : LCfg) (c : Coord) (kc : KeyCode) : Prop :=
  (∃ l a, cfg.layerAction l c = .ok a ∧ kc ∈ possibleOutputs cu c.2 a) ∨ kc ∈ possibleOutputs cu c.2 (cfg.srcKey c.2)

/-- the cells of `c` are on the plain fragment -/
def CellsPlain (cfg : LCfg) (c : Coord) : Prop :=
  (∀ l a, cfg.layerAction l c = .ok a → plain a = true) ∧ plain (cfg.srcKey c.2) = true

theorem cfgOK_local (cu : List (List CAct)) (s : Layout) (c : Coord) (P : KeyCode → Prop)
    (hpl : CellsPlain s.cfg c) (hP : ∀ kc, cellOutputs cu s.cfg c kc → P kc) :
    CfgOK (localK s c P) (· = c) s.cfg := by
  intro c' hc'
  subst hc'
  refine ⟨?_, ?_⟩
  · intro l a hla
    exact actOK_of_possible cu c'.2 _ _ c' a (hpl.1 l a hla) (Or.inr rfl)
      (fun kc hk => Or.inl ⟨rfl, hP kc (Or.inl ⟨l, a, hla, hk⟩)⟩)
  · exact actOK_of_possible cu c'.2 _ _ c' _ hpl.2 (Or.inr rfl) (fun kc hk => Or.inl ⟨rfl, hP kc (Or.inr hk)⟩)

/-! ### histories -/

/-- `s'` is reached from `s` by ticks and by events whose pressed coordinates satisfy `Q` -/
inductive Steps (Q : Coord → Prop) : Layout → Layout → Prop
  | refl (s : Layout) : Steps Q s s
  | tick {s s1 s2 : Layout} {cu : CustomEv} : Steps Q s s1 → tick s1 = .ok (s2, cu) → Steps Q s s2
  | event {s s1 s2 : Layout} {ev : Ev} : Steps Q s s1 → (∀ c, ev = .press c → Q c) → s1.event ev = .ok s2 →
      Steps Q s s2

theorem steps_inv {K : KSet} {Q : Coord → Prop} {s s' : Layout} (hi : Inv K Q s) (h : Steps Q s s') : Inv K Q s' := by
  induction h with
  | refl => exact hi
  | tick _ ht ih => exact tick_inv _ _ _ ih ht
  | event _ hq he ih => exact layoutEvent_inv _ _ _ ih hq he

/-- the cover "row of the key-output table": at a real-key coordinate `(0, k)`, `k` itself (the
defsrc key, which `handle_repeat` falls back to) or an entry of `keyOutputs` of `k` on some layer -/
def rowK (cu : List (List CAct)) (cfg : LCfg) : KSet :=
  fun c kc => c.1 = 0 → kc = c.2 ∨ ∃ l a, cfg.layerAction l c = .ok a ∧ kc ∈ keyOutputs cu c.2 a

/-- the defsrc row holds plain keys named after their position (what kanata builds) -/
def SrcPlain (cfg : LCfg) : Prop := ∀ y, cfg.srcKey y = .keyCode y ∨ cfg.srcKey y = .noOp

/-- every configured cell is on the plain fragment -/
def AllPlain (cfg : LCfg) : Prop := ∀ l c a, cfg.layerAction l c = .ok a → plain a = true

/-- decidable sufficient condition for `AllPlain` -/
theorem allPlain_of_all (cfg : LCfg) (h : (cfg.layers.all fun tbl => tbl.all fun e => plain e.2) = true) :
    AllPlain cfg := by
  intro l c a hla
  unfold LCfg.layerAction at hla
  split at hla
  · cases hla
  · rename_i tbl htbl
    split at hla
    · cases hla
    · split at hla
      · cases hla
      · split at hla
        · rename_i e a' hf
          injection hla with hla; subst hla
          have h1 := List.all_eq_true.mp h tbl (List.mem_of_getElem? htbl)
          exact List.all_eq_true.mp h1 _ (List.mem_of_find?_eq_some hf)
        · injection hla with hla; subst hla; rfl

def srcEntryPlain (e : Nat × Action) : Bool :=
  match e.2 with
  | .keyCode kc => kc == e.1
  | .noOp => true
  | _ => false

/-- decidable sufficient condition for `SrcPlain` -/
theorem srcPlain_of_all (cfg : LCfg) (h : cfg.srcKeys.all srcEntryPlain = true) : SrcPlain cfg := by
  intro y
  unfold LCfg.srcKey
  split
  · rename_i y' a hf
    have hm := List.mem_of_find?_eq_some hf
    have hy : y' = y := by simpa using List.find?_some hf
    have := List.all_eq_true.mp h _ hm
    cases a with
    | keyCode kc =>
      simp only [srcEntryPlain, beq_iff_eq] at this
      subst hy
      exact Or.inl (by rw [this])
    | noOp => exact Or.inr rfl
    | _ => simp [srcEntryPlain] at this
  · exact Or.inr rfl

theorem cellsPlain_of_allPlain {cfg : LCfg} (h1 : AllPlain cfg) (h2 : SrcPlain cfg) (c : Coord) : CellsPlain cfg c := by
  refine ⟨fun l a h => h1 l c a h, ?_⟩
  rcases h2 c.2 with h | h <;> rw [h] <;> rfl

/-- `CfgOK` from the listed cells: positions not listed hold `Trans` (layers) / `NoOp` (defsrc) -/
theorem cfgOK_of_cells (K : KSet) (Q : Coord → Prop) (cfg : LCfg)
    (hl : ∀ tbl ∈ cfg.layers, ∀ e ∈ tbl, Q e.1 → ActOK K Q e.1 e.2)
    (hs : ∀ e ∈ cfg.srcKeys, ∀ c, Q c → c.2 = e.1 → ActOK K Q c e.2) : CfgOK K Q cfg := by
  intro c hq
  refine ⟨?_, ?_⟩
  · intro l a hla
    unfold LCfg.layerAction at hla
    split at hla
    · cases hla
    · rename_i tbl htbl
      split at hla
      · cases hla
      · split at hla
        · cases hla
        · split at hla
          · rename_i e a' hf
            injection hla with hla; subst hla
            have hm := List.mem_of_find?_eq_some hf
            have he : e = c := by simpa using List.find?_some hf
            have := hl tbl (List.mem_of_getElem? htbl) _ hm (by rw [he]; exact hq)
            rw [he] at this; exact this
          · injection hla with hla; subst hla
            simp only [ActOK]; exact hq
  · unfold LCfg.srcKey
    split
    · rename_i y a hf
      have hm := List.mem_of_find?_eq_some hf
      have hy : y = c.2 := by simpa using List.find?_some hf
      exact hs _ hm c hq hy.symm
    · simp only [ActOK]

end KVerif.C14L
