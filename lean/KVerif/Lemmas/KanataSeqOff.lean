/-
The sequence hooks of the kanata-level model (Model/KanataSeq.lean, `-- [seq]` in Model/Kanata.lean)
do nothing while sequence mode is off and `sequence-always-on` is not configured: the press loop is
the plain press loop `pressNew`, the all-released hook and `tick_sequence_state` return the state
unchanged.  With these the theorems about configurations without sequences go through as before.
-/
import KVerif.Model.Kanata
namespace KVerif.K
open KVerif.L

theorem emit_seq (k : KState) (e : Os) : (k.emit e).seq = k.seq := rfl

theorem pressKey_seq (k : KState) (x : KeyCode) : (pressKey k x).seq = k.seq := by
  unfold pressKey
  split
  · rfl
  · split
    · rfl
    · split <;> rfl

theorem releaseKey_seq (k : KState) (x : KeyCode) : (releaseKey k x).seq = k.seq := by
  unfold releaseKey
  split
  · rfl
  · split
    · rfl
    · split <;> rfl

theorem pressKey_layout (k : KState) (x : KeyCode) : (pressKey k x).layout = k.layout := by
  unfold pressKey
  split
  · rfl
  · split
    · rfl
    · split <;> rfl

theorem releaseKey_layout (k : KState) (x : KeyCode) : (releaseKey k x).layout = k.layout := by
  unfold releaseKey
  split
  · rfl
  · split
    · rfl
    · split <;> rfl

theorem emitSeq_seq (k : KState) (o : List Seq.Out) : (emitSeq k o).seq = k.seq := by
  induction o generalizing k with
  | nil => rfl
  | cons e r ih =>
    cases e with
    | down c => simp only [emitSeq, ih, pressKey_seq]
    | up c => simp only [emitSeq, ih, releaseKey_seq]

theorem emitSeq_layout (k : KState) (o : List Seq.Out) : (emitSeq k o).layout = k.layout := by
  induction o generalizing k with
  | nil => rfl
  | cons e r ih =>
    cases e with
    | down c => simp only [emitSeq, ih, pressKey_layout]
    | up c => simp only [emitSeq, ih, releaseKey_layout]

theorem releaseOld_seq (k : KState) (cur : List KeyCode) (rev : Bool) : (releaseOld k cur rev).seq = k.seq := by
  unfold releaseOld
  have : ∀ (olds : List KeyCode) (k0 : KState),
      (olds.foldl (fun k x => if cur.contains x then k else releaseKey k x) k0).seq = k0.seq := by
    intro olds
    induction olds with
    | nil => intro k0; rfl
    | cons x xs ih =>
      intro k0
      simp only [List.foldl_cons]
      split
      · exact ih k0
      · rw [ih, releaseKey_seq]
  exact this _ k

theorem pressNew_seq (k : KState) (cur : List KeyCode) : (pressNew k cur).seq = k.seq := by
  unfold pressNew
  induction cur generalizing k with
  | nil => rfl
  | cons x xs ih =>
    simp only [List.foldl_cons]
    split
    · exact ih k
    · rw [ih, pressKey_seq]

theorem off_alwaysOnStep (s : SeqK) (h : s.off = true) : s.alwaysOnStep = s := by
  unfold SeqK.off at h
  unfold SeqK.alwaysOnStep
  cases ha : s.alwaysOn <;> simp_all

theorem off_inactive (s : SeqK) (h : s.off = true) : s.st.active = false := by
  unfold SeqK.off at h
  cases ha : s.st.active <;> simp_all

/-- with sequence mode off and no always-on, the press loop of the composed model is the plain press
loop -/
theorem pressLoop_off (cur xs : List KeyCode) (k : KState) (h : k.seq.off = true) :
    pressLoop cur xs k = .ok (pressNew k xs) := by
  induction xs generalizing k with
  | nil => rfl
  | cons x xs ih =>
    unfold pressLoop pressNew
    simp only [List.foldl_cons]
    split
    · have := ih k h
      unfold pressNew at this
      exact this
    · simp only [off_alwaysOnStep k.seq h, off_inactive k.seq h, Bool.false_eq_true, if_false]
      have := ih (pressKey { k with prevKeys := k.prevKeys ++ [x], lastPressedKey := x } x)
        (by rw [pressKey_seq]; exact h)
      unfold pressNew at this
      exact this

/-- no key is new: the press loop does nothing, whatever the sequence state -/
theorem pressLoop_synced (cur xs : List KeyCode) (k : KState) (h : ∀ x ∈ xs, x ∈ k.prevKeys) :
    pressLoop cur xs k = .ok k := by
  induction xs with
  | nil => rfl
  | cons x xs ih =>
    have hc : k.prevKeys.contains x = true := by simpa using h x (by simp)
    unfold pressLoop
    simp only [hc, if_true]
    exact ih (fun y hy => h y (by simp [hy]))

/-- nothing was down that is not wanted: the all-released hook does not run, whatever the sequence
state (`cur_keys.is_empty() && !prev_keys.is_empty()` is false) -/
theorem seqReleasedHook_synced (k : KState) (cur : List KeyCode) (h : ∀ x ∈ k.prevKeys, x ∈ cur) :
    seqReleasedHook k cur = .ok k := by
  unfold seqReleasedHook
  cases cur with
  | cons c cs => simp
  | nil =>
    have : k.prevKeys = [] := by
      cases hp : k.prevKeys with
      | nil => rfl
      | cons y ys => exact absurd (h y (by simp [hp])) (by simp)
    simp [this]

/-- the all-released hook does nothing while sequence mode is off -/
theorem seqReleasedHook_inactive (k : KState) (cur : List KeyCode) (h : k.seq.st.active = false) :
    seqReleasedHook k cur = .ok k := by
  unfold seqReleasedHook seqAllReleased
  simp only [h, Bool.not_false, if_true]
  split <;> rfl

/-- `tick_sequence_state` does nothing while sequence mode is off -/
theorem tickSequenceState_inactive (k : KState) (h : k.seq.st.active = false) :
    tickSequenceState k = .ok k := by
  unfold tickSequenceState seqTick Seq.tickSeq
  simp only [h, Bool.not_false, if_true]
  rfl

/-- the key diff of `handle_keystate_changes` with sequence mode off -/
theorem seqDiff_off (k : KState) (cur : List KeyCode) (rev : Bool) (h : k.seq.off = true) :
    (match seqReleasedHook (releaseOld k cur rev) cur with
     | .error c => (Except.error c : Except Crash KState)
     | .ok k1 => pressLoop cur cur k1) = .ok (pressNew (releaseOld k cur rev) cur) := by
  have h1 : (releaseOld k cur rev).seq.off = true := by rw [releaseOld_seq]; exact h
  rw [seqReleasedHook_inactive _ _ (off_inactive _ h1)]
  exact pressLoop_off cur cur _ h1

end KVerif.K
