/-
Lemmas about the text buffer (how the event sequences zippychord emits act on it) and about the
sorted key set (`sortedInsert`).
-/
import KVerif.Model.ZippySpec
namespace KVerif.Zippy
open KVerif.TextBuf

/-! ### Buffer basics -/

theorem run_nil (b : Buf) : b.run [] = b := rfl

theorem run_cons (b : Buf) (e : OsEv) (es : List OsEv) : b.run (e :: es) = (b.step e).run es := rfl

theorem run_append (b : Buf) (e1 e2 : List OsEv) : b.run (e1 ++ e2) = (b.run e1).run e2 := by
  simp [Buf.run, List.foldl_append]

/-- A key that writes or deletes a character: not one of the tracked or untracked modifiers. -/
def CharKey (k : Nat) : Prop :=
  k ≠ KEY_LEFTSHIFT ∧ k ≠ KEY_RIGHTSHIFT ∧ k ≠ KEY_RIGHTALT ∧ otherMods.contains k = false

theorem step_down_char (b : Buf) (k : Nat) (h : CharKey k) :
    b.step (.down k) = { b with rtext := stroke b.rtext k (b.lsft || b.rsft) b.ralt } := by
  obtain ⟨h1, h2, h3, h4⟩ := h
  simp only [Buf.step, h1, h2, h3, h4, if_false]
  simp

theorem step_up_char (b : Buf) (k : Nat) (h : CharKey k) : b.step (.up k) = b := by
  obtain ⟨h1, h2, h3, _⟩ := h
  simp [Buf.step, h1, h2, h3]

theorem charKey_backspace : CharKey KEY_BACKSPACE := by unfold CharKey; decide
theorem charKey_space : CharKey KEY_SPACE := by unfold CharKey; decide

/-- Both forms of `type_osc` are one keystroke. -/
theorem run_typeOsc (b : Buf) (ik : List Nat) (k : Nat) (h : CharKey k) :
    b.run (typeOsc ik k) = { b with rtext := stroke b.rtext k (b.lsft || b.rsft) b.ralt } := by
  unfold typeOsc
  by_cases hc : ik.contains k = true
  · rw [if_pos hc]
    simp only [run_cons, run_nil, step_up_char b k h, step_down_char b k h]
  · rw [if_neg hc]
    simp only [run_cons, run_nil, step_down_char b k h]
    rw [step_up_char _ k h]

theorem run_bspc (b : Buf) : b.run bspc = { b with rtext := b.rtext.tail } := by
  simp only [bspc, run_cons, run_nil, step_down_char b _ charKey_backspace]
  rw [step_up_char _ _ charKey_backspace]
  simp [stroke]

theorem run_bspcs (b : Buf) (n : Nat) : b.run (bspcs n) = { b with rtext := b.rtext.drop n } := by
  induction n generalizing b with
  | zero => simp [bspcs, run_nil]
  | succ n ih =>
    simp only [bspcs, run_append, run_bspc, ih]
    cases b with
    | mk rt l r a =>
      simp only [Buf.mk.injEq, and_true]
      cases rt <;> simp

theorem run_space (b : Buf) :
    b.run [.down KEY_SPACE, .up KEY_SPACE] = { b with rtext := stroke b.rtext KEY_SPACE false false } := by
  simp only [run_cons, run_nil, step_down_char b _ charKey_space]
  rw [step_up_char _ _ charKey_space]
  simp [stroke, mkCh]

/-! ### Sorted key sets -/

theorem mem_sortedInsert (k x : Nat) (l : List Nat) : x ∈ sortedInsert k l ↔ x = k ∨ x ∈ l := by
  induction l with
  | nil => simp [sortedInsert]
  | cons a r ih =>
    unfold sortedInsert
    by_cases h1 : k < a
    · rw [if_pos h1]; simp
    · rw [if_neg h1]
      by_cases h2 : k = a
      · subst h2; rw [if_pos rfl]; simp
      · rw [if_neg h2]
        simp only [List.mem_cons, ih]
        constructor
        · rintro (h | h | h)
          · exact Or.inr (Or.inl h)
          · exact Or.inl h
          · exact Or.inr (Or.inr h)
        · rintro (h | h | h)
          · exact Or.inr (Or.inl h)
          · exact Or.inl h
          · exact Or.inr (Or.inr h)

/-- strictly increasing -/
def StrictSorted (l : List Nat) : Prop := l.Pairwise (· < ·)

theorem strictSorted_sortedInsert (k : Nat) (l : List Nat) (h : StrictSorted l) :
    StrictSorted (sortedInsert k l) := by
  induction l with
  | nil => simp [sortedInsert, StrictSorted]
  | cons a r ih =>
    unfold sortedInsert
    have hr : StrictSorted r := (List.pairwise_cons.mp h).2
    have ha : ∀ x ∈ r, a < x := (List.pairwise_cons.mp h).1
    by_cases h1 : k < a
    · rw [if_pos h1]
      refine List.pairwise_cons.mpr ⟨?_, h⟩
      intro x hx
      rcases List.mem_cons.mp hx with hx | hx
      · subst hx; exact h1
      · exact Nat.lt_trans h1 (ha x hx)
    · rw [if_neg h1]
      by_cases h2 : k = a
      · rw [if_pos h2]; exact h
      · rw [if_neg h2]
        refine List.pairwise_cons.mpr ⟨?_, ih hr⟩
        intro x hx
        rcases (mem_sortedInsert k x r).mp hx with hx | hx
        · subst hx; omega
        · exact ha x hx

theorem strictSorted_chordKey_aux (cs acc : List Nat) (h : StrictSorted acc) :
    StrictSorted (cs.foldl (fun acc k => sortedInsert k acc) acc) := by
  induction cs generalizing acc with
  | nil => exact h
  | cons a r ih => exact ih _ (strictSorted_sortedInsert a acc h)

theorem strictSorted_chordKey (cs : List Nat) : StrictSorted (chordKey cs) :=
  strictSorted_chordKey_aux cs [] List.Pairwise.nil

theorem mem_chordKey_aux (cs acc : List Nat) (x : Nat) :
    x ∈ cs.foldl (fun acc k => sortedInsert k acc) acc ↔ x ∈ cs ∨ x ∈ acc := by
  induction cs generalizing acc with
  | nil => simp
  | cons a r ih =>
    simp only [List.foldl_cons, ih, mem_sortedInsert, List.mem_cons]
    constructor
    · rintro (h | h | h)
      · exact Or.inl (Or.inr h)
      · exact Or.inl (Or.inl h)
      · exact Or.inr h
    · rintro ((h | h) | h)
      · exact Or.inr (Or.inl h)
      · exact Or.inl h
      · exact Or.inr (Or.inr h)

theorem mem_chordKey (cs : List Nat) (x : Nat) : x ∈ chordKey cs ↔ x ∈ cs := by
  simp [chordKey, mem_chordKey_aux]

/-- Two strictly increasing lists with the same members are equal. -/
theorem strictSorted_ext (l1 l2 : List Nat) (h1 : StrictSorted l1) (h2 : StrictSorted l2)
    (hm : ∀ x, x ∈ l1 ↔ x ∈ l2) : l1 = l2 := by
  induction l1 generalizing l2 with
  | nil =>
    cases l2 with
    | nil => rfl
    | cons b s => exact absurd ((hm b).mpr (List.mem_cons_self ..)) (by simp)
  | cons a r ih =>
    cases l2 with
    | nil => exact absurd ((hm a).mp (List.mem_cons_self ..)) (by simp)
    | cons b s =>
      have ha : ∀ x ∈ r, a < x := (List.pairwise_cons.mp h1).1
      have hb : ∀ x ∈ s, b < x := (List.pairwise_cons.mp h2).1
      have hab : a = b := by
        have h3 := (hm a).mp (List.mem_cons_self ..)
        have h4 := (hm b).mpr (List.mem_cons_self ..)
        rcases List.mem_cons.mp h3 with h3 | h3
        · exact h3
        · rcases List.mem_cons.mp h4 with h4 | h4
          · exact h4.symm
          · have := hb a h3; have := ha b h4; omega
      subst hab
      congr 1
      apply ih s (List.pairwise_cons.mp h1).2 (List.pairwise_cons.mp h2).2
      intro x
      constructor
      · intro hx
        rcases List.mem_cons.mp ((hm x).mp (List.mem_cons_of_mem _ hx)) with h | h
        · have := ha x hx; omega
        · exact h
      · intro hx
        rcases List.mem_cons.mp ((hm x).mpr (List.mem_cons_of_mem _ hx)) with h | h
        · have := hb x hx; omega
        · exact h

theorem chordKey_append_single (cs : List Nat) (k : Nat) :
    chordKey (cs ++ [k]) = sortedInsert k (chordKey cs) := by
  simp [chordKey, List.foldl_append]

end KVerif.Zippy
