/-
C08 helper lemmas about the macro parser model (Model/MacroExpand.lean) and the spelling
(Spec/Macro.lean):
  * `parseAll_spells`   the remainder-passing, fuelled parser model on `flattenAll body` returns
                        exactly `spellAll body` (and never runs out of the fuel `itemsFuel` grants);
  * `parseAll_sound`    conversely, whatever the parser model accepts is `flattenAll` of a body;
  * `spell_steps`       a spelling consists of presses, releases, delays and custom items only;
  * `closedB_spellAll`  every press is followed by a release of the same key;
  * `walk_spellAll`     per key, presses and releases form a well-nested (Dyck) word.
-/
import KVerif.Spec.Macro
namespace KVerif.Macro
open KVerif.L

/-! ### the parser model equals the spelling -/

theorem itemsFuel_pos (l : List Item) : 1 ≤ itemsFuel l := by
  cases l <;> simp [itemsFuel]

theorem itemFuel_pos (i : Item) : 1 ≤ itemFuel i := by
  cases i <;> simp [itemFuel]

theorem flattenAll_cons (b : Body) (rest : List Body) :
    flattenAll (b :: rest) = flatten b ++ flattenAll rest := by simp [flattenAll]

theorem flatten_ne_nil : ∀ b : Body, flatten b ≠ []
  | .delay _ | .key _ | .chord _ | .custom _ | .actList _ _ | .group _ => by simp [flatten]
  | .held false _ _ _ => by simp [flatten]
  | .held true _ _ _ => by simp [flatten]

theorem flattenAll_isEmpty (bs : List Body) (h : bs ≠ []) : (flattenAll bs).isEmpty = false := by
  cases bs with
  | nil => exact absurd rfl h
  | cons b rest =>
    rw [flattenAll_cons]
    have := flatten_ne_nil b
    cases hb : flatten b with
    | nil => exact absurd hb this
    | cons x xs => rfl

theorem spellAll_cons (b : Body) (rest : List Body) :
    spellAll (b :: rest) = spell b ++ spellAll rest := by simp [spellAll]

theorem allOk_cons (b : Body) (rest : List Body) :
    allOk (b :: rest) = (b.ok && allOk rest) := by simp [allOk]

/-- with the fuel `itemsFuel` grants, the parser model returns the spelling -/
theorem parseAll_spells : ∀ (fuel : Nat) (bs : List Body), allOk bs = true →
    itemsFuel (flattenAll bs) ≤ fuel → parseAll fuel (flattenAll bs) = .ok (spellAll bs) := by
  intro fuel
  induction fuel using Nat.strongRecOn with
  | _ fuel ih =>
    intro bs hok hf
    cases bs with
    | nil =>
      obtain ⟨f, rfl⟩ : ∃ f, fuel = f + 1 := ⟨fuel - 1, by have := itemsFuel_pos (flattenAll []); omega⟩
      simp [flattenAll, parseAll, spellAll]
    | cons b rest =>
      rw [allOk_cons, Bool.and_eq_true] at hok
      obtain ⟨hb, hrest⟩ := hok
      rw [flattenAll_cons] at hf ⊢
      rw [spellAll_cons]
      have hpos := itemsFuel_pos (flattenAll rest)
      cases b with
      | delay n =>
        simp only [flatten, List.cons_append, List.nil_append, itemsFuel, itemFuel] at hf ⊢
        obtain ⟨f, rfl⟩ : ∃ f, fuel = f + 2 := ⟨fuel - 2, by omega⟩
        have hn : 0 < n ∧ n ≤ U16_MAX := by simpa [Body.ok] using hb
        simp only [parseAll, parseItem, hn, and_self, if_true, spell]
        rw [ih (f + 1) (by omega) rest hrest (by omega)]
      | key kc =>
        simp only [flatten, List.cons_append, List.nil_append, itemsFuel, itemFuel] at hf ⊢
        obtain ⟨f, rfl⟩ : ∃ f, fuel = f + 2 := ⟨fuel - 2, by omega⟩
        simp only [parseAll, parseItem, actionEvents, spell]
        rw [ih (f + 1) (by omega) rest hrest (by omega)]
      | chord kcs =>
        simp only [flatten, List.cons_append, List.nil_append, itemsFuel, itemFuel] at hf ⊢
        obtain ⟨f, rfl⟩ : ∃ f, fuel = f + 2 := ⟨fuel - 2, by omega⟩
        simp only [parseAll, parseItem, actionEvents, spell]
        rw [ih (f + 1) (by omega) rest hrest (by omega)]
      | custom id =>
        simp only [flatten, List.cons_append, List.nil_append, itemsFuel, itemFuel] at hf ⊢
        obtain ⟨f, rfl⟩ : ∃ f, fuel = f + 2 := ⟨fuel - 2, by omega⟩
        simp only [parseAll, parseItem, actionEvents, spell]
        rw [ih (f + 1) (by omega) rest hrest (by omega)]
      | actList a raw =>
        simp only [flatten, List.cons_append, List.nil_append, itemsFuel, itemFuel] at hf ⊢
        have hr := itemsFuel_pos raw
        obtain ⟨f, rfl⟩ : ∃ f, fuel = f + 2 := ⟨fuel - 2, by omega⟩
        have ha : a ≠ .other := by simpa [Body.ok] using hb
        have hrec := ih (f + 1) (by omega) rest hrest (by omega)
        cases a <;> simp only [parseAll, parseItem, spell, actionEvents, PA.spell, Option.getD_some, hrec] <;>
          first | rfl | exact absurd rfl ha
      | group items =>
        simp only [flatten, List.cons_append, List.nil_append, itemsFuel, itemFuel] at hf ⊢
        have hi := itemsFuel_pos (flattenAll items)
        obtain ⟨f, rfl⟩ : ∃ f, fuel = f + 2 := ⟨fuel - 2, by omega⟩
        have hio : allOk items = true := by simpa [Body.ok] using hb
        simp only [parseAll, parseItem, spell]
        rw [ih f (by omega) items hio (by omega)]
        simp only []
        rw [ih (f + 1) (by omega) rest hrest (by omega)]
      | held viaVar act mods items =>
        have hb' : mods.isEmpty = false ∧ allOk items = true := by simpa [Body.ok] using hb
        have hi := itemsFuel_pos (flattenAll items)
        cases viaVar with
        | false =>
          simp only [flatten, List.cons_append, List.nil_append, itemsFuel, itemFuel] at hf ⊢
          obtain ⟨f, rfl⟩ : ∃ f, fuel = f + 2 := ⟨fuel - 2, by omega⟩
          simp only [parseAll, parseItem, hb'.1, Bool.false_eq_true, if_false, spell]
          rw [ih f (by omega) items hb'.2 (by omega)]
          simp only []
          rw [ih (f + 1) (by omega) rest hrest (by omega)]
        | true =>
          simp only [flatten, List.cons_append, List.nil_append, itemsFuel, itemFuel] at hf ⊢
          obtain ⟨f, rfl⟩ : ∃ f, fuel = f + 2 := ⟨fuel - 2, by omega⟩
          simp only [parseAll, parseItem, hb'.1, Bool.false_eq_true, if_false, spell]
          rw [ih f (by omega) items hb'.2 (by omega)]
          simp only []
          rw [ih (f + 1) (by omega) rest hrest (by omega)]

/-- whatever the parser model accepts, with any fuel, is the flattening of a well-formed body, and
the result is its spelling -/
theorem parseAll_sound : ∀ (fuel : Nat) (items : List Item) (evs : List SeqEv),
    parseAll fuel items = .ok evs →
    ∃ bs, items = flattenAll bs ∧ allOk bs = true ∧ evs = spellAll bs := by
  intro fuel
  induction fuel using Nat.strongRecOn with
  | _ fuel ih =>
    intro items evs h
    cases fuel with
    | zero => simp [parseAll] at h
    | succ f =>
      cases items with
      | nil =>
        simp only [parseAll, Except.ok.injEq] at h
        exact ⟨[], by simp [flattenAll], by simp [allOk], by simp [spellAll, ← h]⟩
      | cons hd tl =>
        simp only [parseAll] at h
        split at h
        · cases h
        · rename_i e1 rem hpi
          split at h
          · cases h
          · rename_i restEvs hrest
            simp only [Except.ok.injEq] at h
            subst h
            obtain ⟨bsr, hr1, hr2, hr3⟩ := ih f (by omega) rem restEvs hrest
            -- one item
            suffices hone : ∃ b : Body, hd :: tl = flatten b ++ rem ∧ b.ok = true ∧ e1 = spell b by
              obtain ⟨b, h1, h2, h3⟩ := hone
              refine ⟨b :: bsr, ?_, ?_, ?_⟩
              · rw [flattenAll_cons, ← hr1, h1]
              · rw [allOk_cons, h2, hr2]; rfl
              · rw [spellAll_cons, ← hr3, h3]
            cases f with
            | zero => simp [parseItem] at hpi
            | succ g =>
              cases hd with
              | num n =>
                simp only [parseItem] at hpi
                split at hpi
                · rename_i hn
                  simp only [Except.ok.injEq, Prod.mk.injEq] at hpi
                  obtain ⟨rfl, rfl⟩ := hpi
                  exact ⟨.delay n, by simp [flatten], by simpa [Body.ok] using hn, by simp [spell]⟩
                · cases hpi
              | act a =>
                simp only [parseItem] at hpi
                cases a <;> simp only [actionEvents, Except.ok.injEq, Prod.mk.injEq, reduceCtorEq] at hpi
                case key kc =>
                  obtain ⟨rfl, rfl⟩ := hpi
                  exact ⟨.key kc, by simp [flatten], by simp [Body.ok], by simp [spell]⟩
                case chord kcs =>
                  obtain ⟨rfl, rfl⟩ := hpi
                  exact ⟨.chord kcs, by simp [flatten], by simp [Body.ok], by simp [spell]⟩
                case custom id =>
                  obtain ⟨rfl, rfl⟩ := hpi
                  exact ⟨.custom id, by simp [flatten], by simp [Body.ok], by simp [spell]⟩
              | list a sub =>
                cases a with
                | some a =>
                  simp only [parseItem] at hpi
                  cases a <;> simp only [actionEvents, Except.ok.injEq, Prod.mk.injEq, reduceCtorEq] at hpi
                  case key kc =>
                    obtain ⟨rfl, rfl⟩ := hpi
                    exact ⟨.actList (.key kc) sub, by simp [flatten], by simp [Body.ok], by simp [spell, PA.spell]⟩
                  case chord kcs =>
                    obtain ⟨rfl, rfl⟩ := hpi
                    exact ⟨.actList (.chord kcs) sub, by simp [flatten], by simp [Body.ok], by simp [spell, PA.spell]⟩
                  case custom id =>
                    obtain ⟨rfl, rfl⟩ := hpi
                    exact ⟨.actList (.custom id) sub, by simp [flatten], by simp [Body.ok], by simp [spell, PA.spell]⟩
                | none =>
                  simp only [parseItem] at hpi
                  split at hpi
                  · cases hpi
                  · rename_i subEvs hsub
                    simp only [Except.ok.injEq, Prod.mk.injEq] at hpi
                    obtain ⟨rfl, rfl⟩ := hpi
                    obtain ⟨bs, hs1, hs2, hs3⟩ := ih g (by omega) sub subEvs hsub
                    exact ⟨.group bs, by simp [flatten, hs1], by simpa [Body.ok] using hs2, by simp [spell, hs3]⟩
              | mods kcs =>
                simp only [parseItem] at hpi
                split at hpi
                · cases hpi
                · rename_i hne
                  split at hpi
                  · rename_i act sub tl'
                    split at hpi
                    · cases hpi
                    · rename_i subEvs hsub
                      simp only [Except.ok.injEq, Prod.mk.injEq] at hpi
                      obtain ⟨rfl, rfl⟩ := hpi
                      obtain ⟨bs, hs1, hs2, hs3⟩ := ih g (by omega) sub subEvs hsub
                      refine ⟨.held false act kcs bs, by simp [flatten, hs1], ?_, by simp [spell, hs3]⟩
                      simp only [Body.ok, hs2, Bool.and_true]
                      simpa using hne
                  · cases hpi
              | modsList kcs sub =>
                simp only [parseItem] at hpi
                split at hpi
                · cases hpi
                · rename_i hne
                  split at hpi
                  · cases hpi
                  · rename_i subEvs hsub
                    simp only [Except.ok.injEq, Prod.mk.injEq] at hpi
                    obtain ⟨rfl, rfl⟩ := hpi
                    obtain ⟨bs, hs1, hs2, hs3⟩ := ih g (by omega) sub subEvs hsub
                    refine ⟨.held true none kcs bs, by simp [flatten, hs1], ?_, by simp [spell, hs3]⟩
                    simp only [Body.ok, hs2, Bool.and_true]
                    simpa using hne
              | bad => simp [parseItem] at hpi

/-! ### what a spelling looks like -/

theorem all_pressAll (ks : List KeyCode) : (pressAll ks).all isStep = true := by
  simp [pressAll, List.all_map, isStep]

theorem all_releaseAll (ks : List KeyCode) : (releaseAll ks).all isStep = true := by
  simp [releaseAll, List.all_map, isStep]

mutual
  /-- a spelling consists of presses, releases, delays and custom items only -/
  theorem spell_steps : ∀ b : Body, (spell b).all isStep = true
    | .delay n => by simp [spell, isStep]
    | .key kc => by simp [spell, isStep]
    | .chord kcs => by simp [spell, List.all_append, all_pressAll, all_releaseAll]
    | .custom id => by simp [spell, isStep]
    | .actList a raw => by
      cases a <;> simp [spell, PA.spell, isStep, List.all_append, all_pressAll, all_releaseAll]
    | .group items => by simp only [spell]; exact spellAll_steps items
    | .held _ _ mods items => by
      simp only [spell, List.all_append, all_pressAll, all_releaseAll, spellAll_steps items, Bool.and_self]
  theorem spellAll_steps : ∀ bs : List Body, (spellAll bs).all isStep = true
    | [] => by simp [spellAll]
    | b :: rest => by simp only [spellAll, List.all_append, spell_steps b, spellAll_steps rest, Bool.and_self]
end

/-! ### balance: every press is followed by a release of the same key -/

/-- every press in the list is followed, later in the list, by a release of the same key -/
def closedB : List SeqEv → Bool
  | [] => true
  | .press k :: rest => rest.contains (.release k) && closedB rest
  | _ :: rest => closedB rest

theorem closedB_append {a b : List SeqEv} (ha : closedB a = true) (hb : closedB b = true) :
    closedB (a ++ b) = true := by
  induction a with
  | nil => simpa using hb
  | cons e a' ih =>
    cases e <;> simp only [List.cons_append, closedB] at ha ⊢ <;> try exact ih ha
    rename_i k
    rw [Bool.and_eq_true] at ha ⊢
    refine ⟨?_, ih ha.2⟩
    have := ha.1
    simp only [List.contains_eq_mem, List.mem_append, decide_eq_true_eq] at this ⊢
    exact Or.inl this

theorem closedB_releaseAll (ks : List KeyCode) : closedB (releaseAll ks) = true := by
  induction ks with
  | nil => rfl
  | cons k ks ih => simpa [releaseAll, closedB] using ih

/-- presses of `ms'`, then something closed, then releases of at least the same keys -/
theorem closedB_wrap (mid tailR : List SeqEv) (hm : closedB mid = true)
    (ht : closedB tailR = true) :
    ∀ ms' : List KeyCode, (∀ k ∈ ms', SeqEv.release k ∈ tailR) →
      closedB (pressAll ms' ++ (mid ++ tailR)) = true := by
  intro ms'
  induction ms' with
  | nil => intro _; simpa [pressAll] using closedB_append hm ht
  | cons k ks ih =>
    intro h
    simp only [pressAll, List.map_cons, List.cons_append, closedB, Bool.and_eq_true]
    refine ⟨?_, ih (fun k' hk' => h k' (by simp [hk']))⟩
    simp only [List.contains_eq_mem, List.mem_append, decide_eq_true_eq]
    exact Or.inr (Or.inr (h k (by simp)))

mutual
  theorem closedB_spell : ∀ b : Body, closedB (spell b) = true
    | .delay n => by simp [spell, closedB]
    | .key kc => by simp [spell, closedB]
    | .chord kcs => by
      simp only [spell]
      have := closedB_wrap [] (releaseAll kcs.reverse) rfl (closedB_releaseAll _) kcs
        (fun k hk => by simp [releaseAll, hk])
      simpa using this
    | .custom id => by simp [spell, closedB]
    | .actList a raw => by
      cases a with
      | chord kcs =>
        simp only [spell, PA.spell, Option.getD_some]
        have := closedB_wrap [] (releaseAll kcs.reverse) rfl (closedB_releaseAll _) kcs
          (fun k hk => by simp [releaseAll, hk])
        simpa using this
      | _ => simp [spell, PA.spell, closedB]
    | .group items => by simp only [spell]; exact closedB_spellAll items
    | .held _ _ mods items => by
      simp only [spell, List.append_assoc]
      exact closedB_wrap _ _ (closedB_spellAll items) (closedB_releaseAll _) mods
        (fun k hk => by simp [releaseAll, hk])
  theorem closedB_spellAll : ∀ bs : List Body, closedB (spellAll bs) = true
    | [] => by simp [spellAll, closedB]
    | b :: rest => by
      simp only [spellAll]
      exact closedB_append (closedB_spell b) (closedB_spellAll rest)
end

/-- the Boolean check says what it should -/
theorem closedB_iff (l : List SeqEv) :
    closedB l = true ↔ ∀ pre k post, l = pre ++ .press k :: post → SeqEv.release k ∈ post := by
  induction l with
  | nil => simp [closedB]
  | cons e rest ih =>
    constructor
    · intro h pre k post hl
      cases pre with
      | nil =>
        simp only [List.nil_append, List.cons.injEq] at hl
        obtain ⟨rfl, rfl⟩ := hl
        simp only [closedB, Bool.and_eq_true, List.contains_eq_mem, decide_eq_true_eq] at h
        exact h.1
      | cons p pre' =>
        simp only [List.cons_append, List.cons.injEq] at hl
        obtain ⟨rfl, rfl⟩ := hl
        have hr : closedB (pre' ++ SeqEv.press k :: post) = true := by
          cases e <;> simp only [closedB, Bool.and_eq_true] at h <;> first | exact h | exact h.2
        exact ih.mp hr pre' k post rfl
    · intro h
      have hr : closedB rest = true := ih.mpr (fun pre k post hl => h (e :: pre) k post (by simp [hl]))
      cases e <;> simp only [closedB, Bool.and_eq_true, hr, and_true] <;> try trivial
      rename_i k
      simpa using h [] k rest rfl

/-! ### nesting: per key, presses and releases form a Dyck word -/

/-- depth of key `k` after the events, starting at depth `d`; `none` if a release of `k` comes
while no press of it is open -/
def walk (k : KeyCode) : Nat → List SeqEv → Option Nat
  | d, [] => some d
  | d, .press k' :: rest => walk k (if k' = k then d + 1 else d) rest
  | d, .release k' :: rest => if k' = k then (if d = 0 then none else walk k (d - 1) rest) else walk k d rest
  | d, _ :: rest => walk k d rest

theorem walk_append (k : KeyCode) (a b : List SeqEv) : ∀ d,
    walk k d (a ++ b) = (walk k d a).bind (fun d' => walk k d' b) := by
  induction a with
  | nil => intro d; simp [walk]
  | cons e a' ih =>
    intro d
    cases e <;> simp only [List.cons_append, walk, ih]
    rename_i k'
    by_cases hk : k' = k
    · by_cases hd : d = 0 <;> simp [hk, hd]
    · simp [hk]

theorem walk_pressAll (k : KeyCode) (ks : List KeyCode) : ∀ d,
    walk k d (pressAll ks) = some (d + ks.count k) := by
  induction ks with
  | nil => intro d; simp [pressAll, walk]
  | cons k' ks ih =>
    intro d
    simp only [pressAll, List.map_cons, walk] at ih ⊢
    rw [ih]
    by_cases hk : k' = k
    · subst hk; simp; omega
    · simp [hk]

theorem walk_releaseAll (k : KeyCode) (ks : List KeyCode) : ∀ d, ks.count k ≤ d →
    walk k d (releaseAll ks) = some (d - ks.count k) := by
  induction ks with
  | nil => intro d _; simp [releaseAll, walk]
  | cons k' ks ih =>
    intro d hd
    simp only [releaseAll, List.map_cons, walk] at ih ⊢
    by_cases hk : k' = k
    · subst hk
      simp only [List.count_cons_self] at hd
      have hd0 : d ≠ 0 := by omega
      simp only [if_true, hd0, if_false]
      rw [ih (d - 1) (by omega)]
      simp only [List.count_cons_self]
      congr 1; omega
    · simp only [hk, if_false]
      rw [ih d (by simpa [List.count_cons, hk] using hd)]
      simp [hk]

mutual
  /-- a spelling is neutral for every key at every starting depth: it never releases below the
  depth it started from and ends where it started -/
  theorem walk_spell (k : KeyCode) : ∀ (b : Body) (d : Nat), walk k d (spell b) = some d
    | .delay n, d => by simp [spell, walk]
    | .key kc, d => by
      simp only [spell, walk]
      by_cases h : kc = k <;> simp [h]
    | .chord kcs, d => by
      simp only [spell, walk_append, walk_pressAll, Option.bind_some]
      rw [walk_releaseAll k kcs.reverse _ (by simp)]
      simp
    | .custom id, d => by simp [spell, walk]
    | .actList a raw, d => by
      cases a with
      | key kc =>
        simp only [spell, PA.spell, Option.getD_some, walk]
        by_cases h : kc = k <;> simp [h]
      | chord kcs =>
        simp only [spell, PA.spell, Option.getD_some, walk_append, walk_pressAll, Option.bind_some]
        rw [walk_releaseAll k kcs.reverse _ (by simp)]
        simp
      | custom id => simp [spell, PA.spell, walk]
      | other => simp [spell, PA.spell, walk]
    | .group items, d => by simp only [spell]; exact walk_spellAll k items d
    | .held _ _ mods items, d => by
      simp only [spell, walk_append, walk_pressAll, Option.bind_some, walk_spellAll k items]
      rw [walk_releaseAll k mods _ (by omega)]
      simp
  theorem walk_spellAll (k : KeyCode) : ∀ (bs : List Body) (d : Nat), walk k d (spellAll bs) = some d
    | [], d => by simp [spellAll, walk]
    | b :: rest, d => by
      simp only [spellAll, walk_append, walk_spell k b, Option.bind_some, walk_spellAll k rest]
end

end KVerif.Macro
