/-
Helper lemmas for C19: a replay running on the one-layer layout `Flat` (no other input arriving)
writes exactly the OS trace of its queued key events.
-/
import KVerif.Lemmas.DynMacroFlat
namespace KVerif.DynMacro

variable {L : Type}

theorem doAct_lay (c : Cfg) (k : K L) (a : Act) (k' : K L) (h : doAct c k a = .ok k') :
    k'.lay = k.lay ∧ k'.os = k.os ∧ k'.nticks = k.nticks := by
  cases a with
  | record id =>
    simp only [doAct] at h
    split at h
    · cases h
    · simp only [Except.ok.injEq] at h; subst h; exact ⟨rfl, rfl, rfl⟩
  | stop n =>
    simp only [doAct] at h
    split at h
    · cases h
    · simp only [Except.ok.injEq] at h; subst h; exact ⟨rfl, rfl, rfl⟩
  | play id => simp only [doAct, Except.ok.injEq] at h; subst h; exact ⟨rfl, rfl, rfl⟩

theorem doActs_lay (c : Cfg) (acts : List Act) (k k' : K L) (h : doActs c k acts = .ok k') :
    k'.lay = k.lay ∧ k'.os = k.os ∧ k'.nticks = k.nticks := by
  induction acts generalizing k with
  | nil => simp [doActs] at h; subst h; exact ⟨rfl, rfl, rfl⟩
  | cons a r ih =>
    simp only [doActs] at h
    split at h
    · cases h
    · rename_i k1 h1
      obtain ⟨a1, a2, a3⟩ := doAct_lay c k a k1 h1
      obtain ⟨b1, b2, b3⟩ := ih k1 h
      exact ⟨b1.trans a1, b2.trans a2, b3.trans a3⟩

/-- what `tick_states` does to the layout and to the OS log -/
theorem tickStates_lay (I : LayoutI L) (c : Cfg) (k k' : K L) (h : tickStates I c k = .ok k') :
    k'.lay = (I.tick k.lay).1 ∧ k'.os = k.os ++ (I.tick k.lay).2.2.map (fun e => (k.nticks, e)) := by
  simp only [tickStates] at h
  split at h
  · cases h
  · rename_i k2 h2
    simp only [Except.ok.injEq] at h; subst h
    obtain ⟨a1, a2, _⟩ := doActs_lay c _ _ k2 h2
    exact ⟨a1, a2⟩

/-- the OS key events of the log, without the tick numbers -/
def osKeys (os : List (Nat × OsEv)) : List OsEv := os.map (·.2)

theorem osKeys_append_map (os : List (Nat × OsEv)) (n : Nat) (l : List OsEv) :
    osKeys (os ++ l.map (fun e => (n, e))) = osKeys os ++ l := by
  simp [osKeys, List.map_append, Function.comp_def]

theorem tickReplay_some_of_ev (beh : Beh) (rep : Option Replay) (p : KeyEv × Nat)
    (h : (tickReplay beh rep).2 = some p) : (tickReplay beh rep).1 ≠ none := by
  cases rep with
  | none => simp [tickReplay] at h
  | some st =>
    by_cases h0 : st.delay - 1 = 0
    · cases hq : st.queue with
      | nil => simp [tickReplay, h0, hq] at h
      | cons it q => cases it <;> cases beh <;> simp [tickReplay, h0, hq] at h ⊢
    · simp [tickReplay, h0] at h

/-- The invariant of a replay on the one-layer layout: at most one event is queued in the layout,
`prev_keys` is up to date, and the OS events written so far followed by what the queued and the
still-to-be-fed events will write is the constant `T`. -/
def FlatJ (keys : List KeyDef) (T : List OsEv) (k : K Flat) : Prop :=
  k.lay.prev = keycodes k.lay.states ∧
  (k.lay.queue = [] ∨ ∃ e, k.lay.queue = [e]) ∧
  (k.rep = none → k.lay.queue = []) ∧
  osKeys k.os ++ flatTrace keys k.lay.states (k.lay.queue ++ planOf k.rep) = T

/-- after `tick_states` the layout's queue is empty -/
theorem tickStates_flatJ (keys : List KeyDef) (c : Cfg) (hn : NoPlay (flatI keys)) (T : List OsEv)
    (k k1 : K Flat) (hj : FlatJ keys T k) (h : tickStates (flatI keys) c k = .ok k1) :
    k1.lay.prev = keycodes k1.lay.states ∧ k1.lay.queue = [] ∧ k1.rep = k.rep ∧
      osKeys k1.os ++ flatTrace keys k1.lay.states (planOf k.rep) = T := by
  obtain ⟨j1, j2, _, j4⟩ := hj
  obtain ⟨l1, l2⟩ := tickStates_lay (flatI keys) c k k1 h
  have hrep := tickStates_rep_noPlay (flatI keys) c hn k k1 h
  simp only [flatI] at l1 l2
  rcases j2 with hq | ⟨e, hq⟩
  · have ht := flatTick_empty keys k.lay hq j1
    rw [ht] at l1 l2
    simp only [List.map_nil, List.append_nil] at l2
    rw [hq] at j4
    refine ⟨by rw [l1]; exact j1, by rw [l1], hrep, ?_⟩
    rw [l1, l2]; exact j4
  · have ht := flatTick_one keys k.lay e hq j1
    rw [ht] at l1 l2
    rw [hq] at j4
    simp only [List.cons_append, List.nil_append, flatTrace] at j4
    refine ⟨by rw [l1], by rw [l1], hrep, ?_⟩
    rw [l1, l2, osKeys_append_map, List.append_assoc]; exact j4

theorem iterStep_flatJ (keys : List KeyDef) (c : Cfg) (hn : NoPlay (flatI keys)) (T : List OsEv)
    (k : K Flat) (e : Nat) (k' : K Flat) (e' : Nat) (hj : FlatJ keys T k)
    (h : iterStep (flatI keys) c k e = .ok (k', e')) : FlatJ keys T k' := by
  simp only [iterStep] at h
  split at h
  · cases h
  · rename_i k1 hk1
    obtain ⟨a1, a2, a3, a4⟩ := tickStates_flatJ keys c hn T k k1 hj hk1
    have hpl := tickReplay_plan c.beh k1.rep
    split at h
    · rename_i rep' heq
      simp only [Except.ok.injEq, Prod.mk.injEq] at h
      obtain ⟨rfl, rfl⟩ := h
      rw [heq, a3] at hpl
      simp only [outEv, List.nil_append] at hpl
      refine ⟨a1, .inl a2, fun _ => a2, ?_⟩
      simp only [a2, List.nil_append, ← hpl]; exact a4
    · rename_i rep' ev d heq
      simp only [Except.ok.injEq, Prod.mk.injEq] at h
      obtain ⟨rfl, rfl⟩ := h
      have hne := tickReplay_some_of_ev c.beh k1.rep (ev, d) (by rw [heq])
      rw [heq] at hne
      rw [heq, a3] at hpl
      simp only [outEv] at hpl
      have hev : flatEvent keys k1.lay ev = { k1.lay with queue := [ev] } := flatEvent_empty keys _ _ a2
      simp only [flatI, hev]
      refine ⟨a1, .inr ⟨ev, rfl⟩, fun hc => absurd hc hne, ?_⟩
      simp only [List.cons_append, List.nil_append]
      rw [hpl] at a4; exact a4

theorem extraStep_flatJ (keys : List KeyDef) (c : Cfg) (hn : NoPlay (flatI keys)) (T : List OsEv)
    (k : K Flat) (n : Nat) (k' : K Flat) (b : Bool) (hp : n + 1 ≤ slack k.rep ∧ FlatJ keys T k)
    (h : extraStep (flatI keys) c k = .ok (k', b)) :
    b = false ∧ (n ≤ slack k'.rep ∧ FlatJ keys T k') := by
  simp only [extraStep] at h
  split at h
  · cases h
  · rename_i k1 hk1
    obtain ⟨a1, a2, a3, a4⟩ := tickStates_flatJ keys c hn T k k1 hp.2 hk1
    obtain ⟨t1, t2, t3⟩ := tickReplay_no_pop c.beh k1.rep n (by rw [a3]; exact hp.1)
    split at h
    · rename_i rep' heq
      simp only [Except.ok.injEq, Prod.mk.injEq] at h
      obtain ⟨rfl, rfl⟩ := h
      rw [heq] at t2 t3
      simp only at t2 t3
      refine ⟨rfl, t2, a1, .inl a2, fun _ => a2, ?_⟩
      simp only [a2, List.nil_append, t3, a3]; exact a4
    · rename_i rep' ev d heq
      rw [heq] at t1; simp at t1

theorem tickMs_flatJ (keys : List KeyDef) (c : Cfg) (hn : NoPlay (flatI keys)) (T : List OsEv)
    (ms : Nat) (k k' : K Flat) (hms : c.fix = true ∨ ms < 65536) (hj : FlatJ keys T k)
    (h : tickMs (flatI keys) c ms k = .ok k') : FlatJ keys T k' := by
  simp only [tickMs] at h
  split at h
  · cases h
  · rename_i k1 extra h1
    have hm := mainLoop_inv (flatI keys) c
      (fun x i e => ((e ≤ i + slack x.rep ∧ e ≤ U16_MAX) ∧ x.lost = k.lost) ∧ FlatJ keys T x)
      (fun x i e x' e' hp hx =>
        ⟨iterStep_slack (flatI keys) c x i e x' e' hp.1 hx, iterStep_flatJ keys c hn T x e x' e' hp.2 hx⟩)
      ms k 0 0 k1 extra ⟨⟨⟨by omega, by simp [U16_MAX]⟩, rfl⟩, hj⟩ h1
    simp only [Nat.zero_add] at hm
    obtain ⟨m, hm2⟩ := extraLoop_inv (flatI keys) c (fun x n => n ≤ slack x.rep ∧ FlatJ keys T x)
      (fun x n x' b hp hx => extraStep_flatJ keys c hn T x n x' b hp hx) _ k1 k'
      ⟨extra_count_le c.fix ms extra _ hms hm.1.1.1 hm.1.1.2, hm.2⟩ h
    exact hm2.2

theorem runTicks_flatJ (keys : List KeyDef) (c : Cfg) (hn : NoPlay (flatI keys)) (T : List OsEv)
    (ticks : List Nat) (k k' : K Flat) (hms : ∀ ms ∈ ticks, c.fix = true ∨ ms < 65536)
    (hj : FlatJ keys T k) (h : run (flatI keys) c k (ticks.map .tick) = .ok k') : FlatJ keys T k' := by
  induction ticks generalizing k with
  | nil => simp [run] at h; subst h; exact hj
  | cons ms r ih =>
    simp only [List.map_cons, run, step] at h
    split at h
    · cases h
    · rename_i k1 h1
      exact ih k1 (fun m hm => hms m (List.mem_cons_of_mem _ hm))
        (tickMs_flatJ keys c hn T ms k k1 (hms ms (by simp)) hj h1) h

theorem msOK_ticks (c : Cfg) (ticks : List Nat) (h : ∀ ms ∈ ticks, c.fix = true ∨ ms < 65536) :
    MsOK c (ticks.map .tick) := by
  induction ticks with
  | nil => trivial
  | cons ms r ih =>
    exact ⟨h ms (by simp), ih fun m hm => h m (List.mem_cons_of_mem _ hm)⟩

theorem totalMs_ticks (ticks : List Nat) : totalMs (ticks.map .tick) = ticks.sum := by
  induction ticks with
  | nil => rfl
  | cons ms r ih => simp [totalMs, ih]

end KVerif.DynMacro
