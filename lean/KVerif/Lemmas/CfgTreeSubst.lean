/-
Lemmas for C16: abstracting a subexpression into a template parameter and instantiating gives the
expression back.
-/
import KVerif.Lemmas.CfgTreeCond
import KVerif.Lemmas.CfgTreeVars
namespace KVerif.CfgTree

mutual
  /-- substitution leaves alone what does not mention the parameter -/
  theorem substTree_id (p : Str) (e : Tree) : ∀ (t : Tree), ('$' :: p) ∉ atomsOfTree t →
      substTree [p] [e] t = t
    | .atom a, h => by
      have : ¬ ('$' :: p = a) := by
        intro h'; apply h; simp [atomsOfTree, h']
      simp [substTree, paramIndex, this]
    | .list l, h => by
      simp only [substTree]
      rw [substList_id p e l (by simpa [atomsOfTree] using h)]
  theorem substList_id (p : Str) (e : Tree) : ∀ (l : List Tree), ('$' :: p) ∉ atomsOfList l →
      substList [p] [e] l = l
    | [], _ => rfl
    | t :: rest, h => by
      simp only [atomsOfList, List.mem_append, not_or] at h
      simp only [substList]
      rw [substTree_id p e t h.1, substList_id p e rest h.2]
end

theorem substList_append (ps : List Str) (as : List Tree) (a b : List Tree) :
    substList ps as (a ++ b) = substList ps as a ++ substList ps as b := by
  induction a with
  | nil => rfl
  | cons t rest ih => simp [substList, ih]

/-- abstraction then instantiation: the body `C[$p]` with `e` for `p` is `C[e]` -/
theorem substTree_plug (p : Str) (e : Tree) (c : Ctx) (hc : c.NoRef p) :
    substTree [p] [e] (c.plug (.atom ('$' :: p))) = c.plug e := by
  induction c with
  | hole => simp [Ctx.plug, substTree, paramIndex]
  | node pre c post ih =>
    obtain ⟨hpre, hcc, hpost⟩ := hc
    simp only [Ctx.plug, substTree]
    rw [substList_append]
    simp only [substList]
    rw [ih hcc]
    have h1 : substList [p] [e] pre = pre := by
      induction pre with
      | nil => rfl
      | cons t rest ihp =>
        simp only [substList]
        rw [substTree_id p e t (hpre t (by simp)), ihp (fun t ht => hpre t (by simp [ht]))]
    have h2 : substList [p] [e] post = post := by
      induction post with
      | nil => rfl
      | cons t rest ihp =>
        simp only [substList]
        rw [substTree_id p e t (hpost t (by simp)), ihp (fun t ht => hpost t (by simp [ht]))]
    rw [h1, h2]

mutual
  /-- no list headed by `concat` -/
  def noConcatTree : Tree → Bool
    | .atom _ => true
    | .list l => !headIs sConcat l && noConcatList l
  def noConcatList : List Tree → Bool
    | [] => true
    | t :: rest => noConcatTree t && noConcatList rest
end

mutual
  theorem concatTree_id : ∀ (t : Tree), noConcatTree t = true → concatTree t = t
    | .atom _, _ => rfl
    | .list l, h => by
      simp only [noConcatTree, Bool.and_eq_true, Bool.not_eq_true'] at h
      match l, h with
      | [], _ => simp [concatTree, concatList]
      | .list l0 :: rest, h =>
        simp only [concatTree]
        rw [concatList_id _ h.2]
      | .atom a :: rest, h =>
        have : ¬ a = sConcat := by
          intro ha; have := h.1; simp [headIs, ha] at this
        simp only [concatTree, this, if_false]
        rw [concatList_id _ h.2]
  theorem concatList_id : ∀ (l : List Tree), noConcatList l = true → concatList l = l
    | [], _ => rfl
    | t :: rest, h => by
      simp only [noConcatList, Bool.and_eq_true] at h
      simp only [concatList]
      rw [concatTree_id t h.1, concatList_id rest h.2]
end

/-- a forest without conditional forms is a fixed point of the conditional loop -/
theorem condPass_nfc : ∀ (ts : List Tree), nfcList ts = true → condPass ts = .ok (ts, false)
  | [], _ => by simp [condPass_nil, condPass_atom, condPass_list]
  | .atom a :: rest, h => by
    simp only [nfcList, nfcTree, Bool.true_and] at h
    simp [condPass_nil, condPass_atom, condPass_list, condPass_nfc rest h]
  | .list l :: rest, h => by
    simp only [nfcList, nfcTree, Bool.and_eq_true, Option.isNone_iff_eq_none] at h
    have hrep := (condReplacement_none_iff l).mpr h.1.1
    simp [condPass_nil, condPass_atom, condPass_list, hrep, condPass_nfc l h.1.2, condPass_nfc rest h.2]

theorem condLoop_nfc (n : Nat) (ts : List Tree) (h : nfcList ts = true) :
    condLoop (n + 1) ts = .ok ts := by
  simp [condLoop, condPass_nfc ts h]

end KVerif.CfgTree
