/-
Helper lemmas for C15: the witness world `DM.world` of the dynamic-macro counterexample reads
`dynamic_macros` but no other retained field.
-/
import KVerif.Lemmas.ReloadEqv
import KVerif.Lemmas.ReloadDM
namespace KVerif.Reload
open KVerif.Gen.Reload

/-- the retained fields other than the recorded macros -/
def retainedOpaqueNoMacros : List Field := retainedOpaque.erase .dynamic_macros

theorem opOK_noMacros : OpOK retainedOpaqueNoMacros := by
  intro f; cases f <;> decide

theorem eqv_dm_ksc {op : List Field} (h1 : Field.layout ∉ op) (h2 : Field.dynamic_macros ∉ op)
    (h3 : Field.dynamic_macro_record_state ∉ op) (h4 : Field.cur_keys ∉ op) (h5 : Field.prev_keys ∉ op)
    (a b : KSt DM.world) (h : Eqv op a b) :
    Eqv (W := DM.world) op (DM.ksc a).1 (DM.ksc b).1 ∧ (DM.ksc a).2 = (DM.ksc b).2 := by
  have hl : a .layout = b .layout := h _ h1
  have hd : a .dynamic_macros = b .dynamic_macros := h _ h2
  have hr : a .dynamic_macro_record_state = b .dynamic_macro_record_state := h _ h3
  have hc : a .cur_keys = b .cur_keys := h _ h4
  have hp : a .prev_keys = b .prev_keys := h _ h5
  simp only [DM.ksc, hl, hd, hr, hc, hp]
  refine ⟨eqv_set (eqv_set ?_ _ _) _ _, trivial⟩
  generalize Prod.snd _ = cu
  cases cu with
  | none => exact h
  | some act =>
    cases act with
    | key k => exact h
    | record id => exact eqv_set h _ _
    | stop =>
      simp only
      cases (b .dynamic_macro_record_state : Option (Nat × List DM.Ev)) with
      | none => exact h
      | some pr => obtain ⟨id, evs⟩ := pr; exact eqv_set (eqv_set h _ _) _ _
    | play id => exact eqv_set h _ _
    | lrld => exact h

theorem eqv_dm_inputEvent {op : List Field} (h1 : Field.layout ∉ op)
    (h3 : Field.dynamic_macro_record_state ∉ op)
    (a b : KSt DM.world) (e : DM.Ev) (h : Eqv op a b) :
    Eqv (W := DM.world) op (DM.inputEvent a e).1 (DM.inputEvent b e).1 ∧
      (DM.inputEvent a e).2 = (DM.inputEvent b e).2 := by
  have hl : a .layout = b .layout := h _ h1
  have hr : a .dynamic_macro_record_state = b .dynamic_macro_record_state := h _ h3
  simp only [DM.inputEvent, hl, hr]
  refine ⟨eqv_set ?_ _ _, trivial⟩
  cases (b .dynamic_macro_record_state : Option (Nat × List DM.Ev)) with
  | none => exact h
  | some pr =>
    obtain ⟨id, evs⟩ := pr
    simp only
    cases DM.isKeyCol (b .layout) (DM.colOf e) with
    | true => exact eqv_set h _ _
    | false => exact h

theorem eqv_dm_replay {op : List Field} (h1 : Field.layout ∉ op)
    (h3 : Field.dynamic_macro_replay_state ∉ op)
    (a b : KSt DM.world) (h : Eqv op a b) :
    Eqv (W := DM.world) op (DM.replay a).1 (DM.replay b).1 ∧ (DM.replay a).2 = (DM.replay b).2 := by
  have hl : a .layout = b .layout := h _ h1
  have hr : a .dynamic_macro_replay_state = b .dynamic_macro_replay_state := h _ h3
  simp only [DM.replay, hl, hr]
  cases (b .dynamic_macro_replay_state : List DM.Ev) with
  | nil => exact ⟨h, rfl⟩
  | cons e rest => exact ⟨eqv_set (eqv_set h _ _) _ _, rfl⟩


theorem eqv_dm_coreIdle {op : List Field} (h1 : Field.layout ∉ op)
    (h3 : Field.dynamic_macro_replay_state ∉ op)
    (a b : KSt DM.world) (h : Eqv op a b) : DM.world.coreIdle a = DM.world.coreIdle b := by
  have hl : a .layout = b .layout := h _ h1
  have hr : a .dynamic_macro_replay_state = b .dynamic_macro_replay_state := h _ h3
  show (((a .layout : DM.Layout).queue).isEmpty && (a .dynamic_macro_replay_state : List DM.Ev).isEmpty) =
    (((b .layout : DM.Layout).queue).isEmpty && (b .dynamic_macro_replay_state : List DM.Ev).isEmpty)
  rw [hl, hr]

end KVerif.Reload
