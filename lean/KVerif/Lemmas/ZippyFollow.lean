/-
Follow-up chords: the lookups for a follow-up chord whose partial presses are in no top-level chord
(the situation `fix-class-1` repairs), the release of a chord that has follow-ups, and the run of a
first chord with empty output (whose prior output count `fix-class-7-8` repairs).
-/
import KVerif.Lemmas.ZippyRun
namespace KVerif.Zippy
open KVerif.TextBuf

/-! ### Lookups for a follow-up chord -/

/-- `K2 ↦ out2` is a follow-up chord in the map reached through the chord path `P`, stored once; no
other follow-up of `P` lies inside `K2`, and no top-level chord lies properly inside `K2`. -/
structure FollowEntry (d : Dict) (P : Path) (K2 : Key) (out2 : List ZchOut) : Prop where
  mem : (K2, out2) ∈ level d P
  ne : K2 ≠ []
  sorted : StrictSorted K2
  uniq : ∀ out', (K2, out') ∈ level d P → out' = out2
  noOther : ∀ kv ∈ level d P, isSubsetOf kv.1 K2 = true → kv.1 = K2
  noTop : ∀ kv ∈ level d [], kv.1 ≠ [] → isSubsetOf kv.1 K2 = true → kv.1 = K2

theorem FollowEntry.find_full {cfg : Cfg} {P : Path} {K2 : Key} {out2 : List ZchOut}
    (h : FollowEntry cfg.dict P K2 out2) : (findChordK cfg (some P) K2).act = some (P, out2, true) := by
  have hl : lookupLevel cfg.dict P K2 = .hasValue out2 := by
    rw [lookupLevel_eq]; unfold lookupSpec
    rw [lastInsert_unique h.mem h.ne h.uniq]
  unfold findChordK
  simp [hl, Found.act]

/-- A partial press of the follow-up chord is "subset" — whether or not some top-level chord contains
it (this is what `fix-class-1` establishes). -/
theorem FollowEntry.find_part {cfg : Cfg} {P : Path} {K2 : Key} {out2 : List ZchOut}
    (h : FollowEntry cfg.dict P K2 out2) (S : Key) (hS : S ≠ []) (hsub : ∀ x ∈ S, x ∈ K2) (hneq : S ≠ K2) :
    findChordK cfg (some P) S = .subset := by
  have hl : lookupLevel cfg.dict P S = .isSubset := by
    rw [lookupLevel_eq]; unfold lookupSpec
    have hnone : lastInsert (level cfg.dict P) S = none := by
      apply lastInsert_none_of_not_mem
      intro kv hkv heq
      have := h.noOther kv hkv (by rw [heq]; exact (isSubsetOf_iff S K2).mpr hsub)
      exact hneq (heq ▸ this)
    rw [hnone]
    have hany : (level cfg.dict P).any (fun kv => !kv.1.isEmpty && isSubsetOf S kv.1) = true := by
      simp only [List.any_eq_true]
      refine ⟨(K2, out2), h.mem, ?_⟩
      simp only [Bool.and_eq_true, Bool.not_eq_true', List.isEmpty_eq_false_iff]
      exact ⟨h.ne, (isSubsetOf_iff S K2).mpr hsub⟩
    simp [hany]
  have hroot : ∀ a, lookupLevel cfg.dict [] S ≠ .hasValue a := by
    intro a hla
    rw [lookupLevel_eq] at hla
    unfold lookupSpec at hla
    cases hli : lastInsert (level cfg.dict []) S with
    | none => rw [hli] at hla; simp only at hla; split at hla <;> cases hla
    | some v =>
      obtain ⟨hmem, _⟩ := lastInsert_some_mem hli
      exact hneq (h.noTop _ hmem hS ((isSubsetOf_iff S K2).mpr hsub))
  unfold findChordK
  simp only [hl]
  cases hr : lookupLevel cfg.dict [] S with
  | hasValue a => exact absurd hr (hroot a)
  | isSubset => rfl
  | neither => rfl

/-! ### Releasing a chord -/

/-- After an activation, while keys of the chord are still held. -/
structure Held (cfg : Cfg) (ph : Phase) (s0 s : Zchd) (keys : List Nat) (e c : Nat) (running : Bool) : Prop where
  en : s.enabledState = .enabled
  chord : s.lastPress = .isChord
  prio : s.prioritized = ph.prio0
  pc : s.priorActivationOutputCount = ph.pc0
  prior : s.priorActivation = ph.prior0
  keys : s.inputKeys = keys
  lsft : s.lsft = s0.lsft
  rsft : s.rsft = s0.rsft
  altgr : s.altgr = s0.altgr
  caps : s.capsWord = false
  tssc : s.ticksSinceStateChange = c
  tud : if running then
          (cfg.ticksChordDeadline = 0 ∧ s.ticksUntilDisable = 0) ∨
          (e < cfg.ticksChordDeadline ∧ s.ticksUntilDisable = cfg.ticksChordDeadline - e)
        else s.ticksUntilDisable = 0

theorem Held.tick {cfg : Cfg} {ph : Phase} {s0 s : Zchd} {keys : List Nat} {e c : Nat} {running : Bool}
    (h : Held cfg ph s0 s keys e c running) (hc : c < TICKS_UNTIL_FORCE_STATE_RESET)
    (hd : running = true → (cfg.ticksChordDeadline = 0 ∨ e + 1 < cfg.ticksChordDeadline)) :
    Held cfg ph s0 (s.tick false) keys (e + 1) (c + 1) running ∧
    (s.tick false).smartSpaceState = s.smartSpaceState := by
  obtain ⟨en, chord, prio, pc, prior, hkeys, lsft, rsft, altgr, caps, tssc, tud⟩ := h
  have hnr : ¬ (s.ticksSinceStateChange + 1 > TICKS_UNTIL_FORCE_STATE_RESET) := by omega
  have hidle : s.ticksUntilDisable = 0 →
      s.tick false = { s with ticksSinceStateChange := s.ticksSinceStateChange + 1, capsWord := false } := by
    intro ht0
    unfold Zchd.tick Zchd.tickCore
    simp [en, ht0, hnr]
  cases running with
  | false =>
    simp only [Bool.false_eq_true, if_false] at tud
    rw [hidle tud]
    exact ⟨⟨en, chord, prio, pc, prior, hkeys, lsft, rsft, altgr, rfl, by simp [tssc], by simpa using tud⟩, rfl⟩
  | true =>
    simp only [if_true] at tud
    rcases tud with ⟨hd0, ht0⟩ | ⟨hlt, ht⟩
    · rw [hidle ht0]
      exact ⟨⟨en, chord, prio, pc, prior, hkeys, lsft, rsft, altgr, rfl, by simp [tssc],
        by simp only [if_true]; exact Or.inl ⟨hd0, ht0⟩⟩, rfl⟩
    · have hd' : e + 1 < cfg.ticksChordDeadline := by
        rcases hd rfl with h0 | h1
        · omega
        · exact h1
      have hpos : s.ticksUntilDisable > 0 := by omega
      have hne : ¬ (s.ticksUntilDisable - 1 = 0) := by omega
      have : s.tick false = { s with ticksSinceStateChange := s.ticksSinceStateChange + 1, capsWord := false,
                                     ticksUntilDisable := s.ticksUntilDisable - 1 } := by
        unfold Zchd.tick Zchd.tickCore
        simp [en, hpos, hne, hnr]
      rw [this]
      exact ⟨⟨en, chord, prio, pc, prior, hkeys, lsft, rsft, altgr, rfl, by simp [tssc],
        by simp only [if_true]; exact Or.inr ⟨hd', by simp only [ht]; omega⟩⟩, rfl⟩

theorem Held.ticks {cfg : Cfg} {ph : Phase} {s0 s : Zchd} {keys : List Nat} {e c : Nat} {running : Bool} (g : Nat)
    (h : Held cfg ph s0 s keys e c running) (hc : c + g ≤ TICKS_UNTIL_FORCE_STATE_RESET)
    (hd : running = true → (cfg.ticksChordDeadline = 0 ∨ e + g < cfg.ticksChordDeadline)) :
    Held cfg ph s0 (ticksN s g) keys (e + g) (c + g) running ∧
    (ticksN s g).smartSpaceState = s.smartSpaceState := by
  induction g generalizing s e c with
  | zero => exact ⟨by simpa [ticksN] using h, rfl⟩
  | succ g ih =>
    obtain ⟨h1, hs1⟩ := h.tick (by omega)
      (fun hr => by rcases hd hr with h0 | h1; exact Or.inl h0; exact Or.inr (by omega))
    obtain ⟨h2, hs2⟩ := ih h1 (by omega)
      (fun hr => by rcases hd hr with h0 | h1; exact Or.inl h0; exact Or.inr (by omega))
    simp only [ticksN]
    have e1 : e + 1 + g = e + (g + 1) := by omega
    have e2 : c + 1 + g = c + (g + 1) := by omega
    rw [e1, e2] at h2
    exact ⟨h2, by rw [hs2, hs1]⟩

theorem Forming.held {cfg : Cfg} {ph : Phase} {s0 s : Zchd} {e c : Nat}
    (h : Forming cfg ph s0 s [] e c) (hc : s.lastPress = .isChord) :
    Held cfg ph s0 s (chordKey ph.pre) e c true :=
  ⟨h.en, hc, h.prio, h.pc, h.prior, by simpa using h.keys, h.lsft, h.rsft, h.altgr, h.caps, h.tssc,
    by simp only [if_true]; exact h.tud⟩

/-- Releasing one of several held keys of an activated chord. -/
theorem Held.release_some {cfg : Cfg} {ph : Phase} {s0 s : Zchd} {keys : List Nat} {e c : Nat} {running : Bool}
    (h : Held cfg ph s0 s keys e c running) (hne : ssmIsEmpty (levelSsm cfg.dict []) = false)
    (k : Nat) (hign : isZippyIgnored k = false) (hrem : keys.filter (fun x => x ≠ k) ≠ []) :
    (zchReleaseKey cfg s k).2 = [.up k] ∧
    Held cfg ph s0 (zchReleaseKey cfg s k).1 (keys.filter (fun x => x ≠ k)) 0 0 false ∧
    (zchReleaseKey cfg s k).1.smartSpaceState = s.smartSpaceState := by
  obtain ⟨h1, h2, h3, _, _⟩ := not_ignored_ne hign
  have hemp : (List.filter (fun x => decide (x ≠ k)) s.inputKeys).isEmpty = false := by
    rw [h.keys]; simpa using hrem
  unfold zchReleaseKey
  simp only [hne, Bool.false_eq_true, if_false, h1, h2, h3, hign, Zchd.releaseKey, Zchd.stateChange,
    h.chord, hemp]
  refine ⟨by first | trivial | rfl, ⟨h.en, by first | trivial | rfl, h.prio, h.pc, h.prior, by simp [h.keys],
    h.lsft, h.rsft, h.altgr, h.caps, by first | trivial | rfl, by simp⟩, by first | trivial | rfl⟩

/-- Releasing the last held key of an activated chord that has follow-ups: idle again, with the
follow-up map and the prior output count kept. -/
theorem Held.release_last {cfg : Cfg} {ph : Phase} {s0 s : Zchd} {keys : List Nat} {e c : Nat} {running : Bool}
    (h : Held cfg ph s0 s keys e c running) (hne : ssmIsEmpty (levelSsm cfg.dict []) = false)
    (k : Nat) (hign : isZippyIgnored k = false) (hrem : keys.filter (fun x => x ≠ k) = [])
    (P : Path) (hP : ph.prio0 = some P) :
    (zchReleaseKey cfg s k).2 = [.up k] ∧ Idle (zchReleaseKey cfg s k).1 ∧
    (zchReleaseKey cfg s k).1.prioritized = some P ∧
    (zchReleaseKey cfg s k).1.priorActivationOutputCount = ph.pc0 ∧
    (zchReleaseKey cfg s k).1.priorActivation = ph.prior0 ∧
    (zchReleaseKey cfg s k).1.sameHoldActivationCount = 0 ∧
    (zchReleaseKey cfg s k).1.lsft = s0.lsft ∧ (zchReleaseKey cfg s k).1.rsft = s0.rsft ∧
    (zchReleaseKey cfg s k).1.altgr = s0.altgr ∧
    (zchReleaseKey cfg s k).1.smartSpaceState = s.smartSpaceState ∧
    (zchReleaseKey cfg s k).1.ticksSinceStateChange = 0 := by
  obtain ⟨h1, h2, h3, _, _⟩ := not_ignored_ne hign
  have hemp : (List.filter (fun x => decide (x ≠ k)) s.inputKeys).isEmpty = true := by
    rw [h.keys]; simpa using hrem
  have hfil : List.filter (fun x => decide (x ≠ k)) s.inputKeys = [] := by
    rw [h.keys]; exact hrem
  have hprio : s.prioritized = some P := by rw [h.prio, hP]
  unfold zchReleaseKey
  simp only [hne, Bool.false_eq_true, if_false, h1, h2, h3, hign, Zchd.releaseKey, Zchd.stateChange,
    h.chord, hemp, hprio, Option.isNone_some]
  refine ⟨by first | trivial | rfl, ⟨by first | trivial | rfl, hfil, by first | trivial | rfl,
    by first | trivial | rfl, h.caps⟩, by first | trivial | rfl | exact hprio, h.pc, h.prior,
    by first | trivial | rfl, h.lsft, h.rsft, h.altgr, by first | trivial | rfl, by first | trivial | rfl⟩

/-! ### A chord with empty output (the first chord of a longer line) -/

theorem commonPrefixLen_nil_right (p : List ZchOut) : commonPrefixLen p [] = 0 := by
  cases p <;> rfl

theorem activate_empty (cfg : Cfg) (s : Zchd) (k : Nat) (ctx : Path) (isPrio : Bool) :
    (activate cfg s k [] ctx isPrio).2 = [OsEv.down k] ++
      (if !s.capsWord then
        (if s.lsft then [OsEv.down KEY_LEFTSHIFT] else []) ++ (if s.rsft then [OsEv.down KEY_RIGHTSHIFT] else [])
       else []) ∧
    (activate cfg s k [] ctx isPrio).1.charsToDelete = s.charsToDelete + 1 ∧
    (activate cfg s k [] ctx isPrio).1.priorActivationOutputCount =
      (if isPrio then s.priorActivationOutputCount else 0) + (s.charsToDelete + 1) ∧
    (activate cfg s k [] ctx isPrio).1.prioritized =
      (if hasFollowups cfg.dict (ctx ++ [s.inputKeys]) then some (ctx ++ [s.inputKeys]) else none) ∧
    (activate cfg s k [] ctx isPrio).1.priorActivation = some [] ∧
    (activate cfg s k [] ctx isPrio).1.ticksSinceStateChange = s.ticksSinceStateChange ∧
    (activate cfg s k [] ctx isPrio).1.ticksUntilDisable = cfg.ticksChordDeadline ∧
    (activate cfg s k [] ctx isPrio).1.smartSpaceState = s.smartSpaceState := by
  unfold activate
  cases hpa : s.priorActivation <;>
    simp [wantsSmartSpace, sendKeys, commonPrefixLen_nil_right, hpa, displayLen]

/-- The state just before the completing press of a chord started from an idle state. -/
theorem idle_before_last (cfg : Cfg) (s : Zchd) (b : Buf) (front : List (Nat × Nat))
    (hidle : Idle s) (hne : ssmIsEmpty (levelSsm cfg.dict []) = false)
    (hign : ∀ k ∈ front.map (·.1), isZippyIgnored k = false)
    (hss : s.smartSpaceState = .inactive)
    (hpart : ∀ ks, ks ≠ [] → ks <+: front.map (·.1) → findChordK cfg s.prioritized (chordKey ks) = .subset)
    (hgap : ∀ kg ∈ front, kg.2 ≤ TICKS_UNTIL_FORCE_STATE_RESET)
    (hdl : cfg.ticksChordDeadline = 0 ∨ (front.map (·.2)).sum < cfg.ticksChordDeadline) :
    Ready (idlePhase s) s (zRun cfg s (chordHist front)).1 (front.map (·.1)) ∧
    BufForming b (b.run (zRun cfg s (chordHist front)).2) front.length ∧
    (zRun cfg s (chordHist front)).1.smartSpaceState = .inactive := by
  cases front with
  | nil =>
    simp only [chordHist, List.flatMap_nil, zRun, List.map_nil, List.length_nil, run_nil]
    exact ⟨hidle.ready, ⟨⟨[], rfl, rfl⟩, rfl, rfl, rfl⟩, hss⟩
  | cons kg rest =>
    obtain ⟨k1, g1⟩ := kg
    simp only [List.map_cons, List.sum_cons] at hign hpart hdl
    obtain ⟨hf1, hb1⟩ := hidle.press (b := b) hne k1 (hign k1 (by simp)) (Or.inl hss)
      (hpart [k1] (by simp) (by simp))
    have hg1 : g1 ≤ TICKS_UNTIL_FORCE_STATE_RESET := hgap (k1, g1) (List.mem_cons_self ..)
    have hf2 := hf1.ticks g1 (by omega)
      (by rcases hdl with h0 | h1; exact Or.inl h0; exact Or.inr (by omega))
    obtain ⟨e', c', hf3, hb3⟩ := forming_rest (b0 := b) hne rest _ _ [k1] (0 + g1) (0 + g1) hf2 hb1
      (fun kg hkg => hign kg.1 (List.mem_cons_of_mem _ (List.mem_map.mpr ⟨kg, hkg, rfl⟩)))
      (by intro hp; simp at hp)
      (by
        intro ks hks hpre
        simp only [idlePhase, List.nil_append]
        exact hpart (k1 :: ks) (by simp) (by simpa using hpre))
      (fun kg hkg => hgap kg (List.mem_cons_of_mem _ hkg))
      (by rcases hdl with h0 | h1; exact Or.inl h0; exact Or.inr (by omega))
    rw [chordHist_cons, zRun_append, zRun_pressTicks]
    simp only [run_append]
    refine ⟨by simpa using hf3.ready, by simpa using hb3, hf3.ss (by simp)⟩

/-- The phase data after a chord with empty output has been completed: what it typed is counted for
its follow-ups, on top of what earlier chords of the chain left only if it was itself a follow-up. -/
def emptyPhase (ph : Phase) (cfg : Cfg) (n : Nat) (keys : List Nat) (ctx : Path) (isPrio : Bool) : Phase :=
  ⟨keys, ph.ctd0 + n + 1, some [], ph.sh0 + 1,
   if hasFollowups cfg.dict (ctx ++ [chordKey keys]) then some (ctx ++ [chordKey keys]) else none,
   (if isPrio then ph.pc0 else 0) + (ph.ctd0 + n + 1)⟩

/-- The completing press of a chord with empty output: the key is typed like the others (nothing is
erased), and the chord counts as activated. -/
theorem final_press_empty {cfg : Cfg} {ph : Phase} {s0 s : Zchd} {b0 b : Buf}
    {pressed : List Nat} (hr : Ready ph s0 s pressed) (hb : BufForming b0 b pressed.length)
    (hm0 : ModsAgree s0 b0) (hne' : ssmIsEmpty (levelSsm cfg.dict []) = false) (last : Nat)
    (hign : isZippyIgnored last = false) (ctx : Path) (isPrio : Bool)
    (hfc : (findChordK cfg ph.prio0 (chordKey (ph.pre ++ (pressed ++ [last])))).act = some (ctx, [], isPrio))
    (hss : s.smartSpaceState = .inactive) :
    BufForming b0 (b.run (zchPressKey cfg s last).2) (pressed.length + 1) ∧
    Held cfg (emptyPhase ph cfg pressed.length (ph.pre ++ (pressed ++ [last])) ctx isPrio) s0
      (zchPressKey cfg s last).1 (chordKey (ph.pre ++ (pressed ++ [last]))) 0 0 true ∧
    (zchPressKey cfg s last).1.smartSpaceState = .inactive := by
  obtain ⟨_, _, _, hnb, hck⟩ := not_ignored_ne hign
  have hkey : sortedInsert last s.inputKeys = chordKey (ph.pre ++ (pressed ++ [last])) := by
    rw [hr.keys, ← List.append_assoc, chordKey_append_single]
  rw [press_found cfg s last [] ctx isPrio hne' hign hr.en (Or.inl hss) (by rw [hkey, hr.prio]; exact hfc)]
  obtain ⟨hev, hctd, hpc, hprio, hprior, htssc, htud, hsss⟩ := activate_empty cfg (preLookup cfg s last) last ctx isPrio
  have hfl := activate_flags cfg (preLookup cfg s last) last [] ctx isPrio
  have hik : (preLookup cfg s last).inputKeys = chordKey (ph.pre ++ (pressed ++ [last])) := by
    simp [preLookup, hkey]
  refine ⟨?_, ?_, by rw [hsss]; rfl⟩
  · -- the buffer: the key is typed; pressing the held shifts again changes nothing
    rw [hev, run_append]
    obtain ⟨⟨L, hL, hrt⟩, h1, h2, h3⟩ := hb
    obtain ⟨m1, m2, m3⟩ := hm0
    have hb1 : b.run [OsEv.down last] = { b with rtext := mkCh last (b.lsft || b.rsft) b.ralt :: b.rtext } := by
      simp only [run_cons, run_nil, step_down_char b last hck]
      simp [stroke, hnb]
    rw [hb1]
    rw [run_sftBack _ (preLookup cfg s last).capsWord (preLookup cfg s last).lsft (preLookup cfg s last).rsft
      (Or.inl (by simp [preLookup, h1, m1, hr.lsft])) (Or.inl (by simp [preLookup, h2, m2, hr.rsft]))]
    refine ⟨⟨mkCh last (b.lsft || b.rsft) b.ralt :: L, by simp [hL], by simp [hrt]⟩, ?_, ?_, h3⟩
    · simp [preLookup, hr.lsft, m1]
    · simp [preLookup, hr.rsft, m2]
  · refine ⟨?_, hfl.2.2.2.2.2.2, ?_, ?_, ?_, ?_, ?_, ?_, ?_, ?_, ?_, ?_⟩
    · rw [hfl.2.2.2.2.2.1]; simp [preLookup, hr.en]
    · rw [hprio, hik]; rfl
    · rw [hpc]; simp [preLookup, hr.pc, hr.ctd, emptyPhase]
    · rw [hprior]; rfl
    · rw [hfl.2.2.2.2.1, hik]
    · rw [hfl.1]; simp [preLookup, hr.lsft]
    · rw [hfl.2.1]; simp [preLookup, hr.rsft]
    · rw [hfl.2.2.1]; simp [preLookup, hr.altgr]
    · rw [hfl.2.2.2.1]; simp [preLookup, hr.caps]
    · rw [htssc]; simp [preLookup]
    · simp only [if_true]
      rw [htud]
      by_cases hd : cfg.ticksChordDeadline = 0
      · exact Or.inl ⟨hd, hd⟩
      · exact Or.inr ⟨by omega, by simp⟩

/-- keys going up one after the other: (ticks before the release, key) -/
def relHist (rels : List (Nat × Nat)) : List ZEv :=
  rels.flatMap (fun gk => List.replicate gk.1 .tick ++ [.release gk.2])

/-- what is kept after the complete release of a chord that has follow-ups -/
structure Followed (ph : Phase) (s0 s : Zchd) (P : Path) : Prop where
  idle : Idle s
  prio : s.prioritized = some P
  pc : s.priorActivationOutputCount = ph.pc0
  prior : s.priorActivation = ph.prior0
  sh : s.sameHoldActivationCount = 0
  lsft : s.lsft = s0.lsft
  rsft : s.rsft = s0.rsft
  altgr : s.altgr = s0.altgr

theorem run_ups (b : Buf) (ks : List Nat) (h : ∀ k ∈ ks, CharKey k) :
    b.run (ks.map OsEv.up) = b := by
  induction ks generalizing b with
  | nil => rfl
  | cons k r ih =>
    simp only [List.map_cons, run_cons]
    rw [step_up_char b k (h k (List.mem_cons_self ..))]
    exact ih b (fun x hx => h x (List.mem_cons_of_mem _ hx))

/-- Releasing all keys of an activated chord that has follow-ups, in any order, the first release
inside the (restarted) deadline: only key-ups are written, and zippychord is idle with the follow-up
map in force. -/
theorem release_run (cfg : Cfg) (ph : Phase) (s0 : Zchd) (P : Path) (hP : ph.prio0 = some P)
    (hne : ssmIsEmpty (levelSsm cfg.dict []) = false) (rels : List (Nat × Nat)) :
    ∀ (s : Zchd) (keys : List Nat) (e c : Nat) (running : Bool),
      rels ≠ [] → Held cfg ph s0 s keys e c running →
      (∀ x, x ∈ rels.map (·.2) ↔ x ∈ keys) → (rels.map (·.2)).Nodup →
      (∀ gk ∈ rels, isZippyIgnored gk.2 = false) →
      (∀ gk ∈ rels, gk.1 ≤ TICKS_UNTIL_FORCE_STATE_RESET) → c + (rels.headD (0, 0)).1 ≤ TICKS_UNTIL_FORCE_STATE_RESET →
      (running = true → (cfg.ticksChordDeadline = 0 ∨ e + (rels.headD (0, 0)).1 < cfg.ticksChordDeadline)) →
      (zRun cfg s (relHist rels)).2 = (rels.map (·.2)).map OsEv.up ∧
      Followed ph s0 (zRun cfg s (relHist rels)).1 P ∧
      (zRun cfg s (relHist rels)).1.smartSpaceState = s.smartSpaceState ∧
      (zRun cfg s (relHist rels)).1.ticksSinceStateChange = 0 := by
  induction rels with
  | nil => intro s keys e c running h; exact absurd rfl h
  | cons gk rest ih =>
    intro s keys e c running _ hh hmem hnd hign hgap hc0 hdl
    obtain ⟨g, k⟩ := gk
    simp only [List.headD_cons] at hc0 hdl
    obtain ⟨hh1, hs1⟩ := hh.ticks g hc0 hdl
    have hkI : isZippyIgnored k = false := hign (g, k) (List.mem_cons_self ..)
    have hnd' : k ∉ rest.map (·.2) ∧ (rest.map (·.2)).Nodup := by
      rw [List.map_cons] at hnd; exact List.nodup_cons.mp hnd
    have hmem' : ∀ x, x ∈ rest.map (·.2) ↔ x ∈ keys.filter (fun x => x ≠ k) := by
      intro x
      simp only [List.mem_filter, decide_eq_true_eq]
      constructor
      · intro hx
        refine ⟨(hmem x).mp (by simp only [List.map_cons, List.mem_cons]; exact Or.inr hx), ?_⟩
        intro hxk; subst hxk; exact hnd'.1 hx
      · rintro ⟨hx, hxk⟩
        have := (hmem x).mpr hx
        simp only [List.map_cons, List.mem_cons] at this
        rcases this with h | h
        · exact absurd h hxk
        · exact h
    have hstep : zRun cfg s (relHist ((g, k) :: rest)) =
        ((zRun cfg (zchReleaseKey cfg (ticksN s g) k).1 (relHist rest)).1,
         (zchReleaseKey cfg (ticksN s g) k).2 ++ (zRun cfg (zchReleaseKey cfg (ticksN s g) k).1 (relHist rest)).2) := by
      simp only [relHist, List.flatMap_cons]
      rw [List.append_assoc, zRun_append, zRun_ticks]
      simp [zRun, zStep]
    rw [hstep]
    cases rest with
    | nil =>
      have hrem : keys.filter (fun x => x ≠ k) = [] := by
        apply List.eq_nil_iff_forall_not_mem.mpr
        intro x hx
        have := (hmem' x).mpr hx
        simp at this
      obtain ⟨hev, hidle, hp, hpc, hpr, hsh, hl, hr, ha, hss, htz⟩ := hh1.release_last hne k hkI hrem P hP
      simp only [relHist, List.flatMap_nil, zRun, List.append_nil, List.map_cons, List.map_nil]
      exact ⟨hev, ⟨hidle, hp, hpc, hpr, hsh, hl, hr, ha⟩, by rw [hss, hs1], htz⟩
    | cons gk2 rest2 =>
      have hrem : keys.filter (fun x => x ≠ k) ≠ [] := by
        intro hnil
        have := (hmem' gk2.2).mp (by simp)
        rw [hnil] at this
        simp at this
      obtain ⟨hev, hheld, hss⟩ := hh1.release_some hne k hkI hrem
      have := ih (zchReleaseKey cfg (ticksN s g) k).1 (keys.filter (fun x => x ≠ k)) 0 0 false (by simp) hheld hmem'
        hnd'.2 (fun gk hgk => hign gk (List.mem_cons_of_mem _ hgk))
        (fun gk hgk => hgap gk (List.mem_cons_of_mem _ hgk))
        (by simp only [List.headD_cons, Nat.zero_add]; exact hgap gk2 (by simp))
        (by intro h; cases h)
      obtain ⟨i1, i2, i3, i4⟩ := this
      refine ⟨?_, i2, by rw [i3, hss, hs1], i4⟩
      rw [hev, i1]
      simp

/-! ### Pressing a follow-up chord -/

/-- Waiting while idle (no key held, no deadline running) keeps everything but the state-change timer. -/
theorem Followed.ticks {ph : Phase} {s0 s : Zchd} {P : Path} (h : Followed ph s0 s P) (g : Nat)
    (hg : s.ticksSinceStateChange + g ≤ TICKS_UNTIL_FORCE_STATE_RESET) :
    Followed ph s0 (ticksN s g) P ∧ (ticksN s g).smartSpaceState = s.smartSpaceState := by
  rw [idle_ticks s g h.idle.en h.idle.tud h.idle.caps hg]
  exact ⟨⟨⟨h.idle.en, h.idle.keys, h.idle.ctd, h.idle.tud, h.idle.caps⟩, h.prio, h.pc, h.prior, h.sh,
    h.lsft, h.rsft, h.altgr⟩, rfl⟩

/-- The text algebra of prefix re-use: on screen is `base ++ out1` (and the smart space if `sm`),
then `n` more characters `L`; erasing all but the first `cpl` characters of `out1` and typing the rest
of `out2` leaves `base ++ out2`. -/
theorem reuse_prefix_text (base : List Ch) (sh : Bool) (out1 out2 : List ZchOut) (hp1 : PlainOuts out1)
    (sm : Bool) (L : List Ch) :
    typeOuts
      ((L ++ (if sm then stroke (typeOuts base sh out1) KEY_SPACE false false else typeOuts base sh out1)).drop
        (L.length + ((if sm then 1 else 0) + (out1.length - commonPrefixLen out1 out2))))
      (sh && decide (commonPrefixLen out1 out2 = 0)) (out2.drop (commonPrefixLen out1 out2)) =
    typeOuts base sh out2 := by
  have hn := commonPrefixLen_le out1 out2
  rw [List.drop_append, List.drop_eq_nil_of_le (by omega), Nat.add_sub_cancel_left, List.nil_append]
  have hdrop : List.drop ((if sm = true then 1 else 0) + (out1.length - commonPrefixLen out1 out2))
      (if sm then stroke (typeOuts base sh out1) KEY_SPACE false false else typeOuts base sh out1) =
      typeOuts base sh (out1.take (commonPrefixLen out1 out2)) := by
    rw [← typeOuts_plain_drop base _ out1 hp1 _ hn.1]
    cases sm
    · simp
    · simp only [if_true, stroke, KEY_SPACE, KEY_BACKSPACE]
      rw [Nat.add_comm 1]
      simp [List.drop_succ_cons]
  rw [hdrop]
  have hemp : (decide (commonPrefixLen out1 out2 = 0)) = (out1.take (commonPrefixLen out1 out2)).isEmpty := by
    by_cases h0 : commonPrefixLen out1 out2 = 0
    · simp [h0]
    · cases out1 with
      | nil => simp at hn; omega
      | cons o os =>
        obtain ⟨m, hm'⟩ := Nat.exists_eq_succ_of_ne_zero h0
        simp [hm', h0]
  rw [hemp, ← typeOuts_append, commonPrefixLen_take, List.take_append_drop]

/-- The follow-up chord `K2 ↦ out2` of the chain `P`, pressed in any order from the idle state the
release of the chain's last chord left (smart-space state inactive, or the first key no punctuation):
the run result in terms of the prior output count. -/
theorem followup_run (cfg : Cfg) (ph : Phase) (s0 s : Zchd) (b : Buf) (P : Path) (K2 : Key) (out2 : List ZchOut)
    (front : List (Nat × Nat)) (last : Nat)
    (hfol : Followed ph s0 s P) (hmods : ModsAgree s b)
    (hne : ssmIsEmpty (levelSsm cfg.dict []) = false)
    (hent : FollowEntry cfg.dict P K2 out2)
    (hkeys : ∀ x ∈ K2, isZippyIgnored x = false)
    (hss : s.smartSpaceState = .inactive ∨
      cfg.punctuation.contains (puncOf s ((front.map (·.1) ++ [last]).headD 0)) = false)
    (hout : out2.isEmpty = false) (hko : ∀ o ∈ out2, CharKey o.osc)
    (hperm : (front.map (·.1) ++ [last]).Perm K2)
    (hgap : ∀ kg ∈ front, kg.2 ≤ TICKS_UNTIL_FORCE_STATE_RESET)
    (hdl : cfg.ticksChordDeadline = 0 ∨ (front.map (·.2)).sum < cfg.ticksChordDeadline) :
    RunResult cfg (idlePhase s) s b front.length (front.map (·.1) ++ [last]) out2 P true
      ((zRun cfg s (chordHist front ++ [.press last])).1, (zRun cfg s (chordHist front ++ [.press last])).2) b := by
  obtain ⟨hmem, hlastK, hlast_notin, hfull⟩ := perm_facts hent.sorted hperm
  apply idle_run cfg s b front last out2 P true hfol.idle hmods hne
    (fun k hk => hkeys k ((hmem k).mp hk)) hss
  · intro ks hks hpre
    rw [hfol.prio]
    apply hent.find_part
    · intro h
      have : chordKey ks = [] := h
      obtain ⟨y, hy⟩ := List.exists_mem_of_ne_nil ks hks
      have := (mem_chordKey ks y).mpr hy
      simp_all
    · intro x hx
      exact (hmem x).mp (List.mem_append_left _ (hpre.subset ((mem_chordKey _ _).mp hx)))
    · intro heq
      have : last ∈ chordKey ks := heq ▸ hlastK
      exact hlast_notin (hpre.subset ((mem_chordKey _ _).mp this))
  · rw [hfol.prio, hfull]; exact hent.find_full
  · exact hout
  · exact hko
  · exact hgap
  · exact hdl

/-! ### End to end: a line `c1 c2 ↦ out` whose first chord has no output of its own -/

/-- `K1` is a top-level chord with empty output (it only leads to follow-ups), stored once, with no
top-level chord properly inside it. -/
abbrev LeadEntry (d : Dict) (K1 : Key) : Prop := BasicEntry d K1 []

theorem followup_raw_run (cfg : Cfg) (K1 K2 : Key) (out2 : List ZchOut) (s : Zchd) (b : Buf)
    (front1 : List (Nat × Nat)) (last1 : Nat) (rels : List (Nat × Nat)) (g : Nat)
    (front2 : List (Nat × Nat)) (last2 : Nat)
    (hlead : LeadEntry cfg.dict K1) (hent : FollowEntry cfg.dict [K1] K2 out2)
    (hkeys1 : ∀ x ∈ K1, isZippyIgnored x = false) (hkeys2 : ∀ x ∈ K2, isZippyIgnored x = false)
    (hout : out2.isEmpty = false) (hko : ∀ o ∈ out2, CharKey o.osc)
    (hperm1 : (front1.map (·.1) ++ [last1]).Perm K1)
    (hrel : (rels.map (·.2)).Perm K1)
    (hperm2 : (front2.map (·.1) ++ [last2]).Perm K2)
    (hgap1 : ∀ kg ∈ front1, kg.2 ≤ TICKS_UNTIL_FORCE_STATE_RESET)
    (hgapr : ∀ gk ∈ rels, gk.1 ≤ TICKS_UNTIL_FORCE_STATE_RESET)
    (hg : g ≤ TICKS_UNTIL_FORCE_STATE_RESET)
    (hgap2 : ∀ kg ∈ front2, kg.2 ≤ TICKS_UNTIL_FORCE_STATE_RESET)
    (hdl1 : cfg.ticksChordDeadline = 0 ∨ (front1.map (·.2)).sum < cfg.ticksChordDeadline)
    (hdlr : cfg.ticksChordDeadline = 0 ∨ (rels.headD (0, 0)).1 < cfg.ticksChordDeadline)
    (hdl2 : cfg.ticksChordDeadline = 0 ∨ (front2.map (·.2)).sum < cfg.ticksChordDeadline)
    (hfresh : Fresh s) (hss : s.smartSpaceState = .inactive) (hmods : ModsAgree s b) :
    let r := zRun cfg s ((chordHist front1 ++ [.press last1]) ++ (relHist rels ++
      (List.replicate g .tick ++ (chordHist front2 ++ [.press last2]))))
    (b.run r.2).rtext = withSmartSpace cfg out2 (typeOuts b.rtext (s.lsft || s.rsft) out2) ∧
    ModsAgree s (b.run r.2) := by
  intro r
  have hne := hlead.root_nonempty
  obtain ⟨hmem1, hlast1K, hlast1_notin, hfull1⟩ := perm_facts hlead.sorted hperm1
  have hK1nd : K1.Nodup := hlead.sorted.imp (fun h => Nat.ne_of_lt h)
  -- chord 1, all presses but the last
  have hpart1 : ∀ ks, ks ≠ [] → ks <+: front1.map (·.1) →
      findChordK cfg s.prioritized (chordKey ks) = .subset := by
    intro ks _ hpre
    rw [hfresh.prio, findChordK_none]
    have : lookupLevel cfg.dict [] (chordKey ks) = .isSubset := by
      apply hlead.lookup_part
      · intro x hx
        exact (hmem1 x).mp (List.mem_append_left _ (hpre.subset ((mem_chordKey _ _).mp hx)))
      · intro heq
        have : last1 ∈ chordKey ks := heq ▸ hlast1K
        exact hlast1_notin (hpre.subset ((mem_chordKey _ _).mp this))
    rw [this]
  obtain ⟨hr1, hb1, hss1⟩ := idle_before_last cfg s b front1 hfresh.idle hne
    (fun k hk => hkeys1 k ((hmem1 k).mp (List.mem_append_left _ hk))) hss hpart1 hgap1 hdl1
  -- its completing press
  have hfc1 : (findChordK cfg (idlePhase s).prio0 (chordKey ((idlePhase s).pre ++ (front1.map (·.1) ++ [last1])))).act =
      some ([], [], false) := by
    simp only [idlePhase, List.nil_append, hfresh.prio, findChordK_none, hfull1, hlead.lookup_full]; rfl
  obtain ⟨hb2, hheld, hss2⟩ := final_press_empty (cfg := cfg) hr1 (by simpa using hb1) hmods hne last1
    (hkeys1 last1 hlast1K) [] false hfc1 hss1
  simp only [idlePhase, List.nil_append, hfull1] at hheld
  -- the follow-up map is in force
  have hfolP : (emptyPhase (idlePhase s) cfg (front1.map (·.1)).length (front1.map (·.1) ++ [last1]) [] false).prio0 =
      some [K1] := by
    have : hasFollowups cfg.dict [K1] = true := by
      have := hent.mem
      simp only [level, List.mem_map, List.mem_filter, decide_eq_true_eq] at this
      obtain ⟨n, ⟨hn, hpar⟩, _⟩ := this
      simp only [hasFollowups, List.any_eq_true, decide_eq_true_eq]
      exact ⟨n, hn, hpar⟩
    simp [emptyPhase, hfull1, this]
  -- release
  have hrelne : rels ≠ [] := by
    intro h; subst h
    have := hrel.length_eq
    simp at this
    exact hlead.ne (List.eq_nil_of_length_eq_zero this.symm)
  obtain ⟨hrev, hfol, hss3, htz⟩ := release_run cfg _ s [K1] hfolP hne rels _ K1 0 0 true hrelne
    (by simpa [idlePhase] using hheld) (fun x => hrel.mem_iff) (hrel.nodup_iff.mpr hK1nd)
    (fun gk hgk => hkeys1 gk.2 ((hrel.mem_iff).mp (List.mem_map.mpr ⟨gk, hgk, rfl⟩)))
    hgapr (by
      simp only [Nat.zero_add]
      cases rels with
      | nil => exact absurd rfl hrelne
      | cons gk _ => exact hgapr gk (List.mem_cons_self ..))
    (fun _ => by rcases hdlr with h0 | h1; exact Or.inl h0; exact Or.inr (by omega))
  -- the idle gap
  obtain ⟨hfol4, hss4⟩ := hfol.ticks g (by rw [htz]; omega)
  -- name the intermediate states and buffers
  generalize hs1 : zRun cfg s (chordHist front1) = r1 at hr1 hb1 hss1 hb2 hheld hss2 hrev hfol hss3 htz hfol4 hss4
  generalize hs2 : zchPressKey cfg r1.1 last1 = r2 at hb2 hheld hss2 hrev hfol hss3 htz hfol4 hss4
  generalize hs3 : zRun cfg r2.1 (relHist rels) = r3 at hrev hfol hss3 htz hfol4 hss4
  have hrun : r = ((zRun cfg (ticksN r3.1 g) (chordHist front2 ++ [.press last2])).1,
      r1.2 ++ (r2.2 ++ (r3.2 ++ (zRun cfg (ticksN r3.1 g) (chordHist front2 ++ [.press last2])).2))) := by
    show zRun cfg s ((chordHist front1 ++ [.press last1]) ++ (relHist rels ++
      (List.replicate g .tick ++ (chordHist front2 ++ [.press last2])))) = _
    have e1 : zRun cfg s (chordHist front1 ++ [.press last1]) = (r2.1, r1.2 ++ r2.2) := by
      rw [zRun_append, hs1]
      have : zRun cfg r1.1 [ZEv.press last1] = r2 := by rw [← hs2]; simp [zRun, zStep]
      rw [this]
    rw [zRun_append, e1]
    simp only
    rw [zRun_append, hs3]
    simp only
    rw [zRun_append, zRun_ticks]
    simp [List.append_assoc]
  -- the buffer before the follow-up chord: the keys of chord 1 on top of the text before
  have hb3 : BufForming b (b.run (r1.2 ++ (r2.2 ++ r3.2))) ((front1.map (·.1)).length + 1) := by
    rw [run_append, run_append, hrev, run_ups _ _ (fun k hk => (not_ignored_ne
      (hkeys1 k ((hrel.mem_iff).mp hk))).2.2.2.2)]
    exact hb2
  obtain ⟨⟨L1, hL1, hrt1⟩, hm1, hm2, hm3⟩ := hb3
  have hmods4 : ModsAgree (ticksN r3.1 g) (b.run (r1.2 ++ (r2.2 ++ r3.2))) := by
    obtain ⟨a1, a2, a3⟩ := hmods
    exact ⟨by rw [hm1, a1, hfol4.lsft], by rw [hm2, a2, hfol4.rsft], by rw [hm3, a3, hfol4.altgr]⟩
  have hss5 : (ticksN r3.1 g).smartSpaceState = .inactive := by rw [hss4, hss3, hss2]
  obtain ⟨⟨L2, hL2, ht2⟩, hmr, _, _, _, _⟩ := followup_run cfg _ s (ticksN r3.1 g) (b.run (r1.2 ++ (r2.2 ++ r3.2)))
    [K1] K2 out2 front2 last2 hfol4 hmods4 hne hent hkeys2 (Or.inl hss5) hout hko hperm2 hgap2 hdl2
  have hcpl : phaseCpl (idlePhase (ticksN r3.1 g)) out2 true = 0 := by
    unfold phaseCpl idlePhase
    simp only [hfol4.prior, emptyPhase]
    cases out2 <;> simp [commonPrefixLen]
  have hbs : phaseBs (idlePhase (ticksN r3.1 g)) front2.length out2 true = L2.length + L1.length := by
    unfold phaseBs
    rw [hcpl]
    simp only [idlePhase, hfol4.pc, emptyPhase, if_true, hL1, hL2]
    simp
    omega
  rw [hrun]
  simp only
  constructor
  · have : b.run (r1.2 ++ (r2.2 ++ (r3.2 ++ (zRun cfg (ticksN r3.1 g) (chordHist front2 ++ [.press last2])).2))) =
        (b.run (r1.2 ++ (r2.2 ++ r3.2))).run (zRun cfg (ticksN r3.1 g) (chordHist front2 ++ [.press last2])).2 := by
      simp [run_append]
    rw [this, ht2, hcpl, hbs, hrt1]
    have hd : List.drop (L2.length + L1.length) (L2 ++ (L1 ++ b.rtext)) = b.rtext := by
      rw [← List.append_assoc, ← List.length_append, List.drop_left]
    rw [hd, hfol4.lsft, hfol4.rsft]
    simp
  · have : b.run (r1.2 ++ (r2.2 ++ (r3.2 ++ (zRun cfg (ticksN r3.1 g) (chordHist front2 ++ [.press last2])).2))) =
        (b.run (r1.2 ++ (r2.2 ++ r3.2))).run (zRun cfg (ticksN r3.1 g) (chordHist front2 ++ [.press last2])).2 := by
      simp [run_append]
    rw [this]
    obtain ⟨a1, a2, a3⟩ := hmr
    exact ⟨by rw [a1, hfol4.lsft], by rw [a2, hfol4.rsft], by rw [a3, hfol4.altgr]⟩

/-! ### End to end: `c1 ↦ outA`, `c1 c2 ↦ out2` (the follow-up replaces the first expansion) -/

theorem followup_typed_run (cfg : Cfg) (K1 K2 : Key) (outA out2 : List ZchOut) (s : Zchd) (b : Buf)
    (front1 : List (Nat × Nat)) (last1 : Nat) (rels : List (Nat × Nat)) (g : Nat)
    (front2 : List (Nat × Nat)) (last2 : Nat)
    (hent1 : BasicEntry cfg.dict K1 outA) (hent : FollowEntry cfg.dict [K1] K2 out2)
    (hkeys1 : ∀ x ∈ K1, isZippyIgnored x = false) (hkeys2 : ∀ x ∈ K2, isZippyIgnored x = false)
    (houtA : outA.isEmpty = false) (hkoA : ∀ o ∈ outA, CharKey o.osc) (hpA : PlainOuts outA)
    (hout : out2.isEmpty = false) (hko : ∀ o ∈ out2, CharKey o.osc)
    (hperm1 : (front1.map (·.1) ++ [last1]).Perm K1)
    (hrel : (rels.map (·.2)).Perm K1)
    (hperm2 : (front2.map (·.1) ++ [last2]).Perm K2)
    (hgap1 : ∀ kg ∈ front1, kg.2 ≤ TICKS_UNTIL_FORCE_STATE_RESET)
    (hgapr : ∀ gk ∈ rels, gk.1 ≤ TICKS_UNTIL_FORCE_STATE_RESET)
    (hg : g ≤ TICKS_UNTIL_FORCE_STATE_RESET)
    (hgap2 : ∀ kg ∈ front2, kg.2 ≤ TICKS_UNTIL_FORCE_STATE_RESET)
    (hdl1 : cfg.ticksChordDeadline = 0 ∨ (front1.map (·.2)).sum < cfg.ticksChordDeadline)
    (hdlr : cfg.ticksChordDeadline = 0 ∨ (rels.headD (0, 0)).1 < cfg.ticksChordDeadline)
    (hdl2 : cfg.ticksChordDeadline = 0 ∨ (front2.map (·.2)).sum < cfg.ticksChordDeadline)
    (hfresh : Fresh s) (hmods : ModsAgree s b) :
    let base := bufAfterPunct cfg s ((front1.map (·.1) ++ [last1]).headD 0) b
    let r := zRun cfg s ((chordHist front1 ++ [.press last1]) ++ (relHist rels ++
      (List.replicate g .tick ++ (chordHist front2 ++ [.press last2]))))
    (b.run r.2).rtext = withSmartSpace cfg out2 (typeOuts base.rtext (s.lsft || s.rsft) out2) ∧
    ModsAgree s (b.run r.2) := by
  intro base r
  have hne := hent1.root_nonempty
  have hK1nd : K1.Nodup := hent1.sorted.imp (fun h => Nat.ne_of_lt h)
  obtain ⟨_, _, _, hfull1⟩ := perm_facts hent1.sorted hperm1
  -- chord 1
  obtain ⟨ht1, hm1, hc1, hk1, hpost1, hss1⟩ := basic_run cfg K1 outA s b front1 last1 hent1 hkeys1 houtA hkoA
    hperm1 hgap1 hdl1 hfresh hmods
  have hheld := hpost1.held hc1
  simp only [postPhase, idlePhase, List.nil_append, hfull1] at hheld
  have hfolP : (postPhase (idlePhase (afterPunct cfg s ((front1.map (·.1) ++ [last1]).headD 0))) cfg
      (front1.map (·.1) ++ [last1]) outA []).prio0 = some [K1] := by
    have : hasFollowups cfg.dict [K1] = true := by
      have := hent.mem
      simp only [level, List.mem_map, List.mem_filter, decide_eq_true_eq] at this
      obtain ⟨n, ⟨hn, hpar⟩, _⟩ := this
      simp only [hasFollowups, List.any_eq_true, decide_eq_true_eq]
      exact ⟨n, hn, hpar⟩
    simp [postPhase, hfull1, this]
  have hrelne : rels ≠ [] := by
    intro h; subst h
    have := hrel.length_eq
    simp at this
    exact hent1.ne (List.eq_nil_of_length_eq_zero this.symm)
  -- release
  obtain ⟨hrev, hfol, hss3, htz⟩ := release_run cfg _ s [K1] hfolP hne rels _ K1 0 0 true hrelne
    (by simpa [postPhase, idlePhase, hfull1] using hheld) (fun x => hrel.mem_iff) (hrel.nodup_iff.mpr hK1nd)
    (fun gk hgk => hkeys1 gk.2 ((hrel.mem_iff).mp (List.mem_map.mpr ⟨gk, hgk, rfl⟩)))
    hgapr (by
      simp only [Nat.zero_add]
      cases rels with
      | nil => exact absurd rfl hrelne
      | cons gk _ => exact hgapr gk (List.mem_cons_self ..))
    (fun _ => by rcases hdlr with h0 | h1; exact Or.inl h0; exact Or.inr (by omega))
  obtain ⟨hfol4, hss4⟩ := hfol.ticks g (by rw [htz]; omega)
  generalize hs1 : zRun cfg s (chordHist front1 ++ [.press last1]) = r1 at ht1 hm1 hc1 hk1 hpost1 hss1 hheld hrev hfol hss3 htz hfol4 hss4
  generalize hs3 : zRun cfg r1.1 (relHist rels) = r3 at hrev hfol hss3 htz hfol4 hss4
  have hrun : r = ((zRun cfg (ticksN r3.1 g) (chordHist front2 ++ [.press last2])).1,
      r1.2 ++ (r3.2 ++ (zRun cfg (ticksN r3.1 g) (chordHist front2 ++ [.press last2])).2)) := by
    show zRun cfg s ((chordHist front1 ++ [.press last1]) ++ (relHist rels ++
      (List.replicate g .tick ++ (chordHist front2 ++ [.press last2])))) = _
    rw [zRun_append, hs1, zRun_append, hs3, zRun_append, zRun_ticks]
    simp [List.append_assoc]
  -- the buffer before the follow-up chord
  have hb3 : b.run (r1.2 ++ r3.2) = b.run r1.2 := by
    rw [run_append, hrev, run_ups _ _ (fun k hk => (not_ignored_ne
      (hkeys1 k ((hrel.mem_iff).mp hk))).2.2.2.2)]
  have hmods4 : ModsAgree (ticksN r3.1 g) (b.run (r1.2 ++ r3.2)) := by
    rw [hb3]
    obtain ⟨a1, a2, a3⟩ := hm1
    exact ⟨by rw [a1, hfol4.lsft], by rw [a2, hfol4.rsft], by rw [a3, hfol4.altgr]⟩
  obtain ⟨hmem2, hlast2K, hlast2_notin, hfull2⟩ := perm_facts hent.sorted hperm2
  -- the follow-up chord (its first key may be a punctuation key removing the smart space)
  obtain ⟨hbeq, hreq, hres⟩ := idle_run_any cfg (ticksN r3.1 g) (b.run (r1.2 ++ r3.2)) front2 last2 out2 [K1] true
    hfol4.idle hmods4 hne (fun k hk => hkeys2 k ((hmem2 k).mp hk))
    (by
      intro ks hks hpre
      rw [hfol4.prio]
      apply hent.find_part
      · intro h
        obtain ⟨y, hy⟩ := List.exists_mem_of_ne_nil ks hks
        have := (mem_chordKey ks y).mpr hy
        simp_all
      · intro x hx
        exact (hmem2 x).mp (List.mem_append_left _ (hpre.subset ((mem_chordKey _ _).mp hx)))
      · intro heq
        have : last2 ∈ chordKey ks := heq ▸ hlast2K
        exact hlast2_notin (hpre.subset ((mem_chordKey _ _).mp this)))
    (by rw [hfol4.prio, hfull2]; exact hent.find_full)
    hout hko hgap2 hdl2
  obtain ⟨⟨L2, hL2, ht2⟩, hmr, _, _, _, _⟩ := hres
  generalize hfk : (front2.map (·.1) ++ [last2]).headD 0 = fk at hbeq hreq ht2 hmr
  generalize hs4 : ticksN r3.1 g = s4 at hfol4 hss4 hmods4 hbeq hreq ht2 hmr hrun
  -- the state and the buffer after the possible punctuation erasure
  have hs4' : (afterPunct cfg s4 fk).lsft = s.lsft ∧ (afterPunct cfg s4 fk).rsft = s.rsft ∧
      (afterPunct cfg s4 fk).altgr = s.altgr ∧ (afterPunct cfg s4 fk).priorActivation = some outA ∧
      (afterPunct cfg s4 fk).priorActivationOutputCount =
        (outA.length : Int) + (if wantsSmartSpace cfg outA = true ∧ punctFires cfg s4 fk = false then 1 else 0) ∧
      (punctFires cfg s4 fk = true → wantsSmartSpace cfg outA = true) := by
    have hfire : punctFires cfg s4 fk = true → wantsSmartSpace cfg outA = true := by
      intro hf
      unfold punctFires at hf
      simp only [Bool.and_eq_true, decide_eq_true_eq] at hf
      rw [hss4, hss3, hss1] at hf
      by_cases hw : wantsSmartSpace cfg outA = true ∧ cfg.smartSpace = .full
      · exact hw.1
      · rw [if_neg hw] at hf; cases hf.1
    have hpc := hfol4.pc
    have hpr := hfol4.prior
    have hpo := hfol4.prio
    simp only [postPhase, displayLen_plain outA hpA] at hpc hpr
    refine ⟨?_, ?_, ?_, ?_, ?_, hfire⟩
    · simp only [afterPunct]; split <;> simp [punctState, hfol4.lsft]
    · simp only [afterPunct]; split <;> simp [punctState, hfol4.rsft]
    · simp only [afterPunct]; split <;> simp [punctState, hfol4.altgr]
    · simp only [afterPunct]; split <;> simp [punctState, hpr]
    · simp only [afterPunct]
      cases hf : punctFires cfg s4 fk
      · simp only [Bool.false_eq_true, if_false, hpc, and_true]
      · have hw := hfire hf
        simp only [if_true, punctState, hpo, Option.isSome_some, hpc, hw]
        first | omega | (simp; done) | (simp; omega)
  have hcpl : phaseCpl (idlePhase (afterPunct cfg s4 fk)) out2 true = commonPrefixLen outA out2 := by
    unfold phaseCpl idlePhase
    simp [hs4'.2.2.2.1]
  have hn := commonPrefixLen_le outA out2
  have hbs : phaseBs (idlePhase (afterPunct cfg s4 fk)) front2.length out2 true =
      L2.length + ((if (wantsSmartSpace cfg outA && !punctFires cfg s4 fk) = true then 1 else 0) +
        (outA.length - commonPrefixLen outA out2)) := by
    unfold phaseBs
    rw [hcpl]
    simp only [idlePhase, hs4'.2.2.2.2.1, if_true, hL2]
    cases wantsSmartSpace cfg outA <;> cases punctFires cfg s4 fk <;> simp <;> omega
  have hbuf : (bufAfterPunct cfg s4 fk (b.run (r1.2 ++ r3.2))).rtext =
      (if (wantsSmartSpace cfg outA && !punctFires cfg s4 fk) = true then
        stroke (typeOuts base.rtext (s.lsft || s.rsft) outA) KEY_SPACE false false
       else typeOuts base.rtext (s.lsft || s.rsft) outA) := by
    rw [hb3]
    simp only [bufAfterPunct]
    cases hf : punctFires cfg s4 fk
    · simp only [Bool.false_eq_true, if_false, Bool.not_false, Bool.and_true, ht1, withSmartSpace]
      rfl
    · have hw := hs4'.2.2.2.2.2 hf
      simp only [if_true, ht1, withSmartSpace, hw, Bool.not_true, Bool.and_false, Bool.false_eq_true, if_false]
      unfold stroke
      rw [if_neg (by decide)]
      rfl
  rw [hrun]
  simp only
  have hsplit : b.run (r1.2 ++ (r3.2 ++ (zRun cfg s4 (chordHist front2 ++ [.press last2])).2)) =
      (b.run (r1.2 ++ r3.2)).run (zRun cfg s4 (chordHist front2 ++ [.press last2])).2 := by
    simp [run_append]
  constructor
  · rw [hsplit, hbeq, ht2, hcpl, hbs, hbuf, hs4'.1, hs4'.2.1]
    rw [reuse_prefix_text base.rtext (s.lsft || s.rsft) outA out2 hpA _ L2]
  · rw [hsplit, hbeq]
    obtain ⟨a1, a2, a3⟩ := hmr
    exact ⟨by rw [a1, hs4'.1], by rw [a2, hs4'.2.1], by rw [a3, hs4'.2.2.1]⟩

end KVerif.Zippy
