/-
C13 helper lemmas, part 5: the order-free specification (`specHeld`) and the pass agree whenever no
modifier of a contained combination comes after its key.
-/
import KVerif.Lemmas.OverridePipe
namespace KVerif.Override

theorem mem_insertSorted {x y : Nat} {l : List Nat} : x ∈ insertSorted y l ↔ x = y ∨ x ∈ l := by
  induction l with
  | nil => simp [insertSorted]
  | cons z rest ih =>
    simp only [insertSorted]
    split
    · simp
    · split
      · rename_i h; subst h; simp
      · simp only [List.mem_cons, ih]
        constructor
        · rintro (h | h | h)
          · exact Or.inr (Or.inl h)
          · exact Or.inl h
          · exact Or.inr (Or.inr h)
        · rintro (h | h | h)
          · exact Or.inr (Or.inl h)
          · exact Or.inl h
          · exact Or.inr (Or.inr h)

theorem mem_sortDedup {x : Nat} {l : List Nat} : x ∈ sortDedup l ↔ x ∈ l := by
  induction l with
  | nil => simp [sortDedup]
  | cons y rest ih =>
    have : sortDedup (y :: rest) = insertSorted y (sortDedup rest) := rfl
    rw [this, mem_insertSorted, ih]; simp

/-! ### `maxLen` -/

theorem foldl_max_ge (cs : List Override) (a : Nat) :
    a ≤ cs.foldl (fun m o => max m o.inMods.length) a ∧
      ∀ o ∈ cs, o.inMods.length ≤ cs.foldl (fun m o => max m o.inMods.length) a := by
  induction cs generalizing a with
  | nil => simp
  | cons c rest ih =>
    obtain ⟨h1, h2⟩ := ih (max a c.inMods.length)
    simp only [List.foldl_cons, List.mem_cons]
    refine ⟨by omega, ?_⟩
    rintro o (rfl | ho)
    · omega
    · exact h2 o ho

theorem foldl_max_le (cs : List Override) (a b : Nat) (ha : a ≤ b)
    (h : ∀ o ∈ cs, o.inMods.length ≤ b) : cs.foldl (fun m o => max m o.inMods.length) a ≤ b := by
  induction cs generalizing a with
  | nil => simpa
  | cons c rest ih =>
    simp only [List.foldl_cons]
    apply ih
    · have := h c (by simp); omega
    · intro o ho; exact h o (by simp [ho])

theorem maxLen_eq {cs : List Override} {w : Override} (hw : w ∈ cs)
    (h : ∀ o ∈ cs, o.inMods.length ≤ w.inMods.length) : maxLen cs = w.inMods.length := by
  have h1 := (foldl_max_ge cs 0).2 w hw
  have h2 := foldl_max_le cs 0 w.inMods.length (by omega) h
  unfold maxLen; omega

/-! ### no late modifier ⇒ "all modifiers before the key" = "combination contained" -/

theorem lateAt_false {o : Override} {pre ks : List Nat} (h : lateAt o pre ks = false) :
    ∀ l1 l2, ks = l1 ++ o.inKey :: l2 → o.modsIn (pre ++ l1) = true := by
  induction ks generalizing pre with
  | nil => intro l1 l2 h'; simp at h'
  | cons k rest ih =>
    intro l1 l2 hks
    simp only [lateAt, Bool.or_eq_false_iff, Bool.and_eq_false_iff] at h
    obtain ⟨h1, h2⟩ := h
    cases l1 with
    | nil =>
      simp only [List.nil_append, List.cons.injEq] at hks
      obtain ⟨rfl, _⟩ := hks
      rcases h1 with h1 | h1
      · simp at h1
      · simpa [Override.modsIn] using h1
    | cons x l1' =>
      simp only [List.cons_append, List.cons.injEq] at hks
      obtain ⟨rfl, hks⟩ := hks
      have := ih h2 l1' l2 hks
      simpa [List.append_assoc] using this

theorem containedIn_iff (o : Override) (ks : List Nat) :
    o.containedIn ks = true ↔ o.inKey ∈ ks ∧ ∀ m ∈ o.inMods, m ∈ ks := by
  simp only [Override.containedIn, Override.combo, List.all_append, List.all_cons, List.all_nil,
    Bool.and_true, Bool.and_eq_true, List.all_eq_true, List.contains_eq_mem, decide_eq_true_eq]
  exact ⟨fun ⟨a, b⟩ => ⟨b, a⟩, fun ⟨a, b⟩ => ⟨b, a⟩⟩

theorem modsIn_eq_containedIn {tbl : List Override} {ks l1 l2 : List Nat} {k : Nat}
    (hks : ks = l1 ++ k :: l2) (hlate : lateMod tbl ks = false) {o : Override} (ho : o ∈ tbl)
    (hk : o.inKey = k) : o.modsIn l1 = o.containedIn ks := by
  cases hc : o.containedIn ks with
  | true =>
    have hl : lateAt o [] ks = false := by
      simp only [lateMod, List.any_eq_false, Bool.and_eq_true, not_and, Bool.not_eq_true] at hlate
      exact hlate o ho hc
    have := lateAt_false hl l1 l2 (by rw [hks, hk])
    simpa using this
  | false =>
    cases hm : o.modsIn l1 with
    | false => rfl
    | true =>
      have : o.containedIn ks = true := by
        rw [containedIn_iff]
        refine ⟨by rw [hks, hk]; simp, ?_⟩
        intro m hmem
        have := (o.modsIn_iff l1).mp hm m hmem
        rw [hks]; simp [this]
      rw [hc] at this; cases this

theorem candidates_eq (tbl : List Override) (ks : List Nat) (k : Nat) :
    candidates tbl ks k =
      (tbl.filter (fun o => o.inKey == k)).filter (fun o => o.containedIn ks) := by
  rw [List.filter_filter]
  unfold candidates
  congr 1
  funext o
  exact Bool.and_comm _ _

/-- At an occurrence of the non-modifier key `k`, without late modifiers, whatever the statement
determines is what `update_keys` selects. -/
theorem winner_agrees {tbl : List Override} {ks l1 l2 : List Nat} {k : Nat}
    (hks : ks = l1 ++ k :: l2) (hlate : lateMod tbl ks = false)
    {r : Option Override} (hs : specWinner tbl ks k = some r) : winnerAt tbl l1 k = r := by
  have hag : ∀ o ∈ tbl.filter (fun o => o.inKey == k), o.modsIn l1 = o.containedIn ks := by
    intro o ho
    have := List.mem_filter.mp ho
    exact modsIn_eq_containedIn hks hlate this.1 (by simpa using this.2)
  unfold specWinner at hs
  simp only [candidates_eq] at hs
  cases hw : winnerAt tbl l1 k with
  | none =>
    have hnone := (selectPure_none_iff l1 _).mp hw
    have hC : (tbl.filter (fun o => o.inKey == k)).filter (fun o => o.containedIn ks) = [] := by
      rw [List.filter_eq_nil_iff]
      intro o ho
      rw [← hag o ho, hnone o ho]; simp
    rw [hC] at hs
    simp at hs
    exact hs
  | some w =>
    obtain ⟨g1, g2, hg, hwm, hb, ha⟩ := (selectPure_some_iff l1 _ w).mp hw
    have hmem : ∀ o, o ∈ g1 ∨ o = w ∨ o ∈ g2 → o ∈ tbl.filter (fun o => o.inKey == k) := by
      intro o ho; rw [hg]; simp only [List.mem_append, List.mem_cons]
      rcases ho with h | h | h
      · exact Or.inl h
      · exact Or.inr (Or.inl h)
      · exact Or.inr (Or.inr h)
    have hwc : w.containedIn ks = true := by rw [← hag w (hmem w (Or.inr (Or.inl rfl)))]; exact hwm
    have hC : (tbl.filter (fun o => o.inKey == k)).filter (fun o => o.containedIn ks) =
        g1.filter (fun o => o.containedIn ks) ++ w :: g2.filter (fun o => o.containedIn ks) := by
      rw [hg, List.filter_append, List.filter_cons, hwc]; rfl
    have hmax : maxLen (g1.filter (fun o => o.containedIn ks) ++ w :: g2.filter (fun o => o.containedIn ks))
        = w.inMods.length := by
      apply maxLen_eq (by simp)
      intro o ho
      simp only [List.mem_append, List.mem_cons, List.mem_filter] at ho
      rcases ho with ⟨h1, h2⟩ | rfl | ⟨h1, h2⟩
      · have := hb o h1 (by rw [hag o (hmem o (Or.inl h1))]; exact h2); omega
      · omega
      · exact ha o h1 (by rw [hag o (hmem o (Or.inr (Or.inr h1)))]; exact h2)
    rw [hC, hmax] at hs
    have hg1 : (g1.filter (fun o => o.containedIn ks)).filter
        (fun o => o.inMods.length == w.inMods.length) = [] := by
      rw [List.filter_eq_nil_iff]
      intro o ho
      have ho' := List.mem_filter.mp ho
      have := hb o ho'.1 (by rw [hag o (hmem o (Or.inl ho'.1))]; exact ho'.2)
      simp; omega
    rw [List.filter_append, hg1, List.nil_append, List.filter_cons] at hs
    simp only [beq_self_eq_true, if_true] at hs
    split at hs
    · simp at hs; exact hs
    · cases hs

/-- a modifier key has no candidates in a well-formed table -/
theorem specWinner_mod {tbl : List Override} (hwf : ∀ o ∈ tbl, o.WF) {ks : List Nat} {k : Nat}
    (hk : isMod k = true) : specWinner tbl ks k = some none := by
  have : candidates tbl ks k = [] := by
    unfold candidates
    rw [List.filter_eq_nil_iff]
    intro o ho hc
    simp only [Bool.and_eq_true, beq_iff_eq] at hc
    have := (hwf o ho).2
    rw [hc.1, hk] at this; cases this
  simp [specWinner, this]

/-- the overrides the statement lets fire, key occurrence by key occurrence -/
theorem spec_winners_eq_applied {tbl : List Override} (hwf : ∀ o ∈ tbl, o.WF) {ks : List Nat}
    (hlate : lateMod tbl ks = false) (pre rest : List Nat) (hks : ks = pre ++ rest)
    (hall : ∀ k ∈ rest, (specWinner tbl ks k).isSome = true) :
    (rest.map (specWinner tbl ks)).filterMap (fun w => w.join) = applied tbl pre rest := by
  induction rest generalizing pre with
  | nil => simp [applied]
  | cons k rest' ih =>
    have hk := hall k (by simp)
    obtain ⟨r, hr⟩ := Option.isSome_iff_exists.mp hk
    have ih' := ih (pre ++ [k]) (by simp [hks]) (fun k' hk' => hall k' (by simp [hk']))
    simp only [List.map_cons, List.filterMap_cons, hr, applied]
    rw [ih']
    by_cases hm : isMod k = true
    · have := specWinner_mod hwf (ks := ks) hm
      rw [hr] at this
      cases this
      simp [hm]
    · have hw := winner_agrees (l1 := pre) (l2 := rest') hks hlate hr
      simp only [hm, hw]
      cases r <;> simp

/-- a firing override's combination is among the keys -/
theorem Fires.contained {tbl : List Override} {ks : List Nat} {o : Override} (h : Fires tbl ks o) :
    o ∈ tbl ∧ o.containedIn ks = true := by
  obtain ⟨l1, l2, hks, _, g1, g2, hg, hm, _, _⟩ := h
  have hmem : o ∈ tbl.filter (fun o' => o'.inKey == o.inKey) := by rw [hg]; simp
  refine ⟨(List.mem_filter.mp hmem).1, ?_⟩
  rw [containedIn_iff]
  refine ⟨by rw [hks]; simp, ?_⟩
  intro m hmm
  have := (o.modsIn_iff l1).mp hm m hmm
  rw [hks]; simp [this]


end KVerif.Override
