/-
Lemmas for `zippy_shift_restored`: every press, release and (non-resetting) tick keeps the OS-level
shift / AltGr state equal to the flags zippychord keeps about the user's modifiers, and equal to
what the user's own key event does to them.
-/
import KVerif.Lemmas.ZippyChord
namespace KVerif.Zippy
open KVerif.TextBuf

def modsOf (b : Buf) : Bool × Bool × Bool := (b.lsft, b.rsft, b.ralt)
def flagsOf (s : Zchd) : Bool × Bool × Bool := (s.lsft, s.rsft, s.altgr)

theorem modsAgree_iff (s : Zchd) (b : Buf) : ModsAgree s b ↔ modsOf b = flagsOf s := by
  simp [ModsAgree, modsOf, flagsOf]

/-- not one of the three modifiers the buffer tracks -/
def NotTracked (k : Nat) : Prop := k ≠ KEY_LEFTSHIFT ∧ k ≠ KEY_RIGHTSHIFT ∧ k ≠ KEY_RIGHTALT

theorem mods_step_down (b : Buf) (k : Nat) (h : NotTracked k) : modsOf (b.step (.down k)) = modsOf b := by
  obtain ⟨h1, h2, h3⟩ := h
  simp only [Buf.step, h1, h2, h3, if_false]
  split <;> rfl

theorem mods_step_up (b : Buf) (k : Nat) (h : NotTracked k) : modsOf (b.step (.up k)) = modsOf b := by
  obtain ⟨h1, h2, h3⟩ := h
  simp [Buf.step, h1, h2, h3]

theorem mods_run_bspc (b : Buf) : modsOf (b.run bspc) = modsOf b := by
  rw [run_bspc]; rfl

theorem charKey_notTracked {k : Nat} (h : CharKey k) : NotTracked k := ⟨h.1, h.2.1, h.2.2.1⟩

/-- Every expansion of the dictionary consists of character keys (no modifier key is "typed"). -/
def OutsOK (d : Dict) : Prop := ∀ n ∈ d, ∀ o ∈ n.out, CharKey o.osc

/-- An activation keeps the modifiers, whatever its output. -/
theorem mods_activate (cfg : Cfg) (s : Zchd) (k : Nat) (outs : List ZchOut) (ctx : Path) (isPrio : Bool)
    (b : Buf) (hk : ∀ o ∈ outs, CharKey o.osc) (hnt : NotTracked k) (hm : ModsAgree s b) :
    ModsAgree (activate cfg s k outs ctx isPrio).1 (b.run (activate cfg s k outs ctx isPrio).2) := by
  have hfl := activate_flags cfg s k outs ctx isPrio
  have key : ModsAgree s (b.run (activate cfg s k outs ctx isPrio).2) := by
    by_cases hne : outs.isEmpty = false
    · exact (run_activate cfg s k outs ctx isPrio b hne hk hm).1
    · have he : outs = [] := by simpa using hne
      subst he
      obtain ⟨hl, hr, ha⟩ := hm
      have hev : (activate cfg s k [] ctx isPrio).2 = [OsEv.down k] ++
          (if !s.capsWord then
            (if s.lsft then [OsEv.down KEY_LEFTSHIFT] else []) ++ (if s.rsft then [OsEv.down KEY_RIGHTSHIFT] else [])
           else []) := by
        have hc0 : ∀ p : List ZchOut, commonPrefixLen p [] = 0 := by
          intro p; cases p <;> rfl
        unfold activate
        cases hpa : s.priorActivation <;> simp [wantsSmartSpace, sendKeys, hc0, hpa]
      rw [hev, run_append]
      have hb1 : modsOf (b.run [OsEv.down k]) = modsOf b := by
        simp only [run_cons, run_nil]; exact mods_step_down b k hnt
      have h1 : (b.run [OsEv.down k]).lsft = s.lsft := by
        have := congrArg (·.1) hb1; simpa [modsOf, hl] using this
      have h2 : (b.run [OsEv.down k]).rsft = s.rsft := by
        have := congrArg (·.2.1) hb1; simpa [modsOf, hr] using this
      have h3 : (b.run [OsEv.down k]).ralt = s.altgr := by
        have := congrArg (·.2.2) hb1; simpa [modsOf, ha] using this
      rw [run_sftBack _ s.capsWord s.lsft s.rsft (Or.inl h1) (Or.inl h2)]
      exact ⟨rfl, rfl, h3⟩
  obtain ⟨h1, h2, h3⟩ := key
  exact ⟨by rw [hfl.1]; exact h1, by rw [hfl.2.1]; exact h2, by rw [hfl.2.2.1]; exact h3⟩

theorem softReset_flags (s : Zchd) : flagsOf s.softReset = flagsOf s := rfl

theorem punctStage_mods (cfg : Cfg) (s : Zchd) (k : Nat) (b : Buf) :
    flagsOf (punctStage cfg s k).1 = flagsOf s ∧ modsOf (b.run (punctStage cfg s k).2) = modsOf b := by
  cases h : punctFires cfg s k
  · rw [punctStage_none cfg s k ((punctFires_false_iff cfg s k).mp h)]
    exact ⟨rfl, rfl⟩
  · rw [punctStage_fires cfg s k h]
    exact ⟨rfl, mods_run_bspc b⟩

theorem enterKey_flags (cfg : Cfg) (s : Zchd) (k : Nat) : flagsOf (enterKey cfg s k) = flagsOf s := by
  unfold enterKey Zchd.activateChordDeadline Zchd.stateChange flagsOf
  split <;> rfl

theorem findChord_out_mem (cfg : Cfg) (s : Zchd) :
    (∀ p a, findChord cfg s = .prio p a → ∃ n ∈ cfg.dict, n.out = a) ∧
    (∀ a, findChord cfg s = .top a → ∃ n ∈ cfg.dict, n.out = a) := by
  unfold findChord findChordK
  have key : ∀ p a', lookupLevel cfg.dict p s.inputKeys = .hasValue a' → ∃ n ∈ cfg.dict, n.out = a' :=
    fun p a' h' => lookupLevel_hasValue_mem h'
  constructor
  · intro p a h
    cases hp : s.prioritized with
    | none =>
      simp only [hp] at h
      cases hl : lookupLevel cfg.dict [] s.inputKeys <;> simp [hl] at h
    | some q =>
      simp only [hp] at h
      cases hlp : lookupLevel cfg.dict q s.inputKeys with
      | hasValue a' =>
        simp only [hlp, Found.prio.injEq] at h
        obtain ⟨_, rfl⟩ := h
        exact key q _ hlp
      | isSubset =>
        simp only [hlp] at h
        cases hl : lookupLevel cfg.dict [] s.inputKeys <;> simp [hl] at h
      | neither =>
        simp only [hlp] at h
        cases hl : lookupLevel cfg.dict [] s.inputKeys <;> simp [hl] at h
  · intro a h
    cases hp : s.prioritized with
    | none =>
      simp only [hp] at h
      cases hl : lookupLevel cfg.dict [] s.inputKeys with
      | hasValue a' => simp only [hl, Found.top.injEq] at h; subst h; exact key _ _ hl
      | isSubset => simp [hl] at h
      | neither => simp [hl] at h
    | some q =>
      simp only [hp] at h
      cases hlp : lookupLevel cfg.dict q s.inputKeys with
      | hasValue a' => simp [hlp] at h
      | isSubset =>
        simp only [hlp] at h
        cases hl : lookupLevel cfg.dict [] s.inputKeys with
        | hasValue a' => simp only [hl, Found.top.injEq] at h; subst h; exact key _ _ hl
        | isSubset => simp [hl] at h
        | neither => simp [hl] at h
      | neither =>
        simp only [hlp] at h
        cases hl : lookupLevel cfg.dict [] s.inputKeys with
        | hasValue a' => simp only [hl, Found.top.injEq] at h; subst h; exact key _ _ hl
        | isSubset => simp [hl] at h
        | neither => simp [hl] at h

/-- A press of a key that is not one of the three modifiers: flags unchanged, buffer modifiers
unchanged. -/
theorem press_other_mods (cfg : Cfg) (s : Zchd) (k : Nat) (b : Buf)
    (hok : OutsOK cfg.dict) (hnt : NotTracked k) (hm : ModsAgree s b) :
    ModsAgree (zchPressKey cfg s k).1 (b.run (zchPressKey cfg s k).2) ∧
    flagsOf (zchPressKey cfg s k).1 = flagsOf s := by
  obtain ⟨h1, h2, h3⟩ := hnt
  -- a plain key-down of `k` after some events that kept the modifiers
  have hdown : ∀ (s' : Zchd) (ev : List OsEv), flagsOf s' = flagsOf s → modsOf (b.run ev) = modsOf b →
      ModsAgree s' (b.run (ev ++ [OsEv.down k])) ∧ flagsOf s' = flagsOf s := by
    intro s' ev hf hmb
    refine ⟨?_, hf⟩
    rw [modsAgree_iff] at hm ⊢
    rw [run_append]
    simp only [run_cons, run_nil]
    rw [mods_step_down _ k ⟨h1, h2, h3⟩, hmb, hm, hf]
  unfold zchPressKey
  by_cases he : ssmIsEmpty (levelSsm cfg.dict []) = true
  · rw [if_pos he]
    exact hdown s [] rfl rfl
  · rw [if_neg he, if_neg h1, if_neg h2, if_neg h3]
    by_cases hig : isZippyIgnored k = true
    · rw [if_pos hig]
      exact hdown s [] rfl rfl
    · rw [if_neg hig]
      obtain ⟨hpf, hpm⟩ := punctStage_mods cfg s k b
      simp only
      split
      · exact hdown _ _ (by simpa [flagsOf] using hpf) hpm
      · -- enabled: the lookups
        have hf2 : flagsOf (enterKey cfg { (punctStage cfg s k).1 with smartSpaceState := .inactive } k) = flagsOf s := by
          rw [enterKey_flags]; simpa [flagsOf] using hpf
        have hm2 : ModsAgree (enterKey cfg { (punctStage cfg s k).1 with smartSpaceState := .inactive } k)
            (b.run (punctStage cfg s k).2) := by
          rw [modsAgree_iff] at hm ⊢
          rw [hpm, hm, hf2]
        have hact : ∀ (a : List ZchOut) (p : Path) (pr : Bool), (∃ n ∈ cfg.dict, n.out = a) →
            ModsAgree (activate cfg (enterKey cfg { (punctStage cfg s k).1 with smartSpaceState := .inactive } k) k a p pr).1
              (b.run ((punctStage cfg s k).2 ++
                (activate cfg (enterKey cfg { (punctStage cfg s k).1 with smartSpaceState := .inactive } k) k a p pr).2)) ∧
            flagsOf (activate cfg (enterKey cfg { (punctStage cfg s k).1 with smartSpaceState := .inactive } k) k a p pr).1 =
              flagsOf s := by
          intro a p pr ⟨n, hn, hna⟩
          have hka : ∀ o ∈ a, CharKey o.osc := by subst hna; exact hok n hn
          rw [run_append]
          refine ⟨mods_activate cfg _ k a p pr _ hka ⟨h1, h2, h3⟩ hm2, ?_⟩
          have hfl := activate_flags cfg (enterKey cfg { (punctStage cfg s k).1 with smartSpaceState := .inactive } k) k a p pr
          rw [← hf2]
          simp only [flagsOf, hfl.1, hfl.2.1, hfl.2.2.1]
        obtain ⟨hmp, hmt⟩ := findChord_out_mem cfg (enterKey cfg { (punctStage cfg s k).1 with smartSpaceState := .inactive } k)
        split
        · next p a hfc => exact hact a p true (hmp p a hfc)
        · next a hfc => exact hact a [] false (hmt a hfc)
        · exact hdown _ _ (by simpa [flagsOf] using hf2) hpm
        · exact hdown _ _ (by rw [softReset_flags]; exact hf2) hpm

/-- the user's own key event applied to a buffer -/
def userStep (b : Buf) : ZEv → Buf
  | .press k => b.step (.down k)
  | .release k => b.step (.up k)
  | .tick => b

theorem tracked_cases (k : Nat) :
    k = KEY_LEFTSHIFT ∨ k = KEY_RIGHTSHIFT ∨ k = KEY_RIGHTALT ∨ NotTracked k := by
  by_cases h1 : k = KEY_LEFTSHIFT
  · exact Or.inl h1
  · by_cases h2 : k = KEY_RIGHTSHIFT
    · exact Or.inr (Or.inl h2)
    · by_cases h3 : k = KEY_RIGHTALT
      · exact Or.inr (Or.inr (Or.inl h3))
      · exact Or.inr (Or.inr (Or.inr ⟨h1, h2, h3⟩))

/-- One press: the flags follow the user's modifiers and the OS-level modifiers follow the flags. -/
theorem press_mods (cfg : Cfg) (s : Zchd) (k : Nat) (b : Buf)
    (hne : ssmIsEmpty (levelSsm cfg.dict []) = false) (hok : OutsOK cfg.dict) (hm : ModsAgree s b) :
    ModsAgree (zchPressKey cfg s k).1 (b.run (zchPressKey cfg s k).2) ∧
    modsOf (b.run (zchPressKey cfg s k).2) = modsOf (b.step (.down k)) := by
  obtain ⟨hl, hr, ha⟩ := hm
  rcases tracked_cases k with h | h | h | h
  · subst h
    unfold zchPressKey
    simp only [hne, Bool.false_eq_true, if_false, if_true, run_cons, run_nil, step_down_lsft]
    exact ⟨⟨rfl, hr, ha⟩, by first | trivial | rfl⟩
  · subst h
    unfold zchPressKey
    simp only [hne, Bool.false_eq_true, if_false, if_true, run_cons, run_nil, step_down_rsft]
    have : ¬ KEY_RIGHTSHIFT = KEY_LEFTSHIFT := by decide
    simp only [this, if_false, if_true, run_cons, run_nil, step_down_rsft]
    exact ⟨⟨hl, rfl, ha⟩, by first | trivial | rfl⟩
  · subst h
    unfold zchPressKey
    have h1 : ¬ KEY_RIGHTALT = KEY_LEFTSHIFT := by decide
    have h2 : ¬ KEY_RIGHTALT = KEY_RIGHTSHIFT := by decide
    simp only [hne, Bool.false_eq_true, if_false, h1, h2, if_true, run_cons, run_nil, step_down_ralt]
    exact ⟨⟨hl, hr, rfl⟩, by first | trivial | rfl⟩
  · obtain ⟨h1, h2⟩ := press_other_mods cfg s k b hok h ⟨hl, hr, ha⟩
    refine ⟨h1, ?_⟩
    rw [modsAgree_iff] at h1
    rw [h1, h2, mods_step_down b k h]
    simp [modsOf, flagsOf, hl, hr, ha]

theorem release_mods (cfg : Cfg) (s : Zchd) (k : Nat) (b : Buf)
    (hne : ssmIsEmpty (levelSsm cfg.dict []) = false) (hm : ModsAgree s b) :
    ModsAgree (zchReleaseKey cfg s k).1 (b.run (zchReleaseKey cfg s k).2) ∧
    modsOf (b.run (zchReleaseKey cfg s k).2) = modsOf (b.step (.up k)) := by
  obtain ⟨hl, hr, ha⟩ := hm
  have hrel : ∀ (s' : Zchd), flagsOf ((s'.stateChange cfg).releaseKey k) = flagsOf s' := by
    intro s'
    unfold Zchd.releaseKey Zchd.stateChange
    simp only
    split <;> try rfl
    split <;> rfl
  unfold zchReleaseKey
  simp only [hne, Bool.false_eq_true, if_false]
  rcases tracked_cases k with h | h | h | h
  · subst h
    have : isZippyIgnored KEY_LEFTSHIFT = true := by decide
    simp only [if_true, this, run_cons, run_nil, step_up_lsft]
    exact ⟨⟨rfl, hr, ha⟩, by first | trivial | rfl⟩
  · subst h
    have : isZippyIgnored KEY_RIGHTSHIFT = true := by decide
    have h1 : ¬ KEY_RIGHTSHIFT = KEY_LEFTSHIFT := by decide
    simp only [h1, if_false, if_true, this, run_cons, run_nil, step_up_rsft]
    exact ⟨⟨hl, rfl, ha⟩, by first | trivial | rfl⟩
  · subst h
    have : isZippyIgnored KEY_RIGHTALT = true := by decide
    have h1 : ¬ KEY_RIGHTALT = KEY_LEFTSHIFT := by decide
    have h2 : ¬ KEY_RIGHTALT = KEY_RIGHTSHIFT := by decide
    simp only [h1, h2, if_false, if_true, this, run_cons, run_nil, step_up_ralt]
    exact ⟨⟨hl, hr, rfl⟩, by first | trivial | rfl⟩
  · obtain ⟨h1, h2, h3⟩ := h
    simp only [h1, h2, h3, if_false]
    have hb : modsOf (b.step (.up k)) = modsOf b := mods_step_up b k ⟨h1, h2, h3⟩
    split
    · simp only [run_cons, run_nil]
      refine ⟨?_, by first | trivial | rfl⟩
      rw [modsAgree_iff, hb]; simp [modsOf, flagsOf, hl, hr, ha]
    · simp only [run_cons, run_nil]
      refine ⟨?_, by first | trivial | rfl⟩
      rw [modsAgree_iff, hb, hrel s]; simp [modsOf, flagsOf, hl, hr, ha]

theorem tickCore_flags (s : Zchd) : flagsOf s.tickCore = flagsOf s := by
  unfold Zchd.tickCore
  split
  · simp only; split <;> rfl
  · split
    · simp only; split <;> rfl
    · rfl
  · rfl

theorem tickCore_tssc (s : Zchd) : s.tickCore.ticksSinceStateChange ≤ s.ticksSinceStateChange := by
  unfold Zchd.tickCore
  split
  · simp only; split <;> simp
  · split
    · simp only; split <;> simp [Zchd.softReset, Zchd.clearHistory]
    · simp
  · simp

/-- A tick that does not trigger the forced reset keeps the flags. -/
theorem tick_flags (s : Zchd) (c : Bool) (h : s.ticksSinceStateChange < TICKS_UNTIL_FORCE_STATE_RESET) :
    flagsOf (s.tick c) = flagsOf s := by
  unfold Zchd.tick
  simp only
  have h1 := tickCore_tssc { s with ticksSinceStateChange := s.ticksSinceStateChange + 1, capsWord := c }
  have h2 := tickCore_flags { s with ticksSinceStateChange := s.ticksSinceStateChange + 1, capsWord := c }
  simp only at h1
  rw [if_neg (by omega)]
  exact h2

/-- Idling while enabled with no deadline running only advances the state-change timer. -/
theorem tick_idle (s : Zchd) (hen : s.enabledState = .enabled) (htud : s.ticksUntilDisable = 0)
    (hc : s.capsWord = false) (h : s.ticksSinceStateChange < TICKS_UNTIL_FORCE_STATE_RESET) :
    s.tick false = { s with ticksSinceStateChange := s.ticksSinceStateChange + 1 } := by
  have hnr : ¬ (s.ticksSinceStateChange + 1 > TICKS_UNTIL_FORCE_STATE_RESET) := by omega
  unfold Zchd.tick Zchd.tickCore
  simp [hen, htud, hnr]
  rw [← hc]

end KVerif.Zippy
