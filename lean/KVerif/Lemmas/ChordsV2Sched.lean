/-
C09 helper lemmas for chords v2: histories.  The keys of a chord arrive one by one with any number of
ticks in between; the tick on which the chord is activated; the countdown while an enabled superset
is still possible.
-/
import KVerif.Lemmas.ChordsV2Ticks
namespace KVerif.C09
open KVerif.L

/-- `n` ticks of the v2 machine; what they hand to the layout, in order -/
def ticksV2c (layer : Nat) : Nat → ChV2 → Except Crash (ChV2 × List Queued)
  | 0, s => .ok (s, [])
  | n + 1, s =>
    match tickChv2 s layer with
    | .error c => .error c
    | .ok (s, dq) =>
      match ticksV2c layer n s with
      | .error c => .error c
      | .ok (s', dq') => .ok (s', dq ++ dq')

/-- a schedule `(key, gap)`: each key is pressed and then `gap` ticks pass -/
def enterV2 (layer : Nat) : List (Nat × Nat) → ChV2 → Except Crash (ChV2 × List Queued)
  | [], s => .ok (s, [])
  | (k, g) :: rest, s =>
    match ticksV2c layer g (pushV2 s (pressEv k)) with
    | .error c => .error c
    | .ok (s, dq) =>
      match enterV2 layer rest s with
      | .error c => .error c
      | .ok (s', dq') => .ok (s', dq ++ dq')

def gapSum (sched : List (Nat × Nat)) : Nat := (sched.map (·.2)).sum

/-- `g` ticks while the keys `pre` are queued and the window is open -/
theorem entry_ticks (cfg : ChV2Cfg) (layer : Nat) (pre : List Nat) (k1 : Nat) (possible : List ChordV2)
    (hhead : pre.head? = some k1) (hget : cfg.get k1 = some possible)
    (hu : ∀ r, r <+: pre → r ≠ [] → Undecided possible layer r) (hlen : pre.length ≤ SMOL_Q_LEN) :
    ∀ (g t : Nat) (s : ChV2), Entry cfg pre [] t s → Sync s → t + g < minPending (Fk possible layer pre) →
      ∃ s', ticksV2c layer g s = .ok (s', []) ∧ Entry cfg pre [] (t + g) s' ∧ Sync s' := by
  intro g
  induction g with
  | zero => intro t s he hs _; exact ⟨s, rfl, he, hs⟩
  | succ g ih =>
    intro t s he hs ht
    have hU := minPending_le (Fk possible layer pre)
    obtain ⟨s1, h1, he1, hl1, hfast, hscan⟩ := entry_tick cfg layer pre t s k1 possible he hhead hget hu hlen
      (by omega) (fun _ => by omega)
    have hs1 : Sync s1 := by
      by_cases hf : FastCond s layer
      · obtain ⟨_, _, e3⟩ := hfast hf
        right; rw [e3, hl1, hf.2.2]; exact Nat.le_refl _
      · obtain ⟨_, _, e3⟩ := hscan hf
        right; rw [e3, hl1]; exact Nat.mod_le _ _
    obtain ⟨s', h2, he2, hs2⟩ := ih (t + 1) s1 he1 hs1 (by omega)
    refine ⟨s', ?_, by rw [show t + (g + 1) = t + 1 + g by omega]; exact he2, hs2⟩
    simp only [ticksV2c, h1, h2, List.append_nil]

/-- the rest of a schedule: the keys are undecided at every prefix and all gaps together stay below
the shortest timeout of the candidates of the first key -/
theorem enter_rest (cfg : ChV2Cfg) (layer : Nat) (k1 : Nat) (possible : List ChordV2)
    (hget : cfg.get k1 = some possible) :
    ∀ (sched : List (Nat × Nat)) (pre : List Nat) (t : Nat) (s : ChV2), Entry cfg pre [] t s → Sync s →
      pre.head? = some k1 →
      (∀ r, r <+: pre ++ sched.map (·.1) → r ≠ [] → Undecided possible layer r) →
      (pre ++ sched.map (·.1)).length ≤ SMOL_Q_LEN →
      t + gapSum sched < minPending (Fk possible layer [k1]) →
      ∃ s', enterV2 layer sched s = .ok (s', []) ∧ Entry cfg (pre ++ sched.map (·.1)) [] (t + gapSum sched) s' ∧ Sync s' := by
  intro sched
  induction sched with
  | nil =>
    intro pre t s he hs _ _ _ _
    exact ⟨s, rfl, by simpa [gapSum] using he, hs⟩
  | cons kg sched ih =>
    obtain ⟨k, g⟩ := kg
    intro pre t s he hs hhead hu hlen ht
    have hne : pre ≠ [] := by intro h; rw [h] at hhead; cases hhead
    simp only [List.map_cons, gapSum, List.sum_cons, List.length_append, List.length_cons, List.length_map] at hlen ht
    have hgs : gapSum sched = (sched.map (·.2)).sum := rfl
    have hlen' : pre.length + (sched.length + 1) ≤ 16 := hlen
    obtain ⟨hp1, hp2⟩ := he.push hne (by show pre.length < 32; omega) (pressEv k)
    have he1 := hp1.snoc
    have hs1 : Sync (pushV2 s (pressEv k)) := by
      rcases hp2 hs with h | h
      · exact Or.inl h
      · exact Or.inr (Nat.le_of_lt h)
    have hhead1 : (pre ++ [k]).head? = some k1 := by
      cases pre with
      | nil => exact absurd rfl hne
      | cons a l => exact hhead
    have hpre1 : [k1] <+: pre ++ [k] := by
      cases pre with
      | nil => exact absurd rfl hne
      | cons a l =>
        simp only [List.head?_cons, Option.some.injEq] at hhead
        subst hhead
        exact ⟨l ++ [k], rfl⟩
    have hmono : ∀ r, [k1] <+: r → minPending (Fk possible layer [k1]) ≤ minPending (Fk possible layer r) :=
      fun r hr => minPending_mono _ _ (Fk_prefix_subset possible layer [k1] r hr)
    have hu1 : ∀ r, r <+: pre ++ [k] → r ≠ [] → Undecided possible layer r := by
      intro r hr hne'
      apply hu r _ hne'
      obtain ⟨x, hx⟩ := hr
      exact ⟨x ++ sched.map (·.1), by simp only [List.map_cons]; rw [← List.append_assoc, hx]; simp⟩
    obtain ⟨s2, h2, he2, hs2⟩ := entry_ticks cfg layer (pre ++ [k]) k1 possible hhead1 hget hu1
      (by simp; omega) g t (pushV2 s (pressEv k)) he1 hs1 (by have := hmono _ hpre1; omega)
    obtain ⟨s', h3, he3, hs3⟩ := ih (pre ++ [k]) (t + g) s2 he2 hs2 hhead1
      (by simpa using hu) (by simp; omega) (by rw [hgs]; omega)
    refine ⟨s', ?_, ?_, hs3⟩
    · simp only [enterV2, h2, h3, List.append_nil]
    · have e1 : pre ++ (k :: sched.map (·.1)) = pre ++ [k] ++ sched.map (·.1) := by simp
      have e2 : t + gapSum ((k, g) :: sched) = t + g + gapSum sched := by
        simp only [gapSum, List.map_cons, List.sum_cons]; omega
      simp only [List.map_cons]
      rw [e1, e2]; exact he3

theorem ppRetain_presses (ps : List Nat) : ∀ (ks : List Nat) (q1 q2 : List Queued),
    q1.map (·.ev) = ks.map pressEv → (∀ k ∈ ks, k ∈ ps) → ppRetain (q1 ++ q2) ps = ppRetain q2 ps := by
  intro ks q1 q2 h hk
  have happ : ppRetain (q1 ++ q2) ps = ppRetain q1 ps ++ ppRetain q2 ps := by
    unfold ppRetain; exact List.filter_append _ _
  have : ppRetain q1 ps = [] := by
    unfold ppRetain
    rw [List.filter_eq_nil_iff]
    intro qd hqd
    have hm : qd.ev ∈ ks.map pressEv := by rw [← h]; exact List.mem_map_of_mem hqd
    obtain ⟨k, hk1, e⟩ := List.mem_map.mp hm
    rw [← e]
    simp [pressEv, hk k hk1]
  rw [happ, this, List.nil_append]

/-- **the tick that decides**: all keys `ps` of the enabled chord `C` are queued, the tick is a scan -/
theorem activation_tick (cfg : ChV2Cfg) (layer : Nat) (ps : List Nat) (t : Nat) (s : ChV2) (k1 : Nat)
    (possible : List ChordV2) (C : ChordV2)
    (he : Entry cfg ps [] t s) (hscan : ¬ FastCond s layer) (hhead : ps.head? = some k1)
    (hget : cfg.get k1 = some possible) (hnd : ps.Nodup) (hC : C ∈ possible) (hen : enabledOn layer C = true)
    (hex : exactMatch ps C = true) (hlen : ps.length ≤ SMOL_Q_LEN) (ht16 : t + 1 ≤ U16_MAX) :
    ∃ s' dq, tickChv2 s layer = .ok (s', dq) ∧ s'.cfg = cfg ∧ s'.ticksToIgnore = 0 ∧
      (((Fk possible layer ps = [C] ∨ minPending (Fk possible layer ps) ≤ t + 1) ∧
        ∃ cch coord, cch ∈ possible ∧ enabledOn layer cch = true ∧ exactMatch ps cch = true ∧
          (Fk possible layer ps = [C] → cch = C) ∧
          s'.active = [getActiveChord cch (t + 1) coord none] ∧ s'.queue = [] ∧
          dq = [⟨.press (0, 0), 0⟩]) ∨
       (2 ≤ (Fk possible layer ps).length ∧ t + 1 < minPending (Fk possible layer ps) ∧
        Entry cfg ps [] (t + 1) s' ∧ dq = [] ∧
        s'.ticksUntilChange = minPending (Fk possible layer ps) - (t + 1) ∧
        s'.prevActiveLayer = layer ∧ s'.prevQueueLen = s'.queue.length)) := by
  have hne : ps ≠ [] := by intro h; rw [h] at hhead; cases hhead
  have hsc := he.scan hne ht16 layer
  obtain ⟨rest, hq⟩ := he.head_press k1 hhead
  rw [tick_scan s layer he.tti he.active hscan (he.row0 (by intro e h; cases h)) (0, k1) t rest hq]
  obtain ⟨s1, hp, htti, hres⟩ := chord_v2_exact_set_partial (scanState s layer) layer ps k1 possible C none
    (hsc.collect hlen) hhead (by rw [hsc.cfg]; exact hget) hnd hC hen hex
    (by rw [hsc.active]; show 0 < 10; omega)
  obtain ⟨hc1, hl1, hql1⟩ := processPresses_frame _ _ _ hp
  rw [hp]
  simp only []
  rw [hsc.since] at hres
  rcases hres with ⟨hwhy, cch, coord, h1, h2, h3, h4, hact, hqq⟩ | ⟨h2, hlt, _, hact, hqq, htu⟩
  · rw [hsc.active, List.nil_append] at hact
    have hst : (getActiveChord cch (t + 1) coord none).status = .unread := by
      simp [getActiveChord, relHits]
    rw [tickTail_one (afterScan s1) _ hact (Or.inl hst)]
    refine ⟨_, _, rfl, by show s1.cfg = cfg; rw [hc1]; exact hsc.cfg,
      by show s1.ticksToIgnore - 1 = 0; rw [htti, hsc.tti], Or.inl ⟨?_, cch, coord, h1, h2, h3, h4, rfl, ?_, ?_⟩⟩
    · rcases hwhy with h | h | h
      · exact Or.inl h
      · exact Or.inr h
      · simp at h
    · show s1.queue = []
      rw [hqq]
      have := ppRetain_presses ps ps (scanState s layer).queue [] (by rw [hsc.evs]; simp) (fun k hk => hk)
      rw [List.append_nil] at this
      rw [this]; rfl
    · rw [hst]; simp
  · rw [tickTail_none (afterScan s1) (by show s1.active = []; rw [hact]; exact hsc.active)]
    refine ⟨_, _, rfl, by show s1.cfg = cfg; rw [hc1]; exact hsc.cfg,
      by show s1.ticksToIgnore - 1 = 0; rw [htti, hsc.tti], Or.inr ⟨h2, hlt, ?_, rfl, ?_, ?_, ?_⟩⟩
    · exact ⟨by show s1.cfg = cfg; rw [hc1]; exact hsc.cfg, by show s1.queue.map _ = _; rw [hqq]; exact hsc.evs,
        by show sinceOf s1 = _; unfold sinceOf; rw [hqq]; exact hsc.since, rfl,
        by show s1.ticksToIgnore - 1 = 0; rw [htti, hsc.tti]⟩
    · show s1.ticksUntilChange = _
      exact htu
    · show s1.prevActiveLayer = _
      rw [hl1]; rfl
    · show s1.queue.length % 256 = s1.queue.length
      rw [hqq]
      show (agedV2 s).queue.length % 256 = (agedV2 s).queue.length
      have : (agedV2 s).queue.length = ps.length := by
        have := congrArg List.length hsc.evs
        simpa [scanState_queue] using this
      rw [this]
      exact Nat.mod_eq_of_lt (by show ps.length < 256; have : ps.length ≤ 16 := hlen; omega)

/-- the v2 state while a complete key set waits for a possible superset: the countdown `d` runs, the
fast path is taken -/
structure Waiting (cfg : ChV2Cfg) (layer : Nat) (ps : List Nat) (a d : Nat) (s : ChV2) : Prop where
  entry : Entry cfg ps [] a s
  tuc : s.ticksUntilChange = d
  lay : s.prevActiveLayer = layer
  len : s.prevQueueLen = s.queue.length

/-- **the countdown**: `j ≤ d` ticks on the fast path hand nothing over and change nothing but the ages -/
theorem wait_ticks (cfg : ChV2Cfg) (layer : Nat) (ps : List Nat) (k1 : Nat) (possible : List ChordV2)
    (hhead : ps.head? = some k1) (hget : cfg.get k1 = some possible)
    (hu : ∀ r, r <+: ps → r ≠ [] → Undecided possible layer r) (hlen : ps.length ≤ SMOL_Q_LEN) :
    ∀ (j a d : Nat) (s : ChV2), Waiting cfg layer ps a d s → j ≤ d → a + d ≤ U16_MAX →
      ∃ s', ticksV2c layer j s = .ok (s', []) ∧ Waiting cfg layer ps (a + j) (d - j) s' := by
  intro j
  induction j with
  | zero => intro a d s hw _ _; exact ⟨s, rfl, hw⟩
  | succ j ih =>
    intro a d s hw hj hU
    have hf : FastCond s layer := ⟨by rw [hw.tuc]; omega, hw.lay, hw.len⟩
    obtain ⟨s1, h1, he1, hl1, hfast, _⟩ := entry_tick cfg layer ps a s k1 possible hw.entry hhead hget hu hlen
      (by omega) (fun h => absurd hf h)
    obtain ⟨e1, e2, e3⟩ := hfast hf
    have hw1 : Waiting cfg layer ps (a + 1) (d - 1) s1 :=
      ⟨he1, by rw [e1, hw.tuc], by rw [e2, hw.lay], by rw [e3, hl1, hw.len]⟩
    obtain ⟨s', h2, hw2⟩ := ih (a + 1) (d - 1) s1 hw1 (by omega) (by omega)
    refine ⟨s', by simp only [ticksV2c, h1, h2, List.append_nil], ?_⟩
    rw [show a + (j + 1) = a + 1 + j by omega, show d - (j + 1) = d - 1 - j by omega]
    exact hw2

end KVerif.C09
