/-
The path from `Kanata` to zippychord (`Sim`, the model that is compared with the real code) hands
zippychord exactly a zippychord-level history (`zRun`, what the theorems quantify over): for a
physically consistent user history on a pass-through layout, each tick is "the queued event, if
any, then a zippychord tick".
-/
import KVerif.Lemmas.ZippyForm
namespace KVerif.Zippy
open KVerif.TextBuf

/-- the zippychord-level events of `n` layout ticks with queue `q` -/
def zOfTicks : List InEv → Nat → List ZEv
  | _, 0 => []
  | [], n + 1 => .tick :: zOfTicks [] n
  | .press k :: q, n + 1 => .press k :: .tick :: zOfTicks q n
  | .release k :: q, n + 1 => .release k :: .tick :: zOfTicks q n

/-- the zippychord-level history a user history amounts to -/
def zOfHist : List InEv → List HEv → List ZEv
  | _, [] => []
  | q, .press k :: r => zOfHist (q ++ [.press k]) r
  | q, .release k :: r => zOfHist (q ++ [.release k]) r
  | q, .ticks n :: r => zOfTicks q n ++ zOfHist (q.drop n) r

/-- the key events of a simulated output log, oldest first -/
def traceEvents (tr : List TraceItem) : List OsEv :=
  (tr.filterMap fun | .ev e => some e | .ticks _ => none).reverse

def inIgnoreRange (k : Nat) : Bool := KEY_IGNORE_MIN ≤ k && k ≤ KEY_IGNORE_MAX

/-- Every queued press is of a key that is not active, every queued release of one that is (after
the events before it), and no key is in the ignored range. -/
def QueueOK : List Nat → List InEv → Prop
  | _, [] => True
  | act, .press k :: q => k ∉ act ∧ inIgnoreRange k = false ∧ QueueOK (act ++ [k]) q
  | act, .release k :: q => k ∈ act ∧ inIgnoreRange k = false ∧ QueueOK (act.filter (· ≠ k)) q

/-- The same for a whole user history (events are appended to the queue). -/
def HistOK : List Nat → List InEv → List HEv → Prop
  | act, q, [] => QueueOK act q
  | act, q, .press k :: r => HistOK act (q ++ [.press k]) r
  | act, q, .release k :: r => HistOK act (q ++ [.release k]) r
  | act, q, .ticks n :: r =>
    QueueOK act q ∧ HistOK (activeAfter act (q.take n)) (q.drop n) r
where
  activeAfter : List Nat → List InEv → List Nat
    | act, [] => act
    | act, .press k :: q => activeAfter (act ++ [k]) q
    | act, .release k :: q => activeAfter (act.filter (· ≠ k)) q

theorem traceEvents_emit1 (m : Sim) (e : OsEv) :
    traceEvents (m.emit1 e).trace = traceEvents m.trace ++ [e] ∧
    (m.emit1 e).zch = m.zch ∧ (m.emit1 e).queue = m.queue ∧ (m.emit1 e).active = m.active ∧
    (m.emit1 e).prevKeys = m.prevKeys := by
  refine ⟨?_, rfl, rfl, rfl, rfl⟩
  simp only [Sim.emit1, traceEvents]
  split <;> simp

theorem traceEvents_emit (m : Sim) (evs : List OsEv) :
    traceEvents (m.emit evs).trace = traceEvents m.trace ++ evs ∧
    (m.emit evs).zch = m.zch ∧ (m.emit evs).queue = m.queue ∧ (m.emit evs).active = m.active ∧
    (m.emit evs).prevKeys = m.prevKeys := by
  induction evs generalizing m with
  | nil => simp [Sim.emit]
  | cons e es ih =>
    obtain ⟨a1, a2, a3, a4, a5⟩ := traceEvents_emit1 m e
    obtain ⟨h1, h2, h3, h4, h5⟩ := ih (m.emit1 e)
    simp only [Sim.emit, List.foldl_cons] at h1 h2 h3 h4 h5 ⊢
    exact ⟨by rw [h1, a1]; simp, by rw [h2, a2], by rw [h3, a3], by rw [h4, a4], by rw [h5, a5]⟩

theorem foldl_skip {α β : Type} (l : List α) (f : β → α → β) (b : β) (h : ∀ b' x, x ∈ l → f b' x = b') :
    l.foldl f b = b := by
  induction l generalizing b with
  | nil => rfl
  | cons a r ih =>
    rw [List.foldl_cons, h b a (List.mem_cons_self ..)]
    exact ih b (fun b' x hx => h b' x (List.mem_cons_of_mem _ hx))

theorem foldl_single {β : Type} (l : List Nat) (k : Nat) (g : β → Nat → β) (b : β)
    (hnd : l.Nodup) (hk : k ∈ l) (hg : ∀ b' x, x ∈ l → x ≠ k → g b' x = b') : l.foldl g b = g b k := by
  induction l generalizing b with
  | nil => simp at hk
  | cons a r ih =>
    rw [List.foldl_cons]
    have hnd' := List.nodup_cons.mp hnd
    by_cases ha : a = k
    · subst ha
      apply foldl_skip
      intro b' x hx
      apply hg b' x (List.mem_cons_of_mem _ hx)
      intro hxa; subst hxa; exact hnd'.1 hx
    · rw [hg b a (List.mem_cons_self ..) ha]
      apply ih b hnd'.2
      · rcases List.mem_cons.mp hk with h | h
        · exact absurd h.symm ha
        · exact h
      · intro b' x hx hxk
        exact hg b' x (List.mem_cons_of_mem _ hx) hxk

/-- One layout tick, for a machine whose `prevKeys` are the active keys. -/
theorem sim_tick (cfg : Cfg) (m : Sim) (hp : m.prevKeys = m.active) (hnd : m.active.Nodup)
    (hq : QueueOK m.active m.queue) :
    let m' := m.tick cfg
    let z := zRun cfg m.zch (zOfTicks m.queue 1)
    m'.zch = z.1 ∧ traceEvents m'.trace = traceEvents m.trace ++ z.2 ∧
    m'.prevKeys = m'.active ∧ m'.queue = m.queue.drop 1 ∧
    m'.active = HistOK.activeAfter m.active (m.queue.take 1) := by
  obtain ⟨queue, act0, active, zch, ticks, trace⟩ := m
  simp only at hp hq hnd
  subst hp
  cases queue with
  | nil =>
    simp only [Sim.tick, zOfTicks, zRun, zStep, List.append_nil, List.drop_nil, List.take_nil,
      HistOK.activeAfter]
    have h1 : ∀ (m0 : Sim), m0.active = active → m0.prevKeys = active →
        active.foldl (fun m k => if active.contains k = true then m else m.releaseKey cfg k) m0 = m0 := by
      intro m0 _ _
      apply foldl_skip
      intro b' x hx
      simp [hx]
    rw [h1 _ rfl rfl]
    have h2 : ∀ (m0 : Sim), m0.prevKeys = active →
        active.foldl (fun m k => if m.prevKeys.contains k = true then m
          else ({ m with prevKeys := m.prevKeys ++ [k] }).pressKey cfg k) m0 = m0 := by
      intro m0 hm0
      have : ∀ (l : List Nat), (∀ x ∈ l, x ∈ active) →
          l.foldl (fun m k => if m.prevKeys.contains k = true then m
            else ({ m with prevKeys := m.prevKeys ++ [k] }).pressKey cfg k) m0 = m0 := by
        intro l hl
        induction l with
        | nil => rfl
        | cons a r ih =>
          rw [List.foldl_cons]
          have : m0.prevKeys.contains a = true := by rw [hm0]; simpa using hl a (List.mem_cons_self ..)
          rw [if_pos this]
          exact ih (fun x hx => hl x (List.mem_cons_of_mem _ hx))
      exact this active (fun x hx => hx)
    rw [h2 _ rfl]
    simp [zchTick]
  | cons e q =>
    cases e with
    | press k =>
      obtain ⟨hk, hig, _⟩ := hq
      simp only [Sim.tick, zOfTicks, zRun, zStep, List.append_nil, List.drop_succ_cons, List.drop_zero,
        List.take_succ_cons, List.take_zero, HistOK.activeAfter]
      -- no releases
      have h1 : ∀ (m0 : Sim),
          active.foldl (fun m x => if (active ++ [k]).contains x = true then m else m.releaseKey cfg x) m0 = m0 := by
        intro m0
        apply foldl_skip
        intro b' x hx
        simp [hx]
      rw [h1]
      -- exactly one press
      rw [List.foldl_append]
      have h2 : ∀ (m0 : Sim), m0.prevKeys = active →
          active.foldl (fun m x => if m.prevKeys.contains x = true then m
            else ({ m with prevKeys := m.prevKeys ++ [x] }).pressKey cfg x) m0 = m0 := by
        intro m0 hm0
        have : ∀ (l : List Nat), (∀ x ∈ l, x ∈ active) →
            l.foldl (fun m x => if m.prevKeys.contains x = true then m
              else ({ m with prevKeys := m.prevKeys ++ [x] }).pressKey cfg x) m0 = m0 := by
          intro l hl
          induction l with
          | nil => rfl
          | cons a r ih =>
            rw [List.foldl_cons]
            have : m0.prevKeys.contains a = true := by rw [hm0]; simpa using hl a (List.mem_cons_self ..)
            rw [if_pos this]
            exact ih (fun x hx => hl x (List.mem_cons_of_mem _ hx))
        exact this active (fun x hx => hx)
      rw [h2 _ rfl]
      simp only [List.foldl_cons, List.foldl_nil]
      have hnc : active.contains k = false := by simpa using hk
      simp only [hnc, Bool.false_eq_true, if_false, Sim.pressKey]
      have hig' : (decide (KEY_IGNORE_MIN ≤ k) && decide (k ≤ KEY_IGNORE_MAX)) = false := by
        simpa [inIgnoreRange] using hig
      simp only [hig', Bool.false_eq_true, if_false]
      obtain ⟨e1, e2, e3, e4, e5⟩ := traceEvents_emit
        { queue := q, active := active ++ [k], prevKeys := active ++ [k], zch := (zchPressKey cfg zch k).1,
          ticks := ticks, trace := trace } (zchPressKey cfg zch k).2
      simp only at e1 e2 e3 e4 e5
      refine ⟨by simp [e2, zchTick], by simp [e1], by simp [e4], by simp [e3], by simp [e4]⟩
    | release k =>
      obtain ⟨hk, hig, _⟩ := hq
      simp only [Sim.tick, zOfTicks, zRun, zStep, List.append_nil, List.drop_succ_cons, List.drop_zero,
        List.take_succ_cons, List.take_zero, HistOK.activeAfter]
      -- exactly one release
      have h1 : ∀ (m0 : Sim),
          active.foldl (fun m x => if (active.filter (fun x => x ≠ k)).contains x = true then m
            else m.releaseKey cfg x) m0 = m0.releaseKey cfg k := by
        intro m0
        have := foldl_single active k (fun (m : Sim) x =>
          if (active.filter (fun x => x ≠ k)).contains x = true then m else m.releaseKey cfg x) m0 hnd hk
          (by
            intro b' x hxa hx
            have : (active.filter (fun x => x ≠ k)).contains x = true := by simp [hxa, hx]
            simp only [this, if_true])
        rw [this]
        simp
      rw [h1]
      -- no presses: the remaining keys were all active before
      have hig' : (decide (KEY_IGNORE_MIN ≤ k) && decide (k ≤ KEY_IGNORE_MAX)) = false := by
        simpa [inIgnoreRange] using hig
      simp only [Sim.releaseKey, hig', Bool.false_eq_true, if_false]
      obtain ⟨e1, e2, e3, e4, e5⟩ := traceEvents_emit
        { queue := q, active := active.filter (fun x => x ≠ k), prevKeys := active,
          zch := (zchReleaseKey cfg zch k).1, ticks := ticks, trace := trace } (zchReleaseKey cfg zch k).2
      simp only at e1 e2 e3 e4 e5
      have h2 : ∀ (m0 : Sim), m0.prevKeys = active →
          (active.filter (fun x => x ≠ k)).foldl (fun m x => if m.prevKeys.contains x = true then m
            else ({ m with prevKeys := m.prevKeys ++ [x] }).pressKey cfg x) m0 = m0 := by
        intro m0 hm0
        have : ∀ (l : List Nat), (∀ x ∈ l, x ∈ active) →
            l.foldl (fun m x => if m.prevKeys.contains x = true then m
              else ({ m with prevKeys := m.prevKeys ++ [x] }).pressKey cfg x) m0 = m0 := by
          intro l hl
          induction l with
          | nil => rfl
          | cons a r ih =>
            rw [List.foldl_cons]
            have : m0.prevKeys.contains a = true := by rw [hm0]; simpa using hl a (List.mem_cons_self ..)
            rw [if_pos this]
            exact ih (fun x hx => hl x (List.mem_cons_of_mem _ hx))
        exact this _ (fun x hx => (List.mem_filter.mp hx).1)
      rw [h2 _ e5]
      generalize Sim.emit _ (zchReleaseKey cfg zch k).2 = mm at e1 e2 e3 e4 e5 ⊢
      exact ⟨by simp only [zchTick, e2], by simp only [e1, List.append_nil], e4.symm, e3, e4⟩

theorem zOfTicks_succ (q : List InEv) (n : Nat) :
    zOfTicks q (n + 1) = zOfTicks q 1 ++ zOfTicks (q.drop 1) n := by
  cases q with
  | nil => simp [zOfTicks]
  | cons e r => cases e <;> simp [zOfTicks]

theorem queueOK_step {act : List Nat} {q : List InEv} (hnd : act.Nodup) (hq : QueueOK act q) :
    (HistOK.activeAfter act (q.take 1)).Nodup ∧ QueueOK (HistOK.activeAfter act (q.take 1)) (q.drop 1) := by
  cases q with
  | nil => exact ⟨hnd, trivial⟩
  | cons e r =>
    cases e with
    | press k =>
      obtain ⟨hk, _, hr⟩ := hq
      refine ⟨?_, hr⟩
      simp only [List.take_succ_cons, List.take_zero, HistOK.activeAfter]
      rw [List.nodup_append]
      exact ⟨hnd, by simp, by intro a ha b hb; simp at hb; subst hb; intro h; subst h; exact hk ha⟩
    | release k =>
      obtain ⟨_, _, hr⟩ := hq
      exact ⟨hnd.filter _, hr⟩

theorem activeAfter_append (act : List Nat) (q1 q2 : List InEv) :
    HistOK.activeAfter act (q1 ++ q2) = HistOK.activeAfter (HistOK.activeAfter act q1) q2 := by
  induction q1 generalizing act with
  | nil => rfl
  | cons e r ih => cases e <;> simp [HistOK.activeAfter, ih]

/-- `n` layout ticks. -/
theorem sim_ticksN (cfg : Cfg) (n : Nat) : ∀ (m : Sim), m.prevKeys = m.active → m.active.Nodup →
    QueueOK m.active m.queue →
    (m.ticksN cfg n).zch = (zRun cfg m.zch (zOfTicks m.queue n)).1 ∧
    traceEvents (m.ticksN cfg n).trace = traceEvents m.trace ++ (zRun cfg m.zch (zOfTicks m.queue n)).2 ∧
    (m.ticksN cfg n).prevKeys = (m.ticksN cfg n).active ∧ (m.ticksN cfg n).queue = m.queue.drop n ∧
    (m.ticksN cfg n).active = HistOK.activeAfter m.active (m.queue.take n) ∧
    (m.ticksN cfg n).active.Nodup ∧ QueueOK (m.ticksN cfg n).active (m.ticksN cfg n).queue := by
  induction n with
  | zero =>
    intro m hp hnd hq
    simp [Sim.ticksN, zOfTicks, zRun, HistOK.activeAfter, hp, hnd, hq]
  | succ n ih =>
    intro m hp hnd hq
    obtain ⟨t1, t2, t3, t4, t5⟩ := sim_tick cfg m hp hnd hq
    obtain ⟨hnd', hq'⟩ := queueOK_step hnd hq
    rw [← t5, ← t4] at hq'
    rw [← t5] at hnd'
    obtain ⟨i1, i2, i3, i4, i5, i6, i7⟩ := ih (m.tick cfg) t3 hnd' hq'
    simp only [Sim.ticksN]
    rw [zOfTicks_succ, zRun_append]
    refine ⟨?_, ?_, i3, ?_, ?_, i6, i7⟩
    · rw [i1, t1, t4]
    · rw [i2, t2, t1, t4]; simp [List.append_assoc]
    · rw [i4, t4]; simp [List.drop_drop, Nat.add_comm]
    · rw [i5, t5, t4, ← activeAfter_append]
      congr 1
      cases m.queue with
      | nil => simp
      | cons e r => simp [List.take_succ_cons]

/-- A whole user history: the machine that is compared with the real `Kanata` feeds zippychord the
zippychord-level history `zOfHist`, and its output log holds exactly the events `zRun` returns. -/
theorem sim_hist (cfg : Cfg) (h : List HEv) : ∀ (m : Sim), m.prevKeys = m.active → m.active.Nodup →
    HistOK m.active m.queue h →
    (m.hist cfg h).zch = (zRun cfg m.zch (zOfHist m.queue h)).1 ∧
    traceEvents (m.hist cfg h).trace = traceEvents m.trace ++ (zRun cfg m.zch (zOfHist m.queue h)).2 := by
  induction h with
  | nil => intro m _ _ _; simp [Sim.hist, zOfHist, zRun]
  | cons e r ih =>
    intro m hp hnd hok
    cases e with
    | press k => exact ih { m with queue := m.queue ++ [InEv.press k] } hp hnd hok
    | release k => exact ih { m with queue := m.queue ++ [InEv.release k] } hp hnd hok
    | ticks n =>
      obtain ⟨hq, hrest⟩ := hok
      obtain ⟨i1, i2, i3, i4, i5, i6, _⟩ := sim_ticksN cfg n m hp hnd hq
      have := ih (m.ticksN cfg n) i3 i6 (by rw [i5, i4]; exact hrest)
      simp only [Sim.hist, zOfHist]
      rw [zRun_append, this.1, this.2, i1, i2, i4]
      simp [List.append_assoc]

end KVerif.Zippy
