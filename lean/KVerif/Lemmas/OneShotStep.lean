/-
C06 helper lemmas, part 6: whole ticks of the layout model while one-shot keys are active — a tick
on which `tick_osh` only counts down, and the tick on which it fires.
-/
import KVerif.Lemmas.OneShotInv
namespace KVerif.C06
open KVerif.L

/-- the parts of `OneShotState` that only key events change -/
structure SameKeys (o o' : OneShotState) : Prop where
  keys : o'.keys = o.keys
  released : o'.releasedKeys = o.releasedKeys
  others : o'.otherPressedKeys = o.otherPressedKeys
  endConfig : o'.endConfig = o.endConfig
  request : o'.releaseOnNextTick = o.releaseOnNextTick
  delay : o'.pauseInputProcessingDelay = o.pauseInputProcessingDelay

theorem SameKeys.refl (o : OneShotState) : SameKeys o o := ⟨rfl, rfl, rfl, rfl, rfl, rfl⟩
theorem SameKeys.trans {a b c : OneShotState} (h1 : SameKeys a b) (h2 : SameKeys b c) : SameKeys a c :=
  ⟨h2.keys.trans h1.keys, h2.released.trans h1.released, h2.others.trans h1.others,
   h2.endConfig.trans h1.endConfig, h2.request.trans h1.request, h2.delay.trans h1.delay⟩

/-- **a tick on which the countdown continues and input processing is paused**: nothing is taken
from the queue, no state changes; both counters go down by one -/
theorem tick_waits_paused {s : Layout} {down : List Coord} (h : Inv s down) (hk : s.oneshot.keys ≠ [])
    (hr : s.oneshot.releaseOnNextTick = false) (h2 : 2 ≤ s.oneshot.timeout)
    (hp : 0 < s.oneshot.pauseInputProcessingTicks) :
    ∃ s', tick s = .ok (s', .noEvent) ∧ Inv s' down ∧ s'.states = s.states ∧ s'.queue = age s.queue ∧
      SameKeys s.oneshot s'.oneshot ∧ s'.oneshot.timeout = s.oneshot.timeout - 1 ∧
      s'.oneshot.pauseInputProcessingTicks = s.oneshot.pauseInputProcessingTicks - 1 := by
  obtain ⟨t1, t2, t3, t4, _⟩ := tickPre_fields h.calm
  have e1 := tickOneshot_waits (s := tickPre s) (t2 ▸ hk) (t2 ▸ hr) (t2 ▸ h2)
  obtain ⟨s1, e1', i1, _, _⟩ := h.pre.osh
  rw [e1] at e1'
  injection e1' with e1'; injection e1' with e1'; subst e1'
  have e2 := tickMain_paused (s := _) i1.calm.waiting i1.calm.extra (by simpa [t2] using hp)
  obtain ⟨i2, _⟩ := i1.main _ _ e2
  refine ⟨_, tick_calm h.calm e1 e2 i2.calm, i2, t3, t4, ?_, by simp [t2], by simp [t2]⟩
  exact ⟨by simp [t2], by simp [t2], by simp [t2], by simp [t2], by simp [t2], by simp [t2]⟩

/-- **a tick on which the countdown continues and there is no input** -/
theorem tick_waits_idle {s : Layout} {down : List Coord} (h : Inv s down) (hk : s.oneshot.keys ≠ [])
    (hr : s.oneshot.releaseOnNextTick = false) (h2 : 2 ≤ s.oneshot.timeout) (hq : s.queue = []) :
    ∃ s', tick s = .ok (s', .noEvent) ∧ Inv s' down ∧ s'.states = s.states ∧ s'.queue = [] ∧
      SameKeys s.oneshot s'.oneshot ∧ s'.oneshot.timeout = s.oneshot.timeout - 1 := by
  by_cases hp : 0 < s.oneshot.pauseInputProcessingTicks
  · obtain ⟨s', e, i, a, b, c, d, _⟩ := tick_waits_paused h hk hr h2 hp
    exact ⟨s', e, i, a, by rw [b, hq]; rfl, c, d⟩
  · have hp0 : s.oneshot.pauseInputProcessingTicks = 0 := by omega
    obtain ⟨t1, t2, t3, t4, _⟩ := tickPre_fields h.calm
    have e1 := tickOneshot_waits (s := tickPre s) (t2 ▸ hk) (t2 ▸ hr) (t2 ▸ h2)
    obtain ⟨s1, e1', i1, _, _⟩ := h.pre.osh
    rw [e1] at e1'
    injection e1' with e1'; injection e1' with e1'; subst e1'
    have e2 := tickMain_empty (s := _) i1.calm.waiting i1.calm.extra (by simpa [t2] using hp0)
      (by simp [t4, hq, age])
    refine ⟨_, tick_calm h.calm e1 e2 i1.calm, i1, t3, by simp [t4, hq, age], ?_, by simp [t2]⟩
    exact ⟨by simp [t2], by simp [t2], by simp [t2], by simp [t2], by simp [t2], by simp [t2]⟩

/-- **the tick on which `tick_osh` fires** (a release was requested, or the countdown is at its last
step): in the second stage every deferred release is applied and the one-shot state is cleared —
`sr` — and only then does the third stage look at the input queue, with the pause lifted -/
theorem tick_fires_then_pops {s : Layout} {down : List Coord} (h : Inv s down) (hk : s.oneshot.keys ≠ [])
    (hf : s.oneshot.releaseOnNextTick = true ∨ s.oneshot.timeout ≤ 1) :
    ∃ sr, tickOneshot (tickPre s) = .ok (sr, .noEvent) ∧ Inv sr down ∧
      sr.oneshot = OneShotState.cleared s.oneshot ∧
      sr.states = dropCoords s.oneshot.releasedKeys s.states ∧ sr.queue = age s.queue ∧
      (tickMain sr = match age s.queue with
        | [] => .ok (sr, .noEvent)
        | q :: rest => dequeue FUEL (sr.setQueue rest) q) ∧
      (∀ s' cu, tick s = .ok (s', cu) ↔ tickMain sr = .ok (s', cu)) := by
  obtain ⟨t1, t2, t3, t4, _⟩ := tickPre_fields h.calm
  have e1 := tickOneshot_fires (s := tickPre s) t1.states (t2 ▸ hk) (t2 ▸ hf)
  obtain ⟨sr, e1', i1, _, _⟩ := h.pre.osh
  rw [e1] at e1'
  injection e1' with e1'; injection e1' with e1'
  have ho : sr.oneshot = OneShotState.cleared s.oneshot := by rw [← e1']; simp only [t2]
  have hst : sr.states = dropCoords s.oneshot.releasedKeys s.states := by rw [← e1']; simp only [t2, t3]
  have hq : sr.queue = age s.queue := by rw [← e1']; exact t4
  have hp0 : sr.oneshot.pauseInputProcessingTicks = 0 := by rw [ho]; rfl
  rw [e1'] at e1
  refine ⟨sr, e1, i1, ho, hst, hq, ?_, ?_⟩
  · cases hqq : age s.queue with
    | nil => exact tickMain_empty i1.calm.waiting i1.calm.extra hp0 (hq.trans hqq)
    | cons q rest => exact tickMain_pops i1.calm.waiting i1.calm.extra hp0 q rest (hq.trans hqq)
  · intro s' cu
    refine ⟨fun ht => ?_, fun hm => ?_⟩
    case refine_2 =>
      obtain ⟨i2, hc2⟩ := i1.main s' cu hm
      subst hc2
      exact tick_calm h.calm e1 hm i2.calm
    cases hm : tickMain sr with
    | error c =>
      unfold KVerif.L.tick at ht
      simp only [h.calm.aq, e1, hm] at ht
      cases ht
    | ok r =>
      obtain ⟨s2, c2⟩ := r
      obtain ⟨i2, hc2⟩ := i1.main s2 c2 hm
      subst hc2
      rw [tick_calm h.calm e1 hm i2.calm] at ht
      injection ht with ht; injection ht with h1 h2; subst h1; subst h2
      rfl

end KVerif.C06
