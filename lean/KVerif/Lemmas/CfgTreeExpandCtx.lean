/-
Lemmas for C16 (templates): the head-position discipline and contexts — replacing a template call
by its instantiated body inside a configuration keeps the discipline.
-/
import KVerif.Lemmas.CfgTreeExpandFull
namespace KVerif.CfgTree

theorem freeTop_fill (bad : Str → Bool) (c : FCtx) (xs ys : List Tree)
    (h : freeTop bad (c.fill xs) = true) (hy : freeTop bad ys = true) :
    freeTop bad (c.fill ys) = true := by
  cases c with
  | here pre post =>
    simp only [FCtx.fill, freeTop_append, Bool.and_eq_true] at h ⊢
    exact ⟨⟨h.1.1, hy⟩, h.2⟩
  | under pre hd c post =>
    simp only [FCtx.fill, freeTop_append, freeTop, Bool.and_eq_true] at h ⊢
    exact h

theorem xho_of_fill (c : FCtx) (xs : List Tree) (h : xho (c.fill xs) = true) : xho xs = true := by
  induction c with
  | here pre post =>
    simp only [FCtx.fill, xho, hoList_append, Bool.and_eq_true] at h
    exact h.1.2
  | under pre hd c post ih =>
    simp only [FCtx.fill, xho, hoList_append, hoList, hoTree_list, Bool.and_eq_true] at h
    exact ih h.1.2.1.2.2

theorem xho_fill (c : FCtx) (xs ys : List Tree) (h : xho (c.fill xs) = true)
    (hy : xho ys = true) (hf : freeTop xBadT ys = true) : xho (c.fill ys) = true := by
  induction c with
  | here pre post =>
    simp only [FCtx.fill, xho, hoList_append, Bool.and_eq_true] at h ⊢
    exact ⟨⟨h.1.1, hy⟩, h.2⟩
  | under pre hd c post ih =>
    simp only [FCtx.fill, xho, hoList_append, hoList, hoTree_list, Bool.and_eq_true,
      List.tail_cons] at h ⊢
    obtain ⟨⟨h1, ⟨⟨⟨h2, h3⟩, h4, h5⟩, _⟩⟩, h6⟩ := h
    refine ⟨⟨h1, ⟨⟨⟨?_, freeTop_fill xBadT c xs ys h3 hf⟩, h4, ih h5⟩, trivial⟩⟩, h6⟩
    cases hd <;> exact h2

end KVerif.CfgTree
