/-
C02 helper lemmas: the layout model never takes a crash branch on fragments larger than the layered
fragment of C04 — one-shot keys, macros, custom actions, tap-hold keys, `fork`, and their union with
the layered fragment — for EVERY history, including the overflow path of `Layout::event` (an event
arriving while 32 are pending: every waiting state is flushed into its hold action and the oldest
event is processed at once, which — with one-shot keys — can re-enter `event` through the overflow
of the 16-entry one-shot table).

Other property files prove invariants of these fragments under the proviso "if `tick` returns `.ok`"
and stop at a full queue (`C06.run … = none`).  Here the missing half is proved with one invariant
(`NC`) that holds only what a crash branch can depend on:
* whatever waits is an undecided tap-hold key whose hold / tap / timeout actions are keys, output
  chords or layer-while-held; no eager tap-dance, no queued action (so the only recursion is
  `do_action` through `multi` / `fork` / transparent and use-defsrc items / the one-shot overflow
  into `event`);
* base layer and held layers exist; queued presses lie inside the layer table; ≤ 32 events queued.
The recursion budget is accounted for explicitly (`ucost`, `Eres`): see `engine`.
-/
import KVerif.Lemmas.NoCrash04
import KVerif.Lemmas.QuiesceMacro
import KVerif.Lemmas.QuiesceTapHold
import KVerif.Props.C02
namespace KVerif.NCF
open KVerif.L
open KVerif.C04 (coordOK evOK allActions mem_allActions_layer mem_allActions_src)
open KVerif.Quiesce (GrowsL listMax le_listMax)

/-! ## the union fragment -/

/-- what may sit inside `one-shot` (the parser accepts nothing else); a layer must exist -/
def simpleIn (n : Nat) : Action → Bool
  | .keyCode _ | .multipleKeyCodes _ => true
  | .layer l => decide (l < n)
  | _ => false

mutual
  /-- **the union fragment** (`n` = number of layers): the layered fragment of C04 (keys, output
  chords, `multi`, no-op, transparent, use-defsrc, layer-while-held on a layer that exists,
  layer-switch, release-key / release-layer), the one-shot fragment of C06, the macro fragment of C08
  (macros, custom actions, cancel), the tap-hold fragment of C05 (every variant, any timeout and
  tap-hold interval; hold, tap and timeout actions a key, an output chord or layer-while-held),
  `one-shot-pause-processing` and `fork` — arbitrarily nested. -/
  def UAct (n : Nat) : Action → Bool
    | .noOp | .trans | .src | .keyCode _ | .multipleKeyCodes _ | .defaultLayer _ | .releaseState _
    | .custom _ | .sequence _ | .repeatableSequence _ | .cancelSequences
    | .oneShotIgnoreEventsTicks _ => true
    | .layer l => decide (l < n)
    | .oneShot inner _ _ => simpleIn n inner
    | .holdTap _ hold tap to _ _ => simpleIn n hold && simpleIn n tap && simpleIn n to
    | .multipleActions acs => UActL n acs
    | .fork l r _ => UAct n l && UAct n r
    | _ => false
  def UActL (n : Nat) : List Action → Bool
    | [] => true
    | a :: rest => UAct n a && UActL n rest
end

mutual
  /-- fuel `doAction` needs for an action, not counting what a transparent / use-defsrc leaf resolves
  to and not counting a re-entered `event`: one unit for `doAction`, one for `dispatch`; a `multi`
  adds one unit per member already run; a `fork` runs one branch; a one-shot key runs its inner key, a
  tap-hold key (inside its tap-hold interval) its tap action -/
  def ucost : Action → Nat
    | .multipleActions acs => 2 + ucostL acs
    | .fork l r _ => 2 + max (ucost l) (ucost r)
    | .oneShot _ _ _ => 4
    | .holdTap _ _ _ _ _ _ => 4
    | _ => 2
  def ucostL : List Action → Nat
    | [] => 1
    | a :: rest => 1 + max (ucost a) (ucostL rest)
end

mutual
  /-- no transparent and no use-defsrc item anywhere inside -/
  def rfree : Action → Bool
    | .trans | .src => false
    | .multipleActions acs => rfreeL acs
    | .fork l r _ => rfree l && rfree r
    | _ => true
  def rfreeL : List Action → Bool
    | [] => true
    | a :: rest => rfree a && rfreeL rest
end

mutual
  /-- a one-shot key somewhere inside -/
  def hasOsh : Action → Bool
    | .oneShot _ _ _ => true
    | .multipleActions acs => hasOshL acs
    | .fork l r _ => hasOsh l || hasOsh r
    | _ => false
  def hasOshL : List Action → Bool
    | [] => false
    | a :: rest => hasOsh a || hasOshL rest
end

theorem ucost_ge (a : Action) : 2 ≤ ucost a := by
  cases a <;> simp only [ucost] <;> omega

theorem ucostL_ge (acs : List Action) : 1 ≤ ucostL acs := by
  cases acs <;> simp only [ucostL] <;> omega

theorem simpleIn_simple {n : Nat} {a : Action} (h : simpleIn n a = true) : C06.Simple a := by
  cases a <;> simp only [simpleIn] at h <;> first | trivial | exact absurd h (by simp)

theorem simpleIn_layer {n : Nat} {a : Action} (h : simpleIn n a = true) : ∀ v, a = .layer v → v < n := by
  intro v hv; subst hv; simpa [simpleIn] using h

/-! ## what a crash branch can depend on -/

/-- number of presses among the queued events -/
def presses (q : List Queued) : Nat := q.countP (fun x => x.ev.isPress)

/-- an undecided tap-hold key: its hold, tap and timeout actions are a key, an output chord or
layer-while-held on a layer below `L` -/
structure WOK (L : Nat) (w : Waiting) : Prop where
  cfg : ∃ c, w.config = .holdTap c
  hold : simpleIn L w.hold = true
  tap : simpleIn L w.tap = true
  to : simpleIn L w.timeoutAction = true

/-- **the state invariant** (relative to the configuration `cfg`): whatever waits is an undecided
tap-hold key (`waiting` and the up to 8 `extra_waiting` slots); no eager tap-dance, no queued action;
the base layer and every held layer exist; at most 32 events are queued and every queued press lies
inside the layer table.  Nothing is assumed of the one-shot state, the active sequences, the key
states or the histories. -/
structure NC (cfg : LCfg) (s : Layout) : Prop where
  cfgEq : s.cfg = cfg
  wok : ∀ w, s.waiting = some w → WOK cfg.layers.length w
  eok : ∀ w ∈ s.extraWaiting, WOK cfg.layers.length w
  tde : s.tapDanceEager = none
  aq : s.actionQueue = []
  dl : s.defaultLayer < cfg.layers.length
  held : ∀ st ∈ s.states, ∀ v, st.getLayer = some v → v < cfg.layers.length
  qlen : s.queue.length ≤ QUEUE_SIZE
  queue : ∀ q ∈ s.queue, evOK cfg q.ev = true

/-- what the steps of the layout on the fragment leave alone; states only grow by states whose layer
(if any) is below `L`; the base layer moves only to a layer below `L`; a new waiting state is an
undecided tap-hold key -/
structure Keep (L : Nat) (s s' : Layout) : Prop where
  cfg : s'.cfg = s.cfg
  wait : ∀ w, s'.waiting = some w → s.waiting = some w ∨ WOK L w
  extra : ∀ w ∈ s'.extraWaiting, w ∈ s.extraWaiting ∨ WOK L w
  tde : s'.tapDanceEager = s.tapDanceEager
  aq : s'.actionQueue = s.actionQueue
  queue : s'.queue = s.queue
  dl : s'.defaultLayer = s.defaultLayer ∨ s'.defaultLayer < L
  states : GrowsL L s.states s'.states

theorem Keep.refl (L : Nat) (s : Layout) : Keep L s s :=
  ⟨rfl, fun _ h => Or.inl h, fun _ h => Or.inl h, rfl, rfl, rfl, Or.inl rfl, GrowsL.refl _ _⟩

theorem Keep.trans {L : Nat} {a b c : Layout} (h1 : Keep L a b) (h2 : Keep L b c) : Keep L a c := by
  refine ⟨h2.cfg.trans h1.cfg, ?_, ?_, h2.tde.trans h1.tde,
    h2.aq.trans h1.aq, h2.queue.trans h1.queue, ?_, h1.states.trans h2.states⟩
  · intro w hw
    rcases h2.wait w hw with h | h
    · exact h1.wait w h
    · exact Or.inr h
  · intro w hw
    rcases h2.extra w hw with h | h
    · exact h1.extra w h
    · exact Or.inr h
  · rcases h2.dl with h | h
    · rw [h]; exact h1.dl
    · exact Or.inr h

theorem NC.keep {cfg : LCfg} {s s' : Layout} (h : NC cfg s) (k : Keep cfg.layers.length s s') : NC cfg s' := by
  refine ⟨k.cfg.trans h.cfgEq, ?_, ?_, k.tde.trans h.tde, k.aq.trans h.aq, ?_, ?_, k.queue ▸ h.qlen, ?_⟩
  · intro w hw
    rcases k.wait w hw with g | g
    · exact h.wok w g
    · exact g
  · intro w hw
    rcases k.extra w hw with g | g
    · exact h.eok w g
    · exact g
  · rcases k.dl with g | g
    · rw [g]; exact h.dl
    · exact g
  · intro st hst v hv
    rcases k.states st hst with g | g
    · exact h.held st g v hv
    · exact g v hv
  · intro q hq
    rw [k.queue] at hq
    exact h.queue q hq

/-- `Keep` from field equalities, when the states are filtered / grown -/
theorem Keep.of_states {L : Nat} {s s' : Layout} (h1 : s'.cfg = s.cfg) (h2 : s'.waiting = s.waiting)
    (h3 : s'.extraWaiting = s.extraWaiting) (h4 : s'.tapDanceEager = s.tapDanceEager)
    (h5 : s'.actionQueue = s.actionQueue) (h6 : s'.queue = s.queue) (h7 : s'.defaultLayer = s.defaultLayer)
    (h8 : GrowsL L s.states s'.states) : Keep L s s' :=
  ⟨h1, fun _ h => Or.inl (h2 ▸ h), fun _ h => Or.inl (h3 ▸ h), h4, h5, h6, Or.inl h7, h8⟩

/-! ### the pieces of the arms -/

theorem keep_updateCoord (L : Nat) (s : Layout) (c : Coord) : Keep L s (updateCoord s c) := by
  unfold updateCoord; split
  · exact Keep.of_states rfl rfl rfl rfl rfl rfl rfl (GrowsL.refl _ _)
  · exact Keep.refl L s

theorem keep_prelude (L : Nat) (s : Layout) (c : Coord) : Keep L s (prelude s c) := by
  unfold prelude
  split <;> exact Keep.of_states rfl rfl rfl rfl rfl rfl rfl (GrowsL.filter _ _ _)

theorem keep_oshPress (L : Nat) (s : Layout) (k : OshKey) : Keep L s (s.oshPress k).1 :=
  Keep.of_states rfl rfl rfl rfl rfl rfl rfl (GrowsL.refl _ _)

theorem keep_oshOther (L : Nat) (s : Layout) (os : Bool) (c : Coord) : Keep L s (oshOther s os c).1 := by
  unfold oshOther; split
  · exact keep_oshPress L s _
  · exact Keep.refl L s

theorem keep_pushState (L : Nat) (s : Layout) (st : St) (h : ∀ v, st.getLayer = some v → v < L) :
    Keep L s (s.pushState st) :=
  Keep.of_states rfl rfl rfl rfl rfl rfl rfl (GrowsL.push _ _ _ h)

theorem keep_setRpt (L : Nat) (s : Layout) (a : Option Action) : Keep L s { s with rptAction := a } :=
  Keep.of_states rfl rfl rfl rfl rfl rfl rfl (GrowsL.refl _ _)

theorem keep_setHist (L : Nat) (s : Layout) (h : List (KeyCode × Nat)) : Keep L s { s with histKeys := h } :=
  Keep.of_states rfl rfl rfl rfl rfl rfl rfl (GrowsL.refl _ _)

theorem keep_filter (L : Nat) (s : Layout) (p : St → Bool) : Keep L s { s with states := s.states.filter p } :=
  Keep.of_states rfl rfl rfl rfl rfl rfl rfl (GrowsL.filter _ _ _)

/-! ### the arms -/

theorem keep_armNoOp (L : Nat) (s : Layout) (a : Action) (c : Coord) (os : Bool) : Keep L s (armNoOp s a c os) := by
  unfold armNoOp
  split
  · exact (keep_oshPress L s _).trans (keep_setRpt L _ _)
  · exact keep_setRpt L _ _

theorem keep_armKeyCode (L : Nat) (s : Layout) (a : Action) (kc : KeyCode) (c : Coord) (os : Bool) :
    Keep L s (armKeyCode s a kc c os) := by
  unfold armKeyCode
  have f1 := keep_updateCoord L s c
  have f2 := keep_setHist L (updateCoord s c) (histPush (updateCoord s c).histKeys kc)
  have f3 := keep_pushState L { updateCoord s c with histKeys := histPush (updateCoord s c).histKeys kc }
    (.normalKey kc c 0) (by intro v h; cases h)
  have f4 := keep_oshOther L
    (({ updateCoord s c with histKeys := histPush (updateCoord s c).histKeys kc } : Layout).pushState (.normalKey kc c 0)) os c
  have f := ((f1.trans f2).trans f3).trans f4
  simp only []
  split
  · exact f.trans (keep_setRpt L _ _)
  · exact f.trans (keep_setRpt L _ _)

theorem keep_pushKeyCodes (L : Nat) (kcs : List KeyCode) (c : Coord) (fl : Nat) :
    ∀ s : Layout, Keep L s (pushKeyCodes s kcs c fl) := by
  induction kcs with
  | nil => intro s; exact Keep.refl L s
  | cons kc rest ih =>
    intro s
    have f1 := keep_setHist L s (histPush s.histKeys kc)
    have f2 := keep_pushState L { s with histKeys := histPush s.histKeys kc } (.normalKey kc c fl) (by intro v h; cases h)
    have f3 := ih (({ s with histKeys := histPush s.histKeys kc } : Layout).pushState (.normalKey kc c fl))
    simp only [pushKeyCodes, List.foldl_cons] at f3 ⊢
    exact (f1.trans f2).trans f3

theorem keep_armMultipleKeyCodes (L : Nat) (s : Layout) (a : Action) (kcs : List KeyCode) (c : Coord) (os : Bool) :
    Keep L s (armMultipleKeyCodes s a kcs c os) := by
  have key : ∀ fl, Keep L s (oshOther (pushKeyCodes (updateCoord s c) kcs c fl) os c).1 := fun fl =>
    ((keep_updateCoord L s c).trans (keep_pushKeyCodes L kcs c fl _)).trans (keep_oshOther L _ os c)
  unfold armMultipleKeyCodes
  cases os
  · simp only [Bool.false_eq_true, if_false]
    split <;> exact (key _).trans (keep_setRpt L _ _)
  · simp only [if_true]
    split <;> exact (key _).trans (keep_setRpt L _ _)

theorem keep_armLayer (L : Nat) (s : Layout) (v : Nat) (hv : v < L) (c : Coord) (os : Bool) :
    Keep L s (armLayer s v c os) := by
  unfold armLayer
  have f1 := keep_updateCoord L s c
  have f2 := keep_pushState L (updateCoord s c) (.layerModifier v c) (by
    intro w hw; simp only [St.getLayer] at hw; injection hw with hw; omega)
  exact (f1.trans f2).trans (keep_oshOther L _ os c)

theorem keep_armDefaultLayer (L : Nat) (s : Layout) (hL : s.cfg.layers.length = L) (v : Nat) (c : Coord) (os : Bool) :
    Keep L s (armDefaultLayer s v c os) := by
  unfold armDefaultLayer
  have f1 := keep_updateCoord L s c
  have f2 : Keep L (updateCoord s c)
      (if v < (updateCoord s c).cfg.layers.length then { updateCoord s c with defaultLayer := v } else updateCoord s c) := by
    split
    · rename_i h
      rw [f1.cfg, hL] at h
      exact ⟨rfl, fun _ h => Or.inl h, fun _ h => Or.inl h, rfl, rfl, rfl, Or.inr h, GrowsL.refl _ _⟩
    · exact Keep.refl L _
  exact (f1.trans f2).trans (keep_oshOther L _ os c)

theorem keep_armReleaseState (L : Nat) (s : Layout) (a : Action) (rs : RelState) (c : Coord) (os : Bool) :
    Keep L s (armReleaseState s a rs c os) := by
  unfold armReleaseState
  exact ((keep_filter L s _).trans (keep_oshOther L _ os c)).trans (keep_setRpt L _ _)

theorem keep_armCustom (L : Nat) (s : Layout) (a : Action) (id : Nat) (c : Coord) (os : Bool) :
    Keep L s (armCustom s a id c os).1 := by
  unfold armCustom
  have f := ((keep_updateCoord L s c).trans (keep_oshOther L _ os c)).trans (keep_setRpt L _ (some a))
  simp only []
  split
  · exact f.trans (keep_pushState L _ _ (by intro v h; cases h))
  · exact f

theorem growsL_releaseEvicted (L : Nat) (q : SeqState) (states : List St) :
    GrowsL L states (releaseEvicted states q) := by
  unfold releaseEvicted
  generalize seqOwedKeys q = ks
  induction ks generalizing states with
  | nil => exact GrowsL.refl _ _
  | cons k rest ih =>
    simp only [List.foldl_cons]
    exact (GrowsL.filter L states _).trans (ih _)

theorem keep_startSequence (L : Nat) (s : Layout) (evs : List SeqEv) : Keep L s (startSequence s evs) := by
  unfold startSequence
  refine Keep.of_states rfl rfl rfl rfl rfl rfl rfl ?_
  simp only []
  split
  · exact growsL_releaseEvicted _ _ _
  · exact GrowsL.refl _ _

theorem keep_armSequence (L : Nat) (s : Layout) (a : Action) (evs : List SeqEv) (c : Coord) (os rep : Bool) :
    Keep L s (armSequence s a evs c os rep) := by
  unfold armSequence
  have f1 := keep_startSequence L s evs
  have f2 : Keep L (startSequence s evs)
      (if rep then (startSequence s evs).pushState (.repeatingSequence evs c) else startSequence s evs) := by
    split
    · exact keep_pushState L _ _ (by intro v h; cases h)
    · exact Keep.refl L _
  exact ((f1.trans f2).trans (keep_oshOther L _ os c)).trans (keep_setRpt L _ _)

theorem keep_armCancelSequences (L : Nat) (s : Layout) (a : Action) (c : Coord) (os : Bool) :
    Keep L s (armCancelSequences s a c os) := by
  unfold armCancelSequences
  have f1 : Keep L s { s with activeSequences := [], states := s.states.filter (fun st => !(match st with | .fakeKey _ => true | _ => false)) } :=
    Keep.of_states rfl rfl rfl rfl rfl rfl rfl (GrowsL.filter _ _ _)
  exact (f1.trans (keep_oshOther L _ os c)).trans (keep_setRpt L _ _)

theorem keep_simpleArm (L : Nat) (s : Layout) (a : Action) (ha : ∀ v, a = .layer v → v < L) (c : Coord)
    (os : Bool) : Keep L s (C06.simpleArm s a c os) := by
  unfold C06.simpleArm
  split
  · exact keep_armKeyCode L s _ _ c os
  · exact keep_armMultipleKeyCodes L s _ _ c os
  · exact keep_armLayer L s _ (ha _ rfl) c os
  · exact Keep.refl L s

theorem keep_armOneShotPost (L : Nat) (s : Layout) (a : Action) (c : Coord) (T : Nat) (v : OneShotEnd) :
    Keep L s (armOneShotPost s a c T v).1 := by
  unfold armOneShotPost Layout.oshPress
  exact Keep.of_states rfl rfl rfl rfl rfl rfl rfl (GrowsL.refl _ _)

/-! ### waiting states: the tap-hold arm, decisions, the flush -/

/-- every waiting state is an undecided tap-hold key -/
structure AllW (L : Nat) (s : Layout) : Prop where
  wok : ∀ w, s.waiting = some w → WOK L w
  eok : ∀ w ∈ s.extraWaiting, WOK L w

theorem NC.allW {cfg : LCfg} {s : Layout} (h : NC cfg s) : AllW cfg.layers.length s := ⟨h.wok, h.eok⟩

theorem AllW.keep {L : Nat} {s s' : Layout} (h : AllW L s) (k : Keep L s s') : AllW L s' := by
  refine ⟨fun w hw => ?_, fun w hw => ?_⟩
  · rcases k.wait w hw with g | g
    · exact h.wok w g
    · exact g
  · rcases k.extra w hw with g | g
    · exact h.eok w g
    · exact g

/-- the new-waiting-state branch of the tap-hold arm: the key waits in `waiting`, or — when another
one is undecided — in `extra_waiting` (a ring of 8: the oldest is dropped) -/
theorem keep_armHoldTapWait (L : Nat) (s : Layout) (c : Coord) (d T : Nat) (hold tap to : Action) (cfg : HTConfig)
    (iv : Nat) (ls : List Nat) (h1 : simpleIn L hold = true) (h2 : simpleIn L tap = true)
    (h3 : simpleIn L to = true) : Keep L s (armHoldTapWait s c d T hold tap to cfg iv ls) := by
  have hok : ∀ w : Waiting, w.hold = hold → w.tap = tap → w.timeoutAction = to → w.config = .holdTap cfg → WOK L w :=
    fun w e1 e2 e3 e4 => ⟨⟨cfg, e4⟩, e1 ▸ h1, e2 ▸ h2, e3 ▸ h3⟩
  cases hw : s.waiting with
  | none =>
    simp only [armHoldTapWait, hw]
    refine Keep.trans ?_ (keep_updateCoord L _ c)
    refine ⟨rfl, ?_, fun _ h => Or.inl h, rfl, rfl, rfl, Or.inl rfl, GrowsL.refl _ _⟩
    intro w h
    injection h with h
    exact Or.inr (hok w (h ▸ rfl) (h ▸ rfl) (h ▸ rfl) (h ▸ rfl))
  | some w1 =>
    simp only [armHoldTapWait, hw]
    refine Keep.trans ?_ (keep_updateCoord L _ c)
    refine ⟨rfl, fun _ h => Or.inl (by rw [hw]; exact h), ?_, rfl, rfl, rfl, Or.inl rfl, GrowsL.refl _ _⟩
    intro w h
    rcases Quiesce.mem_pushBackWrap_fst _ _ _ _ h with g | g
    · exact Or.inl g
    · exact Or.inr (hok w (g ▸ rfl) (g ▸ rfl) (g ▸ rfl) (g ▸ rfl))

theorem keep_holdPrep (L : Nat) (s : Layout) (w : Waiting) : Keep L s (holdPrep s w) := by
  unfold holdPrep
  simp only []
  split <;> exact Keep.of_states rfl rfl rfl rfl rfl rfl rfl (GrowsL.refl _ _)

theorem keep_timeoutPrep (L : Nat) (s : Layout) (w : Waiting) : Keep L s (timeoutPrep s w) := by
  unfold timeoutPrep
  split
  · exact Keep.of_states rfl rfl rfl rfl rfl rfl rfl (GrowsL.refl _ _)
  · exact Keep.refl L s

theorem keep_tapPost (L : Nat) (s : Layout) : Keep L s (tapPost s) :=
  Keep.of_states rfl rfl rfl rfl rfl rfl rfl (GrowsL.refl _ _)

/-- taking a waiting state out: it is an undecided tap-hold key, and nothing else changes -/
theorem takeWaiting_keep {L : Nat} {s : Layout} (hA : AllW L s) (idx : Option Nat) (w : Waiting) (s1 : Layout)
    (h : takeWaiting s idx = some (w, s1)) : WOK L w ∧ Keep L s s1 := by
  cases idx with
  | none =>
    simp only [takeWaiting, Option.map_eq_some_iff] at h
    obtain ⟨w', hw', he⟩ := h
    injection he with h1 h2
    subst h1; subst h2
    exact ⟨hA.wok _ hw', rfl, (fun _ h => by cases h), fun _ h => Or.inl h, rfl, rfl, rfl, Or.inl rfl, GrowsL.refl _ _⟩
  | some i =>
    simp only [takeWaiting, Option.map_eq_some_iff] at h
    obtain ⟨w', hw', he⟩ := h
    injection he with h1 h2
    subst h1; subst h2
    exact ⟨hA.eok _ (List.mem_of_getElem? hw'), rfl, fun _ h => Or.inl h,
      fun _ h => Or.inl (List.mem_of_mem_eraseIdx h), rfl, rfl, rfl, Or.inl rfl, GrowsL.refl _ _⟩

/-- a simple action performed on `s`: the prelude, then its arm -/
theorem keep_simple (L : Nat) (s : Layout) (a : Action) (ha : simpleIn L a = true) (c : Coord) (os : Bool) :
    Keep L s (C06.simpleArm (prelude s c) a c os) :=
  (keep_prelude L s c).trans (keep_simpleArm L _ a (simpleIn_layer ha) c os)

/-- `waiting_into_hold` on undecided tap-hold keys never crashes -/
theorem waitingIntoHold_ok {L : Nat} (f : Nat) {s : Layout} (hA : AllW L s) (idx : Option Nat) :
    ∃ s' cu, waitingIntoHold (f + 3) s idx = .ok (s', cu) ∧ Keep L s s' := by
  simp only [waitingIntoHold]
  cases ht : takeWaiting s idx with
  | none => exact ⟨s, _, rfl, Keep.refl L s⟩
  | some r =>
    obtain ⟨w, s1⟩ := r
    obtain ⟨hw, k1⟩ := takeWaiting_keep hA idx w s1 ht
    simp only [C06.doAction_simple f _ w.hold (simpleIn_simple hw.hold)]
    exact ⟨_, _, rfl, (k1.trans (keep_holdPrep L s1 w)).trans (keep_simple L _ _ hw.hold _ _)⟩

theorem waitingIntoTap_ok {L : Nat} {s : Layout} (hA : AllW L s) (idx : Option Nat) :
    ∃ s' cu, waitingIntoTap s none idx = .ok (s', cu) ∧ Keep L s s' := by
  simp only [waitingIntoTap]
  cases ht : takeWaiting s idx with
  | none => exact ⟨s, _, rfl, Keep.refl L s⟩
  | some r =>
    obtain ⟨w, s1⟩ := r
    obtain ⟨hw, k1⟩ := takeWaiting_keep hA idx w s1 ht
    simp only [Quiesce.FUEL_2, C06.doAction_simple 3998 _ w.tap (simpleIn_simple hw.tap)]
    exact ⟨_, _, rfl, (k1.trans (keep_simple L _ _ hw.tap _ _)).trans (keep_tapPost L _)⟩

theorem waitingIntoTimeout_ok {L : Nat} {s : Layout} (hA : AllW L s) (idx : Option Nat) :
    ∃ s' cu, waitingIntoTimeout s idx = .ok (s', cu) ∧ Keep L s s' := by
  simp only [waitingIntoTimeout]
  cases ht : takeWaiting s idx with
  | none => exact ⟨s, _, rfl, Keep.refl L s⟩
  | some r =>
    obtain ⟨w, s1⟩ := r
    obtain ⟨hw, k1⟩ := takeWaiting_keep hA idx w s1 ht
    simp only [Quiesce.FUEL_2, C06.doAction_simple 3998 _ w.timeoutAction (simpleIn_simple hw.to)]
    exact ⟨_, _, rfl, (k1.trans (keep_timeoutPrep L s1 w)).trans (keep_simple L _ _ hw.to _ _)⟩

/-- **the decision of a tap-hold key is carried out without a crash**: exactly one of its hold, tap
and timeout actions runs (or nothing yet) -/
theorem applyWaitingAction_ok {L : Nat} {s : Layout} (hA : AllW L s) (ra : Option WAct) (idx : Option Nat)
    (dflt : CustomEv) :
    ∃ s' cu, applyWaitingAction s (ra.map (·, none)) idx dflt = .ok (s', cu) ∧ Keep L s s' := by
  cases ra with
  | none => exact ⟨s, dflt, rfl, Keep.refl L s⟩
  | some a =>
    cases a with
    | hold =>
      obtain ⟨s', cu, e1, k1⟩ := waitingIntoHold_ok (L := L) 3997 hA idx
      exact ⟨s', cu, e1, k1⟩
    | tap => exact waitingIntoTap_ok hA idx
    | timeout => exact waitingIntoTimeout_ok hA idx
    | noOp =>
      exact ⟨_, _, rfl, rfl, (fun _ h => by cases h), fun _ h => Or.inl h, rfl, rfl, rfl, Or.inl rfl, GrowsL.refl _ _⟩

/-- **the flush of `Layout::event` on a full queue** (`waiting_into_hold` for `waiting` and every
`extra_waiting` slot) never crashes: every undecided tap-hold key takes its hold action -/
theorem flushWaitings_ok {L : Nat} : ∀ (l : List (Option Nat)) (fuel : Nat) (s : Layout), l.length + 4 ≤ fuel →
    AllW L s → ∃ s', flushWaitings fuel s l = .ok s' ∧ Keep L s s' := by
  intro l
  induction l with
  | nil =>
    intro fuel s hf _
    obtain ⟨f, rfl⟩ : ∃ f, fuel = f + 1 := ⟨fuel - 1, by omega⟩
    exact ⟨s, by simp only [flushWaitings], Keep.refl L s⟩
  | cons i rest ih =>
    intro fuel s hf hA
    simp only [List.length_cons] at hf
    obtain ⟨f, rfl⟩ : ∃ f, fuel = f + 4 := ⟨fuel - 4, by omega⟩
    obtain ⟨s1, cu, e1, k1⟩ := waitingIntoHold_ok (L := L) f hA i
    obtain ⟨s2, e2, k2⟩ := ih (f + 3) s1 (by omega) (hA.keep k1)
    exact ⟨s2, by simp only [flushWaitings, bind, Except.bind, e1, e2], k1.trans k2⟩

/-- one tick of an undecided tap-hold key: it never crashes, leaves the queue and the action queue
alone, and decides hold / tap / timeout or nothing -/
theorem tickWt_wok {L : Nat} {w : Waiting} (hw : WOK L w) (q : List Queued) (aq : ActionQueue) :
    ∃ w' ra, tickWt w q aq = .ok (w', q, aq, Option.map (·, none) ra) ∧ WOK L w' := by
  obtain ⟨cfg, hc⟩ := hw.cfg
  obtain ⟨_, f2, _, _, f5, f6, f7, _, _⟩ :=
    C05.handleHoldTap_fields { w with timeout := w.timeout - 1, ticks := min (w.ticks + 1) U16_MAX } cfg q
  refine ⟨_, _, C05.tickWt_holdTap w cfg hc q aq, ⟨cfg, f2.trans hc⟩, ?_, ?_, ?_⟩
  · rw [f5]; exact hw.hold
  · rw [f6]; exact hw.tap
  · rw [f7]; exact hw.to

/-- the scan of `process_extra_waitings` never crashes -/
theorem tickExtraWaitings_ok {L : Nat} (q : List Queued) (aq : ActionQueue) :
    ∀ (ws done : List Waiting), (∀ w ∈ ws, WOK L w) → (∀ w ∈ done, WOK L w) →
      ∃ ews r, tickExtraWaitings ws q aq done =
          .ok (ews, q, aq, Option.map (fun (p : Nat × WAct) => (p.1, (p.2, none))) r) ∧
        (∀ w ∈ ews, WOK L w) := by
  intro ws
  induction ws with
  | nil =>
    intro done _ hd
    exact ⟨done.reverse, none, rfl, fun w hw => hd w (List.mem_reverse.mp hw)⟩
  | cons w rest ih =>
    intro done hws hd
    obtain ⟨w', ra, e1, hw'⟩ := tickWt_wok (hws w (by simp)) q aq
    cases ra with
    | none =>
      obtain ⟨ews, r, e2, h2⟩ := ih (w' :: done) (fun x hx => hws x (by simp [hx])) (by
        intro x hx
        rcases List.mem_cons.mp hx with rfl | hx
        · exact hw'
        · exact hd x hx)
      refine ⟨ews, r, ?_, h2⟩
      simp only [tickExtraWaitings, e1, Option.map_none]
      exact e2
    | some a =>
      refine ⟨done.reverse ++ w' :: rest, some (done.length, a), ?_, ?_⟩
      · simp only [tickExtraWaitings, e1, Option.map_some]
      · intro x hx
        rcases List.mem_append.mp hx with hx | hx
        · exact hd x (List.mem_reverse.mp hx)
        · rcases List.mem_cons.mp hx with rfl | hx
          · exact hw'
          · exact hws x (by simp [hx])

/-! ## conditions on the configuration -/

/-- what the proofs use of a configured action: it is in the fragment, its fuel cost is at most `C`,
the whole cost of pressing it (with the reserve for transparent / use-defsrc items nested in it: the
cost bound once per layer of the stack, 12, plus the defsrc row) is at most `P`, and `osh` is set
when a one-shot key occurs -/
structure ActOK (cfg : LCfg) (C P : Nat) (osh : Bool) (a : Action) : Prop where
  act : UAct cfg.layers.length a = true
  cost : ucost a ≤ C
  press : a ≠ .trans → ucost a + (if rfree a then 0 else C * 13) ≤ P
  osh : hasOsh a = true → osh = true

structure CfgOK (cfg : LCfg) (C P : Nat) (osh : Bool) : Prop where
  pinned : cfg.pinnedLayerStack = false
  pos : 0 < cfg.layers.length
  ok : ∀ a ∈ allActions cfg, ActOK cfg C P osh a
  src : ∀ e ∈ cfg.srcKeys, rfree e.2 = true
  cmin : 2 ≤ C
  pmin : 2 ≤ P

theorem actOK_noOp {cfg : LCfg} {C P : Nat} {osh : Bool} (h : CfgOK cfg C P osh) : ActOK cfg C P osh .noOp :=
  ⟨rfl, h.cmin, fun _ => by simp only [ucost, rfree, if_true]; exact h.pmin, fun h => by cases h⟩

theorem actOK_trans {cfg : LCfg} {C P : Nat} {osh : Bool} (h : CfgOK cfg C P osh) : ActOK cfg C P osh .trans :=
  ⟨rfl, h.cmin, fun h => absurd rfl h, fun h => by cases h⟩

theorem srcKey_ok {cfg : LCfg} {C P : Nat} {osh : Bool} (h : CfgOK cfg C P osh) (y : Nat) :
    ActOK cfg C P osh (cfg.srcKey y) ∧ rfree (cfg.srcKey y) = true := by
  unfold LCfg.srcKey
  split
  · rename_i a hf
    have hm := List.mem_of_find?_eq_some hf
    exact ⟨h.ok _ (mem_allActions_src hm), h.src _ hm⟩
  · exact ⟨actOK_noOp h, rfl⟩

theorem coordOK_iff {cfg : LCfg} {co : Coord} (h : coordOK cfg co = true) : Quiesce.CoordOK cfg co := by
  simpa [coordOK, Quiesce.CoordOK] using h

/-- the shape of what `resolve_coord` returns: the defsrc key (free of references) with nothing left
of the stack, or an entry found strictly above the end of the stack -/
theorem resolve_shape (s : Layout) (c : Coord) (hsrc : ∀ y, rfree (s.cfg.srcKey y) = true) :
    ∀ (ls : List Nat) (a : Action) (rest : List Nat), s.resolveCoord c ls = .ok (a, rest) →
      (rfree a = true ∨ rest.length < ls.length) ∧ (∀ l ∈ rest, l ∈ ls) := by
  intro ls
  induction ls with
  | nil =>
    intro a rest h
    simp only [Layout.resolveCoord] at h
    split at h; · cases h
    split at h; · cases h
    split at h
    · split at h; · cases h
      injection h with h; injection h with h1 h2; subst h1; subst h2
      exact ⟨Or.inl (hsrc _), fun _ h => h⟩
    · injection h with h; injection h with h1 h2; subst h1; subst h2
      exact ⟨Or.inl rfl, fun _ h => h⟩
  | cons l rest' ih =>
    intro a rest h
    simp only [Layout.resolveCoord] at h
    split at h; · cases h
    split at h; · cases h
    split at h
    · cases h
    · obtain ⟨i1, i2⟩ := ih a rest h
      refine ⟨?_, fun x hx => List.mem_cons_of_mem _ (i2 x hx)⟩
      rcases i1 with i1 | i1
      · exact Or.inl i1
      · exact Or.inr (by simp only [List.length_cons]; omega)
    · injection h with h; injection h with h1 h2; subst h2
      exact ⟨Or.inr (by simp), fun x hx => List.mem_cons_of_mem _ hx⟩

/-- **resolution never crashes** on a coordinate inside the table and layers that exist, and what it
finds is a configured action (or no-op), not transparent -/
theorem resolve_ok {s : Layout} {C P : Nat} {osh : Bool} (hC : CfgOK s.cfg C P osh) {co : Coord}
    (hco : coordOK s.cfg co = true) (ls : List Nat) (hls : ∀ l ∈ ls, l < s.cfg.layers.length) :
    ∃ a ls', s.resolveCoord co ls = .ok (a, ls') ∧ a ≠ .trans ∧ ActOK s.cfg C P osh a ∧
      (rfree a = true ∨ ls'.length < ls.length) ∧ (∀ l ∈ ls', l ∈ ls) := by
  obtain ⟨a, ls', hr⟩ := Quiesce.resolve_total s co (coordOK_iff hco) ls hls
  have h1 := Quiesce.resolve_ne_trans s co (fun e he => by
    intro h; have := hC.src e he; rw [h] at this; cases this) ls a ls' hr
  have h2 := Quiesce.resolve_pred (ActOK s.cfg C P osh) (actOK_noOp hC) (actOK_trans hC) s co
    (fun tbl ht e he => hC.ok _ (mem_allActions_layer ht he))
    (fun e he => hC.ok _ (mem_allActions_src he)) ls a ls' hr
  obtain ⟨h3, h4⟩ := resolve_shape s co (fun y => (srcKey_ok hC y).2) ls a ls' hr
  exact ⟨a, ls', hr, h1, h2, h3, h4⟩

/-- the layer order exists (after fix 31b82c0), holds at most 12 layers, all of which exist -/
theorem transOrder_ok {cfg : LCfg} {s : Layout} {C P : Nat} {osh : Bool} (hC : CfgOK cfg C P osh)
    (hN : NC cfg s) : ∃ order, s.transOrder = .ok order ∧ (∀ l ∈ order, l < cfg.layers.length) ∧
      order.length ≤ MAX_ACTIVE_LAYERS := by
  have hp : s.cfg.pinnedLayerStack = false := by rw [hN.cfgEq]; exact hC.pinned
  obtain ⟨order, ho, hol⟩ := Quiesce.transOrder_total s cfg.layers.length hp hN.dl hC.pos hN.held
  obtain ⟨v, hv, hl⟩ := C02.layer_stack_never_overflows s hp
  rw [ho] at hv; injection hv with hv; subst hv
  exact ⟨order, ho, hol, hl⟩

/-! ## releases, the queue, waiting states -/

/-- **a release taken from the queue never crashes** (any state, any fuel ≥ 1) and only removes states -/
theorem dequeue_release_ok (L : Nat) (fuel : Nat) (s : Layout) (c : Coord) (since : Nat) :
    ∃ s' cu, dequeue (fuel + 1) s ⟨.release c, since⟩ = .ok (s', cu) ∧ Keep L s s' := by
  simp only [dequeue]
  generalize s.oneshot.handleRelease c = r
  obtain ⟨o, dr, ov⟩ := r
  have sub := Macro.releaseStates_sub
  cases dr <;> cases ov <;> simp only [Bool.false_eq_true, if_false, if_true]
  · exact ⟨_, _, rfl, Keep.of_states rfl rfl rfl rfl rfl rfl rfl (GrowsL.refl _ _)⟩
  · rename_i c2
    have h1 := sub false c2 s.states .noEvent
    generalize releaseStates false c2 s.states .noEvent = r1 at h1
    obtain ⟨st1, cu1⟩ := r1
    exact ⟨_, _, rfl, Keep.of_states rfl rfl rfl rfl rfl rfl rfl (fun x hx => Or.inl (h1 x hx))⟩
  · have h1 := sub true c s.states .noEvent
    generalize releaseStates true c s.states .noEvent = r1 at h1
    obtain ⟨st1, cu1⟩ := r1
    exact ⟨_, _, rfl, Keep.of_states rfl rfl rfl rfl rfl rfl rfl (fun x hx => Or.inl (h1 x hx))⟩
  · rename_i c2
    have h1 := sub true c s.states .noEvent
    generalize releaseStates true c s.states .noEvent = r1 at h1
    obtain ⟨st1, cu1⟩ := r1
    simp only []
    have h2 := sub false c2 st1 cu1
    generalize releaseStates false c2 st1 cu1 = r2 at h2
    obtain ⟨st2, cu2⟩ := r2
    exact ⟨_, _, rfl, Keep.of_states rfl rfl rfl rfl rfl rfl rfl (fun x hx => Or.inl (h1 x (h2 x hx)))⟩

/-- the two outcomes of pushing onto a ring that is not over-full -/
theorem pbw_cases {α} (cap : Nat) (hc : 0 < cap) (l : List α) (x : α) (h : l.length ≤ cap) :
    (l.length < cap ∧ pushBackWrap cap l x = (l ++ [x], none)) ∨
    (∃ h0 t, l = h0 :: t ∧ pushBackWrap cap l x = (t ++ [x], some h0)) := by
  unfold pushBackWrap
  by_cases hl : l.length < cap
  · exact Or.inl ⟨hl, by rw [if_pos hl]⟩
  · right
    rw [if_neg hl]
    cases l with
    | nil => simp at hl; omega
    | cons h0 t => exact ⟨h0, t, rfl, rfl⟩

theorem presses_append (a b : List Queued) : presses (a ++ b) = presses a + presses b := by
  simp [presses, List.countP_append]

theorem presses_cons (x : Queued) (q : List Queued) :
    presses (x :: q) = presses q + (if x.ev.isPress then 1 else 0) := by
  simp only [presses, List.countP_cons]

theorem presses_le_length (q : List Queued) : presses q ≤ q.length := List.countP_le_length

/-! ## outcomes -/

/-- outcome of processing something on an invariant state: the invariant again, the same
configuration, no more presses queued than before -/
structure Post (cfg : LCfg) (s s' : Layout) : Prop where
  nc : NC cfg s'
  pr : presses s'.queue ≤ presses s.queue

theorem Post.of_keep {cfg : LCfg} {s s' : Layout} (h : NC cfg s) (k : Keep cfg.layers.length s s') : Post cfg s s' :=
  ⟨h.keep k, by rw [k.queue]; exact Nat.le_refl _⟩

theorem Post.after_keep {cfg : LCfg} {a b c : Layout} (k : Keep cfg.layers.length a b) (h : Post cfg b c) : Post cfg a c :=
  ⟨h.nc, by have := h.pr; rw [k.queue] at this; exact this⟩

theorem Post.then_keep {cfg : LCfg} {a b c : Layout} (h : Post cfg a b) (k : Keep cfg.layers.length b c) : Post cfg a c :=
  ⟨h.nc.keep k, by rw [k.queue]; exact h.pr⟩

theorem Post.trans {cfg : LCfg} {a b c : Layout} (h1 : Post cfg a b) (h2 : Post cfg b c) : Post cfg a c :=
  ⟨h2.nc, Nat.le_trans h2.pr h1.pr⟩

/-- **`Layout::event`, given that the oldest queued press can be processed**: the event is queued; when
32 are pending already the waiting states are flushed (every undecided tap-hold key takes its hold
action) and the oldest event is processed at once.  `hd` is what is needed of `dequeue` for a press (a release never crashes). -/
theorem event_via {cfg : LCfg} (f : Nat) (hf : 13 ≤ f) (s : Layout) (e : Ev) (hN : NC cfg s)
    (he : evOK cfg e = true)
    (hd : ∀ (s1 : Layout) (c : Coord) (since : Nat), NC cfg s1 → coordOK cfg c = true →
      presses s1.queue + 1 ≤ presses s.queue + (if e.isPress then 1 else 0) →
      ∃ s' cu, dequeue f s1 ⟨.press c, since⟩ = .ok (s', cu) ∧ Post cfg s1 s') :
    ∃ s', event (f + 1) s e = .ok s' ∧ NC cfg s' ∧
      presses s'.queue ≤ presses s.queue + (if e.isPress then 1 else 0) := by
  -- the state with the input history updated
  have core : ∀ s0 : Layout, Keep cfg.layers.length s s0 →
      ∃ s', (match pushBackWrap QUEUE_SIZE s0.queue ⟨e, 0⟩ with
        | (q, ov) =>
          match ov with
          | none => (pure ({ s0 with queue := q } : Layout) : Except Crash Layout)
          | some overflow => do
            let s ← flushWaitings f ({ s0 with queue := q } : Layout) (none :: (List.range EXTRA_WAITING_LEN).map some)
            let (s, _) ← dequeue f s overflow
            pure s) = .ok s' ∧ NC cfg s' ∧
        presses s'.queue ≤ presses s.queue + (if e.isPress then 1 else 0) := by
    intro s0 k0
    have hN0 := hN.keep k0
    have hq0 : s0.queue = s.queue := k0.queue
    have mk : ∀ q : List Queued, q.length ≤ QUEUE_SIZE → (∀ x ∈ q, evOK cfg x.ev = true) →
        NC cfg ({ s0 with queue := q } : Layout) := fun q h1 h2 =>
      ⟨hN0.cfgEq, hN0.wok, hN0.eok, hN0.tde, hN0.aq, hN0.dl, hN0.held, h1, h2⟩
    rcases pbw_cases QUEUE_SIZE (by decide) s0.queue ⟨e, 0⟩ hN0.qlen with ⟨hl, hp⟩ | ⟨h0, t, hl, hp⟩
    · rw [hp]
      refine ⟨_, rfl, mk _ ?_ ?_, ?_⟩
      · simp only [List.length_append, List.length_cons, List.length_nil]; omega
      · intro x hx
        rcases List.mem_append.mp hx with hx | hx
        · exact hN0.queue x hx
        · simp only [List.mem_cons, List.mem_nil_iff, or_false] at hx; subst hx; exact he
      · show presses (s0.queue ++ [⟨e, 0⟩]) ≤ _
        rw [presses_append, hq0, presses_cons]; simp [presses]
    · rw [hp]
      have hlen : (t ++ [(⟨e, 0⟩ : Queued)]).length ≤ QUEUE_SIZE := by
        have := hN0.qlen; rw [hl] at this
        simp only [List.length_append, List.length_cons, List.length_nil] at this ⊢; omega
      have hall : ∀ x ∈ t ++ [(⟨e, 0⟩ : Queued)], evOK cfg x.ev = true := by
        intro x hx
        rcases List.mem_append.mp hx with hx | hx
        · exact hN0.queue x (by rw [hl]; exact List.mem_cons_of_mem _ hx)
        · simp only [List.mem_cons, List.mem_nil_iff, or_false] at hx; subst hx; exact he
      have hN1' := mk _ hlen hall
      obtain ⟨sf, hfl, kf⟩ := flushWaitings_ok (L := cfg.layers.length)
        (none :: (List.range EXTRA_WAITING_LEN).map some) f ({ s0 with queue := t ++ [⟨e, 0⟩] } : Layout)
        (by simp [EXTRA_WAITING_LEN]; omega) hN1'.allW
      have hN1 := hN1'.keep kf
      have hqf : sf.queue = t ++ [⟨e, 0⟩] := kf.queue
      simp only [bind, Except.bind, hfl, pure, Except.pure]
      have hpr : presses (t ++ [(⟨e, 0⟩ : Queued)]) + (if h0.ev.isPress then 1 else 0) =
          presses s.queue + (if e.isPress then 1 else 0) := by
        rw [← hq0, hl, presses_append, presses_cons, presses_cons]; simp [presses]; omega
      obtain ⟨ev0, n0⟩ := h0
      cases ev0 with
      | release c =>
        obtain ⟨f', rfl⟩ : ∃ f', f = f' + 1 := ⟨f - 1, by omega⟩
        obtain ⟨s', cu, e1, k1⟩ := dequeue_release_ok cfg.layers.length f' sf c n0
        rw [e1]
        refine ⟨s', rfl, hN1.keep k1, ?_⟩
        rw [k1.queue, hqf]
        have hpr' : presses (t ++ [(⟨e, 0⟩ : Queued)]) + 0 = presses s.queue + (if e.isPress then 1 else 0) := hpr
        omega
      | press c =>
        have hco : coordOK cfg c = true := hN0.queue ⟨.press c, n0⟩ (by rw [hl]; exact List.mem_cons_self)
        have hpr' : presses (t ++ [(⟨e, 0⟩ : Queued)]) + 1 = presses s.queue + (if e.isPress then 1 else 0) := hpr
        obtain ⟨s', cu, e1, p1⟩ := hd sf c n0 hN1 hco (by rw [hqf]; omega)
        rw [e1]
        refine ⟨s', rfl, p1.nc, ?_⟩
        have := p1.pr
        rw [hqf] at this
        omega
  cases e with
  | press c =>
    simp only [event]
    exact core { s with histInputs := histPush s.histInputs c }
      (Keep.of_states rfl rfl rfl rfl rfl rfl rfl (GrowsL.refl _ _))
  | release c =>
    simp only [event]
    exact core s (Keep.refl _ s)

theorem resolve_ok' {cfg : LCfg} {s : Layout} {C P : Nat} {osh : Bool} (hcfg : s.cfg = cfg) (hC : CfgOK cfg C P osh)
    {co : Coord} (hco : coordOK cfg co = true) (ls : List Nat) (hls : ∀ l ∈ ls, l < cfg.layers.length) :
    ∃ a ls', s.resolveCoord co ls = .ok (a, ls') ∧ a ≠ .trans ∧ ActOK cfg C P osh a ∧
      (rfree a = true ∨ ls'.length < ls.length) ∧ (∀ l ∈ ls', l ∈ ls) := by
  subst hcfg
  exact resolve_ok hC hco ls hls

/-- the one-shot arm for any value of the is-one-shot flag (it does not look at it) -/
theorem dispatch_oneShot' (fuel : Nat) (s : Layout) (inner : Action) (hs : C06.Simple inner) (T : Nat)
    (v : OneShotEnd) (c : Coord) (d : Nat) (os : Bool) (ls : List Nat) :
    dispatch (fuel + 3) s (.oneShot inner T v) c d os ls =
      match C06.oneShotArm s inner T v c with
      | (s2, some ov) =>
        match event (fuel + 2) s2 (.release ov) with
        | .error e => .error e
        | .ok s3 => .ok (s3, .noEvent)
      | (s2, none) => .ok (s2, .noEvent) := by
  simp only [dispatch, C06.doAction_simple fuel _ inner hs, C06.oneShotArm]
  rfl

/-! ## the recursion: `do_action`, `dequeue`, `event` -/

/-- the part of the recursion budget reserved for re-entering `event` from the one-shot arm (the
17th active one-shot key pushes the oldest out, which is released through `event`; if 32 events are
pending, `event` processes the oldest one at once, which may be the press of another one-shot key …):
14 units for `event` itself and the flush of the 9 waiting slots, and `P + 3` for each press
that is still queued.  Zero for a configuration without one-shot keys. -/
def Eres (osh : Bool) (P n : Nat) : Nat := if osh then 14 + n * (P + 3) else 0

/-- **no crash branch and no fuel exhaustion in `do_action` / `dequeue` / the re-entered `event`**,
and the invariant is kept.  `x` is the part of the budget reserved for what transparent and
use-defsrc leaves nested in the action resolve to (`C` per layer still to search plus the defsrc
row), `n` bounds the presses that are queued. -/
theorem engine (cfg : LCfg) (C P : Nat) (osh : Bool) (hC : CfgOK cfg C P osh) : ∀ fuel : Nat,
    (∀ (s : Layout) (a : Action) (coord : Coord) (delay : Nat) (os : Bool) (ls : List Nat) (x n : Nat),
      NC cfg s → UAct cfg.layers.length a = true → (hasOsh a = true → osh = true) →
      coordOK cfg coord = true → (∀ l ∈ ls, l < cfg.layers.length) → ls.length ≤ MAX_ACTIVE_LAYERS →
      (rfree a = true ∨ C * (ls.length + 1) ≤ x) → presses s.queue ≤ n →
      ucost a + x + Eres osh P n ≤ fuel →
      ∃ s' cu, doAction fuel s a coord delay os ls = .ok (s', cu) ∧ Post cfg s s') ∧
    (∀ (s : Layout) (a : Action) (coord : Coord) (delay : Nat) (os : Bool) (ls : List Nat) (x n : Nat),
      NC cfg s → UAct cfg.layers.length a = true → (hasOsh a = true → osh = true) →
      coordOK cfg coord = true → (∀ l ∈ ls, l < cfg.layers.length) → ls.length ≤ MAX_ACTIVE_LAYERS → a ≠ .trans →
      (rfree a = true ∨ C * (ls.length + 1) ≤ x) → presses s.queue ≤ n →
      ucost a + x + Eres osh P n ≤ fuel + 1 →
      ∃ s' cu, dispatch fuel s a coord delay os ls = .ok (s', cu) ∧ Post cfg s s') ∧
    (∀ (s : Layout) (acs : List Action) (coord : Coord) (delay : Nat) (os : Bool) (ls : List Nat)
      (cu0 : CustomEv) (x n : Nat),
      NC cfg s → UActL cfg.layers.length acs = true → (hasOshL acs = true → osh = true) →
      coordOK cfg coord = true → (∀ l ∈ ls, l < cfg.layers.length) → ls.length ≤ MAX_ACTIVE_LAYERS →
      (rfreeL acs = true ∨ C * (ls.length + 1) ≤ x) → presses s.queue ≤ n →
      ucostL acs + x + Eres osh P n ≤ fuel →
      ∃ s' cu, doActions fuel s acs coord delay os ls cu0 = .ok (s', cu) ∧ Post cfg s s') ∧
    (∀ (s : Layout) (coord : Coord) (delay : Nat) (os : Bool) (order : List Nat) (n : Nat),
      NC cfg s → coordOK cfg coord = true → (∀ l ∈ order, l < cfg.layers.length) →
      order.length ≤ MAX_ACTIVE_LAYERS → presses s.queue ≤ n → P + 1 + Eres osh P n ≤ fuel →
      ∃ s' cu, doAction fuel s .trans coord delay os order = .ok (s', cu) ∧ Post cfg s s') ∧
    (∀ (s : Layout) (c : Coord) (since n : Nat),
      NC cfg s → coordOK cfg c = true → presses s.queue ≤ n → P + 2 + Eres osh P n ≤ fuel →
      ∃ s' cu, dequeue fuel s ⟨.press c, since⟩ = .ok (s', cu) ∧ Post cfg s s') ∧
    (∀ (s : Layout) (c : Coord) (n : Nat),
      NC cfg s → osh = true → presses s.queue ≤ n → 14 + n * (P + 3) ≤ fuel →
      ∃ s', event fuel s (.release c) = .ok s' ∧ Post cfg s s') := by
  intro fuel
  induction fuel with
  | zero =>
    refine ⟨?_, ?_, ?_, ?_, ?_, ?_⟩
    · intro s a _ _ _ _ _ _ _ _ _ _ _ _ _ _ h; have := ucost_ge a; omega
    · intro s a _ _ _ _ _ _ _ _ _ _ _ _ _ _ _ h; have := ucost_ge a; omega
    · intro s acs _ _ _ _ _ _ _ _ _ _ _ _ _ _ _ h; have := ucostL_ge acs; omega
    · intro s _ _ _ _ _ _ _ _ _ _ h; omega
    · intro s _ _ _ _ _ _ h; omega
    · intro s _ _ _ _ _ h; omega
  | succ fuel ih =>
    obtain ⟨ih1, ih2, ih3, ih4, ih5, ih6⟩ := ih
    refine ⟨?_, ?_, ?_, ?_, ?_, ?_⟩
    · -- doAction
      intro s a coord delay os ls x n hN hU hO hco hls hlen hx hn hfuel
      have kp := keep_prelude cfg.layers.length s coord
      have hNp := hN.keep kp
      have hnp : presses (prelude s coord).queue ≤ n := by rw [kp.queue]; exact hn
      by_cases hat : a = .trans
      · subst hat
        obtain ⟨a', ls', e1, e2, e3, e4, e5⟩ := resolve_ok' hN.cfgEq hC hco ls hls
        have hx' : C * (ls.length + 1) ≤ x := by
          rcases hx with hx | hx
          · simp [rfree] at hx
          · exact hx
        simp only [ucost] at hfuel
        simp only [doAction, e1]
        have hC1 : C ≤ C * (ls.length + 1) := Nat.le_mul_of_pos_right _ (by omega)
        have hca := e3.cost
        have hlen' : ls'.length ≤ MAX_ACTIVE_LAYERS :=
          Nat.le_trans (Quiesce.resolve_rest_le s coord ls a' ls' e1) hlen
        rcases e4 with e4 | e4
        · obtain ⟨s', cu, r1, r2⟩ := ih2 (prelude s coord) a' coord delay os ls' 0 n hNp e3.act e3.osh hco
            (fun l hl => hls l (e5 l hl)) hlen' e2 (Or.inl e4) hnp (by omega)
          exact ⟨s', cu, r1, Post.after_keep kp r2⟩
        · have hm : C * (ls'.length + 1) + C ≤ C * (ls.length + 1) := by
            have := Nat.mul_le_mul_left C (show ls'.length + 1 + 1 ≤ ls.length + 1 by omega)
            rw [Nat.mul_succ] at this
            exact this
          obtain ⟨s', cu, r1, r2⟩ := ih2 (prelude s coord) a' coord delay os ls' (x - C) n hNp e3.act e3.osh hco
            (fun l hl => hls l (e5 l hl)) hlen' e2 (Or.inr (by omega)) hnp (by omega)
          exact ⟨s', cu, r1, Post.after_keep kp r2⟩
      · have hd : doAction (fuel + 1) s a coord delay os ls = dispatch fuel (prelude s coord) a coord delay os ls := by
          cases a <;> first | exact absurd rfl hat | simp only [doAction]
        rw [hd]
        obtain ⟨s', cu, r1, r2⟩ := ih2 (prelude s coord) a coord delay os ls x n hNp hU hO hco hls hlen hat hx hnp (by omega)
        exact ⟨s', cu, r1, Post.after_keep kp r2⟩
    · -- dispatch
      intro s a coord delay os ls x n hN hU hO hco hls hlen hnt hx hn hfuel
      have hL : s.cfg.layers.length = cfg.layers.length := by rw [hN.cfgEq]
      cases a <;> try (simp only [UAct, Bool.false_eq_true] at hU; done)
      case noOp =>
        simp only [dispatch]
        exact ⟨_, _, rfl, Post.of_keep hN (keep_armNoOp _ s _ coord os)⟩
      case trans => exact absurd rfl hnt
      case keyCode kc =>
        simp only [dispatch]
        exact ⟨_, _, rfl, Post.of_keep hN (keep_armKeyCode _ s _ kc coord os)⟩
      case multipleKeyCodes kcs =>
        simp only [dispatch]
        exact ⟨_, _, rfl, Post.of_keep hN (keep_armMultipleKeyCodes _ s _ kcs coord os)⟩
      case layer l =>
        have hl : l < cfg.layers.length := by simpa [UAct] using hU
        simp only [dispatch]
        exact ⟨_, _, rfl, Post.of_keep hN (keep_armLayer _ s l hl coord os)⟩
      case defaultLayer l =>
        simp only [dispatch]
        exact ⟨_, _, rfl, Post.of_keep hN (keep_armDefaultLayer _ s hL l coord os)⟩
      case releaseState rs =>
        simp only [dispatch]
        exact ⟨_, _, rfl, Post.of_keep hN (keep_armReleaseState _ s _ rs coord os)⟩
      case custom id =>
        simp only [dispatch]
        exact ⟨_, _, rfl, Post.of_keep hN (keep_armCustom _ s _ id coord os)⟩
      case sequence evs =>
        simp only [dispatch]
        exact ⟨_, _, rfl, Post.of_keep hN (keep_armSequence _ s _ evs coord os false)⟩
      case repeatableSequence evs =>
        simp only [dispatch]
        exact ⟨_, _, rfl, Post.of_keep hN (keep_armSequence _ s _ evs coord os true)⟩
      case cancelSequences =>
        simp only [dispatch]
        exact ⟨_, _, rfl, Post.of_keep hN (keep_armCancelSequences _ s _ coord os)⟩
      case oneShotIgnoreEventsTicks t =>
        simp only [dispatch]
        refine ⟨_, _, rfl, Post.of_keep hN ((keep_updateCoord _ s coord).trans ?_)⟩
        exact Keep.of_states rfl rfl rfl rfl rfl rfl rfl (GrowsL.refl _ _)
      case src =>
        have hco' := coordOK_iff hco
        have hx' : C * (ls.length + 1) ≤ x := by
          rcases hx with hx | hx
          · simp [rfree] at hx
          · exact hx
        have hC1 : C ≤ C * (ls.length + 1) := Nat.le_mul_of_pos_right _ (by omega)
        simp only [ucost] at hfuel
        obtain ⟨k1, k2⟩ := srcKey_ok hC coord.2
        have hk := k1.cost
        obtain ⟨s', cu, r1, r2⟩ := ih1 s (cfg.srcKey coord.2) coord delay os [] 0 n hN k1.act k1.osh hco
          (by intro l hl; cases hl) (by simp) (Or.inl k2) hn (by omega)
        simp only [dispatch]
        rw [if_neg (by rw [hN.cfgEq]; have := hco'.2; omega), hN.cfgEq, r1]
        exact ⟨s', .noEvent, rfl, r2⟩
      case multipleActions acs =>
        simp only [UAct] at hU
        simp only [hasOsh] at hO
        simp only [rfree] at hx
        simp only [ucost] at hfuel
        have ku := keep_updateCoord cfg.layers.length s coord
        obtain ⟨s1, c1, r1, r2⟩ := ih3 (updateCoord s coord) acs coord delay os ls .noEvent x n (hN.keep ku) hU hO hco hls hlen
          hx (by rw [ku.queue]; exact hn) (by omega)
        simp only [dispatch, r1]
        exact ⟨_, _, rfl, (Post.after_keep ku r2).then_keep (keep_setRpt _ _ _)⟩
      case fork l r ks =>
        simp only [UAct, Bool.and_eq_true] at hU
        simp only [hasOsh, Bool.or_eq_true] at hO
        simp only [rfree, Bool.and_eq_true] at hx
        simp only [ucost] at hfuel
        simp only [dispatch]
        generalize hb : (if forkHit s ks = true then r else l) = b
        have hb' : b = r ∨ b = l := by subst hb; split <;> simp
        have hUb : UAct cfg.layers.length b = true := by
          rcases hb' with rfl | rfl
          · exact hU.2
          · exact hU.1
        have hOb : hasOsh b = true → osh = true := by
          intro h
          rcases hb' with rfl | rfl
          · exact hO (Or.inr h)
          · exact hO (Or.inl h)
        have hxb : rfree b = true ∨ C * (ls.length + 1) ≤ x := by
          rcases hx with hx | hx
          · left
            rcases hb' with rfl | rfl
            · exact hx.2
            · exact hx.1
          · exact Or.inr hx
        have hcb : ucost b ≤ max (ucost l) (ucost r) := by
          rcases hb' with rfl | rfl
          · exact Nat.le_max_right _ _
          · exact Nat.le_max_left _ _
        obtain ⟨s1, c1, r1, r2⟩ := ih1 s b coord delay false ls x n hN hUb hOb hco hls hlen hxb hn (by omega)
        rw [r1]
        exact ⟨_, _, rfl, r2.then_keep (keep_setRpt _ _ _)⟩
      case holdTap T hold tap to hcfg iv =>
        simp only [UAct, Bool.and_eq_true] at hU
        simp only [ucost] at hfuel
        obtain ⟨g, rfl⟩ : ∃ g, fuel = g + 2 := ⟨fuel - 2, by omega⟩
        simp only [dispatch, C06.doAction_simple g _ tap (simpleIn_simple hU.1.2)]
        split
        · rw [if_neg (by omega)]
          exact ⟨_, _, rfl, Post.of_keep hN (keep_armHoldTapWait _ s coord delay T hold tap to hcfg iv ls hU.1.1 hU.1.2 hU.2)⟩
        · refine ⟨_, _, rfl, Post.of_keep hN ?_⟩
          have k0 : Keep cfg.layers.length s { s with lptTapHoldTimeout := 0 } :=
            Keep.of_states rfl rfl rfl rfl rfl rfl rfl (GrowsL.refl _ _)
          exact (k0.trans (keep_simple _ _ tap hU.1.2 coord os)).trans (keep_updateCoord _ _ coord)
      case oneShot inner T v =>
        simp only [UAct] at hU
        have hs := simpleIn_simple hU
        simp only [ucost] at hfuel
        obtain ⟨g, rfl⟩ : ∃ g, fuel = g + 2 := ⟨fuel - 2, by omega⟩
        rw [dispatch_oneShot' g s inner hs]
        have ko : Keep cfg.layers.length s (C06.oneShotArm s inner T v coord).1 := by
          unfold C06.oneShotArm
          exact (((keep_updateCoord _ s coord).trans (keep_prelude _ _ coord)).trans
            (keep_simpleArm _ _ inner (simpleIn_layer hU) coord true)).trans (keep_armOneShotPost _ _ _ coord T v)
        generalize C06.oneShotArm s inner T v coord = r at ko
        obtain ⟨s2, ov⟩ := r
        cases ov with
        | none => exact ⟨s2, .noEvent, rfl, Post.of_keep hN ko⟩
        | some k =>
          simp only []
          have hosh : osh = true := hO rfl
          simp only [Eres, hosh, if_true] at hfuel
          obtain ⟨s3, r1, r2⟩ := ih6 s2 k n (hN.keep ko) hosh (by rw [ko.queue]; exact hn) (by omega)
          rw [r1]
          exact ⟨s3, .noEvent, rfl, Post.after_keep ko r2⟩
    · -- doActions
      intro s acs coord delay os ls cu0 x n hN hU hO hco hls hlen hx hn hfuel
      cases acs with
      | nil => exact ⟨s, cu0, by simp only [doActions], Post.of_keep hN (Keep.refl _ s)⟩
      | cons a rest =>
        simp only [UActL, Bool.and_eq_true] at hU
        simp only [hasOshL, Bool.or_eq_true] at hO
        simp only [rfreeL, Bool.and_eq_true] at hx
        simp only [ucostL] at hfuel
        obtain ⟨s1, c1, r1, p1⟩ := ih1 s a coord delay os ls x n hN hU.1 (fun h => hO (Or.inl h)) hco hls hlen
          (hx.imp (·.1) id) hn (by omega)
        obtain ⟨s2, c2, r2, p2⟩ := ih3 s1 rest coord delay os ls (cu0.update c1) x n p1.nc hU.2 (fun h => hO (Or.inr h))
          hco hls hlen (hx.imp (·.2) id) (Nat.le_trans p1.pr hn) (by omega)
        exact ⟨s2, c2, by simp only [doActions, r1, r2], p1.trans p2⟩
    · -- a press taken from the queue: resolution from the top of the layer order
      intro s coord delay os order n hN hco hol hlen hn hfuel
      have kp := keep_prelude cfg.layers.length s coord
      obtain ⟨a', ls', e1, e2, e3, e4, e5⟩ := resolve_ok' hN.cfgEq hC hco order hol
      simp only [doAction, e1]
      have hp := e3.press e2
      have hlen' : ls'.length ≤ MAX_ACTIVE_LAYERS :=
        Nat.le_trans (Quiesce.resolve_rest_le s coord order a' ls' e1) hlen
      by_cases hr : rfree a' = true
      · rw [if_pos hr] at hp
        obtain ⟨s', cu, r1, r2⟩ := ih2 (prelude s coord) a' coord delay os ls' 0 n (hN.keep kp) e3.act e3.osh hco
          (fun l hl => hol l (e5 l hl)) hlen' e2 (Or.inl hr) (by rw [kp.queue]; exact hn) (by omega)
        exact ⟨s', cu, r1, Post.after_keep kp r2⟩
      · rw [if_neg hr] at hp
        have hl : ls'.length < order.length := by
          rcases e4 with e4 | e4
          · exact absurd e4 hr
          · exact e4
        have hm : C * (ls'.length + 1) ≤ C * 13 :=
          Nat.mul_le_mul_left C (by simp only [MAX_ACTIVE_LAYERS] at hlen; omega)
        obtain ⟨s', cu, r1, r2⟩ := ih2 (prelude s coord) a' coord delay os ls' (C * 13) n (hN.keep kp) e3.act e3.osh hco
          (fun l hl => hol l (e5 l hl)) hlen' e2 (Or.inr hm) (by rw [kp.queue]; exact hn) (by omega)
        exact ⟨s', cu, r1, Post.after_keep kp r2⟩
    · -- dequeue of a press
      intro s c since n hN hco hn hfuel
      obtain ⟨order, ho, hol, hlen⟩ := transOrder_ok hC hN
      simp only [dequeue, bind, Except.bind, ho, hN.tde]
      exact ih4 s c since false order n hN hco hol hlen hn (by omega)
    · -- the re-entered event
      intro s c n hN hosh hn hfuel
      obtain ⟨s', r1, r2, r3⟩ := event_via fuel (by omega) s (.release c) hN rfl (fun s1 c1 since hN1 hco1 hp => by
        have hp' : presses s1.queue + 1 ≤ presses s.queue + 0 := hp
        obtain ⟨m, rfl⟩ : ∃ m, n = m + 1 := ⟨n - 1, by omega⟩
        rw [Nat.succ_mul] at hfuel
        refine ih5 s1 c1 since m hN1 hco1 (by omega) ?_
        simp only [Eres, hosh, if_true]
        omega)
      have r3' : presses s'.queue ≤ presses s.queue + 0 := r3
      exact ⟨s', r1, r2, by omega⟩

/-! ## one tick -/

theorem keep_applyEff (L : Nat) (s : Layout) (e : Macro.Eff) : Keep L s (Macro.applyEff s e) := by
  have hfake : ∀ kc, Keep L s (Macro.fakePress s kc) := by
    intro kc
    unfold Macro.fakePress
    exact ((keep_pushState L s (.fakeKey kc) (by intro v h; cases h)).trans (keep_setHist L _ _)).trans
      (keep_oshPress L _ _)
  cases e with
  | idle => exact Keep.refl L s
  | untap k => exact keep_filter L s _
  | perform ev =>
    cases ev with
    | press kc => exact hfake kc
    | tap kc => exact hfake kc
    | release kc => exact Keep.of_states rfl rfl rfl rfl rfl rfl rfl (GrowsL.filter _ _ _)
    | custom id => exact keep_pushState L s _ (by intro v h; cases h)
    | noOp => exact Keep.refl L s
    | delay d => exact Keep.refl L s
    | complete => exact Keep.refl L s

theorem keep_putBack (L : Nat) (s : Layout) (q : SeqState) : Keep L s (Macro.putBack s q) := by
  unfold Macro.putBack; split
  · exact Keep.of_states rfl rfl rfl rfl rfl rfl rfl (GrowsL.refl _ _)
  · exact Keep.refl L s

theorem keep_seqLoop (L : Nat) : ∀ (n : Nat) (s : Layout), Keep L s (Macro.seqLoop n s) := by
  intro n
  induction n with
  | zero => intro s; exact Keep.refl L s
  | succ n ih =>
    intro s
    unfold Macro.seqLoop
    split
    · exact Keep.refl L s
    · rename_i q rest _
      have h1 : Keep L s { s with activeSequences := rest } :=
        Keep.of_states rfl rfl rfl rfl rfl rfl rfl (GrowsL.refl _ _)
      exact ((h1.trans (keep_applyEff L _ _)).trans (keep_putBack L _ _)).trans (ih _)

theorem keep_processSequences (L : Nat) (s : Layout) : Keep L s (processSequences s) := by
  rw [Macro.processSequences_eq]
  refine (keep_seqLoop L s.activeSequences.length s).trans ?_
  unfold Macro.restartRepeating
  split
  · split
    · exact Keep.of_states rfl rfl rfl rfl rfl rfl rfl (GrowsL.refl _ _)
    · exact Keep.refl L _
  · exact Keep.refl L _

/-- first stage of a tick: the queue ages, sequences advance -/
theorem nc_tickPre {cfg : LCfg} {s : Layout} (hN : NC cfg s) :
    NC cfg (tickPre s) ∧ presses (tickPre s).queue = presses s.queue := by
  unfold tickPre
  simp only []
  split
  · rename_i tde heq
    have : s.tapDanceEager = some tde := heq
    rw [hN.tde] at this; cases this
  generalize hs1 : ({ s with queue := s.queue.map fun (q : Queued) => { q with since := min (q.since + 1) U16_MAX },
                              lptTapHoldTimeout := s.lptTapHoldTimeout - 1 } : Layout) = s1
  have hq1 : s1.queue = s.queue.map fun (q : Queued) => { q with since := min (q.since + 1) U16_MAX } := by
    subst hs1; rfl
  have hN1 : NC cfg s1 := by
    subst hs1
    refine ⟨hN.cfgEq, hN.wok, hN.eok, hN.tde, hN.aq, hN.dl, hN.held, ?_, ?_⟩
    · simpa using hN.qlen
    · intro q hq
      obtain ⟨y, hy, hyq⟩ := List.mem_map.mp hq
      rw [← hyq]
      exact hN.queue y hy
  have k2 := keep_processSequences cfg.layers.length s1
  have k3 : Keep cfg.layers.length (processSequences s1)
      { processSequences s1 with histKeys := histTick (processSequences s1).histKeys,
                                 histInputs := histTick (processSequences s1).histInputs } :=
    Keep.of_states rfl rfl rfl rfl rfl rfl rfl (GrowsL.refl _ _)
  refine ⟨hN1.keep (k2.trans k3), ?_⟩
  show presses (processSequences s1).queue = _
  rw [k2.queue, hq1]
  simp only [presses, List.countP_map]
  rfl

/-- second stage: the deferred one-shot releases -/
theorem releaseOneshotKeys_ok (L : Nat) : ∀ (keys : List Coord) (s : Layout) (cu : CustomEv),
    ∃ s' cu', releaseOneshotKeys keys s cu = .ok (s', cu') ∧ Keep L s s' := by
  intro keys
  induction keys with
  | nil => intro s cu; exact ⟨s, cu, rfl, Keep.refl L s⟩
  | cons k rest ih =>
    intro s cu
    obtain ⟨s1, c1, e1, k1⟩ := dequeue_release_ok L 3999 s k 0
    obtain ⟨s2, c2, e2, k2⟩ := ih s1 (cu.update c1)
    refine ⟨s2, c2, ?_, k1.trans k2⟩
    simp only [releaseOneshotKeys, FUEL_succ, e1, e2]

theorem tickOneshot_ok (L : Nat) (s : Layout) : ∃ s' cu, tickOneshot s = .ok (s', cu) ∧ Keep L s s' := by
  unfold tickOneshot
  generalize s.oneshot.tick = r
  obtain ⟨o, ks⟩ := r
  have k0 : Keep L s { s with oneshot := o } := Keep.of_states rfl rfl rfl rfl rfl rfl rfl (GrowsL.refl _ _)
  cases ks with
  | none => exact ⟨_, _, rfl, k0⟩
  | some keys =>
    obtain ⟨s', cu, e1, k1⟩ := releaseOneshotKeys_ok L keys { s with oneshot := o } .noEvent
    exact ⟨s', cu, e1, k0.trans k1⟩

/-- **the recursion budget of a configuration**: `P` (the cost of pressing any configured key) for the
event taken from the queue, and — with one-shot keys — the reserve for re-entering `event` with up to
32 presses pending -/
def Budget (P : Nat) (osh : Bool) : Prop := P + 2 + Eres osh P 32 ≤ 3999

/-- third stage: the undecided tap-hold key is ticked and, if it decides, its action performed; with
nothing waiting, input processing pauses or the oldest event is processed -/
theorem tickMain_ok {cfg : LCfg} {C P : Nat} {osh : Bool} (hC : CfgOK cfg C P osh) (hB : Budget P osh)
    {s : Layout} (hN : NC cfg s) : ∃ s' cu, tickMain s = .ok (s', cu) ∧ NC cfg s' := by
  cases hw : s.waiting with
  | some w =>
    obtain ⟨w', ra, e1, hw'⟩ := tickWt_wok (hN.wok w hw) s.queue s.actionQueue
    have hN' : NC cfg ({ s with waiting := some w', queue := s.queue, actionQueue := s.actionQueue } : Layout) :=
      ⟨hN.cfgEq, (fun x hx => by injection hx with hx; exact hx ▸ hw'), hN.eok, hN.tde, hN.aq, hN.dl, hN.held,
        hN.qlen, hN.queue⟩
    obtain ⟨s', cu, e2, k2⟩ := applyWaitingAction_ok hN'.allW ra none .noEvent
    refine ⟨s', cu, ?_, hN'.keep k2⟩
    unfold tickMain
    simp only [hw, e1]
    exact e2
  | none =>
  by_cases hex : s.extraWaiting = []
  · by_cases hp : 0 < s.oneshot.pauseInputProcessingTicks
    · rw [C06.tickMain_paused hw hex hp]
      exact ⟨_, _, rfl, hN.keep (Keep.of_states rfl rfl rfl rfl rfl rfl rfl (GrowsL.refl _ _))⟩
    · have hp0 : s.oneshot.pauseInputProcessingTicks = 0 := by omega
      cases hq : s.queue with
      | nil =>
        rw [C06.tickMain_empty hw hex hp0 hq]
        exact ⟨_, _, rfl, hN⟩
      | cons q rest =>
        rw [C06.tickMain_pops hw hex hp0 q rest hq]
        have hlen : rest.length + 1 ≤ QUEUE_SIZE := by have := hN.qlen; rw [hq] at this; simpa using this
        have hN1 : NC cfg (s.setQueue rest) :=
          ⟨hN.cfgEq, hN.wok, hN.eok, hN.tde, hN.aq, hN.dl, hN.held, by show rest.length ≤ _; omega,
            fun x hx => hN.queue x (by rw [hq]; exact List.mem_cons_of_mem _ hx)⟩
        obtain ⟨ev, since⟩ := q
        cases ev with
        | release c =>
          obtain ⟨s', cu, e1, k1⟩ := dequeue_release_ok cfg.layers.length 3999 (s.setQueue rest) c since
          rw [FUEL_succ, e1]
          exact ⟨s', cu, rfl, hN1.keep k1⟩
        | press c =>
          have hco : coordOK cfg c = true := hN.queue ⟨.press c, since⟩ (by rw [hq]; exact List.mem_cons_self)
          have hpr : presses (s.setQueue rest).queue ≤ 32 := by
            have := presses_le_length rest
            show presses rest ≤ 32
            simp only [QUEUE_SIZE] at hlen; omega
          obtain ⟨s', cu, e1, p1⟩ := (engine cfg C P osh hC FUEL).2.2.2.2.1 (s.setQueue rest) c since 32 hN1 hco hpr
            (by unfold Budget at hB; simp only [FUEL]; omega)
          exact ⟨s', cu, e1, p1.nc⟩
  · refine ⟨s, .noEvent, ?_, hN⟩
    unfold tickMain
    have : s.extraWaiting.isEmpty = false := by
      cases h : s.extraWaiting with
      | nil => exact absurd h hex
      | cons _ _ => rfl
    simp only [hw, this, Bool.false_eq_true, if_false]

/-- fourth stage: the tap-hold keys waiting in `extra_waiting` are ticked; the first that decides has
its action performed -/
theorem processExtraWaitings_ok {cfg : LCfg} {s : Layout} (hN : NC cfg s) (cur : CustomEv) :
    ∃ s' cu, processExtraWaitings s cur = .ok (s', cu) ∧ NC cfg s' := by
  unfold processExtraWaitings
  split
  · exact ⟨s, cur, rfl, hN⟩
  · obtain ⟨ews, r, e1, h1⟩ := tickExtraWaitings_ok (L := cfg.layers.length) s.queue s.actionQueue
      s.extraWaiting [] hN.eok (by intro w hw; cases hw)
    have hN' : NC cfg ({ s with extraWaiting := ews, queue := s.queue, actionQueue := s.actionQueue } : Layout) :=
      ⟨hN.cfgEq, hN.wok, h1, hN.tde, hN.aq, hN.dl, hN.held, hN.qlen, hN.queue⟩
    simp only [e1]
    cases r with
    | none => exact ⟨_, _, rfl, hN'⟩
    | some p =>
      obtain ⟨s', cu, e2, k2⟩ := applyWaitingAction_ok hN'.allW (some p.2) (some p.1) cur
      exact ⟨s', cu, e2, hN'.keep k2⟩

/-- last stage: custom items of sequences -/
theorem nc_psc {cfg : LCfg} {s : Layout} (hN : NC cfg s) (cu : CustomEv) : NC cfg (processSequenceCustom s cu).1 := by
  obtain ⟨_, p2, _, p4, p5, _⟩ := Quiesce.psc_spec s cu
  have f := (Macro.processSequenceCustom_frame s cu).st
  refine ⟨f.cfg.trans hN.cfgEq, fun w hw => hN.wok w (by rw [f.waiting] at hw; exact hw),
    fun w hw => hN.eok w (by rw [f.extra] at hw; exact hw), f.tde.trans hN.tde,
    f.aq.trans hN.aq, p4 ▸ hN.dl, ?_, p2 ▸ hN.qlen, ?_⟩
  · intro st hst v hv
    rcases p5 st hst with g | ⟨id, g⟩ | g
    · exact hN.held st g v hv
    · subst g; cases hv
    · subst g; cases hv
  · intro q hq
    rw [p2] at hq
    exact hN.queue q hq

/-- **one tick never crashes and keeps the invariant** -/
theorem tick_ok {cfg : LCfg} {C P : Nat} {osh : Bool} (hC : CfgOK cfg C P osh) (hB : Budget P osh)
    {s : Layout} (hN : NC cfg s) : ∃ s' cu, tick s = .ok (s', cu) ∧ NC cfg s' := by
  obtain ⟨hN0, _⟩ := nc_tickPre hN
  obtain ⟨s1, c1, e1, k1⟩ := tickOneshot_ok cfg.layers.length (tickPre s)
  have hN1 := hN0.keep k1
  obtain ⟨s2, c2, e2, hN2⟩ := tickMain_ok hC hB hN1
  obtain ⟨s3, c3, e3, hN3⟩ := processExtraWaitings_ok hN2 (c1.update c2)
  refine ⟨(processSequenceCustom s3 c3).1, (processSequenceCustom s3 c3).2, ?_, nc_psc hN3 _⟩
  unfold tick
  simp only [hN.aq, e1, e2, e3]

/-- **an event never crashes and keeps the invariant** — also when 32 events are pending -/
theorem event_ok {cfg : LCfg} {C P : Nat} {osh : Bool} (hC : CfgOK cfg C P osh) (hB : Budget P osh)
    {s : Layout} (hN : NC cfg s) (e : Ev) (he : evOK cfg e = true) :
    ∃ s', s.event e = .ok s' ∧ NC cfg s' := by
  unfold Layout.event
  rw [FUEL_succ]
  obtain ⟨s', r1, r2, _⟩ := event_via 3999 (by decide) s e hN he (fun s1 c since hN1 hco hp => by
    have hlen := presses_le_length s.queue
    have := hN.qlen
    have hpe : (if e.isPress = true then 1 else 0) ≤ 1 := by split <;> omega
    exact (engine cfg C P osh hC 3999).2.2.2.2.1 s1 c since 32 hN1 hco (by simp only [QUEUE_SIZE] at this; omega)
      (by unfold Budget at hB; omega))
  exact ⟨s', r1, r2⟩

/-! ## histories -/

/-- **every history is processed**: from an invariant state, every list of events (presses inside the
layer table) and ticks — any order, any timing, any number of events between two ticks — runs without
a crash outcome -/
theorem run_ok {cfg : LCfg} {C P : Nat} {osh : Bool} (hC : CfgOK cfg C P osh) (hB : Budget P osh) :
    ∀ (ins : List C04.In) (s : Layout), NC cfg s → C02.InTable cfg ins → ∃ t, C04.runM s ins = .ok t := by
  intro ins
  induction ins with
  | nil => intro s _ _; exact ⟨[], rfl⟩
  | cons i rest ih =>
    intro s hN ht
    unfold C02.InTable at ht
    simp only [List.all_cons, Bool.and_eq_true] at ht
    cases i with
    | ev e =>
      obtain ⟨s1, e1, hN1⟩ := event_ok hC hB hN e ht.1
      obtain ⟨t, h⟩ := ih s1 hN1 ht.2
      exact ⟨t, by simp only [C04.runM, e1, h]⟩
    | tick =>
      obtain ⟨s1, cu, e1, hN1⟩ := tick_ok hC hB hN
      obtain ⟨t, h⟩ := ih s1 hN1 ht.2
      exact ⟨s1.keycodes :: t, by simp only [C04.runM, e1, h]⟩

/-! ## decidable conditions -/

/-- **indices in range and fragment membership** (decidable): the repaired layer stack (fix 31b82c0);
there is a layer; every configured action is in the union fragment, with every `layer-while-held` /
one-shot-layer target an existing layer; the defsrc row holds no transparent / use-defsrc item -/
def RangeU (c : LCfg) : Prop :=
  (!c.pinnedLayerStack && decide (0 < c.layers.length) && (allActions c).all (UAct c.layers.length) &&
    c.srcKeys.all (fun e => rfree e.2)) = true

instance (c : LCfg) : Decidable (RangeU c) := by unfold RangeU; exact inferInstance

structure RangeU' (c : LCfg) : Prop where
  pinned : c.pinnedLayerStack = false
  pos : 0 < c.layers.length
  act : ∀ a ∈ allActions c, UAct c.layers.length a = true
  src : ∀ e ∈ c.srcKeys, rfree e.2 = true

theorem RangeU.unpack {c : LCfg} (h : RangeU c) : RangeU' c := by
  unfold RangeU at h
  simp only [Bool.and_eq_true, Bool.not_eq_true', decide_eq_true_eq, List.all_eq_true] at h
  exact ⟨h.1.1.1, h.1.1.2, h.1.2, h.2⟩

/-- the largest fuel cost of a configured action (at least 2: an unmapped position is a no-op) -/
def maxCost (c : LCfg) : Nat := max 2 (listMax ((allActions c).map ucost))

/-- what pressing a key whose position holds `a` costs: its fuel cost, plus — when a transparent or
use-defsrc item is nested inside it — `C` for each of the up to 12 layers it may fall through and
for the defsrc row -/
def pressOf (C : Nat) (a : Action) : Nat :=
  match a with
  | .trans => 0
  | a => ucost a + (if rfree a then 0 else C * 13)

def pressCost (c : LCfg) : Nat := max 2 (listMax ((allActions c).map (pressOf (maxCost c))))

/-- some configured action contains a one-shot key -/
def cfgOsh (c : LCfg) : Bool := (allActions c).any hasOsh

/-- **the recursion budget of a configuration** (decidable, a closed formula in the configuration):
`pressCost + 2`, plus `14 + 32 * (pressCost + 3)` if there is a one-shot key, must stay below the
model's recursion budget `FUEL - 1 = 3999` -/
def FuelU (c : LCfg) : Prop := pressCost c + 2 + Eres (cfgOsh c) (pressCost c) 32 ≤ 3999

instance (c : LCfg) : Decidable (FuelU c) := by unfold FuelU; exact inferInstance

theorem pressOf_eq (C : Nat) {a : Action} (h : a ≠ .trans) :
    pressOf C a = ucost a + (if rfree a then 0 else C * 13) := by
  cases a <;> first | exact absurd rfl h | rfl

theorem cfgOK_of_range {c : LCfg} (h : RangeU c) : CfgOK c (maxCost c) (pressCost c) (cfgOsh c) := by
  obtain ⟨h1, h2, h3, h4⟩ := h.unpack
  refine ⟨h1, h2, fun a ha => ⟨h3 a ha, ?_, ?_, ?_⟩, h4, Nat.le_max_left _ _, Nat.le_max_left _ _⟩
  · exact Nat.le_trans (le_listMax (List.mem_map.mpr ⟨a, ha, rfl⟩)) (Nat.le_max_right _ _)
  · intro hnt
    rw [← pressOf_eq _ hnt]
    exact Nat.le_trans (le_listMax (List.mem_map.mpr ⟨a, ha, rfl⟩)) (Nat.le_max_right _ _)
  · intro ho
    exact List.any_eq_true.mpr ⟨a, ha, ho⟩

/-- decidable form of `WOK` -/
def wokB (L : Nat) (w : Waiting) : Bool :=
  (match w.config with | .holdTap _ => true | _ => false) && simpleIn L w.hold && simpleIn L w.tap &&
    simpleIn L w.timeoutAction

theorem wokB_wok {L : Nat} {w : Waiting} (h : wokB L w = true) : WOK L w := by
  unfold wokB at h
  simp only [Bool.and_eq_true] at h
  obtain ⟨⟨⟨h1, h2⟩, h3⟩, h4⟩ := h
  refine ⟨?_, h2, h3, h4⟩
  cases hc : w.config with
  | holdTap c => exact ⟨c, rfl⟩
  | tapDance a t n => rw [hc] at h1; cases h1
  | chord g => rw [hc] at h1; cases h1

/-- **the state conditions** (decidable): whatever waits is an undecided tap-hold key with simple
actions; no eager tap-dance, no queued action; the base layer and every held layer exist; at most 32
events are queued, the queued presses inside the table.  A freshly created layout meets them, and
`NC` (which they amount to) is kept by every event and every tick. -/
def StartU (s : Layout) : Prop :=
  (s.waiting.all (wokB s.cfg.layers.length) && s.extraWaiting.all (wokB s.cfg.layers.length) &&
    s.tapDanceEager.isNone && s.actionQueue.isEmpty &&
    decide (s.defaultLayer < s.cfg.layers.length) &&
    (s.states.all fun st => match st.getLayer with | some v => decide (v < s.cfg.layers.length) | none => true) &&
    decide (s.queue.length ≤ QUEUE_SIZE) && (s.queue.all fun q => evOK s.cfg q.ev)) = true

instance (s : Layout) : Decidable (StartU s) := by unfold StartU; exact inferInstance

theorem StartU.nc {s : Layout} (h : StartU s) : NC s.cfg s := by
  unfold StartU at h
  simp only [Bool.and_eq_true, decide_eq_true_eq, List.all_eq_true, Option.isNone_iff_eq_none,
    List.isEmpty_iff] at h
  obtain ⟨⟨⟨⟨⟨⟨⟨a1, a2⟩, a3⟩, a4⟩, a5⟩, a6⟩, a7⟩, a8⟩ := h
  refine ⟨rfl, ?_, fun w hw => wokB_wok (a2 w hw), a3, a4, a5, ?_, a7, a8⟩
  · intro w hw
    rw [hw] at a1
    exact wokB_wok a1
  · intro st hst v hv
    have := a6 st hst
    rw [hv] at this
    simpa using this

/-- a freshly created layout meets the state conditions when there is a layer -/
theorem startU_init (cfg : LCfg) (hp : 0 < cfg.layers.length) (tv2 dfl qth : Bool) (osd : Nat) :
    StartU ({ cfg := cfg, transV2 := tv2, delegateToFirstLayer := dfl, quickTapHoldTimeout := qth,
              oneshot := { pauseInputProcessingDelay := osd } } : Layout) := by
  unfold StartU
  simp [hp]

/-- any predicate that holds of every entry of the layer tables and of the defsrc row holds of every
configured action -/
theorem allActions_forall {c : LCfg} {Q : Action → Prop} (h1 : ∀ tbl ∈ c.layers, ∀ e ∈ tbl, Q e.2)
    (h2 : ∀ e ∈ c.srcKeys, Q e.2) : ∀ a ∈ allActions c, Q a := by
  intro a ha
  unfold allActions at ha
  rcases List.mem_append.mp ha with ha | ha
  · obtain ⟨tbl, ht, hm⟩ := List.mem_flatMap.mp ha
    obtain ⟨e, he, rfl⟩ := List.mem_map.mp hm
    exact h1 tbl ht e he
  · obtain ⟨e, he, rfl⟩ := List.mem_map.mp ha
    exact h2 e he

/-! ## the fragments of C04, C05, C06 and C08 lie inside the union fragment -/

/-- an action of the one-shot fragment of C06 costs at most 4 units of fuel and contains no nested
reference -/
theorem frag06_cost {a : Action} (hf : C06.Frag a) : ucost a ≤ 4 ∧ (a ≠ .trans → rfree a = true) := by
  cases a <;> simp only [C06.Frag] at hf <;> try (exact absurd hf id)
  case noOp => exact ⟨by simp [ucost], fun _ => rfl⟩
  case trans => exact ⟨by simp [ucost], fun h => absurd rfl h⟩
  case keyCode => exact ⟨by simp [ucost], fun _ => rfl⟩
  case multipleKeyCodes => exact ⟨by simp [ucost], fun _ => rfl⟩
  case layer l => exact ⟨by simp [ucost], fun _ => rfl⟩
  case oneShot inner T v => exact ⟨by simp [ucost], fun _ => rfl⟩

/-- an action of the one-shot fragment of C06 whose layer targets exist is in the union fragment -/
theorem frag06_facts {n : Nat} {a : Action} (hf : C06.Frag a) (hs : Quiesce.ActSafe n a) : UAct n a = true := by
  cases a <;> simp only [C06.Frag] at hf <;> try (exact absurd hf id)
  case noOp => rfl
  case trans => rfl
  case keyCode => rfl
  case multipleKeyCodes => rfl
  case layer l =>
    have := hs l rfl
    simpa [UAct] using this
  case oneShot inner T v =>
    cases inner <;> simp only [C06.Simple] at hf <;> try (exact absurd hf id)
    · rfl
    · rfl
    · rename_i l
      have := hs l rfl
      simpa [UAct, simpleIn] using this

/-- an action of the macro fragment of C08 is in the union fragment (it names no layer), holds no
one-shot key and no nested reference -/
theorem frag08_facts (L : Nat) : ∀ (n : Nat) (a : Action), ucost a ≤ n → Macro.MFrag a →
    UAct L a = true ∧ hasOsh a = false ∧ (a ≠ .trans → rfree a = true) := by
  intro n
  induction n with
  | zero => intro a h; have := ucost_ge a; omega
  | succ n ih =>
    intro a hn hf
    cases a <;> simp only [Macro.MFrag] at hf <;> try (exact absurd hf id)
    case noOp => exact ⟨rfl, rfl, fun _ => rfl⟩
    case trans => exact ⟨rfl, rfl, fun h => absurd rfl h⟩
    case keyCode => exact ⟨rfl, rfl, fun _ => rfl⟩
    case cancelSequences => exact ⟨rfl, rfl, fun _ => rfl⟩
    case custom => exact ⟨rfl, rfl, fun _ => rfl⟩
    case sequence => exact ⟨rfl, rfl, fun _ => rfl⟩
    case repeatableSequence => exact ⟨rfl, rfl, fun _ => rfl⟩
    case multipleActions acs =>
      simp only [ucost] at hn
      have hL : ∀ l : List Action, ucostL l ≤ n → Macro.MFragL l →
          UActL L l = true ∧ hasOshL l = false ∧ rfreeL l = true := by
        intro l
        induction l with
        | nil => intro _ _; exact ⟨rfl, rfl, rfl⟩
        | cons b r ihr =>
          intro h1 h2
          simp only [ucostL] at h1
          simp only [Macro.MFragL] at h2
          obtain ⟨b1, b2, b3⟩ := ih b (by omega) h2.1
          obtain ⟨r1, r2, r3⟩ := ihr (by omega) h2.2.2
          simp only [UActL, hasOshL, rfreeL, b1, b2, b3 h2.2.1, r1, r2, r3, Bool.and_self, Bool.or_self]
          exact ⟨trivial, trivial, trivial⟩
      obtain ⟨l1, l2, l3⟩ := hL acs (by omega) hf
      exact ⟨by simp only [UAct, l1], by simp only [hasOsh, l2], fun _ => by simp only [rfree, l3]⟩

/-- an action of the layered fragment of C04 whose layer targets exist is in the union fragment and
holds no one-shot key -/
theorem frag04_facts (L : Nat) : ∀ (n : Nat) (a : Action), ucost a ≤ n → C04.Frag a → C04.layersIn L a = true →
    UAct L a = true ∧ hasOsh a = false := by
  intro n
  induction n with
  | zero => intro a h; have := ucost_ge a; omega
  | succ n ih =>
    intro a hn hf hl
    cases a <;> simp only [C04.Frag] at hf <;> try (exact absurd hf id)
    case noOp => exact ⟨rfl, rfl⟩
    case trans => exact ⟨rfl, rfl⟩
    case keyCode => exact ⟨rfl, rfl⟩
    case multipleKeyCodes => exact ⟨rfl, rfl⟩
    case layer l => exact ⟨by simpa [UAct, C04.layersIn] using hl, rfl⟩
    case defaultLayer => exact ⟨rfl, rfl⟩
    case releaseState => exact ⟨rfl, rfl⟩
    case src => exact ⟨rfl, rfl⟩
    case multipleActions acs =>
      simp only [ucost] at hn
      simp only [C04.layersIn] at hl
      have hL : ∀ l : List Action, ucostL l ≤ n → C04.FragL l → C04.layersInL L l = true →
          UActL L l = true ∧ hasOshL l = false := by
        intro l
        induction l with
        | nil => intro _ _ _; exact ⟨rfl, rfl⟩
        | cons b r ihr =>
          intro h1 h2 h3
          simp only [ucostL] at h1
          simp only [C04.FragL] at h2
          simp only [C04.layersInL, Bool.and_eq_true] at h3
          obtain ⟨b1, b2⟩ := ih b (by omega) h2.1 h3.1
          obtain ⟨r1, r2⟩ := ihr (by omega) h2.2 h3.2
          simp only [UActL, hasOshL, b1, b2, r1, r2, Bool.and_self, Bool.or_self]
          exact ⟨trivial, trivial⟩
      obtain ⟨l1, l2⟩ := hL acs (by omega) hf hl
      exact ⟨by simp only [UAct, l1], by simp only [hasOsh, l2]⟩

/-- an action of the tap-hold fragment of C05 costs at most 4 units of fuel, contains no nested
reference and no one-shot key -/
theorem frag05_cost {a : Action} (hf : Quiesce.FragH a) :
    ucost a ≤ 4 ∧ (a ≠ .trans → rfree a = true) ∧ hasOsh a = false := by
  cases a <;> simp only [Quiesce.FragH] at hf <;> try (exact absurd hf id)
  case noOp => exact ⟨by simp [ucost], fun _ => rfl, rfl⟩
  case trans => exact ⟨by simp [ucost], fun h => absurd rfl h, rfl⟩
  case keyCode => exact ⟨by simp [ucost], fun _ => rfl, rfl⟩
  case multipleKeyCodes => exact ⟨by simp [ucost], fun _ => rfl, rfl⟩
  case layer l => exact ⟨by simp [ucost], fun _ => rfl, rfl⟩
  case holdTap => exact ⟨by simp [ucost], fun _ => rfl, rfl⟩

theorem simple_simpleIn {L : Nat} {a : Action} (hs : C06.Simple a) (hl : Quiesce.SimpleSafe L a) :
    simpleIn L a = true := by
  cases a <;> simp only [C06.Simple] at hs <;> try (exact absurd hs id)
  · rfl
  · rfl
  · rename_i l
    have := hl l rfl
    simpa [simpleIn] using this

/-- an action of the tap-hold fragment of C05 whose layer targets exist is in the union fragment -/
theorem frag05_facts {n : Nat} {a : Action} (hf : Quiesce.FragH a) (hs : Quiesce.ActSafeH n a) : UAct n a = true := by
  cases a <;> simp only [Quiesce.FragH] at hf <;> try (exact absurd hf id)
  case noOp => rfl
  case trans => rfl
  case keyCode => rfl
  case multipleKeyCodes => rfl
  case layer l =>
    simp only [Quiesce.ActSafeH] at hs
    simpa [UAct] using hs
  case holdTap T hold tap to c iv =>
    simp only [Quiesce.ActSafeH] at hs
    simp only [UAct, simple_simpleIn hf.1 hs.1, simple_simpleIn hf.2.1 hs.2.1, simple_simpleIn hf.2.2 hs.2.2,
      Bool.and_self]

/-- the cost bound of a configuration (decidable) -/
def CostU (C : Nat) (c : LCfg) : Prop := ((allActions c).all fun a => decide (ucost a ≤ C)) = true

instance (C : Nat) (c : LCfg) : Decidable (CostU C c) := by unfold CostU; exact inferInstance

theorem CostU.le {C : Nat} {c : LCfg} (h : CostU C c) {a : Action} (ha : a ∈ allActions c) : ucost a ≤ C := by
  have := List.all_eq_true.mp h a ha
  simpa using this

/-- configurations of the one-shot fragment: cost 4 per press, the one-shot reserve -/
theorem cfgOK_06 {c : LCfg} (hf : C06.CfgFrag c) (hr : RangeU c) : CfgOK c 4 4 true := by
  obtain ⟨h1, h2, h3, h4⟩ := hr.unpack
  have hfa : ∀ a ∈ allActions c, C06.Frag a := allActions_forall hf.1 hf.2
  have key : ∀ a ∈ allActions c, ucost a ≤ 4 ∧ (a ≠ .trans → rfree a = true) :=
    fun a ha => frag06_cost (hfa a ha)
  refine ⟨h1, h2, fun a ha => ⟨h3 a ha, (key a ha).1, ?_, fun _ => rfl⟩, h4, by decide, by decide⟩
  intro hnt
  rw [if_pos ((key a ha).2 hnt)]
  exact (key a ha).1

theorem budget_06 : Budget 4 true := by unfold Budget Eres; decide

/-- configurations of the macro fragment: no reference nested in a `multi`, no one-shot key — the
cost bound is the whole budget -/
theorem cfgOK_08 {c : LCfg} {C : Nat} (hf : Macro.CfgM c) (hr : RangeU c) (hc : CostU C c) (h2 : 2 ≤ C) :
    CfgOK c C C false := by
  obtain ⟨h1, hp, h3, h4⟩ := hr.unpack
  have hfa : ∀ a ∈ allActions c, Macro.MFrag a := allActions_forall hf.1 hf.2
  refine ⟨h1, hp, fun a ha => ?_, h4, h2, h2⟩
  obtain ⟨_, f2, f3⟩ := frag08_facts c.layers.length (ucost a) a (Nat.le_refl _) (hfa a ha)
  refine ⟨h3 a ha, hc.le ha, ?_, ?_⟩
  · intro hnt
    rw [if_pos (f3 hnt)]
    exact hc.le ha
  · intro h; rw [f2] at h; cases h

theorem budget_08 {C : Nat} (h : C ≤ 3997) : Budget C false := by unfold Budget Eres; simp; omega

/-- configurations of the tap-hold fragment: cost 4 per press, no one-shot reserve -/
theorem cfgOK_05 {c : LCfg} (hf : Quiesce.CfgH c) (hr : RangeU c) : CfgOK c 4 4 false := by
  obtain ⟨h1, h2, h3, h4⟩ := hr.unpack
  have hfa : ∀ a ∈ allActions c, Quiesce.FragH a := allActions_forall hf.1 hf.2
  refine ⟨h1, h2, fun a ha => ⟨h3 a ha, (frag05_cost (hfa a ha)).1, ?_, ?_⟩, h4, by decide, by decide⟩
  · intro hnt
    rw [if_pos ((frag05_cost (hfa a ha)).2.1 hnt)]
    exact (frag05_cost (hfa a ha)).1
  · intro h; rw [(frag05_cost (hfa a ha)).2.2] at h; cases h

theorem budget_05 : Budget 4 false := by unfold Budget Eres; decide

/-! ## the state reached, not only the trace -/

/-- the layout model run on a history, returning the state reached -/
def runL : Layout → List C04.In → Except Crash Layout
  | s, [] => .ok s
  | s, .ev e :: r =>
    match s.event e with
    | .error c => .error c
    | .ok s' => runL s' r
  | s, .tick :: r =>
    match tick s with
    | .error c => .error c
    | .ok (s', _) => runL s' r

theorem runL_ok {cfg : LCfg} {C P : Nat} {osh : Bool} (hC : CfgOK cfg C P osh) (hB : Budget P osh) :
    ∀ (ins : List C04.In) (s : Layout), NC cfg s → C02.InTable cfg ins → ∃ s', runL s ins = .ok s' ∧ NC cfg s' := by
  intro ins
  induction ins with
  | nil => intro s hN _; exact ⟨s, rfl, hN⟩
  | cons i rest ih =>
    intro s hN ht
    unfold C02.InTable at ht
    simp only [List.all_cons, Bool.and_eq_true] at ht
    cases i with
    | ev e =>
      obtain ⟨s1, e1, hN1⟩ := event_ok hC hB hN e ht.1
      obtain ⟨s', h, hN'⟩ := ih s1 hN1 ht.2
      exact ⟨s', by simp only [runL, e1, h], hN'⟩
    | tick =>
      obtain ⟨s1, cu, e1, hN1⟩ := tick_ok hC hB hN
      obtain ⟨s', h, hN'⟩ := ih s1 hN1 ht.2
      exact ⟨s', by simp only [runL, e1, h], hN'⟩

theorem wok_wokB {L : Nat} {w : Waiting} (h : WOK L w) : wokB L w = true := by
  obtain ⟨c, hc⟩ := h.cfg
  unfold wokB
  simp only [hc, h.hold, h.tap, h.to, Bool.and_self]

/-- the invariant, back in decidable form -/
theorem NC.startU {s : Layout} (h : NC s.cfg s) : StartU s := by
  unfold StartU
  simp only [Bool.and_eq_true, decide_eq_true_eq, List.all_eq_true, Option.isNone_iff_eq_none,
    List.isEmpty_iff]
  refine ⟨⟨⟨⟨⟨⟨⟨?_, fun w hw => wok_wokB (h.eok w hw)⟩, h.tde⟩, h.aq⟩, h.dl⟩, ?_⟩, h.qlen⟩, h.queue⟩
  · cases hw : s.waiting with
    | none => rfl
    | some w => exact wok_wokB (h.wok w hw)
  · intro st hst
    cases hv : st.getLayer with
    | none => rfl
    | some v => simpa using h.held st hst v hv

end KVerif.NCF
