/-
C06 helper lemmas, part 1: `OneShotState` (`tick_osh`, `handle_press`, `handle_release`) case by case.
-/
import KVerif.Lemmas.LayeredTick
namespace KVerif.C06
open KVerif.L

abbrev StOK := C04.StOK

def isPressEnd : OneShotEnd → Bool
  | .firstPress | .firstPressOrRepress => true
  | _ => false

def isRepressEnd : OneShotEnd → Bool
  | .firstPressOrRepress | .firstReleaseOrRepress => true
  | _ => false

/-- the state `tick_osh` leaves behind when it fires -/
def OneShotState.cleared (o : OneShotState) : OneShotState :=
  { o with releaseOnNextTick := false, timeout := 0, pauseInputProcessingTicks := 0,
           ticksToIgnoreEvents := 0, keys := [], otherPressedKeys := [], releasedKeys := [] }

theorem isEmpty_false_of_ne {α} {l : List α} (h : l ≠ []) : l.isEmpty = false := by
  cases l with
  | nil => exact absurd rfl h
  | cons _ _ => rfl

/-! ### `tick_osh` -/

theorem tick_inactive (o : OneShotState) (h : o.keys = []) : o.tick = (o, none) := by
  simp [OneShotState.tick, h]

/-- `tick_osh` fires exactly when a release was requested or the countdown reaches zero; it then
hands back *all* deferred releases and forgets every active key -/
theorem tick_fires (o : OneShotState) (hk : o.keys ≠ [])
    (h : o.releaseOnNextTick = true ∨ o.timeout ≤ 1) :
    o.tick = (OneShotState.cleared o, some o.releasedKeys) := by
  unfold OneShotState.tick
  rw [if_neg (by simp [isEmpty_false_of_ne hk])]
  have hc : (o.releaseOnNextTick || (o.timeout - 1 == 0)) = true := by
    rcases h with h | h
    · simp [h]
    · have : o.timeout - 1 = 0 := by omega
      simp [this]
  simp only [hc, if_true]
  rfl

theorem tick_waits (o : OneShotState) (hk : o.keys ≠ []) (h1 : o.releaseOnNextTick = false)
    (h2 : 2 ≤ o.timeout) :
    o.tick = ({ o with ticksToIgnoreEvents := o.ticksToIgnoreEvents - 1, timeout := o.timeout - 1 }, none) := by
  unfold OneShotState.tick
  rw [if_neg (by simp [isEmpty_false_of_ne hk])]
  have hc : (o.releaseOnNextTick || (o.timeout - 1 == 0)) = false := by
    have : ¬ (o.timeout - 1 = 0) := by omega
    simp [h1, this]
  simp only [hc]
  rfl

/-! ### `handle_press` -/

theorem handlePress_inactive (o : OneShotState) (k : OshKey) (h : o.keys = []) :
    o.handlePress k = (o, []) := by
  simp [OneShotState.handlePress, h]

/-- press variants: another key's press caps the countdown at the rapid-event delay and pauses
input processing for the same number of ticks -/
theorem handlePress_other_pressEnd (o : OneShotState) (c : Coord) (hk : o.keys ≠ [])
    (hi : o.ticksToIgnoreEvents = 0) (he : isPressEnd o.endConfig = true) :
    o.handlePress (.other c) =
      ({ o with timeout := min o.pauseInputProcessingDelay o.timeout,
                pauseInputProcessingTicks := o.pauseInputProcessingDelay }, o.keys) := by
  unfold OneShotState.handlePress
  rw [if_neg (by simp [isEmpty_false_of_ne hk, hi])]
  cases hec : o.endConfig <;> simp [hec, isPressEnd] at he ⊢

/-- release variants: another key's press is only remembered -/
theorem handlePress_other_releaseEnd (o : OneShotState) (c : Coord) (hk : o.keys ≠ [])
    (hi : o.ticksToIgnoreEvents = 0) (he : isPressEnd o.endConfig = false) :
    o.handlePress (.other c) =
      ({ o with otherPressedKeys := (pushBackWrap ONE_SHOT_MAX_ACTIVE o.otherPressedKeys c).1 }, o.keys) := by
  unfold OneShotState.handlePress
  rw [if_neg (by simp [isEmpty_false_of_ne hk, hi])]
  cases hec : o.endConfig <;> simp [hec, isPressEnd] at he ⊢

/-- a one-shot key pressed while one-shot keys are active: its own deferred release is withdrawn;
in the pcancel variants pressing an *active* key again requests the release -/
theorem handlePress_oneShotKey (o : OneShotState) (c : Coord) (hk : o.keys ≠ [])
    (hi : o.ticksToIgnoreEvents = 0) :
    (o.handlePress (.oneShotKey c)).1 =
      { o with releaseOnNextTick := o.releaseOnNextTick || (isRepressEnd o.endConfig && o.keys.contains c),
               releasedKeys := o.releasedKeys.filter (· != c) } := by
  obtain ⟨keys, rk, opk, to, ec, rnt, pd, pt, ti⟩ := o
  simp only at hk hi ⊢
  subst hi
  have hne : keys.isEmpty = false := isEmpty_false_of_ne hk
  by_cases hcc : c ∈ keys <;> cases ec <;> cases rnt <;>
    simp [OneShotState.handlePress, hne, isRepressEnd, hcc]

/-! ### `handle_release` -/

theorem handleRelease_inactive (o : OneShotState) (c : Coord) (h : o.keys = []) :
    o.handleRelease c = (o, true, none) := by
  simp [OneShotState.handleRelease, h]

/-- the release of an active one-shot key is deferred: remembered, not applied -/
theorem handleRelease_active (o : OneShotState) (c : Coord) (h : o.keys.contains c = true) :
    o.handleRelease c =
      ({ o with releasedKeys := (pushBackWrap ONE_SHOT_MAX_ACTIVE o.releasedKeys c).1 }, false,
       (pushBackWrap ONE_SHOT_MAX_ACTIVE o.releasedKeys c).2) := by
  have hk : o.keys ≠ [] := by intro h0; simp [h0] at h
  have hm : c ∈ o.keys := by simpa using h
  unfold OneShotState.handleRelease
  rw [if_neg (by simp [isEmpty_false_of_ne hk])]
  simp [hm]

/-- the release of any other key is applied normally; in the release variants it requests the
release of the one-shot keys iff that key was pressed since the activation -/
theorem handleRelease_other (o : OneShotState) (c : Coord) (hk : o.keys ≠ [])
    (h : o.keys.contains c = false) :
    o.handleRelease c =
      ({ o with releaseOnNextTick := o.releaseOnNextTick ||
                  (!isPressEnd o.endConfig && o.otherPressedKeys.contains c) }, true, none) := by
  obtain ⟨keys, rk, opk, to, ec, rnt, pd, pt, ti⟩ := o
  simp only at hk h ⊢
  have hne : keys.isEmpty = false := isEmpty_false_of_ne hk
  have h' : c ∉ keys := by simpa using h
  by_cases hcc : c ∈ opk <;> cases ec <;> cases rnt <;>
    simp [OneShotState.handleRelease, hne, isPressEnd, h', hcc]

end KVerif.C06
