/-
Helper lemmas for C19: the state invariant `Good` (stored macros are balanced and marker-free, the
recursion guard tracks exactly the unfinished expansions, everything fed so far plus everything
still queued leaves no key down) and its preservation by every step of the glue.
-/
import KVerif.Lemmas.DynMacroReplay
namespace KVerif.DynMacro

/-- the `EndMacro` markers in a queue, in order -/
def markers (q : List Item) : List Nat :=
  q.filterMap fun i => match i with
    | .endMacro id => some id
    | _ => none

theorem markers_append (a b : List Item) : markers (a ++ b) = markers a ++ markers b := by
  simp [markers, List.filterMap_append]

theorem markers_noEnd (l : List Item) (h : NoEnd l) : markers l = [] := by
  induction l with
  | nil => rfl
  | cons i r ih =>
    have hr : NoEnd r := fun j hj => h j (List.mem_cons_of_mem _ hj)
    cases i with
    | press o d => simpa [markers, List.filterMap_cons] using ih hr
    | release o d => simpa [markers, List.filterMap_cons] using ih hr
    | endMacro id => exact absurd rfl (h (.endMacro id) (by simp) id)

/-- stored macros contain no marker and leave no key down -/
def StoreOK (s : Store) : Prop :=
  ∀ id items, s.get id = some items → NoEnd items ∧ unreleased items = []

def RecOK : Option Rec → Prop
  | none => True
  | some r => NoEnd r.items

/-- the recursion guard: `active` is duplicate-free and consists of one top-level macro plus exactly
the macros whose end marker is still queued; markers are distinct -/
def RepOK : Option Replay → Prop
  | none => True
  | some st =>
    st.active.Nodup ∧ (markers st.queue).Nodup ∧
      ∃ top, top ∉ markers st.queue ∧ ∀ a, a ∈ st.active ↔ (a = top ∨ a ∈ markers st.queue)

variable {L : Type}

/-- everything the replay has fed so far, followed by everything still queued, leaves no key down -/
def Bal (k : K L) : Prop := scanEv [] (k.fed ++ planOf k.rep) = []

def Good (k : K L) : Prop := RecOK k.rcd ∧ StoreOK k.store ∧ RepOK k.rep ∧ Bal k

theorem good_respects : Respects (Good (L := L)) := by
  intro a b ⟨h1, h2, h3, h4, _, _⟩ ⟨g1, g2, g3, g4⟩
  refine ⟨h1 ▸ g1, h3 ▸ g2, h2 ▸ g3, ?_⟩
  unfold Bal at g4 ⊢
  rw [← h2, ← h4]; exact g4

/-! ### the store -/

theorem Store.get_insert (s : Store) (id j : Nat) (v : List Item) :
    (s.insert id v).get j = if j = id then some v else s.get j := by
  induction s with
  | nil =>
    simp only [Store.insert, Store.get]
    by_cases h : j = id
    · simp [h]
    · have : ¬ id = j := fun e => h e.symm
      simp [h, this]
  | cons p r ih =>
    obtain ⟨k, w⟩ := p
    simp only [Store.insert]
    by_cases hk : k = id
    · subst hk
      simp only [if_true, Store.get]
      by_cases h : j = k
      · simp [h]
      · have : ¬ k = j := fun e => h e.symm
        simp [h, this]
    · simp only [hk, if_false, Store.get]
      by_cases h : k = j
      · subst h
        have : ¬ k = id := hk
        simp [this]
      · simp [h, ih]

theorem StoreOK.save {s : Store} (h : StoreOK s) (sv : Saved)
    (hsv : ∀ id items, sv = some (id, items) → NoEnd items ∧ unreleased items = []) :
    StoreOK (s.save sv) := by
  cases sv with
  | none => exact h
  | some p =>
    obtain ⟨id, items⟩ := p
    intro j its hj
    simp only [Store.save, Store.get_insert] at hj
    split at hj
    · simp only [Option.some.injEq] at hj; subst hj; exact hsv id items rfl
    · exact h j its hj

theorem saved_ok (hint : List Nat) (items : List Item) (h : NoEnd items) :
    NoEnd (addReleases hint items) ∧ unreleased (addReleases hint items) = [] :=
  ⟨h.addReleases hint, unreleased_addReleases hint items⟩

theorem noEnd_dropLast {l : List Item} (h : NoEnd l) : NoEnd l.dropLast :=
  h.sublist fun _ hi => List.dropLast_subset _ hi

theorem noEnd_take {l : List Item} (n : Nat) (h : NoEnd l) : NoEnd (l.take n) :=
  h.sublist fun _ hi => List.take_subset _ _ hi

/-! ### recording functions keep `RecOK` and save only good macros -/

theorem beginRecord_ok (fix : Bool) (hint : List Nat) (id : Nat) (r : Option Rec) (r' : Option Rec)
    (sv : Saved) (hr : RecOK r) (h : beginRecord fix hint id r = .ok (r', sv)) :
    RecOK r' ∧ ∀ i items, sv = some (i, items) → NoEnd items ∧ unreleased items = [] := by
  cases r with
  | none =>
    simp only [beginRecord, Except.ok.injEq, Prod.mk.injEq] at h
    obtain ⟨rfl, rfl⟩ := h
    exact ⟨by simp [RecOK, Rec.new, NoEnd], by simp⟩
  | some st =>
    simp only [beginRecord] at h
    split at h
    · cases h
    · rename_i items hi
      simp only [Except.ok.injEq, Prod.mk.injEq] at h
      obtain ⟨rfl, rfl⟩ := h
      have hn : NoEnd items := by
        simp only [removeLast] at hi
        split at hi
        · cases hi
        · simp only [Except.ok.injEq] at hi; subst hi
          exact noEnd_dropLast (NoEnd.flush hr)
      refine ⟨?_, ?_⟩
      · split
        · trivial
        · simp [RecOK, Rec.new, NoEnd]
      · intro i its e
        simp only [Option.some.injEq, Prod.mk.injEq] at e
        obtain ⟨_, rfl⟩ := e
        exact saved_ok hint items hn

theorem stopMacro_ok (fix : Bool) (hint : List Nat) (n : Nat) (r : Option Rec) (r' : Option Rec)
    (sv : Saved) (hr : RecOK r) (h : stopMacro fix hint n r = .ok (r', sv)) :
    RecOK r' ∧ ∀ i items, sv = some (i, items) → NoEnd items ∧ unreleased items = [] := by
  cases r with
  | none =>
    simp only [stopMacro, Except.ok.injEq, Prod.mk.injEq] at h
    obtain ⟨rfl, rfl⟩ := h
    exact ⟨trivial, by simp⟩
  | some st =>
    simp only [stopMacro] at h
    split at h
    · cases h
    · rename_i items hi
      simp only [Except.ok.injEq, Prod.mk.injEq] at h
      obtain ⟨rfl, rfl⟩ := h
      have hn : NoEnd items := by
        simp only [removeLast] at hi
        split at hi
        · cases hi
        · simp only [Except.ok.injEq] at hi; subst hi
          exact noEnd_dropLast (NoEnd.flush hr)
      refine ⟨trivial, ?_⟩
      intro i its e
      simp only [Option.some.injEq, Prod.mk.injEq] at e
      obtain ⟨_, rfl⟩ := e
      exact saved_ok hint _ (noEnd_take _ hn)

theorem recordPress_ok (hint : List Nat) (max osc : Nat) (r : Option Rec) (hr : RecOK r) :
    RecOK (recordPress hint max osc r).1 ∧
      ∀ i items, (recordPress hint max osc r).2 = some (i, items) →
        NoEnd items ∧ unreleased items = [] := by
  cases r with
  | none => simp [recordPress, RecOK]
  | some st =>
    simp only [recordPress]
    split
    · refine ⟨trivial, ?_⟩
      intro i its e
      simp only [Option.some.injEq, Prod.mk.injEq] at e
      obtain ⟨_, rfl⟩ := e
      exact saved_ok hint _ hr
    · exact ⟨NoEnd.flush hr, by simp⟩

theorem recordRelease_ok (osc : Nat) (r : Option Rec) (hr : RecOK r) : RecOK (recordRelease osc r) := by
  cases r with
  | none => trivial
  | some st => exact NoEnd.flush hr

theorem tickRecord_ok (r : Option Rec) (hr : RecOK r) : RecOK (tickRecord r) := by
  cases r with
  | none => trivial
  | some st => exact hr

/-! ### `play_macro` -/

theorem evsQ_cons_end (id : Nat) (q : List Item) : evsQ (.endMacro id :: q) = evsQ q := by
  simp [evsQ, evOf, List.filterMap_cons]

theorem markers_cons_end (id : Nat) (q : List Item) : markers (.endMacro id :: q) = id :: markers q := by
  simp [markers]

/-- what `play_macro` does to the events still to be fed: nothing, or the stored macro's events are
put in front -/
theorem playMacro_plan (id : Nat) (store : Store) (rep : Option Replay) :
    planOf (playMacro id store rep) = planOf rep ∨
      ∃ items, store.get id = some items ∧
        planOf (playMacro id store rep) = evsQ items ++ planOf rep := by
  cases rep with
  | none =>
    simp only [playMacro]
    cases h : store.get id with
    | none => exact .inl rfl
    | some items => exact .inr ⟨items, rfl, by simp [planOf]⟩
  | some st =>
    simp only [playMacro]
    split
    · exact .inl rfl
    · cases h : store.get id with
      | none => exact .inl rfl
      | some items =>
        exact .inr ⟨items, rfl, by simp [planOf, evsQ_append, evsQ_cons_end]⟩

theorem playMacro_repOK (id : Nat) (store : Store) (rep : Option Replay) (hs : StoreOK store)
    (hr : RepOK rep) : RepOK (playMacro id store rep) := by
  cases rep with
  | none =>
    simp only [playMacro]
    cases h : store.get id with
    | none => trivial
    | some items =>
      have hm := markers_noEnd items (hs id items h).1
      simp only [RepOK, hm]
      exact ⟨by simp, by simp, id, by simp, by simp⟩
  | some st =>
    simp only [playMacro]
    split
    · exact hr
    · rename_i hna
      cases h : store.get id with
      | none => exact hr
      | some items =>
        obtain ⟨h1, h2, top, h3, h4⟩ := hr
        have hm := markers_noEnd items (hs id items h).1
        have hidm : id ∉ markers st.queue := fun hc => hna ((h4 id).mpr (.inr hc))
        have htop : top ≠ id := fun e => hna ((h4 id).mpr (.inl e.symm))
        simp only [RepOK, markers_append, hm, List.nil_append, markers_cons_end]
        refine ⟨?_, ?_, top, ?_, ?_⟩
        · rw [List.nodup_append]
          refine ⟨h1, by simp, ?_⟩
          intro a ha b hb hab
          simp at hb; subst hb; subst hab; exact hna ha
        · exact List.nodup_cons.mpr ⟨hidm, h2⟩
        · simp only [List.mem_cons, not_or]; exact ⟨htop, h3⟩
        · intro a
          simp only [List.mem_append, List.mem_cons, List.not_mem_nil, or_false, h4 a]
          constructor
          · rintro ((h | h) | h)
            · exact .inl h
            · exact .inr (.inr h)
            · exact .inr (.inl h)
          · rintro (h | h | h)
            · exact .inl (.inl h)
            · exact .inr h
            · exact .inl (.inr h)

theorem playMacro_bal (id : Nat) (k : K L) (hs : StoreOK k.store) (hb : Bal k) :
    scanEv [] (k.fed ++ planOf (playMacro id k.store k.rep)) = [] := by
  rcases playMacro_plan id k.store k.rep with h | ⟨items, hg, h⟩
  · rw [h]; exact hb
  · rw [h, ← List.append_assoc]
    apply scanEv_insert_balanced
    · rw [← scan_eq_scanEv]; exact (hs id items hg).2
    · exact hb

/-! ### `tick_replay_state` keeps the guard invariant -/

theorem tickReplay_repOK (beh : Beh) (rep : Option Replay) (hr : RepOK rep) :
    RepOK (tickReplay beh rep).1 := by
  cases rep with
  | none => trivial
  | some st =>
    obtain ⟨h1, h2, top, h3, h4⟩ := hr
    by_cases h0 : st.delay - 1 = 0
    · cases hq : st.queue with
      | nil => simp [tickReplay, h0, hq, RepOK]
      | cons it q =>
        rw [hq] at h2 h3 h4
        cases it with
        | press o d =>
          have hm : markers (Item.press o d :: q) = markers q := by simp [markers]
          rw [hm] at h2 h3 h4
          cases beh <;> simp only [tickReplay, h0, hq, if_true, RepOK] <;> exact ⟨h1, h2, top, h3, h4⟩
        | release o d =>
          have hm : markers (Item.release o d :: q) = markers q := by simp [markers]
          rw [hm] at h2 h3 h4
          cases beh <;> simp only [tickReplay, h0, hq, if_true, RepOK] <;> exact ⟨h1, h2, top, h3, h4⟩
        | endMacro id =>
          rw [markers_cons_end] at h2 h3 h4
          obtain ⟨hid, h2'⟩ := List.nodup_cons.mp h2
          simp only [List.mem_cons, not_or] at h3
          simp only [tickReplay, h0, hq, if_true, RepOK]
          refine ⟨h1.filter _, h2', top, h3.2, ?_⟩
          intro a
          simp only [List.mem_filter, bne_iff_ne, ne_eq, h4 a, List.mem_cons]
          constructor
          · rintro ⟨h | h | h, hne⟩
            · exact .inl h
            · exact absurd h hne
            · exact .inr h
          · rintro (h | h)
            · exact ⟨.inl h, by rw [h]; exact h3.1⟩
            · exact ⟨.inr (.inr h), fun e => hid (e ▸ h)⟩
    · simp only [tickReplay, h0, if_false, RepOK]
      exact ⟨h1, h2, top, h3, h4⟩

/-! ### every step of the glue keeps `Good` -/

theorem doAct_good (c : Cfg) (k : K L) (a : Act) (k' : K L) (hg : Good k)
    (h : doAct c k a = .ok k') : Good k' := by
  obtain ⟨g1, g2, g3, g4⟩ := hg
  cases a with
  | record id =>
    simp only [doAct] at h
    split at h
    · cases h
    · rename_i r sv hb
      simp only [Except.ok.injEq] at h; subst h
      obtain ⟨o1, o2⟩ := beginRecord_ok c.fix k.hint id k.rcd r sv g1 hb
      exact ⟨o1, g2.save sv o2, g3, g4⟩
  | stop n =>
    simp only [doAct] at h
    split at h
    · cases h
    · rename_i r sv hb
      simp only [Except.ok.injEq] at h; subst h
      obtain ⟨o1, o2⟩ := stopMacro_ok c.fix k.hint n k.rcd r sv g1 hb
      exact ⟨o1, g2.save sv o2, g3, g4⟩
  | play id =>
    simp only [doAct, Except.ok.injEq] at h; subst h
    exact ⟨g1, g2, playMacro_repOK id k.store k.rep g2 g3, playMacro_bal id k g2 g4⟩

theorem tickStates_good (I : LayoutI L) (c : Cfg) (k k' : K L) (hg : Good k)
    (h : tickStates I c k = .ok k') : Good k' :=
  tickStates_inv I c Good good_respects (fun x a x' hx hxa => doAct_good c x a x' hx hxa)
    (fun _ ⟨g1, g2, g3, g4⟩ => ⟨tickRecord_ok _ g1, g2, g3, g4⟩) k k' hg h

theorem handleInput_good (I : LayoutI L) (c : Cfg) (k : K L) (e : KeyEv) (hg : Good k) :
    Good (handleInput I c k e) := by
  obtain ⟨g1, g2, g3, g4⟩ := hg
  simp only [handleInput]
  split
  · obtain ⟨o1, o2⟩ := recordPress_ok k.hint c.maxPresses e.osc k.rcd g1
    exact ⟨o1, g2.save _ o2, g3, g4⟩
  · exact ⟨recordRelease_ok _ _ g1, g2, g3, g4⟩

theorem iterStep_good (I : LayoutI L) (c : Cfg) (k : K L) (e : Nat) (k' : K L) (e' : Nat)
    (hg : Good k) (h : iterStep I c k e = .ok (k', e')) : Good k' := by
  simp only [iterStep] at h
  split at h
  · cases h
  · rename_i k1 hk1
    obtain ⟨g1, g2, g3, g4⟩ := tickStates_good I c k k1 hg hk1
    have hp := tickReplay_plan c.beh k1.rep
    have hr := tickReplay_repOK c.beh k1.rep g3
    split at h
    · rename_i rep' heq
      simp only [Except.ok.injEq, Prod.mk.injEq] at h
      obtain ⟨rfl, rfl⟩ := h
      rw [heq] at hp hr
      refine ⟨g1, g2, hr, ?_⟩
      unfold Bal at g4 ⊢
      simp only [outEv, List.nil_append] at hp
      rw [← hp]; exact g4
    · rename_i rep' ev d heq
      simp only [Except.ok.injEq, Prod.mk.injEq] at h
      obtain ⟨rfl, rfl⟩ := h
      rw [heq] at hp hr
      refine ⟨g1, g2, hr, ?_⟩
      unfold Bal at g4 ⊢
      simp only [outEv] at hp
      rw [List.append_assoc, ← hp]; exact g4

theorem extraStep_good (I : LayoutI L) (c : Cfg) (k : K L) (n : Nat) (k' : K L) (b : Bool)
    (hp : n + 1 ≤ slack k.rep ∧ Good k) (h : extraStep I c k = .ok (k', b)) :
    b = false ∧ (n ≤ slack k'.rep ∧ Good k') := by
  simp only [extraStep] at h
  split at h
  · cases h
  · rename_i k1 hk1
    obtain ⟨s1, _, _⟩ := tickStates_slack I c k k1 hk1
    obtain ⟨g1, g2, g3, g4⟩ := tickStates_good I c k k1 hp.2 hk1
    obtain ⟨t1, t2, t3⟩ := tickReplay_no_pop c.beh k1.rep n (by rw [s1]; exact hp.1)
    have hr := tickReplay_repOK c.beh k1.rep g3
    split at h
    · rename_i rep' heq
      simp only [Except.ok.injEq, Prod.mk.injEq] at h
      obtain ⟨rfl, rfl⟩ := h
      rw [heq] at t2 t3 hr
      refine ⟨rfl, t2, g1, g2, hr, ?_⟩
      unfold Bal at g4 ⊢
      simp only at t3 ⊢
      rw [t3]; exact g4
    · rename_i rep' ev d heq
      rw [heq] at t1; simp at t1

/-- `tick_ms` keeps the invariant (whenever the second loop pops nothing) -/
theorem tickMs_good (I : LayoutI L) (c : Cfg) (ms : Nat) (k k' : K L) (hms : c.fix = true ∨ ms < 65536)
    (hg : Good k) (h : tickMs I c ms k = .ok k') : Good k' := by
  simp only [tickMs] at h
  split at h
  · cases h
  · rename_i k1 extra h1
    have hm := mainLoop_inv I c
      (fun x i e => ((e ≤ i + slack x.rep ∧ e ≤ U16_MAX) ∧ x.lost = k.lost) ∧ Good x)
      (fun x i e x' e' hp hx =>
        ⟨iterStep_slack I c x i e x' e' hp.1 hx, iterStep_good I c x e x' e' hp.2 hx⟩)
      ms k 0 0 k1 extra ⟨⟨⟨by omega, by simp [U16_MAX]⟩, rfl⟩, hg⟩ h1
    simp only [Nat.zero_add] at hm
    obtain ⟨m, hm2⟩ := extraLoop_inv I c (fun x n => n ≤ slack x.rep ∧ Good x)
      (fun x n x' b hp hx => extraStep_good I c x n x' b hp hx) _ k1 k'
      ⟨extra_count_le c.fix ms extra _ hms hm.1.1.1 hm.1.1.2, hm.2⟩ h
    exact hm2.2

end KVerif.DynMacro
