/-
C08: the fix proposed for the ring-of-4 eviction (fix.diff: `start_sequence` in keyberon/src/layout.rs),
as a model function, and the proof that with it starting a macro keeps the invariant of
Lemmas/MacroInv.lean **without** any room hypothesis.  This is not part of the model of the code
that exists (`armSequence` in Model/Layout.lean is); it shows that the recommended patch is enough
for the full-strength property.
-/
import KVerif.Lemmas.MacroInv
namespace KVerif.Macro
open KVerif.L

/-- keys a sequence would still release: the tapped one and every remaining `Release` -/
def owedKeys (q : SeqState) : List KeyCode :=
  q.tapped.toList ++ q.remaining.filterMap (fun e => match e with | .release k => some k | _ => none)

/-- `if let Some(seq) = evicted { … states.retain(|s| s.seq_release(keycode).is_some()) … }` -/
def releaseEvicted (states : List St) (q : SeqState) : List St :=
  (owedKeys q).foldl (fun st k => st.filter (·.seqRelease k)) states

/-- `do_action` arms `Sequence` / `RepeatableSequence` with `start_sequence` of the fix -/
def armSequenceFixed (s : Layout) (action : Action) (events : List SeqEv) (coord : Coord) (isOneshot : Bool)
    (repeatable : Bool) : Layout :=
  let r := pushBackWrap ACTIVE_SEQ_CAP s.activeSequences { remaining := events }
  let s := { s with activeSequences := r.1,
                    states := match r.2 with
                      | some q => releaseEvicted s.states q
                      | none => s.states }
  let s := if repeatable then s.pushState (.repeatingSequence events coord) else s
  let s := (oshOther s isOneshot coord).1
  { s with rptAction := some action }

theorem releaseEvicted_sub (q : SeqState) : ∀ (states : List St) (x : St),
    x ∈ releaseEvicted states q → x ∈ states := by
  unfold releaseEvicted
  generalize owedKeys q = ks
  induction ks with
  | nil => intro states x h; exact h
  | cons k ks ih =>
    intro states x h
    simp only [List.foldl_cons] at h
    exact (List.mem_filter.mp (ih _ x h)).1

theorem releaseEvicted_fake (q : SeqState) : ∀ (states : List St) (k : KeyCode),
    St.fakeKey k ∈ releaseEvicted states q → k ∉ owedKeys q := by
  unfold releaseEvicted
  generalize owedKeys q = ks
  induction ks with
  | nil => intro states k _; simp
  | cons k' ks ih =>
    intro states k h
    simp only [List.foldl_cons] at h
    have h1 := ih _ k h
    have h2 : St.fakeKey k ∈ states.filter (·.seqRelease k') := by
      have : ∀ (l : List KeyCode) (st : List St) (x : St),
          x ∈ l.foldl (fun st k => st.filter (·.seqRelease k)) st → x ∈ st := by
        intro l
        induction l with
        | nil => intro st x h; exact h
        | cons a l ih' => intro st x h; simp only [List.foldl_cons] at h; exact (List.mem_filter.mp (ih' _ x h)).1
      exact this ks _ _ h
    obtain ⟨_, hne⟩ := fake_mem_filter_seqRelease h2
    simp only [List.mem_cons, not_or]
    exact ⟨hne, h1⟩

theorem mem_owedKeys {q : SeqState} {k : KeyCode} (h : SeqEv.release k ∈ q.remaining) : k ∈ owedKeys q := by
  unfold owedKeys
  simp only [List.mem_append, List.mem_filterMap]
  exact Or.inr ⟨.release k, h, rfl⟩

/-- **with the fix, starting a macro always keeps the invariant**, full ring or not -/
theorem armSequenceFixed_inv (s : Layout) (a : Action) (evs : List SeqEv) (c : Coord) (o rep : Bool)
    (h : SeqInv s) (hev : EvsOK evs) : SeqInv (armSequenceFixed s a evs c o rep) := by
  -- the state after the push and the release of what the evicted sequence owed
  have core : ∀ (seqs : List SeqState) (states : List St),
      (∀ q ∈ seqs, SeqOK q) → Owed seqs states → RepOK states → seqs.length ≤ ACTIVE_SEQ_CAP →
      SeqInv ((oshOther (if rep then ({ s with activeSequences := seqs, states := states } : Layout).pushState (.repeatingSequence evs c)
                          else { s with activeSequences := seqs, states := states }) o c).1) := by
    intro seqs states h1 h2 h3 h4
    have base : SeqInv ({ s with activeSequences := seqs, states := states } : Layout) := ⟨h1, h2, h3, h4⟩
    have step : SeqInv (if rep then ({ s with activeSequences := seqs, states := states } : Layout).pushState (.repeatingSequence evs c)
                          else { s with activeSequences := seqs, states := states }) := by
      cases rep
      · exact base
      · simp only [if_true]
        refine ⟨h1, ?_, ?_, h4⟩
        · intro k hk
          rcases mem_pushCap hk with hk | hk
          · exact h2 k hk
          · cases hk
        · intro e c' hm
          rcases mem_pushCap hm with hm | hm
          · exact h3 e c' hm
          · injection hm with e1 e2; subst e1; exact hev
    exact step.frame (oshOther_seqs _ o c) (by rw [oshOther_states]; exact fun _ h => h)
      (by rw [oshOther_states]; exact fun _ _ h => h)
  unfold armSequenceFixed
  simp only []
  refine SeqInv.frame (s := (oshOther _ o c).1) ?_ rfl (fun _ h => h) (fun _ _ h => h)
  by_cases hroom : s.activeSequences.length < ACTIVE_SEQ_CAP
  · -- room: nothing is evicted
    simp only [pushBackWrap, hroom, if_true]
    refine core _ _ ?_ ?_ h.rep (by simp only [List.length_append, List.length_singleton]; omega)
    · intro q hq
      rcases List.mem_append.mp hq with hq | hq
      · exact h.ok q hq
      · simp only [List.mem_singleton] at hq; subst hq; exact ⟨rfl, hev⟩
    · intro k hk
      obtain ⟨q, hq, hr⟩ := h.owed k hk
      exact ⟨q, by simp [hq], hr⟩
  · -- full: the oldest is evicted and what it owed is released
    cases hs : s.activeSequences with
    | nil => rw [hs] at hroom; simp at hroom
    | cons q0 t =>
      simp only [pushBackWrap, hs] at hroom ⊢
      simp only [hroom, if_false]
      have hcap := h.cap
      rw [hs] at hcap
      refine core _ _ ?_ ?_ ?_ (by simp only [List.length_append, List.length_cons] at hcap ⊢; omega)
      · intro q hq
        rcases List.mem_append.mp hq with hq | hq
        · exact h.ok q (by rw [hs]; exact List.mem_cons_of_mem _ hq)
        · simp only [List.mem_singleton] at hq; subst hq; exact ⟨rfl, hev⟩
      · intro k hk
        have hin := releaseEvicted_sub q0 _ _ hk
        have hno := releaseEvicted_fake q0 _ _ hk
        obtain ⟨q, hq, hr⟩ := h.owed k hin
        rw [hs] at hq
        rcases List.mem_cons.mp hq with rfl | hq
        · exact absurd (mem_owedKeys hr) hno
        · exact ⟨q, by simp [hq], hr⟩
      · intro e c' hm
        exact h.rep e c' (releaseEvicted_sub q0 _ _ hm)

end KVerif.Macro
