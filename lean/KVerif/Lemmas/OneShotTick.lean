/-
C06 helper lemmas, part 2: one `tick` of the layout model on a *calm* state — nothing waiting, no
sequence, no queued action; one-shot keys may be active — stage by stage (`tickPre`, `tickOneshot`,
`tickMain`), and the release of deferred one-shot keys.
-/
import KVerif.Lemmas.OneShot
namespace KVerif.C06
open KVerif.L

/-- no tap-hold / tap-dance / chord is pending, no macro runs, no action is queued, and every state
is a plain key or a held layer.  (Preserved by every step on the C06 fragment: `stays_calm`.) -/
structure Calm (s : Layout) : Prop where
  waiting : s.waiting = none
  extra : s.extraWaiting = []
  tde : s.tapDanceEager = none
  aq : s.actionQueue = []
  seqs : s.activeSequences = []
  states : ∀ st ∈ s.states, StOK st
  ignore : s.oneshot.ticksToIgnoreEvents = 0

theorem Calm.of_eq {s s' : Layout} (h : Calm s)
    (h1 : s'.waiting = s.waiting) (h2 : s'.extraWaiting = s.extraWaiting)
    (h3 : s'.tapDanceEager = s.tapDanceEager) (h4 : s'.actionQueue = s.actionQueue)
    (h5 : s'.activeSequences = s.activeSequences) (h6 : ∀ st ∈ s'.states, StOK st)
    (h7 : s'.oneshot.ticksToIgnoreEvents = 0) : Calm s' :=
  ⟨h1 ▸ h.waiting, h2 ▸ h.extra, h3 ▸ h.tde, h4 ▸ h.aq, h5 ▸ h.seqs, h6, h7⟩

/-- the queue after one tick of waiting -/
def age (q : List Queued) : List Queued := q.map fun (x : Queued) => { x with since := min (x.since + 1) U16_MAX }

theorem age_map_ev (q : List Queued) : (age q).map (·.ev) = q.map (·.ev) := by
  simp [age, List.map_map, Function.comp_def]

/-- the states that survive the release of the coordinates `ks` -/
def dropCoords (ks : List Coord) (states : List St) : List St :=
  states.filter fun st => !ks.any fun k => st.coord == some k

theorem dropCoords_nil (states : List St) : dropCoords [] states = states := by
  simp [dropCoords]

theorem dropCoords_cons (k : Coord) (ks : List Coord) (states : List St) :
    dropCoords ks (states.filter fun st => st.coord != some k) = dropCoords (k :: ks) states := by
  simp only [dropCoords, List.filter_filter, List.any_cons]
  congr 1
  funext st
  cases h1 : (st.coord == some k) <;> simp [bne, h1]

theorem mem_dropCoords {ks : List Coord} {states : List St} {st : St} :
    st ∈ dropCoords ks states ↔ st ∈ states ∧ ∀ k ∈ ks, st.coord ≠ some k := by
  simp [dropCoords, List.mem_filter]

/-! ### first stage -/

theorem tickPre_calm {s : Layout} (h : Calm s) :
    tickPre s = { s with queue := age s.queue, lptTapHoldTimeout := s.lptTapHoldTimeout - 1,
                         histKeys := histTick s.histKeys, histInputs := histTick s.histInputs } := by
  unfold tickPre
  simp only [h.tde]
  simp (disch := first | exact h.seqs | exact h.states) only [C04.processSequences_inert]
  rfl

theorem tickPre_fields {s : Layout} (h : Calm s) :
    Calm (tickPre s) ∧ (tickPre s).oneshot = s.oneshot ∧ (tickPre s).states = s.states ∧
    (tickPre s).queue = age s.queue ∧ (tickPre s).cfg = s.cfg ∧ (tickPre s).defaultLayer = s.defaultLayer ∧
    (tickPre s).transV2 = s.transV2 ∧ (tickPre s).delegateToFirstLayer = s.delegateToFirstLayer := by
  rw [tickPre_calm h]
  exact ⟨h.of_eq rfl rfl rfl rfl rfl h.states h.ignore, rfl, rfl, rfl, rfl, rfl, rfl, rfl⟩

/-! ### releases -/

/-- a release dequeued while no one-shot key is active removes exactly the states of its coordinate -/
theorem dequeue_release_inactive {s : Layout} (hs : ∀ st ∈ s.states, StOK st) (hk : s.oneshot.keys = [])
    (c : Coord) (since : Nat) :
    dequeue FUEL s ⟨.release c, since⟩ =
      .ok ({ s with states := s.states.filter (fun st => st.coord != some c) }, .noEvent) := by
  rw [FUEL_succ]
  simp only [dequeue, handleRelease_inactive _ c hk, C04.releaseStates_spec c s.states hs]
  rfl

/-- the loop of `tick` over the deferred releases, once `tick_osh` has cleared the active keys:
exactly the states of those coordinates go, nothing else changes -/
theorem releaseOneshotKeys_spec : ∀ (ks : List Coord) (s : Layout), (∀ st ∈ s.states, StOK st) →
    s.oneshot.keys = [] →
    releaseOneshotKeys ks s .noEvent = .ok ({ s with states := dropCoords ks s.states }, .noEvent) := by
  intro ks
  induction ks with
  | nil => intro s _ _; simp only [releaseOneshotKeys, dropCoords_nil]
  | cons k rest ih =>
    intro s hs hk
    simp only [releaseOneshotKeys, dequeue_release_inactive hs hk]
    have hupd : CustomEv.noEvent.update .noEvent = .noEvent := rfl
    have e := ih ({ s with states := s.states.filter (fun st => st.coord != some k) } : Layout)
      (C04.stok_filter _ hs) hk
    rw [hupd, e]
    simp only [dropCoords_cons]

/-! ### second stage: `tick_osh` and the deferred releases -/

theorem tickOneshot_inactive {s : Layout} (hk : s.oneshot.keys = []) : tickOneshot s = .ok (s, .noEvent) := by
  unfold tickOneshot
  rw [tick_inactive _ hk]

theorem tickOneshot_waits {s : Layout} (hk : s.oneshot.keys ≠ []) (h1 : s.oneshot.releaseOnNextTick = false)
    (h2 : 2 ≤ s.oneshot.timeout) :
    tickOneshot s = .ok ({ s with oneshot := { s.oneshot with
        ticksToIgnoreEvents := s.oneshot.ticksToIgnoreEvents - 1, timeout := s.oneshot.timeout - 1 } }, .noEvent) := by
  unfold tickOneshot
  rw [tick_waits _ hk h1 h2]

/-- when `tick_osh` fires, every deferred release is applied in this same stage — before the main
stage looks at the input queue — and no one-shot key is active afterwards -/
theorem tickOneshot_fires {s : Layout} (hs : ∀ st ∈ s.states, StOK st) (hk : s.oneshot.keys ≠ [])
    (h : s.oneshot.releaseOnNextTick = true ∨ s.oneshot.timeout ≤ 1) :
    tickOneshot s = .ok ({ s with oneshot := OneShotState.cleared s.oneshot,
                                  states := dropCoords s.oneshot.releasedKeys s.states }, .noEvent) := by
  unfold tickOneshot
  rw [tick_fires _ hk h]
  simp only []
  rw [releaseOneshotKeys_spec s.oneshot.releasedKeys
    ({ s with oneshot := OneShotState.cleared s.oneshot } : Layout) hs rfl]

/-! ### third stage -/

theorem tickMain_paused {s : Layout} (h1 : s.waiting = none) (h2 : s.extraWaiting = [])
    (h3 : 0 < s.oneshot.pauseInputProcessingTicks) :
    tickMain s = .ok ({ s with oneshot := { s.oneshot with
        pauseInputProcessingTicks := s.oneshot.pauseInputProcessingTicks - 1 } }, .noEvent) := by
  unfold tickMain
  simp only [h1, h2, List.isEmpty_nil, if_true, h3]

theorem tickMain_pops {s : Layout} (h1 : s.waiting = none) (h2 : s.extraWaiting = [])
    (h3 : s.oneshot.pauseInputProcessingTicks = 0) (q : Queued) (rest : List Queued)
    (hq : s.queue = q :: rest) : tickMain s = dequeue FUEL (s.setQueue rest) q := by
  unfold tickMain
  simp only [h1, h2, List.isEmpty_nil, if_true, h3, Nat.lt_irrefl, if_false, hq]

theorem tickMain_empty {s : Layout} (h1 : s.waiting = none) (h2 : s.extraWaiting = [])
    (h3 : s.oneshot.pauseInputProcessingTicks = 0) (hq : s.queue = []) : tickMain s = .ok (s, .noEvent) := by
  unfold tickMain
  simp only [h1, h2, List.isEmpty_nil, if_true, h3, Nat.lt_irrefl, if_false, hq]

/-! ### the whole tick -/

/-- on a calm state `tick` is its three stages; the extra-waiting and sequence-custom stages do
nothing when the result is calm again -/
theorem tick_calm {s s1 s2 : Layout} {c1 c2 : CustomEv} (h : Calm s)
    (e1 : tickOneshot (tickPre s) = .ok (s1, c1)) (e2 : tickMain s1 = .ok (s2, c2)) (h2 : Calm s2) :
    tick s = .ok (s2, c1.update c2) := by
  unfold tick
  simp only [h.aq, e1, e2, C04.processExtraWaitings_inert h2.extra, C04.processSequenceCustom_inert h2.states]

end KVerif.C06
