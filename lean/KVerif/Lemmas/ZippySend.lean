/-
How the key loop of an activation (`sendKeys`) acts on the text buffer: modifier bookkeeping for
every state, and the text it writes when caps-word is off.
-/
import KVerif.Lemmas.ZippyBuf
namespace KVerif.Zippy
open KVerif.TextBuf

/-- `sendOne` in terms of the four pieces of state it reads. -/
def sendOneB (ik : List Nat) (cw l r : Bool) (released : Bool) (o : ZchOut) : List OsEv :=
  let t := typeOsc ik o.osc
  let sd := (!l && !r) || (!cw && released)
  let ps : List OsEv := if sd then [.down KEY_LEFTSHIFT] else []
  let rs : List OsEv := if sd then [.up KEY_LEFTSHIFT] else []
  let core : List OsEv :=
    match o.kind with
    | .lower => t
    | .upper => ps ++ t ++ rs
    | .altGr => [.down KEY_RIGHTALT] ++ t ++ [.up KEY_RIGHTALT]
    | .shiftAltGr => [.down KEY_RIGHTALT] ++ ps ++ t ++ rs ++ [.up KEY_RIGHTALT]
  let rel : List OsEv :=
    if !released && !cw then
      (if l then [.up KEY_LEFTSHIFT] else []) ++ (if r then [.up KEY_RIGHTSHIFT] else [])
    else []
  core ++ rel

theorem sendOne_eq (s : Zchd) (released : Bool) (o : ZchOut) :
    sendOne s released o = sendOneB s.inputKeys s.capsWord s.lsft s.rsft released o := rfl

theorem step_down_lsft (b : Buf) : b.step (.down KEY_LEFTSHIFT) = { b with lsft := true } := by
  simp [Buf.step]
theorem step_up_lsft (b : Buf) : b.step (.up KEY_LEFTSHIFT) = { b with lsft := false } := by
  simp [Buf.step]
theorem step_down_rsft (b : Buf) : b.step (.down KEY_RIGHTSHIFT) = { b with rsft := true } := by
  simp [Buf.step, KEY_RIGHTSHIFT, KEY_LEFTSHIFT]
theorem step_up_rsft (b : Buf) : b.step (.up KEY_RIGHTSHIFT) = { b with rsft := false } := by
  simp [Buf.step, KEY_RIGHTSHIFT, KEY_LEFTSHIFT]
theorem step_down_ralt (b : Buf) : b.step (.down KEY_RIGHTALT) = { b with ralt := true } := by
  simp [Buf.step, KEY_RIGHTSHIFT, KEY_LEFTSHIFT, KEY_RIGHTALT]
theorem step_up_ralt (b : Buf) : b.step (.up KEY_RIGHTALT) = { b with ralt := false } := by
  simp [Buf.step, KEY_RIGHTSHIFT, KEY_LEFTSHIFT, KEY_RIGHTALT]

/-- What one iteration of the key loop does to a buffer whose modifiers are as the loop keeps them:
user shifts down until `released`, AltGr up. -/
theorem run_sendOneB (ik : List Nat) (cw l r released : Bool) (o : ZchOut) (rt : List Ch)
    (hk : CharKey o.osc) (hrel : released = true → cw = false) :
    (Buf.mk rt (l && !released) (r && !released) false).run (sendOneB ik cw l r released o) =
      Buf.mk (stroke rt o.osc (if cw then (l || r || o.shift) else (o.shift || (!released && (l || r)))) o.ag)
        (l && !(released || !cw)) (r && !(released || !cw)) false := by
  obtain ⟨kind, ne, osc⟩ := o
  simp only at hk
  cases cw <;> cases released <;> simp at hrel <;> cases l <;> cases r <;> cases kind <;>
    simp [sendOneB, run_append, run_cons, run_nil, run_typeOsc _ _ _ hk, step_down_lsft, step_up_lsft,
      step_down_rsft, step_up_rsft, step_down_ralt, step_up_ralt, ZchOut.shift, ZchOut.ag]

/-- The loop invariant on the buffer's modifiers. -/
structure LoopInv (s : Zchd) (released : Bool) (b : Buf) : Prop where
  lsft : b.lsft = (s.lsft && !released)
  rsft : b.rsft = (s.rsft && !released)
  ralt : b.ralt = false
  rel : released = true → s.capsWord = false

theorem run_sendOne (s : Zchd) (released : Bool) (o : ZchOut) (b : Buf)
    (hk : CharKey o.osc) (hi : LoopInv s released b) :
    LoopInv s (released || !s.capsWord) (b.run (sendOne s released o)) ∧
    (b.run (sendOne s released o)).rtext =
      stroke b.rtext o.osc
        (if s.capsWord then (s.lsft || s.rsft || o.shift) else (o.shift || (!released && (s.lsft || s.rsft)))) o.ag := by
  obtain ⟨rt, bl, br, ba⟩ := b
  obtain ⟨h1, h2, h3, h4⟩ := hi
  simp only at h1 h2 h3
  subst h1 h2 h3
  rw [sendOne_eq, run_sendOneB _ _ _ _ _ _ _ hk h4]
  refine ⟨⟨rfl, rfl, rfl, ?_⟩, rfl⟩
  intro h
  rcases Bool.eq_false_or_eq_true s.capsWord with hc | hc
  · rw [hc] at h
    simp only [Bool.not_true, Bool.or_false] at h
    rw [h4 h] at hc
    exact absurd hc (by decide)
  · exact hc

/-- The whole key loop. -/
theorem run_sendKeys (s : Zchd) (outs : List ZchOut) (released : Bool) (b : Buf)
    (hk : ∀ o ∈ outs, CharKey o.osc) (hi : LoopInv s released b) :
    LoopInv s (released || (!s.capsWord && !outs.isEmpty)) (b.run (sendKeys s released outs)) ∧
    (s.capsWord = false →
      (b.run (sendKeys s released outs)).rtext =
        typeOuts b.rtext (!released && (s.lsft || s.rsft)) outs) := by
  induction outs generalizing released b with
  | nil =>
    constructor
    · simpa [sendKeys, run_nil] using hi
    · intro _; simp [sendKeys, run_nil, typeOuts]
  | cons o os ih =>
    have hko : CharKey o.osc := hk o (List.mem_cons_self ..)
    have hkos : ∀ o' ∈ os, CharKey o'.osc := fun o' h => hk o' (List.mem_cons_of_mem _ h)
    obtain ⟨hi1, ht1⟩ := run_sendOne s released o b hko hi
    obtain ⟨hi2, ht2⟩ := ih (released || !s.capsWord) (b.run (sendOne s released o)) hkos hi1
    simp only [sendKeys, run_append]
    constructor
    · have : (released || !s.capsWord || (!s.capsWord && !os.isEmpty)) =
          (released || (!s.capsWord && !(o :: os).isEmpty)) := by
        cases released <;> cases s.capsWord <;> cases os.isEmpty <;> simp
      rw [← this]; exact hi2
    · intro hc
      rw [ht2 hc, ht1, hc]
      simp [typeOuts]

/-! ### The events of an activation, in terms of the state it starts from -/

def sendKeysB (ik : List Nat) (cw l r : Bool) : Bool → List ZchOut → List OsEv
  | _, [] => []
  | released, o :: os => sendOneB ik cw l r released o ++ sendKeysB ik cw l r (released || !cw) os

theorem sendKeys_eq (s : Zchd) (released : Bool) (outs : List ZchOut) :
    sendKeys s released outs = sendKeysB s.inputKeys s.capsWord s.lsft s.rsft released outs := by
  induction outs generalizing released with
  | nil => rfl
  | cons o os ih => simp only [sendKeys, sendKeysB, sendOne_eq, ih]

/-- the common-prefix length an activation uses -/
def actCpl (s : Zchd) (outs : List ZchOut) (isPrio : Bool) : Nat :=
  if !isPrio && s.sameHoldActivationCount = 0 then 0
  else match s.priorActivation with
    | some prior => commonPrefixLen prior outs
    | none => 0

/-- the number of backspaces an activation with non-empty output sends -/
def actBs (s : Zchd) (outs : List ZchOut) (isPrio : Bool) : Nat :=
  (s.charsToDelete + (if isPrio then s.priorActivationOutputCount else 0) - (actCpl s outs isPrio : Int)).toNat

/-- whether the user's shifts are released before the key loop (a prefix is re-used, no caps-word) -/
def actRel0 (s : Zchd) (outs : List ZchOut) (isPrio : Bool) : Bool :=
  decide (actCpl s outs isPrio > 0) && !s.capsWord

theorem activate_events (cfg : Cfg) (s : Zchd) (k : Nat) (outs : List ZchOut) (ctx : Path)
    (isPrio : Bool) (hne : outs.isEmpty = false) :
    (activate cfg s k outs ctx isPrio).2 =
      bspcs (actBs s outs isPrio) ++ (if s.altgr then [OsEv.up KEY_RIGHTALT] else []) ++
      (if actRel0 s outs isPrio then
        (if s.lsft then [OsEv.up KEY_LEFTSHIFT] else []) ++ (if s.rsft then [OsEv.up KEY_RIGHTSHIFT] else [])
       else []) ++
      sendKeysB s.inputKeys s.capsWord s.lsft s.rsft (actRel0 s outs isPrio) (outs.drop (actCpl s outs isPrio)) ++
      (if wantsSmartSpace cfg outs then [OsEv.down KEY_SPACE, OsEv.up KEY_SPACE] else []) ++
      (if !s.capsWord then
        (if s.lsft then [OsEv.down KEY_LEFTSHIFT] else []) ++ (if s.rsft then [OsEv.down KEY_RIGHTSHIFT] else [])
       else []) ++
      (if s.altgr then [OsEv.down KEY_RIGHTALT] else []) := by
  unfold activate
  by_cases hw : wantsSmartSpace cfg outs = true <;> by_cases hf : cfg.smartSpace = .full <;>
    simp [hne, sendKeys_eq, actBs, actCpl, actRel0, hw, hf] <;> rfl

theorem activate_flags (cfg : Cfg) (s : Zchd) (k : Nat) (outs : List ZchOut) (ctx : Path)
    (isPrio : Bool) :
    (activate cfg s k outs ctx isPrio).1.lsft = s.lsft ∧ (activate cfg s k outs ctx isPrio).1.rsft = s.rsft ∧
    (activate cfg s k outs ctx isPrio).1.altgr = s.altgr ∧
    (activate cfg s k outs ctx isPrio).1.capsWord = s.capsWord ∧
    (activate cfg s k outs ctx isPrio).1.inputKeys = s.inputKeys ∧
    (activate cfg s k outs ctx isPrio).1.enabledState = s.enabledState ∧
    (activate cfg s k outs ctx isPrio).1.lastPress = .isChord := by
  unfold activate
  by_cases hw : wantsSmartSpace cfg outs = true <;> by_cases hf : cfg.smartSpace = .full <;>
    by_cases he : outs.isEmpty = true <;> simp [hw, hf, he]

theorem displayLen_append_aux (a : List ZchOut) (n : Int) :
    a.foldl (fun n o => n + o.charCount) n = n + displayLen a := by
  unfold displayLen
  induction a generalizing n with
  | nil => simp
  | cons o os ih =>
    rw [List.foldl_cons, ih, List.foldl_cons, ih (0 + o.charCount)]
    omega

theorem displayLen_take_drop (outs : List ZchOut) (n : Nat) :
    displayLen (outs.take n) + displayLen (outs.drop n) = displayLen outs := by
  have h : displayLen (outs.take n ++ outs.drop n) = displayLen (outs.take n) + displayLen (outs.drop n) := by
    unfold displayLen
    rw [List.foldl_append, displayLen_append_aux]
    rfl
  rw [← h, List.take_append_drop]

/-- The state after an activation with non-empty output: the erase count is the whole expansion on
screen (re-used prefix included) plus the smart space. -/
theorem activate_state (cfg : Cfg) (s : Zchd) (k : Nat) (outs : List ZchOut) (ctx : Path) (isPrio : Bool)
    (hne : outs.isEmpty = false) :
    (activate cfg s k outs ctx isPrio).1.prioritized =
      (if hasFollowups cfg.dict (ctx ++ [s.inputKeys]) then some (ctx ++ [s.inputKeys]) else none) ∧
    (activate cfg s k outs ctx isPrio).1.priorActivation = some outs ∧
    (activate cfg s k outs ctx isPrio).1.sameHoldActivationCount = s.sameHoldActivationCount + 1 ∧
    (activate cfg s k outs ctx isPrio).1.charsToDelete =
      displayLen outs + (if wantsSmartSpace cfg outs then 1 else 0) ∧
    (activate cfg s k outs ctx isPrio).1.priorActivationOutputCount =
      displayLen outs + (if wantsSmartSpace cfg outs then 1 else 0) ∧
    (activate cfg s k outs ctx isPrio).1.ticksSinceStateChange = s.ticksSinceStateChange ∧
    (activate cfg s k outs ctx isPrio).1.ticksUntilDisable = cfg.ticksChordDeadline ∧
    (activate cfg s k outs ctx isPrio).1.smartSpaceState =
      (if wantsSmartSpace cfg outs = true ∧ cfg.smartSpace = .full then .sent else s.smartSpaceState) := by
  unfold activate
  by_cases hw : wantsSmartSpace cfg outs = true <;> by_cases hf : cfg.smartSpace = .full <;>
    simp [hne, hw, hf] <;> exact displayLen_take_drop _ _

/-! ### An activation on the buffer -/

/-- The buffer's modifiers are the ones zippychord believes the user holds. -/
def ModsAgree (s : Zchd) (b : Buf) : Prop := b.lsft = s.lsft ∧ b.rsft = s.rsft ∧ b.ralt = s.altgr

theorem run_sftBack (b : Buf) (cw l r : Bool)
    (hl : b.lsft = l ∨ (cw = false ∧ b.lsft = false)) (hr : b.rsft = r ∨ (cw = false ∧ b.rsft = false)) :
    b.run (if !cw then
        (if l then [OsEv.down KEY_LEFTSHIFT] else []) ++ (if r then [OsEv.down KEY_RIGHTSHIFT] else [])
       else []) = { b with lsft := l, rsft := r } := by
  obtain ⟨rt, bl, br, ba⟩ := b
  simp only at hl hr
  cases cw <;> cases l <;> cases r <;> cases bl <;> cases br <;> simp at hl hr <;>
    simp [run_append, run_cons, run_nil, step_down_lsft, step_down_rsft]

theorem run_altUp (b : Buf) (a : Bool) (h : b.ralt = a) :
    b.run (if a then [OsEv.up KEY_RIGHTALT] else []) = { b with ralt := false } := by
  obtain ⟨rt, bl, br, ba⟩ := b
  simp only at h
  subst h
  cases ba <;> simp [run_cons, run_nil, step_up_ralt]

theorem run_altDown (b : Buf) (a : Bool) (h : b.ralt = false) :
    b.run (if a then [OsEv.down KEY_RIGHTALT] else []) = { b with ralt := a } := by
  obtain ⟨rt, bl, br, ba⟩ := b
  simp only at h
  subst h
  cases a <;> simp [run_cons, run_nil, step_down_ralt]

theorem run_smartSpace (b : Buf) (c : Bool) :
    b.run (if c then [OsEv.down KEY_SPACE, OsEv.up KEY_SPACE] else []) =
      { b with rtext := if c then stroke b.rtext KEY_SPACE false false else b.rtext } := by
  cases c
  · simp [run_nil]
  · simp [run_space]

theorem run_sftUp (b : Buf) (c l r : Bool) (hl : b.lsft = l) (hr : b.rsft = r) :
    b.run (if c then
        (if l then [OsEv.up KEY_LEFTSHIFT] else []) ++ (if r then [OsEv.up KEY_RIGHTSHIFT] else [])
       else []) = { b with lsft := l && !c, rsft := r && !c } := by
  obtain ⟨rt, bl, br, ba⟩ := b
  simp only at hl hr
  subst hl hr
  cases c <;> cases bl <;> cases br <;>
    simp [run_append, run_cons, run_nil, step_up_lsft, step_up_rsft]

/-- The events of an activation with non-empty output, run on a buffer whose modifiers agree with
zippychord's flags: the backspaces, then the (non-shared part of the) expansion — typed under the
user's shift for its first keystroke only, and only when that is the first character of the whole
expansion — then the smart space; modifiers as before.  In caps-word mode the modifiers are
preserved as well (the text is then all shifted and not described here). -/
theorem run_activate (cfg : Cfg) (s : Zchd) (k : Nat) (outs : List ZchOut) (ctx : Path) (isPrio : Bool)
    (b : Buf) (hne : outs.isEmpty = false) (hk : ∀ o ∈ outs, CharKey o.osc) (hm : ModsAgree s b) :
    ModsAgree s (b.run (activate cfg s k outs ctx isPrio).2) ∧
    (s.capsWord = false →
      (b.run (activate cfg s k outs ctx isPrio).2).rtext =
        (let t := typeOuts (b.rtext.drop (actBs s outs isPrio))
                    ((s.lsft || s.rsft) && decide (actCpl s outs isPrio = 0))
                    (outs.drop (actCpl s outs isPrio))
         if wantsSmartSpace cfg outs then stroke t KEY_SPACE false false else t)) := by
  obtain ⟨hl, hr, ha⟩ := hm
  rw [activate_events cfg s k outs ctx isPrio hne]
  simp only [run_append, run_bspcs]
  rw [run_altUp _ s.altgr (by simpa using ha)]
  rw [run_sftUp (Buf.mk (List.drop (actBs s outs isPrio) b.rtext) b.lsft b.rsft false)
    (actRel0 s outs isPrio) s.lsft s.rsft hl hr]
  have hkd : ∀ o ∈ outs.drop (actCpl s outs isPrio), CharKey o.osc :=
    fun o ho => hk o (List.mem_of_mem_drop ho)
  have hrel0 : actRel0 s outs isPrio = true → s.capsWord = false := by
    intro h; unfold actRel0 at h; simp at h; exact h.2
  have hinv : LoopInv s (actRel0 s outs isPrio)
      { rtext := List.drop (actBs s outs isPrio) b.rtext, lsft := s.lsft && !actRel0 s outs isPrio,
        rsft := s.rsft && !actRel0 s outs isPrio, ralt := false } :=
    ⟨rfl, rfl, rfl, hrel0⟩
  have hsend := run_sendKeys s (outs.drop (actCpl s outs isPrio)) (actRel0 s outs isPrio) _ hkd hinv
  rw [sendKeys_eq] at hsend
  obtain ⟨hi2, ht2⟩ := hsend
  generalize hb2 : Buf.run _ (sendKeysB s.inputKeys s.capsWord s.lsft s.rsft (actRel0 s outs isPrio)
    (outs.drop (actCpl s outs isPrio))) = b2 at hi2 ht2 ⊢
  rw [run_smartSpace]
  have hcase : ∀ (x f : Bool), x = (f && !(actRel0 s outs isPrio ||
      (!s.capsWord && !(outs.drop (actCpl s outs isPrio)).isEmpty))) →
      (x = f ∨ (s.capsWord = false ∧ x = false)) := by
    intro x f hx
    cases hr0 : actRel0 s outs isPrio
    · cases hc : s.capsWord <;> cases hd : (outs.drop (actCpl s outs isPrio)).isEmpty <;> cases f <;>
        simp [hr0, hc, hd] at hx <;> simp [hx]
    · have := hrel0 hr0
      cases f <;> simp [hr0] at hx <;> simp [hx, this]
  rw [run_sftBack (Buf.mk (if wantsSmartSpace cfg outs then stroke b2.rtext KEY_SPACE false false else b2.rtext)
      b2.lsft b2.rsft b2.ralt) s.capsWord s.lsft s.rsft (hcase _ _ hi2.lsft) (hcase _ _ hi2.rsft)]
  rw [run_altDown (Buf.mk (if wantsSmartSpace cfg outs then stroke b2.rtext KEY_SPACE false false else b2.rtext)
      s.lsft s.rsft b2.ralt) s.altgr hi2.ralt]
  refine ⟨⟨rfl, rfl, rfl⟩, ?_⟩
  intro hc
  simp only
  rw [ht2 hc]
  have : (!actRel0 s outs isPrio && (s.lsft || s.rsft)) =
      ((s.lsft || s.rsft) && decide (actCpl s outs isPrio = 0)) := by
    unfold actRel0
    rw [hc]
    by_cases h0 : actCpl s outs isPrio = 0
    · simp [h0]
    · have : actCpl s outs isPrio > 0 := by omega
      simp [h0, this]
  rw [this]

end KVerif.Zippy
