/-
C17 helper lemmas, part 2: a lazy tap-dance over many ticks.
An abstract machine on NUMBERS (taps counted so far, ticks left to the deadline; per tick: did the
queue grow, how many presses of the key arrived before any other key's press, did another key's
press arrive) — `specStep` / `specRun` — and the proof that the `TapDance` arm of `tick_wt`, which
recounts the whole QUEUE whenever its length changed, refines it (`tickWtTd_refines`,
`tdDrive_refines`).  Closed forms are then proved on the abstract machine.
-/
import KVerif.Lemmas.TapDance
namespace KVerif.C17
open KVerif.L

/-! ## The abstract machine -/

/-- what the events arriving before one tick mean for a pending dance -/
structure Arrival where
  grew : Bool      -- the queue grew (or: first tick after the key was pressed, when the queue is always read)
  taps : Nat       -- presses of the dance key among them, before the first press of another key
  other : Bool     -- a press of another key is among them
  deriving Repr, DecidableEq

inductive Verdict
  | pending (k rem : Nat)    -- `k` taps counted, deadline in `rem` ticks
  | decided (n : Nat)        -- the dance ends on `n` taps
  deriving Repr, DecidableEq

/-- one tick: the deadline wins over everything that arrives on its tick; otherwise another key's
press or reaching the list length ends the dance on the new count, which never exceeds the list
length (taps queued beyond it are not part of this dance); otherwise a grown count moves
the deadline to `T` ticks from now -/
def specStep (T len k rem : Nat) (a : Arrival) : Verdict :=
  if rem ≤ 1 then .decided k
  else if !a.grew then .pending k (rem - 1)
  else if a.other || decide (k + a.taps ≥ len) then .decided (inThisDance (k + a.taps) len)
  else .pending (k + a.taps) (if a.taps > 0 then T else rem - 1)

/-- ticks consumed (stops at the decision) and the verdict -/
def specRun (T len : Nat) : Nat → Nat → List Arrival → Nat × Verdict
  | k, rem, [] => (0, .pending k rem)
  | k, rem, a :: rest =>
    match specStep T len k rem a with
    | .decided n => (1, .decided n)
    | .pending k' rem' => ((specRun T len k' rem' rest).1 + 1, (specRun T len k' rem' rest).2)

/-! ## Congruence in the coordinate -/

theorem isPr_congr {w w' : Waiting} (h : w'.coord = w.coord) : isPr w' = isPr w := by
  funext s; simp only [isPr, isCorrespondingPress, h]
theorem otherPress_congr {w w' : Waiting} (h : w'.coord = w.coord) : otherPress w' = otherPress w := by
  funext s; simp only [otherPress, isPr_congr h]
theorem nPr_congr {w w' : Waiting} (h : w'.coord = w.coord) (q : List Queued) : nPr w' q = nPr w q := by
  simp only [nPr, isPr_congr h]
theorem seenTaps_congr {w w' : Waiting} (h : w'.coord = w.coord) (q : List Queued) : seenTaps w' q = seenTaps w q := by
  simp only [seenTaps, otherPress_congr h, nPr_congr h]
theorem interrupted_congr {w w' : Waiting} (h : w'.coord = w.coord) (q : List Queued) :
    interrupted w' q = interrupted w q := by
  simp only [interrupted, otherPress_congr h]

/-! ## The queue view of an arrival -/

/-- the arrival a batch of new events amounts to -/
def arrivalOf (w : Waiting) (first : Bool) (b : List Queued) : Arrival :=
  { grew := first || !b.isEmpty, taps := nPr w (b.takeWhile (fun s => !otherPress w s)), other := interrupted w b }

theorem arrivalOf_congr {w w' : Waiting} (h : w'.coord = w.coord) (first : Bool) (b : List Queued) :
    arrivalOf w' first b = arrivalOf w first b := by
  simp only [arrivalOf, otherPress_congr h, nPr_congr h, interrupted_congr h]

theorem takeWhile_append_all {α} {p : α → Bool} : ∀ {l : List α} (r : List α), (∀ x ∈ l, p x = true) →
    (l ++ r).takeWhile p = l ++ r.takeWhile p
  | [], _, _ => rfl
  | x :: t, r, h => by
    rw [List.cons_append, List.takeWhile_cons, h x (by simp), if_pos rfl,
      takeWhile_append_all r (fun y hy => h y (by simp [hy]))]
    rfl

theorem nPr_append (w : Waiting) (a b : List Queued) : nPr w (a ++ b) = nPr w a + nPr w b := by
  simp [nPr, List.filter_append]

/-- appending a batch to a queue that shows no other key's press -/
theorem seen_append {w : Waiting} {q : List Queued} (hq : interrupted w q = false) (b : List Queued) :
    seenTaps w (q ++ b) = seenTaps w q + nPr w (b.takeWhile (fun s => !otherPress w s)) ∧
    interrupted w (q ++ b) = interrupted w b := by
  have hall : ∀ x ∈ q, (fun s => !otherPress w s) x = true := by
    intro x hx
    have := List.any_eq_false.mp hq x hx
    simpa using this
  constructor
  · unfold seenTaps
    rw [takeWhile_append_all b hall, nPr_append, takeWhile_all hall]
    omega
  · unfold interrupted at *
    rw [List.any_append, hq, Bool.false_or]

/-! ## The three situations of one tick, as equations -/

/-- the waiting state after a tick that read `n` taps (previous count `k`) with `len` events queued -/
def tdNext (w : Waiting) (acts : List Action) (T n k len : Nat) : Waiting :=
  { w with prevQueueLen := len % 256, timeout := if n > k then T else w.timeout, config := .tapDance acts T n }

/-- deciding on `n` taps -/
def tdDecide (w : Waiting) (acts : List Action) (T n k : Nat) (q : List Queued) :
    Except Crash (Waiting × List Queued × Option WAct) :=
  match tdPick acts n with
  | none => .error (.indexOOB "tap-dance actions")
  | some a => .ok ({ tdNext w acts T n k (evictTaps w n q).length with tap := a },
                   evictTaps w n q, some .tap)

/-- the deadline tick: decided on the count recorded earlier -/
theorem tickWtTd_deadline (w : Waiting) (acts : List Action) (T k : Nat) (q : List Queued)
    (h0 : w.timeout = 0) : tickWtTd w acts T k q = tdDecide w acts T k k q := by
  cases hp : tdPick acts k <;>
  · unfold tickWtTd tdDecide tdNext
    rw [handleTapDance_spec]
    simp [h0, hp]

/-- queue length unchanged, deadline not reached: only the memo is rewritten -/
theorem tickWtTd_fast (w : Waiting) (acts : List Action) (T k : Nat) (q : List Queued)
    (h0 : 0 < w.timeout) (hl : q.length % 256 = w.prevQueueLen) :
    tickWtTd w acts T k q = .ok (tdNext w acts T k k q.length, q, none) := by
  unfold tickWtTd tdNext
  rw [handleTapDance_spec]
  simp only [hl, beq_self_eq_true, h0, decide_true, Bool.and_self, if_true]

/-- queue length changed, deadline not reached: the queue is read -/
theorem tickWtTd_slow (w : Waiting) (acts : List Action) (T k : Nat) (q : List Queued)
    (h0 : 0 < w.timeout) (hl : q.length % 256 ≠ w.prevQueueLen) :
    tickWtTd w acts T k q =
      if interrupted w q || decide (seenTaps w q ≥ acts.length) then
        tdDecide w acts T (inThisDance (seenTaps w q) acts.length) k q
      else .ok (tdNext w acts T (seenTaps w q) k q.length, q, none) := by
  unfold tickWtTd tdDecide tdNext
  rw [handleTapDance_spec]
  have h1 : (q.length % 256 == w.prevQueueLen) = false := by simpa using hl
  have h2 : (w.timeout == 0) = false := by simp; omega
  simp only [h1, Bool.false_and, Bool.false_eq_true, if_false, h2]
  by_cases hc : (interrupted w q || decide (seenTaps w q ≥ acts.length)) = true
  · simp only [hc, if_true]
    cases hp : tdPick acts (inThisDance (seenTaps w q) acts.length) <;> rfl
  · simp only [hc, Bool.false_eq_true, if_false]

/-! ## One tick refines one abstract step -/

/-- the queue read so far shows `k` taps and no other key -/
structure Inv (w : Waiting) (acts : List Action) (T k : Nat) (q : List Queued) : Prop where
  cfg : w.config = .tapDance acts T k
  clean : interrupted w q = false
  seen : seenTaps w q = k
  memo : w.prevQueueLen = q.length % 256 ∨ w.prevQueueLen = 255

theorem tdDecide_ok {w : Waiting} {acts : List Action} (hne : acts ≠ []) (T n k : Nat) (q : List Queued) :
    ∃ a, tdPick acts n = some a ∧ ∃ w', tdDecide w acts T n k q =
      .ok (w', evictTaps w n q, some .tap) ∧ w'.tap = a ∧ w'.coord = w.coord := by
  obtain ⟨a, ha, _⟩ := tdPick_some hne n
  exact ⟨a, ha, { tdNext w acts T n k (evictTaps w n q).length with tap := a },
    by unfold tdDecide; rw [ha], rfl, rfl⟩

/-- **one tick of the waiting state refines one step of the abstract machine.**  `q` is the queue as
last read (showing `k` taps, no other key), `b` what arrived since; the queue never holds 255 events
(its capacity is 32). -/
theorem tickWtTd_refines {w : Waiting} {acts : List Action} {T k : Nat} {q : List Queued}
    (hI : Inv w acts T k q) (hne : acts ≠ []) (b : List Queued) (hlen : (q ++ b).length < 255) :
    match specStep T acts.length k w.timeout (arrivalOf w (w.prevQueueLen == 255) b) with
    | .decided n =>
      ∃ a, tdPick acts n = some a ∧ ∃ w', tickWtTd (cd w) acts T k (q ++ b) =
        .ok (w', evictTaps w n (q ++ b), some .tap) ∧ w'.tap = a ∧ w'.coord = w.coord
    | .pending k' rem' =>
      ∃ w', tickWtTd (cd w) acts T k (q ++ b) = .ok (w', q ++ b, none) ∧ w'.timeout = rem' ∧
        Inv w' acts T k' (q ++ b) ∧ w'.prevQueueLen ≠ 255 ∧ w'.coord = w.coord ∧ w'.tap = w.tap ∧
        w'.layerStack = w.layerStack := by
  have hcd : (cd w).coord = w.coord := rfl
  obtain ⟨hs1, hs2⟩ := seen_append hI.clean b
  have hl1 : (q ++ b).length % 256 = (q ++ b).length := Nat.mod_eq_of_lt (by omega)
  have hql : q.length + b.length < 255 := by simpa using hlen
  have hl2 : q.length % 256 = q.length := Nat.mod_eq_of_lt (by omega)
  have hto : (cd w).timeout = w.timeout - 1 := rfl
  have hpq : (cd w).prevQueueLen = w.prevQueueLen := rfl
  have hdec : ∀ n, ∃ a, tdPick acts n = some a ∧ ∃ w', tdDecide (cd w) acts T n k (q ++ b) =
      .ok (w', evictTaps w n (q ++ b), some .tap) ∧ w'.tap = a ∧ w'.coord = w.coord := by
    intro n
    obtain ⟨a, ha, w', h1, h2, h3⟩ := tdDecide_ok (w := cd w) hne T n k (q ++ b)
    rw [evictTaps_coord_congr hcd] at h1
    exact ⟨a, ha, w', h1, h2, h3.trans hcd⟩
  have hinv : ∀ n, n = seenTaps w (q ++ b) → interrupted w (q ++ b) = false →
      Inv (tdNext (cd w) acts T n k (q ++ b).length) acts T n (q ++ b) := by
    intro n hn hi
    have hc : (tdNext (cd w) acts T n k (q ++ b).length).coord = w.coord := rfl
    exact ⟨rfl, by rw [interrupted_congr hc]; exact hi, by rw [seenTaps_congr hc]; exact hn.symm, Or.inl rfl⟩
  unfold specStep
  by_cases hd : w.timeout ≤ 1
  · -- the deadline
    simp only [hd, if_true]
    rw [tickWtTd_deadline (cd w) acts T k (q ++ b) (by rw [hto]; omega)]
    exact hdec k
  · simp only [hd, if_false]
    have hpos : 0 < (cd w).timeout := by rw [hto]; omega
    cases hg : (arrivalOf w (w.prevQueueLen == 255) b).grew with
    | false =>
      -- nothing arrived and this is not the first tick: the queue is not read
      simp only [Bool.not_false, if_true]
      have hb : b = [] ∧ w.prevQueueLen ≠ 255 := by
        simp only [arrivalOf, Bool.or_eq_false_iff, Bool.not_eq_false', beq_eq_false_iff_ne,
          List.isEmpty_iff] at hg
        exact ⟨hg.2, hg.1⟩
      have hm : w.prevQueueLen = q.length % 256 := by
        rcases hI.memo with h | h
        · exact h
        · exact absurd h hb.2
      have hbl : (q ++ b).length % 256 = (cd w).prevQueueLen := by rw [hpq, hm, hb.1, List.append_nil]
      rw [tickWtTd_fast (cd w) acts T k (q ++ b) hpos hbl]
      refine ⟨_, rfl, ?_, ?_, ?_, rfl, rfl, rfl⟩
      · show (if k > k then T else (cd w).timeout) = w.timeout - 1
        simp [hto]
      · apply hinv k
        · rw [hs1, hb.1]; simp [nPr, hI.seen]
        · rw [hs2, hb.1]; rfl
      · show (q ++ b).length % 256 ≠ 255
        omega
    | true =>
      simp only [Bool.not_true, Bool.false_eq_true, if_false]
      have hbl : (q ++ b).length % 256 ≠ (cd w).prevQueueLen := by
        rw [hpq, hl1]
        simp only [arrivalOf, Bool.or_eq_true, beq_iff_eq, Bool.not_eq_true', List.isEmpty_eq_false_iff] at hg
        rcases hg with h | h
        · rw [h]; omega
        · rcases hI.memo with hm | hm
          · rw [hm, hl2]
            have : 0 < b.length := List.length_pos_iff.mpr h
            simp; omega
          · rw [hm]; omega
      rw [tickWtTd_slow (cd w) acts T k (q ++ b) hpos hbl]
      rw [interrupted_congr hcd, seenTaps_congr hcd, hs1, hs2, hI.seen]
      have ha1 : (arrivalOf w (w.prevQueueLen == 255) b).other = interrupted w b := rfl
      have ha2 : (arrivalOf w (w.prevQueueLen == 255) b).taps = nPr w (b.takeWhile (fun s => !otherPress w s)) := rfl
      rw [ha1, ha2]
      generalize nPr w (b.takeWhile (fun s => !otherPress w s)) = t at *
      by_cases hc : (interrupted w b || decide (k + t ≥ acts.length)) = true
      · simp only [hc, if_true]
        exact hdec (inThisDance (k + t) acts.length)
      · simp only [hc, Bool.false_eq_true, if_false]
        simp only [Bool.or_eq_true, decide_eq_true_eq, not_or] at hc
        refine ⟨_, rfl, ?_, ?_, ?_, rfl, rfl, rfl⟩
        · show (if k + t > k then T else (cd w).timeout) = if t > 0 then T else w.timeout - 1
          by_cases ht : t > 0
          · simp [ht]
          · have : t = 0 := by omega
            subst this; simp [hto]
        · apply hinv (k + t)
          · rw [hs1, hI.seen]
          · rw [hs2]; simpa using hc.1
        · show (q ++ b).length % 256 ≠ 255
          omega

/-! ## Many ticks -/

/-- the waiting state alone, driven tick by tick through the real `tick_wt`: `batches[i]` are the
events that arrive before tick `i + 1`; stops at the first decision.  Result: ticks consumed, the
waiting state, the queue, the decision.  (The queue's `since` counters, which `tick` advances, are
never read by the tap-dance arm: `tickWtTd_ignores_since`.) -/
def tdDrive (w : Waiting) (q : List Queued) : List (List Queued) →
    Except Crash (Nat × Waiting × List Queued × Option WAct)
  | [] => .ok (0, w, q, none)
  | b :: rest =>
    match tickWt w (q ++ b) [] with
    | .error c => .error c
    | .ok (w', q', _, some r) => .ok (1, w', q', some r.1)
    | .ok (w', q', _, none) =>
      match tdDrive w' q' rest with
      | .error c => .error c
      | .ok (t, r) => .ok (t + 1, r)

/-- the arrivals a list of batches amounts to (`first`: the first tick reads the queue regardless) -/
def arrivals (w : Waiting) : Bool → List (List Queued) → List Arrival
  | _, [] => []
  | first, b :: rest => arrivalOf w first b :: arrivals w false rest

theorem arrivals_congr {w w' : Waiting} (h : w'.coord = w.coord) (first : Bool) (bs : List (List Queued)) :
    arrivals w' first bs = arrivals w first bs := by
  induction bs generalizing first with
  | nil => rfl
  | cons b rest ih => simp only [arrivals, arrivalOf_congr h, ih]

/-- **the waiting state driven over any number of ticks refines the abstract machine**: same tick
of decision, same count; the chosen action is the one for that count, and the queue left behind is
the eviction of everything that had arrived by then. -/
theorem tdDrive_refines {acts : List Action} {T : Nat} (hne : acts ≠ []) :
    ∀ (bs : List (List Queued)) (w : Waiting) (q : List Queued) (k : Nat), Inv w acts T k q →
      (q ++ bs.flatten).length < 255 →
      match specRun T acts.length k w.timeout (arrivals w (w.prevQueueLen == 255) bs) with
      | (t, .decided n) =>
        ∃ a, tdPick acts n = some a ∧ ∃ w', tdDrive w q bs =
          .ok (t, w', evictTaps w n (q ++ (bs.take t).flatten), some .tap) ∧ w'.tap = a ∧
          w'.coord = w.coord
      | (t, .pending k' rem') =>
        ∃ w', tdDrive w q bs = .ok (t, w', q ++ bs.flatten, none) ∧ w'.timeout = rem' ∧
          Inv w' acts T k' (q ++ bs.flatten) ∧ t = bs.length ∧ w'.coord = w.coord
  | [], w, q, k, hI, _ => by
    simp only [arrivals, specRun, tdDrive, List.flatten_nil, List.append_nil]
    exact ⟨w, rfl, rfl, hI, rfl, rfl⟩
  | b :: rest, w, q, k, hI, hlen => by
    have hlen1 : (q ++ b).length < 255 := by
      simp only [List.flatten_cons, List.length_append] at hlen ⊢; omega
    have hstep := tickWtTd_refines hI hne b hlen1
    simp only [arrivals, specRun]
    rw [show tdDrive w q (b :: rest) = _ from rfl]
    simp only [tdDrive]
    rw [tickWt_td w acts T k hI.cfg]
    cases hs : specStep T acts.length k w.timeout (arrivalOf w (w.prevQueueLen == 255) b) with
    | decided n =>
      rw [hs] at hstep
      obtain ⟨a, ha, w', hw', hta, hco⟩ := hstep
      simp only []
      refine ⟨a, ha, w', ?_, hta, hco⟩
      rw [hw']
      simp [List.take]
    | pending k' rem' =>
      rw [hs] at hstep
      obtain ⟨w', hw', hto, hI', hnf, hco, _, _⟩ := hstep
      simp only []
      have hlen2 : ((q ++ b) ++ rest.flatten).length < 255 := by
        simp only [List.flatten_cons, List.length_append] at hlen ⊢; omega
      have ih := tdDrive_refines hne rest w' (q ++ b) k' hI' hlen2
      have hf : (w'.prevQueueLen == 255) = false := by simpa using hnf
      rw [hf, arrivals_congr hco, hto] at ih
      rw [hw']
      simp only [Option.map_none]
      generalize specRun T acts.length k' rem' (arrivals w false rest) = res at ih
      obtain ⟨t, v⟩ := res
      cases v with
      | decided n =>
        simp only [] at ih ⊢
        obtain ⟨a, ha, w'', hw'', hta, hco'⟩ := ih
        refine ⟨a, ha, w'', ?_, hta, hco'.trans hco⟩
        rw [hw'', evictTaps_coord_congr hco]
        simp [List.append_assoc]
      | pending k'' rem'' =>
        simp only [] at ih ⊢
        obtain ⟨w'', hw'', hto', hI'', ht, hco'⟩ := ih
        refine ⟨w'', ?_, hto', ?_, by simp [ht], hco'.trans hco⟩
        · rw [hw'']; simp [List.append_assoc]
        · simpa [List.append_assoc] using hI''

/-! ## Closed forms on the abstract machine -/

/-- nothing that matters arrived (nothing at all, or releases only) -/
def Arrival.quiet (a : Arrival) : Prop := a.taps = 0 ∧ a.other = false
/-- exactly one more tap arrived -/
def Arrival.oneTap (a : Arrival) : Prop := a.grew = true ∧ a.taps = 1 ∧ a.other = false

theorem specStep_deadline (T len k rem : Nat) (a : Arrival) (h : rem ≤ 1) :
    specStep T len k rem a = .decided k := by
  simp [specStep, h]

theorem specStep_quiet {T len k rem : Nat} {a : Arrival} (ha : a.quiet) (hk : k < len) (hr : 1 < rem) :
    specStep T len k rem a = .pending k (rem - 1) := by
  unfold specStep
  have h1 : ¬ rem ≤ 1 := by omega
  simp only [h1, if_false, ha.1, ha.2, Nat.add_zero, Bool.false_or, decide_eq_true_eq, Nat.lt_irrefl, if_false]
  have h2 : ¬ k ≥ len := by omega
  simp only [h2, if_false]
  split <;> rfl

theorem specStep_tap {T len k rem : Nat} {a : Arrival} (ha : a.oneTap) (hr : 1 < rem) :
    specStep T len k rem a = if k + 1 ≥ len then .decided (inThisDance (k + 1) len) else .pending (k + 1) T := by
  unfold specStep
  have h1 : ¬ rem ≤ 1 := by omega
  simp only [h1, if_false, ha.1, ha.2.1, ha.2.2, Bool.not_true, Bool.false_eq_true, Bool.false_or,
    decide_eq_true_eq, Nat.lt_add_one, if_true]

theorem specStep_other {T len k rem : Nat} {a : Arrival} (hg : a.grew = true) (ho : a.other = true) (hr : 1 < rem) :
    specStep T len k rem a = .decided (inThisDance (k + a.taps) len) := by
  unfold specStep
  have h1 : ¬ rem ≤ 1 := by omega
  simp [h1, hg, ho]

theorem specRun_cons_pending {T len k rem k' rem' : Nat} {a : Arrival} (rest : List Arrival)
    (h : specStep T len k rem a = .pending k' rem') :
    specRun T len k rem (a :: rest) = ((specRun T len k' rem' rest).1 + 1, (specRun T len k' rem' rest).2) := by
  simp only [specRun, h]

theorem specRun_cons_decided {T len k rem n : Nat} {a : Arrival} (rest : List Arrival)
    (h : specStep T len k rem a = .decided n) : specRun T len k rem (a :: rest) = (1, .decided n) := by
  simp only [specRun, h]

/-- quiet ticks short of the deadline only move the countdown -/
theorem specRun_quiet_prefix {T len k : Nat} (hk : k < len) :
    ∀ (l : List Arrival) (rem : Nat) (rest : List Arrival), (∀ a ∈ l, a.quiet) → l.length < rem →
      specRun T len k rem (l ++ rest) =
        ((specRun T len k (rem - l.length) rest).1 + l.length, (specRun T len k (rem - l.length) rest).2)
  | [], rem, rest, _, _ => by simp
  | a :: l, rem, rest, hq, hl => by
    have hl' : l.length + 1 < rem := by simpa using hl
    rw [List.cons_append, specRun_cons_pending _ (specStep_quiet (hq a (by simp)) hk (by omega))]
    rw [specRun_quiet_prefix hk l (rem - 1) rest (fun x hx => hq x (by simp [hx])) (by omega)]
    simp only [List.length_cons]
    have : rem - 1 - l.length = rem - (l.length + 1) := by omega
    rw [this]
    first | rfl | (congr 1; omega)

/-- **the deadline is exact**: with nothing but quiet ticks the dance stays pending for `rem − 1`
ticks and is decided, on the count so far, on exactly the `rem`-th -/
theorem spec_timeout_exact {T len k : Nat} (hk : k < len) (l : List Arrival) (hq : ∀ a ∈ l, a.quiet)
    (rem : Nat) (hr : 1 ≤ rem) :
    (l.length < rem → specRun T len k rem l = (l.length, .pending k (rem - l.length))) ∧
    (rem ≤ l.length → specRun T len k rem l = (rem, .decided k)) := by
  constructor
  · intro h
    have := specRun_quiet_prefix (T := T) hk l rem [] hq h
    simpa [specRun] using this
  · intro h
    -- split after rem − 1 quiet ticks: the next tick is the deadline
    have hsplit : l = l.take (rem - 1) ++ l.drop (rem - 1) := (List.take_append_drop _ _).symm
    have htl : (l.take (rem - 1)).length = rem - 1 := by rw [List.length_take]; omega
    rw [hsplit, specRun_quiet_prefix hk _ rem _ (fun a ha => hq a (List.mem_of_mem_take ha)) (by omega), htl]
    cases hd : l.drop (rem - 1) with
    | nil =>
      have : (l.drop (rem - 1)).length = 0 := by rw [hd]; rfl
      rw [List.length_drop] at this; omega
    | cons a t =>
      rw [specRun_cons_decided _ (specStep_deadline T len k _ a (by omega))]
      simp only [Prod.mk.injEq, and_true]
      omega

/-- **an arrival on the deadline tick is not looked at**: after `rem − 1` quiet ticks the dance is
decided on the old count whatever arrives with the `rem`-th tick — also a further tap -/
theorem spec_deadline_wins {T len k : Nat} (hk : k < len) (l : List Arrival) (hq : ∀ a ∈ l, a.quiet)
    (rem : Nat) (hl : l.length + 1 = rem) (a : Arrival) (rest : List Arrival) :
    specRun T len k rem (l ++ a :: rest) = (rem, .decided k) := by
  rw [specRun_quiet_prefix hk l rem _ hq (by omega),
    specRun_cons_decided _ (specStep_deadline T len k _ a (by omega))]
  simp only [Prod.mk.injEq, and_true]
  omega

/-- another key's press seen before the deadline ends the dance on that tick, on the count
including the taps that arrived before it - but never on more taps than the list is long -/
theorem spec_interrupt {T len k : Nat} (hk : k < len) (l : List Arrival) (hq : ∀ a ∈ l, a.quiet)
    (rem : Nat) (hl : l.length + 1 < rem) (a : Arrival) (hg : a.grew = true) (ho : a.other = true)
    (rest : List Arrival) :
    specRun T len k rem (l ++ a :: rest) = (l.length + 1, .decided (inThisDance (k + a.taps) len)) := by
  rw [specRun_quiet_prefix hk l rem _ hq (by omega),
    specRun_cons_decided _ (specStep_other hg ho (by omega))]
  simp only [Prod.mk.injEq, and_true]
  omega

/-- `Taps T m g l`: the arrivals `l` are `m` taps, each seen fewer than `T` ticks after the previous
one (quiet ticks in between), `g` ticks in total -/
inductive Taps (T : Nat) : Nat → Nat → List Arrival → Prop
  | nil : Taps T 0 0 []
  | cons {quiets : List Arrival} {a : Arrival} {rest : List Arrival} {m g : Nat} :
      (∀ x ∈ quiets, x.quiet) → a.oneTap → quiets.length + 1 < T → Taps T m g rest →
      Taps T (m + 1) (quiets.length + 1 + g) (quiets ++ a :: rest)

/-- taps in time, list not exhausted: each one moves the deadline to `T` ticks after it was seen -/
theorem spec_taps_in_time {T len : Nat} {m g : Nat} {l : List Arrival} (h : Taps T m g l) :
    ∀ (k : Nat) (tail : List Arrival), k + m < len →
      specRun T len k T (l ++ tail) = ((specRun T len (k + m) T tail).1 + g, (specRun T len (k + m) T tail).2) := by
  induction h with
  | nil => intro k tail _; simp
  | @cons quiets a rest m g hq ha hl _ ih =>
    intro k tail hk
    rw [List.append_assoc, List.cons_append,
      specRun_quiet_prefix (by omega) quiets T _ hq (by omega)]
    have hst : specStep T len k (T - quiets.length) a = .pending (k + 1) T := by
      rw [specStep_tap ha (by omega)]
      have : ¬ k + 1 ≥ len := by omega
      simp [this]
    rw [specRun_cons_pending _ hst, ih (k + 1) tail (by omega)]
    have : k + 1 + m = k + (m + 1) := by omega
    rw [this]
    congr 1
    omega

/-- **N taps, each within T of the previous, then silence**: decided exactly `T` ticks after the
last tap was seen, on `k + m` taps -/
theorem spec_nth {T len : Nat} {m g : Nat} {l : List Arrival} (h : Taps T m g l) (k : Nat)
    (hk : k + m < len) (hT : 1 ≤ T) (tail : List Arrival) (hq : ∀ a ∈ tail, a.quiet) (hl : T ≤ tail.length) :
    specRun T len k T (l ++ tail) = (g + T, .decided (k + m)) := by
  rw [spec_taps_in_time h k tail hk, (spec_timeout_exact hk tail hq T hT).2 hl]
  simp only [Prod.mk.injEq, and_true]
  omega

/-- **the list is exhausted**: the tap that brings the count to the list length ends the dance on
the tick it is seen -/
theorem spec_exhausted {T len : Nat} {m g : Nat} {l : List Arrival} (h : Taps T m g l) (k : Nat)
    (hk : k + m + 1 = len) (quiets : List Arrival) (hq : ∀ x ∈ quiets, x.quiet) (hl : quiets.length + 1 < T)
    (a : Arrival) (ha : a.oneTap) (rest : List Arrival) :
    specRun T len k T (l ++ (quiets ++ a :: rest)) = (g + quiets.length + 1, .decided len) := by
  rw [spec_taps_in_time h k _ (by omega), specRun_quiet_prefix (by omega) quiets T _ hq (by omega)]
  have hst : specStep T len (k + m) (T - quiets.length) a = .decided len := by
    rw [specStep_tap ha (by omega)]
    have : k + m + 1 ≥ len := by omega
    simp [hk, inThisDance]
  rw [specRun_cons_decided _ hst]
  simp only [Prod.mk.injEq, and_true]
  omega

/-! ## Batches of queued events as arrivals -/

/-- releases only (of any key), possibly nothing -/
def QuietBatch (b : List Queued) : Prop := ∀ s ∈ b, s.ev.isPress = false
/-- exactly one press of the dance key, no press of another key, any releases -/
def TapBatch (w : Waiting) (b : List Queued) : Prop := nPr w b = 1 ∧ interrupted w b = false

theorem quietBatch_arrival {b : List Queued} (h : QuietBatch b) (w : Waiting) (first : Bool) :
    (arrivalOf w first b).quiet := by
  have hi : interrupted w b = false := by
    unfold interrupted
    rw [List.any_eq_false]
    intro s hs
    simp [otherPress, h s hs]
  constructor
  · show nPr w (b.takeWhile _) = 0
    unfold nPr
    rw [List.length_eq_zero_iff, List.filter_eq_nil_iff]
    intro s hs
    have hs' := (List.takeWhile_sublist _).subset hs
    cases hp : isPr w s with
    | false => simp
    | true => exact absurd (h s hs') (by simp [isPr_isPress hp])
  · exact hi

theorem tapBatch_arrival {w : Waiting} {b : List Queued} (h : TapBatch w b) (first : Bool) :
    (arrivalOf w first b).oneTap := by
  have hall : ∀ x ∈ b, (fun s => !otherPress w s) x = true := by
    intro x hx
    have := List.any_eq_false.mp h.2 x hx
    simpa using this
  refine ⟨?_, ?_, h.2⟩
  · show (first || !b.isEmpty) = true
    cases b with
    | nil => exact absurd h.1 (by simp [nPr])
    | cons _ _ => simp
  · show nPr w (b.takeWhile _) = 1
    rw [takeWhile_all hall]; exact h.1

theorem arrivals_length (w : Waiting) (first : Bool) (bs : List (List Queued)) :
    (arrivals w first bs).length = bs.length := by
  induction bs generalizing first with
  | nil => rfl
  | cons b rest ih => simp [arrivals, ih]

theorem arrivals_quiet {bs : List (List Queued)} (h : ∀ b ∈ bs, QuietBatch b) (w : Waiting) (first : Bool) :
    ∀ a ∈ arrivals w first bs, a.quiet := by
  induction bs generalizing first with
  | nil => intro a ha; cases ha
  | cons b rest ih =>
    intro a ha
    simp only [arrivals, List.mem_cons] at ha
    rcases ha with rfl | ha
    · exact quietBatch_arrival (h b (by simp)) w first
    · exact ih (fun x hx => h x (by simp [hx])) false a ha

theorem arrivals_append (w : Waiting) (first : Bool) (l1 l2 : List (List Queued)) :
    arrivals w first (l1 ++ l2) = arrivals w first l1 ++ arrivals w (first && l1.isEmpty) l2 := by
  induction l1 generalizing first with
  | nil => simp [arrivals]
  | cons b rest ih => simp [arrivals, ih]

/-- `TapBatches w T m g bs`: the batches `bs` bring `m` taps of the key, each seen fewer than `T`
ticks after the previous one (only releases in between), over `g` ticks -/
inductive TapBatches (w : Waiting) (T : Nat) : Nat → Nat → List (List Queued) → Prop
  | nil : TapBatches w T 0 0 []
  | cons {quiets : List (List Queued)} {b : List Queued} {rest : List (List Queued)} {m g : Nat} :
      (∀ x ∈ quiets, QuietBatch x) → TapBatch w b → quiets.length + 1 < T → TapBatches w T m g rest →
      TapBatches w T (m + 1) (quiets.length + 1 + g) (quiets ++ b :: rest)

theorem tapBatches_arrivals {w : Waiting} {T m g : Nat} {bs : List (List Queued)} (h : TapBatches w T m g bs) :
    ∀ first, Taps T m g (arrivals w first bs) := by
  induction h with
  | nil => intro _; exact Taps.nil
  | @cons quiets b rest m g hq hb hl _ ih =>
    intro first
    rw [arrivals_append]
    simp only [arrivals]
    have := Taps.cons (T := T) (arrivals_quiet hq w first) (tapBatch_arrival hb (first && quiets.isEmpty))
      (by rw [arrivals_length]; exact hl) (ih false)
    rw [arrivals_length] at this
    exact this

theorem tapBatches_length {w : Waiting} {T m g : Nat} {bs : List (List Queued)} (h : TapBatches w T m g bs) :
    bs.length = g := by
  induction h with
  | nil => rfl
  | cons _ _ _ _ ih => simp [ih]; omega

theorem take_len_succ {α} (b : α) (rest : List α) : ∀ (l : List α), (l ++ b :: rest).take (l.length + 1) = l ++ [b]
  | [] => rfl
  | x :: t => by simp only [List.cons_append, List.length_cons, List.take_succ_cons, take_len_succ b rest t]

theorem quiet_no_press {b : List Queued} (h : QuietBatch b) (w : Waiting) : b.filter (isPr w) = [] := by
  rw [List.filter_eq_nil_iff]
  intro s hs hp
  have := h s hs
  rw [isPr_isPress hp] at this
  cases this

theorem quiets_no_press {bs : List (List Queued)} (h : ∀ b ∈ bs, QuietBatch b) (w : Waiting) :
    bs.flatten.filter (isPr w) = [] := by
  induction bs with
  | nil => rfl
  | cons b rest ih =>
    rw [List.flatten_cons, List.filter_append, quiet_no_press (h b (by simp)) w,
      ih (fun x hx => h x (by simp [hx]))]
    rfl

theorem drop_append_len {α} (a b : List α) (n : Nat) (h : a.length = n) : (a ++ b).drop n = b := by
  subst h; simp

end KVerif.C17
