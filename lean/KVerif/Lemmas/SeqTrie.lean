/-
Helper lemmas for C12, table part: the insertion loop of `parse_sequences` keeps the stored keys
pairwise prefix-incomparable, stores exactly the permitted orderings of every key list, and accepts
exactly when those orderings are pairwise incomparable.
-/
import KVerif.Lemmas.SeqPerm
namespace KVerif.Seq

/-- neither is a prefix of the other (in particular they differ) -/
def Incomp (p q : Key) : Prop := ¬ p <+: q ∧ ¬ q <+: p

theorem Incomp.symm {p q : Key} (h : Incomp p q) : Incomp q p := ⟨h.2, h.1⟩

theorem Incomp.ne {p q : Key} (h : Incomp p q) : p ≠ q := fun e => h.1 (e ▸ List.prefix_refl _)

theorem prefixFree_iff (ks : List Key) : PrefixFree ks ↔ ks.Pairwise Incomp := Iff.rfl

namespace Trie
variable {V : Type}

theorem ancestorExists_eq_false (t : Trie V) (p : Key) :
    t.ancestorExists p = false ↔ ∀ k ∈ t.keys, ¬ k <+: p := by
  simp [ancestorExists, keys, List.isPrefixOf_iff_prefix]

theorem descendantExists_eq_false (t : Trie V) (p : Key) :
    t.descendantExists p = false ↔ p ≠ [] ∧ ∀ k ∈ t.keys, ¬ p <+: k := by
  simp [descendantExists, keys, List.isPrefixOf_iff_prefix]

theorem insert_entries_of_fresh (t : Trie V) (p : Key) (v : V) (h : ∀ k ∈ t.keys, k ≠ p) :
    (t.insert p v).entries = (p, v) :: t.entries := by
  simp only [insert, List.cons.injEq, true_and]
  apply List.filter_eq_self.2
  intro e he
  have := h e.1 (by simp only [keys, List.mem_map]; exact ⟨e, he, rfl⟩)
  simpa using this

theorem ext_entries {t t' : Trie V} (h : t.entries = t'.entries) : t = t' := by
  cases t; cases t'; simp_all

end Trie

/-- The insertion loop succeeds exactly when the new keys are non-empty, pairwise incomparable and
incomparable with every key already stored; it then stores precisely them, with the given value. -/
theorem insertPerms_ok_iff {V : Type} (v : V) : ∀ (ps : List Key) (t t' : Trie V),
    insertPerms t v ps = .ok t' ↔
      t'.entries = ps.reverse.map (fun p => (p, v)) ++ t.entries ∧ ps.Pairwise Incomp ∧ [] ∉ ps ∧
        ∀ p ∈ ps, ∀ k ∈ t.keys, Incomp p k
  | [], t, t' => by
    simp only [insertPerms, List.reverse_nil, List.map_nil, List.nil_append, List.Pairwise.nil,
      List.not_mem_nil, not_false_eq_true, false_imp_iff, implies_true, and_true, Except.ok.injEq]
    exact ⟨fun h => h ▸ rfl, fun h => Trie.ext_entries h.symm⟩
  | p :: ps, t, t' => by
    simp only [insertPerms]
    cases ha : t.ancestorExists p
    · cases hd : t.descendantExists p
      · -- both checks pass
        have ha' := (Trie.ancestorExists_eq_false t p).1 ha
        have hd' := (Trie.descendantExists_eq_false t p).1 hd
        have hfresh : ∀ k ∈ t.keys, k ≠ p := fun k hk e => ha' k hk (e ▸ List.prefix_refl _)
        have hent := Trie.insert_entries_of_fresh t p v hfresh
        have hkeys : (t.insert p v).keys = p :: t.keys := by simp [Trie.keys, hent]
        simp only [Bool.false_eq_true, if_false]
        rw [insertPerms_ok_iff v ps (t.insert p v) t', hent, hkeys]
        simp only [List.reverse_cons, List.map_append, List.map_cons, List.map_nil, List.append_assoc,
          List.cons_append, List.nil_append, List.pairwise_cons, List.mem_cons, not_or]
        constructor
        · rintro ⟨h1, h2, h3, h4⟩
          refine ⟨h1, ⟨fun q hq => (h4 q hq p (Or.inl rfl)).symm, h2⟩, ⟨fun e => hd'.1 e.symm, h3⟩, ?_⟩
          intro q hq k hk
          rcases hq with rfl | hq
          · exact ⟨hd'.2 k hk, ha' k hk⟩
          · exact h4 q hq k (Or.inr hk)
        · rintro ⟨h1, ⟨h2a, h2⟩, ⟨_, h3⟩, h4⟩
          refine ⟨h1, h2, h3, ?_⟩
          intro q hq k hk
          rcases hk with rfl | hk
          · exact (h2a q hq).symm
          · exact h4 q (Or.inr hq) k hk
      · -- descendant conflict
        have hd' : ¬ (p ≠ [] ∧ ∀ k ∈ t.keys, ¬ p <+: k) := by
          rw [← Trie.descendantExists_eq_false]; simp [hd]
        simp only [Bool.false_eq_true, if_false, if_true, reduceCtorEq, false_iff]
        rintro ⟨_, _, h3, h4⟩
        apply hd'
        refine ⟨fun e => h3 (by simp [e]), fun k hk => (h4 p (by simp) k hk).1⟩
    · -- ancestor conflict
      have ha' : ¬ ∀ k ∈ t.keys, ¬ k <+: p := by
        rw [← Trie.ancestorExists_eq_false]; simp [ha]
      simp only [if_true, reduceCtorEq, false_iff]
      rintro ⟨_, _, _, h4⟩
      exact ha' fun k hk => (h4 p (by simp) k hk).2

/-! ### `expandPerms` produces exactly the permitted orderings -/

/-- `expandPerms` fails exactly where `orderings` is undefined, and otherwise continues every
permutation accumulated so far with every ordering of the rest (same fuel on both sides). -/
theorem expandPermsF_spec : ∀ (f : Nat) (seq : List Nat), seq.length ≤ f → ∀ (acc : List (List Nat)),
    match orderingsF f seq with
    | none => ∃ e, expandPermsF f seq acc = .error e
    | some os => ∃ ps, expandPermsF f seq acc = .ok ps ∧
        ∀ p, p ∈ ps ↔ ∃ a ∈ acc, ∃ o ∈ os, p = a ++ o := by
  intro f
  induction f with
  | zero =>
    intro seq hn acc
    have : seq = [] := by cases seq <;> simp_all
    subst this
    simp only [orderingsF, expandPermsF]
    exact ⟨acc, rfl, fun p => by simp⟩
  | succ f ih =>
  intro seq hn acc
  cases seq with
  | nil =>
    simp only [orderingsF, expandPermsF]
    exact ⟨acc, rfl, fun p => by simp⟩
  | cons v rest =>
    have hrest : rest.length ≤ f := by simp at hn; omega
    by_cases hv : v &&& KEY_OVERLAP_MARKER = 0
    · have := ih rest hrest (acc.map (· ++ [v]))
      simp only [orderingsF, expandPermsF, hv, if_true]
      cases ho : orderingsF f rest with
      | none =>
        rw [ho] at this
        simpa using this
      | some os =>
        rw [ho] at this
        obtain ⟨ps, h1, h2⟩ := this
        simp only [Option.map_some]
        refine ⟨ps, h1, fun p => ?_⟩
        rw [h2]
        constructor
        · rintro ⟨a, ha, o, ho', rfl⟩
          obtain ⟨a0, ha0, rfl⟩ := List.mem_map.1 ha
          exact ⟨a0, ha0, v :: o, List.mem_map.2 ⟨o, ho', rfl⟩, by simp⟩
        · rintro ⟨a, ha, o, ho', rfl⟩
          obtain ⟨o0, ho0, rfl⟩ := List.mem_map.1 ho'
          exact ⟨a ++ [v], List.mem_map.2 ⟨a, ha, rfl⟩, o0, ho0, by simp⟩
    · by_cases hm : v = KEY_OVERLAP_MARKER
      · simp only [orderingsF, expandPermsF, hm, if_true]
        exact ⟨_, rfl⟩
      · simp only [orderingsF, expandPermsF, hv, hm, if_false]
        generalize hgrp : (v :: List.takeWhile (fun x => !isMarker x) rest) = grp
        generalize hrest' : List.drop 1 (List.dropWhile (fun x => !isMarker x) rest) = rest'
        by_cases h2 : grp.length < 2
        · simp only [h2, true_or, if_true]
          exact ⟨_, rfl⟩
        · by_cases h6 : grp.length > 6
          · simp only [h2, h6, or_true, if_true, if_false]
            exact ⟨_, rfl⟩
          · simp only [h2, h6, or_self, if_false]
            have hlt : rest'.length ≤ f := by
              have := length_dropWhile_drop_lt rest v
              rw [hrest'] at this
              simp at this hn
              omega
            have ih' := ih rest' hlt
              (acc.flatMap fun p => (genPermutations grp).map fun p2 => p ++ p2 ++ [KEY_OVERLAP_MARKER])
            cases ho : orderingsF f rest' with
            | none =>
              rw [ho] at ih'
              exact ih'
            | some os =>
              rw [ho] at ih'
              obtain ⟨ps, h1, h2'⟩ := ih'
              simp only [Option.map_some]
              refine ⟨ps, h1, fun p => ?_⟩
              rw [h2']
              have hperm : ∀ g, g ∈ genPermutations grp ↔ g ∈ perms grp := fun g => by
                rw [mem_genPermutations_iff grp (by omega) (by omega), mem_perms]
              constructor
              · rintro ⟨a, ha, o, ho', rfl⟩
                obtain ⟨a0, ha0, hin⟩ := List.mem_flatMap.1 ha
                obtain ⟨g, hg, rfl⟩ := List.mem_map.1 hin
                refine ⟨a0, ha0, g ++ [KEY_OVERLAP_MARKER] ++ o, ?_, by simp⟩
                exact List.mem_flatMap.2 ⟨g, (hperm g).1 hg, List.mem_map.2 ⟨o, ho', rfl⟩⟩
              · rintro ⟨a, ha, o, ho', rfl⟩
                obtain ⟨g, hg, hin⟩ := List.mem_flatMap.1 ho'
                obtain ⟨o0, ho0, rfl⟩ := List.mem_map.1 hin
                refine ⟨a ++ g ++ [KEY_OVERLAP_MARKER], ?_, o0, ho0, by simp⟩
                exact List.mem_flatMap.2 ⟨a, ha, List.mem_map.2 ⟨g, (hperm g).2 hg, rfl⟩⟩

theorem expandPerms_nil_spec (seq : List Nat) :
    match orderings seq with
    | none => ∃ e, expandPerms seq [[]] = .error e
    | some os => ∃ ps, expandPerms seq [[]] = .ok ps ∧ ∀ p, p ∈ ps ↔ p ∈ os := by
  have := expandPermsF_spec seq.length seq (Nat.le_refl _) [[]]
  show match orderingsF seq.length seq with
    | none => ∃ e, expandPermsF seq.length seq [[]] = .error e
    | some os => ∃ ps, expandPermsF seq.length seq [[]] = .ok ps ∧ ∀ p, p ∈ ps ↔ p ∈ os
  cases ho : orderingsF seq.length seq with
  | none => rw [ho] at this; exact this
  | some os =>
    rw [ho] at this
    obtain ⟨ps, h1, h2⟩ := this
    exact ⟨ps, h1, fun p => by rw [h2]; simp⟩

/-! ### the whole table -/

/-- stored keys pairwise incomparable -/
def TrieOK {V : Type} (t : Trie V) : Prop := t.keys.Pairwise Incomp

theorem parseEntry_ok {t t' : Trie Nat} {e : Nat × List Item} (h : parseEntry t e = .ok t') :
    ∃ seq os ps, encOf e.2 = some seq ∧ orderings seq = some os ∧ (∀ p, p ∈ ps ↔ p ∈ os) ∧
      insertPerms t e.1 ps = .ok t' := by
  unfold parseEntry at h
  by_cases hemp : e.2.isEmpty
  · simp [hemp] at h
  · simp only [hemp, Bool.false_eq_true, if_false] at h
    cases hk : parseSequenceKeys e.2 with
    | error err => simp [hk] at h
    | ok seq =>
      simp only [hk] at h
      have hs := expandPerms_nil_spec seq
      cases hx : expandPerms seq [[]] with
      | error err => simp [hx] at h
      | ok ps =>
        simp only [hx] at h
        cases ho : orderings seq with
        | none => rw [ho] at hs; obtain ⟨e', he'⟩ := hs; simp [hx] at he'
        | some os =>
          rw [ho] at hs
          obtain ⟨ps', h1, h2⟩ := hs
          have : ps' = ps := by simpa [hx] using h1.symm
          subst this
          exact ⟨seq, os, ps', by simp [encOf, hemp, hk], ho, h2, h⟩

/-- What an accepted table stores: the trie stays pairwise incomparable, and its entries are the old
ones plus exactly the (ordering, virtual key) pairs the table denotes. -/
theorem parseFrom_ok : ∀ (tbl : List (Nat × List Item)) (t t' : Trie Nat),
    parseSequencesFrom t tbl = .ok t' → TrieOK t →
      TrieOK t' ∧ ∃ pairs, tableOrderings encOf tbl = some pairs ∧
        ∀ x, x ∈ t'.entries ↔ x ∈ pairs ∨ x ∈ t.entries
  | [], t, t', h, hok => by
    simp only [parseSequencesFrom, Except.ok.injEq] at h
    subst h
    exact ⟨hok, [], rfl, fun x => by simp⟩
  | e :: es, t, t', h, hok => by
    simp only [parseSequencesFrom] at h
    cases he : parseEntry t e with
    | error err => simp [he] at h
    | ok t1 =>
      simp only [he] at h
      obtain ⟨seq, os, ps, henc, hord, hmem, hins⟩ := parseEntry_ok he
      obtain ⟨hent, hpw, hne, hinc⟩ := (insertPerms_ok_iff e.1 ps t t1).1 hins
      have hok1 : TrieOK t1 := by
        have hk : t1.keys = ps.reverse ++ t.keys := by
          simp [Trie.keys, hent, List.map_map, Function.comp_def]
        unfold TrieOK
        rw [hk, List.pairwise_append]
        refine ⟨?_, hok, ?_⟩
        · rw [List.pairwise_reverse]
          exact hpw.imp (fun h => h.symm)
        · intro a ha b hb
          exact hinc a (by simpa using ha) b hb
      obtain ⟨hok', pairs, hp, hmem'⟩ := parseFrom_ok es t1 t' h hok1
      refine ⟨hok', os.map (fun o => (o, e.1)) ++ pairs, ?_, ?_⟩
      · simp [tableOrderings, henc, hord, hp]
      · intro x
        rw [hmem' x, hent]
        simp only [List.mem_append, List.mem_map, List.mem_reverse]
        constructor
        · rintro (h | ⟨p, hp', rfl⟩ | h)
          · exact Or.inl (Or.inr h)
          · exact Or.inl (Or.inl ⟨p, (hmem p).1 hp', rfl⟩)
          · exact Or.inr h
        · rintro ((⟨p, hp', rfl⟩ | h) | h)
          · exact Or.inr (Or.inl ⟨p, (hmem p).2 hp', rfl⟩)
          · exact Or.inl h
          · exact Or.inr (Or.inr h)

/-- an accepted table never stores the empty key -/
theorem parseFrom_no_empty : ∀ (tbl : List (Nat × List Item)) (t t' : Trie Nat),
    parseSequencesFrom t tbl = .ok t' → [] ∉ t.keys → [] ∉ t'.keys
  | [], t, t', h, hne => by
    simp only [parseSequencesFrom, Except.ok.injEq] at h
    exact h ▸ hne
  | e :: es, t, t', h, hne => by
    simp only [parseSequencesFrom] at h
    cases he : parseEntry t e with
    | error err => simp [he] at h
    | ok t1 =>
      simp only [he] at h
      obtain ⟨seq, os, ps, _, _, _, hins⟩ := parseEntry_ok he
      obtain ⟨hent, _, hnps, _⟩ := (insertPerms_ok_iff e.1 ps t t1).1 hins
      apply parseFrom_no_empty es t1 t' h
      have hk : t1.keys = ps.reverse ++ t.keys := by
        simp [Trie.keys, hent, List.map_map, Function.comp_def]
      rw [hk]
      simp only [List.mem_append, List.mem_reverse, not_or]
      exact ⟨hnps, hne⟩

theorem pairwise_mem_ne {α : Type} {R : α → α → Prop} (hs : ∀ a b, R a b → R b a) :
    ∀ {l : List α}, l.Pairwise R → ∀ a ∈ l, ∀ b ∈ l, a ≠ b → R a b
  | [], _, a, ha, _, _, _ => by simp at ha
  | x :: l, h, a, ha, b, hb, hne => by
    rw [List.pairwise_cons] at h
    rcases List.mem_cons.1 ha with rfl | ha'
    · rcases List.mem_cons.1 hb with rfl | hb'
      · exact absurd rfl hne
      · exact h.1 b hb'
    · rcases List.mem_cons.1 hb with rfl | hb'
      · exact hs _ _ (h.1 a ha')
      · exact pairwise_mem_ne hs h.2 a ha' b hb' hne

/-- a stored key is found with its value, when keys are pairwise incomparable -/
theorem lookup_of_mem {V : Type} (t : Trie V) (hok : TrieOK t) (p : Key) (v : V)
    (h : (p, v) ∈ t.entries) : t.getOrDescendant p = .hasValue v := by
  unfold Trie.getOrDescendant
  cases hf : t.entries.find? (fun e => e.1 == p) with
  | none =>
    have := List.find?_eq_none.1 hf (p, v) h
    simp at this
  | some e =>
    have he := List.mem_of_find?_eq_some hf
    have hk : e.1 = p := by simpa using List.find?_some hf
    have : e = (p, v) := by
      unfold TrieOK Trie.keys at hok
      rw [List.pairwise_map] at hok
      by_cases heq : e = (p, v)
      · exact heq
      · exfalso
        have := pairwise_mem_ne (R := fun a b : Key × V => Incomp a.1 b.1)
          (fun _ _ hxy => Incomp.symm hxy) hok e he (p, v) h heq
        exact this.1 (hk ▸ List.prefix_refl _)
    simp [this]

end KVerif.Seq
