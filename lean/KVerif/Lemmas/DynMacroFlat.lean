/-
Helper lemmas for C19: the one-layer layout `Flat` produces an OS trace that depends only on the
order of the events, not on how many ticks pass between them (when every event is followed by a
tick before the next one arrives).
-/
import KVerif.Lemmas.DynMacroRun
namespace KVerif.DynMacro

theorem dedup_nil_of_nil : dedup [] = [] := rfl

theorem filter_not_contains_self (l : List Nat) : l.filter (fun k => !l.contains k) = [] := by
  apply List.filter_eq_nil_iff.mpr
  intro a ha
  simp [ha]

/-- nothing changes, nothing is written -/
theorem osDiff_self (l : List Nat) : osDiff l l = [] := by
  have h := filter_not_contains_self l
  simp only [osDiff, h, dedup, List.map_nil, List.append_nil]

theorem flatTick_empty (keys : List KeyDef) (l : Flat) (hq : l.queue = [])
    (hp : l.prev = keycodes l.states) :
    flatTick keys l = ({ queue := [], states := l.states, prev := l.prev }, [], []) := by
  have h := osDiff_self (keycodes l.states)
  simp only [osDiff, keycodes] at h
  simp only [flatTick, hq, hp, keycodes]
  simp only [Prod.mk.injEq, true_and]
  exact h

theorem flatTick_one (keys : List KeyDef) (l : Flat) (e : KeyEv) (hq : l.queue = [e])
    (hp : l.prev = keycodes l.states) :
    flatTick keys l =
      ({ queue := [], states := (flatDequeue keys l.states e).1,
         prev := keycodes (flatDequeue keys l.states e).1 },
       (flatDequeue keys l.states e).2,
       osDiff (keycodes l.states) (keycodes (flatDequeue keys l.states e).1)) := by
  simp only [flatTick, hq, hp, keycodes, osDiff]

theorem flatEvent_empty (keys : List KeyDef) (l : Flat) (e : KeyEv) (hq : l.queue = []) :
    flatEvent keys l e = { l with queue := [e] } := by
  simp only [flatEvent, hq]

/-- the OS trace is a function of the event sequence -/
theorem flatRun_trace (keys : List KeyDef) :
    ∀ (ops : List FlatOp) (l : Flat), l.queue = [] → l.prev = keycodes l.states → Spaced ops = true →
      (flatRun keys l ops).2 = flatTrace keys l.states (eventsOf ops)
  | [], l, _, _, _ => rfl
  | .tick :: r, l, hq, hp, hs => by
    simp only [Spaced] at hs
    simp only [flatRun, flatTick_empty keys l hq hp, eventsOf, List.nil_append]
    exact flatRun_trace keys r _ rfl hp hs
  | .ev e :: .tick :: r, l, hq, hp, hs => by
    simp only [Spaced] at hs
    have h1 := flatEvent_empty keys l e hq
    have h2 := flatTick_one keys { l with queue := [e] } e rfl hp
    simp only [flatRun, h1, h2, eventsOf, flatTrace]
    congr 1
    exact flatRun_trace keys r _ rfl rfl hs
  | [.ev _], _, _, _, hs => by simp [Spaced] at hs
  | .ev _ :: .ev _ :: _, _, _, _, hs => by simp [Spaced] at hs

theorem flatTrace_append (keys : List KeyDef) (st : List (Nat × Option Nat)) (a b : List KeyEv) :
    flatTrace keys st (a ++ b) = flatTrace keys st a ++ flatTrace keys (flatStates keys st a) b := by
  induction a generalizing st with
  | nil => rfl
  | cons e r ih => simp [flatTrace, flatStates, ih]

/-- the actions a tick of the one-layer layout fires are those of one configured key -/
theorem flatTick_acts (keys : List KeyDef) (l : Flat) (a : Act) (h : a ∈ (flatTick keys l).2.1) :
    ∃ kd ∈ keys, a ∈ kd.acts := by
  simp only [flatTick] at h
  cases hq : l.queue with
  | nil => simp [hq] at h
  | cons e q =>
    simp only [hq, flatDequeue] at h
    split at h
    · split at h
      · simp at h
      · rename_i kd hk
        split at h
        · simp at h
        · split at h
          · simp at h
          · exact ⟨kd, List.mem_of_find?_eq_some hk, h⟩
    · simp at h

/-- a one-layer configuration without a play key never fires `dynamic-macro-play` -/
theorem noPlay_flat (keys : List KeyDef) (h : ∀ kd ∈ keys, ∀ id, Act.play id ∉ kd.acts) :
    NoPlay (flatI keys) := by
  intro l a ha id hc
  subst hc
  obtain ⟨kd, hkd, hm⟩ := flatTick_acts keys l _ ha
  exact h kd hkd id hm

end KVerif.DynMacro
