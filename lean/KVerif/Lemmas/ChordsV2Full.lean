/-
C09 helper lemmas for chords v2, arbitrary tables: the closed form of the loop of `process_presses`
on ANY press list (the undecided prefixes, the completing press, the backtracking arm), and what
`process_presses` returns in each case.
-/
import KVerif.Lemmas.ChordsV2Cap
namespace KVerif.C09
open KVerif.L

/-- a prefix of the press order after which the loop of `process_presses` goes on: some enabled chord
of the table entry still contains every key pressed so far, and if it is the only one it is not yet
complete -/
def Undecided (possible : List ChordV2) (layer : Nat) (pre : List Nat) : Prop :=
  Fk possible layer pre ≠ [] ∧ ∀ x, Fk possible layer pre = [x] → x.keys.all (pre.contains ·) = false

/-- the loop over undecided prefixes activates nothing and ends with the candidates of all presses -/
theorem ppLoop_undecided (possible : List ChordV2) (layer since : Nat) (relFound : Option Nat) (minIdle : Nat)
    (A0 : List ActiveChord) (T0 : Nat) :
    ∀ (rest pre : List Nat) (st : PP), Mid possible layer since A0 T0 pre st →
      (∀ r, r <+: rest → r ≠ [] → Undecided possible layer (pre ++ r)) →
      ∃ st', ppLoop possible layer since relFound minIdle rest st = .ok st' ∧
        Mid possible layer since A0 T0 (pre ++ rest) st' := by
  intro rest
  induction rest with
  | nil => intro pre st hm _; exact ⟨st, rfl, by rw [List.append_nil]; exact hm⟩
  | cons p rest ih =>
    intro pre st hm hu
    have hu1 : Undecided possible layer (pre ++ [p]) :=
      hu [p] (by exact ⟨rest, rfl⟩) (by simp)
    obtain ⟨st1, e1, hm1⟩ := ppStep_mid possible layer since relFound minIdle A0 T0 pre st p hm hu1.1 hu1.2
    obtain ⟨st', e', hm'⟩ := ih (pre ++ [p]) st1 hm1 (by
      intro r hr hne
      have : pre ++ [p] ++ r = pre ++ (p :: r) := by simp
      rw [this]
      refine hu (p :: r) ?_ (by simp)
      obtain ⟨t, ht⟩ := hr
      exact ⟨t, by rw [← ht]; rfl⟩)
    refine ⟨st', by simp only [ppLoop, e1, e'], ?_⟩
    have : pre ++ p :: rest = pre ++ [p] ++ rest := by simp
    rw [this]; exact hm'

/-- the step on which no candidate is left: the loop goes back to the presses before it -/
theorem ppStep_backtrack (possible : List ChordV2) (layer since : Nat) (relFound : Option Nat) (minIdle : Nat)
    (A0 : List ActiveChord) (T0 : Nat) (pre : List Nat) (st : PP) (p : Nat)
    (hm : Mid possible layer since A0 T0 pre st)
    (hF : Fk possible layer (pre ++ [p]) = []) :
    ∃ st', ppStep possible layer since relFound minIdle st p = .ok st' ∧
      st'.done = true ∧ st'.acc = pre ∧ st'.cands = [] ∧
      match (possible.filter (enabledOn layer)).find? (exactMatch pre) with
      | some cch =>
        (A0.length < ACTIVE_CHORDS_CAP →
          st'.active = A0 ++ [getActiveChord cch since (freeCoord st.active st.nextCoord) relFound] ∧ st'.ticksToIgnore = T0) ∧
        (¬ A0.length < ACTIVE_CHORDS_CAP → st'.active = A0 ∧ st'.ticksToIgnore = minIdle)
      | none => st'.active = A0 ∧ st'.ticksToIgnore = minIdle := by
  unfold ppStep
  have ht : List.take SMOL_Q_LEN ([] : List ChordV2) = [] := rfl
  simp only [hm.done, Bool.false_eq_true, if_false, ppCands_mid possible layer since A0 T0 pre st p hm,
    hm.acc, hF, List.length_nil, ht, List.dropLast_concat]
  cases hfind : (possible.filter (enabledOn layer)).find? (exactMatch pre) with
  | none =>
    simp only []
    exact ⟨_, rfl, rfl, rfl, rfl, hm.active, rfl⟩
  | some cch =>
    simp only []
    by_cases hroom : A0.length < ACTIVE_CHORDS_CAP
    · have hp : pushActive st.active (getActiveChord cch since (freeCoord st.active st.nextCoord) relFound) =
          .ok (st.active ++ [getActiveChord cch since (freeCoord st.active st.nextCoord) relFound]) := by
        unfold pushActive
        rw [if_pos (by rw [hm.active]; exact hroom)]
      simp only [hp]
      exact ⟨_, rfl, rfl, rfl, rfl, fun _ => ⟨by rw [hm.active], hm.tti⟩, fun h => absurd hroom h⟩
    · have hp : pushActive st.active (getActiveChord cch since (freeCoord st.active st.nextCoord) relFound) =
          .error (.indexOOB "active chords has room") := by
        unfold pushActive
        rw [if_neg (by rw [hm.active]; exact hroom)]
      simp only [hp]
      exact ⟨_, rfl, rfl, rfl, rfl, fun h => absurd h hroom, fun _ => ⟨hm.active, rfl⟩⟩

/-- what `process_presses` returns once its loop is known -/
theorem processPresses_of_loop (s : ChV2) (layer : Nat) (ps : List Nat) (rf : Option Nat) (p1 : Nat)
    (possible : List ChordV2) (st : PP)
    (hcp : collectPresses s.queue [] = .ok (ps, rf)) (hhead : ps.head? = some p1)
    (hget : s.cfg.get p1 = some possible)
    (hl : ppLoop possible layer (sinceOf s) rf s.cfg.minIdle ps
      { ticksUntil := s.ticksUntilChange, nextCoord := s.nextCoord, active := s.active,
        ticksToIgnore := s.ticksToIgnore } = .ok st) :
    processPresses s layer = .ok
      { s with queue := if (ppFinal possible layer (sinceOf s) rf s.cfg.minIdle s.active.length st).active.length > s.active.length
                  then ppRetain s.queue (ppFinal possible layer (sinceOf s) rf s.cfg.minIdle s.active.length st).acc else s.queue,
               active := (ppFinal possible layer (sinceOf s) rf s.cfg.minIdle s.active.length st).active,
               ticksToIgnore := (ppFinal possible layer (sinceOf s) rf s.cfg.minIdle s.active.length st).ticksToIgnore,
               ticksUntilChange := if (ppFinal possible layer (sinceOf s) rf s.cfg.minIdle s.active.length st).active.length > s.active.length
                  then 0 else (ppFinal possible layer (sinceOf s) rf s.cfg.minIdle s.active.length st).ticksUntil,
               nextCoord := (ppFinal possible layer (sinceOf s) rf s.cfg.minIdle s.active.length st).nextCoord } := by
  unfold processPresses
  simp only [hcp, hhead, hget]
  have hl' : ppLoop possible layer ((s.queue.head?.map (·.since)).getD 0) rf s.cfg.minIdle ps
      { ticksUntil := s.ticksUntilChange, nextCoord := s.nextCoord, active := s.active, ticksToIgnore := s.ticksToIgnore } = .ok st := hl
  simp only [hl']
  rfl

/-- `process_presses` touches neither the table nor the two fields the fast path of `drain_inputs` reads -/
theorem processPresses_frame (s s' : ChV2) (layer : Nat) (h : processPresses s layer = .ok s') :
    s'.cfg = s.cfg ∧ s'.prevActiveLayer = s.prevActiveLayer ∧ s'.prevQueueLen = s.prevQueueLen := by
  unfold processPresses at h
  split at h
  · cases h
  · split at h
    · cases h; exact ⟨rfl, rfl, rfl⟩
    · split at h
      · cases h; exact ⟨rfl, rfl, rfl⟩
      · simp only [] at h
        split at h
        · cases h
        · cases h; exact ⟨rfl, rfl, rfl⟩

/-- the initial loop state is a `Mid` with nothing accumulated -/
theorem mid_init (possible : List ChordV2) (layer since : Nat) (s : ChV2) :
    Mid possible layer since s.active s.ticksToIgnore []
      { ticksUntil := s.ticksUntilChange, nextCoord := s.nextCoord, active := s.active, ticksToIgnore := s.ticksToIgnore } :=
  ⟨rfl, rfl, rfl, rfl, Or.inl ⟨rfl, rfl, rfl⟩⟩

/-- **waiting**: every non-empty prefix of the queued presses is undecided, the shortest timeout of
the remaining candidates has not run out and no participant was released: `process_presses` only sets
the countdown -/
theorem processPresses_wait (s : ChV2) (layer : Nat) (ps : List Nat) (p1 : Nat) (possible : List ChordV2)
    (hcp : collectPresses s.queue [] = .ok (ps, none)) (hhead : ps.head? = some p1)
    (hget : s.cfg.get p1 = some possible)
    (hu : ∀ r, r <+: ps → r ≠ [] → Undecided possible layer r)
    (htime : sinceOf s < minPending (Fk possible layer ps)) :
    ∃ s', processPresses s layer = .ok s' ∧ s'.queue = s.queue ∧ s'.active = s.active ∧
      s'.ticksToIgnore = s.ticksToIgnore ∧
      s'.ticksUntilChange = minPending (Fk possible layer ps) - sinceOf s := by
  have hne : ps ≠ [] := by intro h; rw [h] at hhead; cases hhead
  obtain ⟨st, hl, hm⟩ := ppLoop_undecided possible layer (sinceOf s) none s.cfg.minIdle s.active s.ticksToIgnore
    ps [] _ (mid_init possible layer (sinceOf s) s) (by simpa using hu)
  rw [List.nil_append] at hm
  rw [processPresses_of_loop s layer ps none p1 possible st hcp hhead hget hl]
  rcases hm.cands with ⟨_, _, hps⟩ | ⟨_, _, htu⟩
  · exact absurd hps hne
  · have hfinal : ppFinal possible layer (sinceOf s) none s.cfg.minIdle s.active.length st = st := by
      unfold ppFinal
      have h1 : (st.ticksUntil == 0 || (none : Option Nat).isSome) = false := by
        rw [htu]; simp; omega
      simp only [h1, Bool.and_false, Bool.false_eq_true, if_false]
    refine ⟨_, rfl, ?_, ?_, ?_, ?_⟩
    · show (if (ppFinal possible layer (sinceOf s) none s.cfg.minIdle s.active.length st).active.length > s.active.length
          then _ else s.queue) = s.queue
      rw [hfinal, hm.active]; simp
    · show (ppFinal possible layer (sinceOf s) none s.cfg.minIdle s.active.length st).active = _
      rw [hfinal]; exact hm.active
    · show (ppFinal possible layer (sinceOf s) none s.cfg.minIdle s.active.length st).ticksToIgnore = _
      rw [hfinal]; exact hm.tti
    · show (if (ppFinal possible layer (sinceOf s) none s.cfg.minIdle s.active.length st).active.length > s.active.length
          then 0 else (ppFinal possible layer (sinceOf s) none s.cfg.minIdle s.active.length st).ticksUntil) = _
      rw [hfinal, hm.active]; simp only [Nat.lt_irrefl, gt_iff_lt, if_false]; exact htu

/-- **backtracking**: the presses `acc` are undecided at every non-empty prefix and the next press `p`
leaves no candidate -/
theorem processPresses_backtrack (s : ChV2) (layer : Nat) (ps acc rest : List Nat) (p p1 : Nat) (rf : Option Nat)
    (possible : List ChordV2)
    (hcp : collectPresses s.queue [] = .ok (ps, rf)) (hhead : ps.head? = some p1)
    (hget : s.cfg.get p1 = some possible) (hps : ps = acc ++ p :: rest)
    (hu : ∀ r, r <+: acc → r ≠ [] → Undecided possible layer r)
    (hF : Fk possible layer (acc ++ [p]) = [])
    (hroom : s.active.length < ACTIVE_CHORDS_CAP) :
    ∃ s', processPresses s layer = .ok s' ∧
      match (possible.filter (enabledOn layer)).find? (exactMatch acc) with
      | some cch => ∃ coord, s'.active = s.active ++ [getActiveChord cch (sinceOf s) coord rf] ∧
          s'.queue = ppRetain s.queue acc ∧ s'.ticksToIgnore = s.ticksToIgnore
      | none => s'.active = s.active ∧ s'.queue = s.queue ∧ s'.ticksToIgnore = s.cfg.minIdle := by
  obtain ⟨st1, hl1, hm1⟩ := ppLoop_undecided possible layer (sinceOf s) rf s.cfg.minIdle s.active s.ticksToIgnore
    acc [] _ (mid_init possible layer (sinceOf s) s) (by simpa using hu)
  rw [List.nil_append] at hm1
  obtain ⟨st2, hs2, hd2, hacc2, hc2, hres⟩ := ppStep_backtrack possible layer (sinceOf s) rf s.cfg.minIdle
    s.active s.ticksToIgnore acc st1 p hm1 hF
  have hl : ppLoop possible layer (sinceOf s) rf s.cfg.minIdle ps
      { ticksUntil := s.ticksUntilChange, nextCoord := s.nextCoord, active := s.active,
        ticksToIgnore := s.ticksToIgnore } = .ok st2 := by
    rw [hps]
    have happ : ∀ (l1 l2 : List Nat) (a b : PP), ppLoop possible layer (sinceOf s) rf s.cfg.minIdle l1 a = .ok b →
        ppLoop possible layer (sinceOf s) rf s.cfg.minIdle (l1 ++ l2) a = ppLoop possible layer (sinceOf s) rf s.cfg.minIdle l2 b := by
      intro l1
      induction l1 with
      | nil => intro l2 a b h; cases h; rfl
      | cons x l1 ih =>
        intro l2 a b h
        simp only [ppLoop, List.cons_append] at h ⊢
        split at h
        · cases h
        · rename_i a' ha'
          exact ih l2 a' b h
    rw [happ acc (p :: rest) _ st1 hl1]
    simp only [ppLoop, hs2]
    exact ppLoop_done possible layer (sinceOf s) rf s.cfg.minIdle rest st2 hd2
  rw [processPresses_of_loop s layer ps rf p1 possible st2 hcp hhead hget hl]
  cases hfind : (possible.filter (enabledOn layer)).find? (exactMatch acc) with
  | some cch =>
    rw [hfind] at hres
    obtain ⟨hact, htti⟩ := hres.1 hroom
    have hfinal : ppFinal possible layer (sinceOf s) rf s.cfg.minIdle s.active.length st2 = st2 := by
      unfold ppFinal
      have : (st2.active.length == s.active.length) = false := by rw [hact]; simp
      simp only [this, Bool.false_and, Bool.false_eq_true, if_false]
    refine ⟨_, rfl, freeCoord st1.active st1.nextCoord, ?_, ?_, ?_⟩
    · show (ppFinal possible layer (sinceOf s) rf s.cfg.minIdle s.active.length st2).active = _
      rw [hfinal]; exact hact
    · show (if (ppFinal possible layer (sinceOf s) rf s.cfg.minIdle s.active.length st2).active.length > s.active.length
          then ppRetain s.queue (ppFinal possible layer (sinceOf s) rf s.cfg.minIdle s.active.length st2).acc else s.queue) = _
      rw [hfinal, hact, hacc2]; simp
    · show (ppFinal possible layer (sinceOf s) rf s.cfg.minIdle s.active.length st2).ticksToIgnore = _
      rw [hfinal]; exact htti
  | none =>
    rw [hfind] at hres
    obtain ⟨hact, htti⟩ := hres
    have hfinal : (ppFinal possible layer (sinceOf s) rf s.cfg.minIdle s.active.length st2).active = s.active ∧
        (ppFinal possible layer (sinceOf s) rf s.cfg.minIdle s.active.length st2).ticksToIgnore = s.cfg.minIdle := by
      unfold ppFinal
      split
      · have hpool : (if st2.cands.length ≥ SMOL_Q_LEN then possible else st2.cands) = [] := by
          rw [hc2]; rfl
        simp only [hpool, List.filter_nil, List.find?_nil]
        exact ⟨hact, trivial⟩
      · exact ⟨hact, htti⟩
    refine ⟨_, rfl, hfinal.1, ?_, hfinal.2⟩
    show (if (ppFinal possible layer (sinceOf s) rf s.cfg.minIdle s.active.length st2).active.length > s.active.length
        then _ else s.queue) = s.queue
    rw [hfinal.1]; simp

theorem ppLoop_append (possible : List ChordV2) (layer since : Nat) (rf : Option Nat) (minIdle : Nat) :
    ∀ (l1 l2 : List Nat) (a b : PP), ppLoop possible layer since rf minIdle l1 a = .ok b →
      ppLoop possible layer since rf minIdle (l1 ++ l2) a = ppLoop possible layer since rf minIdle l2 b := by
  intro l1
  induction l1 with
  | nil => intro l2 a b h; cases h; rfl
  | cons x l1 ih =>
    intro l2 a b h
    simp only [ppLoop, List.cons_append] at h ⊢
    split at h
    · cases h
    · rename_i a' ha'
      exact ih l2 a' b h

/-- the first enabled chord with exactly the given key set, looked up in the whole table entry or in
the candidates that contain all those keys: the same chord -/
theorem find_exact_Fk (possible : List ChordV2) (layer : Nat) (ps : List Nat) :
    (Fk possible layer ps).find? (exactMatch ps) = (possible.filter (enabledOn layer)).find? (exactMatch ps) := by
  unfold Fk
  induction possible with
  | nil => rfl
  | cons c l ih =>
    simp only [List.filter_cons]
    by_cases hen : enabledOn layer c = true
    · by_cases hall : ps.all (c.keys.contains ·) = true
      · simp only [hen, hall, Bool.and_self, if_true, List.find?_cons, ih]
      · have hall' : ps.all (c.keys.contains ·) = false := by simpa using hall
        have hex : exactMatch ps c = false := by
          simp only [exactMatch, hall', Bool.false_and]
        simp only [hen, hall', Bool.and_false, Bool.false_eq_true, if_false, if_true, List.find?_cons, hex, ih]
    · have hen' : enabledOn layer c = false := by simpa using hen
      simp only [hen', Bool.false_and, Bool.false_eq_true, if_false, ih]

/-- **resolution**: every non-empty prefix of the queued presses is undecided and the window has
closed (shortest timeout of the remaining candidates run out, or a participant released): the first
enabled chord with exactly the pressed key set is activated, else the cool-down starts -/
theorem processPresses_resolve (s : ChV2) (layer : Nat) (ps : List Nat) (p1 : Nat) (rf : Option Nat) (possible : List ChordV2)
    (hcp : collectPresses s.queue [] = .ok (ps, rf)) (hhead : ps.head? = some p1)
    (hget : s.cfg.get p1 = some possible)
    (hu : ∀ r, r <+: ps → r ≠ [] → Undecided possible layer r)
    (hclosed : minPending (Fk possible layer ps) ≤ sinceOf s ∨ rf.isSome = true)
    (hroom : s.active.length < ACTIVE_CHORDS_CAP) :
    ∃ s', processPresses s layer = .ok s' ∧
      match (possible.filter (enabledOn layer)).find? (exactMatch ps) with
      | some cch => ∃ coord, s'.active = s.active ++ [getActiveChord cch (sinceOf s) coord rf] ∧
          s'.queue = ppRetain s.queue ps ∧ s'.ticksToIgnore = s.ticksToIgnore
      | none => s'.active = s.active ∧ s'.queue = s.queue ∧ s'.ticksToIgnore = s.cfg.minIdle := by
  have hne : ps ≠ [] := by intro h; rw [h] at hhead; cases hhead
  obtain ⟨st, hl, hm⟩ := ppLoop_undecided possible layer (sinceOf s) rf s.cfg.minIdle s.active s.ticksToIgnore
    ps [] _ (mid_init possible layer (sinceOf s) s) (by simpa using hu)
  rw [List.nil_append] at hm
  rw [processPresses_of_loop s layer ps rf p1 possible st hcp hhead hget hl]
  rcases hm.cands with ⟨_, _, hps⟩ | ⟨_, hcands, htu⟩
  · exact absurd hps hne
  · have hcond : (st.active.length == s.active.length && (st.ticksUntil == 0 || rf.isSome)) = true := by
      rw [hm.active]
      rcases hclosed with h | h
      · have : st.ticksUntil = 0 := by rw [htu]; omega
        simp [this]
      · simp [h]
    have hpool : ((if st.cands.length ≥ SMOL_Q_LEN then possible else st.cands).filter (enabledOn layer)).find? (exactMatch ps) =
        (possible.filter (enabledOn layer)).find? (exactMatch ps) := by
      split
      · rfl
      · rename_i hlen
        rw [hcands] at hlen ⊢
        have hle : (Fk possible layer ps).length ≤ SMOL_Q_LEN := by
          rw [List.length_take] at hlen; omega
        have hfe : (Fk possible layer ps).filter (enabledOn layer) = Fk possible layer ps := by
          rw [List.filter_eq_self]
          intro c hc
          exact (mem_Fk.mp hc).2.1
        rw [List.take_of_length_le hle, hfe, find_exact_Fk]
    cases hfind : (possible.filter (enabledOn layer)).find? (exactMatch ps) with
    | some cch =>
      have hp : pushActive st.active (getActiveChord cch (sinceOf s) (freeCoord st.active st.nextCoord) rf) =
          .ok (st.active ++ [getActiveChord cch (sinceOf s) (freeCoord st.active st.nextCoord) rf]) := by
        unfold pushActive
        rw [if_pos (by rw [hm.active]; exact hroom)]
      have hfinal : ppFinal possible layer (sinceOf s) rf s.cfg.minIdle s.active.length st =
          { st with active := st.active ++ [getActiveChord cch (sinceOf s) (freeCoord st.active st.nextCoord) rf],
                    nextCoord := nextCoordAfter (freeCoord st.active st.nextCoord) } := by
        unfold ppFinal
        rw [if_pos hcond]
        simp only [hm.acc, hpool, hfind, hp]
      refine ⟨_, rfl, freeCoord st.active st.nextCoord, ?_, ?_, ?_⟩
      · show (ppFinal possible layer (sinceOf s) rf s.cfg.minIdle s.active.length st).active = _
        rw [hfinal, hm.active]
      · show (if (ppFinal possible layer (sinceOf s) rf s.cfg.minIdle s.active.length st).active.length > s.active.length
            then ppRetain s.queue (ppFinal possible layer (sinceOf s) rf s.cfg.minIdle s.active.length st).acc else s.queue) = _
        rw [hfinal]
        simp only [hm.active, hm.acc, List.length_append, List.length_cons, List.length_nil, gt_iff_lt, Nat.lt_add_one, if_true]
      · show (ppFinal possible layer (sinceOf s) rf s.cfg.minIdle s.active.length st).ticksToIgnore = _
        rw [hfinal]; exact hm.tti
    | none =>
      have hfinal : ppFinal possible layer (sinceOf s) rf s.cfg.minIdle s.active.length st =
          { st with ticksToIgnore := s.cfg.minIdle } := by
        unfold ppFinal
        rw [if_pos hcond]
        simp only [hm.acc, hpool, hfind]
      refine ⟨_, rfl, ?_, ?_, ?_⟩
      · show (ppFinal possible layer (sinceOf s) rf s.cfg.minIdle s.active.length st).active = _
        rw [hfinal]; exact hm.active
      · show (if (ppFinal possible layer (sinceOf s) rf s.cfg.minIdle s.active.length st).active.length > s.active.length
            then _ else s.queue) = s.queue
        rw [hfinal]; simp only [hm.active]; simp
      · show (ppFinal possible layer (sinceOf s) rf s.cfg.minIdle s.active.length st).ticksToIgnore = _
        rw [hfinal]

/-- **completion inside the press list**: the presses `pre` are undecided at every non-empty prefix
and with the next press `p` exactly one candidate is left and it is complete: it is activated at once,
whatever the timeouts and whatever follows in the queue -/
theorem processPresses_complete (s : ChV2) (layer : Nat) (ps pre rest : List Nat) (p p1 : Nat) (rf : Option Nat)
    (possible : List ChordV2) (x : ChordV2)
    (hcp : collectPresses s.queue [] = .ok (ps, rf)) (hhead : ps.head? = some p1)
    (hget : s.cfg.get p1 = some possible) (hps : ps = pre ++ p :: rest)
    (hu : ∀ r, r <+: pre → r ≠ [] → Undecided possible layer r)
    (hF : Fk possible layer (pre ++ [p]) = [x]) (hcomp : x.keys.all ((pre ++ [p]).contains ·) = true)
    (hroom : s.active.length < ACTIVE_CHORDS_CAP) :
    ∃ s' coord, processPresses s layer = .ok s' ∧
      s'.active = s.active ++ [getActiveChord x (sinceOf s) coord rf] ∧
      s'.queue = ppRetain s.queue (pre ++ [p]) ∧ s'.ticksToIgnore = s.ticksToIgnore := by
  obtain ⟨st1, hl1, hm1⟩ := ppLoop_undecided possible layer (sinceOf s) rf s.cfg.minIdle s.active s.ticksToIgnore
    pre [] _ (mid_init possible layer (sinceOf s) s) (by simpa using hu)
  rw [List.nil_append] at hm1
  obtain ⟨st2, hs2, hd2, hacc2, htti2, _, hact2⟩ := ppStep_complete possible layer (sinceOf s) rf s.cfg.minIdle
    s.active s.ticksToIgnore pre st1 p x hm1 hF hcomp hroom
  have hl : ppLoop possible layer (sinceOf s) rf s.cfg.minIdle ps
      { ticksUntil := s.ticksUntilChange, nextCoord := s.nextCoord, active := s.active,
        ticksToIgnore := s.ticksToIgnore } = .ok st2 := by
    rw [hps, ppLoop_append possible layer (sinceOf s) rf s.cfg.minIdle pre (p :: rest) _ st1 hl1]
    simp only [ppLoop, hs2]
    exact ppLoop_done possible layer (sinceOf s) rf s.cfg.minIdle rest st2 hd2
  rw [processPresses_of_loop s layer ps rf p1 possible st2 hcp hhead hget hl]
  have hfinal : ppFinal possible layer (sinceOf s) rf s.cfg.minIdle s.active.length st2 = st2 := by
    unfold ppFinal
    have : (st2.active.length == s.active.length) = false := by rw [hact2]; simp
    simp only [this, Bool.false_and, Bool.false_eq_true, if_false]
  refine ⟨_, freeCoord st1.active st1.nextCoord, rfl, ?_, ?_, ?_⟩
  · show (ppFinal possible layer (sinceOf s) rf s.cfg.minIdle s.active.length st2).active = _
    rw [hfinal]; exact hact2
  · show (if (ppFinal possible layer (sinceOf s) rf s.cfg.minIdle s.active.length st2).active.length > s.active.length
        then ppRetain s.queue (ppFinal possible layer (sinceOf s) rf s.cfg.minIdle s.active.length st2).acc else s.queue) = _
    rw [hfinal, hact2, hacc2]; simp
  · show (ppFinal possible layer (sinceOf s) rf s.cfg.minIdle s.active.length st2).ticksToIgnore = _
    rw [hfinal]; exact htti2

theorem decided_or_not_aux (possible : List ChordV2) (layer : Nat) :
    ∀ (rest pre : List Nat), (∀ r, r <+: pre → r ≠ [] → Undecided possible layer r) →
    (∀ r, r <+: pre ++ rest → r ≠ [] → Undecided possible layer r) ∨
    ∃ acc p rest', pre ++ rest = acc ++ p :: rest' ∧ (∀ r, r <+: acc → r ≠ [] → Undecided possible layer r) ∧
      ¬ Undecided possible layer (acc ++ [p]) := by
  intro rest
  induction rest with
  | nil => intro pre h; left; rw [List.append_nil]; exact h
  | cons a rest ih =>
    intro pre h
    by_cases hd : Undecided possible layer (pre ++ [a])
    · have h' : ∀ r, r <+: pre ++ [a] → r ≠ [] → Undecided possible layer r := by
        intro r hr hne
        rcases List.prefix_concat_iff.mp hr with e | h'
        · rw [e]; exact hd
        · exact h r h' hne
      have e : pre ++ a :: rest = pre ++ [a] ++ rest := by simp
      rw [e]
      exact ih (pre ++ [a]) h'
    · right; exact ⟨pre, a, rest, rfl, h, hd⟩

/-- every press list either stays undecided to its end or has a first decided prefix -/
theorem decided_or_not (possible : List ChordV2) (layer : Nat) (ps : List Nat) :
    (∀ r, r <+: ps → r ≠ [] → Undecided possible layer r) ∨
    ∃ acc p rest, ps = acc ++ p :: rest ∧ (∀ r, r <+: acc → r ≠ [] → Undecided possible layer r) ∧
      ¬ Undecided possible layer (acc ++ [p]) := by
  have := decided_or_not_aux possible layer ps [] (by intro r hr hne; exact absurd (List.prefix_nil.mp hr) hne)
  simpa using this

theorem not_undecided (possible : List ChordV2) (layer : Nat) (q : List Nat) (h : ¬ Undecided possible layer q) :
    Fk possible layer q = [] ∨ ∃ x, Fk possible layer q = [x] ∧ x.keys.all (q.contains ·) = true := by
  by_cases he : Fk possible layer q = []
  · exact Or.inl he
  · right
    unfold Undecided at h
    have : ¬ ∀ x, Fk possible layer q = [x] → x.keys.all (q.contains ·) = false := fun hh => h ⟨he, hh⟩
    have ⟨x, hx⟩ := Classical.not_forall.mp this
    have ⟨hx1, hx2⟩ := Classical.not_imp.mp hx
    exact ⟨x, hx1, by simpa using hx2⟩

/-- the key set of an enabled chord contains every candidate-free extension: once no enabled chord
contains all of `acc ++ [p]`, no longer prefix of the press order is the key set of an enabled chord -/
theorem no_longer_prefix (possible : List ChordV2) (layer : Nat) (acc rest : List Nat) (p : Nat)
    (hF : Fk possible layer (acc ++ [p]) = []) (r : List Nat) (hr : r <+: acc ++ p :: rest)
    (hlen : acc.length < r.length) :
    ¬ ∃ c ∈ possible, enabledOn layer c = true ∧ exactMatch r c = true := by
  rintro ⟨c, hc, hen, hex⟩
  have hpre : acc ++ [p] <+: r := by
    have h1 : acc ++ [p] <+: acc ++ p :: rest := ⟨rest, by simp⟩
    exact List.prefix_of_prefix_length_le h1 hr (by simp; omega)
  have : c ∈ Fk possible layer (acc ++ [p]) := by
    rw [mem_Fk]
    refine ⟨hc, hen, ?_⟩
    simp only [exactMatch, Bool.and_eq_true] at hex
    rw [List.all_eq_true] at hex ⊢
    intro k hk
    exact hex.1 k (hpre.subset hk)
  rw [hF] at this
  cases this

/-- the proper non-empty prefixes of the keys of a chord are undecided -/
theorem undecided_of_chord (possible : List ChordV2) (layer : Nat) (ps : List Nat) (C : ChordV2)
    (hnd : ps.Nodup) (hC : C ∈ possible) (hen : enabledOn layer C = true) (hex : exactMatch ps C = true)
    (r : List Nat) (hr : r <+: ps) (hlt : r.length < ps.length) :
    Undecided possible layer r := by
  have hsub : ps.all (C.keys.contains ·) = true := by
    simp only [exactMatch, Bool.and_eq_true] at hex; exact hex.1
  have hCin : C ∈ Fk possible layer r := by
    rw [mem_Fk]
    refine ⟨hC, hen, ?_⟩
    rw [List.all_eq_true] at hsub ⊢
    intro k hk
    exact hsub k (hr.subset hk)
  refine ⟨List.ne_nil_of_mem hCin, ?_⟩
  intro x hx
  have hxC : C = x := by rw [hx] at hCin; simpa using hCin
  subst hxC
  obtain ⟨t, ht⟩ := hr
  have htne : t ≠ [] := by
    intro h; rw [h, List.append_nil] at ht; rw [ht] at hlt; omega
  obtain ⟨q, hq⟩ := List.exists_mem_of_ne_nil _ htne
  have hqps : q ∈ ps := by rw [← ht]; exact List.mem_append_right _ hq
  have hqC : C.keys.contains q = true := (List.all_eq_true.mp hsub) q hqps
  have hqn : q ∉ r := by
    intro hmem
    rw [← ht] at hnd
    exact (List.nodup_append.mp hnd).2.2 q hmem q hq rfl
  cases hall : C.keys.all (r.contains ·) with
  | false => rfl
  | true =>
    exfalso
    have := (List.all_eq_true.mp hall) q (by simpa using hqC)
    exact hqn (by simpa using this)

end KVerif.C09
