/-
Helper lemmas for C15: a history in which every reload attempt fails is simulated, output for
output, by the same history in the world where the reload actions do nothing.
-/
import KVerif.Lemmas.ReloadLoop
namespace KVerif.Reload
open KVerif.Gen.Reload

variable {W : World}

/-- the three fields on which a run with failing reload requests may differ from a run without
requests -/
def bk : List Field := [.live_reload_requested, .cur_cfg_idx, .ticks_since_idle]

def AgreeOff (a b : KSt W) : Prop := ∀ f, f ∉ bk → a f = b f

/-- The abstract parts of the tick do not read `live_reload_requested`, `cur_cfg_idx` or
`ticks_since_idle` (`Gen.Reload.touchSites`, regenerated from the source, lists every function
that mentions them: all are modelled ones — `write_sites_as_modelled`). -/
structure Blind (W : World) : Prop where
  ksc : ∀ a b : KSt W, AgreeOff a b →
    (∀ f, f ∉ framed → (W.ksc a).1 f = (W.ksc b).1 f) ∧ (W.ksc a).2 = (W.ksc b).2
  late : ∀ a b : KSt W, AgreeOff a b →
    (∀ f, f ∉ framedK → (W.late a).1 f = (W.late b).1 f) ∧ (W.late a).2 = (W.late b).2
  replay : ∀ a b : KSt W, AgreeOff a b →
    (∀ f, f ∉ framedK → (W.replay a).1 f = (W.replay b).1 f) ∧ (W.replay a).2 = (W.replay b).2
  inputEvent : ∀ (a b : KSt W) (e : W.Input), AgreeOff a b →
    (∀ f, f ∉ framedK → (W.inputEvent a e).1 f = (W.inputEvent b e).1 f) ∧
      (W.inputEvent a e).2 = (W.inputEvent b e).2
  coreIdle : ∀ a b : KSt W, AgreeOff a b → W.coreIdle a = W.coreIdle b

/-- `a`: the run with (failing) reload requests; `b`: the run without requests -/
structure Sim (a b : KSt W) : Prop where
  agree : AgreeOff a b
  tsi : (a .waiting_for_idle : List W.OnIdle) ≠ [] → (a .ticks_since_idle : Nat) = b .ticks_since_idle
  breq : b .live_reload_requested = false

theorem Sim.wfi {a b : KSt W} (h : Sim a b) : a .waiting_for_idle = b .waiting_for_idle :=
  h.agree _ (by decide)

theorem Sim.layout {a b : KSt W} (h : Sim a b) : a .layout = b .layout := h.agree _ (by decide)

theorem framed_not_bk {f : Field} (h : f ∉ framed) : f ∉ bk := by
  revert h; cases f <;> decide

theorem framedK_not_bk {f : Field} (h : f ∉ framedK) : f ∉ bk := by
  revert h; cases f <;> decide

/-! ### can_block_update_idle_waiting, handle_input_event -/

theorem pkmni_of_wfi {s : KSt W} (hw : (s .waiting_for_idle : List W.OnIdle) ≠ []) :
    pressedKeysMeanNotIdle s = true := by
  simp only [pressedKeysMeanNotIdle]
  cases hs : (s .waiting_for_idle : List W.OnIdle) with
  | nil => exact absurd hs hw
  | cons _ _ => rfl

theorem sim_isIdle (hB : Blind W) {a b : KSt W} (h : Sim a b)
    (hw : (a .waiting_for_idle : List W.OnIdle) ≠ []) : isIdle a = isIdle b := by
  have hwb : (b .waiting_for_idle : List W.OnIdle) ≠ [] := by rw [← h.wfi]; exact hw
  simp only [isIdle, pkmni_of_wfi hw, pkmni_of_wfi hwb, hB.coreIdle a b h.agree, h.layout]

theorem sim_set_tsi {a b : KSt W} (h : Sim a b) (v : Nat) :
    Sim (a.set .ticks_since_idle v) (b.set .ticks_since_idle v) := by
  refine ⟨?_, ?_, ?_⟩
  · intro f hf
    have hne : f ≠ .ticks_since_idle := by intro e; subst e; simp [bk] at hf
    simp [St.set_other _ _ _ _ hne, h.agree f hf]
  · intro _; simp
  · simpa [St.set] using h.breq

/-- nothing waits for idle: the counter is dead, whatever each side writes into it -/
theorem sim_tsi_dead {a b : KSt W} (h : Sim a b) (hw : (a .waiting_for_idle : List W.OnIdle) = [])
    (a' b' : KSt W) (ha : ∃ x : Nat, a' = a ∨ a' = a.set .ticks_since_idle x)
    (hb : ∃ y : Nat, b' = b ∨ b' = b.set .ticks_since_idle y) : Sim a' b' := by
  obtain ⟨x, ha⟩ := ha
  obtain ⟨y, hb⟩ := hb
  refine ⟨?_, ?_, ?_⟩
  · intro f hf
    have hne : f ≠ .ticks_since_idle := by intro e; subst e; simp [bk] at hf
    rcases ha with rfl | rfl <;> rcases hb with rfl | rfl <;>
      simp [St.set_other _ _ _ _ hne, h.agree f hf]
  · intro hw'
    exfalso; apply hw'
    rcases ha with rfl | rfl
    · exact hw
    · simpa [St.set] using hw
  · rcases hb with rfl | rfl
    · exact h.breq
    · simpa [St.set] using h.breq

theorem canBlockUpdate_shape (m : Nat) (s : KSt W) :
    ∃ x : Nat, (canBlockUpdate m s).1 = s ∨ (canBlockUpdate m s).1 = s.set .ticks_since_idle x := by
  simp only [canBlockUpdate]
  by_cases hi : isIdle s = true
  · by_cases hc : pressedKeysMeanNotIdle s = true
    · exact ⟨satAdd16 (s .ticks_since_idle) m, Or.inr (by simp [hi, hc])⟩
    · exact ⟨0, Or.inl (by simp [hi, hc])⟩
  · exact ⟨0, Or.inr (by simp [hi])⟩

theorem sim_canBlockUpdate (hB : Blind W) (m : Nat) {a b : KSt W} (h : Sim a b) :
    Sim (canBlockUpdate m a).1 (canBlockUpdate m b).1 := by
  by_cases hw : (a .waiting_for_idle : List W.OnIdle) = []
  · exact sim_tsi_dead h hw _ _ (canBlockUpdate_shape m a) (canBlockUpdate_shape m b)
  · have hidle := sim_isIdle hB h hw
    have htsi := h.tsi hw
    have hwb : (b .waiting_for_idle : List W.OnIdle) ≠ [] := by rw [← h.wfi]; exact hw
    simp only [canBlockUpdate, pkmni_of_wfi hw, pkmni_of_wfi hwb, ← hidle]
    cases hi : isIdle a with
    | false => simpa using sim_set_tsi h 0
    | true =>
      simp
      rw [← htsi]
      exact sim_set_tsi h _

theorem sim_frameK (a b na nb : KSt W) (h : Sim a b)
    (hn : ∀ f, f ∉ framedK → na f = nb f) : Sim (frameK a na) (frameK b nb) := by
  refine ⟨?_, ?_, ?_⟩
  · intro f hf
    by_cases hk : f ∈ framedK
    · simp [frameK, hk, h.agree f hf]
    · simp [frameK, hk, hn f hk]
  · intro hw
    have e1 : (frameK a na) .waiting_for_idle = a .waiting_for_idle := by simp [frameK, framedK, framed]
    have e2 : (frameK a na) .ticks_since_idle = a .ticks_since_idle := by simp [frameK, framedK, framed]
    have e3 : (frameK b nb) .ticks_since_idle = b .ticks_since_idle := by simp [frameK, framedK, framed]
    rw [e2, e3]; exact h.tsi (by rw [← e1]; exact hw)
  · have : (frameK b nb) .live_reload_requested = b .live_reload_requested := by
      simp [frameK, framedK, framed]
    rw [this]; exact h.breq

theorem sim_frame (a b na nb : KSt W) (h : Sim a b)
    (hn : ∀ f, f ∉ framed → na f = nb f) : Sim (frame a na) (frame b nb) := by
  refine ⟨?_, ?_, ?_⟩
  · intro f hf
    by_cases hk : f ∈ framed
    · simp [frame, hk, h.agree f hf]
    · simp [frame, hk, hn f hk]
  · intro hw
    have e1 : (frame a na) .waiting_for_idle = a .waiting_for_idle := by simp [frame, framed]
    have e2 : (frame a na) .ticks_since_idle = a .ticks_since_idle := by simp [frame, framed]
    have e3 : (frame b nb) .ticks_since_idle = b .ticks_since_idle := by simp [frame, framed]
    rw [e2, e3]; exact h.tsi (by rw [← e1]; exact hw)
  · have : (frame b nb) .live_reload_requested = b .live_reload_requested := by simp [frame, framed]
    rw [this]; exact h.breq

theorem sim_handleInput (hB : Blind W) (e : W.Input) {a b : KSt W} (h : Sim a b) :
    Sim (handleInput a e).1 (handleInput b e).1 ∧ (handleInput a e).2 = (handleInput b e).2 := by
  have h0 := sim_set_tsi h 0
  have hb := hB.inputEvent _ _ e h0.agree
  exact ⟨sim_frameK _ _ _ _ h0 hb.1, hb.2⟩

/-! ### tick_states -/

/-- the run with requests executes all actions, the run without requests skips the reload ones -/
theorem sim_applyActs {a b : KSt W} (h : Sim a b) (acts : List (KAct W.toTypes)) (a' : KSt W)
    (ha : applyActs a acts = .ok a') :
    ∃ b' : KSt W, applyActs b (selActs true acts) = .ok b' ∧ Sim a' b' := by
  induction acts generalizing a b with
  | nil => simp [applyActs] at ha; subst ha; exact ⟨b, rfl, h⟩
  | cons x rest ih =>
    simp only [applyActs] at ha
    split at ha
    · simp at ha
    · rename_i a1 h1
      cases x with
      | reload r =>
        have hs : Sim a1 b := by
          simp only [applyAct] at h1
          split at h1
          · simp at h1
          · rename_i i req _
            simp at h1; subst h1
            refine ⟨?_, ?_, h.breq⟩
            · intro f hf
              have n1 : f ≠ .cur_cfg_idx := by intro e; subst e; simp [bk] at hf
              have n2 : f ≠ .live_reload_requested := by intro e; subst e; simp [bk] at hf
              cases req <;> simp [St.set_other _ _ _ _ n1, St.set_other _ _ _ _ n2, h.agree f hf]
            · intro hw
              have : (a .waiting_for_idle : List W.OnIdle) ≠ [] := by
                cases req <;> simpa [St.set] using hw
              cases req <;> simpa [St.set] using h.tsi this
        obtain ⟨b', hb', hs'⟩ := ih hs ha
        exact ⟨b', by simpa [selActs, KAct.isReload] using hb', hs'⟩
      | onIdle w =>
        have hs : Sim a1 ((b.set .ticks_since_idle (0 : Nat)).set .waiting_for_idle
            (W.insertIdle (b .waiting_for_idle) w)) := by
          simp only [applyAct] at h1
          simp at h1; subst h1
          refine ⟨?_, ?_, ?_⟩
          · intro f hf
            have n1 : f ≠ .ticks_since_idle := by intro e; subst e; simp [bk] at hf
            by_cases n2 : f = .waiting_for_idle
            · subst n2; simp [h.wfi]
            · simp [St.set_other _ _ _ _ n1, St.set_other _ _ _ _ n2, h.agree f hf]
          · intro _; simp [St.set]
          · simpa [St.set] using h.breq
        obtain ⟨b', hb', hs'⟩ := ih hs ha
        refine ⟨b', ?_, hs'⟩
        have : selActs true (KAct.onIdle w :: rest) = KAct.onIdle w :: selActs true rest := by
          simp [selActs, KAct.isReload]
        rw [this]
        simp only [applyActs, applyAct]
        exact hb'

theorem sim_tickIdleTimeout {a b : KSt W} (h : Sim a b) :
    Sim (tickIdleTimeout a) (tickIdleTimeout b) := by
  have hw := h.wfi
  unfold tickIdleTimeout
  rw [← hw]
  cases hwa : (a .waiting_for_idle : List W.OnIdle) with
  | nil => exact h
  | cons x xs =>
    have htsi := h.tsi (by rw [hwa]; simp)
    simp only
    rw [← htsi, ← h.layout]
    refine ⟨?_, ?_, ?_⟩
    · intro f hf
      by_cases n1 : f = .waiting_for_idle
      · subst n1; simp
      · by_cases n2 : f = .layout
        · subst n2; simp [St.set_other]
        · simp [St.set_other _ _ _ _ n1, St.set_other _ _ _ _ n2, h.agree f hf]
    · intro _; simpa [St.set] using htsi
    · simpa [St.set] using h.breq

theorem sim_set_macro {a b : KSt W} (h : Sim a b) :
    Sim (a.set .macro_on_press_cancel_duration ((a .macro_on_press_cancel_duration : Nat) - 1))
      (b.set .macro_on_press_cancel_duration ((b .macro_on_press_cancel_duration : Nat) - 1)) := by
  have hm : a .macro_on_press_cancel_duration = b .macro_on_press_cancel_duration := h.agree _ (by decide)
  refine ⟨?_, ?_, ?_⟩
  · intro f hf
    by_cases n : f = .macro_on_press_cancel_duration
    · subst n; simp [hm]
    · simp [St.set_other _ _ _ _ n, h.agree f hf]
  · intro hw; simpa [St.set] using h.tsi (by simpa [St.set] using hw)
  · simpa [St.set] using h.breq

theorem sim_keys {a b : KSt W} (h : Sim a b) :
    Sim ((a.set .prev_keys (a .cur_keys)).set .cur_keys ([] : List Nat))
      ((b.set .prev_keys (b .cur_keys)).set .cur_keys ([] : List Nat)) := by
  have hc : a .cur_keys = b .cur_keys := h.agree _ (by decide)
  refine ⟨?_, ?_, ?_⟩
  · intro f hf
    by_cases n1 : f = .cur_keys
    · subst n1; simp
    · by_cases n2 : f = .prev_keys
      · subst n2; simp [St.set_other, hc]
      · simp [St.set_other _ _ _ _ n1, St.set_other _ _ _ _ n2, h.agree f hf]
  · intro hw; simpa [St.set] using h.tsi (by simpa [St.set] using hw)
  · simpa [St.set] using h.breq

theorem sim_tickStates (hB : Blind W) {a b : KSt W} (h : Sim a b) (a' : KSt W) (os : List W.Os)
    (ha : tickStatesG false a = .ok (a', os)) :
    ∃ b' : KSt W, tickStatesG true b = .ok (b', os) ∧ Sim a' b' := by
  unfold tickStatesG at ha
  simp only [selActs] at ha
  split at ha
  · simp at ha
  · rename_i a2 h2
    simp at ha
    obtain ⟨rfl, rfl⟩ := ha
    have hk := hB.ksc a b h.agree
    have s1 := sim_frame a b (W.ksc a).1 (W.ksc b).1 h hk.1
    obtain ⟨b2, hb2, s2⟩ := sim_applyActs s1 _ a2 h2
    have s3 := sim_tickIdleTimeout s2
    have s4 := sim_set_macro s3
    have hl := hB.late _ _ s4.agree
    have s5 := sim_frameK _ _ _ _ s4 hl.1
    have s6 := sim_keys s5
    refine ⟨_, ?_, s6⟩
    unfold tickStatesG
    simp only
    rw [← hk.2, hb2]
    simp only
    rw [hl.2]

/-! ### tick_ms, check_handle_layer_change -/

theorem sim_replay (hB : Blind W) {a b : KSt W} (h : Sim a b) :
    Sim (frameK a (W.replay a).1) (frameK b (W.replay b).1) ∧ (W.replay a).2 = (W.replay b).2 := by
  have hr := hB.replay a b h.agree
  exact ⟨sim_frameK _ _ _ _ h hr.1, hr.2⟩

theorem sim_tickLoop1 (hB : Blind W) (n : Nat) {a b : KSt W} (h : Sim a b) (extra : Nat) (os : List W.Os)
    (a' : KSt W) (e' : Nat) (os' : List W.Os)
    (ha : tickLoop1G false n a extra os = .ok (a', e', os')) :
    ∃ b' : KSt W, tickLoop1G true n b extra os = .ok (b', e', os') ∧ Sim a' b' := by
  induction n generalizing a b extra os with
  | zero => simp [tickLoop1G] at ha; obtain ⟨rfl, rfl, rfl⟩ := ha; exact ⟨b, rfl, h⟩
  | succ n ih =>
    simp only [tickLoop1G] at ha
    split at ha
    · simp at ha
    · rename_i a1 o1 h1
      obtain ⟨b1, hb1, s1⟩ := sim_tickStates hB h a1 o1 h1
      obtain ⟨s2, he⟩ := sim_replay hB s1
      obtain ⟨b', hb', s'⟩ := ih s2 _ _ ha
      refine ⟨b', ?_, s'⟩
      simp only [tickLoop1G, hb1]
      rw [← he]; exact hb'

theorem sim_tickLoop2 (hB : Blind W) (n : Nat) {a b : KSt W} (h : Sim a b) (os : List W.Os)
    (a' : KSt W) (os' : List W.Os)
    (ha : tickLoop2G false n a os = .ok (a', os')) :
    ∃ b' : KSt W, tickLoop2G true n b os = .ok (b', os') ∧ Sim a' b' := by
  induction n generalizing a b os with
  | zero => simp [tickLoop2G] at ha; obtain ⟨rfl, rfl⟩ := ha; exact ⟨b, rfl, h⟩
  | succ n ih =>
    simp only [tickLoop2G] at ha
    split at ha
    · simp at ha
    · rename_i a1 o1 h1
      obtain ⟨b1, hb1, s1⟩ := sim_tickStates hB h a1 o1 h1
      obtain ⟨s2, he⟩ := sim_replay hB s1
      cases hr : (W.replay a1).2 with
      | some d =>
        simp only [hr] at ha
        simp at ha
        obtain ⟨rfl, rfl⟩ := ha
        refine ⟨_, ?_, s2⟩
        simp only [tickLoop2G, hb1]
        rw [← he, hr]
      | none =>
        simp only [hr] at ha
        obtain ⟨b', hb', s'⟩ := ih s2 _ ha
        refine ⟨b', ?_, s'⟩
        simp only [tickLoop2G, hb1]
        rw [← he, hr]; exact hb'

theorem sim_tickMs (hB : Blind W) (ms : Nat) {a b : KSt W} (h : Sim a b) (a' : KSt W) (os : List W.Os)
    (ha : tickMsG false ms a = .ok (a', os)) :
    ∃ b' : KSt W, tickMsG true ms b = .ok (b', os) ∧ Sim a' b' := by
  unfold tickMsG at ha
  split at ha
  · simp at ha
  · rename_i a1 extra o1 h1
    obtain ⟨b1, hb1, s1⟩ := sim_tickLoop1 hB ms h 0 [] a1 extra o1 h1
    obtain ⟨b', hb', s'⟩ := sim_tickLoop2 hB _ s1 o1 a' os ha
    refine ⟨b', ?_, s'⟩
    unfold tickMsG
    simp only [hb1]
    exact hb'

theorem sim_checkLayerChange (tx : Bool) {a b : KSt W} (h : Sim a b) (a' : KSt W) (m : List Msg)
    (ha : checkLayerChange tx a = .ok (a', m)) :
    ∃ b' : KSt W, checkLayerChange tx b = .ok (b', m) ∧ Sim a' b' := by
  have hl := h.layout
  have hp : a .prev_layer = b .prev_layer := h.agree _ (by decide)
  have hi : a .layer_info = b .layer_info := h.agree _ (by decide)
  unfold checkLayerChange at ha ⊢
  simp only at ha ⊢
  rw [← hl, ← hp, ← hi]
  split at ha
  · rename_i hne
    rw [if_pos hne]
    split at ha
    · simp at ha
    · rename_i name hn
      simp at ha
      obtain ⟨rfl, rfl⟩ := ha
      refine ⟨b.set .prev_layer (W.currentLayer (a .layout)), by simp [hn], ?_⟩
      refine ⟨?_, ?_, ?_⟩
      · intro f hf
        by_cases n : f = .prev_layer
        · subst n; simp
        · simp [St.set_other _ _ _ _ n, h.agree f hf]
      · intro hw; simpa [St.set] using h.tsi (by simpa [St.set] using hw)
      · simpa [St.set] using h.breq
  · rename_i heq
    rw [if_neg heq]
    simp at ha
    obtain ⟨rfl, rfl⟩ := ha
    exact ⟨b, rfl, h⟩

/-! ### handle_time_ticks, the loop, a whole history -/

/-- a file that cannot be loaded: `do_live_reload` gives the state back untouched -/
theorem doLiveReload_fail (env : Env W.toTypes) (s : KSt W) (p : Nat)
    (hp : (s .cfg_paths : List Nat)[(s .cur_cfg_idx : Nat)]? = some p)
    (hfail : newFromFile env p = none) :
    doLiveReload env s = .ok ⟨s, [], false⟩ := by
  unfold doLiveReload doLiveReloadWith
  have hs : reloadSteps = .parse :: reloadSteps.tail := by decide
  rw [hs]
  simp [hp, hfail]

theorem sim_handleTimeTicks (hB : Blind W) (env : Env W.toTypes) (ms : Nat) {a b : KSt W} (h : Sim a b)
    (hfail : ∀ p ∈ (a .cfg_paths : List Nat), newFromFile env p = none)
    (ra : HRes W.toTypes) (ha : handleTimeTicksG false env ms a = .ok ra) :
    ∃ rb : HRes W.toTypes, handleTimeTicksG true env ms b = .ok rb ∧ rb.os = ra.os ∧ rb.msgs = ra.msgs ∧
      rb.attempt = none ∧ Sim ra.st rb.st ∧ ra.st .cfg_paths = a .cfg_paths := by
  unfold handleTimeTicksG handleTimeTicksWithG at ha ⊢
  split at ha
  · simp at ha
  · rename_i a1 os h1
    obtain ⟨b1, hb1, s1⟩ := sim_tickMs hB ms h a1 os h1
    have p1 := (tickMs_rel false ms a a1 os h1).1.paths
    split at ha
    · simp at ha
    · rename_i a2 m1 h2
      obtain ⟨b2, hb2, s2⟩ := sim_checkLayerChange env.tx s1 a2 m1 h2
      have p2 : a2 .cfg_paths = a .cfg_paths := by
        rw [checkLayerChange_frame _ _ _ _ h2 .cfg_paths (by decide)]; exact p1
      have hbdue : reloadDue b2 = false := by simp [reloadDue, s2.breq]
      simp only [hb1, hb2, hbdue]
      split at ha
      · -- the run with requests attempts a reload; every file fails
        rename_i hdue
        split at ha
        · simp at ha
        · rename_i rr hrr
          simp at ha; subst ha
          have hpaths : (a2.set .live_reload_requested false) .cfg_paths = a2 .cfg_paths := by simp [St.set]
          cases hidx : ((a2.set .live_reload_requested false) .cfg_paths : List Nat)[
              ((a2.set .live_reload_requested false) .cur_cfg_idx : Nat)]? with
          | none =>
            exfalso
            unfold doLiveReload doLiveReloadWith at hrr
            have hs : reloadSteps = .parse :: reloadSteps.tail := by decide
            rw [hs] at hrr
            simp [hidx] at hrr
          | some p =>
            have hmem : p ∈ (a .cfg_paths : List Nat) := by
              rw [← p2, ← hpaths]; exact List.mem_of_getElem? hidx
            rw [doLiveReload_fail env _ p hidx (hfail p hmem)] at hrr
            simp at hrr; subst hrr
            refine ⟨⟨b2, os, m1, none⟩, by simp, rfl, by simp, rfl, ?_, ?_⟩
            · refine ⟨?_, ?_, s2.breq⟩
              · intro f hf
                have n : f ≠ .live_reload_requested := by intro e; subst e; simp [bk] at hf
                simp [St.set_other _ _ _ _ n, s2.agree f hf]
              · intro hw; simpa [St.set] using s2.tsi (by simpa [St.set] using hw)
            · simp [St.set, p2]
      · simp at ha; subst ha
        exact ⟨⟨b2, os, m1, none⟩, by simp, rfl, rfl, rfl, s2, p2⟩

theorem canBlockUpdate_paths (m : Nat) (s : KSt W) : (canBlockUpdate m s).1 .cfg_paths = s .cfg_paths := by
  obtain ⟨x, h | h⟩ := canBlockUpdate_shape m s <;> rw [h]
  simp [St.set]

theorem handleInput_paths (s : KSt W) (e : W.Input) : (handleInput s e).1 .cfg_paths = s .cfg_paths := by
  simp [handleInput, frameK, framedK, framed, St.set]

theorem sim_loopIterNB (hB : Blind W) (env : Env W.toTypes) (inp : Option W.Input) (ms msPrev : Nat)
    {a b : KSt W} (h : Sim a b)
    (hfail : ∀ p ∈ (a .cfg_paths : List Nat), newFromFile env p = none)
    (ra : IterRes W.toTypes) (ha : loopIterNB false env inp ms msPrev a = .ok ra) :
    ∃ rb : IterRes W.toTypes, loopIterNB true env inp ms msPrev b = .ok rb ∧ rb.os = ra.os ∧ rb.msgs = ra.msgs ∧
      rb.msNext = ra.msNext ∧ Sim ra.st rb.st ∧ ra.st .cfg_paths = a .cfg_paths := by
  unfold loopIterNB at ha ⊢
  simp only at ha ⊢
  have s0 := sim_canBlockUpdate hB msPrev h
  have p0 := canBlockUpdate_paths msPrev a
  cases inp with
  | none =>
    simp only at ha ⊢
    split at ha
    · simp at ha
    · rename_i hr hh
      simp at ha; subst ha
      obtain ⟨rb, hrb, e1, e2, _, s', p'⟩ := sim_handleTimeTicks hB env ms s0 (by rw [p0]; exact hfail) hr hh
      rw [hrb]
      simp only
      exact ⟨_, rfl, by simp [e1], e2, rfl, s', by rw [p', p0]⟩
  | some e =>
    simp only at ha ⊢
    obtain ⟨s1, eo⟩ := sim_handleInput hB e s0
    have p1 := handleInput_paths (canBlockUpdate msPrev a).1 e
    split at ha
    · simp at ha
    · rename_i hr hh
      simp at ha; subst ha
      obtain ⟨rb, hrb, e1, e2, _, s', p'⟩ :=
        sim_handleTimeTicks hB env ms s1 (by rw [p1, p0]; exact hfail) hr hh
      rw [hrb]
      simp only
      exact ⟨_, rfl, by simp [e1, eo], e2, rfl, s', by rw [p', p1, p0]⟩

theorem sim_runNB (hB : Blind W) (script : List (Tick W.toTypes)) (msPrev : Nat) {a b : KSt W} (h : Sim a b)
    (hfail : ∀ t ∈ script, ∀ p ∈ (a .cfg_paths : List Nat), newFromFile t.env p = none)
    (a' : KSt W) (out : List (List W.Os × List Msg))
    (ha : runNB false script msPrev a = .ok (a', out)) :
    ∃ b' : KSt W, runNB true script msPrev b = .ok (b', out) ∧ Sim a' b' := by
  induction script generalizing a b msPrev out with
  | nil => simp [runNB] at ha; obtain ⟨rfl, rfl⟩ := ha; exact ⟨b, rfl, h⟩
  | cons t rest ih =>
    simp only [runNB] at ha
    split at ha
    · simp at ha
    · rename_i ra hra
      obtain ⟨rb, hrb, e1, e2, e3, s', p'⟩ :=
        sim_loopIterNB hB t.env t.inp t.ms msPrev h (hfail t (by simp)) ra hra
      split at ha
      · simp at ha
      · rename_i a'' out' hrest
        simp at ha
        obtain ⟨rfl, rfl⟩ := ha
        obtain ⟨b', hb', sb⟩ := ih ra.msNext s'
          (fun t' ht' p hp => hfail t' (by simp [ht']) p (by rw [← p']; exact hp)) out' hrest
        refine ⟨b', ?_, sb⟩
        simp only [runNB, hrb, e3, hb', e1, e2]

end KVerif.Reload
