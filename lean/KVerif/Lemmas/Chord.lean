/-
C09 helper lemmas: the chord-v1 waiting state (`WaitingState::handle_chord`): the queue scan
(`chordFold`), the final `retain` (`chordRetain`) and the mask accumulation, for all queues.
-/
import KVerif.Model.Layout
namespace KVerif.C09
open KVerif.L

/-! ## Classification of a queued event relative to a pending chord -/

/-- the event arrived more than the timeout after the chord's first key (the `delay − since >
timeout` rule): it is ignored by the scan and stays in the queue -/
def skipped (w : Waiting) (s : Queued) : Bool := decide (w.delay - s.since > w.timeout)

/-- key mask of the event's coordinate in the group (0 if it is not a chord key) -/
def maskOf (g : ChordsGroup) (s : Queued) : Nat := (g.getKeys s.ev.coord).getD 0

/-- a press of a key of the group, inside the window: it takes part in the chord -/
def chordPress (w : Waiting) (g : ChordsGroup) (s : Queued) : Bool :=
  !skipped w s && s.ev.isPress && (g.getKeys s.ev.coord).isSome

/-- an event that ends chording: the release of a key of the group, or the press of another key -/
def stops (w : Waiting) (g : ChordsGroup) (s : Queued) : Bool :=
  !skipped w s && (if (g.getKeys s.ev.coord).isSome then !s.ev.isPress else s.ev.isPress)

/-- the coordinate `handle_chord` moves the chord to when a stop event is a chord-key release -/
def releasedBy (g : ChordsGroup) : List Queued → Option Coord
  | s :: _ => if (g.getKeys s.ev.coord).isSome then some s.ev.coord else none
  | [] => none

/-- masks accumulated left to right, as the `try_fold` does -/
def accMask (g : ChordsGroup) (a : Nat) (l : List Queued) : Nat := l.foldl (fun a s => a ||| maskOf g s) a

theorem chordPress_not_stops {w g s} (h : chordPress w g s = true) : stops w g s = false := by
  simp only [chordPress, Bool.and_eq_true, Bool.not_eq_true'] at h
  simp [stops, h.1.1, h.1.2, h.2]

/-! ## `chordFold` -/

theorem chordFold_benign (w : Waiting) (g : ChordsGroup) (pre rest : List Queued) :
    ∀ st : ChordFold, (∀ s ∈ pre, stops w g s = false) →
    chordFold w g st (pre ++ rest) =
      chordFold w g ⟨accMask g st.active (pre.filter (chordPress w g)),
                     st.handled + (pre.filter (chordPress w g)).length, st.released⟩ rest := by
  induction pre with
  | nil => intro st _; rfl
  | cons s pre ih =>
    intro st h
    have hs := h s (by simp)
    have ih' := fun st => ih st (fun x hx => h x (by simp [hx]))
    simp only [List.cons_append, chordFold]
    by_cases hsk : w.delay - s.since > w.timeout
    · have : chordPress w g s = false := by simp [chordPress, skipped, hsk]
      simp only [hsk, if_true, List.filter_cons, this, Bool.false_eq_true, if_false]
      exact ih' st
    · simp only [hsk, if_false]
      have hsk' : skipped w s = false := by simp [skipped, hsk]
      cases hk : g.getKeys s.ev.coord with
      | none =>
        have hcp : chordPress w g s = false := by simp [chordPress, hk]
        have hp : s.ev.isPress = false := by simpa [stops, hsk', hk] using hs
        simp only [hp, Bool.false_eq_true, if_false, List.filter_cons, hcp]
        exact ih' st
      | some ck =>
        have hp : s.ev.isPress = true := by simpa [stops, hsk', hk] using hs
        have hcp : chordPress w g s = true := by simp [chordPress, hsk', hk, hp]
        cases he : s.ev with
        | release c => simp [he, Ev.isPress] at hp
        | press c =>
          simp only [List.filter_cons, hcp, if_true, List.length_cons]
          rw [ih']
          simp only [accMask, List.foldl_cons, maskOf, he, Ev.coord] 
          simp only [he, Ev.coord] at hk
          simp only [hk, Option.getD_some]
          congr 2
          omega

theorem chordFold_stop (w : Waiting) (g : ChordsGroup) (s : Queued) (rest : List Queued) (st : ChordFold)
    (h : stops w g s = true) :
    chordFold w g st (s :: rest) =
      (⟨st.active, st.handled, match releasedBy g (s :: rest) with | some c => some c | none => st.released⟩, false) := by
  simp only [stops, Bool.and_eq_true, Bool.not_eq_true', skipped, decide_eq_false_iff_not] at h
  simp only [chordFold, h.1, if_false, releasedBy]
  cases hk : g.getKeys s.ev.coord with
  | none =>
    have hp : s.ev.isPress = true := by simpa [hk] using h.2
    simp [hp]
  | some ck =>
    have hp : s.ev.isPress = false := by simpa [hk] using h.2
    cases he : s.ev with
    | press c => simp [he, Ev.isPress] at hp
    | release c => simp [Ev.coord]

/-! ## `chordRetain` -/

theorem chordRetain_zero (w : Waiting) (g : ChordsGroup) (q : List Queued) : chordRetain w g 0 q = (q, []) := by
  induction q with
  | nil => rfl
  | cons s q ih =>
    simp only [chordRetain, ih, Nat.lt_irrefl, decide_false, Bool.and_false, Bool.false_eq_true, if_false, ite_self]

/-- the `retain` with the counter at (number of participating presses in `pre`) + `h` removes
exactly those presses from `pre`, reports their coordinates in order, and goes on with `h` -/
theorem chordRetain_prefix (w : Waiting) (g : ChordsGroup) (pre rest : List Queued) (h : Nat) :
    chordRetain w g ((pre.filter (chordPress w g)).length + h) (pre ++ rest) =
      (pre.filter (fun s => !chordPress w g s) ++ (chordRetain w g h rest).1,
       (pre.filter (chordPress w g)).map (·.ev.coord) ++ (chordRetain w g h rest).2) := by
  induction pre with
  | nil => simp
  | cons s pre ih =>
    simp only [List.cons_append, chordRetain]
    by_cases hsk : w.delay - s.since > w.timeout
    · have : chordPress w g s = false := by simp [chordPress, skipped, hsk]
      simp only [hsk, if_true, List.filter_cons, this, Bool.false_eq_true, if_false, Bool.not_false, ih]
      rfl
    · have hsk' : skipped w s = false := by simp [skipped, hsk]
      simp only [hsk, if_false]
      by_cases hcp : chordPress w g s = true
      · have h1 : (s.ev.isPress && (g.getKeys s.ev.coord).isSome) = true := by
          simpa [chordPress, hsk'] using hcp
        have hf : (s :: pre).filter (chordPress w g) = s :: pre.filter (chordPress w g) := by
          simp [List.filter_cons, hcp]
        have hf' : (s :: pre).filter (fun s => !chordPress w g s) = pre.filter (fun s => !chordPress w g s) := by
          simp [List.filter_cons, hcp]
        rw [hf, hf']
        have h2 : (s :: List.filter (chordPress w g) pre).length + h > 0 := by
          simp only [List.length_cons]; omega
        have h3 : (s :: List.filter (chordPress w g) pre).length + h - 1 =
            (List.filter (chordPress w g) pre).length + h := by
          simp only [List.length_cons]; omega
        simp only [h1, h2, decide_true, Bool.and_self, if_true, h3, ih, List.map_cons, List.cons_append]
      · have hcp' : chordPress w g s = false := by simpa using hcp
        have h1 : (s.ev.isPress && (g.getKeys s.ev.coord).isSome) = false := by
          simpa [chordPress, hsk'] using hcp'
        have hf : (s :: pre).filter (chordPress w g) = pre.filter (chordPress w g) := by
          simp [List.filter_cons, hcp']
        have hf' : (s :: pre).filter (fun s => !chordPress w g s) = s :: pre.filter (fun s => !chordPress w g s) := by
          simp [List.filter_cons, hcp']
        rw [hf, hf']
        simp only [h1, Bool.false_and, Bool.false_eq_true, if_false, ih, List.cons_append]

/-! ## Splitting a queue at the first stop event -/

/-- events before the first stop event -/
def scanPre (w : Waiting) (g : ChordsGroup) (q : List Queued) : List Queued := q.takeWhile (fun s => !stops w g s)
/-- the first stop event and everything after it -/
def scanRest (w : Waiting) (g : ChordsGroup) (q : List Queued) : List Queued := q.dropWhile (fun s => !stops w g s)

theorem scan_append (w : Waiting) (g : ChordsGroup) (q : List Queued) : scanPre w g q ++ scanRest w g q = q :=
  List.takeWhile_append_dropWhile

theorem scanPre_benign (w : Waiting) (g : ChordsGroup) (q : List Queued) : ∀ s ∈ scanPre w g q, stops w g s = false := by
  unfold scanPre
  induction q with
  | nil => intro s hs; cases hs
  | cons x q ih =>
    intro s hs
    simp only [List.takeWhile_cons] at hs
    split at hs
    · rename_i hx
      rcases List.mem_cons.mp hs with rfl | h
      · simpa using hx
      · exact ih s h
    · cases hs

theorem scanRest_head (w : Waiting) (g : ChordsGroup) (q : List Queued) :
    scanRest w g q = [] ∨ ∃ s post, scanRest w g q = s :: post ∧ stops w g s = true := by
  unfold scanRest
  cases h : q.dropWhile (fun s => !stops w g s) with
  | nil => exact Or.inl rfl
  | cons s post =>
    right
    refine ⟨s, post, rfl, ?_⟩
    have := List.head_dropWhile_not (fun s => !stops w g s) (l := q) (by simp [h])
    simpa [h] using this

/-- the participating presses of a queue: presses of keys of the group, inside the window, before
the first stop event -/
def participants (w : Waiting) (g : ChordsGroup) (q : List Queued) : List Queued :=
  (scanPre w g q).filter (chordPress w g)

/-- what stays in the queue when the chord is decided -/
def keptQueue (w : Waiting) (g : ChordsGroup) (q : List Queued) : List Queued :=
  (scanPre w g q).filter (fun s => !chordPress w g s) ++ scanRest w g q

/-- closed form of the scan of `handle_chord`, for every queue -/
theorem chordFold_closed (w : Waiting) (g : ChordsGroup) (q : List Queued) (a0 : Nat) :
    chordFold w g ⟨a0, 0, none⟩ q =
      (⟨accMask g a0 (participants w g q), (participants w g q).length, releasedBy g (scanRest w g q)⟩,
       (scanRest w g q).isEmpty) := by
  conv => lhs; rw [← scan_append w g q]
  rw [chordFold_benign w g _ _ _ (scanPre_benign w g q)]
  rcases scanRest_head w g q with h | ⟨s, post, h, hs⟩
  · simp [h, chordFold, participants, releasedBy]
  · rw [h, chordFold_stop w g s post _ hs]
    simp only [participants, Nat.zero_add, List.isEmpty_cons]
    congr 2
    cases releasedBy g (s :: post) <;> rfl

/-- closed form of the final `retain`: exactly the participating presses leave the queue, their
coordinates are reported in queue order, everything else stays in its original order -/
theorem chordRetain_closed (w : Waiting) (g : ChordsGroup) (q : List Queued) :
    chordRetain w g (participants w g q).length q =
      (keptQueue w g q, (participants w g q).map (·.ev.coord)) := by
  have := chordRetain_prefix w g (scanPre w g q) (scanRest w g q) 0
  simp only [Nat.add_zero, chordRetain_zero, List.append_nil, scan_append] at this
  exact this

/-! ## `handleChord` -/

theorem chordRetain_congr (w w' : Waiting) (g : ChordsGroup) (hd : w.delay = w'.delay) (ht : w.timeout = w'.timeout) :
    ∀ (h : Nat) (q : List Queued), chordRetain w g h q = chordRetain w' g h q := by
  intro h q
  induction q generalizing h with
  | nil => rfl
  | cons s q ih => simp only [chordRetain, hd, ht, ih]

/-- the OR of the first key's mask and the masks of the participating presses -/
def chordActive (w : Waiting) (g : ChordsGroup) (q : List Queued) : Nat :=
  accMask g ((g.getKeys w.coord).getD 0) (participants w g q)

/-- the pressed queue handed to `waiting_into_tap`: the first key, then the participating presses
in queue order (an `ArrayDeque` of 32: further pushes are refused) -/
def pressedQueue (w : Waiting) (g : ChordsGroup) (q : List Queued) : List Coord :=
  (w.coord :: (participants w g q).map (·.ev.coord)).take QUEUE_SIZE

def moveTo (w : Waiting) : Option Coord → Waiting
  | some c => { w with coord := c }
  | none => w

def fastPath (w : Waiting) (q : List Queued) : Bool := q.length % 256 == w.prevQueueLen && w.timeout - w.delay > 0

/-- **closed form of `handle_chord`**, for every waiting state, group, queue and action queue -/
theorem handleChord_closed (w : Waiting) (g : ChordsGroup) (q : List Queued) (aq : ActionQueue) :
    handleChord w g q aq =
      if fastPath w q then (w, q, aq, none) else
      if (scanRest w g q).isEmpty && !(w.timeout - w.delay == 0) then
        match g.getChordIfUnambiguous (chordActive w g q) with
        | some a => ({ w with prevQueueLen := q.length % 256 }, keptQueue w g q, aq, some (.tap, a, pressedQueue w g q))
        | none => ({ w with prevQueueLen := q.length % 256 }, q, aq, none)
      else
        match g.getChord (chordActive w g q) with
        | some a => (moveTo { w with prevQueueLen := q.length % 256 } (releasedBy g (scanRest w g q)), keptQueue w g q, aq,
                     some (.tap, a, pressedQueue w g q))
        | none => ({ w with prevQueueLen := q.length % 256 }, keptQueue w g q,
                   decomposeChord { w with prevQueueLen := q.length % 256 } g q aq,
                   some (.noOp, .noOp, pressedQueue w g q)) := by
  unfold handleChord fastPath
  split
  · rfl
  · have hf := chordFold_closed { w with prevQueueLen := q.length % 256 } g q ((g.getKeys w.coord).getD 0)
    have hp : participants { w with prevQueueLen := q.length % 256 } g q = participants w g q := rfl
    have hr : scanRest { w with prevQueueLen := q.length % 256 } g q = scanRest w g q := rfl
    rw [hp, hr] at hf
    simp only [hf]
    have hret : ∀ w', w'.delay = w.delay → w'.timeout = w.timeout →
        chordRetain w' g (participants w g q).length q = (keptQueue w g q, (participants w g q).map (·.ev.coord)) := by
      intro w' h1 h2
      rw [chordRetain_congr w' w g h1 h2, chordRetain_closed]
    split
    · rename_i hok
      have hre : releasedBy g (scanRest w g q) = none := by
        have : scanRest w g q = [] := by
          simp only [Bool.and_eq_true] at hok
          exact List.isEmpty_iff.mp hok.1
        rw [this]; rfl
      split
      · rename_i a ha
        simp only [chordActive, ha, hre, pressedQueue]
        rw [hret { w with prevQueueLen := q.length % 256 } rfl rfl]
      · rename_i ha
        simp only [chordActive, ha]
    · split
      · rename_i a ha
        simp only [chordActive, ha]
        cases hre : releasedBy g (scanRest w g q) with
        | none => simp only [pressedQueue, moveTo]; rw [hret { w with prevQueueLen := q.length % 256 } rfl rfl]
        | some c => simp only [pressedQueue, moveTo]; rw [hret { w with coord := c, prevQueueLen := q.length % 256 } rfl rfl]
      · rename_i ha
        simp only [chordActive, ha, pressedQueue]
        rw [hret { w with prevQueueLen := q.length % 256 } rfl rfl]

/-! ## Masks: the accumulated OR does not depend on the order -/

theorem foldl_or (l : List Nat) : ∀ a : Nat, l.foldl (· ||| ·) a = a ||| orMasks l := by
  unfold orMasks
  induction l with
  | nil => intro a; simp
  | cons x l ih =>
    intro a
    simp only [List.foldl_cons, Nat.zero_or]
    rw [ih (a ||| x), ih x, Nat.or_assoc]

theorem accMask_eq (g : ChordsGroup) (l : List Queued) (a : Nat) :
    accMask g a l = a ||| orMasks (l.map (maskOf g)) := by
  rw [← foldl_or]
  unfold accMask
  rw [List.foldl_map]

theorem accMask_perm (g : ChordsGroup) {l1 l2 : List Queued} (h : l1.Perm l2) (a : Nat) :
    accMask g a l1 = accMask g a l2 := by
  unfold accMask
  apply h.foldl_eq'
  intro x _ y _ z
  rw [Nat.or_assoc, Nat.or_assoc, Nat.or_comm (maskOf g x)]

theorem orMasks_perm {l1 l2 : List Nat} (h : l1.Perm l2) : orMasks l1 = orMasks l2 := by
  unfold orMasks
  apply h.foldl_eq'
  intro x _ y _ z
  rw [Nat.or_assoc, Nat.or_assoc, Nat.or_comm x]

/-! ## `get_chord_if_unambiguous` -/

/-- `m` has a defined strict superset in the table -/
def hasSuperset (chords : List (Nat × Action)) (m : Nat) : Prop :=
  ∃ e ∈ chords, e.1 ≠ m ∧ e.1 ||| m = e.1

theorem unamb_go_superset (m : Nat) : ∀ (l : List (Nat × Action)) (res : Option Action),
    hasSuperset l m → ChordsGroup.getChordIfUnambiguous.go m l res = none := by
  intro l
  induction l with
  | nil => intro res ⟨e, he, _⟩; cases he
  | cons x l ih =>
    intro res ⟨e, he, hne, hsup⟩
    obtain ⟨ck, a⟩ := x
    simp only [ChordsGroup.getChordIfUnambiguous.go]
    rcases List.mem_cons.mp he with rfl | hmem
    · have h1 : (ck == m) = false := by simpa using hne
      have h2 : (ck ||| m == ck) = true := by simpa using hsup
      simp [h1, h2]
    · by_cases h1 : (ck == m) = true
      · simp only [h1, if_true]; exact ih _ ⟨e, hmem, hne, hsup⟩
      · simp only [h1, Bool.false_eq_true, if_false]
        split
        · rfl
        · exact ih _ ⟨e, hmem, hne, hsup⟩

/-- with a defined strict superset the chord is ambiguous: no early decision -/
theorem unambiguous_none_of_superset (g : ChordsGroup) (m : Nat) (h : hasSuperset g.chords m) :
    g.getChordIfUnambiguous m = none := by
  unfold ChordsGroup.getChordIfUnambiguous
  exact unamb_go_superset m g.chords none h

theorem unamb_go_nosuperset (m : Nat) : ∀ (l : List (Nat × Action)) (res : Option Action),
    ¬ hasSuperset l m → (l.map (·.1)).Nodup →
    ChordsGroup.getChordIfUnambiguous.go m l res =
      match l.find? (·.1 == m) with
      | some x => some x.2
      | none => res := by
  intro l
  induction l with
  | nil => intro res _ _; rfl
  | cons x l ih =>
    intro res hns hnd
    obtain ⟨ck, a⟩ := x
    have hns' : ¬ hasSuperset l m := fun ⟨e, he, h⟩ => hns ⟨e, List.mem_cons_of_mem _ he, h⟩
    simp only [List.map_cons, List.nodup_cons] at hnd
    simp only [ChordsGroup.getChordIfUnambiguous.go, List.find?_cons]
    by_cases h1 : (ck == m) = true
    · simp only [h1, if_true]
      rw [ih _ hns' hnd.2]
      have : l.find? (·.1 == m) = none := by
        rw [List.find?_eq_none]
        intro y hy hym
        have : y.1 = ck := by
          have a1 : y.1 = m := by simpa using hym
          have a2 : ck = m := by simpa using h1
          rw [a1, a2]
        exact hnd.1 (this ▸ List.mem_map_of_mem (f := (·.1)) hy)
      simp [this]
    · have h1' : (ck == m) = false := by simpa using h1
      simp only [h1', Bool.false_eq_true, if_false]
      have h2 : (ck ||| m == ck) = false := by
        cases h : (ck ||| m == ck) with
        | false => rfl
        | true =>
          exfalso
          exact hns ⟨(ck, a), List.mem_cons_self, by simpa using h1', by simpa using h⟩
      simp only [h2, Bool.false_eq_true, if_false]
      exact ih _ hns' hnd.2

theorem unamb_go_mem (m : Nat) : ∀ (l : List (Nat × Action)) (res : Option Action) (a : Action),
    ChordsGroup.getChordIfUnambiguous.go m l res = some a → (m, a) ∈ l ∨ res = some a := by
  intro l
  induction l with
  | nil => intro res a h; exact Or.inr h
  | cons x l ih =>
    intro res a h
    obtain ⟨ck, b⟩ := x
    simp only [ChordsGroup.getChordIfUnambiguous.go] at h
    split at h
    · rename_i heq
      rcases ih _ a h with h1 | h1
      · exact Or.inl (List.mem_cons_of_mem _ h1)
      · left
        have : ck = m := by simpa using heq
        cases h1; subst this; simp
    · split at h
      · cases h
      · rcases ih _ a h with h1 | h1
        · exact Or.inl (List.mem_cons_of_mem _ h1)
        · exact Or.inr h1

/-- an early decision is always an entry of the table for exactly the accumulated key set -/
theorem unambiguous_mem (g : ChordsGroup) (m : Nat) (a : Action) (h : g.getChordIfUnambiguous m = some a) :
    (m, a) ∈ g.chords := by
  unfold ChordsGroup.getChordIfUnambiguous at h
  rcases unamb_go_mem m g.chords none a h with h1 | h1
  · exact h1
  · cases h1

theorem getChord_mem (g : ChordsGroup) (m : Nat) (a : Action) (h : g.getChord m = some a) : (m, a) ∈ g.chords := by
  unfold ChordsGroup.getChord at h
  cases hf : g.chords.find? (·.1 == m) with
  | none => simp [hf] at h
  | some x =>
    simp only [hf, Option.map_some, Option.some.injEq] at h
    have h1 := List.find?_some hf
    have h2 := List.mem_of_find?_eq_some hf
    have : x.1 = m := by simpa using h1
    obtain ⟨x1, x2⟩ := x
    simp only at this h
    subst this; subst h
    exact h2

/-- without a defined strict superset (and with the table's masks distinct, which the parser's hash
map guarantees) the early decision is the chord defined for exactly this key set -/
theorem unambiguous_eq_getChord (g : ChordsGroup) (m : Nat) (h : ¬ hasSuperset g.chords m)
    (hnd : (g.chords.map (·.1)).Nodup) : g.getChordIfUnambiguous m = g.getChord m := by
  unfold ChordsGroup.getChordIfUnambiguous ChordsGroup.getChord
  rw [unamb_go_nosuperset m g.chords none h hnd]
  cases g.chords.find? (·.1 == m) <;> rfl

end KVerif.C09
