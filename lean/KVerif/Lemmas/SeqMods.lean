/-
Helper definitions and lemmas for C12, runtime part with modifiers and overlap groups
(Props/C12mod.lean).  Nothing here changes the model; the definitions below are specification-side
(they mirror no kanata code except where a Rust name is cited).

* `stripOpt`, `btForm`, `btFind`, `backtrack_eq`, `stdVariant_eq`
      the backtracking loop of `do_sequence_press_logic` in closed form (every table, every sequence)
* `InpM`, `engStepM`, `engRunM`, `pushedOf`, `pushesOf`, `WellTimedM`
      the stream of calls `tick` makes into the sequence functions, a key press carrying the modifier
      mask `get_mod_mask_for_cur_keys` returned for it
* `PEv`, `callsOf`, `evsOf`, `codes`, `heldAfter`
      physical key events (press / release / one timer tick) and the calls they cause: which keys are
      down decides the mask of a press and when the all-keys-released hook runs
* `NoOvlTrie`, `stdSettle`, `doSeqPress_noovl_eq`, `run_exact`
      `do_sequence_press_logic` in closed form on tables without `O-(…)` groups; typing a stored word
* `seqMod`, `seqKey`, `Item.typable`, `enc_item`/`enc_items`, `parseSequenceKeys_codes`, `typable_stored`
      what typing a key list as spelled pushes is what the parser stored for it
* `strip`, `btForm_no_marker`, `btForm_false_id`, `btForm_snoc`   the stripped forms, specialised
* `markerWF`, `ovlForm`, `ovlFormFree`, `key_exact_mixed`, `run_exact_mixed`
      the exact path on tables that mix modifier sequences and `O-(…)` groups
* `doSeqPress_modcancel_plain`, `doSeqPress_nomodcancel_plain`, `engRunM_modcancel_plain`
      a plain table typed while unrelated modifiers are held, modcancel yes / no
* `ovlOf`, `ovlThenPlainFree`, `noEarly`, `group_key_step`, `group_run`, `group_stored`,
  `callsOf_presses`, `callsOf_releases`
      `O-(…)` groups: the members typed in any order while a key stays down, then released
* `tick_press`, `tick_release`, `tick_idle`   one `tick` of the tick-level machine makes the calls `callsOf` says
-/
import KVerif.Lemmas.SeqRunPlain
namespace KVerif.Seq

/-! ### the backtracking loop in closed form -/

/-- What the backtracking loop does to one element: a bare marker is removed, any other element
loses its modifier bits (`sequence-backtrack-modcancel yes`) or only its overlap bit (`no`). -/
def stripOpt (mc : Bool) (x : Nat) : Option Nat :=
  if x = KEY_OVERLAP_MARKER then none
  else some (if mc then x &&& MASK_KEYCODES else x &&& NOT_OVERLAP_MARKER)

/-- The sequence after the loop has processed the indices `≥ i`: the first `i` elements untouched,
the others stripped. -/
def btForm (mc : Bool) (seq : List Nat) (i : Nat) : List Nat :=
  seq.take i ++ (seq.drop i).filterMap (stripOpt mc)

/-- The index at which the loop stops when it starts below `n`: the largest `i < n` such that the
form `btForm mc seq i` is in the trie (as a key or as a proper prefix of one). -/
def btFind (t : Trie Nat) (mc : Bool) (seq : List Nat) : Nat → Option Nat
  | 0 => none
  | i + 1 => if viable t.entries (btForm mc seq i) then some i else btFind t mc seq i

theorem btForm_length (mc : Bool) (seq : List Nat) : btForm mc seq seq.length = seq := by
  simp [btForm]

theorem btForm_ge (mc : Bool) (seq : List Nat) (n : Nat) (h : seq.length ≤ n) : btForm mc seq n = seq := by
  simp [btForm, List.take_of_length_le h, List.drop_of_length_le h]

theorem btForm_step (mc : Bool) (seq : List Nat) (i : Nat) (hi : i < seq.length) :
    (let cur := btForm mc seq (i + 1)
     let x := cur.getD i 0
     if x = KEY_OVERLAP_MARKER then cur.eraseIdx i
     else if mc then cur.set i (x &&& MASK_KEYCODES) else cur.set i (x &&& NOT_OVERLAP_MARKER)) =
    btForm mc seq i := by
  have hlen : (seq.take (i + 1)).length = i + 1 := by simp; omega
  have htk : seq.take (i + 1) = seq.take i ++ [seq[i]] := by
    rw [List.take_succ_eq_append_getElem hi]
  have hx : (btForm mc seq (i + 1)).getD i 0 = seq[i] := by
    simp only [btForm, List.getD_eq_getElem?_getD]
    rw [List.getElem?_append_left (by omega)]
    simp [hi]
  have hdrop : seq.drop i = seq[i] :: seq.drop (i + 1) := List.drop_eq_getElem_cons hi
  have hli : (seq.take i).length = i := by simp; omega
  simp only [hx]
  by_cases hm : seq[i] = KEY_OVERLAP_MARKER
  · simp only [hm, if_true]
    simp only [btForm, htk, hdrop, List.filterMap_cons, stripOpt, hm, if_true, List.append_assoc]
    rw [List.eraseIdx_append_of_length_le (by omega)]
    simp [hli]
  · simp only [hm, if_false]
    have hset : ∀ y, (btForm mc seq (i + 1)).set i y =
        seq.take i ++ y :: (seq.drop (i + 1)).filterMap (stripOpt mc) := by
      intro y
      simp only [btForm, htk, List.append_assoc]
      rw [List.set_append]
      simp [hli]
    simp only [hset]
    simp only [btForm, hdrop, List.filterMap_cons, stripOpt, hm, if_false]
    cases mc <;> simp

/-- **the backtracking loop, closed form** (every table, every sequence, markers included). -/
theorem backtrack_eq (t : Trie Nat) (mc : Bool) (seq : List Nat) : ∀ n, n ≤ seq.length →
    backtrack t mc n (btForm mc seq n) =
      match btFind t mc seq n with
      | some i => (btForm mc seq i, t.getOrDescendant (btForm mc seq i))
      | none => (btForm mc seq 0, .notInTrie)
  | 0, _ => rfl
  | i + 1, hi => by
    have hstep := btForm_step mc seq i (by omega)
    simp only at hstep
    simp only [backtrack, hstep, btFind, isNot_getOrDescendant]
    cases hv : viable t.entries (btForm mc seq i) with
    | true => simp
    | false =>
      simp only [Bool.not_false, if_true, Bool.false_eq_true, if_false]
      exact backtrack_eq t mc seq i (by omega)

theorem btFind_some {t : Trie Nat} {mc : Bool} {seq : List Nat} : ∀ {n i : Nat},
    btFind t mc seq n = some i →
      i < n ∧ viable t.entries (btForm mc seq i) = true ∧
        ∀ j, i < j → j < n → viable t.entries (btForm mc seq j) = false
  | 0, i, h => by simp [btFind] at h
  | n + 1, i, h => by
    simp only [btFind] at h
    cases hv : viable t.entries (btForm mc seq n) with
    | true =>
      simp only [hv, if_true, Option.some.injEq] at h
      subst h
      exact ⟨by omega, hv, fun j h1 h2 => by omega⟩
    | false =>
      simp only [hv, Bool.false_eq_true, if_false] at h
      obtain ⟨h1, h2, h3⟩ := btFind_some h
      refine ⟨by omega, h2, fun j hj1 hj2 => ?_⟩
      by_cases hjn : j = n
      · rw [hjn]; exact hv
      · exact h3 j hj1 (by omega)

theorem btFind_none {t : Trie Nat} {mc : Bool} {seq : List Nat} : ∀ {n : Nat},
    btFind t mc seq n = none ↔ ∀ j, j < n → viable t.entries (btForm mc seq j) = false
  | 0 => by simp [btFind]
  | n + 1 => by
    simp only [btFind]
    cases hv : viable t.entries (btForm mc seq n) with
    | true =>
      simp only [if_true]
      constructor
      · intro h; simp at h
      · intro h; have := h n (by omega); rw [hv] at this; simp at this
    | false =>
      simp only [Bool.false_eq_true, if_false]
      rw [btFind_none]
      constructor
      · intro h j hj
        by_cases hjn : j = n
        · rw [hjn]; exact hv
        · exact h j (by omega)
      · intro h j hj; exact h j (by omega)

theorem btFind_of_max {t : Trie Nat} {mc : Bool} {seq : List Nat} {n i : Nat} (hi : i < n)
    (hv : viable t.entries (btForm mc seq i) = true)
    (hmax : ∀ j, i < j → j < n → viable t.entries (btForm mc seq j) = false) :
    btFind t mc seq n = some i := by
  cases h : btFind t mc seq n with
  | none => have := (btFind_none.1 h) i hi; rw [hv] at this; simp at this
  | some i' =>
    obtain ⟨h1, h2, h3⟩ := btFind_some h
    by_cases hlt : i < i'
    · have := hmax i' hlt h1; rw [h2] at this; simp at this
    · by_cases hgt : i' < i
      · have := h3 i hgt hi; rw [hv] at this; simp at this
      · have : i' = i := by omega
        rw [this]

/-- **the standard variant, closed form** (every table, every sequence). -/
theorem stdVariant_eq (t : Trie Nat) (mc : Bool) (seq : List Nat) :
    stdVariant t mc seq =
      if viable t.entries seq then (seq, t.getOrDescendant seq, false)
      else match btFind t mc seq seq.length with
        | some i => (btForm mc seq i, t.getOrDescendant (btForm mc seq i), false)
        | none => (btForm mc seq 0, .notInTrie, true) := by
  unfold stdVariant
  simp only [isNot_getOrDescendant]
  cases hv : viable t.entries seq with
  | true => simp
  | false =>
    simp only [Bool.not_false, if_true, Bool.false_eq_true, if_false]
    have := backtrack_eq t mc seq seq.length (Nat.le_refl _)
    rw [btForm_length] at this
    rw [this]
    cases hf : btFind t mc seq seq.length with
    | none => simp [Trie.GetRes.isNot]
    | some i =>
      simp only [isNot_getOrDescendant, (btFind_some hf).2.1]
      rfl

/-! ### the calls `tick` makes into the sequence functions, with the modifier mask -/

inductive InpM
  /-- a newly pressed key reaches the press loop; `mm` is what `get_mod_mask_for_cur_keys` returns -/
  | key (k mm : Nat)
  /-- one `tick_sequence_state` -/
  | tick
  /-- the last held key has been released -/
  | released
  deriving DecidableEq, Repr

def engStepM (t : Trie Nat) (modcancel : Bool) (e : Eng) : InpM → Except Crash Eng
  | .key k mm =>
    .ok (if e.st.active then doSeqPress t modcancel e k mm else { e with out := e.out ++ osPress k })
  | .tick => tickSeq e
  | .released => .ok (allReleasedHook t e)

def engRunM (t : Trie Nat) (modcancel : Bool) : Eng → List InpM → Except Crash Eng
  | e, [] => .ok e
  | e, i :: is =>
    match engStepM t modcancel e i with
    | .error c => .error c
    | .ok e' => engRunM t modcancel e' is

/-- `pushed_into_seq` -/
def pushedOf (k mm : Nat) : Nat := normaliseMod k ||| mm

/-- the values pushed into the sequence by a stream of calls -/
def pushesOf : List InpM → List Nat
  | [] => []
  | .key k mm :: is => pushedOf k mm :: pushesOf is
  | _ :: is => pushesOf is

/-- the raw keys of a stream of calls -/
def keysOfM : List InpM → List Nat
  | [] => []
  | .key k _ :: is => k :: keysOfM is
  | _ :: is => keysOfM is

def hasKey : List InpM → Bool
  | [] => false
  | .key _ _ :: _ => true
  | _ :: is => hasKey is

/-- Every key arrives before the timeout: `b` is the number of `tick_sequence_state` calls that may
still happen before the next key, `T` the configured timeout.  Timer ticks after the last key are
not constrained. -/
def WellTimedM (T : Nat) : Nat → List InpM → Prop
  | _, [] => True
  | b, .tick :: r => (hasKey r = true → 1 < b) ∧ WellTimedM T (b - 1) r
  | b, .released :: r => WellTimedM T b r
  | _, .key _ _ :: r => WellTimedM T T r

theorem engRunM_append (t : Trie Nat) (mc : Bool) : ∀ (a b : List InpM) (e : Eng),
    engRunM t mc e (a ++ b) =
      match engRunM t mc e a with
      | .error c => .error c
      | .ok e' => engRunM t mc e' b
  | [], b, e => rfl
  | i :: a, b, e => by
    simp only [List.cons_append, engRunM]
    cases engStepM t mc e i with
    | error c => rfl
    | ok e1 => exact engRunM_append t mc a b e1

/-- once sequence mode is off, timer ticks and all-released hooks do nothing -/
theorem engRunM_idle (t : Trie Nat) (mc : Bool) : ∀ (is : List InpM) (e : Eng),
    e.st.active = false → hasKey is = false → engRunM t mc e is = .ok e
  | [], e, _, _ => rfl
  | .key k mm :: r, e, _, hk => by simp [hasKey] at hk
  | .tick :: r, e, ha, hk => by
    simp only [hasKey] at hk
    simp only [engRunM, engStepM, tickSeq, ha, Bool.not_false, if_true]
    exact engRunM_idle t mc r e ha hk
  | .released :: r, e, ha, hk => by
    simp only [hasKey] at hk
    simp only [engRunM, engStepM, allReleasedHook, ha, Bool.not_false, if_true]
    exact engRunM_idle t mc r e ha hk

/-! ### physical key events and the calls they cause -/

/-- A physical event as `tick` sees it: one key event dequeued, or a tick with an empty queue. -/
inductive PEv
  | press (k : Nat)
  | release (k : Nat)
  | tick
  deriving DecidableEq, Repr

/-- The calls into the sequence functions caused by a stream of physical events; `held` is the list
of key codes currently down (`cur_keys`).  A press reaches `do_sequence_press_logic` with the mask of
all keys down, itself included; the release that empties `cur_keys` runs the all-released hook. -/
def callsOf : List PEv → (held : List Nat) → List InpM
  | [], _ => []
  | .press k :: r, held => .key k (modMaskOf (held ++ [k])) :: callsOf r (held ++ [k])
  | .release k :: r, held =>
    (if (held.erase k).isEmpty && !held.isEmpty then [InpM.released] else []) ++ callsOf r (held.erase k)
  | .tick :: r, held => .tick :: callsOf r held

/-- the key events of a stream of physical events (timer ticks dropped) -/
def evsOf : List PEv → List Ev
  | [] => []
  | .press k :: r => .press k :: evsOf r
  | .release k :: r => .release k :: evsOf r
  | .tick :: r => evsOf r

/-- The values a stream of key events pushes into the sequence at run time (`held` as in `callsOf`). -/
def codes : List Ev → (held : List Nat) → List Nat
  | [], _ => []
  | .press k :: r, held => pushedOf k (modMaskOf (held ++ [k])) :: codes r (held ++ [k])
  | .release k :: r, held => codes r (held.erase k)

def heldAfter : List Ev → List Nat → List Nat
  | [], held => held
  | .press k :: r, held => heldAfter r (held ++ [k])
  | .release k :: r, held => heldAfter r (held.erase k)

theorem pushesOf_append : ∀ (a b : List InpM), pushesOf (a ++ b) = pushesOf a ++ pushesOf b
  | [], b => rfl
  | .key k mm :: a, b => by simp [pushesOf, pushesOf_append a b]
  | .tick :: a, b => by simp [pushesOf, pushesOf_append a b]
  | .released :: a, b => by simp [pushesOf, pushesOf_append a b]

theorem pushesOf_callsOf : ∀ (p : List PEv) (held : List Nat),
    pushesOf (callsOf p held) = codes (evsOf p) held
  | [], _ => rfl
  | .press k :: r, held => by simp [callsOf, pushesOf, evsOf, codes, pushesOf_callsOf r]
  | .release k :: r, held => by
    simp only [callsOf, evsOf, codes, pushesOf_append, pushesOf_callsOf r]
    split <;> simp [pushesOf]
  | .tick :: r, held => by simp [callsOf, pushesOf, evsOf, pushesOf_callsOf r]

/-! ### tables without `O-(…)` groups: `do_sequence_press_logic` in closed form -/

/-- no stored element carries the overlap bit -/
def noOvlTable (tbl : List (Key × Nat)) : Bool :=
  tbl.all (fun e => e.1.all (fun x => x &&& KEY_OVERLAP_MARKER == 0))

@[reducible] def NoOvlTrie (t : Trie Nat) : Prop := noOvlTable t.entries = true

theorem not_viable_of_ovl {t : Trie Nat} (hn : NoOvlTrie t) {w : Key} {x : Nat} (hx : x ∈ w)
    (hb : x &&& KEY_OVERLAP_MARKER ≠ 0) : viable t.entries w = false := by
  cases hv : viable t.entries w with
  | false => rfl
  | true =>
    exfalso
    simp only [viable, List.any_eq_true, List.isPrefixOf_iff_prefix] at hv
    obtain ⟨e, he, hpre⟩ := hv
    simp only [NoOvlTrie, noOvlTable, List.all_eq_true, beq_iff_eq] at hn
    exact hb (hn e he x (hpre.subset hx))

theorem marker_ovl : KEY_OVERLAP_MARKER &&& KEY_OVERLAP_MARKER ≠ 0 := by decide

theorem or_marker_ovl (x : Nat) : (x ||| KEY_OVERLAP_MARKER) &&& KEY_OVERLAP_MARKER ≠ 0 := by
  rw [Nat.and_or_distrib_right]
  intro h
  exact marker_ovl (Nat.or_eq_zero_iff.1 h).2

theorem notInTrie_of_not_viable {t : Trie Nat} {w : Key} (h : viable t.entries w = false) :
    t.getOrDescendant w = .notInTrie := by
  apply eq_notInTrie_of_isNot; rw [isNot_getOrDescendant, h]; rfl

theorem overlapFix_noovl {t : Trie Nat} (hn : NoOvlTrie t) (ovl : List Nat) (p : Nat) :
    overlapFix t ovl p ((p &&& MASK_KEYCODES) ||| KEY_OVERLAP_MARKER) =
      (ovl ++ [KEY_OVERLAP_MARKER, if p &&& MASK_KEYCODES = p then p else p &&& MASK_KEYCODES],
        .notInTrie, true) := by
  have hpov := or_marker_ovl (p &&& MASK_KEYCODES)
  generalize (p &&& MASK_KEYCODES) ||| KEY_OVERLAP_MARKER = pov at hpov
  have n0 : t.getOrDescendant (ovl ++ [pov]) = .notInTrie :=
    notInTrie_of_not_viable (not_viable_of_ovl hn (x := pov) (by simp) hpov)
  have n1 : t.getOrDescendant (ovl ++ [KEY_OVERLAP_MARKER, pov]) = .notInTrie :=
    notInTrie_of_not_viable (not_viable_of_ovl hn (x := pov) (by simp) hpov)
  have n2 : ∀ y, t.getOrDescendant (ovl ++ [KEY_OVERLAP_MARKER, y]) = .notInTrie := fun y =>
    notInTrie_of_not_viable (not_viable_of_ovl hn (x := KEY_OVERLAP_MARKER) (by simp) marker_ovl)
  unfold overlapFix
  simp only [n0, n1, n2, Trie.GetRes.isNot, Bool.not_true, Bool.false_eq_true, if_false]
  split <;> rfl

/-- The word the standard variant settles on: the sequence itself if it is in the trie, else the
first stripped form (from the back) that is; `none` if there is none. -/
def stdSettle (t : Trie Nat) (mc : Bool) (w0 : List Nat) : Option Key :=
  if viable t.entries w0 then some w0
  else (btFind t mc w0 w0.length).map (btForm mc w0)

theorem stdSettle_viable {t : Trie Nat} {mc : Bool} {w0 w : Key} (h : stdSettle t mc w0 = some w) :
    viable t.entries w = true := by
  unfold stdSettle at h
  split at h
  · simp only [Option.some.injEq] at h; rw [← h]; assumption
  · cases hf : btFind t mc w0 w0.length with
    | none => simp [hf] at h
    | some i =>
      simp only [hf, Option.map_some, Option.some.injEq] at h
      rw [← h]; exact (btFind_some hf).2.1

theorem getOrDescendant_of_lookup {t : Trie Nat} {w : Key} (hv : viable t.entries w = true) :
    t.getOrDescendant w = match lookupKey t.entries w with
      | some j => .hasValue j
      | none => .inTrie := by
  rw [getOrDescendant_eq, hv]; rfl

theorem press_noovl_aux {t : Trie Nat} (hn : NoOvlTrie t) (hne : ∀ j, t.getOrDescendant [] ≠ .hasValue j)
    (mc : Bool) (b : Eng) (seq ovl : List Nat) (p : Nat) :
    finish t (reconcile t b (stdVariant t mc (seq ++ [p]))
        (overlapFix t ovl p ((p &&& MASK_KEYCODES) ||| KEY_OVERLAP_MARKER))) =
      (let w0 := seq ++ [p]
       match stdSettle t mc w0 with
       | some w =>
         let e2 : Eng := { b with st := { b.st with sequence := w, overlapped := w } }
         match lookupKey t.entries w with
         | some j => terminate e2 j true
         | none => e2
       | none =>
         let w := lvs t.entries (btForm mc w0 0)
         let ovl' := ovl ++
           [KEY_OVERLAP_MARKER, if p &&& MASK_KEYCODES = p then p else p &&& MASK_KEYCODES]
         let e3 : Eng := { b with st := { b.st with sequence := w, overlapped := ovl' } }
         if w.isEmpty then cancelSequence e3
         else match lookupKey t.entries w with
           | some j => terminate { e3 with st := { e3.st with overlapped := ovl' ++ [KEY_OVERLAP_MARKER] } } j false
           | none => e3) := by
  simp only [overlapFix_noovl hn, stdVariant_eq, stdSettle]
  cases hv : viable t.entries (seq ++ [p]) with
  | true =>
    simp only [if_true, reconcile, finish]
    rw [getOrDescendant_of_lookup hv]
    cases hl : lookupKey t.entries (seq ++ [p]) with
    | some j => rfl
    | none => rfl
  | false =>
    simp only [Bool.false_eq_true, if_false]
    cases hf : btFind t mc (seq ++ [p]) (seq ++ [p]).length with
    | some i =>
      have hvi := (btFind_some hf).2.1
      simp only [Option.map_some, reconcile, finish]
      rw [getOrDescendant_of_lookup hvi]
      cases hl : lookupKey t.entries (btForm mc (seq ++ [p]) i) with
      | some j => rfl
      | none => rfl
    | none =>
      have hnv : viable t.entries (btForm mc (seq ++ [p]) 0) = false :=
        (btFind_none.1 hf) 0 (by simp)
      have hdf := dropFront_lvs t (btForm mc (seq ++ [p]) 0)
      rw [notInTrie_of_not_viable hnv] at hdf
      simp only [Option.map_none, reconcile, hdf, isNot_getOrDescendant]
      generalize hw : lvs t.entries (btForm mc (seq ++ [p]) 0) = w
      cases w with
      | nil =>
        -- the side condition of the `match` (no value at the empty key) is discharged from `hne`
        simp only [List.isEmpty_nil, Bool.or_true, if_true, finish]
      | cons x w' =>
        have hvw : viable t.entries (x :: w') = true := by
          rw [← hw]; exact lvs_viable _ _ (by rw [hw]; simp)
        simp only [hvw, Bool.not_true, List.isEmpty_cons, Bool.or_false, Bool.false_eq_true, if_false, finish]
        rw [getOrDescendant_of_lookup hvw]
        cases hl : lookupKey t.entries (x :: w') with
        | none => rfl
        | some j =>
          have : t.getOrDescendant (ovl ++
              [KEY_OVERLAP_MARKER, if p &&& MASK_KEYCODES = p then p else p &&& MASK_KEYCODES] ++
              [KEY_OVERLAP_MARKER]) = .notInTrie :=
            notInTrie_of_not_viable (not_viable_of_ovl hn (x := KEY_OVERLAP_MARKER) (by simp) marker_ovl)
          simp only [this]

/-- **`do_sequence_press_logic` on a table without `O-(…)` groups, in closed form** — any state, any
key, any modifier mask.  (`hne`: the table stores no empty key list, `accepted_no_empty_key`.) -/
theorem doSeqPress_noovl_eq {t : Trie Nat} (hn : NoOvlTrie t) (hne : ∀ j, t.getOrDescendant [] ≠ .hasValue j)
    (mc : Bool) (e : Eng) (k mm : Nat) :
    doSeqPress t mc e k mm =
      (let b := pressBase e k
       let p := pushedOf k mm
       let w0 := e.st.sequence ++ [p]
       match stdSettle t mc w0 with
       | some w =>
         let e2 : Eng := { b with st := { b.st with sequence := w, overlapped := w } }
         match lookupKey t.entries w with
         | some j => terminate e2 j true
         | none => e2
       | none =>
         let w := lvs t.entries (btForm mc w0 0)
         let ovl' := e.st.overlapped ++
           [KEY_OVERLAP_MARKER, if p &&& MASK_KEYCODES = p then p else p &&& MASK_KEYCODES]
         let e3 : Eng := { b with st := { b.st with sequence := w, overlapped := ovl' } }
         if w.isEmpty then cancelSequence e3
         else match lookupKey t.entries w with
           | some j => terminate { e3 with st := { e3.st with overlapped := ovl' ++ [KEY_OVERLAP_MARKER] } } j false
           | none => e3) :=
  press_noovl_aux hn hne mc (pressBase e k) e.st.sequence e.st.overlapped (normaliseMod k ||| mm)

theorem allReleasedHook_noovl {t : Trie Nat} (hn : NoOvlTrie t) (e : Eng) (ha : e.st.active = true) :
    allReleasedHook t e = { e with st := { e.st with overlapped := e.st.sequence } } := by
  have : t.getOrDescendant (e.st.overlapped ++ [KEY_OVERLAP_MARKER]) = .notInTrie :=
    notInTrie_of_not_viable (not_viable_of_ovl hn (x := KEY_OVERLAP_MARKER) (by simp) marker_ovl)
  simp [allReleasedHook, ha, this]

/-! ### typing a stored word exactly, on a table without `O-(…)` groups -/

theorem pressBase_fieldsM (e : Eng) (k : Nat) :
    (pressBase e k).st.active = e.st.active ∧ (pressBase e k).taps = e.taps ∧
    (pressBase e k).states = e.states ∧ (pressBase e k).st.rawOscs = e.st.rawOscs ++ [k] ∧
    (pressBase e k).st.mode = e.st.mode ∧ (pressBase e k).st.timeout = e.st.timeout ∧
    (pressBase e k).st.noerase = e.st.noerase ∧ (pressBase e k).st.ticksUntilTimeout = e.st.timeout ∧
    (pressBase e k).out = e.out ++ (if e.st.mode = .visibleBackspaced then osPress k else []) := by
  unfold pressBase
  cases h : e.st.mode <;> simp

theorem lookupKey_none_of_proper_prefix {t : Trie Nat} (hok : TrieOK t) {s : Key} {j : Nat}
    (hs : (s, j) ∈ t.entries) (w v : Key) (h : w ++ v = s) (hv : v ≠ []) :
    lookupKey t.entries w = none := by
  cases hl : lookupKey t.entries w with
  | none => rfl
  | some j' =>
    exfalso
    have hm := mem_of_lookupKey hl
    have hne : (w, j') ≠ (s, j) := by
      intro he
      have : w = s := by simpa using congrArg Prod.fst he
      rw [← h] at this
      have := congrArg List.length this
      simp at this
      exact hv this
    unfold TrieOK Trie.keys at hok
    rw [List.pairwise_map] at hok
    have := pairwise_mem_ne (R := fun a b : Key × Nat => Incomp a.1 b.1)
      (fun _ _ hxy => Incomp.symm hxy) hok _ hm _ hs hne
    exact this.1 ⟨v, h⟩

theorem hasKey_of_pushes : ∀ (is : List InpM), pushesOf is ≠ [] ↔ hasKey is = true
  | [] => by simp [pushesOf, hasKey]
  | .key k mm :: r => by simp [pushesOf, hasKey]
  | .tick :: r => by simp only [pushesOf, hasKey]; exact hasKey_of_pushes r
  | .released :: r => by simp only [pushesOf, hasKey]; exact hasKey_of_pushes r

theorem hasKey_false_of_pushes {is : List InpM} (h : pushesOf is = []) : hasKey is = false := by
  cases hk : hasKey is with
  | false => rfl
  | true => exact absurd h ((hasKey_of_pushes is).2 hk)

theorem keysOfM_of_no_key : ∀ (l : List InpM), hasKey l = false → keysOfM l = []
  | [], _ => rfl
  | .key _ _ :: _, h => by simp [hasKey] at h
  | .tick :: l, h => by
    simp only [hasKey] at h; simp only [keysOfM]
    exact keysOfM_of_no_key l h
  | .released :: l, h => by
    simp only [hasKey] at h; simp only [keysOfM]
    exact keysOfM_of_no_key l h

/-- one key that extends the tracked word to a word still in the trie -/
theorem key_exact {t : Trie Nat} (hn : NoOvlTrie t) (hne : ∀ j, t.getOrDescendant [] ≠ .hasValue j)
    (mc : Bool) (e : Eng) (k mm : Nat) (hv : viable t.entries (e.st.sequence ++ [pushedOf k mm]) = true) :
    doSeqPress t mc e k mm =
      (let w0 := e.st.sequence ++ [pushedOf k mm]
       let e2 : Eng := { pressBase e k with st := { (pressBase e k).st with sequence := w0, overlapped := w0 } }
       match lookupKey t.entries w0 with
       | some j => terminate e2 j true
       | none => e2) := by
  rw [doSeqPress_noovl_eq hn hne]
  simp only [stdSettle, hv, if_true]

def bsTaps (n : Nat) : List Out := (List.replicate n [Out.down KC_BSPACE, Out.up KC_BSPACE]).flatten

/-- **typing a stored word exactly** (table without `O-(…)` groups, any modifier prefixes): the values
pushed by the calls spell the rest of a stored word; every key arrives in time; timer ticks and
all-released hooks are interleaved arbitrarily. -/
theorem run_exact {t : Trie Nat} (hn : NoOvlTrie t) (hne : ∀ j, t.getOrDescendant [] ≠ .hasValue j)
    (hok : TrieOK t) (mc : Bool) {s : Key} {j : Nat} (hs : (s, j) ∈ t.entries) :
    ∀ (is : List InpM) (e : Eng) (b : Nat), e.st.active = true → e.st.ticksUntilTimeout = b → 0 < b →
      0 < e.st.timeout → e.st.sequence ++ pushesOf is = s → pushesOf is ≠ [] →
      WellTimedM e.st.timeout b is →
      ∃ e', engRunM t mc e is = .ok e' ∧ e'.st.active = false ∧ e'.taps = e.taps ++ [j] ∧
        e'.st.mode = e.st.mode ∧
        (e.st.mode ≠ .visibleBackspaced → e'.out = e.out) ∧
        (e.st.mode = .visibleBackspaced → ∃ rel : List Nat,
          e'.out = e.out ++ (keysOfM is).flatMap osPress ++ rel.flatMap osRelease ++
            bsTaps (charCount s - e.st.noerase))
  | [], e, b, _, _, _, _, _, hp, _ => by simp [pushesOf] at hp
  | .tick :: r, e, b, ha, hb, hb0, hT, hsq, hp, hwt => by
    simp only [WellTimedM] at hwt
    simp only [pushesOf] at hsq hp
    have hk : hasKey r = true := (hasKey_of_pushes r).1 hp
    have h1b := hwt.1 hk
    have hstep : engStepM t mc e .tick = .ok { e with st := { e.st with ticksUntilTimeout := b - 1 } } := by
      simp only [engStepM, tickSeq, ha, Bool.not_true, Bool.false_eq_true, if_false, hb]
      have h1 : ¬ b = 0 := by omega
      have h2 : ¬ b - 1 = 0 := by omega
      simp [h1, h2]
    obtain ⟨e', h1, h2⟩ := run_exact hn hne hok mc hs r
      { e with st := { e.st with ticksUntilTimeout := b - 1 } } (b - 1) ha rfl (by omega) hT hsq hp hwt.2
    exact ⟨e', by simp only [engRunM, hstep]; exact h1, h2⟩
  | .released :: r, e, b, ha, hb, hb0, hT, hsq, hp, hwt => by
    simp only [WellTimedM] at hwt
    simp only [pushesOf] at hsq hp
    have hstep : engStepM t mc e .released = .ok { e with st := { e.st with overlapped := e.st.sequence } } := by
      simp only [engStepM, allReleasedHook_noovl hn e ha]
    obtain ⟨e', h1, h2⟩ := run_exact hn hne hok mc hs r
      { e with st := { e.st with overlapped := e.st.sequence } } b ha hb hb0 hT hsq hp hwt
    exact ⟨e', by simp only [engRunM, hstep]; exact h1, h2⟩
  | .key k mm :: r, e, b, ha, hb, hb0, hT, hsq, hp, hwt => by
    simp only [WellTimedM] at hwt
    simp only [pushesOf] at hsq
    have hpre : (e.st.sequence ++ [pushedOf k mm]) ++ pushesOf r = s := by rw [← hsq]; simp
    have hvi : viable t.entries (e.st.sequence ++ [pushedOf k mm]) = true :=
      viable_of_prefix hs ⟨pushesOf r, hpre⟩
    have hks := key_exact hn hne mc e k mm hvi
    have pf := pressBase_fieldsM e k
    simp only at hks
    by_cases hr : pushesOf r = []
    · -- the last key of the word
      have hw0 : e.st.sequence ++ [pushedOf k mm] = s := by rw [← hpre, hr]; simp
      rw [hw0, lookupKey_of_mem hok hs] at hks
      simp only at hks
      have hidle := engRunM_idle t mc r _ (terminate_fields
        { pressBase e k with st := { (pressBase e k).st with sequence := s, overlapped := s } } j true).1
        (hasKey_false_of_pushes hr)
      have tf := terminate_fields
        { pressBase e k with st := { (pressBase e k).st with sequence := s, overlapped := s } } j true
      refine ⟨_, by simp only [engRunM, engStepM, ha, if_true, hks]; exact hidle, tf.1, ?_, ?_, ?_, ?_⟩
      · rw [tf.2.1]; show (pressBase e k).taps ++ [j] = _; rw [pf.2.1]
      · rw [tf.2.2.1]; exact pf.2.2.2.2.1
      · intro hm
        rw [tf.2.2.2 (by show (pressBase e k).st.mode ≠ _; rw [pf.2.2.2.2.1]; exact hm)]
        show (pressBase e k).out = _
        rw [pf.2.2.2.2.2.2.2.2]; simp [hm]
      · intro hm
        obtain ⟨rel, hrel⟩ := terminate_visible_out
          { pressBase e k with st := { (pressBase e k).st with sequence := s, overlapped := s } } j true
          (by show (pressBase e k).st.mode = _; rw [pf.2.2.2.2.1]; exact hm)
        refine ⟨rel, ?_⟩
        rw [hrel]
        show (pressBase e k).out ++ _ ++ (List.replicate (charCount s - (pressBase e k).st.noerase) _).flatten = _
        have hkr : keysOfM r = [] := keysOfM_of_no_key r (hasKey_false_of_pushes hr)
        rw [pf.2.2.2.2.2.2.2.2, pf.2.2.2.2.2.2.1]
        simp [hm, keysOfM, hkr, bsTaps]
    · -- a proper prefix: nothing fires, the word is tracked
      have hnone : lookupKey t.entries (e.st.sequence ++ [pushedOf k mm]) = none :=
        lookupKey_none_of_proper_prefix hok hs _ _ hpre hr
      rw [hnone] at hks
      simp only at hks
      obtain ⟨e', h1, h2a, h2b, h2m, h2c, h2d⟩ := run_exact hn hne hok mc hs r
        { pressBase e k with st := { (pressBase e k).st with
            sequence := e.st.sequence ++ [pushedOf k mm], overlapped := e.st.sequence ++ [pushedOf k mm] } }
        e.st.timeout (pf.1.trans ha) pf.2.2.2.2.2.2.2.1 hT
        (by show 0 < (pressBase e k).st.timeout; rw [pf.2.2.2.2.2.1]; exact hT) hpre hr
        (by show WellTimedM (pressBase e k).st.timeout _ _; rw [pf.2.2.2.2.2.1]; exact hwt)
      refine ⟨e', by simp only [engRunM, engStepM, ha, if_true, hks]; exact h1, h2a, ?_, ?_, ?_, ?_⟩
      · rw [h2b]; show (pressBase e k).taps ++ [j] = _; rw [pf.2.1]
      · rw [h2m]; exact pf.2.2.2.2.1
      · intro hm
        rw [h2c (by show (pressBase e k).st.mode ≠ _; rw [pf.2.2.2.2.1]; exact hm)]
        show (pressBase e k).out = _
        rw [pf.2.2.2.2.2.2.2.2]; simp [hm]
      · intro hm
        obtain ⟨rel, hrel⟩ := h2d (by show (pressBase e k).st.mode = _; rw [pf.2.2.2.2.1]; exact hm)
        refine ⟨rel, ?_⟩
        rw [hrel]
        show (pressBase e k).out ++ _ ++ _ ++ bsTaps (charCount s - (pressBase e k).st.noerase) = _
        rw [pf.2.2.2.2.2.2.2.2, pf.2.2.2.2.2.2.1]
        simp [hm, keysOfM]

/-! ### what typing a key list pushes is what the parser stored for it -/

/-- a modifier as the run time tracks it and a prefix can spell it: left shift/ctrl/alt/gui, AltGr -/
def seqMod (m : Nat) : Bool :=
  m == KC_LSHIFT || m == KC_LCTRL || m == KC_LALT || m == KC_RALT || m == KC_LGUI

/-- a key code that is not a modifier key and not the overlap pseudo-key -/
def seqKey (k : Nat) : Bool := k < 1024 && !isModifier k && k != KC_OVERLAP

mutual
  /-- A key-list item that can be typed as spelled: its keys are non-modifier keys, its prefixes are
  left-hand modifiers or AltGr, no modifier is repeated inside its own scope (`outer`: the modifiers
  of the enclosing lists), no list is empty, no `O-`. -/
  def Item.typable (outer : List Nat) : Item → Bool
    | .key kc => seqKey kc
    | .chord mods kc => mods.all seqMod && decide (outer ++ mods).Nodup && seqKey kc
    | .held mods body => mods.all seqMod && decide (outer ++ mods).Nodup && !body.isEmpty &&
        Item.typableList (outer ++ mods) body
    | .sub body => !body.isEmpty && Item.typableList outer body
  def Item.typableList (outer : List Nat) : List Item → Bool
    | [] => true
    | i :: is => i.typable outer && Item.typableList outer is
end

theorem seqKey_facts : ∀ k, seqKey k = true →
    k < 1024 ∧ modMask k = 0 ∧ normaliseMod k = k ∧ k ≠ KC_OVERLAP ∧ seqMod k = false := by
  have h : ∀ k, k < 1024 → seqKey k = true →
      modMask k = 0 ∧ normaliseMod k = k ∧ k ≠ KC_OVERLAP ∧ seqMod k = false := by decide +kernel
  intro k hk
  have hlt : k < 1024 := by simp [seqKey] at hk; exact hk.1.1
  exact ⟨hlt, h k hlt hk⟩

theorem seqMod_facts : ∀ m, seqMod m = true →
    m < 1024 ∧ normaliseMod m = m ∧ m ≠ KC_OVERLAP ∧ modMask m &&& KEY_OVERLAP_MARKER = 0 := by
  intro m hm
  simp only [seqMod, Bool.or_eq_true, beq_iff_eq] at hm
  rcases hm with (((h | h) | h) | h) | h <;> subst h <;> decide

theorem and_marker_of_lt : ∀ x, x < 1024 → x &&& KEY_OVERLAP_MARKER = 0 := by
  unfold KEY_OVERLAP_MARKER; decide +kernel

theorem foldl_mask_or (l : List Nat) : ∀ (a b : Nat),
    l.foldl (fun a m => a ||| modMask m) (a ||| b) = a ||| l.foldl (fun a m => a ||| modMask m) b := by
  induction l with
  | nil => intro a b; rfl
  | cons x l ih => intro a b; simp only [List.foldl_cons]; rw [Nat.or_assoc]; exact ih a _

theorem foldl_mask_init (l : List Nat) (p : Nat) :
    l.foldl (fun a m => a ||| modMask m) p = p ||| modMaskOf l := by
  have := foldl_mask_or l p 0
  simpa [modMaskOf] using this

theorem modMaskOf_append (l : List Nat) (k : Nat) : modMaskOf (l ++ [k]) = modMaskOf l ||| modMask k := by
  simp [modMaskOf, List.foldl_append]

theorem modMaskOf_no_marker (l : List Nat) (h : ∀ m ∈ l, seqMod m = true) :
    modMaskOf l &&& KEY_OVERLAP_MARKER = 0 := by
  have : ∀ (l : List Nat), (∀ m ∈ l, seqMod m = true) → ∀ a, a &&& KEY_OVERLAP_MARKER = 0 →
      l.foldl (fun a m => a ||| modMask m) a &&& KEY_OVERLAP_MARKER = 0 := by
    intro l
    induction l with
    | nil => intro _ a ha; exact ha
    | cons x l ih =>
      intro hl a ha
      simp only [List.foldl_cons]
      apply ih (fun m hm => hl m (by simp [hm]))
      rw [Nat.and_or_distrib_right, ha, (seqMod_facts x (hl x (by simp))).2.2.2]
      rfl
  exact this l h 0 (by decide)

/-- the parser's check "O-(...) lists cannot be combined with other modifiers" passes -/
theorem no_overlap_combined (p : Nat) (l : List Nat) (hp : p < 1024) (hl : ∀ m ∈ l, seqMod m = true) :
    ¬ ((p ||| modMaskOf l) &&& KEY_OVERLAP_MARKER = KEY_OVERLAP_MARKER ∧
      (p ||| modMaskOf l) &&& MASK_MODDED ≠ KEY_OVERLAP_MARKER) := by
  intro h
  have : (p ||| modMaskOf l) &&& KEY_OVERLAP_MARKER = 0 := by
    rw [Nat.and_or_distrib_right, and_marker_of_lt p hp, modMaskOf_no_marker l hl]; rfl
  rw [this] at h
  exact absurd h.1 (by decide)

theorem codes_append : ∀ (a b : List Ev) (held : List Nat),
    codes (a ++ b) held = codes a held ++ codes b (heldAfter a held)
  | [], b, held => rfl
  | .press k :: a, b, held => by simp [codes, heldAfter, codes_append a b]
  | .release k :: a, b, held => by simp [codes, heldAfter, codes_append a b]

theorem heldAfter_append : ∀ (a b : List Ev) (held : List Nat),
    heldAfter (a ++ b) held = heldAfter b (heldAfter a held)
  | [], b, held => rfl
  | .press k :: a, b, held => by simp [heldAfter, heldAfter_append a b]
  | .release k :: a, b, held => by simp [heldAfter, heldAfter_append a b]

theorem isPress_head_map_press (ms : List Nat) (next : List Ev) (h : isPress next.head? = true) :
    isPress (ms.map Ev.press ++ next).head? = true := by
  cases ms with
  | nil => simpa using h
  | cons m ms => simp [isPress]

/-- the modifier presses that open a chord or a held list -/
theorem enc_press_mods : ∀ (ms outer seq : List Nat) (dr : Bool) (next : List Ev),
    isPress next.head? = true → (∀ m ∈ outer, seqMod m = true) → (∀ m ∈ ms, seqMod m = true) →
    encodeEvents (ms.map Ev.press ++ next) outer seq dr =
      encodeEvents next (outer ++ ms) (seq ++ codes (ms.map Ev.press) outer) dr ∧
    heldAfter (ms.map Ev.press) outer = outer ++ ms
  | [], outer, seq, dr, next, _, _, _ => by simp [codes, heldAfter]
  | m :: ms, outer, seq, dr, next, hn, ho, hm => by
    have hmm := seqMod_facts m (hm m (by simp))
    have hall : ∀ x ∈ outer ++ [m], seqMod x = true := by
      intro x hx
      rcases List.mem_append.1 hx with h | h
      · exact ho x h
      · simp at h; rw [h]; exact hm m (by simp)
    have ih := enc_press_mods ms (outer ++ [m]) (seq ++ [pushedOf m (modMaskOf (outer ++ [m]))]) dr next hn hall
      (fun x hx => hm x (by simp [hx]))
    have hp : isPress (ms.map Ev.press ++ next).head? = true := isPress_head_map_press ms next hn
    constructor
    · simp only [List.map_cons, List.cons_append, encodeEvents, hp, if_true, foldl_mask_init]
      rw [if_neg (no_overlap_combined m (outer ++ [m]) hmm.1 hall)]
      simp only [hmm.2.2.1, ne_eq, not_false_eq_true, if_true]
      have : m ||| modMaskOf (outer ++ [m]) = pushedOf m (modMaskOf (outer ++ [m])) := by
        simp [pushedOf, hmm.2.1]
      rw [this, ih.1]
      simp [codes, List.append_assoc]
    · simp only [List.map_cons, heldAfter, ih.2, List.append_assoc, List.singleton_append]

theorem erase_append_singleton (l : List Nat) (m : Nat) (h : m ∉ l) : (l ++ [m]).erase m = l := by
  rw [List.erase_append_right _ h]; simp

theorem eraseFirst_some (l : List Nat) (x : Nat) (h : x ∈ l) : eraseFirst l x = some (l.erase x) := by
  simp [eraseFirst, h]

theorem isRelease_head_map_release (ms : List Nat) (rest : List Ev) :
    isRelease (ms.map Ev.release ++ rest).head? = if ms.isEmpty then isRelease rest.head? else true := by
  cases ms with
  | nil => simp
  | cons m ms => simp [isRelease]

/-- the modifier releases that close a held list (same order as pressed) -/
theorem enc_release_same : ∀ (ms outer seq : List Nat) (rest : List Ev), ms ≠ [] →
    (∀ m ∈ ms, seqMod m = true) → (∀ m ∈ ms, m ∉ outer) →
    encodeEvents (ms.map Ev.release ++ rest) (outer ++ ms) seq true =
      encodeEvents rest outer seq (isRelease rest.head?) ∧
    heldAfter (ms.map Ev.release) (outer ++ ms) = outer ∧ codes (ms.map Ev.release) (outer ++ ms) = []
  | [], _, _, _, h, _, _ => absurd rfl h
  | m :: ms, outer, seq, rest, _, hm, hd => by
    have hmm := seqMod_facts m (hm m (by simp))
    have her : (outer ++ m :: ms).erase m = outer ++ ms := by
      rw [List.erase_append_right _ (hd m (by simp))]; simp
    have hmem : m ∈ outer ++ m :: ms := by simp
    simp only [List.map_cons, List.cons_append, encodeEvents, hmm.2.2.1, if_false, if_true,
      eraseFirst_some _ _ hmem, her, heldAfter, codes, isRelease_head_map_release]
    cases ms with
    | nil => simp [heldAfter, codes]
    | cons m' ms' =>
      have ih := enc_release_same (m' :: ms') outer seq rest (by simp) (fun x hx => hm x (by simp [hx]))
        (fun x hx => hd x (by simp [hx]))
      simp only [List.isEmpty_cons, Bool.false_eq_true, if_false]
      exact ih

/-- the modifier releases that close a chord (reverse order); `rs` is the reversed modifier list -/
theorem enc_release_rev : ∀ (rs outer seq : List Nat) (rest : List Ev), rs ≠ [] →
    (∀ m ∈ rs, seqMod m = true) → (outer ++ rs.reverse).Nodup →
    encodeEvents (rs.map Ev.release ++ rest) (outer ++ rs.reverse) seq true =
      encodeEvents rest outer seq (isRelease rest.head?) ∧
    heldAfter (rs.map Ev.release) (outer ++ rs.reverse) = outer ∧
    codes (rs.map Ev.release) (outer ++ rs.reverse) = []
  | [], _, _, _, h, _, _ => absurd rfl h
  | m :: rs, outer, seq, rest, _, hm, hnd => by
    have hmm := seqMod_facts m (hm m (by simp))
    have hcur : outer ++ (m :: rs).reverse = (outer ++ rs.reverse) ++ [m] := by simp
    have hnot : m ∉ outer ++ rs.reverse := by
      rw [hcur, List.nodup_append] at hnd
      intro hin
      exact hnd.2.2 m hin m (by simp) rfl
    have her : ((outer ++ rs.reverse) ++ [m]).erase m = outer ++ rs.reverse := erase_append_singleton _ _ hnot
    have hmem : m ∈ (outer ++ rs.reverse) ++ [m] := by simp
    rw [hcur]
    simp only [List.map_cons, List.cons_append, encodeEvents, hmm.2.2.1, if_false, if_true,
      eraseFirst_some _ _ hmem, her, heldAfter, codes, isRelease_head_map_release]
    cases rs with
    | nil => simp [heldAfter, codes]
    | cons m' rs' =>
      have hnd' : (outer ++ (m' :: rs').reverse).Nodup := by
        rw [hcur, List.nodup_append] at hnd; exact hnd.1
      have ih := enc_release_rev (m' :: rs') outer seq rest (by simp) (fun x hx => hm x (by simp [hx])) hnd'
      simp only [List.isEmpty_cons, Bool.false_eq_true, if_false]
      exact ih

/-- one plain key inside the scope of the modifiers `outer` -/
theorem enc_key (kc : Nat) (outer seq : List Nat) (rest : List Ev) (hk : seqKey kc = true)
    (ho : ∀ m ∈ outer, seqMod m = true) :
    encodeEvents (Ev.press kc :: Ev.release kc :: rest) outer seq false =
      encodeEvents rest outer (seq ++ [pushedOf kc (modMaskOf (outer ++ [kc]))]) (isRelease rest.head?) ∧
    (outer ++ [kc]).erase kc = outer := by
  have hf := seqKey_facts kc hk
  have hnot : kc ∉ outer := by
    intro hin
    have := ho kc hin
    rw [hf.2.2.2.2] at this
    exact absurd this (by simp)
  refine ⟨?_, erase_append_singleton _ _ hnot⟩
  have hcode : kc ||| modMaskOf outer = pushedOf kc (modMaskOf (outer ++ [kc])) := by
    simp [pushedOf, hf.2.2.1, modMaskOf_append, hf.2.1]
  simp only [encodeEvents, List.head?_cons, isPress, Bool.false_eq_true, if_false, foldl_mask_init]
  rw [if_neg (no_overlap_combined kc outer hf.1 ho)]
  simp only [hf.2.2.2.1, ne_eq, not_false_eq_true, if_true, if_false, hcode]

theorem isRelease_of_isPress {h : Option Ev} (hp : isPress h = true) : isRelease h = false := by
  cases h with
  | none => simp [isPress] at hp
  | some e => cases e <;> simp_all [isPress, isRelease]

theorem isPress_head_append {a b : List Ev} (h : isPress a.head? = true) : isPress (a ++ b).head? = true := by
  cases a with
  | nil => simp [isPress] at h
  | cons x a => simpa using h

mutual
  /-- **one key-list item**: the parser's press/release heuristics (`encodeEvents`, started with the
  modifiers `outer` classified as held) store for the item exactly the values that typing its events
  pushes at run time (`codes`, with the same keys down), and leave the same keys held. -/
  theorem enc_item : ∀ (i : Item) (outer seq : List Nat) (rest : List Ev),
      i.typable outer = true → (∀ m ∈ outer, seqMod m = true) →
      encodeEvents (i.events ++ rest) outer seq false =
        encodeEvents rest outer (seq ++ codes i.events outer) (isRelease rest.head?) ∧
      heldAfter i.events outer = outer ∧ isPress i.events.head? = true
    | .key kc, outer, seq, rest, ht, ho => by
      simp only [Item.typable] at ht
      have h := enc_key kc outer seq rest ht ho
      simp only [Item.events, List.cons_append, List.nil_append, codes, heldAfter, List.head?_cons, isPress]
      exact ⟨h.1, by rw [h.2], trivial⟩
    | .chord ms kc, outer, seq, rest, ht, ho => by
      simp only [Item.typable, Bool.and_eq_true, List.all_eq_true, decide_eq_true_eq] at ht
      obtain ⟨⟨hms, hnd⟩, hk⟩ := ht
      have hall : ∀ m ∈ outer ++ ms, seqMod m = true := by
        intro m hm
        rcases List.mem_append.1 hm with h | h
        · exact ho m h
        · exact hms m h
      have hev : (Item.chord ms kc).events =
          ms.map Ev.press ++ (Ev.press kc :: Ev.release kc :: (ms.reverse.map Ev.release)) := by
        simp [Item.events]
      have hp := enc_press_mods ms outer seq false
        (Ev.press kc :: Ev.release kc :: (ms.reverse.map Ev.release ++ rest)) (by simp [isPress]) ho hms
      have hkk := enc_key kc (outer ++ ms) (seq ++ codes (ms.map Ev.press) outer)
        (ms.reverse.map Ev.release ++ rest) hk hall
      have hcodes1 : ∀ tail, codes (ms.map Ev.press ++ (Ev.press kc :: Ev.release kc :: tail)) outer =
          codes (ms.map Ev.press) outer ++ pushedOf kc (modMaskOf (outer ++ ms ++ [kc])) :: codes tail (outer ++ ms) := by
        intro tail
        rw [codes_append, hp.2]
        simp only [codes, hkk.2]
      have hheld1 : ∀ tail, heldAfter (ms.map Ev.press ++ (Ev.press kc :: Ev.release kc :: tail)) outer =
          heldAfter tail (outer ++ ms) := by
        intro tail
        rw [heldAfter_append, hp.2]
        simp only [heldAfter, hkk.2]
      rw [hev]
      refine ⟨?_, ?_, isPress_head_map_press ms _ (by simp [isPress])⟩
      · have : ms.map Ev.press ++ (Ev.press kc :: Ev.release kc :: (ms.reverse.map Ev.release)) ++ rest =
            ms.map Ev.press ++ (Ev.press kc :: Ev.release kc :: (ms.reverse.map Ev.release ++ rest)) := by simp
        rw [this, hp.1, hkk.1, hcodes1]
        cases hms0 : ms with
        | nil => simp [codes]
        | cons m ms' =>
          rw [← hms0]
          have hne : ms.reverse ≠ [] := by rw [hms0]; simp
          have hr := enc_release_rev ms.reverse outer
            (seq ++ codes (ms.map Ev.press) outer ++ [pushedOf kc (modMaskOf (outer ++ ms ++ [kc]))]) rest hne
            (fun m hm => hms m (by simpa using hm)) (by rw [List.reverse_reverse]; exact hnd)
          rw [List.reverse_reverse] at hr
          rw [isRelease_head_map_release]
          have : ms.reverse.isEmpty = false := by rw [hms0]; simp
          simp only [this, Bool.false_eq_true, if_false]
          rw [hr.1, hr.2.2]
          simp [List.append_assoc]
      · rw [hheld1]
        cases hms0 : ms with
        | nil => simp [heldAfter]
        | cons m ms' =>
          rw [← hms0]
          have hne : ms.reverse ≠ [] := by rw [hms0]; simp
          have hr := enc_release_rev ms.reverse outer seq rest hne
            (fun m hm => hms m (by simpa using hm)) (by rw [List.reverse_reverse]; exact hnd)
          rw [List.reverse_reverse] at hr
          exact hr.2.1
    | .held ms body, outer, seq, rest, ht, ho => by
      simp only [Item.typable, Bool.and_eq_true, List.all_eq_true, decide_eq_true_eq, Bool.not_eq_true',
        List.isEmpty_eq_false_iff] at ht
      obtain ⟨⟨⟨hms, hnd⟩, hbne⟩, hbody⟩ := ht
      have hall : ∀ m ∈ outer ++ ms, seqMod m = true := by
        intro m hm
        rcases List.mem_append.1 hm with h | h
        · exact ho m h
        · exact hms m h
      have hdis : ∀ m ∈ ms, m ∉ outer := by
        intro m hm hin
        exact (List.nodup_append.1 hnd).2.2 m hin m hm rfl
      have hev : (Item.held ms body).events = ms.map Ev.press ++ (Item.eventsList body ++ ms.map Ev.release) := by
        simp [Item.events]
      have hbp : isPress (Item.eventsList body).head? = true :=
        (enc_items body (outer ++ ms) seq [] hbne hbody hall).2.2
      have hp := enc_press_mods ms outer seq false (Item.eventsList body ++ (ms.map Ev.release ++ rest))
        (isPress_head_append hbp) ho hms
      have hb := enc_items body (outer ++ ms) (seq ++ codes (ms.map Ev.press) outer) (ms.map Ev.release ++ rest)
        hbne hbody hall
      rw [hev]
      refine ⟨?_, ?_, isPress_head_map_press ms _ (isPress_head_append hbp)⟩
      · have : ms.map Ev.press ++ (Item.eventsList body ++ ms.map Ev.release) ++ rest =
            ms.map Ev.press ++ (Item.eventsList body ++ (ms.map Ev.release ++ rest)) := by simp
        rw [this, hp.1, hb.1]
        rw [codes_append, hp.2, codes_append, hb.2.1]
        cases hms0 : ms with
        | nil => simp [codes]
        | cons m ms' =>
          rw [← hms0]
          have hne : ms ≠ [] := by rw [hms0]; simp
          have hr := enc_release_same ms outer
            (seq ++ codes (ms.map Ev.press) outer ++ codes (Item.eventsList body) (outer ++ ms)) rest hne hms hdis
          rw [isRelease_head_map_release]
          have : ms.isEmpty = false := by rw [hms0]; simp
          simp only [this, Bool.false_eq_true, if_false]
          rw [hr.1, hr.2.2]
          simp [List.append_assoc]
      · rw [heldAfter_append, hp.2, heldAfter_append, hb.2.1]
        cases hms0 : ms with
        | nil => simp [heldAfter]
        | cons m ms' =>
          rw [← hms0]
          have hne : ms ≠ [] := by rw [hms0]; simp
          exact (enc_release_same ms outer seq rest hne hms hdis).2.1
    | .sub body, outer, seq, rest, ht, ho => by
      simp only [Item.typable, Bool.and_eq_true, Bool.not_eq_true', List.isEmpty_eq_false_iff] at ht
      simp only [Item.events]
      exact enc_items body outer seq rest ht.1 ht.2 ho
  theorem enc_items : ∀ (is : List Item) (outer seq : List Nat) (rest : List Ev), is ≠ [] →
      Item.typableList outer is = true → (∀ m ∈ outer, seqMod m = true) →
      encodeEvents (Item.eventsList is ++ rest) outer seq false =
        encodeEvents rest outer (seq ++ codes (Item.eventsList is) outer) (isRelease rest.head?) ∧
      heldAfter (Item.eventsList is) outer = outer ∧ isPress (Item.eventsList is).head? = true
    | [], _, _, _, h, _, _ => absurd rfl h
    | i :: is, outer, seq, rest, _, ht, ho => by
      simp only [Item.typableList, Bool.and_eq_true] at ht
      have hi := enc_item i outer seq (Item.eventsList is ++ rest) ht.1 ho
      simp only [Item.eventsList]
      refine ⟨?_, ?_, isPress_head_append hi.2.2⟩
      · rw [List.append_assoc, hi.1, codes_append, hi.2.1]
        cases his : is with
        | nil => simp [Item.eventsList, codes]
        | cons i' is' =>
          rw [← his]
          have hne : is ≠ [] := by rw [his]; simp
          have hr := enc_items is outer (seq ++ codes i.events outer) rest hne ht.2 ho
          rw [isRelease_of_isPress (isPress_head_append hr.2.2), hr.1]
          simp [List.append_assoc]
      · rw [heldAfter_append, hi.2.1]
        cases his : is with
        | nil => simp [Item.eventsList, heldAfter]
        | cons i' is' =>
          rw [← his]
          have hne : is ≠ [] := by rw [his]; simp
          exact (enc_items is outer seq rest hne ht.2 ho).2.1
end

def evKey : Ev → Nat
  | .press k => k
  | .release k => k

/-- the keys pressed by a stream of key events, in order -/
def pressedOf : List Ev → List Nat
  | [] => []
  | .press k :: r => k :: pressedOf r
  | .release _ :: r => pressedOf r

theorem keysOfM_append : ∀ (a b : List InpM), keysOfM (a ++ b) = keysOfM a ++ keysOfM b
  | [], b => rfl
  | .key k mm :: a, b => by simp [keysOfM, keysOfM_append a b]
  | .tick :: a, b => by simp [keysOfM, keysOfM_append a b]
  | .released :: a, b => by simp [keysOfM, keysOfM_append a b]

theorem keysOfM_callsOf : ∀ (p : List PEv) (held : List Nat),
    keysOfM (callsOf p held) = pressedOf (evsOf p)
  | [], _ => rfl
  | .press k :: r, held => by simp [callsOf, keysOfM, evsOf, pressedOf, keysOfM_callsOf r]
  | .release k :: r, held => by
    simp only [callsOf, evsOf, pressedOf, keysOfM_append, keysOfM_callsOf r]
    split <;> simp [keysOfM]
  | .tick :: r, held => by simp [callsOf, keysOfM, evsOf, keysOfM_callsOf r]

mutual
  theorem typable_facts : ∀ (i : Item) (outer : List Nat), i.typable outer = true →
      i.hasEmptySub = false ∧ ∀ e ∈ i.events, (seqMod (evKey e) || seqKey (evKey e)) = true
    | .key kc, outer, ht => by
      simp only [Item.typable] at ht
      simp [Item.hasEmptySub, Item.events, evKey, ht]
    | .chord ms kc, outer, ht => by
      simp only [Item.typable, Bool.and_eq_true, List.all_eq_true, decide_eq_true_eq] at ht
      refine ⟨rfl, ?_⟩
      intro e he
      simp only [Item.events, List.mem_append, List.mem_map, List.mem_reverse, List.mem_singleton] at he
      rcases he with ⟨a, ha, rfl⟩ | ⟨a, ha, rfl⟩ <;> rcases ha with ha | ha
      · simp [evKey, ht.1.1 a ha]
      · simp [evKey, ha, ht.2]
      · simp [evKey, ht.1.1 a ha]
      · simp [evKey, ha, ht.2]
    | .held ms body, outer, ht => by
      simp only [Item.typable, Bool.and_eq_true, List.all_eq_true, decide_eq_true_eq, Bool.not_eq_true',
        List.isEmpty_eq_false_iff] at ht
      have hb := typable_facts_list body (outer ++ ms) ht.2
      refine ⟨by simp only [Item.hasEmptySub]; exact hb.1, ?_⟩
      intro e he
      simp only [Item.events, List.mem_append, List.mem_map] at he
      rcases he with (⟨a, ha, rfl⟩ | he) | ⟨a, ha, rfl⟩
      · simp [evKey, ht.1.1.1 a ha]
      · exact hb.2 e he
      · simp [evKey, ht.1.1.1 a ha]
    | .sub body, outer, ht => by
      simp only [Item.typable, Bool.and_eq_true, Bool.not_eq_true', List.isEmpty_eq_false_iff] at ht
      have hb := typable_facts_list body outer ht.2
      refine ⟨?_, by simp only [Item.events]; exact hb.2⟩
      simp only [Item.hasEmptySub, Bool.or_eq_false_iff]
      exact ⟨by cases body <;> simp_all, hb.1⟩
  theorem typable_facts_list : ∀ (is : List Item) (outer : List Nat), Item.typableList outer is = true →
      Item.hasEmptySubList is = false ∧ ∀ e ∈ Item.eventsList is, (seqMod (evKey e) || seqKey (evKey e)) = true
    | [], _, _ => by simp [Item.hasEmptySubList, Item.eventsList]
    | i :: is, outer, ht => by
      simp only [Item.typableList, Bool.and_eq_true] at ht
      have h1 := typable_facts i outer ht.1
      have h2 := typable_facts_list is outer ht.2
      refine ⟨by simp [Item.hasEmptySubList, h1.1, h2.1], ?_⟩
      intro e he
      simp only [Item.eventsList, List.mem_append] at he
      rcases he with he | he
      · exact h1.2 e he
      · exact h2.2 e he
end

/-- **parse_sequence_keys stores what typing pushes**: for a key list that can be typed as spelled,
the parser's encoding is the list of values `do_sequence_press_logic` pushes when the list's own
press/release expansion is typed (each press with the mask of the keys then down). -/
theorem parseSequenceKeys_codes : ∀ (is : List Item), Item.typableList [] is = true →
    parseSequenceKeys is = .ok (codes (Item.eventsList is) [])
  | [], _ => rfl
  | i :: is, ht => by
    simp only [Item.typableList, Bool.and_eq_true] at ht
    have hi := enc_item i [] [] [] ht.1 (by simp)
    have hf := typable_facts i [] ht.1
    have ih := parseSequenceKeys_codes is ht.2
    simp only [List.append_nil, List.nil_append, encodeEvents] at hi
    simp only [parseSequenceKeys, hf.1, Bool.false_eq_true, if_false, hi.1, ih, Item.eventsList]
    rw [codes_append, hi.2.1]

theorem modMaskOf_no_marker' (l : List Nat) (h : ∀ m ∈ l, modMask m &&& KEY_OVERLAP_MARKER = 0) :
    modMaskOf l &&& KEY_OVERLAP_MARKER = 0 := by
  have : ∀ (l : List Nat), (∀ m ∈ l, modMask m &&& KEY_OVERLAP_MARKER = 0) → ∀ a, a &&& KEY_OVERLAP_MARKER = 0 →
      l.foldl (fun a m => a ||| modMask m) a &&& KEY_OVERLAP_MARKER = 0 := by
    intro l
    induction l with
    | nil => intro _ a ha; exact ha
    | cons x l ih =>
      intro hl a ha
      simp only [List.foldl_cons]
      apply ih (fun m hm => hl m (by simp [hm]))
      rw [Nat.and_or_distrib_right, ha, hl x (by simp)]
      rfl
  exact this l h 0 (by decide)

theorem okKey_facts (k : Nat) (h : (seqMod k || seqKey k) = true) :
    normaliseMod k &&& KEY_OVERLAP_MARKER = 0 ∧ modMask k &&& KEY_OVERLAP_MARKER = 0 := by
  simp only [Bool.or_eq_true] at h
  rcases h with h | h
  · have := seqMod_facts k h
    rw [this.2.1]
    exact ⟨and_marker_of_lt k this.1, this.2.2.2⟩
  · have := seqKey_facts k h
    rw [this.2.2.1, this.2.1]
    exact ⟨and_marker_of_lt k this.1, by decide⟩

theorem codes_no_ovl : ∀ (evs : List Ev) (held : List Nat),
    (∀ e ∈ evs, (seqMod (evKey e) || seqKey (evKey e)) = true) →
    (∀ m ∈ held, modMask m &&& KEY_OVERLAP_MARKER = 0) →
    ∀ x ∈ codes evs held, x &&& KEY_OVERLAP_MARKER = 0
  | [], _, _, _, x, hx => by simp [codes] at hx
  | .press k :: r, held, he, hh, x, hx => by
    have hk := okKey_facts k (he (.press k) (by simp))
    have hh' : ∀ m ∈ held ++ [k], modMask m &&& KEY_OVERLAP_MARKER = 0 := by
      intro m hm
      rcases List.mem_append.1 hm with h | h
      · exact hh m h
      · simp at h; rw [h]; exact hk.2
    simp only [codes, List.mem_cons] at hx
    rcases hx with hx | hx
    · rw [hx, pushedOf, Nat.and_or_distrib_right, hk.1, modMaskOf_no_marker' _ hh']; rfl
    · exact codes_no_ovl r (held ++ [k]) (fun e h => he e (by simp [h])) hh' x hx
  | .release k :: r, held, he, hh, x, hx => by
    simp only [codes] at hx
    exact codes_no_ovl r (held.erase k) (fun e h => he e (by simp [h]))
      (fun m hm => hh m (List.mem_of_mem_erase hm)) x hx

theorem orderingsF_noovl : ∀ (f : Nat) (seq : List Nat), seq.length ≤ f →
    (∀ x ∈ seq, x &&& KEY_OVERLAP_MARKER = 0) → orderingsF f seq = some [seq]
  | _, [], _, _ => by cases ‹Nat› <;> rfl
  | 0, _ :: _, h, _ => by simp at h
  | f + 1, v :: rest, h, hx => by
    have ih := orderingsF_noovl f rest (by simp at h; omega) (fun x hx' => hx x (by simp [hx']))
    simp [orderingsF, hx v (by simp), ih]

theorem tableOrderings_mem : ∀ (tbl : List (Nat × List Item)) (pairs : List (Key × Nat)),
    tableOrderings encOf tbl = some pairs → ∀ v items, (v, items) ∈ tbl →
      ∃ seq os, encOf items = some seq ∧ orderings seq = some os ∧ ∀ o ∈ os, (o, v) ∈ pairs
  | [], _, _, v, items, hm => by simp at hm
  | e :: es, pairs, h, v, items, hm => by
    simp only [tableOrderings] at h
    cases henc : encOf e.2 with
    | none => simp [henc] at h
    | some seq =>
      simp only [henc] at h
      cases ho : orderings seq with
      | none => simp [ho] at h
      | some os =>
        cases hr : tableOrderings encOf es with
        | none => simp [ho, hr] at h
        | some rest =>
          simp only [ho, hr, Option.some.injEq] at h
          rcases List.mem_cons.1 hm with heq | hm'
          · refine ⟨seq, os, by rw [← henc, ← heq], ho, fun o ho' => ?_⟩
            rw [← h, ← heq]
            simp only [List.mem_append, List.mem_map]
            exact Or.inl ⟨o, ho', rfl⟩
          · obtain ⟨seq', os', h1, h2, h3⟩ := tableOrderings_mem es rest hr v items hm'
            exact ⟨seq', os', h1, h2, fun o ho' => by rw [← h]; exact List.mem_append.2 (Or.inr (h3 o ho'))⟩

/-- what an accepted table stores for a key list that can be typed as spelled: the word its own
press/release expansion pushes at run time, with the entry's virtual key -/
theorem typable_stored {tbl : List (Nat × List Item)} {t : Trie Nat} (h : parseSequences tbl = .ok t)
    {v : Nat} {items : List Item} (hm : (v, items) ∈ tbl) (ht : Item.typableList [] items = true) :
    (codes (Item.eventsList items) [], v) ∈ t.entries := by
  obtain ⟨_, pairs, hp, hmem⟩ := parseFrom_ok tbl Trie.empty t h (by simp [TrieOK, Trie.keys, Trie.empty])
  obtain ⟨seq, os, henc, hos, hall⟩ := tableOrderings_mem tbl pairs hp v items hm
  have hseq : seq = codes (Item.eventsList items) [] := by
    unfold encOf at henc
    rw [parseSequenceKeys_codes items ht] at henc
    split at henc
    · simp at henc
    · simpa using henc.symm
  have hno : ∀ x ∈ seq, x &&& KEY_OVERLAP_MARKER = 0 := by
    rw [hseq]
    exact codes_no_ovl _ [] (typable_facts_list items [] ht).2 (by simp)
  have : os = [seq] := by
    have := orderingsF_noovl seq.length seq (Nat.le_refl _) hno
    unfold orderings at hos
    rw [this] at hos
    simpa using hos.symm
  rw [← hseq]
  exact (hmem (seq, v)).2 (Or.inl (hall seq (by rw [this]; simp)))

/-! ### the stripped forms, specialised -/

/-- what the loop does to an element that is not a bare marker -/
def strip (mc : Bool) (x : Nat) : Nat := if mc then x &&& MASK_KEYCODES else x &&& NOT_OVERLAP_MARKER

theorem filterMap_stripOpt_of_no_marker (mc : Bool) : ∀ (l : List Nat), (∀ x ∈ l, x ≠ KEY_OVERLAP_MARKER) →
    l.filterMap (stripOpt mc) = l.map (strip mc)
  | [], _ => rfl
  | x :: l, h => by
    have hx := h x (by simp)
    simp only [List.filterMap_cons, stripOpt, hx, if_false, List.map_cons, strip]
    rw [filterMap_stripOpt_of_no_marker mc l (fun y hy => h y (by simp [hy]))]

/-- on a sequence without bare markers the `i`-th form keeps the first `i` elements and strips the rest -/
theorem btForm_no_marker (mc : Bool) (seq : List Nat) (i : Nat) (h : ∀ x ∈ seq, x ≠ KEY_OVERLAP_MARKER) :
    btForm mc seq i = seq.take i ++ (seq.drop i).map (strip mc) := by
  unfold btForm
  rw [filterMap_stripOpt_of_no_marker mc _ (fun x hx => h x (List.mem_of_mem_drop hx))]

theorem and_notmarker_id {x : Nat} (hlt : x < 65536) (hb : x &&& KEY_OVERLAP_MARKER = 0) :
    x &&& NOT_OVERLAP_MARKER = x := by
  have h1 : x &&& 65535 = x := by
    have := Nat.and_two_pow_sub_one_eq_mod x 16
    have h2 : (2 : Nat) ^ 16 - 1 = 65535 := by decide
    rw [h2] at this
    rw [this]; exact Nat.mod_eq_of_lt hlt
  have h3 : (65535 : Nat) = NOT_OVERLAP_MARKER ||| KEY_OVERLAP_MARKER := by decide
  rw [h3, Nat.and_or_distrib_left, hb, Nat.or_zero] at h1
  exact h1

theorem map_strip_false_id : ∀ (l : List Nat), (∀ x ∈ l, x < 65536 ∧ x &&& KEY_OVERLAP_MARKER = 0) →
    l.map (strip false) = l
  | [], _ => rfl
  | x :: l, h => by
    have hx := h x (by simp)
    simp only [List.map_cons, strip, Bool.false_eq_true, if_false, and_notmarker_id hx.1 hx.2]
    rw [map_strip_false_id l (fun y hy => h y (by simp [hy]))]

theorem ne_marker_of_no_ovl {x : Nat} (h : x &&& KEY_OVERLAP_MARKER = 0) : x ≠ KEY_OVERLAP_MARKER := by
  intro he; rw [he] at h; exact marker_ovl h

/-- without `sequence-backtrack-modcancel` the loop changes nothing in a sequence of u16 values that
carry no overlap bit: every form is the sequence itself -/
theorem btForm_false_id (seq : List Nat) (i : Nat) (h : ∀ x ∈ seq, x < 65536 ∧ x &&& KEY_OVERLAP_MARKER = 0) :
    btForm false seq i = seq := by
  rw [btForm_no_marker false seq i (fun x hx => ne_marker_of_no_ovl (h x hx).2),
    map_strip_false_id _ (fun x hx => h x (List.mem_of_mem_drop hx)), List.take_append_drop]

theorem btFind_false_none (t : Trie Nat) (seq : List Nat)
    (h : ∀ x ∈ seq, x < 65536 ∧ x &&& KEY_OVERLAP_MARKER = 0) (hv : viable t.entries seq = false) :
    ∀ n, btFind t false seq n = none := by
  intro n
  exact btFind_none.2 (fun j _ => by rw [btForm_false_id seq j h]; exact hv)

theorem btForm_snoc (mc : Bool) (seq : List Nat) (p i : Nat) (hi : i ≤ seq.length)
    (hp : p ≠ KEY_OVERLAP_MARKER) : btForm mc (seq ++ [p]) i = btForm mc seq i ++ [strip mc p] := by
  unfold btForm
  rw [List.take_append_of_le_length hi, List.drop_append_of_le_length hi, List.filterMap_append]
  simp [stripOpt, hp, strip]

/-! ### tables that mix modifier sequences and `O-(…)` groups: the exact path -/

/-- adjacent pairs of a key -/
def adjPairs (k : Key) : List (Nat × Nat) := k.zip k.tail

theorem mem_adjPairs (a : Key) (x y : Nat) (b : Key) : (x, y) ∈ adjPairs (a ++ x :: y :: b) := by
  induction a with
  | nil => simp [adjPairs]
  | cons z a ih =>
    cases a with
    | nil => simp [adjPairs]
    | cons z' a' =>
      simp only [adjPairs, List.cons_append, List.tail_cons, List.zip_cons_cons, List.mem_cons] at ih ⊢
      exact Or.inr ih

/-- a bare marker is never the first element of the key nor directly preceded by an element without
the overlap bit (markers only close `O-(…)` groups) -/
def markerOK (k : Key) : Bool :=
  (k.head? != some KEY_OVERLAP_MARKER) &&
    (adjPairs k).all (fun p => !(p.2 == KEY_OVERLAP_MARKER) || (p.1 &&& KEY_OVERLAP_MARKER != 0))

def markerWF (tbl : List (Key × Nat)) : Bool := tbl.all (fun e => markerOK e.1)

/-- the value a key has as a member of an `O-(…)` group (`pushed_into_overlap_seq`) -/
def ovlForm (x : Nat) : Nat := (x &&& MASK_KEYCODES) ||| KEY_OVERLAP_MARKER

/-- no key of the word `s` occurs in the table as a member of an `O-(…)` group -/
def ovlFormFree (tbl : List (Key × Nat)) (s : Key) : Bool :=
  s.all (fun x => tbl.all (fun e => !e.1.contains (ovlForm x)))

theorem not_viable_of_absent {tbl : List (Key × Nat)} {w : Key} {y : Nat}
    (h : ∀ e ∈ tbl, y ∉ e.1) (hy : y ∈ w) : viable tbl w = false := by
  cases hv : viable tbl w with
  | false => rfl
  | true =>
    exfalso
    simp only [viable, List.any_eq_true, List.isPrefixOf_iff_prefix] at hv
    obtain ⟨e, he, hpre⟩ := hv
    exact h e he (hpre.subset hy)

/-- the last element, if any, carries no overlap bit -/
def lastPlain (S : Key) : Prop := ∀ z, S.getLast? = some z → z &&& KEY_OVERLAP_MARKER = 0

theorem not_viable_marker_after {tbl : List (Key × Nat)} (hw : markerWF tbl = true) {S : Key}
    (hS : lastPlain S) (tail : Key) : viable tbl (S ++ KEY_OVERLAP_MARKER :: tail) = false := by
  cases hv : viable tbl (S ++ KEY_OVERLAP_MARKER :: tail) with
  | false => rfl
  | true =>
    exfalso
    simp only [viable, List.any_eq_true, List.isPrefixOf_iff_prefix] at hv
    obtain ⟨e, he, ⟨r, hr⟩⟩ := hv
    simp only [markerWF, List.all_eq_true] at hw
    have hk := hw e he
    simp only [markerOK, Bool.and_eq_true, bne_iff_ne, ne_eq, List.all_eq_true, Bool.or_eq_true,
      Bool.not_eq_true', beq_eq_false_iff_ne] at hk
    rcases List.eq_nil_or_concat S with hnil | ⟨S', z, hSz⟩
    · subst hnil
      apply hk.1
      rw [← hr]; simp
    · subst hSz
      have hz : z &&& KEY_OVERLAP_MARKER = 0 := hS z (by simp)
      have hmem : (z, KEY_OVERLAP_MARKER) ∈ adjPairs e.1 := by
        rw [← hr]
        have := mem_adjPairs S' z KEY_OVERLAP_MARKER (tail ++ r)
        simpa [List.append_assoc] using this
      rcases hk.2 _ hmem with h | h
      · exact h rfl
      · exact h hz

theorem overlapFix_mixed {t : Trie Nat} (hw : markerWF t.entries = true) {O : Key} (hO : lastPlain O)
    (p : Nat) (habs : ∀ e ∈ t.entries, ovlForm p ∉ e.1) :
    ∃ O', overlapFix t O p ((p &&& MASK_KEYCODES) ||| KEY_OVERLAP_MARKER) = (O', .notInTrie, true) := by
  have n0 : t.getOrDescendant (O ++ [ovlForm p]) = .notInTrie :=
    notInTrie_of_not_viable (not_viable_of_absent habs (by simp))
  have n1 : t.getOrDescendant (O ++ [KEY_OVERLAP_MARKER, ovlForm p]) = .notInTrie :=
    notInTrie_of_not_viable (not_viable_of_absent habs (by simp))
  have n2 : ∀ y, t.getOrDescendant (O ++ [KEY_OVERLAP_MARKER, y]) = .notInTrie := fun y =>
    notInTrie_of_not_viable (not_viable_marker_after hw hO [y])
  unfold overlapFix
  unfold ovlForm at n0 n1
  simp only [n0, n1, n2, Trie.GetRes.isNot, Bool.not_true, Bool.false_eq_true, if_false]
  split
  · exact ⟨_, rfl⟩
  · exact ⟨_, rfl⟩

theorem press_mixed_aux {t : Trie Nat} (mc : Bool) (b : Eng) (S O' : Key) (p : Nat)
    (hv : viable t.entries (S ++ [p]) = true) :
    finish t (reconcile t b (stdVariant t mc (S ++ [p])) (O', .notInTrie, true)) =
      (let w0 := S ++ [p]
       let e2 : Eng := { b with st := { b.st with sequence := w0, overlapped := w0 } }
       match lookupKey t.entries w0 with
       | some j => terminate e2 j true
       | none => e2) := by
  simp only [stdVariant_eq, hv, if_true, reconcile, finish]
  rw [getOrDescendant_of_lookup hv]
  cases hl : lookupKey t.entries (S ++ [p]) with
  | some j => rfl
  | none => rfl

/-- one key that extends the tracked word to a word still in the trie, on a table that may contain
`O-(…)` groups — provided the key does not occur in the table as a group member -/
theorem key_exact_mixed {t : Trie Nat} (hw : markerWF t.entries = true) (mc : Bool) (e : Eng) (k mm : Nat)
    (hO : lastPlain e.st.overlapped) (habs : ∀ x ∈ t.entries, ovlForm (pushedOf k mm) ∉ x.1)
    (hv : viable t.entries (e.st.sequence ++ [pushedOf k mm]) = true) :
    doSeqPress t mc e k mm =
      (let w0 := e.st.sequence ++ [pushedOf k mm]
       let e2 : Eng := { pressBase e k with st := { (pressBase e k).st with sequence := w0, overlapped := w0 } }
       match lookupKey t.entries w0 with
       | some j => terminate e2 j true
       | none => e2) := by
  obtain ⟨O', hO'⟩ := overlapFix_mixed hw hO (pushedOf k mm) habs
  unfold pushedOf at hO' hv ⊢
  show finish t (reconcile t (pressBase e k) (stdVariant t mc (e.st.sequence ++ [normaliseMod k ||| mm]))
    (overlapFix t e.st.overlapped (normaliseMod k ||| mm)
      ((normaliseMod k ||| mm) &&& MASK_KEYCODES ||| KEY_OVERLAP_MARKER))) = _
  rw [hO']
  exact press_mixed_aux mc (pressBase e k) e.st.sequence O' _ hv

theorem allReleasedHook_mixed {t : Trie Nat} (hw : markerWF t.entries = true) (e : Eng)
    (ha : e.st.active = true) (hO : lastPlain e.st.overlapped) :
    allReleasedHook t e = { e with st := { e.st with overlapped := e.st.sequence } } := by
  have : t.getOrDescendant (e.st.overlapped ++ [KEY_OVERLAP_MARKER]) = .notInTrie :=
    notInTrie_of_not_viable (not_viable_marker_after hw hO [])
  simp [allReleasedHook, ha, this]

theorem lastPlain_of_all {S : Key} (h : ∀ x ∈ S, x &&& KEY_OVERLAP_MARKER = 0) : lastPlain S := by
  intro z hz
  exact h z (List.mem_of_getLast? hz)

/-- **typing a stored word exactly, on any table** (modifier sequences next to `O-(…)` groups): the
word has no overlap elements, none of its keys occurs in the table as a group member, and markers
only close groups. -/
theorem run_exact_mixed {t : Trie Nat} (hw : markerWF t.entries = true) (hok : TrieOK t) (mc : Bool)
    {s : Key} {j : Nat} (hs : (s, j) ∈ t.entries) (hso : ∀ x ∈ s, x &&& KEY_OVERLAP_MARKER = 0)
    (hfree : ovlFormFree t.entries s = true) :
    ∀ (is : List InpM) (e : Eng) (b : Nat), e.st.active = true → e.st.ticksUntilTimeout = b → 0 < b →
      0 < e.st.timeout → e.st.sequence ++ pushesOf is = s → pushesOf is ≠ [] →
      lastPlain e.st.overlapped → WellTimedM e.st.timeout b is →
      ∃ e', engRunM t mc e is = .ok e' ∧ e'.st.active = false ∧ e'.taps = e.taps ++ [j] ∧
        e'.st.mode = e.st.mode ∧
        (e.st.mode ≠ .visibleBackspaced → e'.out = e.out) ∧
        (e.st.mode = .visibleBackspaced → ∃ rel : List Nat,
          e'.out = e.out ++ (keysOfM is).flatMap osPress ++ rel.flatMap osRelease ++
            bsTaps (charCount s - e.st.noerase))
  | [], e, b, _, _, _, _, _, hp, _, _ => by simp [pushesOf] at hp
  | .tick :: r, e, b, ha, hb, hb0, hT, hsq, hp, hO, hwt => by
    simp only [WellTimedM] at hwt
    simp only [pushesOf] at hsq hp
    have hk : hasKey r = true := (hasKey_of_pushes r).1 hp
    have h1b := hwt.1 hk
    have hstep : engStepM t mc e .tick = .ok { e with st := { e.st with ticksUntilTimeout := b - 1 } } := by
      simp only [engStepM, tickSeq, ha, Bool.not_true, Bool.false_eq_true, if_false, hb]
      have h1 : ¬ b = 0 := by omega
      have h2 : ¬ b - 1 = 0 := by omega
      simp [h1, h2]
    obtain ⟨e', h1, h2⟩ := run_exact_mixed hw hok mc hs hso hfree r
      { e with st := { e.st with ticksUntilTimeout := b - 1 } } (b - 1) ha rfl (by omega) hT hsq hp hO hwt.2
    exact ⟨e', by simp only [engRunM, hstep]; exact h1, h2⟩
  | .released :: r, e, b, ha, hb, hb0, hT, hsq, hp, hO, hwt => by
    simp only [WellTimedM] at hwt
    simp only [pushesOf] at hsq hp
    have hstep : engStepM t mc e .released = .ok { e with st := { e.st with overlapped := e.st.sequence } } := by
      simp only [engStepM, allReleasedHook_mixed hw e ha hO]
    have hO' : lastPlain e.st.sequence := lastPlain_of_all (fun x hx => hso x (by rw [← hsq]; simp [hx]))
    obtain ⟨e', h1, h2⟩ := run_exact_mixed hw hok mc hs hso hfree r
      { e with st := { e.st with overlapped := e.st.sequence } } b ha hb hb0 hT hsq hp hO' hwt
    exact ⟨e', by simp only [engRunM, hstep]; exact h1, h2⟩
  | .key k mm :: r, e, b, ha, hb, hb0, hT, hsq, hp, hO, hwt => by
    simp only [WellTimedM] at hwt
    simp only [pushesOf] at hsq
    have hpre : (e.st.sequence ++ [pushedOf k mm]) ++ pushesOf r = s := by rw [← hsq]; simp
    have hvi : viable t.entries (e.st.sequence ++ [pushedOf k mm]) = true :=
      viable_of_prefix hs ⟨pushesOf r, hpre⟩
    have hpin : pushedOf k mm ∈ s := by rw [← hpre]; simp
    have habs : ∀ x ∈ t.entries, ovlForm (pushedOf k mm) ∉ x.1 := by
      simp only [ovlFormFree, List.all_eq_true, Bool.not_eq_true', List.contains_eq_mem,
        decide_eq_false_iff_not] at hfree
      exact hfree _ hpin
    have hks := key_exact_mixed hw mc e k mm hO habs hvi
    have pf := pressBase_fieldsM e k
    simp only at hks
    by_cases hr : pushesOf r = []
    · have hw0 : e.st.sequence ++ [pushedOf k mm] = s := by rw [← hpre, hr]; simp
      rw [hw0, lookupKey_of_mem hok hs] at hks
      simp only at hks
      have hidle := engRunM_idle t mc r _ (terminate_fields
        { pressBase e k with st := { (pressBase e k).st with sequence := s, overlapped := s } } j true).1
        (hasKey_false_of_pushes hr)
      have tf := terminate_fields
        { pressBase e k with st := { (pressBase e k).st with sequence := s, overlapped := s } } j true
      refine ⟨_, by simp only [engRunM, engStepM, ha, if_true, hks]; exact hidle, tf.1, ?_, ?_, ?_, ?_⟩
      · rw [tf.2.1]; show (pressBase e k).taps ++ [j] = _; rw [pf.2.1]
      · rw [tf.2.2.1]; exact pf.2.2.2.2.1
      · intro hm
        rw [tf.2.2.2 (by show (pressBase e k).st.mode ≠ _; rw [pf.2.2.2.2.1]; exact hm)]
        show (pressBase e k).out = _
        rw [pf.2.2.2.2.2.2.2.2]; simp [hm]
      · intro hm
        obtain ⟨rel, hrel⟩ := terminate_visible_out
          { pressBase e k with st := { (pressBase e k).st with sequence := s, overlapped := s } } j true
          (by show (pressBase e k).st.mode = _; rw [pf.2.2.2.2.1]; exact hm)
        refine ⟨rel, ?_⟩
        rw [hrel]
        show (pressBase e k).out ++ _ ++ (List.replicate (charCount s - (pressBase e k).st.noerase) _).flatten = _
        have hkr : keysOfM r = [] := keysOfM_of_no_key r (hasKey_false_of_pushes hr)
        rw [pf.2.2.2.2.2.2.2.2, pf.2.2.2.2.2.2.1]
        simp [hm, keysOfM, hkr, bsTaps]
    · have hnone : lookupKey t.entries (e.st.sequence ++ [pushedOf k mm]) = none :=
        lookupKey_none_of_proper_prefix hok hs _ _ hpre hr
      rw [hnone] at hks
      simp only at hks
      have hO' : lastPlain (e.st.sequence ++ [pushedOf k mm]) :=
        lastPlain_of_all (fun x hx => hso x (by rw [← hpre]; exact List.mem_append_left _ hx))
      obtain ⟨e', h1, h2a, h2b, h2m, h2c, h2d⟩ := run_exact_mixed hw hok mc hs hso hfree r
        { pressBase e k with st := { (pressBase e k).st with
            sequence := e.st.sequence ++ [pushedOf k mm], overlapped := e.st.sequence ++ [pushedOf k mm] } }
        e.st.timeout (pf.1.trans ha) pf.2.2.2.2.2.2.2.1 hT
        (by show 0 < (pressBase e k).st.timeout; rw [pf.2.2.2.2.2.1]; exact hT) hpre hr hO'
        (by show WellTimedM (pressBase e k).st.timeout _ _; rw [pf.2.2.2.2.2.1]; exact hwt)
      refine ⟨e', by simp only [engRunM, engStepM, ha, if_true, hks]; exact h1, h2a, ?_, ?_, ?_, ?_⟩
      · rw [h2b]; show (pressBase e k).taps ++ [j] = _; rw [pf.2.1]
      · rw [h2m]; exact pf.2.2.2.2.1
      · intro hm
        rw [h2c (by show (pressBase e k).st.mode ≠ _; rw [pf.2.2.2.2.1]; exact hm)]
        show (pressBase e k).out = _
        rw [pf.2.2.2.2.2.2.2.2]; simp [hm]
      · intro hm
        obtain ⟨rel, hrel⟩ := h2d (by show (pressBase e k).st.mode = _; rw [pf.2.2.2.2.1]; exact hm)
        refine ⟨rel, ?_⟩
        rw [hrel]
        show (pressBase e k).out ++ _ ++ _ ++ bsTaps (charCount s - (pressBase e k).st.noerase) = _
        rw [pf.2.2.2.2.2.2.2.2, pf.2.2.2.2.2.2.1]
        simp [hm, keysOfM]

theorem noOvl_markerWF {tbl : List (Key × Nat)} (h : noOvlTable tbl = true) : markerWF tbl = true := by
  simp only [noOvlTable, List.all_eq_true, beq_iff_eq] at h
  simp only [markerWF, markerOK, List.all_eq_true, Bool.and_eq_true, bne_iff_ne, ne_eq, Bool.or_eq_true,
    Bool.not_eq_true', beq_eq_false_iff_ne]
  intro e he
  have hm : ∀ x ∈ e.1, x ≠ KEY_OVERLAP_MARKER := fun x hx => ne_marker_of_no_ovl (h e he x hx)
  constructor
  · intro hh
    cases hk : e.1 with
    | nil => simp [hk] at hh
    | cons a k =>
      rw [hk] at hh
      simp only [List.head?_cons, Option.some.injEq] at hh
      exact hm a (by rw [hk]; simp) hh
  · intro p hp
    left
    have : p.2 ∈ e.1.tail := (List.of_mem_zip hp).2
    exact hm p.2 (List.mem_of_mem_tail this)

theorem noOvl_ovlFormFree {tbl : List (Key × Nat)} (h : noOvlTable tbl = true) (s : Key) :
    ovlFormFree tbl s = true := by
  simp only [noOvlTable, List.all_eq_true, beq_iff_eq] at h
  simp only [ovlFormFree, List.all_eq_true, Bool.not_eq_true', List.contains_eq_mem, decide_eq_false_iff_not]
  intro x _ e he hin
  exact or_marker_ovl _ (h e he _ hin)

/-! ### a plain table typed while unrelated modifiers are held -/

theorem plainTrie_noOvl {t : Trie Nat} (hp : PlainTrie t) : NoOvlTrie t := by
  simp only [PlainTrie, plainTable, List.all_eq_true, Bool.and_eq_true] at hp
  simp only [NoOvlTrie, noOvlTable, List.all_eq_true, beq_iff_eq]
  intro e he x hx
  exact and_marker_of_lt x (plainKey_lt ((hp e he).1 x hx))

theorem plainTrie_no_empty {t : Trie Nat} (hp : PlainTrie t) : ∀ j, t.getOrDescendant [] ≠ .hasValue j := by
  intro j; rw [getOrDescendant_eq t [], lookupKey_nil_of_plain hp]
  show (if viable t.entries [] = true then Trie.GetRes.inTrie else Trie.GetRes.notInTrie) ≠ _
  split <;> simp

/-- a mask made of modifier bits only (bits 11..15) -/
theorem mask_low_zero {mm : Nat} (h : mm % 2048 = 0) :
    mm &&& MASK_KEYCODES = 0 ∧ mm &&& KEY_OVERLAP_MARKER = 0 := by
  have h1 : mm &&& 2047 = 0 := by
    have := Nat.and_two_pow_sub_one_eq_mod mm 11
    have h2 : (2 : Nat) ^ 11 - 1 = 2047 := by decide
    rw [h2] at this; rw [this]; exact h
  constructor
  · have : MASK_KEYCODES = 2047 &&& MASK_KEYCODES := by decide
    rw [this, ← Nat.and_assoc, h1]; simp
  · have : KEY_OVERLAP_MARKER = 2047 &&& KEY_OVERLAP_MARKER := by decide
    rw [this, ← Nat.and_assoc, h1]; simp

theorem masked_plain_facts {k mm : Nat} (hk : k < 1024) (hm : mm % 2048 = 0) :
    (k ||| mm) &&& MASK_KEYCODES = k ∧ (k ||| mm) &&& KEY_OVERLAP_MARKER = 0 := by
  have hl := mask_low_zero hm
  constructor
  · rw [Nat.and_or_distrib_right, and_mask_of_lt k hk, hl.1]; simp
  · rw [Nat.and_or_distrib_right, and_marker_of_lt k hk, hl.2]; rfl

theorem map_strip_true_plain : ∀ (l : List Nat), (∀ x ∈ l, x < 1024) → l.map (strip true) = l
  | [], _ => rfl
  | x :: l, h => by
    simp only [List.map_cons, strip, if_true, and_mask_of_lt x (h x (by simp))]
    rw [map_strip_true_plain l (fun y hy => h y (by simp [hy]))]

theorem btForm_true_plain (seq : List Nat) (i : Nat) (h : ∀ x ∈ seq, x < 1024) : btForm true seq i = seq := by
  rw [btForm_no_marker true seq i (fun x hx => by have := h x hx; unfold KEY_OVERLAP_MARKER; omega),
    map_strip_true_plain _ (fun x hx => h x (List.mem_of_mem_drop hx)), List.take_append_drop]

theorem doSeqPress_congr_pushed (t : Trie Nat) (mc : Bool) (e : Eng) (k mm mm' : Nat)
    (h : normaliseMod k ||| mm = normaliseMod k ||| mm') : doSeqPress t mc e k mm = doSeqPress t mc e k mm' := by
  unfold doSeqPress
  simp only [h]

/-- **`sequence-backtrack-modcancel yes`, plain table**: a plain key pressed while modifiers are held
(any mask of modifier bits) is processed exactly as if none were held. -/
theorem doSeqPress_modcancel_plain {t : Trie Nat} (hp : PlainTrie t) (e : Eng) {k : Nat} (mm : Nat)
    (hk : plainKey k = true) (hs : ∀ x ∈ e.st.sequence, x < 1024) (hm : mm % 2048 = 0) :
    doSeqPress t true e k mm = doSeqPress t true e k 0 := by
  have hk1 := plainKey_lt hk
  have hf := masked_plain_facts hk1 hm
  by_cases hv : viable t.entries (e.st.sequence ++ [k ||| mm]) = true
  · -- then the pushed value is itself a plain key: no modifier bit is set
    have hlt : k ||| mm < 1024 := by
      cases hlt : decide (k ||| mm < 1024) with
      | true => exact of_decide_eq_true hlt
      | false =>
        have := not_viable_of_big hp (w := e.st.sequence ++ [k ||| mm]) (x := k ||| mm) (by simp)
          (of_decide_eq_false hlt)
        rw [this] at hv; simp at hv
    have : k ||| mm = k := by rw [← and_mask_of_lt _ hlt]; exact hf.1
    apply doSeqPress_congr_pushed
    rw [plainKey_normalise hk, this]; simp
  · have hv' : viable t.entries (e.st.sequence ++ [k ||| mm]) = false := by simpa using hv
    have hpne : k ||| mm ≠ KEY_OVERLAP_MARKER := ne_marker_of_no_ovl hf.2
    have hforms : ∀ i, i ≤ e.st.sequence.length →
        btForm true (e.st.sequence ++ [k ||| mm]) i = e.st.sequence ++ [k] := by
      intro i hi
      rw [btForm_snoc true _ _ i hi hpne, btForm_true_plain _ i hs]
      simp [strip, hf.1]
    have hsettle : stdSettle t true (e.st.sequence ++ [k ||| mm]) =
        if viable t.entries (e.st.sequence ++ [k]) then some (e.st.sequence ++ [k]) else none := by
      simp only [stdSettle, hv', Bool.false_eq_true, if_false]
      cases hv1 : viable t.entries (e.st.sequence ++ [k]) with
      | true =>
        have := btFind_of_max (t := t) (mc := true) (seq := e.st.sequence ++ [k ||| mm])
          (n := (e.st.sequence ++ [k ||| mm]).length) (i := e.st.sequence.length) (by simp)
          (by rw [hforms _ (Nat.le_refl _)]; exact hv1) (fun j h1 h2 => by simp at h2; omega)
        rw [this]; simp [hforms _ (Nat.le_refl _)]
      | false =>
        have := (btFind_none (t := t) (mc := true) (seq := e.st.sequence ++ [k ||| mm])
          (n := (e.st.sequence ++ [k ||| mm]).length)).2
          (fun j hj => by rw [hforms j (by simp at hj; omega)]; exact hv1)
        rw [this]; simp
    have hovl : (if (k ||| mm) &&& MASK_KEYCODES = k ||| mm then k ||| mm else (k ||| mm) &&& MASK_KEYCODES) = k := by
      split
      · rename_i h; rw [← h]; exact hf.1
      · exact hf.1
    rw [doSeqPress_noovl_eq (plainTrie_noOvl hp) (plainTrie_no_empty hp), doSeqPress_plain_eq hp true e hk hs]
    simp only [pushedOf, plainKey_normalise hk, hsettle, hovl, hforms 0 (Nat.zero_le _)]
    cases hv1 : viable t.entries (e.st.sequence ++ [k]) with
    | true => simp only [if_true]; rfl
    | false => simp only [Bool.false_eq_true, if_false]; rfl

theorem lvs_snoc_big {t : Trie Nat} (hp : PlainTrie t) (x : Nat) (hx : ¬ x < 1024) :
    ∀ (w : Key), lvs t.entries (w ++ [x]) = []
  | [] => by
    simp only [List.nil_append, lvs, not_viable_of_big hp (w := [x]) (x := x) (by simp) hx]
    rfl
  | y :: w => by
    simp only [List.cons_append, lvs,
      not_viable_of_big hp (w := y :: (w ++ [x])) (x := x) (by simp) hx, Bool.false_eq_true, if_false]
    exact lvs_snoc_big hp x hx w

/-- **`sequence-backtrack-modcancel no`, plain table**: a plain key pressed while a modifier is held
(a non-zero mask of modifier bits) cancels the sequence — nothing is tapped. -/
theorem doSeqPress_nomodcancel_plain {t : Trie Nat} (hp : PlainTrie t) (e : Eng) {k : Nat} (mm : Nat)
    (hk : plainKey k = true) (hs : ∀ x ∈ e.st.sequence, x < 1024) (hm : mm % 2048 = 0) (hm0 : mm ≠ 0)
    (hm16 : mm < 65536) :
    ∃ ovl, doSeqPress t false e k mm = cancelSequence
      { pressBase e k with st := { (pressBase e k).st with sequence := [], overlapped := ovl } } := by
  have hk1 := plainKey_lt hk
  have hf := masked_plain_facts hk1 hm
  have hbig : ¬ (k ||| mm) < 1024 := by
    have h1 : mm ≤ k ||| mm := Nat.right_le_or
    omega
  have h16 : k ||| mm < 65536 := by
    have : k ||| mm < 2 ^ 16 := Nat.or_lt_two_pow (by omega) (by omega)
    simpa using this
  have hall : ∀ x ∈ e.st.sequence ++ [k ||| mm], x < 65536 ∧ x &&& KEY_OVERLAP_MARKER = 0 := by
    intro x hx
    rcases List.mem_append.1 hx with h | h
    · have := hs x h; exact ⟨by omega, and_marker_of_lt x this⟩
    · simp at h; rw [h]; exact ⟨h16, hf.2⟩
  have hv : viable t.entries (e.st.sequence ++ [k ||| mm]) = false :=
    not_viable_of_big hp (x := k ||| mm) (by simp) hbig
  have hsettle : stdSettle t false (e.st.sequence ++ [k ||| mm]) = none := by
    simp only [stdSettle, hv, Bool.false_eq_true, if_false, btFind_false_none t _ hall hv, Option.map_none]
  rw [doSeqPress_noovl_eq (plainTrie_noOvl hp) (plainTrie_no_empty hp)]
  simp only [pushedOf, plainKey_normalise hk, hsettle, btForm_false_id _ 0 hall, lvs_snoc_big hp _ hbig,
    List.isEmpty_nil, if_true]
  exact ⟨_, rfl⟩

/-- forgetting the masks -/
def forgetM : List InpM → List Inp
  | [] => []
  | .key k _ :: r => .key k :: forgetM r
  | .tick :: r => .tick :: forgetM r
  | .released :: r => .released :: forgetM r

/-- plain keys, each pressed under some mask of modifier bits -/
def PlainHeld : List InpM → Prop
  | [] => True
  | .key k mm :: r => plainKey k = true ∧ mm % 2048 = 0 ∧ PlainHeld r
  | _ :: r => PlainHeld r

theorem terminate_sequence (e : Eng) (j : Nat) (b : Bool) : (terminate e j b).st.sequence = e.st.sequence := by
  unfold terminate
  cases h : e.st.mode <;> simp [h]

theorem cancelSequence_sequence (e : Eng) : (cancelSequence e).st.sequence = e.st.sequence := by
  unfold cancelSequence
  cases h : e.st.mode <;> simp [h]

theorem doSeqPress_plain_keeps_plain {t : Trie Nat} (hp : PlainTrie t) (mc : Bool) (e : Eng) {k : Nat}
    (hk : plainKey k = true) (hs : ∀ x ∈ e.st.sequence, x < 1024) :
    ∀ x ∈ (doSeqPress t mc e k 0).st.sequence, x < 1024 := by
  have hs0 : ∀ x ∈ e.st.sequence ++ [k], x < 1024 := by
    intro x hx
    rcases List.mem_append.1 hx with h | h
    · exact hs x h
    · simp at h; rw [h]; exact plainKey_lt hk
  have hl := lvs_plain t.entries _ hs0
  rw [doSeqPress_plain_eq hp mc e hk hs]
  simp only
  split
  · split
    · rw [terminate_sequence]; exact hs0
    · exact hs0
  · split
    · rw [cancelSequence_sequence]; exact hl
    · split
      · rw [terminate_sequence]; exact hl
      · exact hl

/-- **`sequence-backtrack-modcancel yes`, plain table, whole histories**: holding modifiers while
typing plain keys changes nothing — the run is the run without masks. -/
theorem engRunM_modcancel_plain {t : Trie Nat} (hp : PlainTrie t) : ∀ (is : List InpM) (e : Eng),
    (∀ x ∈ e.st.sequence, x < 1024) → PlainHeld is → engRunM t true e is = engRun t true e (forgetM is)
  | [], _, _, _ => rfl
  | .key k mm :: r, e, hs, hh => by
    simp only [PlainHeld] at hh
    simp only [engRunM, engStepM, forgetM, engRun, engStep]
    cases ha : e.st.active with
    | false =>
      simp only [Bool.false_eq_true, if_false]
      exact engRunM_modcancel_plain hp r _ hs hh.2.2
    | true =>
      simp only [if_true, doSeqPress_modcancel_plain hp e mm hh.1 hs hh.2.1]
      exact engRunM_modcancel_plain hp r _ (doSeqPress_plain_keeps_plain hp true e hh.1 hs) hh.2.2
  | .tick :: r, e, hs, hh => by
    simp only [PlainHeld] at hh
    simp only [engRunM, engStepM, forgetM, engRun, engStep]
    cases ht : tickSeq e with
    | error c => rfl
    | ok e1 =>
      simp only
      apply engRunM_modcancel_plain hp r e1 _ hh
      unfold tickSeq at ht
      split at ht
      · simp only [Except.ok.injEq] at ht; rw [← ht]; exact hs
      · split at ht
        · simp at ht
        · simp only at ht
          split at ht
          · simp only [Except.ok.injEq] at ht; rw [← ht, cancelSequence_sequence]; exact hs
          · simp only [Except.ok.injEq] at ht; rw [← ht]; exact hs
  | .released :: r, e, hs, hh => by
    simp only [PlainHeld] at hh
    simp only [engRunM, engStepM, forgetM, engRun, engStep]
    apply engRunM_modcancel_plain hp r _ _ hh
    cases ha : e.st.active with
    | false => simp only [allReleasedHook, ha, Bool.not_false, if_true]; exact hs
    | true => rw [allReleasedHook_plain hp e ha]; exact hs

/-! ### `O-(…)` groups: typing the members while at least one key stays down, then releasing -/

/-- a key as a member of an `O-(…)` group -/
def ovlOf (p : Nat) : Nat := p ||| KEY_OVERLAP_MARKER

theorem ovlOf_facts : ∀ p, p < 1024 → p ≠ 0 →
    ovlOf p ≠ KEY_OVERLAP_MARKER ∧ ovlOf p &&& MASK_KEYCODES = p ∧ ovlOf p &&& NOT_OVERLAP_MARKER = p ∧
    KEY_OVERLAP_MARKER ≤ ovlOf p ∧ (p &&& MASK_KEYCODES) ||| KEY_OVERLAP_MARKER = ovlOf p := by
  unfold ovlOf KEY_OVERLAP_MARKER MASK_KEYCODES NOT_OVERLAP_MARKER; decide +kernel

theorem strip_ovlOf (mc : Bool) {p : Nat} (h1 : p < 1024) (h0 : p ≠ 0) : strip mc (ovlOf p) = p := by
  have := ovlOf_facts p h1 h0
  cases mc <;> simp [strip, this]

theorem strip_plain (mc : Bool) {p : Nat} (h1 : p < 1024) : strip mc p = p := by
  cases mc <;> simp [strip, and_mask_of_lt p h1, and_notmarker_of_lt p h1]

theorem filterMap_stripOpt_map_ovl (mc : Bool) : ∀ (l : List Nat), (∀ p ∈ l, p < 1024 ∧ p ≠ 0) →
    (l.map ovlOf).filterMap (stripOpt mc) = l
  | [], _ => rfl
  | p :: l, h => by
    have hp := h p (by simp)
    have hf := ovlOf_facts p hp.1 hp.2
    have hs := strip_ovlOf mc hp.1 hp.2
    simp only [List.map_cons, List.filterMap_cons, stripOpt, hf.1, if_false]
    unfold strip at hs
    rw [hs, filterMap_stripOpt_map_ovl mc l (fun q hq => h q (by simp [hq]))]

theorem btForm_plain (mc : Bool) (seq : List Nat) (i : Nat) (h : ∀ x ∈ seq, x < 1024) : btForm mc seq i = seq := by
  cases mc with
  | true => exact btForm_true_plain seq i h
  | false => exact btForm_false_id seq i (fun x hx => ⟨by have := h x hx; omega, and_marker_of_lt x (h x hx)⟩)

/-- in no stored key is an element with the overlap bit (a group member or a marker) directly followed
by one of the plain keys `ps` -/
def ovlThenPlainFree (tbl : List (Key × Nat)) (ps : Key) : Bool :=
  tbl.all (fun e => (adjPairs e.1).all (fun q => !((q.1 &&& KEY_OVERLAP_MARKER != 0) && ps.contains q.2)))

theorem not_viable_of_adj {tbl : List (Key × Nat)} {ps : Key} (h : ovlThenPlainFree tbl ps = true)
    (l1 : Key) (a b : Nat) (l2 : Key) (ha : a &&& KEY_OVERLAP_MARKER ≠ 0) (hb : b ∈ ps) :
    viable tbl (l1 ++ a :: b :: l2) = false := by
  cases hv : viable tbl (l1 ++ a :: b :: l2) with
  | false => rfl
  | true =>
    exfalso
    simp only [viable, List.any_eq_true, List.isPrefixOf_iff_prefix] at hv
    obtain ⟨e, he, ⟨r, hr⟩⟩ := hv
    simp only [ovlThenPlainFree, List.all_eq_true, Bool.not_eq_true', Bool.and_eq_false_iff,
      bne_eq_false_iff_eq, List.contains_eq_mem, decide_eq_false_iff_not] at h
    have hmem : (a, b) ∈ adjPairs e.1 := by
      rw [← hr]
      have := mem_adjPairs l1 a b (l2 ++ r)
      simpa [List.append_assoc] using this
    rcases h e he _ hmem with h1 | h1
    · exact ha h1
    · exact h1 hb

/-- a list that starts with an overlap element, ends with a plain key of `ps`, and consists of such
elements only, has an overlap element directly followed by a key of `ps` -/
theorem exists_ovl_then_plain (ps : Key) (hps : ∀ p ∈ ps, p &&& KEY_OVERLAP_MARKER = 0) :
    ∀ (l : Key) (a : Nat), a &&& KEY_OVERLAP_MARKER ≠ 0 →
      (∀ x ∈ l, x &&& KEY_OVERLAP_MARKER ≠ 0 ∨ x ∈ ps) → (∃ z, (a :: l).getLast? = some z ∧ z ∈ ps) →
      ∃ l1 x y l2, a :: l = l1 ++ x :: y :: l2 ∧ x &&& KEY_OVERLAP_MARKER ≠ 0 ∧ y ∈ ps
  | [], a, ha, _, ⟨z, hz, hzp⟩ => by
    simp at hz
    rw [← hz] at hzp
    exact absurd (hps a hzp) ha
  | y :: l, a, ha, hall, ⟨z, hz, hzp⟩ => by
    rcases hall y (by simp) with hy | hy
    · obtain ⟨l1, x', y', l2, h1, h2, h3⟩ := exists_ovl_then_plain ps hps l y hy
        (fun x hx => hall x (by simp [hx])) ⟨z, by simpa using hz, hzp⟩
      exact ⟨a :: l1, x', y', l2, by rw [h1]; rfl, h2, h3⟩
    · exact ⟨[], a, y, l, rfl, ha, hy⟩

theorem mem_filterMap_stripOpt {mc : Bool} {l : List Nat} {x : Nat} (h : x ∈ l.filterMap (stripOpt mc)) :
    ∃ y ∈ l, y ≠ KEY_OVERLAP_MARKER ∧ x = strip mc y := by
  simp only [List.mem_filterMap, stripOpt] at h
  obtain ⟨y, hy, hx⟩ := h
  split at hx
  · simp at hx
  · rename_i hne
    simp only [Option.some.injEq] at hx
    exact ⟨y, hy, hne, by rw [← hx]; rfl⟩

theorem getOrDescendant_inTrie_of_proper_prefix {t : Trie Nat} (hok : TrieOK t) {s : Key} {j : Nat}
    (hs : (s, j) ∈ t.entries) (w r : Key) (h : w ++ r = s) (hr : r ≠ []) :
    t.getOrDescendant w = .inTrie := by
  rw [getOrDescendant_of_lookup (viable_of_prefix hs ⟨r, h⟩),
    lookupKey_none_of_proper_prefix hok hs w r h hr]

/-- `finish (reconcile …)` when the standard variant is valid and the overlap variant is inside a group -/
theorem fr_valid (t : Trie Nat) (b : Eng) (W G' : Key) (hv : viable t.entries W = true) :
    finish t (reconcile t b (W, t.getOrDescendant W, false) (G', .inTrie, false)) =
      match lookupKey t.entries W with
      | some j' =>
        (match t.getOrDescendant (G' ++ [KEY_OVERLAP_MARKER]) with
         | .hasValue oj =>
           terminate { b with st := { b.st with sequence := W, overlapped := G' ++ [KEY_OVERLAP_MARKER] } } oj true
         | _ =>
           terminate { b with st := { b.st with sequence := W, overlapped := G' ++ [KEY_OVERLAP_MARKER] } } j' false)
      | none => { b with st := { b.st with sequence := W, overlapped := G' } } := by
  simp only [reconcile, finish]
  rw [getOrDescendant_of_lookup hv]
  cases lookupKey t.entries W with
  | none => rfl
  | some j' => rfl

/-- `finish (reconcile …)` when the standard variant is invalid and the overlap variant is inside a group -/
theorem fr_invalid (t : Trie Nat) (b : Eng) (W G : Key) (q : Nat) (hq1 : q ≠ KEY_OVERLAP_MARKER)
    (hq2 : KEY_OVERLAP_MARKER ≤ q) :
    finish t (reconcile t b (W, .notInTrie, true) (G ++ [q], .inTrie, false)) =
      match t.getOrDescendant (G ++ [q] ++ [KEY_OVERLAP_MARKER]) with
      | .hasValue j' =>
        terminate { b with st := { b.st with
          sequence := G ++ [q] ++ [KEY_OVERLAP_MARKER], overlapped := G ++ [q] ++ [KEY_OVERLAP_MARKER] } } j' true
      | _ => { b with st := { b.st with sequence := G ++ [q] ++ [KEY_OVERLAP_MARKER], overlapped := G ++ [q] } } := by
  have hlast : (G ++ [q]).getLast?.getD 0 = q := by simp
  have hcond : (G ++ [q]).getLast?.getD 0 ≠ KEY_OVERLAP_MARKER ∧ (G ++ [q]).getLast?.getD 0 ≥ KEY_OVERLAP_MARKER := by
    rw [hlast]; exact ⟨hq1, hq2⟩
  simp only [reconcile, finish, if_pos hcond]
  cases hg : t.getOrDescendant (G ++ [q] ++ [KEY_OVERLAP_MARKER]) with
  | hasValue j' => rfl
  | inTrie => rfl
  | notInTrie => rfl

theorem viable_of_viable_append {tbl : List (Key × Nat)} {a b : Key} (h : viable tbl (a ++ b) = true) :
    viable tbl a = true := by
  simp only [viable, List.any_eq_true, List.isPrefixOf_iff_prefix] at h ⊢
  obtain ⟨e, he, hpre⟩ := h
  exact ⟨e, he, (List.prefix_append a b).trans hpre⟩

theorem btForm_cons_succ (mc : Bool) (a : Nat) (tl : List Nat) (j : Nat) :
    btForm mc (a :: tl) (j + 1) = a :: btForm mc tl j := by
  simp [btForm]

theorem mem_btForm {mc : Bool} {l : List Nat} {j x : Nat} (h : x ∈ btForm mc l j) :
    x ∈ l ∨ ∃ y ∈ l, y ≠ KEY_OVERLAP_MARKER ∧ x = strip mc y := by
  simp only [btForm, List.mem_append] at h
  rcases h with h | h
  · exact Or.inl (List.mem_of_mem_take h)
  · obtain ⟨y, hy, h1, h2⟩ := mem_filterMap_stripOpt h
    exact Or.inr ⟨y, List.mem_of_mem_drop hy, h1, h2⟩

/-- the standard variant finds nothing when it tracks an open group `G ++ [marker]` and a plain
member key arrives (any modcancel setting) -/
theorem group_forms_not_viable {t : Trie Nat} {ps : Key} (hadj : ovlThenPlainFree t.entries ps = true)
    (hpl : ∀ p ∈ ps, plainKey p = true ∧ p ≠ 0) (mc : Bool) (P : Key) (p : Nat)
    (hP : ∀ q ∈ P, q ∈ ps) (hp : p ∈ ps) (hPne : P ≠ []) (hnv : viable t.entries P = false) :
    ∀ j, j < (P.map ovlOf ++ [KEY_OVERLAP_MARKER] ++ [p]).length →
      viable t.entries (btForm mc (P.map ovlOf ++ [KEY_OVERLAP_MARKER] ++ [p]) j) = false := by
  have hp1 := plainKey_lt (hpl p hp).1
  have hpM : p ≠ KEY_OVERLAP_MARKER := by unfold KEY_OVERLAP_MARKER; omega
  have hpso : ∀ q ∈ ps, q &&& KEY_OVERLAP_MARKER = 0 := fun q hq => and_marker_of_lt q (plainKey_lt (hpl q hq).1)
  intro j hj
  have hj' : j ≤ (P.map ovlOf ++ [KEY_OVERLAP_MARKER]).length := by simp at hj ⊢; omega
  rw [btForm_snoc mc _ p j hj' hpM, strip_plain mc hp1]
  cases j with
  | zero =>
    have : btForm mc (P.map ovlOf ++ [KEY_OVERLAP_MARKER]) 0 = P := by
      simp only [btForm, List.take_zero, List.drop_zero, List.nil_append, List.filterMap_append,
        filterMap_stripOpt_map_ovl mc P (fun q hq => ⟨plainKey_lt (hpl q (hP q hq)).1, (hpl q (hP q hq)).2⟩)]
      simp [stripOpt]
    rw [this]
    cases hv : viable t.entries (P ++ [p]) with
    | false => rfl
    | true => rw [viable_of_viable_append hv] at hnv; exact absurd hnv (by simp)
  | succ j =>
    cases P with
    | nil => exact absurd rfl hPne
    | cons p0 P' =>
      have hp0 := hpl p0 (hP p0 (by simp))
      simp only [List.map_cons, List.cons_append, btForm_cons_succ]
      have ha : ovlOf p0 &&& KEY_OVERLAP_MARKER ≠ 0 := or_marker_ovl p0
      have hall : ∀ x ∈ btForm mc (P'.map ovlOf ++ [KEY_OVERLAP_MARKER]) j ++ [p],
          x &&& KEY_OVERLAP_MARKER ≠ 0 ∨ x ∈ ps := by
        intro x hx
        rcases List.mem_append.1 hx with hx | hx
        · rcases mem_btForm hx with h | ⟨y, hy, hyM, hxy⟩
          · left
            rcases List.mem_append.1 h with h | h
            · simp only [List.mem_map] at h
              obtain ⟨q, _, rfl⟩ := h
              exact or_marker_ovl q
            · simp at h; rw [h]; exact marker_ovl
          · right
            rcases List.mem_append.1 hy with h | h
            · simp only [List.mem_map] at h
              obtain ⟨q, hq, rfl⟩ := h
              have hq' := hpl q (hP q (by simp [hq]))
              rw [hxy, strip_ovlOf mc (plainKey_lt hq'.1) hq'.2]
              exact hP q (by simp [hq])
            · simp at h; exact absurd h hyM
        · simp at hx; right; rw [hx]; exact hp
      obtain ⟨l1, x, y, l2, heq, hx, hy⟩ := exists_ovl_then_plain ps hpso
        (btForm mc (P'.map ovlOf ++ [KEY_OVERLAP_MARKER]) j ++ [p]) (ovlOf p0) ha hall
        ⟨p, by rw [← List.cons_append, List.getLast?_append]; simp, hp⟩
      rw [heq]
      exact not_viable_of_adj hadj l1 x y l2 hx hy

theorem notHasValue_of_lookup_none {t : Trie Nat} {w : Key} (h : lookupKey t.entries w = none) :
    t.getOrDescendant w = .inTrie ∨ t.getOrDescendant w = .notInTrie := by
  rw [getOrDescendant_eq, h]
  simp only
  split
  · exact Or.inl rfl
  · exact Or.inr rfl

/-- **one member key of an `O-(…)` group**, pressed (with no modifier held) while the earlier members
`P` are still being tracked: the overlap variant advances inside the group; the standard variant
either still tracks the plain word or is refilled from the overlap variant; the group's virtual key
is tapped by the last member's press unless a longer plain sequence is still possible. -/
theorem group_key_step {t : Trie Nat} (hok : TrieOK t) {ps : Key} {v : Nat}
    (hadj : ovlThenPlainFree t.entries ps = true)
    (hst : (ps.map ovlOf ++ [KEY_OVERLAP_MARKER], v) ∈ t.entries)
    (hpl : ∀ p ∈ ps, plainKey p = true ∧ p ≠ 0) (mc : Bool) (e : Eng) (P : Key) (p : Nat) (R : Key)
    (hps : P ++ p :: R = ps) (hO : e.st.overlapped = P.map ovlOf)
    (hS : e.st.sequence = P ∨
      (P ≠ [] ∧ e.st.sequence = P.map ovlOf ++ [KEY_OVERLAP_MARKER] ∧ viable t.entries P = false))
    (hA : R ≠ [] → lookupKey t.entries (P ++ [p]) = none)
    (hB : R ≠ [] → lookupKey t.entries ((P ++ [p]).map ovlOf ++ [KEY_OVERLAP_MARKER]) = none) :
    (R ≠ [] → ∃ S', doSeqPress t mc e p 0 =
        { pressBase e p with st := { (pressBase e p).st with sequence := S', overlapped := (P ++ [p]).map ovlOf } } ∧
        (S' = P ++ [p] ∨ (S' = (P ++ [p]).map ovlOf ++ [KEY_OVERLAP_MARKER] ∧ viable t.entries (P ++ [p]) = false))) ∧
    (R = [] → (∃ S' O', doSeqPress t mc e p 0 =
        terminate { pressBase e p with st := { (pressBase e p).st with sequence := S', overlapped := O' } } v true) ∨
      doSeqPress t mc e p 0 =
        { pressBase e p with st := { (pressBase e p).st with sequence := P ++ [p], overlapped := (P ++ [p]).map ovlOf } }) := by
  have hpin : p ∈ ps := by rw [← hps]; simp
  have hPin : ∀ q ∈ P, q ∈ ps := fun q hq => by rw [← hps]; simp [hq]
  have hp := hpl p hpin
  have hp1 := plainKey_lt hp.1
  have hof := ovlOf_facts p hp1 hp.2
  have hG : (P ++ [p]).map ovlOf = P.map ovlOf ++ [ovlOf p] := by simp
  -- the press, unfolded
  have hd : doSeqPress t mc e p 0 = finish t (reconcile t (pressBase e p)
      (stdVariant t mc (e.st.sequence ++ [p])) (overlapFix t e.st.overlapped p (ovlOf p))) := by
    unfold doSeqPress
    simp only [plainKey_normalise hp.1, Nat.or_zero, hof.2.2.2.2]
  -- the overlap variant advances inside the group
  have hsplit : (P.map ovlOf ++ [ovlOf p]) ++ (R.map ovlOf ++ [KEY_OVERLAP_MARKER]) =
      ps.map ovlOf ++ [KEY_OVERLAP_MARKER] := by rw [← hps]; simp
  have hr0 : t.getOrDescendant (P.map ovlOf ++ [ovlOf p]) = .inTrie :=
    getOrDescendant_inTrie_of_proper_prefix hok hst _ _ hsplit (by simp)
  have hovl : overlapFix t e.st.overlapped p (ovlOf p) = (P.map ovlOf ++ [ovlOf p], .inTrie, false) := by
    unfold overlapFix
    simp only [hO, hr0, Trie.GetRes.isNot, Bool.not_false, if_true]
  -- the group completes with this key
  have hdone : R = [] → t.getOrDescendant (P.map ovlOf ++ [ovlOf p] ++ [KEY_OVERLAP_MARKER]) = .hasValue v := by
    intro hR
    have : P.map ovlOf ++ [ovlOf p] ++ [KEY_OVERLAP_MARKER] = ps.map ovlOf ++ [KEY_OVERLAP_MARKER] := by
      rw [← hsplit, hR]; simp
    rw [this]; exact lookup_of_mem t hok _ v hst
  -- the standard variant is invalid: refilled from the overlap variant
  have hinvalid : ∀ W, stdVariant t mc (e.st.sequence ++ [p]) = (W, .notInTrie, true) →
      viable t.entries (P ++ [p]) = false →
      (R ≠ [] → ∃ S', doSeqPress t mc e p 0 =
        { pressBase e p with st := { (pressBase e p).st with sequence := S', overlapped := (P ++ [p]).map ovlOf } } ∧
        (S' = P ++ [p] ∨ (S' = (P ++ [p]).map ovlOf ++ [KEY_OVERLAP_MARKER] ∧ viable t.entries (P ++ [p]) = false))) ∧
      (R = [] → (∃ S' O', doSeqPress t mc e p 0 =
        terminate { pressBase e p with st := { (pressBase e p).st with sequence := S', overlapped := O' } } v true) ∨
        doSeqPress t mc e p 0 =
          { pressBase e p with st := { (pressBase e p).st with sequence := P ++ [p], overlapped := (P ++ [p]).map ovlOf } }) := by
    intro W hW hnv
    rw [hd, hW, hovl, fr_invalid t (pressBase e p) W (P.map ovlOf) (ovlOf p) hof.1 hof.2.2.2.1]
    constructor
    · intro hR
      have hb := hB hR
      rw [hG] at hb
      refine ⟨(P ++ [p]).map ovlOf ++ [KEY_OVERLAP_MARKER], ?_, Or.inr ⟨rfl, hnv⟩⟩
      rw [hG]
      rcases notHasValue_of_lookup_none hb with h | h <;> rw [h]
    · intro hR
      left
      rw [hdone hR]
      exact ⟨_, _, rfl⟩
  rcases hS with hS | ⟨hPne, hS, hnvP⟩
  · -- the standard variant still tracks the plain word
    rw [hS] at hd
    rcases Bool.eq_false_or_eq_true (viable t.entries (P ++ [p])) with hv | hv
    · have hstd : stdVariant t mc (P ++ [p]) = (P ++ [p], t.getOrDescendant (P ++ [p]), false) := by
        rw [stdVariant_eq, hv]; rfl
      rw [hd, hstd, hovl, fr_valid t (pressBase e p) (P ++ [p]) _ hv]
      constructor
      · intro hR
        rw [hA hR]
        exact ⟨P ++ [p], by rw [hG], Or.inl rfl⟩
      · intro hR
        cases hl : lookupKey t.entries (P ++ [p]) with
        | none => right; simp only [hG]
        | some j' =>
          left
          simp only [hdone hR]
          exact ⟨_, _, rfl⟩
    · have hplainw : ∀ x ∈ P ++ [p], x < 1024 := by
        intro x hx
        rcases List.mem_append.1 hx with h | h
        · exact plainKey_lt (hpl x (hPin x h)).1
        · simp at h; rw [h]; exact hp1
      have hstd : stdVariant t mc (P ++ [p]) = (P ++ [p], .notInTrie, true) := by
        rw [stdVariant_eq, hv]
        have : btFind t mc (P ++ [p]) (P ++ [p]).length = none :=
          btFind_none.2 (fun j _ => by rw [btForm_plain mc _ j hplainw]; exact hv)
        simp only [Bool.false_eq_true, if_false, this, btForm_plain mc _ 0 hplainw]
      rw [← hS] at hstd
      exact hinvalid _ hstd hv
  · -- the standard variant had been refilled from the overlap variant
    have hforms := group_forms_not_viable hadj hpl mc P p hPin hpin hPne hnvP
    have hnv0 : viable t.entries (P.map ovlOf ++ [KEY_OVERLAP_MARKER] ++ [p]) = false := by
      have := not_viable_of_adj hadj (P.map ovlOf) KEY_OVERLAP_MARKER p [] marker_ovl hpin
      simpa [List.append_assoc] using this
    have hstd : stdVariant t mc (e.st.sequence ++ [p]) =
        (btForm mc (P.map ovlOf ++ [KEY_OVERLAP_MARKER] ++ [p]) 0, .notInTrie, true) := by
      rw [hS, stdVariant_eq, hnv0]
      have : btFind t mc (P.map ovlOf ++ [KEY_OVERLAP_MARKER] ++ [p])
          (P.map ovlOf ++ [KEY_OVERLAP_MARKER] ++ [p]).length = none := btFind_none.2 hforms
      simp only [Bool.false_eq_true, if_false, this]
    have hnv : viable t.entries (P ++ [p]) = false := by
      cases hv : viable t.entries (P ++ [p]) with
      | false => rfl
      | true => rw [viable_of_viable_append hv] at hnvP; exact absurd hnvP (by simp)
    exact hinvalid _ hstd hnv

/-- the member keys arrive with no modifier held and no all-released hook runs between them (at least
one key stays down) -/
def GroupPresses : List InpM → Prop
  | [] => True
  | .key _ mm :: r => mm = 0 ∧ GroupPresses r
  | .tick :: r => GroupPresses r
  | .released :: _ => False

/-- every timer tick leaves time on the sequence timer (the keys are released before the timeout, too) -/
def WellTimedAll (T : Nat) : Nat → List InpM → Prop
  | _, [] => True
  | b, .tick :: r => 1 < b ∧ WellTimedAll T (b - 1) r
  | b, .released :: r => WellTimedAll T b r
  | _, .key _ _ :: r => WellTimedAll T T r

/-- no proper non-empty prefix of the typed keys is itself defined — neither as a plain sequence nor
as a complete `O-(…)` group -/
def noEarly (tbl : List (Key × Nat)) (ps : Key) : Bool :=
  (List.range ps.length).all (fun i => i == 0 ||
    ((lookupKey tbl (ps.take i)).isNone &&
      (lookupKey tbl ((ps.take i).map ovlOf ++ [KEY_OVERLAP_MARKER])).isNone))

theorem noEarly_spec {tbl : List (Key × Nat)} {ps : Key} (h : noEarly tbl ps = true) (P : Key) (p : Nat)
    (R : Key) (hps : P ++ p :: R = ps) (hR : R ≠ []) :
    lookupKey tbl (P ++ [p]) = none ∧ lookupKey tbl ((P ++ [p]).map ovlOf ++ [KEY_OVERLAP_MARKER]) = none := by
  simp only [noEarly, List.all_eq_true, List.mem_range, Bool.or_eq_true, beq_iff_eq, Bool.and_eq_true,
    Option.isNone_iff_eq_none] at h
  have hlen : P.length + 1 < ps.length := by
    rw [← hps]
    cases R with
    | nil => exact absurd rfl hR
    | cons a R' => simp
  have htake : ps.take (P.length + 1) = P ++ [p] := by
    rw [← hps, show P ++ p :: R = (P ++ [p]) ++ R by simp, List.take_append_of_le_length (by simp)]
    exact List.take_of_length_le (by simp)
  rcases h (P.length + 1) hlen with h0 | h1
  · omega
  · rw [htake] at h1; exact h1

theorem hasKey_false_of_keysOfM : ∀ (l : List InpM), keysOfM l = [] → hasKey l = false
  | [], _ => rfl
  | .key _ _ :: _, h => by simp [keysOfM] at h
  | .tick :: l, h => by simp only [keysOfM] at h; simp only [hasKey]; exact hasKey_false_of_keysOfM l h
  | .released :: l, h => by simp only [keysOfM] at h; simp only [hasKey]; exact hasKey_false_of_keysOfM l h

theorem hasKey_append (a b : List InpM) : hasKey (a ++ b) = (hasKey a || hasKey b) := by
  induction a with
  | nil => simp [hasKey]
  | cons i a ih => cases i <;> simp [hasKey, ih]

/-- **typing the members of an `O-(…)` group and releasing them.** -/
theorem group_run {t : Trie Nat} (hok : TrieOK t) {ps : Key} {v : Nat}
    (hadj : ovlThenPlainFree t.entries ps = true)
    (hst : (ps.map ovlOf ++ [KEY_OVERLAP_MARKER], v) ∈ t.entries)
    (hpl : ∀ p ∈ ps, plainKey p = true ∧ p ≠ 0) (hearly : noEarly t.entries ps = true) (mc : Bool) :
    ∀ (pre : List InpM) (e : Eng) (P : Key) (b : Nat),
      e.st.active = true → e.st.ticksUntilTimeout = b → 0 < b → 0 < e.st.timeout →
      P ++ keysOfM pre = ps → GroupPresses pre → e.st.overlapped = P.map ovlOf →
      (e.st.sequence = P ∨
        (P ≠ [] ∧ e.st.sequence = P.map ovlOf ++ [KEY_OVERLAP_MARKER] ∧ viable t.entries P = false)) →
      WellTimedAll e.st.timeout b pre →
      ∃ e', engRunM t mc e (pre ++ [.released]) = .ok e' ∧ e'.st.active = false ∧ e'.taps = e.taps ++ [v] ∧
        (e.st.mode ≠ .visibleBackspaced → e'.out = e.out)
  | [], e, P, b, ha, _, _, _, hP, _, hO, _, _ => by
    have hPs : P = ps := by simpa [keysOfM] using hP
    have hget : t.getOrDescendant (e.st.overlapped ++ [KEY_OVERLAP_MARKER]) = .hasValue v := by
      rw [hO, hPs]; exact lookup_of_mem t hok _ v hst
    have hstep : allReleasedHook t e = terminate
        { e with st := { e.st with overlapped := e.st.overlapped ++ [KEY_OVERLAP_MARKER] } } v true := by
      simp only [allReleasedHook, ha, Bool.not_true, Bool.false_eq_true, if_false, hget]
    have tf := terminate_fields
      { e with st := { e.st with overlapped := e.st.overlapped ++ [KEY_OVERLAP_MARKER] } } v true
    exact ⟨_, by simp only [List.nil_append, engRunM, engStepM, hstep], tf.1, tf.2.1, fun hm => tf.2.2.2 hm⟩
  | .tick :: r, e, P, b, ha, hb, hb0, hT, hP, hg, hO, hS, hwt => by
    simp only [WellTimedAll] at hwt
    simp only [keysOfM] at hP
    simp only [GroupPresses] at hg
    have hstep : engStepM t mc e .tick = .ok { e with st := { e.st with ticksUntilTimeout := b - 1 } } := by
      simp only [engStepM, tickSeq, ha, Bool.not_true, Bool.false_eq_true, if_false, hb]
      have h1 : ¬ b = 0 := by omega
      have h2 : ¬ b - 1 = 0 := by omega
      simp [h1, h2]
    obtain ⟨e', h1, h2⟩ := group_run hok hadj hst hpl hearly mc r
      { e with st := { e.st with ticksUntilTimeout := b - 1 } } P (b - 1) ha rfl (by omega) hT hP hg hO hS hwt.2
    exact ⟨e', by simp only [List.cons_append, engRunM, hstep]; exact h1, h2⟩
  | .released :: r, _, _, _, _, _, _, _, _, hg, _, _, _ => by simp [GroupPresses] at hg
  | .key p mm :: r, e, P, b, ha, hb, hb0, hT, hP, hg, hO, hS, hwt => by
    simp only [WellTimedAll] at hwt
    simp only [keysOfM] at hP
    simp only [GroupPresses] at hg
    obtain ⟨hmm, hg⟩ := hg
    subst hmm
    have pf := pressBase_fieldsM e p
    have hks := group_key_step hok hadj hst hpl mc e P p (keysOfM r) hP hO hS
      (fun hR => (noEarly_spec hearly P p _ hP hR).1) (fun hR => (noEarly_spec hearly P p _ hP hR).2)
    have hout : e.st.mode ≠ .visibleBackspaced → (pressBase e p).out = e.out := by
      intro hm; rw [pf.2.2.2.2.2.2.2.2]; simp [hm]
    have hP' : (P ++ [p]) ++ keysOfM r = ps := by rw [← hP]; simp
    by_cases hR : keysOfM r = []
    · rcases hks.2 hR with ⟨S', O', hd⟩ | hd
      · -- the last member's press completes the group
        have tf := terminate_fields
          { pressBase e p with st := { (pressBase e p).st with sequence := S', overlapped := O' } } v true
        have hidle := engRunM_idle t mc (r ++ [.released]) _ tf.1
          (by rw [hasKey_append, hasKey_false_of_keysOfM r hR]; rfl)
        refine ⟨_, by simp only [List.cons_append, engRunM, engStepM, ha, if_true, hd]; exact hidle, tf.1, ?_, ?_⟩
        · rw [tf.2.1]; show (pressBase e p).taps ++ [v] = _; rw [pf.2.1]
        · intro hm
          rw [tf.2.2.2 (by show (pressBase e p).st.mode ≠ _; rw [pf.2.2.2.2.1]; exact hm)]
          exact hout hm
      · -- a longer plain sequence is still possible: the release of the keys completes the group
        obtain ⟨e', h1, h2, h3, h4⟩ := group_run hok hadj hst hpl hearly mc r
          { pressBase e p with st := { (pressBase e p).st with
              sequence := P ++ [p], overlapped := (P ++ [p]).map ovlOf } } (P ++ [p]) e.st.timeout
          (pf.1.trans ha) pf.2.2.2.2.2.2.2.1 hT
          (by show 0 < (pressBase e p).st.timeout; rw [pf.2.2.2.2.2.1]; exact hT) hP' hg rfl (Or.inl rfl)
          (by show WellTimedAll (pressBase e p).st.timeout _ _; rw [pf.2.2.2.2.2.1]; exact hwt)
        refine ⟨e', by simp only [List.cons_append, engRunM, engStepM, ha, if_true, hd]; exact h1, h2, ?_, ?_⟩
        · rw [h3]; show (pressBase e p).taps ++ [v] = _; rw [pf.2.1]
        · intro hm
          rw [h4 (by show (pressBase e p).st.mode ≠ _; rw [pf.2.2.2.2.1]; exact hm)]
          exact hout hm
    · obtain ⟨S', hd, hS'⟩ := hks.1 hR
      have hS'' : S' = P ++ [p] ∨ (P ++ [p] ≠ [] ∧ S' = (P ++ [p]).map ovlOf ++ [KEY_OVERLAP_MARKER] ∧
          viable t.entries (P ++ [p]) = false) := by
        rcases hS' with h | h
        · exact Or.inl h
        · exact Or.inr ⟨by simp, h⟩
      obtain ⟨e', h1, h2, h3, h4⟩ := group_run hok hadj hst hpl hearly mc r
        { pressBase e p with st := { (pressBase e p).st with
            sequence := S', overlapped := (P ++ [p]).map ovlOf } } (P ++ [p]) e.st.timeout
        (pf.1.trans ha) pf.2.2.2.2.2.2.2.1 hT
        (by show 0 < (pressBase e p).st.timeout; rw [pf.2.2.2.2.2.1]; exact hT) hP' hg rfl hS''
        (by show WellTimedAll (pressBase e p).st.timeout _ _; rw [pf.2.2.2.2.2.1]; exact hwt)
      refine ⟨e', by simp only [List.cons_append, engRunM, engStepM, ha, if_true, hd]; exact h1, h2, ?_, ?_⟩
      · rw [h3]; show (pressBase e p).taps ++ [v] = _; rw [pf.2.1]
      · intro hm
        rw [h4 (by show (pressBase e p).st.mode ≠ _; rw [pf.2.2.2.2.1]; exact hm)]
        exact hout hm

/-! ### what the parser stores for a whole-group entry `O-(k1 … kn)` -/

theorem takeWhile_map_ovl : ∀ (l : List Nat), (∀ k ∈ l, k < 1024 ∧ k ≠ 0) →
    (l.map ovlOf ++ [KEY_OVERLAP_MARKER]).takeWhile (fun x => !isMarker x) = l.map ovlOf ∧
    (l.map ovlOf ++ [KEY_OVERLAP_MARKER]).dropWhile (fun x => !isMarker x) = [KEY_OVERLAP_MARKER]
  | [], _ => by simp [isMarker]
  | k :: l, h => by
    have hk := h k (by simp)
    have hne : isMarker (ovlOf k) = false := by
      simp only [isMarker, beq_eq_false_iff_ne]; exact (ovlOf_facts k hk.1 hk.2).1
    have ih := takeWhile_map_ovl l (fun q hq => h q (by simp [hq]))
    simp [hne, ih.1, ih.2]

theorem orderings_group (ks : List Nat) (hks : ∀ k ∈ ks, k < 1024 ∧ k ≠ 0) (hne : ks ≠ [])
    (os : List (List Nat)) (h : orderings (ks.map ovlOf ++ [KEY_OVERLAP_MARKER]) = some os)
    (ps : List Nat) (hp : ps.Perm ks) : ps.map ovlOf ++ [KEY_OVERLAP_MARKER] ∈ os := by
  cases ks with
  | nil => exact absurd rfl hne
  | cons k0 ks' =>
    have hk0 := hks k0 (by simp)
    have hf := ovlOf_facts k0 hk0.1 hk0.2
    have htw := takeWhile_map_ovl ks' (fun q hq => hks q (by simp [hq]))
    have hbit : ¬ (ovlOf k0 &&& KEY_OVERLAP_MARKER = 0) := or_marker_ovl k0
    simp only [orderings, List.map_cons, List.cons_append, List.length_cons, orderingsF, hbit, if_false,
      hf.1, htw.1, htw.2, List.drop_one, List.tail_cons] at h
    split at h
    · simp at h
    · simp only [Option.map_some, Option.some.injEq] at h
      rw [← h]
      simp only [List.map_cons, List.map_nil, List.append_nil]
      have : ps.map ovlOf ∈ perms (ovlOf k0 :: ks'.map ovlOf) := by
        rw [mem_perms]
        have := hp.map ovlOf
        simpa using this
      simp only [List.mem_flatMap, List.mem_singleton]
      exact ⟨_, this, rfl⟩

theorem ovlOf_modded : ∀ k, k < 1024 → ovlOf k &&& MASK_MODDED = KEY_OVERLAP_MARKER := by
  unfold ovlOf KEY_OVERLAP_MARKER MASK_MODDED; decide +kernel

theorem hasEmptySubList_keys : ∀ (ks : List Nat), Item.hasEmptySubList (ks.map Item.key) = false
  | [] => rfl
  | k :: ks => by simp [Item.hasEmptySubList, Item.hasEmptySub, hasEmptySubList_keys ks]

theorem isPress_head_keys (ks : List Nat) (rest : List Ev) (h : ks ≠ []) :
    isPress (Item.eventsList (ks.map Item.key) ++ rest).head? = true := by
  cases ks with
  | nil => exact absurd rfl h
  | cons k ks => simp [Item.eventsList, Item.events, isPress]

/-- the member keys of an `O-(…)` list, between the press and the release of the overlap pseudo-key -/
theorem enc_group_keys : ∀ (ks seq : List Nat) (rest : List Ev), ks ≠ [] →
    (∀ k ∈ ks, plainKey k = true) → isRelease rest.head? = true →
    encodeEvents (Item.eventsList (ks.map Item.key) ++ rest) [KC_OVERLAP] seq false =
      encodeEvents rest [KC_OVERLAP] (seq ++ ks.map ovlOf) true
  | [], _, _, h, _, _ => absurd rfl h
  | k :: ks, seq, rest, _, hk, hr => by
    have hkk := hk k (by simp)
    have hk1 := plainKey_lt hkk
    have hno : k ≠ KC_OVERLAP := by
      simp only [plainKey, Bool.and_eq_true, bne_iff_ne, ne_eq] at hkk; exact hkk.2
    have hfold : [KC_OVERLAP].foldl (fun a m => a ||| modMask m) k = ovlOf k := by
      simp only [List.foldl_cons, List.foldl_nil]; rfl
    have hchk : ¬ (ovlOf k &&& KEY_OVERLAP_MARKER = KEY_OVERLAP_MARKER ∧ ovlOf k &&& MASK_MODDED ≠ KEY_OVERLAP_MARKER) := by
      intro h; exact h.2 (ovlOf_modded k hk1)
    simp only [List.map_cons, Item.eventsList, Item.events, List.cons_append, List.nil_append, encodeEvents,
      List.head?_cons, isPress, Bool.false_eq_true, if_false, hfold, hchk, hno, ne_eq, not_false_eq_true, if_true]
    cases ks with
    | nil => simp [Item.eventsList, hr]
    | cons k' ks' =>
      have hp := isPress_head_keys (k' :: ks') rest (by simp)
      rw [isRelease_of_isPress hp]
      rw [enc_group_keys (k' :: ks') (seq ++ [ovlOf k]) rest (by simp) (fun q hq => hk q (by simp [hq])) hr]
      simp

theorem parseSequenceKeys_group (ks : List Nat) (hne : ks ≠ []) (hk : ∀ k ∈ ks, plainKey k = true) :
    parseSequenceKeys [.held [KC_OVERLAP] (ks.map Item.key)] = .ok (ks.map ovlOf ++ [KEY_OVERLAP_MARKER]) := by
  have hp := isPress_head_keys ks [Ev.release KC_OVERLAP] hne
  have hg := enc_group_keys ks [] [Ev.release KC_OVERLAP] hne hk (by simp [isRelease])
  have hchk : ¬ ((KC_OVERLAP ||| KEY_OVERLAP_MARKER) &&& KEY_OVERLAP_MARKER = KEY_OVERLAP_MARKER ∧
      (KC_OVERLAP ||| KEY_OVERLAP_MARKER) &&& MASK_MODDED ≠ KEY_OVERLAP_MARKER) := by decide
  have hfold : [KC_OVERLAP].foldl (fun a m => a ||| modMask m) KC_OVERLAP = KC_OVERLAP ||| KEY_OVERLAP_MARKER := by
    decide
  simp only [parseSequenceKeys, Item.hasEmptySub, hasEmptySubList_keys, Bool.false_eq_true, if_false,
    Item.events, List.map_cons, List.map_nil, List.cons_append, encodeEvents, hp, if_true,
    List.nil_append, hfold, hchk, ne_eq, not_true_eq_false, hg]
  simp [eraseFirst]

/-- **what an accepted table stores for a whole-group entry**: `O-(k1 … kn)` of plain keys is stored
in every order of its members. -/
theorem group_stored {tbl : List (Nat × List Item)} {t : Trie Nat} (h : parseSequences tbl = .ok t)
    {v : Nat} {ks : List Nat} (hm : (v, [Item.held [KC_OVERLAP] (ks.map Item.key)]) ∈ tbl)
    (hk : ∀ k ∈ ks, plainKey k = true ∧ k ≠ 0) (hne : ks ≠ []) (ps : List Nat) (hp : ps.Perm ks) :
    (ps.map ovlOf ++ [KEY_OVERLAP_MARKER], v) ∈ t.entries := by
  obtain ⟨_, pairs, hpr, hmem⟩ := parseFrom_ok tbl Trie.empty t h (by simp [TrieOK, Trie.keys, Trie.empty])
  obtain ⟨seq, os, henc, hos, hall⟩ := tableOrderings_mem tbl pairs hpr v _ hm
  have hseq : seq = ks.map ovlOf ++ [KEY_OVERLAP_MARKER] := by
    unfold encOf at henc
    rw [parseSequenceKeys_group ks hne (fun k hk' => (hk k hk').1)] at henc
    simpa using henc.symm
  rw [hseq] at hos
  have := orderings_group ks (fun k hk' => ⟨plainKey_lt (hk k hk').1, (hk k hk').2⟩) hne os hos ps hp
  exact (hmem (_, v)).2 (Or.inl (hall _ this))

/-! ### physical typing of a group: all members pressed, then all released -/

theorem callsOf_append : ∀ (a b : List PEv) (held : List Nat),
    callsOf (a ++ b) held = callsOf a held ++ callsOf b (heldAfter (evsOf a) held)
  | [], _, _ => rfl
  | .press k :: a, b, held => by simp [callsOf, evsOf, heldAfter, callsOf_append a b]
  | .release k :: a, b, held => by simp [callsOf, evsOf, heldAfter, callsOf_append a b]
  | .tick :: a, b, held => by simp [callsOf, evsOf, callsOf_append a b]

theorem plainKey_modMask {k : Nat} (h : plainKey k = true) : modMask k = 0 := by
  have : seqKey k = true := by
    simp only [plainKey, Bool.and_eq_true] at h
    simp only [seqKey, Bool.and_eq_true]
    exact ⟨⟨h.1.1.1, h.1.1.2⟩, h.2⟩
  exact (seqKey_facts k this).2.1

theorem modMaskOf_zero (l : List Nat) (h : ∀ m ∈ l, modMask m = 0) : modMaskOf l = 0 := by
  have : ∀ (l : List Nat), (∀ m ∈ l, modMask m = 0) → ∀ a, l.foldl (fun a m => a ||| modMask m) a = a := by
    intro l
    induction l with
    | nil => intro _ a; rfl
    | cons x l ih =>
      intro hl a
      simp only [List.foldl_cons, hl x (by simp), Nat.or_zero]
      exact ih (fun m hm => hl m (by simp [hm])) a
  exact this l h 0

theorem GroupPresses_append : ∀ (a b : List InpM), GroupPresses a → GroupPresses b → GroupPresses (a ++ b)
  | [], _, _, hb => hb
  | .key _ _ :: a, b, ha, hb => by
    simp only [GroupPresses] at ha
    simp only [List.cons_append, GroupPresses]
    exact ⟨ha.1, GroupPresses_append a b ha.2 hb⟩
  | .tick :: a, b, ha, hb => by
    simp only [GroupPresses] at ha
    simp only [List.cons_append, GroupPresses]
    exact GroupPresses_append a b ha hb
  | .released :: _, _, ha, _ => by simp [GroupPresses] at ha

theorem WellTimedAll_append_left (T : Nat) : ∀ (a c : List InpM) (b : Nat),
    WellTimedAll T b (a ++ c) → WellTimedAll T b a
  | [], _, _, _ => trivial
  | .key _ _ :: a, c, b, h => by
    simp only [List.cons_append, WellTimedAll] at h ⊢
    exact WellTimedAll_append_left T a c T h
  | .tick :: a, c, b, h => by
    simp only [List.cons_append, WellTimedAll] at h ⊢
    exact ⟨h.1, WellTimedAll_append_left T a c (b - 1) h.2⟩
  | .released :: a, c, b, h => by
    simp only [List.cons_append, WellTimedAll] at h ⊢
    exact WellTimedAll_append_left T a c b h

/-- the press phase: the member keys go down one after the other (timer ticks in between) -/
theorem callsOf_presses : ∀ (A : List PEv) (ks held : List Nat), evsOf A = ks.map Ev.press →
    (∀ k ∈ held, modMask k = 0) → (∀ k ∈ ks, modMask k = 0) →
    GroupPresses (callsOf A held) ∧ keysOfM (callsOf A held) = ks ∧ heldAfter (evsOf A) held = held ++ ks
  | [], ks, held, h, _, _ => by
    cases ks with
    | nil => simp [callsOf, GroupPresses, keysOfM, evsOf, heldAfter]
    | cons k ks => simp [evsOf] at h
  | .tick :: A, ks, held, h, hh, hk => by
    simp only [evsOf] at h
    have ih := callsOf_presses A ks held h hh hk
    simp only [callsOf, GroupPresses, keysOfM, evsOf]
    exact ih
  | .release q :: A, ks, held, h, _, _ => by
    cases ks with
    | nil => simp [evsOf] at h
    | cons k ks => simp [evsOf] at h
  | .press q :: A, ks, held, h, hh, hk => by
    cases ks with
    | nil => simp [evsOf] at h
    | cons k ks =>
      simp only [evsOf, List.map_cons, List.cons.injEq, Ev.press.injEq] at h
      obtain ⟨rfl, h⟩ := h
      have hh' : ∀ m ∈ held ++ [q], modMask m = 0 := by
        intro m hm
        rcases List.mem_append.1 hm with h1 | h1
        · exact hh m h1
        · simp at h1; rw [h1]; exact hk q (by simp)
      have ih := callsOf_presses A ks (held ++ [q]) h hh' (fun m hm => hk m (by simp [hm]))
      simp only [callsOf, GroupPresses, keysOfM, evsOf, heldAfter, modMaskOf_zero _ hh']
      exact ⟨⟨trivial, ih.1⟩, by rw [ih.2.1], by rw [ih.2.2]; simp⟩

theorem callsOf_ticks_only : ∀ (B : List PEv) (held : List Nat), evsOf B = [] →
    hasKey (callsOf B held) = false ∧ GroupPresses (callsOf B held) ∧ keysOfM (callsOf B held) = []
  | [], _, _ => by simp [callsOf, hasKey, GroupPresses, keysOfM]
  | .tick :: B, held, h => by
    simp only [evsOf] at h
    simp only [callsOf, hasKey, GroupPresses, keysOfM]
    exact callsOf_ticks_only B held h
  | .press _ :: _, _, h => by simp [evsOf] at h
  | .release _ :: _, _, h => by simp [evsOf] at h

/-- the release phase: the keys go up in any order; the last release runs the all-released hook -/
theorem callsOf_releases : ∀ (B : List PEv) (qs held : List Nat), evsOf B = qs.map Ev.release →
    qs.Perm held → held.Nodup → held ≠ [] →
    ∃ T1 T2, callsOf B held = T1 ++ [InpM.released] ++ T2 ∧ GroupPresses T1 ∧ keysOfM T1 = [] ∧ hasKey T2 = false
  | [], qs, held, h, hp, _, hne => by
    cases qs with
    | nil => exact absurd (hp.nil_eq).symm hne
    | cons q qs => simp [evsOf] at h
  | .tick :: B, qs, held, h, hp, hnd, hne => by
    simp only [evsOf] at h
    obtain ⟨T1, T2, h1, h2, h3, h4⟩ := callsOf_releases B qs held h hp hnd hne
    exact ⟨.tick :: T1, T2, by simp [callsOf, h1], by simp only [GroupPresses]; exact h2,
      by simp only [keysOfM]; exact h3, h4⟩
  | .press q :: B, qs, held, h, _, _, _ => by
    cases qs with
    | nil => simp [evsOf] at h
    | cons k ks => simp [evsOf] at h
  | .release q :: B, qs, held, h, hp, hnd, hne => by
    cases qs with
    | nil => simp [evsOf] at h
    | cons k qs =>
      simp only [evsOf, List.map_cons, List.cons.injEq, Ev.release.injEq] at h
      obtain ⟨rfl, h⟩ := h
      have hpe := List.cons_perm_iff_perm_erase.1 hp
      have hne' : held.isEmpty = false := by cases held <;> simp_all
      by_cases hemp : held.erase q = []
      · have hqs : qs = [] := List.perm_nil.1 (hemp ▸ hpe.2)
        subst hqs
        have ht := callsOf_ticks_only B [] (by simpa using h)
        refine ⟨[], callsOf B [], ?_, trivial, rfl, ht.1⟩
        simp [callsOf, hemp, hne']
      · have hemp' : (held.erase q).isEmpty = false := by
          cases hh : held.erase q with
          | nil => exact absurd hh hemp
          | cons a l => rfl
        obtain ⟨T1, T2, h1, h2, h3, h4⟩ := callsOf_releases B qs (held.erase q) h hpe.2 (hnd.erase q) hemp
        exact ⟨T1, T2, by simp [callsOf, hemp', h1], h2, h3, h4⟩

/-! ### what one `tick` of the tick-level machine does with a key event (ties `callsOf` to `tick`) -/

theorem pressLoop_skip (c : Cfg) (cur prev : List Nat) : ∀ (l rest : List Nat) (e : Eng),
    (∀ x ∈ l, x ∈ prev) → pressLoop c cur (l ++ rest) prev e = pressLoop c cur rest prev e
  | [], _, _, _ => rfl
  | x :: l, rest, e, h => by
    have hx : prev.contains x = true := by simpa using h x (by simp)
    simp only [List.cons_append, pressLoop, hx, if_true]
    exact pressLoop_skip c cur prev l rest e (fun y hy => h y (by simp [hy]))

theorem filter_not_contains_nil (prev cur : List Nat) (h : ∀ x ∈ prev, x ∈ cur) :
    prev.filter (fun x => !cur.contains x) = [] := by
  rw [List.filter_eq_nil_iff]
  intro x hx
  simpa using h x hx

/-- **a press tick**: when the event at the head of the queue is the press of a key mapped to the key
code `kc`, not yet down, and `prev_keys` is the list of key codes down (as the previous tick left
it), `tick` calls `do_sequence_press_logic` for exactly that key, with the mask of all keys now down
(`InpM.key kc (modMaskOf (held ++ [kc]))`; an ordinary OS press outside sequence mode), then
`tick_sequence_state`. -/
theorem tick_press (c : Cfg) (k : Kan) (co : Nat × Nat) (q : List QEv) (kc : Nat)
    (hq : k.queue = .press co :: q) (hres : c.resolve co = .key kc) (halw : c.alwaysOn = false)
    (hprev : k.prevKeys = k.states.filterMap KState.keycode) (hnew : kc ∉ k.prevKeys) :
    tick c k =
      (let e0 : Eng := { st := k.seq, states := k.states ++ [.normalKey kc co], out := [] }
       match engStepM c.trie c.modcancel e0 (.key kc (modMaskOf (k.prevKeys ++ [kc]))) with
       | .error x => .error x
       | .ok e1 =>
         match tickSeq e1 with
         | .error x => .error x
         | .ok e2 =>
           .ok ({ queue := q ++ e2.taps.flatMap (fun j => [QEv.press (1, j), QEv.release (1, j)]),
                  states := e2.states, prevKeys := k.prevKeys ++ [kc], seq := e2.st }, e2.out)) := by
  have hcur : (k.states ++ [KState.normalKey kc co]).filterMap KState.keycode = k.prevKeys ++ [kc] := by
    rw [List.filterMap_append, ← hprev]; rfl
  have hrel : k.prevKeys.filter (fun x => !(k.prevKeys ++ [kc]).contains x) = [] :=
    filter_not_contains_nil _ _ (fun x hx => by simp [hx])
  have hne : (k.prevKeys ++ [kc]).isEmpty = false := by simp
  have hloop : ∀ e : Eng, pressLoop c (k.prevKeys ++ [kc]) (k.prevKeys ++ [kc]) k.prevKeys e =
      (if e.st.active then doSeqPress c.trie c.modcancel e kc (modMaskOf (k.prevKeys ++ [kc]))
       else { e with out := e.out ++ osPress kc }) := by
    intro e
    rw [pressLoop_skip c _ _ k.prevKeys [kc] e (fun x hx => hx)]
    have hc : k.prevKeys.contains kc = false := by simpa using hnew
    simp only [pressLoop, hc, Bool.false_eq_true, if_false, halw, Bool.false_and]
  simp only [tick, layoutTick, hq, hres, hcur, hrel, hne, Bool.false_and, Bool.false_eq_true, if_false,
    List.flatMap_nil, hloop, customPress, engStepM]
  rfl

/-- **a release tick**: when the event at the head of the queue is a release, `tick` sends the OS
releases of the keys that went up, runs the all-released hook iff no key is down any more while one
was before (`InpM.released`), presses nothing, then runs `tick_sequence_state`. -/
theorem tick_release (c : Cfg) (k : Kan) (co : Nat × Nat) (q : List QEv)
    (hq : k.queue = .release co :: q)
    (hprev : k.prevKeys = k.states.filterMap KState.keycode) :
    tick c k =
      (let states' := k.states.filter (fun s => !(s.coord == co))
       let cur := states'.filterMap KState.keycode
       let e0 : Eng := { st := k.seq, states := states',
                         out := (k.prevKeys.filter (fun x => !cur.contains x)).flatMap osRelease }
       let e1 := if cur.isEmpty && !k.prevKeys.isEmpty then allReleasedHook c.trie e0 else e0
       match tickSeq e1 with
       | .error x => .error x
       | .ok e2 =>
         .ok ({ queue := q ++ e2.taps.flatMap (fun j => [QEv.press (1, j), QEv.release (1, j)]),
                states := e2.states, prevKeys := cur, seq := e2.st }, e2.out)) := by
  have hsub : ∀ x ∈ (k.states.filter (fun s => !(s.coord == co))).filterMap KState.keycode, x ∈ k.prevKeys := by
    intro x hx
    rw [hprev]
    simp only [List.mem_filterMap, List.mem_filter] at hx ⊢
    obtain ⟨s, ⟨hs, _⟩, hk⟩ := hx
    exact ⟨s, hs, hk⟩
  have hloop : ∀ e : Eng, pressLoop c ((k.states.filter (fun s => !(s.coord == co))).filterMap KState.keycode)
      ((k.states.filter (fun s => !(s.coord == co))).filterMap KState.keycode) k.prevKeys e = e := by
    intro e
    have := pressLoop_skip c ((k.states.filter (fun s => !(s.coord == co))).filterMap KState.keycode) k.prevKeys
      ((k.states.filter (fun s => !(s.coord == co))).filterMap KState.keycode) [] e hsub
    simpa [pressLoop] using this
  simp only [tick, layoutTick, hq, hloop, customPress]
  rfl

/-- **an idle tick**: with an empty queue `tick` only runs `tick_sequence_state` (`InpM.tick`). -/
theorem tick_idle (c : Cfg) (k : Kan) (hq : k.queue = [])
    (hprev : k.prevKeys = k.states.filterMap KState.keycode) :
    tick c k =
      (match tickSeq { st := k.seq, states := k.states, out := [] } with
       | .error x => .error x
       | .ok e2 =>
         .ok ({ queue := e2.taps.flatMap (fun j => [QEv.press (1, j), QEv.release (1, j)]),
                states := e2.states, prevKeys := k.prevKeys, seq := e2.st }, e2.out)) := by
  have hrel : k.prevKeys.filter (fun x => !k.prevKeys.contains x) = [] :=
    filter_not_contains_nil _ _ (fun x hx => hx)
  have hhook : (k.prevKeys.isEmpty && !k.prevKeys.isEmpty) = false := by cases k.prevKeys <;> rfl
  have hloop : ∀ e : Eng, pressLoop c k.prevKeys k.prevKeys k.prevKeys e = e := by
    intro e
    have := pressLoop_skip c k.prevKeys k.prevKeys k.prevKeys [] e (fun x hx => hx)
    simpa [pressLoop] using this
  simp only [tick, layoutTick, hq, ← hprev, hrel, hhook, Bool.false_eq_true, if_false, List.flatMap_nil,
    hloop, customPress, List.nil_append]
  rfl

end KVerif.Seq
