/-
Helper lemmas for C12, runtime part continued: whole typing histories on tables of plain keys.
-/
import KVerif.Lemmas.SeqRun
namespace KVerif.Seq

/-- One key press on plain input, by the outcome of the automaton `absKey`. -/
theorem key_step {t : Trie Nat} (hp : PlainTrie t) (mc : Bool) (e : Eng) {k : Nat}
    (hk : plainKey k = true) (hs : ∀ x ∈ e.st.sequence, x < 1024) :
    match absKey t.entries e.st.sequence k with
    | .continues w => ∃ ovl, doSeqPress t mc e k 0 =
        { pressBase e k with st := { (pressBase e k).st with sequence := w, overlapped := ovl } }
    | .failed => ∃ ovl, doSeqPress t mc e k 0 = cancelSequence
        { pressBase e k with st := { (pressBase e k).st with sequence := [], overlapped := ovl } }
    | .fired j w => ∃ ovl b, (b = true → ovl = w) ∧ doSeqPress t mc e k 0 = terminate
        { pressBase e k with st := { (pressBase e k).st with sequence := w, overlapped := ovl } } j b := by
  rw [doSeqPress_plain_eq hp mc e hk hs]
  unfold absKey
  cases hv : viable t.entries (e.st.sequence ++ [k]) with
  | true =>
    have hl : lvs t.entries (e.st.sequence ++ [k]) = e.st.sequence ++ [k] := lvs_of_viable _ _ hv
    have hne : (e.st.sequence ++ [k]).isEmpty = false := by simp
    simp only [hv, hl, hne, Bool.false_eq_true, if_false, if_true]
    cases hlk : lookupKey t.entries (e.st.sequence ++ [k]) with
    | none => exact ⟨_, rfl⟩
    | some j => exact ⟨_, true, fun _ => rfl, rfl⟩
  | false =>
    simp only [hv, Bool.false_eq_true, if_false]
    generalize lvs t.entries (e.st.sequence ++ [k]) = w
    cases w with
    | nil => simp only [List.isEmpty_nil, if_true]; exact ⟨_, rfl⟩
    | cons x w' =>
      simp only [List.isEmpty_cons, Bool.false_eq_true, if_false]
      cases hlk : lookupKey t.entries (x :: w') with
      | none => exact ⟨_, rfl⟩
      | some j => exact ⟨_, false, fun h => by simp at h, rfl⟩

theorem osPress_plain {k : Nat} (hk : plainKey k = true) : osPress k = [Out.down k] := by
  simp only [plainKey, Bool.and_eq_true, Bool.not_eq_true'] at hk
  simp [osPress, hk.1.2]

theorem osRelease_plain {k : Nat} (hk : plainKey k = true) : osRelease k = [Out.up k] := by
  simp only [plainKey, Bool.and_eq_true, Bool.not_eq_true'] at hk
  simp [osRelease, hk.1.2]

theorem pressBase_fields (e : Eng) {k : Nat} (hk : plainKey k = true) :
    (pressBase e k).st.active = e.st.active ∧ (pressBase e k).taps = e.taps ∧
    (pressBase e k).states = e.states ∧ (pressBase e k).st.rawOscs = e.st.rawOscs ++ [k] ∧
    (pressBase e k).st.mode = e.st.mode ∧ (pressBase e k).st.timeout = e.st.timeout ∧
    (pressBase e k).st.noerase = e.st.noerase ∧ (pressBase e k).st.ticksUntilTimeout = e.st.timeout ∧
    (pressBase e k).out = e.out ++ (if e.st.mode = .visibleBackspaced then [Out.down k] else []) := by
  unfold pressBase
  cases h : e.st.mode <;> simp [osPress_plain hk]

theorem allReleasedHook_plain {t : Trie Nat} (hp : PlainTrie t) (e : Eng) (ha : e.st.active = true) :
    allReleasedHook t e = { e with st := { e.st with overlapped := e.st.sequence } } := by
  have hm : ¬ KEY_OVERLAP_MARKER < 1024 := by decide
  have : t.getOrDescendant (e.st.overlapped ++ [KEY_OVERLAP_MARKER]) = .notInTrie := by
    apply eq_notInTrie_of_isNot
    rw [isNot_getOrDescendant, not_viable_of_big hp (x := KEY_OVERLAP_MARKER) (by simp) hm]; rfl
  simp [allReleasedHook, ha, this]

/-- While the automaton keeps tracking (no sequence completed, no failure) and every key arrives in
time, the model stays in sequence mode tracking exactly the automaton's word; nothing is tapped;
the OS sees the typed keys in visible-backspaced mode and nothing at all in the hidden modes. -/
theorem run_tracks {t : Trie Nat} (hp : PlainTrie t) (mc : Bool) : ∀ (is : List Inp) (e : Eng) (b : Nat) (w : Key),
    e.st.active = true → (∀ x ∈ e.st.sequence, x < 1024) → e.st.ticksUntilTimeout = b → 0 < b →
    0 < e.st.timeout → (∀ k ∈ keysOf is, plainKey k = true) → WellTimed e.st.timeout b is →
    absTrack t.entries e.st.sequence (keysOf is) = some w →
    ∃ e', engRun t mc e is = .ok e' ∧ e'.st.active = true ∧ e'.st.sequence = w ∧ e'.taps = e.taps ∧
      e'.states = e.states ∧ e'.st.rawOscs = e.st.rawOscs ++ keysOf is ∧ e'.st.mode = e.st.mode ∧
      e'.st.timeout = e.st.timeout ∧ e'.st.noerase = e.st.noerase ∧ 0 < e'.st.ticksUntilTimeout ∧
      e'.out = e.out ++ (if e.st.mode = .visibleBackspaced then (keysOf is).map Out.down else [])
  | [], e, b, w, ha, _, hb, hb0, _, _, _, htr => by
    simp only [keysOf, absTrack, Option.some.injEq] at htr
    refine ⟨e, rfl, ha, htr, rfl, rfl, by simp [keysOf], rfl, rfl, rfl, by omega, by simp [keysOf]⟩
  | .tick :: r, e, b, w, ha, hs, hb, hb0, hT, hk, hwt, htr => by
    simp only [WellTimed] at hwt
    have hstep : engStep t mc e .tick = .ok { e with st := { e.st with ticksUntilTimeout := b - 1 } } := by
      simp only [engStep, tickSeq, ha, Bool.not_true, Bool.false_eq_true, if_false, hb]
      have h1 : ¬ b = 0 := by omega
      have h2 : ¬ b - 1 = 0 := by omega
      simp [h1, h2]
    obtain ⟨e', h1, h2⟩ := run_tracks hp mc r { e with st := { e.st with ticksUntilTimeout := b - 1 } } (b - 1) w
      ha hs rfl (by omega) hT hk hwt.2 htr
    exact ⟨e', by simp only [engRun, hstep]; exact h1, h2⟩
  | .released :: r, e, b, w, ha, hs, hb, hb0, hT, hk, hwt, htr => by
    simp only [WellTimed] at hwt
    have hstep : engStep t mc e .released = .ok { e with st := { e.st with overlapped := e.st.sequence } } := by
      simp only [engStep, allReleasedHook_plain hp e ha]
    obtain ⟨e', h1, h2⟩ := run_tracks hp mc r { e with st := { e.st with overlapped := e.st.sequence } } b w
      ha hs hb hb0 hT hk hwt htr
    exact ⟨e', by simp only [engRun, hstep]; exact h1, h2⟩
  | .key k :: r, e, b, w, ha, hs, hb, hb0, hT, hk, hwt, htr => by
    simp only [WellTimed] at hwt
    have hkk : plainKey k = true := hk k (by simp [keysOf])
    simp only [keysOf, absTrack] at htr
    have hks := key_step hp mc e hkk hs
    cases hab : absKey t.entries e.st.sequence k with
    | failed => simp [hab] at htr
    | fired j m => simp [hab] at htr
    | continues w1 =>
      simp only [hab] at htr hks
      obtain ⟨ovl, hd⟩ := hks
      have pf := pressBase_fields e hkk
      have hw1 : ∀ x ∈ w1, x < 1024 := by
        -- w1 is a longest viable suffix of a plain word
        have : w1 = lvs t.entries (e.st.sequence ++ [k]) := by
          unfold absKey at hab
          simp only at hab
          split at hab
          · simp at hab
          · split at hab <;> simp at hab
            exact hab.symm
        rw [this]
        apply lvs_plain
        intro x hx
        rcases List.mem_append.1 hx with h | h
        · exact hs x h
        · simp at h; rw [h]; exact plainKey_lt hkk
      have hstep : engStep t mc e (.key k) = .ok
          { pressBase e k with st := { (pressBase e k).st with sequence := w1, overlapped := ovl } } := by
        simp only [engStep, ha, if_true, hd]
      obtain ⟨e', h1, h2a, h2b, h2c, h2d, h2e, h2f, h2g, h2h, h2i, h2j⟩ := run_tracks hp mc r
        { pressBase e k with st := { (pressBase e k).st with sequence := w1, overlapped := ovl } }
        e.st.timeout w (pf.1.trans ha) hw1 pf.2.2.2.2.2.2.2.1 hT
        (by show 0 < (pressBase e k).st.timeout; rw [pf.2.2.2.2.2.1]; exact hT)
        (fun k' hk' => hk k' (by simp [keysOf, hk']))
        (by show WellTimed (pressBase e k).st.timeout _ _; rw [pf.2.2.2.2.2.1]; exact hwt) htr
      refine ⟨e', by simp only [engRun, hstep]; exact h1, h2a, h2b, ?_, ?_, ?_, ?_, ?_, ?_, h2i, ?_⟩
      · rw [h2c]; exact pf.2.1
      · rw [h2d]; exact pf.2.2.1
      · rw [h2e]; show (pressBase e k).st.rawOscs ++ _ = _; rw [pf.2.2.2.1]; simp [keysOf]
      · rw [h2f]; exact pf.2.2.2.2.1
      · rw [h2g]; exact pf.2.2.2.2.2.1
      · rw [h2h]; exact pf.2.2.2.2.2.2.1
      · rw [h2j]
        show (pressBase e k).out ++ (if (pressBase e k).st.mode = _ then _ else _) = _
        rw [pf.2.2.2.2.2.2.2.2, pf.2.2.2.2.1]
        cases e.st.mode <;> simp [keysOf]

theorem engRun_append (t : Trie Nat) (mc : Bool) : ∀ (a b : List Inp) (e : Eng),
    engRun t mc e (a ++ b) =
      match engRun t mc e a with
      | .error c => .error c
      | .ok e' => engRun t mc e' b
  | [], b, e => rfl
  | i :: a, b, e => by
    simp only [List.cons_append, engRun]
    cases engStep t mc e i with
    | error c => rfl
    | ok e1 => exact engRun_append t mc a b e1

/-! ### the automaton on an accepted (pairwise incomparable) table -/

theorem mem_of_lookupKey {tbl : List (Key × Nat)} {w : Key} {j : Nat} (h : lookupKey tbl w = some j) :
    (w, j) ∈ tbl := by
  unfold lookupKey at h
  cases hf : tbl.find? (fun e => e.1 == w) with
  | none => simp [hf] at h
  | some e =>
    have he := List.mem_of_find?_eq_some hf
    have hk : e.1 = w := by simpa using List.find?_some hf
    simp only [hf, Option.map_some, Option.some.injEq] at h
    have : e = (w, j) := by cases e; simp_all
    exact this ▸ he

theorem lookupKey_of_mem {t : Trie Nat} (hok : TrieOK t) {w : Key} {j : Nat} (h : (w, j) ∈ t.entries) :
    lookupKey t.entries w = some j := by
  have h1 := lookup_of_mem t hok w j h
  rw [getOrDescendant_eq] at h1
  cases hl : lookupKey t.entries w with
  | none => rw [hl] at h1; simp only at h1; split at h1 <;> simp at h1
  | some j' => rw [hl] at h1; simpa using h1

theorem viable_of_prefix {tbl : List (Key × Nat)} {w s : Key} {j : Nat} (hs : (s, j) ∈ tbl) (hp : w <+: s) :
    viable tbl w = true := by
  simp only [viable, List.any_eq_true]
  exact ⟨(s, j), hs, by simpa [List.isPrefixOf_iff_prefix] using hp⟩

/-- typing a proper prefix of a defined sequence keeps the automaton tracking exactly that prefix -/
theorem absTrack_prefix {t : Trie Nat} (hok : TrieOK t) {s : Key} {j : Nat} (hs : (s, j) ∈ t.entries) :
    ∀ (q p v : Key), p ++ q ++ v = s → v ≠ [] → absTrack t.entries p q = some (p ++ q)
  | [], p, _, _, _ => by simp [absTrack]
  | x :: q, p, v, h, hv => by
    have hpre : (p ++ [x]) <+: s := ⟨q ++ v, by rw [← h]; simp⟩
    have hvi := viable_of_prefix hs hpre
    have hnone : lookupKey t.entries (p ++ [x]) = none := by
      cases hl : lookupKey t.entries (p ++ [x]) with
      | none => rfl
      | some j' =>
        exfalso
        have hm := mem_of_lookupKey hl
        have hne : (p ++ [x], j') ≠ (s, j) := by
          intro he
          have : p ++ [x] = s := by simpa using congrArg Prod.fst he
          rw [← h] at this
          have := congrArg List.length this
          simp at this
          cases v with
          | nil => exact hv rfl
          | cons a v' => simp at this
        unfold TrieOK Trie.keys at hok
        rw [List.pairwise_map] at hok
        have := pairwise_mem_ne (R := fun a b : Key × Nat => Incomp a.1 b.1)
          (fun _ _ hxy => Incomp.symm hxy) hok _ hm _ hs hne
        exact this.1 hpre
    have hab : absKey t.entries p x = .continues (p ++ [x]) := by
      unfold absKey
      simp [lvs_of_viable _ _ hvi, hnone]
    simp only [absTrack, hab]
    have := absTrack_prefix hok hs q (p ++ [x]) v (by rw [← h]; simp) hv
    simpa using this

/-- the last key of a defined sequence completes it -/
theorem absKey_complete {t : Trie Nat} (hok : TrieOK t) {u : Key} {k j : Nat}
    (hs : (u ++ [k], j) ∈ t.entries) : absKey t.entries u k = .fired j (u ++ [k]) := by
  have hvi := viable_of_prefix hs (List.prefix_refl _)
  unfold absKey
  simp [lvs_of_viable _ _ hvi, lookupKey_of_mem hok hs]

theorem plain_of_mem {t : Trie Nat} (hp : PlainTrie t) {s : Key} {j : Nat} (hs : (s, j) ∈ t.entries) :
    ∀ x ∈ s, plainKey x = true := by
  simp only [PlainTrie, plainTable, List.all_eq_true, Bool.and_eq_true] at hp
  exact (hp (s, j) hs).1

theorem charCount_plain : ∀ (w : Key), (∀ x ∈ w, plainKey x = true) → charCount w = w.length
  | [], _ => rfl
  | x :: w, h => by
    have hx := h x (by simp)
    have ih := charCount_plain w (fun y hy => h y (by simp [hy]))
    have hc : isCharKey x = true := by
      have hlt := plainKey_lt hx
      simp only [plainKey, Bool.and_eq_true, Bool.not_eq_true', decide_eq_true_eq] at hx
      simp only [isCharKey, and_mask_of_lt x hlt, hx.1.1.2, hx.1.2, Bool.not_false, Bool.and_true,
        bne_iff_ne, ne_eq]
      unfold KEY_OVERLAP_MARKER; omega
    simp only [charCount, List.filter_cons, hc, if_true, List.length_cons] at ih ⊢
    omega

/-! ### timeouts (any table) -/

theorem engStep_tick_active (t : Trie Nat) (mc : Bool) (e : Eng) (ha : e.st.active = true)
    (h : 1 < e.st.ticksUntilTimeout) :
    engStep t mc e .tick = .ok { e with st := { e.st with ticksUntilTimeout := e.st.ticksUntilTimeout - 1 } } := by
  have h1 : ¬ e.st.ticksUntilTimeout = 0 := by omega
  have h2 : ¬ e.st.ticksUntilTimeout - 1 = 0 := by omega
  simp only [engStep, tickSeq, ha, Bool.not_true, Bool.false_eq_true, if_false, h1, h2]

theorem ticks_keep_active (t : Trie Nat) (mc : Bool) : ∀ (n : Nat) (e : Eng), e.st.active = true →
    n < e.st.ticksUntilTimeout →
    engRun t mc e (List.replicate n .tick) =
      .ok { e with st := { e.st with ticksUntilTimeout := e.st.ticksUntilTimeout - n } }
  | 0, e, _, _ => by simp [engRun]
  | n + 1, e, ha, hn => by
    simp only [List.replicate_succ, engRun, engStep_tick_active t mc e ha (by omega)]
    have := ticks_keep_active t mc n
      { e with st := { e.st with ticksUntilTimeout := e.st.ticksUntilTimeout - 1 } } ha
      (by show n < e.st.ticksUntilTimeout - 1; omega)
    rw [this]
    simp only [Except.ok.injEq]
    have : e.st.ticksUntilTimeout - 1 - n = e.st.ticksUntilTimeout - (n + 1) := by omega
    simp only [this]

theorem ticks_time_out (t : Trie Nat) (mc : Bool) (e : Eng) (ha : e.st.active = true)
    (hb : 0 < e.st.ticksUntilTimeout) :
    engRun t mc e (List.replicate e.st.ticksUntilTimeout .tick) =
      .ok (cancelSequence { e with st := { e.st with ticksUntilTimeout := 0 } }) := by
  obtain ⟨n, hn⟩ : ∃ n, e.st.ticksUntilTimeout = n + 1 := ⟨e.st.ticksUntilTimeout - 1, by omega⟩
  rw [hn, List.replicate_succ', engRun_append, ticks_keep_active t mc n e ha (by omega)]
  simp only [engRun, engStep, tickSeq, ha, Bool.not_true, Bool.false_eq_true, if_false]
  have h1 : ¬ e.st.ticksUntilTimeout - n = 0 := by omega
  have h2 : e.st.ticksUntilTimeout - n - 1 = 0 := by omega
  simp [h1, h2]

end KVerif.Seq
