/-
The OS events of `tick_states` in closed form (stage (a) of `replay_same_os_output_kan`): the key
diff of `handle_keystate_changes` - releases of keys that were down and are no longer wanted, then
presses of wanted keys that were not down, duplicates pressed once - as a function `osDiff` of the
static output tables, the OS key list before (`prev_keys`) and the layout's key-code list after.
-/
import KVerif.Lemmas.C07BisimK
import KVerif.Lemmas.KanataDynReplay
namespace KVerif.K
open KVerif KVerif.L

/-- what `release_key` writes for one key code -/
def keyUp (k : KState) (kc : KeyCode) : List Os :=
  if k.ignoreMin ≤ kc ∧ kc ≤ k.ignoreMax then []
  else match k.btnCodes.find? (·.1 == kc) with
    | some (_, b) => [.btnUp b]
    | none => match k.wheelCodes.find? (·.1 == kc) with
      | some _ => []
      | none => [.up kc]

/-- what `press_key` writes for one key code -/
def keyDown (k : KState) (kc : KeyCode) : List Os :=
  if k.ignoreMin ≤ kc ∧ kc ≤ k.ignoreMax then []
  else match k.btnCodes.find? (·.1 == kc) with
    | some (_, b) => [.btnDown b]
    | none => match k.wheelCodes.find? (·.1 == kc) with
      | some (_, d) => [.scroll d 120]
      | none => [.down kc]

/-- the same output tables (`ignoreMin/Max`, mouse-button and wheel key codes) -/
def SameTables (a b : KState) : Prop :=
  a.ignoreMin = b.ignoreMin ∧ a.ignoreMax = b.ignoreMax ∧ a.btnCodes = b.btnCodes ∧ a.wheelCodes = b.wheelCodes

theorem keyUp_congr {a b : KState} (h : SameTables a b) (kc : KeyCode) : keyUp a kc = keyUp b kc := by
  unfold keyUp; rw [h.1, h.2.1, h.2.2.1, h.2.2.2]

theorem keyDown_congr {a b : KState} (h : SameTables a b) (kc : KeyCode) : keyDown a kc = keyDown b kc := by
  unfold keyDown; rw [h.1, h.2.1, h.2.2.1, h.2.2.2]

theorem out_append_nil (k : KState) : ({ k with out := k.out ++ [] } : KState) = k := by
  cases k; simp

theorem releaseKey_eq (k : KState) (kc : KeyCode) :
    releaseKey k kc = { k with out := k.out ++ keyUp k kc } := by
  unfold releaseKey keyUp KState.emit
  by_cases h : (k.ignoreMin ≤ kc ∧ kc ≤ k.ignoreMax)
  · rw [if_pos h, if_pos h]; exact (out_append_nil k).symm
  · rw [if_neg h, if_neg h]
    cases hb : k.btnCodes.find? (·.1 == kc) with
    | some p => rfl
    | none =>
      simp only []
      cases hw : k.wheelCodes.find? (·.1 == kc) with
      | some p => exact (out_append_nil k).symm
      | none => rfl

theorem pressKey_eq (k : KState) (kc : KeyCode) :
    pressKey k kc = { k with out := k.out ++ keyDown k kc } := by
  unfold pressKey keyDown KState.emit
  by_cases h : (k.ignoreMin ≤ kc ∧ kc ≤ k.ignoreMax)
  · rw [if_pos h, if_pos h]; exact (out_append_nil k).symm
  · rw [if_neg h, if_neg h]
    cases hb : k.btnCodes.find? (·.1 == kc) with
    | some p => rfl
    | none =>
      simp only []
      cases hw : k.wheelCodes.find? (·.1 == kc) with
      | some p => rfl
      | none => rfl

/-- the keys of `cur` that are not in `prev`, each once, in order (the press loop extends
`prev_keys` as it goes) -/
def newKeys (prev : List KeyCode) : List KeyCode → List KeyCode
  | [] => []
  | x :: r => if prev.contains x then newKeys prev r else x :: newKeys (prev ++ [x]) r

/-- the OS events of one key diff -/
def osDiff (k : KState) (prev cur : List KeyCode) : List Os :=
  (prev.filter (fun x => !cur.contains x)).flatMap (keyUp k) ++ (newKeys prev cur).flatMap (keyDown k)

theorem releaseFold_eq (cur : List KeyCode) : ∀ (olds : List KeyCode) (k : KState),
    olds.foldl (fun k x => if cur.contains x then k else releaseKey k x) k
      = { k with out := k.out ++ (olds.filter (fun x => !cur.contains x)).flatMap (keyUp k) } := by
  intro olds
  induction olds with
  | nil => intro k; simp only [List.foldl_nil, List.filter_nil, List.flatMap_nil]; exact (out_append_nil k).symm
  | cons x r ih =>
    intro k
    simp only [List.foldl_cons]
    by_cases hc : cur.contains x = true
    · simp only [hc, if_true, List.filter_cons, Bool.not_true, Bool.false_eq_true, if_false]
      exact ih k
    · have hc' : cur.contains x = false := by simpa using hc
      simp only [hc', Bool.false_eq_true, if_false, List.filter_cons, Bool.not_false, if_true, List.flatMap_cons]
      rw [ih, releaseKey_eq]
      have ht : SameTables ({ k with out := k.out ++ keyUp k x } : KState) k := ⟨rfl, rfl, rfl, rfl⟩
      have : ∀ l : List KeyCode, l.flatMap (keyUp ({ k with out := k.out ++ keyUp k x } : KState)) = l.flatMap (keyUp k) := by
        intro l; rfl
      rw [this]
      simp only [List.append_assoc]

theorem releaseOld_eq (k : KState) (cur : List KeyCode) :
    releaseOld k cur false = { k with out := k.out ++ (k.prevKeys.filter (fun x => !cur.contains x)).flatMap (keyUp k) } := by
  unfold releaseOld
  simp only [Bool.false_eq_true, if_false]
  exact releaseFold_eq cur k.prevKeys k

theorem pressNew_out (cur : List KeyCode) : ∀ (k : KState),
    (pressNew k cur).out = k.out ++ (newKeys k.prevKeys cur).flatMap (keyDown k) ∧ SameTables (pressNew k cur) k := by
  induction cur with
  | nil => intro k; simp [pressNew, newKeys, SameTables]
  | cons x r ih =>
    intro k
    have hstep : pressNew k (x :: r) = pressNew (if k.prevKeys.contains x then k
        else pressKey { k with prevKeys := k.prevKeys ++ [x], lastPressedKey := x } x) r := by
      unfold pressNew; simp only [List.foldl_cons]
    rw [hstep]
    by_cases hc : k.prevKeys.contains x = true
    · simp only [hc, if_true, newKeys]
      exact ih k
    · have hc' : k.prevKeys.contains x = false := by simpa using hc
      simp only [hc', Bool.false_eq_true, if_false, newKeys, List.flatMap_cons]
      let k1 : KState := { k with prevKeys := k.prevKeys ++ [x], lastPressedKey := x }
      have hk2 : pressKey k1 x = { k1 with out := k1.out ++ keyDown k1 x } := pressKey_eq k1 x
      have ho : (pressKey k1 x).out = k.out ++ keyDown k x := by rw [hk2]; rfl
      have hp : (pressKey k1 x).prevKeys = k.prevKeys ++ [x] := by rw [hk2]
      have ht : SameTables (pressKey k1 x) k := by rw [hk2]; exact ⟨rfl, rfl, rfl, rfl⟩
      obtain ⟨h1, h2⟩ := ih (pressKey k1 x)
      refine ⟨?_, ⟨h2.1.trans ht.1, h2.2.1.trans ht.2.1, h2.2.2.1.trans ht.2.2.1, h2.2.2.2.trans ht.2.2.2⟩⟩
      show (pressNew (pressKey k1 x) r).out = _
      rw [h1, ho, hp]
      have e2 : ∀ l : List KeyCode, l.flatMap (keyDown (pressKey k1 x)) = l.flatMap (keyDown k) := by
        intro l; congr 1; funext y; exact keyDown_congr ht y
      rw [e2]
      simp only [List.append_assoc]

/-- **(a) the OS events of one `tick_states`, exactly**: with the other kanata-level components at
rest, a tick whose layout tick yields `l'` writes `osDiff k k.prevKeys l'.keycodes` and nothing else,
and leaves `l'.keycodes` as the OS key state. -/
theorem afterTick_out (k : KState) (l' : Layout) :
    (C07.afterTick k l').out = k.out ++ osDiff k k.prevKeys l'.keycodes ∧
    (C07.afterTick k l').prevKeys = l'.keycodes ∧ SameTables (C07.afterTick k l') k := by
  unfold C07.afterTick
  have hr := releaseOld_eq (C07.setL k l') l'.keycodes
  obtain ⟨p1, p2⟩ := pressNew_out l'.keycodes (releaseOld (C07.setL k l') l'.keycodes false)
  have ht : SameTables (releaseOld (C07.setL k l') l'.keycodes false) k := by rw [hr]; exact ⟨rfl, rfl, rfl, rfl⟩
  refine ⟨?_, rfl, ⟨p2.1.trans ht.1, p2.2.1.trans ht.2.1, p2.2.2.1.trans ht.2.2.1, p2.2.2.2.trans ht.2.2.2⟩⟩
  show (pressNew (releaseOld (C07.setL k l') l'.keycodes false) l'.keycodes).out = _
  rw [p1]
  have e2 : ∀ l : List KeyCode, l.flatMap (keyDown (releaseOld (C07.setL k l') l'.keycodes false)) = l.flatMap (keyDown k) := by
    intro l; congr 1; funext y; exact keyDown_congr ht y
  rw [e2, hr]
  show (k.out ++ (k.prevKeys.filter _).flatMap (keyUp (C07.setL k l'))) ++ (newKeys k.prevKeys l'.keycodes).flatMap (keyDown k) = _
  have e3 : ∀ l : List KeyCode, l.flatMap (keyUp (C07.setL k l')) = l.flatMap (keyUp k) := by
    intro l; congr 1
  rw [e3]
  unfold osDiff
  simp only [List.append_assoc]

end KVerif.K
