/-
C01 helper lemmas, part 3: quiescence on a tap-hold fragment (C05): plain keys, output chords,
layer-while-held, transparent / unmapped positions, and tap-hold keys of every variant (default,
press, release, custom release / except keys, any hold timeout and tap-hold interval) whose hold,
tap and timeout actions are one of the first three.

While a tap-hold key is undecided nothing is taken from the queue, so on this fragment
`extra_waiting` stays empty.  The invariant `HInv` says what `C06.Inv` says for the one-shot fragment
(every state belongs to a key that is down or whose release is queued), and the same of the
undecided tap-hold key.
-/
import KVerif.Lemmas.TapHold
import KVerif.Lemmas.Quiesce
import KVerif.Props.C02
namespace KVerif.Quiesce
open KVerif.L KVerif.C06

/-! ## the fragment -/

def FragH : Action → Prop
  | .noOp | .trans | .keyCode _ | .multipleKeyCodes _ | .layer _ => True
  | .holdTap _ hold tap to _ _ => Simple hold ∧ Simple tap ∧ Simple to
  | _ => False

def CfgH (c : LCfg) : Prop :=
  (∀ tbl ∈ c.layers, ∀ e ∈ tbl, FragH e.2) ∧ (∀ e ∈ c.srcKeys, FragH e.2)

/-- hold timeout and tap-hold interval of a tap-hold action -/
def htT : Action → Nat
  | .holdTap T _ _ _ _ _ => T
  | _ => 0
def htI : Action → Nat
  | .holdTap _ _ _ _ _ iv => iv
  | _ => 0

def maxHoldTimeout (c : LCfg) : Nat :=
  max (listMax (c.layers.map fun tbl => listMax (tbl.map fun e => htT e.2)))
      (listMax (c.srcKeys.map fun e => htT e.2))
def maxTapInterval (c : LCfg) : Nat :=
  max (listMax (c.layers.map fun tbl => listMax (tbl.map fun e => htI e.2)))
      (listMax (c.srcKeys.map fun e => htI e.2))

/-- every hold timeout of the configuration is at most `T`, every tap-hold interval at most `I` -/
def HBound (c : LCfg) (T I : Nat) : Prop :=
  (∀ tbl ∈ c.layers, ∀ e ∈ tbl, htT e.2 ≤ T ∧ htI e.2 ≤ I) ∧ (∀ e ∈ c.srcKeys, htT e.2 ≤ T ∧ htI e.2 ≤ I)

theorem hBound_max (c : LCfg) : HBound c (maxHoldTimeout c) (maxTapInterval c) := by
  have key : ∀ (f : Action → Nat),
      (∀ tbl ∈ c.layers, ∀ e ∈ tbl, f e.2 ≤ max (listMax (c.layers.map fun tbl => listMax (tbl.map fun e => f e.2)))
        (listMax (c.srcKeys.map fun e => f e.2))) ∧
      (∀ e ∈ c.srcKeys, f e.2 ≤ max (listMax (c.layers.map fun tbl => listMax (tbl.map fun e => f e.2)))
        (listMax (c.srcKeys.map fun e => f e.2))) := by
    intro f
    refine ⟨fun tbl ht e he => ?_, fun e he => ?_⟩
    · have h1 : f e.2 ≤ listMax (tbl.map fun e => f e.2) := le_listMax (List.mem_map.mpr ⟨e, he, rfl⟩)
      have h2 : listMax (tbl.map fun e => f e.2) ≤ listMax (c.layers.map fun tbl => listMax (tbl.map fun e => f e.2)) :=
        le_listMax (List.mem_map.mpr ⟨tbl, ht, rfl⟩)
      exact Nat.le_trans h1 (Nat.le_trans h2 (Nat.le_max_left _ _))
    · have h1 : f e.2 ≤ listMax (c.srcKeys.map fun e => f e.2) := le_listMax (List.mem_map.mpr ⟨e, he, rfl⟩)
      exact Nat.le_trans h1 (Nat.le_max_right _ _)
  exact ⟨fun tbl ht e he => ⟨(key htT).1 tbl ht e he, (key htI).1 tbl ht e he⟩,
    fun e he => ⟨(key htT).2 e he, (key htI).2 e he⟩⟩

/-! ## a waiting tap-hold key -/

structure WOK (T : Nat) (w : Waiting) : Prop where
  cfg : ∃ c, w.config = .holdTap c
  hold : Simple w.hold
  tap : Simple w.tap
  to : Simple w.timeoutAction
  timeout : w.timeout ≤ T

/-- `handle_hold_tap` decides whenever it looks at a queue that holds the key's release -/
theorem handleHoldTap_release (w : Waiting) (cfg : HTConfig) (q : List Queued)
    (hr : ∃ x ∈ q, x.ev = .release w.coord) (h : (handleHoldTap w cfg q).2 = none) : 0 < w.timeout := by
  unfold handleHoldTap at h
  split at h
  · rename_i hc
    simp only [Bool.and_eq_true, decide_eq_true_eq] at hc
    exact hc.2
  · exfalso
    split at h
    · cases h
    · simp only [] at h
      split at h
      · split at h <;> cases h
      · rename_i hf
        obtain ⟨x, hx, hxe⟩ := hr
        have := List.find?_eq_none.mp hf x hx
        simp [isCorrespondingRelease, hxe] at this

/-! ## what a press does on the fragment -/

/-- the tap-hold arm: a new waiting state, or (inside the tap-hold interval of a repeated tap) the
tap action at once -/
theorem dispatch_holdTap (fuel : Nat) (s : Layout) (T : Nat) (hold tap to : Action) (cfg : HTConfig) (iv : Nat)
    (c : Coord) (d : Nat) (ls : List Nat) (ht : Simple tap) :
    dispatch (fuel + 3) s (.holdTap T hold tap to cfg iv) c d false ls =
      if iv == 0 || c != s.lptCoord || s.lptTapHoldTimeout == 0 then
        if ls.length > MAX_ACTIVE_LAYERS then .error .layerStackOverflow
        else .ok (armHoldTapWait s c d T hold tap to cfg iv ls, .noEvent)
      else .ok (updateCoord (simpleArm (prelude { s with lptTapHoldTimeout := 0 } c) tap c false) c, .noEvent) := by
  simp only [dispatch, doAction_simple fuel _ tap ht]
  rfl

theorem armHoldTapWait_spec (s : Layout) (c : Coord) (d T : Nat) (hold tap to : Action) (cfg : HTConfig)
    (iv : Nat) (ls : List Nat) (hw : s.waiting = none) :
    ∃ w, (armHoldTapWait s c d T hold tap to cfg iv ls).waiting = some w ∧
      w.coord = c ∧ w.timeout ≤ T ∧ w.hold = hold ∧ w.tap = tap ∧ w.timeoutAction = to ∧
      w.config = .holdTap cfg ∧
      Frame s { armHoldTapWait s c d T hold tap to cfg iv ls with waiting := none } ∧
      (armHoldTapWait s c d T hold tap to cfg iv ls).queue = s.queue ∧
      (armHoldTapWait s c d T hold tap to cfg iv ls).states = s.states ∧
      (armHoldTapWait s c d T hold tap to cfg iv ls).oneshot = s.oneshot ∧
      (armHoldTapWait s c d T hold tap to cfg iv ls).lptTapHoldTimeout = iv ∧
      (armHoldTapWait s c d T hold tap to cfg iv ls).extraWaiting = s.extraWaiting := by
  unfold armHoldTapWait
  simp only [hw]
  refine ⟨{ coord := c, timeout := if s.quickTapHoldTimeout then T - d else T,
            delay := if s.quickTapHoldTimeout then 0 else d, ticks := 0, hold := hold, tap := tap,
            timeoutAction := to, config := .holdTap cfg, layerStack := ls, prevQueueLen := 255 },
    ?_, rfl, ?_, rfl, rfl, rfl, rfl, ?_, ?_, ?_, ?_, ?_, ?_⟩
  · unfold updateCoord; split <;> rfl
  · show (if s.quickTapHoldTimeout then T - d else T) ≤ T
    split <;> omega
  · unfold updateCoord
    split <;> exact ⟨hw.symm ▸ rfl, rfl, rfl, rfl, rfl, rfl, rfl, rfl, rfl⟩
  all_goals (unfold updateCoord; split <;> rfl)

/-- what a press on the fragment leaves alone -/
structure FrameH (s s' : Layout) : Prop where
  extra : s'.extraWaiting = s.extraWaiting
  tde : s'.tapDanceEager = s.tapDanceEager
  aq : s'.actionQueue = s.actionQueue
  seqs : s'.activeSequences = s.activeSequences
  cfg : s'.cfg = s.cfg
  dl : s'.defaultLayer = s.defaultLayer
  queue : s'.queue = s.queue
  osh : s'.oneshot = s.oneshot

theorem FrameH.refl (s : Layout) : FrameH s s := ⟨rfl, rfl, rfl, rfl, rfl, rfl, rfl, rfl⟩
theorem FrameH.trans {a b c : Layout} (h1 : FrameH a b) (h2 : FrameH b c) : FrameH a c :=
  ⟨h2.extra.trans h1.extra, h2.tde.trans h1.tde, h2.aq.trans h1.aq, h2.seqs.trans h1.seqs,
   h2.cfg.trans h1.cfg, h2.dl.trans h1.dl, h2.queue.trans h1.queue, h2.osh.trans h1.osh⟩

theorem FrameH.of_frame {s s' : Layout} (f : Frame s s') (hq : s'.queue = s.queue) (ho : s'.oneshot = s.oneshot) :
    FrameH s s' := ⟨f.extra, f.tde, f.aq, f.seqs, f.cfg, f.dl, hq, ho⟩

/-- `prelude` followed by the arm of a simple action, no one-shot key active -/
theorem simple_step (s : Layout) (a : Action) (hs : Simple a) (c : Coord) (hk : s.oneshot.keys = []) :
    FrameH s (simpleArm (prelude s c) a c false) ∧ Adds c s (simpleArm (prelude s c) a c false) ∧
    (simpleArm (prelude s c) a c false).waiting = s.waiting ∧
    (simpleArm (prelude s c) a c false).lptTapHoldTimeout ≤ s.lptTapHoldTimeout := by
  obtain ⟨p1, p2, p3, p4⟩ := prelude_spec s c
  have sp := simpleArm_spec (prelude s c) a hs c false
  have ho : (simpleArm (prelude s c) a c false).oneshot = s.oneshot := by
    rw [sp.osh, p2]
    simp only [Bool.false_eq_true, if_false]
    rw [handlePress_inactive _ _ hk]
  refine ⟨FrameH.of_frame (p1.trans sp.frame) (sp.queue.trans p3) ho, (prelude_adds s c).trans sp.adds,
    sp.frame.waiting.trans p1.waiting, ?_⟩
  rw [simpleArm_lpt]
  exact prelude_lpt s c

theorem dispatch_H (fuel : Nat) (T I : Nat) (s : Layout) (a : Action) (hf : FragH a) (hb : htT a ≤ T ∧ htI a ≤ I)
    (c : Coord) (dl : Nat) (ls : List Nat) (s' : Layout) (cu : CustomEv) (hw : s.waiting = none)
    (hk : s.oneshot.keys = []) (h : dispatch (fuel + 3) s a c dl false ls = .ok (s', cu)) :
    cu = .noEvent ∧ FrameH s s' ∧ Adds c s s' ∧
    ((s'.waiting = none ∧ s'.lptTapHoldTimeout ≤ s.lptTapHoldTimeout) ∨
     (∃ w, s'.waiting = some w ∧ w.coord = c ∧ WOK T w ∧ s'.lptTapHoldTimeout ≤ I)) := by
  -- the three simple arms, without the prelude
  have simple : ∀ a', Simple a' → ∀ t : Layout, t.oneshot.keys = [] →
      FrameH t (simpleArm t a' c false) ∧ Adds c t (simpleArm t a' c false) ∧
      (simpleArm t a' c false).waiting = t.waiting ∧
      (simpleArm t a' c false).lptTapHoldTimeout = t.lptTapHoldTimeout := by
    intro a' hs t hkt
    have sp := simpleArm_spec t a' hs c false
    have ho : (simpleArm t a' c false).oneshot = t.oneshot := by
      rw [sp.osh]
      simp only [Bool.false_eq_true, if_false]
      rw [handlePress_inactive _ _ hkt]
    exact ⟨FrameH.of_frame sp.frame sp.queue ho, sp.adds, sp.frame.waiting, simpleArm_lpt t a' c false⟩
  cases a <;> simp only [FragH] at hf
  case noOp =>
    simp only [dispatch] at h
    injection h with h; injection h with h1 h2; subst h1
    obtain ⟨n1, n2, n3, n4⟩ := armNoOp_spec s .noOp c
    have ho : (armNoOp s .noOp c false).oneshot = s.oneshot := by
      rw [n4]; split
      · rw [handlePress_inactive _ _ hk]
      · rfl
    exact ⟨h2.symm, FrameH.of_frame n1 n2 ho, Adds.of_states n3,
      Or.inl ⟨n1.waiting.trans hw, Nat.le_of_eq (armNoOp_lpt s .noOp c false)⟩⟩
  case trans => simp only [dispatch] at h; cases h
  case keyCode kc =>
    simp only [dispatch] at h
    injection h with h; injection h with h1 h2; subst h1
    obtain ⟨f1, f2, f3, f4⟩ := simple (.keyCode kc) trivial s hk
    exact ⟨h2.symm, f1, f2, Or.inl ⟨f3.trans hw, Nat.le_of_eq f4⟩⟩
  case multipleKeyCodes kcs =>
    simp only [dispatch] at h
    injection h with h; injection h with h1 h2; subst h1
    obtain ⟨f1, f2, f3, f4⟩ := simple (.multipleKeyCodes kcs) trivial s hk
    exact ⟨h2.symm, f1, f2, Or.inl ⟨f3.trans hw, Nat.le_of_eq f4⟩⟩
  case layer v =>
    simp only [dispatch] at h
    injection h with h; injection h with h1 h2; subst h1
    obtain ⟨f1, f2, f3, f4⟩ := simple (.layer v) trivial s hk
    exact ⟨h2.symm, f1, f2, Or.inl ⟨f3.trans hw, Nat.le_of_eq f4⟩⟩
  case holdTap T0 hold tap to cfg iv =>
    simp only [htT, htI] at hb
    rw [dispatch_holdTap fuel s T0 hold tap to cfg iv c dl ls hf.2.1] at h
    split at h
    · split at h
      · cases h
      · injection h with h; injection h with h1 h2; subst h1
        obtain ⟨w, e1, e2, e3, e4, e5, e6, e7, e8, e9, e10, e11, e12, e13⟩ :=
          armHoldTapWait_spec s c dl T0 hold tap to cfg iv ls hw
        refine ⟨h2.symm, ⟨e13, e8.tde, e8.aq, e8.seqs, e8.cfg, e8.dl, e9, e11⟩, Adds.of_states e10,
          Or.inr ⟨w, e1, e2, ⟨⟨cfg, e7⟩, e4 ▸ hf.1, e5 ▸ hf.2.1, e6 ▸ hf.2.2, Nat.le_trans e3 hb.1⟩, ?_⟩⟩
        rw [e12]; exact hb.2
    · injection h with h; injection h with h1 h2; subst h1
      obtain ⟨f1, f2, f3, f4⟩ := simple_step { s with lptTapHoldTimeout := 0 } tap hf.2.1 c hk
      obtain ⟨u1, u2, u3, u4⟩ := updateCoord_spec (simpleArm (prelude { s with lptTapHoldTimeout := 0 } c) tap c false) c
      have f0 : FrameH s { s with lptTapHoldTimeout := 0 } := ⟨rfl, rfl, rfl, rfl, rfl, rfl, rfl, rfl⟩
      refine ⟨h2.symm, (f0.trans f1).trans (FrameH.of_frame u1 u3 u2), ?_, Or.inl ⟨?_, ?_⟩⟩
      · exact ((Adds.of_states (c := c) (s := s) (s' := { s with lptTapHoldTimeout := 0 }) rfl).trans f2).trans
          (Adds.of_states u4)
      · rw [u1.waiting, f3]; exact hw
      · rw [updateCoord_lpt]
        exact Nat.le_trans f4 (Nat.zero_le _)

/-! ## the invariant and the potential -/

structure HInv (T I d : Nat) (s : Layout) (down : List Coord) : Prop where
  extra : s.extraWaiting = []
  tde : s.tapDanceEager = none
  aq : s.actionQueue = []
  seqs : s.activeSequences = []
  states : ∀ st ∈ s.states, StOK st
  osh : s.oneshot.keys = []
  delay : s.oneshot.pauseInputProcessingDelay = d
  pause : s.oneshot.pauseInputProcessingTicks ≤ d
  /-- the undecided tap-hold key: well-formed, input not paused, and the key is down or its release is queued -/
  wok : ∀ w, s.waiting = some w → WOK T w ∧ s.oneshot.pauseInputProcessingTicks = 0 ∧
    (w.coord ∈ down ∨ ∃ x ∈ s.queue, x.ev = .release w.coord)
  cfg : CfgH s.cfg
  bound : HBound s.cfg T I
  qlen : s.queue.length ≤ QUEUE_SIZE
  qwf : QWF down s.queue
  owned : ∀ st ∈ s.states, ∀ c, st.coord = some c → c ∈ down ∨ ∃ x ∈ s.queue, x.ev = .release c
  lpt : s.lptTapHoldTimeout ≤ I

/-- a freshly created layout satisfies the invariant -/
theorem init_hinv (cfg : LCfg) (hc : CfgH cfg) (T I : Nat) (hb : HBound cfg T I) (tv2 dfl qth : Bool) (osd : Nat) :
    HInv T I osd ({ cfg := cfg, transV2 := tv2, delegateToFirstLayer := dfl, quickTapHoldTimeout := qth,
                    oneshot := { pauseInputProcessingDelay := osd } } : Layout) [] :=
  ⟨rfl, rfl, rfl, rfl, fun _ h => (by cases h), rfl, rfl, Nat.zero_le _, fun _ h => (by cases h), hc, hb,
   Nat.zero_le _, trivial, fun _ h => (by cases h), Nat.zero_le _⟩

/-- what the undecided tap-hold key still costs: its countdown, the decision tick, the input pause
that follows a hold or tap decision -/
def wLoad (d : Nat) : Option Waiting → Nat
  | some w => w.timeout + d + 1
  | none => 0

/-- an upper bound for the ticks until the layout is at rest: a queued press weighs
`T + d + I + 2` (it may start a countdown of `T`, the pause `d` after its decision and a quick-tap
window of `I`), a queued release 1 -/
def hPot (T I d : Nat) (s : Layout) : Nat :=
  queueLoad (T + d + I) s.queue + wLoad d s.waiting + s.oneshot.pauseInputProcessingTicks + s.lptTapHoldTimeout

theorem tickPre_H {T I d : Nat} {s : Layout} {down : List Coord} (h : HInv T I d s down) :
    tickPre s = { s with queue := age s.queue, lptTapHoldTimeout := s.lptTapHoldTimeout - 1,
                         histKeys := histTick s.histKeys, histInputs := histTick s.histInputs } := by
  unfold tickPre
  simp only [h.tde]
  simp (disch := first | exact h.seqs | exact h.states) only [C04.processSequences_inert]
  rfl

theorem HInv.pre {T I d : Nat} {s : Layout} {down : List Coord} (h : HInv T I d s down) :
    HInv T I d (tickPre s) down ∧ (tickPre s).queue = age s.queue ∧ (tickPre s).waiting = s.waiting ∧
    (tickPre s).oneshot = s.oneshot ∧ (tickPre s).lptTapHoldTimeout = s.lptTapHoldTimeout - 1 ∧
    (tickPre s).cfg = s.cfg ∧ (tickPre s).defaultLayer = s.defaultLayer ∧ (tickPre s).states = s.states := by
  rw [tickPre_H h]
  refine ⟨⟨h.extra, h.tde, h.aq, h.seqs, h.states, h.osh, h.delay, h.pause, ?_, h.cfg, h.bound,
    by simpa [age] using h.qlen, QWF_age _ h.qwf, ?_, ?_⟩, rfl, rfl, rfl, rfl, rfl, rfl, rfl⟩
  · intro w hw
    obtain ⟨w1, w2, w3⟩ := h.wok w hw
    refine ⟨w1, w2, ?_⟩
    rcases w3 with g | g
    · exact Or.inl g
    · exact Or.inr (mem_age_release g)
  · intro st hst c hc
    rcases h.owned st hst c hc with g | g
    · exact Or.inl g
    · exact Or.inr (mem_age_release g)
  · show s.lptTapHoldTimeout - 1 ≤ I
    have := h.lpt; omega

/-! ### the tick on which the tap-hold key is decided -/

/-- the state the chosen action is performed on: the waiting state taken out, the input pause set to `pz` -/
structure Base (s base : Layout) (pz : Nat) : Prop where
  waiting : base.waiting = none
  frame : FrameH s { base with oneshot := s.oneshot }
  states : base.states = s.states
  osh : base.oneshot = { s.oneshot with pauseInputProcessingTicks := pz }
  lpt : base.lptTapHoldTimeout ≤ s.lptTapHoldTimeout

theorem after_decision {T I d : Nat} {s : Layout} {down : List Coord} (h : HInv T I d s down) (w : Waiting)
    (hw : s.waiting = some w) (base : Layout) (pz : Nat) (hb : Base s base pz) (hpz : pz ≤ d) (a : Action)
    (ha : Simple a) :
    HInv T I d (simpleArm (prelude base w.coord) a w.coord false) down ∧
    (simpleArm (prelude base w.coord) a w.coord false).cfg = s.cfg ∧
    (simpleArm (prelude base w.coord) a w.coord false).defaultLayer = s.defaultLayer ∧
    (simpleArm (prelude base w.coord) a w.coord false).waiting = none ∧
    (simpleArm (prelude base w.coord) a w.coord false).queue = s.queue ∧
    (simpleArm (prelude base w.coord) a w.coord false).oneshot.pauseInputProcessingTicks = pz ∧
    (simpleArm (prelude base w.coord) a w.coord false).lptTapHoldTimeout ≤ s.lptTapHoldTimeout := by
  have hkb : base.oneshot.keys = [] := by rw [hb.osh]; exact h.osh
  obtain ⟨f1, f2, f3, f4⟩ := simple_step base a ha w.coord hkb
  obtain ⟨_, _, w3⟩ := h.wok w hw
  generalize simpleArm (prelude base w.coord) a w.coord false = s2 at f1 f2 f3 f4
  have fb := hb.frame
  have hq : s2.queue = s.queue := f1.queue.trans fb.queue
  have ho : s2.oneshot = { s.oneshot with pauseInputProcessingTicks := pz } := f1.osh.trans hb.osh
  have hwn : s2.waiting = none := f3.trans hb.waiting
  refine ⟨⟨f1.extra.trans (fb.extra.trans h.extra), f1.tde.trans (fb.tde.trans h.tde), f1.aq.trans (fb.aq.trans h.aq),
    f1.seqs.trans (fb.seqs.trans h.seqs), ?_, by rw [ho]; exact h.osh, by rw [ho]; exact h.delay,
    by rw [ho]; exact hpz, (fun w' hw' => by rw [hwn] at hw'; cases hw'), ?_, ?_, hq ▸ h.qlen, hq ▸ h.qwf, ?_,
    Nat.le_trans (Nat.le_trans f4 hb.lpt) h.lpt⟩, f1.cfg.trans fb.cfg, f1.dl.trans fb.dl, hwn, hq, by rw [ho],
    Nat.le_trans f4 hb.lpt⟩
  · intro st hst
    rcases f2.new st hst with g | g
    · exact h.states st (hb.states ▸ g)
    · exact g.2
  · rw [f1.cfg.trans fb.cfg]; exact h.cfg
  · rw [f1.cfg.trans fb.cfg]; exact h.bound
  · intro st hst c hc
    rw [hq]
    rcases f2.new st hst with g | g
    · exact h.owned st (hb.states ▸ g) c hc
    · have : c = w.coord := by
        have := g.1; rw [hc] at this; injection this
      subst this
      exact w3

theorem holdPrep_base (s : Layout) (w1 : Waiting) :
    Base s (holdPrep s.clearWaiting w1) s.oneshot.pauseInputProcessingDelay := by
  unfold holdPrep Layout.clearWaiting
  split
  · exact ⟨rfl, ⟨rfl, rfl, rfl, rfl, rfl, rfl, rfl, rfl⟩, rfl, rfl, Nat.zero_le _⟩
  · exact ⟨rfl, ⟨rfl, rfl, rfl, rfl, rfl, rfl, rfl, rfl⟩, rfl, rfl, Nat.le_refl _⟩

theorem timeoutPrep_base (s : Layout) (w1 : Waiting) :
    Base s (timeoutPrep s.clearWaiting w1) s.oneshot.pauseInputProcessingTicks := by
  unfold timeoutPrep Layout.clearWaiting
  split
  · exact ⟨rfl, ⟨rfl, rfl, rfl, rfl, rfl, rfl, rfl, rfl⟩, rfl, rfl, Nat.zero_le _⟩
  · exact ⟨rfl, ⟨rfl, rfl, rfl, rfl, rfl, rfl, rfl, rfl⟩, rfl, rfl, Nat.le_refl _⟩

theorem clearWaiting_base (s : Layout) : Base s s.clearWaiting s.oneshot.pauseInputProcessingTicks :=
  ⟨rfl, ⟨rfl, rfl, rfl, rfl, rfl, rfl, rfl, rfl⟩, rfl, rfl, Nat.le_refl _⟩

/-! ### the third stage of a tick, equations -/

theorem tickMain_waiting_eq (s : Layout) (w : Waiting) (cfgc : HTConfig) (hw : s.waiting = some w)
    (hc : w.config = .holdTap cfgc) :
    tickMain s =
      applyWaitingAction
        { s with waiting := some (handleHoldTap { w with timeout := w.timeout - 1, ticks := min (w.ticks + 1) U16_MAX } cfgc s.queue).1 }
        ((handleHoldTap { w with timeout := w.timeout - 1, ticks := min (w.ticks + 1) U16_MAX } cfgc s.queue).2.map (·, none))
        none .noEvent := by
  unfold tickMain
  simp only [hw, C05.tickWt_holdTap w cfgc hc]

theorem apply_hold (s : Layout) (w1 : Waiting) (hh : Simple w1.hold) :
    applyWaitingAction { s with waiting := some w1 } (some (.hold, none)) none .noEvent =
      .ok (simpleArm (prelude (holdPrep s.clearWaiting w1) w1.coord) w1.hold w1.coord false, .noEvent) := by
  simp only [applyWaitingAction]
  rw [FUEL_succ]
  simp only [waitingIntoHold, takeWaiting, Option.map_some]
  rw [show (3999 : Nat) = 3997 + 2 from rfl, doAction_simple 3997 _ w1.hold hh]
  rfl

theorem apply_tap (s : Layout) (w1 : Waiting) (hh : Simple w1.tap) :
    applyWaitingAction { s with waiting := some w1 } (some (.tap, none)) none .noEvent =
      .ok (tapPost (simpleArm (prelude s.clearWaiting w1.coord) w1.tap w1.coord false), .noEvent) := by
  simp only [applyWaitingAction, waitingIntoTap, takeWaiting, Option.map_some]
  rw [show FUEL = 3998 + 2 from rfl, doAction_simple 3998 _ w1.tap hh]
  rfl

theorem apply_timeout (s : Layout) (w1 : Waiting) (hh : Simple w1.timeoutAction) :
    applyWaitingAction { s with waiting := some w1 } (some (.timeout, none)) none .noEvent =
      .ok (simpleArm (prelude (timeoutPrep s.clearWaiting w1) w1.coord) w1.timeoutAction w1.coord false, .noEvent) := by
  simp only [applyWaitingAction, waitingIntoTimeout, takeWaiting, Option.map_some]
  rw [show FUEL = 3998 + 2 from rfl, doAction_simple 3998 _ w1.timeoutAction hh]
  rfl

theorem tapPost_hinv {T I d : Nat} {s : Layout} {down : List Coord} (h : HInv T I d s down) (hw : s.waiting = none) :
    HInv T I d (tapPost s) down :=
  ⟨h.extra, h.tde, h.aq, h.seqs, h.states, h.osh, h.delay,
   (by show s.oneshot.pauseInputProcessingDelay ≤ d; rw [h.delay]; exact Nat.le_refl _),
   (fun w hw' => by rw [show (tapPost s).waiting = s.waiting from rfl, hw] at hw'; cases hw'),
   h.cfg, h.bound, h.qlen, h.qwf, h.owned, h.lpt⟩

theorem wLoad_none (d : Nat) : wLoad d none = 0 := rfl
theorem wLoad_some (d : Nat) (w : Waiting) : wLoad d (some w) = w.timeout + d + 1 := rfl

/-- a press taken from the queue, nothing waiting -/
theorem dequeue_press_H {T I : Nat} {s : Layout} (hc : CfgH s.cfg) (hb : HBound s.cfg T I)
    (htde : s.tapDanceEager = none) (hw : s.waiting = none) (hk : s.oneshot.keys = [])
    (c : Coord) (since : Nat) (s' : Layout) (cu : CustomEv)
    (hd : dequeue FUEL s ⟨.press c, since⟩ = .ok (s', cu)) :
    cu = .noEvent ∧ FrameH s s' ∧ Adds c s s' ∧
    ((s'.waiting = none ∧ s'.lptTapHoldTimeout ≤ s.lptTapHoldTimeout) ∨
     (∃ w, s'.waiting = some w ∧ w.coord = c ∧ WOK T w ∧ s'.lptTapHoldTimeout ≤ I)) := by
  rw [FUEL_5] at hd
  simp only [dequeue, htde, bind, Except.bind] at hd
  split at hd
  · cases hd
  · rename_i order ho
    simp only [doAction] at hd
    split at hd
    · cases hd
    · rename_i a ls hm
      have hfa := resolve_pred (fun a => FragH a ∧ htT a ≤ T ∧ htI a ≤ I)
        ⟨trivial, Nat.zero_le _, Nat.zero_le _⟩ ⟨trivial, Nat.zero_le _, Nat.zero_le _⟩ s c
        (fun tbl ht e he => ⟨hc.1 tbl ht e he, hb.1 tbl ht e he⟩) (fun e he => ⟨hc.2 e he, hb.2 e he⟩) _ _ _ hm
      obtain ⟨p1, p2, p3, p4⟩ := prelude_spec s c
      obtain ⟨r1, r2, r3, r4⟩ := dispatch_H 3995 T I (prelude s c) a hfa.1 hfa.2 c since ls s' cu
        (p1.waiting.trans hw) (by rw [p2]; exact hk) hd
      refine ⟨r1, (FrameH.of_frame p1 p3 p2).trans r2, (prelude_adds s c).trans r3, ?_⟩
      rcases r4 with ⟨g1, g2⟩ | g
      · exact Or.inl ⟨g1, Nat.le_trans g2 (prelude_lpt s c)⟩
      · exact Or.inr g

theorem HInv.main {T I d : Nat} {s : Layout} {down : List Coord} (h : HInv T I d s down) (s2 : Layout)
    (c2 : CustomEv) (hm : tickMain s = .ok (s2, c2)) :
    HInv T I d s2 down ∧ c2 = .noEvent ∧ s2.cfg = s.cfg ∧ s2.defaultLayer = s.defaultLayer ∧
    s2.queue.length ≤ s.queue.length ∧ (∀ x ∈ s2.queue, x ∈ s.queue) ∧
    (down = [] → hPot T I d s2 + 1 ≤ hPot T I d s ∨
      (s.queue = [] ∧ s.waiting = none ∧ s.oneshot.pauseInputProcessingTicks = 0 ∧ s2 = s)) ∧
    (∀ w, s.waiting = some w → s2.waiting = none ∨
      ∃ w1, s2.waiting = some w1 ∧ w1.timeout = w.timeout - 1 ∧ (down = [] → 0 < w.timeout - 1)) := by
  cases hw : s.waiting with
  | some w =>
    obtain ⟨wk, wp, wr⟩ := h.wok w hw
    obtain ⟨cfgc, hc⟩ := wk.cfg
    rw [tickMain_waiting_eq s w cfgc hw hc] at hm
    have hf := C05.handleHoldTap_fields { w with timeout := w.timeout - 1, ticks := min (w.ticks + 1) U16_MAX } cfgc s.queue
    have hnn := C05.handleHoldTap_ne_noOp { w with timeout := w.timeout - 1, ticks := min (w.ticks + 1) U16_MAX } cfgc s.queue
    have hrel := handleHoldTap_release { w with timeout := w.timeout - 1, ticks := min (w.ticks + 1) U16_MAX } cfgc s.queue
    generalize handleHoldTap { w with timeout := w.timeout - 1, ticks := min (w.ticks + 1) U16_MAX } cfgc s.queue = res at hm hf hnn hrel
    obtain ⟨w1, r⟩ := res
    obtain ⟨f1, f2, f3, f4, f5, f6, f7, f8, f9⟩ := hf
    simp only at f1 f2 f3 f4 f5 f6 f7 f8 f9 hm hnn hrel
    have hP0 : hPot T I d s = queueLoad (T + d + I) s.queue + (w.timeout + d + 1) + 0 + s.lptTapHoldTimeout := by
      unfold hPot; rw [hw, wLoad_some, wp]
    cases r with
    | none =>
      simp only [Option.map_none, applyWaitingAction] at hm
      injection hm with hm; injection hm with h1 h2; subst h1
      refine ⟨⟨h.extra, h.tde, h.aq, h.seqs, h.states, h.osh, h.delay, h.pause, ?_, h.cfg, h.bound, h.qlen, h.qwf,
        h.owned, h.lpt⟩, h2.symm, rfl, rfl, Nat.le_refl _, fun _ hx => hx, ?_, ?_⟩
      · intro w' hw'
        have : w' = w1 := by injection hw' with hw'; exact hw'.symm
        subst this
        exact ⟨⟨⟨cfgc, f2.trans hc⟩, f5 ▸ wk.hold, f6 ▸ wk.tap, f7 ▸ wk.to, by rw [f1]; have := wk.timeout; omega⟩,
          wp, by rw [f3]; exact wr⟩
      · intro hd
        subst hd
        left
        have hr : ∃ x ∈ s.queue, x.ev = .release w.coord := by
          rcases wr with g | g
          · cases g
          · exact g
        have hpos : 0 < w.timeout - 1 := hrel hr rfl
        rw [hP0]
        show queueLoad (T + d + I) s.queue + wLoad d (some w1) + s.oneshot.pauseInputProcessingTicks + s.lptTapHoldTimeout + 1 ≤ _
        rw [wLoad_some, f1, wp]
        omega
      · intro w' hw'
        injection hw' with hw'; subst hw'
        refine Or.inr ⟨w1, rfl, f1, fun hd => ?_⟩
        subst hd
        have hr : ∃ x ∈ s.queue, x.ev = .release w.coord := by
          rcases wr with g | g
          · cases g
          · exact g
        exact hrel hr rfl
    | some a =>
      simp only [Option.map_some] at hm
      -- the three decisions share the conclusion
      have fin : ∀ (base : Layout) (pz : Nat) (act : Action), Base s base pz → pz ≤ d → Simple act →
          ∀ (post : Layout → Layout), (∀ t, HInv T I d t down → t.waiting = none → HInv T I d (post t) down) →
          (∀ t, HInv T I d t down → (post t).cfg = t.cfg ∧ (post t).defaultLayer = t.defaultLayer ∧ (post t).queue = t.queue ∧
            (post t).waiting = t.waiting ∧ (post t).lptTapHoldTimeout = t.lptTapHoldTimeout ∧
            (post t).oneshot.pauseInputProcessingTicks ≤ max t.oneshot.pauseInputProcessingTicks d) →
          s2 = post (simpleArm (prelude base w.coord) act w.coord false) →
          HInv T I d s2 down ∧ s2.cfg = s.cfg ∧ s2.defaultLayer = s.defaultLayer ∧
          s2.queue.length ≤ s.queue.length ∧ (∀ x ∈ s2.queue, x ∈ s.queue) ∧
          (down = [] → hPot T I d s2 + 1 ≤ hPot T I d s) ∧ s2.waiting = none := by
        intro base pz act hb hpz hact post hpost hpf hs2
        obtain ⟨a1, a2, a3, a4, a5, a6, a7⟩ := after_decision h w hw base pz hb hpz act hact
        obtain ⟨q1, q2, q3, q4, q5, q6⟩ := hpf (simpleArm (prelude base w.coord) act w.coord false) a1
        subst hs2
        refine ⟨hpost _ a1 a4, q1.trans a2, q2.trans a3, by rw [q3, a5]; exact Nat.le_refl _,
          fun x hx => by rw [q3, a5] at hx; exact hx, fun _ => ?_, q4.trans a4⟩
        rw [hP0]
        unfold hPot
        rw [q3, a5, q4, a4, wLoad_none, q5]
        rw [a6] at q6
        omega
      have hid : ∀ t : Layout, (id t).cfg = t.cfg ∧ (id t).defaultLayer = t.defaultLayer ∧ (id t).queue = t.queue ∧
          (id t).waiting = t.waiting ∧ (id t).lptTapHoldTimeout = t.lptTapHoldTimeout := fun t => ⟨rfl, rfl, rfl, rfl, rfl⟩
      cases a with
      | hold =>
        rw [apply_hold s w1 (f5 ▸ wk.hold)] at hm
        injection hm with hm; injection hm with h1 h2
        have := fin (holdPrep s.clearWaiting w1) d w.hold (h.delay ▸ holdPrep_base s w1) (Nat.le_refl _) wk.hold id
          (fun t ht _ => ht) (fun t _ => ⟨rfl, rfl, rfl, rfl, rfl, ?_⟩) (by rw [← h1, f3, f5]; rfl)
        · exact ⟨this.1, h2.symm, this.2.1, this.2.2.1, this.2.2.2.1, this.2.2.2.2.1, fun hd => Or.inl (this.2.2.2.2.2.1 hd),
            fun _ _ => Or.inl this.2.2.2.2.2.2⟩
        · exact Nat.le_max_left _ _
      | tap =>
        rw [apply_tap s w1 (f6 ▸ wk.tap)] at hm
        injection hm with hm; injection hm with h1 h2
        have := fin s.clearWaiting s.oneshot.pauseInputProcessingTicks w.tap (clearWaiting_base s) h.pause wk.tap tapPost
          (fun t ht hw' => tapPost_hinv ht hw') (fun t ht => ⟨rfl, rfl, rfl, rfl, rfl, ?_⟩) (by rw [← h1, f3, f6])
        · exact ⟨this.1, h2.symm, this.2.1, this.2.2.1, this.2.2.2.1, this.2.2.2.2.1, fun hd => Or.inl (this.2.2.2.2.2.1 hd),
            fun _ _ => Or.inl this.2.2.2.2.2.2⟩
        · show t.oneshot.pauseInputProcessingDelay ≤ _
          rw [ht.delay]; exact Nat.le_max_right _ _
      | timeout =>
        rw [apply_timeout s w1 (f7 ▸ wk.to)] at hm
        injection hm with hm; injection hm with h1 h2
        have := fin (timeoutPrep s.clearWaiting w1) s.oneshot.pauseInputProcessingTicks w.timeoutAction
          (timeoutPrep_base s w1) h.pause wk.to id (fun t ht _ => ht) (fun t _ => ⟨rfl, rfl, rfl, rfl, rfl, ?_⟩)
          (by rw [← h1, f3, f7]; rfl)
        · exact ⟨this.1, h2.symm, this.2.1, this.2.2.1, this.2.2.2.1, this.2.2.2.2.1, fun hd => Or.inl (this.2.2.2.2.2.1 hd),
            fun _ _ => Or.inl this.2.2.2.2.2.2⟩
        · exact Nat.le_max_left _ _
      | noOp => exact absurd rfl hnn
  | none =>
    have hP0 : hPot T I d s = queueLoad (T + d + I) s.queue + 0 + s.oneshot.pauseInputProcessingTicks + s.lptTapHoldTimeout := by
      unfold hPot; rw [hw, wLoad_none]
    by_cases hp : 0 < s.oneshot.pauseInputProcessingTicks
    · rw [tickMain_paused hw h.extra hp] at hm
      injection hm with hm; injection hm with h1 h2; subst h1
      refine ⟨⟨h.extra, h.tde, h.aq, h.seqs, h.states, h.osh, h.delay, ?_, ?_, h.cfg, h.bound, h.qlen, h.qwf, h.owned,
        h.lpt⟩, h2.symm, rfl, rfl, Nat.le_refl _, fun _ hx => hx, fun _ => Or.inl ?_, fun _ hw' => by cases hw'⟩
      · show s.oneshot.pauseInputProcessingTicks - 1 ≤ d
        have := h.pause; omega
      · intro w' hw'
        have : s.waiting = some w' := hw'
        rw [hw] at this; cases this
      · rw [hP0]
        show queueLoad (T + d + I) s.queue + wLoad d s.waiting + (s.oneshot.pauseInputProcessingTicks - 1) +
          s.lptTapHoldTimeout + 1 ≤ _
        rw [hw, wLoad_none]; omega
    · have hp0 : s.oneshot.pauseInputProcessingTicks = 0 := by omega
      cases hq : s.queue with
      | nil =>
        rw [tickMain_empty hw h.extra hp0 hq] at hm
        injection hm with hm; injection hm with h1 h2; subst h1
        exact ⟨h, h2.symm, rfl, rfl, by rw [hq]; exact Nat.le_refl _, fun _ hx => hq ▸ hx, fun _ => Or.inr ⟨rfl, rfl, hp0, rfl⟩, fun _ hw' => by cases hw'⟩
      | cons q rest =>
        rw [tickMain_pops hw h.extra hp0 q rest hq] at hm
        have hwf := h.qwf
        rw [hq] at hwf
        have hlen : rest.length ≤ QUEUE_SIZE := by
          have := h.qlen; rw [hq] at this; simp only [List.length_cons] at this; omega
        obtain ⟨ev, n⟩ := q
        cases ev with
        | release c =>
          rw [dequeue_release_calm (s := s.setQueue rest) h.states c n,
            handleRelease_inactive (s.setQueue rest).oneshot c h.osh] at hm
          simp only [afterRelease, if_true] at hm
          injection hm with hm; injection hm with h1 h2; subst h1
          refine ⟨⟨h.extra, h.tde, h.aq, h.seqs, C04.stok_filter _ h.states, h.osh, h.delay, h.pause, ?_, h.cfg, h.bound,
            hlen, hwf.2, ?_, h.lpt⟩, h2.symm, rfl, rfl, by simp [Layout.setQueue],
            fun x hx => List.mem_cons_of_mem _ hx, fun _ => Or.inl ?_, fun _ hw' => by cases hw'⟩
          · intro w' hw'
            have : s.waiting = some w' := hw'
            rw [hw] at this; cases this
          · intro st hst c' hc'
            obtain ⟨m1, m2⟩ := List.mem_filter.mp hst
            have hne : c' ≠ c := by
              intro hcc; subst hcc; simp [hc'] at m2
            rcases h.owned st m1 c' hc' with g | ⟨x, hx, hxe⟩
            · exact Or.inl g
            · rw [hq] at hx
              rcases List.mem_cons.mp hx with hx | hx
              · subst hx; injection hxe with hxe; exact absurd hxe.symm hne
              · exact Or.inr ⟨x, hx, hxe⟩
          · rw [hP0, hq, queueLoad_cons]
            show queueLoad (T + d + I) rest + wLoad d s.waiting + s.oneshot.pauseInputProcessingTicks +
              s.lptTapHoldTimeout + 1 ≤ _
            rw [hw, wLoad_none]
            have : evW (T + d + I) ⟨.release c, n⟩ = 1 := rfl
            omega
        | press c =>
          obtain ⟨r1, fr, ad, wd⟩ := dequeue_press_H (T := T) (I := I) (s := s.setQueue rest) h.cfg h.bound h.tde hw h.osh
            c n s2 c2 hm
          have hhead : c ∈ down ∨ ∃ x ∈ rest, x.ev = .release c := hwf.1
          have hq2 : s2.queue = rest := fr.queue
          have ho2 : s2.oneshot = s.oneshot := fr.osh
          refine ⟨⟨fr.extra.trans h.extra, fr.tde.trans h.tde, fr.aq.trans h.aq, fr.seqs.trans h.seqs, ?_,
            by rw [ho2]; exact h.osh, by rw [ho2]; exact h.delay, by rw [ho2]; exact h.pause, ?_, fr.cfg ▸ h.cfg,
            fr.cfg ▸ h.bound, hq2 ▸ hlen, hq2 ▸ hwf.2, ?_, ?_⟩, r1, fr.cfg, fr.dl, by rw [hq2]; simp,
            fun x hx => by rw [hq2] at hx; exact List.mem_cons_of_mem _ hx, fun _ => Or.inl ?_,
            fun _ hw' => by cases hw'⟩
          · intro st hst
            rcases ad.new st hst with g | g
            · exact h.states st g
            · exact g.2
          · intro w' hw'
            rcases wd with ⟨g, _⟩ | ⟨w'', g1, g2, g3, _⟩
            · rw [g] at hw'; cases hw'
            · rw [g1] at hw'
              injection hw' with hw'; subst hw'
              exact ⟨g3, by rw [ho2]; exact hp0, by rw [g2, hq2]; exact hhead⟩
          · intro st hst c' hc'
            rw [hq2]
            rcases ad.new st hst with g | g
            · rcases h.owned st g c' hc' with g1 | ⟨x, hx, hxe⟩
              · exact Or.inl g1
              · rw [hq] at hx
                rcases List.mem_cons.mp hx with hx | hx
                · subst hx; cases hxe
                · exact Or.inr ⟨x, hx, hxe⟩
            · have : c' = c := by
                have := g.1; rw [hc'] at this; injection this
              subst this
              exact hhead
          · rcases wd with ⟨_, g⟩ | ⟨_, _, _, _, g⟩
            · exact Nat.le_trans g h.lpt
            · exact g
          · rw [hP0, hq, queueLoad_cons]
            unfold hPot
            rw [hq2, ho2, hp0]
            have hw1 : evW (T + d + I) ⟨.press c, n⟩ = T + d + I + 2 := rfl
            rcases wd with ⟨g1, g2⟩ | ⟨w'', g1, _, g3, g4⟩
            · rw [g1, wLoad_none]
              have : (s.setQueue rest).lptTapHoldTimeout = s.lptTapHoldTimeout := rfl
              omega
            · rw [g1, wLoad_some]
              have := g3.timeout
              omega

/-! ## a whole tick, an event, runs -/

theorem HInv.tick {T I d : Nat} {s : Layout} {down : List Coord} (h : HInv T I d s down) (s' : Layout)
    (cu : CustomEv) (ht : tick s = .ok (s', cu)) :
    HInv T I d s' down ∧ cu = .noEvent ∧ s'.cfg = s.cfg ∧ s'.defaultLayer = s.defaultLayer ∧
    s'.queue.length ≤ s.queue.length ∧ (down = [] → hPot T I d s' ≤ hPot T I d s - 1) ∧
    (∀ w, s.waiting = some w → s'.waiting = none ∨
      ∃ w1, s'.waiting = some w1 ∧ w1.timeout = w.timeout - 1 ∧ (down = [] → 0 < w.timeout - 1)) := by
  obtain ⟨i0, q0, w0, o0, l0, c0, d0, _⟩ := h.pre
  have e1 : tickOneshot (tickPre s) = .ok (tickPre s, .noEvent) := tickOneshot_inactive i0.osh
  cases hm : tickMain (tickPre s) with
  | error c =>
    unfold KVerif.L.tick at ht
    simp only [h.aq, e1, hm] at ht
    cases ht
  | ok r =>
    obtain ⟨s2, c2⟩ := r
    obtain ⟨i2, hc2, cf2, dl2, ql2, _, pot2, wdec⟩ := i0.main s2 c2 hm
    subst hc2
    unfold KVerif.L.tick at ht
    simp only [h.aq, e1, hm, C04.processExtraWaitings_inert i2.extra, C04.processSequenceCustom_inert i2.states] at ht
    injection ht with ht; injection ht with h1 h2; subst h1
    have hpre : hPot T I d (tickPre s) = queueLoad (T + d + I) s.queue + wLoad d s.waiting +
        s.oneshot.pauseInputProcessingTicks + (s.lptTapHoldTimeout - 1) := by
      unfold hPot; rw [q0, w0, o0, l0, queueLoad_age]
    refine ⟨i2, h2.symm, cf2.trans c0, dl2.trans d0, by rw [q0] at ql2; simpa [age] using ql2, fun hd => ?_,
      fun w hw' => wdec w (w0.trans hw')⟩
    rcases pot2 hd with g | ⟨g1, g2, g3, g4⟩
    · rw [hpre] at g
      unfold hPot at g ⊢
      omega
    · subst g4
      rw [hpre]
      have hq : s.queue = [] := by
        rw [q0] at g1
        cases hs : s.queue with
        | nil => rfl
        | cons x r => rw [hs] at g1; simp [age] at g1
      rw [w0] at g2
      rw [o0] at g3
      unfold hPot
      rw [hq, g2, g3]
      simp [queueLoad, wLoad]

theorem HInv.input {T I d : Nat} {s : Layout} {down : List Coord} (h : HInv T I d s down) (e : Ev)
    (hq : s.queue.length < QUEUE_SIZE) :
    ∃ s', s.event e = .ok s' ∧ HInv T I d s' (downAfter down (.ev e)) ∧ s'.queue = s.queue ++ [⟨e, 0⟩] ∧
      s'.cfg = s.cfg ∧ s'.defaultLayer = s.defaultLayer ∧ s'.states = s.states ∧ s'.waiting = s.waiting := by
  unfold Layout.event
  rw [FUEL_succ]
  obtain ⟨s', e1, e2, e3, e4, e5⟩ := event_room 3999 s e hq
  have e6 := event_room_lpt 3999 s e hq s' e1
  refine ⟨s', e1, ?_, e2, e5.cfg, e5.dl, e3, e5.waiting⟩
  have hrel : ∀ c, (c ∈ down ∨ ∃ x ∈ s.queue, x.ev = .release c) →
      (c ∈ downAfter down (.ev e) ∨ ∃ x ∈ s.queue ++ [⟨e, 0⟩], x.ev = .release c) := by
    intro c hc
    rcases hc with h1 | ⟨x, hx, hxe⟩
    · cases e with
      | press c' => exact Or.inl (List.mem_cons_of_mem _ h1)
      | release c' =>
        by_cases hcc : c = c'
        · subst hcc; exact Or.inr ⟨⟨.release c, 0⟩, by simp, rfl⟩
        · exact Or.inl (List.mem_filter.mpr ⟨h1, by simpa using hcc⟩)
    · exact Or.inr ⟨x, List.mem_append_left _ hx, hxe⟩
  refine ⟨e5.extra.trans h.extra, e5.tde.trans h.tde, e5.aq.trans h.aq, e5.seqs.trans h.seqs, e3 ▸ h.states,
    e4 ▸ h.osh, e4 ▸ h.delay, e4 ▸ h.pause, ?_, e5.cfg ▸ h.cfg, e5.cfg ▸ h.bound,
    by rw [e2]; simp only [List.length_append, List.length_cons, List.length_nil]; omega, ?_, ?_, e6 ▸ h.lpt⟩
  · intro w hw
    rw [e5.waiting] at hw
    obtain ⟨w1, w2, w3⟩ := h.wok w hw
    exact ⟨w1, by rw [e4]; exact w2, by rw [e2]; exact hrel _ w3⟩
  · rw [e2]
    cases e with
    | press c =>
      exact QWF_append _ _ (QWF_mono (fun x hx => List.mem_cons_of_mem _ hx) _ h.qwf) (by simp [downAfter])
    | release c => exact QWF_release c 0 _ h.qwf
  · intro st hst c hc
    rw [e3] at hst
    rw [e2]
    exact hrel c (h.owned st hst c hc)

theorem run_hinv {T I d : Nat} : ∀ (ins : List In) (s : Layout) (down : List Coord), HInv T I d s down →
    ∀ s' down', run s down ins = some (.ok (s', down')) → HInv T I d s' down' := by
  intro ins
  induction ins with
  | nil =>
    intro s down h s' down' hr
    simp only [run] at hr
    injection hr with hr; injection hr with hr; injection hr with h1 h2
    subst h1; subst h2; exact h
  | cons i rest ih =>
    intro s down h s' down' hr
    simp only [run] at hr
    split at hr
    · cases hr
    · rename_i hov
      cases i with
      | ev e =>
        have hq : s.queue.length < QUEUE_SIZE := by
          simp only [overflows, decide_eq_true_eq] at hov; omega
        obtain ⟨s1, e1, i1, _⟩ := h.input e hq
        simp only [stepIn, e1] at hr
        exact ih s1 _ i1 s' down' hr
      | tick =>
        simp only [stepIn] at hr
        cases ht : tick s with
        | error c => simp only [ht] at hr; cases hr
        | ok r =>
          obtain ⟨s1, cu⟩ := r
          simp only [ht] at hr
          exact ih s1 _ (h.tick s1 cu ht).1 s' down' hr

theorem quiet_ticks_H {T I d : Nat} : ∀ (N : Nat) (s : Layout), HInv T I d s [] →
    ∀ s' down', run s [] (List.replicate N .tick) = some (.ok (s', down')) →
    down' = [] ∧ HInv T I d s' [] ∧ hPot T I d s' ≤ hPot T I d s - N := by
  intro N
  induction N with
  | zero =>
    intro s h s' down' hr
    simp only [List.replicate, run] at hr
    injection hr with hr; injection hr with hr; injection hr with h1 h2
    subst h1; subst h2; exact ⟨rfl, h, Nat.le_refl _⟩
  | succ N ih =>
    intro s h s' down' hr
    simp only [List.replicate, run, overflows, Bool.false_eq_true, if_false, stepIn] at hr
    cases ht : tick s with
    | error c => simp only [ht] at hr; cases hr
    | ok r =>
      obtain ⟨s1, cu⟩ := r
      simp only [ht, downAfter] at hr
      obtain ⟨i1, _, _, _, _, p1, _⟩ := h.tick s1 cu ht
      obtain ⟨r1, r2, r3⟩ := ih s1 i1 s' down' hr
      exact ⟨r1, r2, by have := p1 rfl; omega⟩

theorem hPot_le {T I d : Nat} {s : Layout} {down : List Coord} (h : HInv T I d s down) :
    hPot T I d s ≤ (T + d + I + 2) * s.queue.length + T + 2 * d + I + 1 := by
  unfold hPot
  have h1 := queueLoad_le (T + d + I) s.queue
  have h2 : wLoad d s.waiting ≤ T + d + 1 := by
    cases hw : s.waiting with
    | none => simp [wLoad]
    | some w => rw [wLoad_some]; have := (h.wok w hw).1.timeout; omega
  have h3 := h.pause
  have h4 := h.lpt
  omega

theorem hPot_zero {T I d : Nat} {s : Layout} (h : hPot T I d s = 0) :
    s.queue = [] ∧ s.waiting = none ∧ s.oneshot.pauseInputProcessingTicks = 0 ∧ s.lptTapHoldTimeout = 0 := by
  unfold hPot at h
  refine ⟨queueLoad_zero (T + d + I) _ (by omega), ?_, by omega, by omega⟩
  cases hw : s.waiting with
  | none => rfl
  | some w => rw [hw, wLoad_some] at h; omega

/-- at potential zero with no key down the layout is at rest -/
theorem HInv.atRest {T I d : Nat} {s : Layout} (h : HInv T I d s []) (hz : hPot T I d s = 0) : LayoutAtRest s := by
  obtain ⟨z1, z2, z3, z4⟩ := hPot_zero hz
  refine ⟨?_, z1, z2, h.extra, z4, h.osh, z3, h.seqs, h.tde, h.aq⟩
  apply List.eq_nil_iff_forall_not_mem.mpr
  intro st hst
  have hok := h.states st hst
  have hco : ∃ c, st.coord = some c := by
    cases st <;> simp only [C04.StOK] at hok <;> first | exact ⟨_, rfl⟩ | exact absurd hok id
  obtain ⟨c, hc⟩ := hco
  rcases h.owned st hst c hc with g | ⟨x, hx, _⟩
  · cases g
  · rw [z1] at hx; cases hx

/-! ## the fragment never crashes -/

def SimpleSafe (L : Nat) (a : Action) : Prop := ∀ v, a = .layer v → v < L

def ActSafeH (L : Nat) : Action → Prop
  | .layer v => v < L
  | .holdTap _ hold tap to _ _ => SimpleSafe L hold ∧ SimpleSafe L tap ∧ SimpleSafe L to
  | _ => True

structure CfgSafeH (c : LCfg) : Prop where
  pinned : c.pinnedLayerStack = false
  layers : 0 < c.layers.length
  refsL : ∀ tbl ∈ c.layers, ∀ e ∈ tbl, ActSafeH c.layers.length e.2
  refsS : ∀ e ∈ c.srcKeys, ActSafeH c.layers.length e.2 ∧ e.2 ≠ .trans

structure SafeH (s : Layout) : Prop where
  cfg : CfgSafeH s.cfg
  dl : s.defaultLayer < s.cfg.layers.length
  held : ∀ st ∈ s.states, ∀ v, st.getLayer = some v → v < s.cfg.layers.length
  wsafe : ∀ w, s.waiting = some w → SimpleSafe s.cfg.layers.length w.hold ∧
    SimpleSafe s.cfg.layers.length w.tap ∧ SimpleSafe s.cfg.layers.length w.timeoutAction
  queue : ∀ q ∈ s.queue, ∀ c, q.ev = .press c → CoordOK s.cfg c

theorem resolve_rest_le (s : Layout) (c : Coord) : ∀ (ls : List Nat) (a : Action) (rest : List Nat),
    s.resolveCoord c ls = .ok (a, rest) → rest.length ≤ ls.length := by
  intro ls
  induction ls with
  | nil =>
    intro a rest h
    simp only [Layout.resolveCoord] at h
    split at h; · cases h
    split at h; · cases h
    split at h
    · split at h; · cases h
      injection h with h; injection h with h1 h2; subst h2; exact Nat.le_refl _
    · injection h with h; injection h with h1 h2; subst h2; exact Nat.le_refl _
  | cons l rest' ih =>
    intro a rest h
    simp only [Layout.resolveCoord] at h
    split at h; · cases h
    split at h; · cases h
    split at h
    · cases h
    · exact Nat.le_trans (ih a rest h) (Nat.le_succ _)
    · injection h with h; injection h with h1 h2; subst h2; exact Nat.le_succ _

theorem dispatch_total_H (fuel L : Nat) (s : Layout) (a : Action) (hf : FragH a) (hnt : a ≠ .trans)
    (hs : ActSafeH L a) (c : Coord) (d : Nat) (ls : List Nat) (hls : ls.length ≤ MAX_ACTIVE_LAYERS)
    (hw : s.waiting = none) :
    ∃ s', dispatch (fuel + 3) s a c d false ls = .ok (s', .noEvent) ∧ GrowsL L s.states s'.states ∧
      (∀ w, s'.waiting = some w → SimpleSafe L w.hold ∧ SimpleSafe L w.tap ∧ SimpleSafe L w.timeoutAction) := by
  have simple : ∀ a', Simple a' → SimpleSafe L a' → ∀ t : Layout, t.waiting = none →
      GrowsL L t.states (simpleArm t a' c false).states ∧
      (∀ w, (simpleArm t a' c false).waiting = some w →
        SimpleSafe L w.hold ∧ SimpleSafe L w.tap ∧ SimpleSafe L w.timeoutAction) := by
    intro a' hs' hsafe t ht
    refine ⟨simpleArm_growsL L t a' hsafe c false, fun w hw' => ?_⟩
    rw [(simpleArm_spec t a' hs' c false).frame.waiting, ht] at hw'
    cases hw'
  cases a <;> simp only [FragH] at hf
  case noOp =>
    refine ⟨armNoOp s .noOp c false, by simp only [dispatch], ?_, fun w hw' => ?_⟩
    · rw [(armNoOp_spec s .noOp c).2.2.1]; exact GrowsL.refl L _
    · rw [(armNoOp_spec s .noOp c).1.waiting, hw] at hw'; cases hw'
  case trans => exact absurd rfl hnt
  case keyCode kc =>
    obtain ⟨g1, g2⟩ := simple (.keyCode kc) trivial (fun v hv => by cases hv) s hw
    exact ⟨armKeyCode s (.keyCode kc) kc c false, by simp only [dispatch], g1, g2⟩
  case multipleKeyCodes kcs =>
    obtain ⟨g1, g2⟩ := simple (.multipleKeyCodes kcs) trivial (fun v hv => by cases hv) s hw
    exact ⟨armMultipleKeyCodes s (.multipleKeyCodes kcs) kcs c false, by simp only [dispatch], g1, g2⟩
  case layer v =>
    obtain ⟨g1, g2⟩ := simple (.layer v) trivial (fun v' hv => by injection hv with hv; subst hv; exact hs) s hw
    exact ⟨armLayer s v c false, by simp only [dispatch], g1, g2⟩
  case holdTap T0 hold tap to cfg iv =>
    simp only [ActSafeH] at hs
    rw [dispatch_holdTap fuel s T0 hold tap to cfg iv c d ls hf.2.1]
    split
    · rw [if_neg (by omega)]
      obtain ⟨w, e1, _, _, e4, e5, e6, _, _, _, e10, _⟩ := armHoldTapWait_spec s c d T0 hold tap to cfg iv ls hw
      refine ⟨_, rfl, by rw [e10]; exact GrowsL.refl L _, fun w' hw' => ?_⟩
      rw [e1] at hw'; injection hw' with hw'; subst hw'
      exact ⟨e4 ▸ hs.1, e5 ▸ hs.2.1, e6 ▸ hs.2.2⟩
    · refine ⟨_, rfl, ?_, fun w' hw' => ?_⟩
      · rw [(updateCoord_spec _ c).2.2.2]
        refine GrowsL.trans ?_ (simpleArm_growsL L _ tap hs.2.1 c false)
        rw [(prelude_spec _ c).2.2.2]
        exact GrowsL.filter L _ _
      · rw [(updateCoord_spec _ c).1.waiting, (simpleArm_spec _ tap hf.2.1 c false).frame.waiting,
          (prelude_spec _ c).1.waiting] at hw'
        have : ({ s with lptTapHoldTimeout := 0 } : Layout).waiting = none := hw
        rw [this] at hw'; cases hw'

theorem dequeue_press_total_H {s : Layout} (hc : CfgH s.cfg) (htde : s.tapDanceEager = none) (hS : SafeH s)
    (hw : s.waiting = none) (c : Coord) (hco : CoordOK s.cfg c) (since : Nat) :
    ∃ s', dequeue FUEL s ⟨.press c, since⟩ = .ok (s', .noEvent) ∧
      GrowsL s.cfg.layers.length s.states s'.states ∧
      (∀ w, s'.waiting = some w → SimpleSafe s.cfg.layers.length w.hold ∧
        SimpleSafe s.cfg.layers.length w.tap ∧ SimpleSafe s.cfg.layers.length w.timeoutAction) := by
  obtain ⟨order, ho, hol⟩ := transOrder_total s s.cfg.layers.length hS.cfg.pinned hS.dl hS.cfg.layers hS.held
  obtain ⟨order', ho', hlen⟩ := C02.layer_stack_never_overflows s hS.cfg.pinned
  rw [ho] at ho'; injection ho' with ho'; subst ho'
  obtain ⟨a, ls, hr⟩ := resolve_total s c hco order hol
  have hP := resolve_pred (fun a => FragH a ∧ ActSafeH s.cfg.layers.length a)
    ⟨trivial, trivial⟩ ⟨trivial, trivial⟩ s c
    (fun tbl ht e he => ⟨hc.1 tbl ht e he, hS.cfg.refsL tbl ht e he⟩)
    (fun e he => ⟨hc.2 e he, (hS.cfg.refsS e he).1⟩) _ _ _ hr
  have hnt := resolve_ne_trans s c (fun e he => (hS.cfg.refsS e he).2) _ _ _ hr
  have hls : ls.length ≤ MAX_ACTIVE_LAYERS := Nat.le_trans (resolve_rest_le s c _ _ _ hr) hlen
  obtain ⟨p1, p2, p3, p4⟩ := prelude_spec s c
  obtain ⟨s', e1, g1, g2⟩ := dispatch_total_H 3995 s.cfg.layers.length (prelude s c) a hP.1 hnt hP.2 c since ls hls
    (p1.waiting.trans hw)
  refine ⟨s', ?_, ?_, g2⟩
  · rw [FUEL_5]
    simp only [dequeue, htde, bind, Except.bind, ho, doAction, hr]
    exact e1
  · refine GrowsL.trans ?_ g1
    rw [p4]; exact GrowsL.filter _ _ _

/-- the third stage never crashes; the states grow by states of the pressed key only, a new waiting
state refers to layers in range -/
theorem main_total_H {T I d : Nat} {s : Layout} {down : List Coord} (h : HInv T I d s down) (hS : SafeH s) :
    ∃ s2, tickMain s = .ok (s2, .noEvent) ∧ GrowsL s.cfg.layers.length s.states s2.states ∧
      (∀ w, s2.waiting = some w → SimpleSafe s.cfg.layers.length w.hold ∧
        SimpleSafe s.cfg.layers.length w.tap ∧ SimpleSafe s.cfg.layers.length w.timeoutAction) := by
  cases hw : s.waiting with
  | some w =>
    obtain ⟨wk, _, _⟩ := h.wok w hw
    obtain ⟨ws1, ws2, ws3⟩ := hS.wsafe w hw
    obtain ⟨cfgc, hc⟩ := wk.cfg
    rw [tickMain_waiting_eq s w cfgc hw hc]
    have hf := C05.handleHoldTap_fields { w with timeout := w.timeout - 1, ticks := min (w.ticks + 1) U16_MAX } cfgc s.queue
    have hnn := C05.handleHoldTap_ne_noOp { w with timeout := w.timeout - 1, ticks := min (w.ticks + 1) U16_MAX } cfgc s.queue
    generalize handleHoldTap { w with timeout := w.timeout - 1, ticks := min (w.ticks + 1) U16_MAX } cfgc s.queue = res at hf hnn
    obtain ⟨w1, r⟩ := res
    obtain ⟨f1, f2, f3, f4, f5, f6, f7, f8, f9⟩ := hf
    simp only at f1 f2 f3 f4 f5 f6 f7 f8 f9 hnn ⊢
    -- what a decision leaves
    have dec : ∀ (base : Layout) (act : Action), base.states = s.states → base.waiting = none → Simple act →
        SimpleSafe s.cfg.layers.length act →
        GrowsL s.cfg.layers.length s.states (simpleArm (prelude base w1.coord) act w1.coord false).states ∧
        (simpleArm (prelude base w1.coord) act w1.coord false).waiting = none := by
      intro base act hb hbw hact hsafe
      refine ⟨?_, ?_⟩
      · refine GrowsL.trans ?_ (simpleArm_growsL _ _ act hsafe w1.coord false)
        rw [(prelude_spec base w1.coord).2.2.2, hb]
        exact GrowsL.filter _ _ _
      · rw [(simpleArm_spec _ act hact w1.coord false).frame.waiting, (prelude_spec base w1.coord).1.waiting, hbw]
    cases r with
    | none =>
      simp only [Option.map_none, applyWaitingAction]
      refine ⟨_, rfl, GrowsL.refl _ _, fun w' hw' => ?_⟩
      injection hw' with hw'; subst hw'
      exact ⟨f5 ▸ ws1, f6 ▸ ws2, f7 ▸ ws3⟩
    | some a =>
      simp only [Option.map_some]
      cases a with
      | hold =>
        rw [apply_hold s w1 (f5 ▸ wk.hold)]
        obtain ⟨g1, g2⟩ := dec (holdPrep s.clearWaiting w1) w1.hold (holdPrep_base s w1).states (holdPrep_base s w1).waiting
          (f5 ▸ wk.hold) (f5 ▸ ws1)
        exact ⟨_, rfl, g1, fun w' hw' => by rw [g2] at hw'; cases hw'⟩
      | tap =>
        rw [apply_tap s w1 (f6 ▸ wk.tap)]
        obtain ⟨g1, g2⟩ := dec s.clearWaiting w1.tap rfl rfl (f6 ▸ wk.tap) (f6 ▸ ws2)
        exact ⟨_, rfl, g1, fun w' hw' => by
          rw [show (tapPost (simpleArm (prelude s.clearWaiting w1.coord) w1.tap w1.coord false)).waiting =
            (simpleArm (prelude s.clearWaiting w1.coord) w1.tap w1.coord false).waiting from rfl, g2] at hw'
          cases hw'⟩
      | timeout =>
        rw [apply_timeout s w1 (f7 ▸ wk.to)]
        obtain ⟨g1, g2⟩ := dec (timeoutPrep s.clearWaiting w1) w1.timeoutAction (timeoutPrep_base s w1).states
          (timeoutPrep_base s w1).waiting (f7 ▸ wk.to) (f7 ▸ ws3)
        exact ⟨_, rfl, g1, fun w' hw' => by rw [g2] at hw'; cases hw'⟩
      | noOp => exact absurd rfl hnn
  | none =>
    have hvac : ∀ (t : Layout), t.waiting = none → ∀ w, t.waiting = some w →
        SimpleSafe s.cfg.layers.length w.hold ∧ SimpleSafe s.cfg.layers.length w.tap ∧
        SimpleSafe s.cfg.layers.length w.timeoutAction := by
      intro t ht w hw'; rw [ht] at hw'; cases hw'
    by_cases hp : 0 < s.oneshot.pauseInputProcessingTicks
    · rw [tickMain_paused hw h.extra hp]
      exact ⟨_, rfl, GrowsL.refl _ _, hvac _ hw⟩
    · have hp0 : s.oneshot.pauseInputProcessingTicks = 0 := by omega
      cases hq : s.queue with
      | nil =>
        rw [tickMain_empty hw h.extra hp0 hq]
        exact ⟨s, rfl, GrowsL.refl _ _, hvac _ hw⟩
      | cons q rest =>
        rw [tickMain_pops hw h.extra hp0 q rest hq]
        obtain ⟨ev, n⟩ := q
        cases ev with
        | release c =>
          rw [dequeue_release_calm (s := s.setQueue rest) h.states c n,
            handleRelease_inactive (s.setQueue rest).oneshot c h.osh]
          simp only [afterRelease, if_true]
          exact ⟨_, rfl, GrowsL.filter _ _ _, hvac _ hw⟩
        | press c =>
          have hco : CoordOK s.cfg c := hS.queue ⟨.press c, n⟩ (by rw [hq]; exact List.mem_cons_self) c rfl
          exact dequeue_press_total_H (s := s.setQueue rest) h.cfg h.tde
            ⟨hS.cfg, hS.dl, hS.held, fun w' hw' => hS.wsafe w' hw',
              fun x hx => hS.queue x (by rw [hq]; exact List.mem_cons_of_mem _ hx)⟩ hw c hco n

/-- **a tick on the tap-hold fragment never crashes** -/
theorem tick_total_H {T I d : Nat} {s : Layout} {down : List Coord} (h : HInv T I d s down) (hS : SafeH s) :
    ∃ s', tick s = .ok (s', .noEvent) ∧ SafeH s' := by
  obtain ⟨i0, q0, w0, o0, l0, c0, d0, st0⟩ := h.pre
  have S0 : SafeH (tickPre s) := by
    refine ⟨c0 ▸ hS.cfg, by rw [c0, d0]; exact hS.dl, by rw [st0, c0]; exact hS.held, by rw [w0, c0]; exact hS.wsafe, ?_⟩
    intro q hq c hc
    rw [q0] at hq
    obtain ⟨y, hy, hyq⟩ := List.mem_map.mp hq
    rw [c0]
    exact hS.queue y hy c (by rw [← hc, ← hyq])
  have e1 : tickOneshot (tickPre s) = .ok (tickPre s, .noEvent) := tickOneshot_inactive i0.osh
  obtain ⟨s2, hm, g1, g2⟩ := main_total_H i0 S0
  obtain ⟨i2, _, cf2, dl2, _, qs2, _, _⟩ := i0.main s2 _ hm
  refine ⟨s2, ?_, ?_⟩
  · unfold KVerif.L.tick
    simp only [h.aq, e1, hm, C04.processExtraWaitings_inert i2.extra, C04.processSequenceCustom_inert i2.states]
    rfl
  · refine ⟨cf2 ▸ S0.cfg, by rw [cf2, dl2]; exact S0.dl, ?_, by rw [cf2]; exact g2, ?_⟩
    · intro st hst v hv
      rw [cf2]
      rcases g1 st hst with g | g
      · exact S0.held st g v hv
      · exact g v hv
    · intro q hq c hc
      rw [cf2]
      exact S0.queue q (qs2 q hq) c hc

theorem input_safe_H {T I d : Nat} {s : Layout} {down : List Coord} (h : HInv T I d s down) (hS : SafeH s) (e : Ev)
    (hq : s.queue.length < QUEUE_SIZE) (hco : ∀ c, e = .press c → CoordOK s.cfg c) :
    ∃ s', s.event e = .ok s' ∧ HInv T I d s' (downAfter down (.ev e)) ∧ SafeH s' ∧
      s'.queue.length = s.queue.length + 1 ∧ s'.cfg = s.cfg := by
  obtain ⟨s', e1, i1, q1, c1, d1, st1, w1⟩ := h.input e hq
  refine ⟨s', e1, i1, ⟨c1 ▸ hS.cfg, by rw [c1, d1]; exact hS.dl, by rw [st1, c1]; exact hS.held,
    by rw [w1, c1]; exact hS.wsafe, ?_⟩, by rw [q1]; simp, c1⟩
  intro q hq' c hc
  rw [c1]
  rw [q1] at hq'
  rcases List.mem_append.mp hq' with hq' | hq'
  · exact hS.queue q hq' c hc
  · simp only [List.mem_cons, List.mem_nil_iff, or_false] at hq'
    subst hq'
    exact hco c hc

theorem quiet_total_H {T I d : Nat} : ∀ (N : Nat) (s : Layout) (down : List Coord), HInv T I d s down → SafeH s →
    ∃ s', run s down (List.replicate N .tick) = some (.ok (s', down)) := by
  intro N
  induction N with
  | zero => intro s down _ _; exact ⟨s, rfl⟩
  | succ N ih =>
    intro s down h hS
    obtain ⟨s1, e1, S1⟩ := tick_total_H h hS
    obtain ⟨i1, _⟩ := h.tick s1 _ e1
    obtain ⟨s', e'⟩ := ih s1 down i1 S1
    refine ⟨s', ?_⟩
    simp only [List.replicate, run, overflows, Bool.false_eq_true, if_false, stepIn, e1, downAfter]
    exact e'

theorem run_never_crashes_H {T I d : Nat} : ∀ (ins : List In) (s : Layout) (down : List Coord),
    HInv T I d s down → SafeH s → PressesOK s.cfg ins →
    run s down ins = none ∨ ∃ s', run s down ins = some (.ok (s', downs down ins)) ∧ SafeH s' := by
  intro ins
  induction ins with
  | nil => intro s down _ hS _; exact Or.inr ⟨s, rfl, hS⟩
  | cons i rest ih =>
    intro s down h hS hP
    simp only [run, downs]
    split
    · exact Or.inl rfl
    · rename_i hov
      cases i with
      | ev e =>
        have hq : s.queue.length < QUEUE_SIZE := by
          simp only [overflows, decide_eq_true_eq] at hov; omega
        obtain ⟨s1, e1, i1, S1, _, c1⟩ := input_safe_H h hS e hq
          (fun c hc => hP c (by rw [hc]; exact List.mem_cons_self))
        simp only [stepIn, e1]
        exact ih s1 _ i1 S1 (fun c hc => c1 ▸ hP c (List.mem_cons_of_mem _ hc))
      | tick =>
        obtain ⟨s1, e1, S1⟩ := tick_total_H h hS
        obtain ⟨i1, _, c1, _⟩ := h.tick s1 _ e1
        simp only [stepIn, e1]
        exact ih s1 _ i1 S1 (fun c hc => c1 ▸ hP c (List.mem_cons_of_mem _ hc))

theorem run_defined_H {T I d : Nat} : ∀ (ins : List In) (s : Layout) (down : List Coord), HInv T I d s down →
    SafeH s → PressesOK s.cfg ins → evCount ins + s.queue.length ≤ QUEUE_SIZE →
    ∃ s', run s down ins = some (.ok (s', downs down ins)) ∧ SafeH s' := by
  intro ins
  induction ins with
  | nil => intro s down _ hS _ _; exact ⟨s, rfl, hS⟩
  | cons i rest ih =>
    intro s down h hS hP hn
    cases i with
    | ev e =>
      simp only [evCount] at hn
      have hq : s.queue.length < QUEUE_SIZE := by omega
      obtain ⟨s1, e1, i1, S1, q1, c1⟩ := input_safe_H h hS e hq
        (fun c hc => hP c (by rw [hc]; exact List.mem_cons_self))
      obtain ⟨s', r1, r2⟩ := ih s1 _ i1 S1 (fun c hc => c1 ▸ hP c (List.mem_cons_of_mem _ hc)) (by omega)
      refine ⟨s', ?_, r2⟩
      have hov : overflows s (.ev e) = false := by
        simp only [overflows, decide_eq_false_iff_not]; omega
      simp only [run, hov, Bool.false_eq_true, if_false, stepIn, e1, downs]
      exact r1
    | tick =>
      simp only [evCount] at hn
      obtain ⟨s1, e1, S1⟩ := tick_total_H h hS
      obtain ⟨i1, _, c1, _, hl, _, _⟩ := h.tick s1 _ e1
      obtain ⟨s', r1, r2⟩ := ih s1 _ i1 S1 (fun c hc => c1 ▸ hP c (List.mem_cons_of_mem _ hc)) (by omega)
      refine ⟨s', ?_, r2⟩
      simp only [run, overflows, Bool.false_eq_true, if_false, stepIn, e1, downs]
      exact r1

theorem init_safe_H (cfg : LCfg) (hc : CfgSafeH cfg) (tv2 dfl qth : Bool) (osd : Nat) :
    SafeH ({ cfg := cfg, transV2 := tv2, delegateToFirstLayer := dfl, quickTapHoldTimeout := qth,
             oneshot := { pauseInputProcessingDelay := osd } } : Layout) :=
  ⟨hc, hc.layers, fun _ h => (by cases h), fun _ h => (by cases h), fun _ h => (by cases h)⟩

/-- **the undecided tap-hold key is decided within its countdown** once its release is queued: with no
key physically down and a tap-hold key undecided with countdown `t`, after some `k ≤ max t 1` ticks
(at least one) the key has been decided — the tick on which that happens takes nothing from the queue,
so right after it nothing is waiting -/
theorem decided_within {T I d : Nat} : ∀ (t : Nat) (s : Layout) (w : Waiting), HInv T I d s [] → SafeH s →
    s.waiting = some w → w.timeout ≤ t →
    ∃ k s', 1 ≤ k ∧ k ≤ max t 1 ∧ run s [] (List.replicate k .tick) = some (.ok (s', [])) ∧
      s'.waiting = none ∧ HInv T I d s' [] ∧ SafeH s' := by
  intro t
  induction t with
  | zero =>
    intro s w h hS hw ht
    obtain ⟨s1, e1, S1⟩ := tick_total_H h hS
    obtain ⟨i1, _, _, _, _, _, wd⟩ := h.tick s1 _ e1
    refine ⟨1, s1, Nat.le_refl _, by simp, ?_, ?_, i1, S1⟩
    · simp only [List.replicate, run, overflows, Bool.false_eq_true, if_false, stepIn, e1, downAfter]
    · rcases wd w hw with g | ⟨w1, _, _, g⟩
      · exact g
      · have := g rfl; omega
  | succ t ih =>
    intro s w h hS hw ht
    obtain ⟨s1, e1, S1⟩ := tick_total_H h hS
    obtain ⟨i1, _, _, _, _, _, wd⟩ := h.tick s1 _ e1
    have hrun1 : run s [] (List.replicate 1 .tick) = some (.ok (s1, [])) := by
      simp only [List.replicate, run, overflows, Bool.false_eq_true, if_false, stepIn, e1, downAfter]
    rcases wd w hw with g | ⟨w1, g1, g2, g3⟩
    · exact ⟨1, s1, Nat.le_refl _, by omega, hrun1, g, i1, S1⟩
    · obtain ⟨k, s', k1, k2, kr, kw, ki, ks⟩ := ih s1 w1 i1 S1 g1 (by omega)
      refine ⟨k + 1, s', by omega, ?_, ?_, kw, ki, ks⟩
      · have := g3 rfl; omega
      · simp only [List.replicate, run, overflows, Bool.false_eq_true, if_false, stepIn, e1, downAfter]
        exact kr

end KVerif.Quiesce
