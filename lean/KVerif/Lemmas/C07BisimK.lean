/-
C07 helper lemmas, bisimulation part 2 (kanata level): with the kanata-level components at rest
(`KRest`: no custom actions, no overrides, ...) `tick_states` and `handle_input_event` are given in
closed form, and two states that differ only in the layout's history ages (`AgeEquiv`) step to two
such states with the SAME output, the same crash, the same everything else.
-/
import KVerif.Lemmas.KanataDynQuiet
import KVerif.Lemmas.C07Age
namespace KVerif.C07
open KVerif.L KVerif.K

/-- replace the layout -/
def setL (k : KState) (l : Layout) : KState := { k with layout := l }

/-- **AgeEquiv**: equal except the ages of the layout's key / input history (every other field of the
kanata state, in particular the output written so far, `prev_keys`, and every countdown, is equal) -/
def AgeEquiv (k k' : KState) : Prop := ∃ l', AgeEq k.layout l' ∧ k' = setL k l'

theorem AgeEquiv.refl (k : KState) : AgeEquiv k k := ⟨k.layout, AgeEq.refl _, rfl⟩

theorem AgeEquiv.out {k k' : KState} (h : AgeEquiv k k') : k'.out = k.out := by
  obtain ⟨l', _, rfl⟩ := h; rfl

theorem AgeEquiv.prevKeys {k k' : KState} (h : AgeEquiv k k') : k'.prevKeys = k.prevKeys := by
  obtain ⟨l', _, rfl⟩ := h; rfl

theorem AgeEquiv.trans {a b c : KState} (h1 : AgeEquiv a b) (h2 : AgeEquiv b c) : AgeEquiv a c := by
  obtain ⟨l1, e1, rfl⟩ := h1
  obtain ⟨l2, e2, rfl⟩ := h2
  exact ⟨l2, e1.trans e2, rfl⟩

/-! ### the key-list diff does not look at the layout -/

theorem releaseKey_setL (k : KState) (l : Layout) (x : KeyCode) :
    releaseKey (setL k l) x = setL (releaseKey k x) l := by
  unfold releaseKey
  show (if k.ignoreMin ≤ x ∧ x ≤ k.ignoreMax then setL k l else
    match k.btnCodes.find? (·.1 == x) with
    | some (_, b) => (setL k l).emit (.btnUp b)
    | none => match k.wheelCodes.find? (·.1 == x) with
      | some _ => setL k l
      | none => (setL k l).emit (.up x)) = _
  split
  · rfl
  · split
    · rename_i h1; simp only [h1]; rfl
    · rename_i h1; simp only [h1]
      split
      · rename_i h2; simp only [h2] <;> rfl
      · rename_i h2; simp only [h2]; rfl

theorem pressKey_setL (k : KState) (l : Layout) (x : KeyCode) :
    pressKey (setL k l) x = setL (pressKey k x) l := by
  unfold pressKey
  show (if k.ignoreMin ≤ x ∧ x ≤ k.ignoreMax then setL k l else
    match k.btnCodes.find? (·.1 == x) with
    | some (_, b) => (setL k l).emit (.btnDown b)
    | none => match k.wheelCodes.find? (·.1 == x) with
      | some (_, d) => (setL k l).emit (.scroll d 120)
      | none => (setL k l).emit (.down x)) = _
  split
  · rfl
  · split
    · rename_i h1; simp only [h1]; rfl
    · rename_i h1; simp only [h1]
      split
      · rename_i h2; simp only [h2] <;> rfl
      · rename_i h2; simp only [h2]; rfl

theorem releaseOld_setL (k : KState) (l : Layout) (cur : List KeyCode) (rev : Bool) :
    releaseOld (setL k l) cur rev = setL (releaseOld k cur rev) l := by
  unfold releaseOld
  have : ∀ (olds : List KeyCode) (k0 : KState),
      olds.foldl (fun k x => if cur.contains x then k else releaseKey k x) (setL k0 l)
        = setL (olds.foldl (fun k x => if cur.contains x then k else releaseKey k x) k0) l := by
    intro olds
    induction olds with
    | nil => intro k0; rfl
    | cons x xs ih =>
      intro k0
      simp only [List.foldl_cons]
      split
      · exact ih k0
      · rw [releaseKey_setL]; exact ih _
  exact this _ k

theorem pressNew_setL (k : KState) (l : Layout) (cur : List KeyCode) :
    pressNew (setL k l) cur = setL (pressNew k cur) l := by
  unfold pressNew
  induction cur generalizing k with
  | nil => rfl
  | cons x xs ih =>
    simp only [List.foldl_cons]
    show List.foldl _ (if k.prevKeys.contains x then setL k l
      else pressKey (setL { k with prevKeys := k.prevKeys ++ [x], lastPressedKey := x } l) x) xs = _
    split
    · exact ih k
    · rw [pressKey_setL]; exact ih _

/-! ### `tick_states` with the kanata-level components at rest, in closed form -/

/-- the state after a whole `tick_states` whose layout tick returned `l'` and no custom event -/
def afterTick (k : KState) (l' : Layout) : KState :=
  { pressNew (releaseOld (setL k l') l'.keycodes false) l'.keycodes with
    macroOnPressCancelDuration := k.macroOnPressCancelDuration - 1, prevKeys := l'.keycodes, curKeys := [] }

theorem hkc_rest_eq (k : KState) (hr : KRest k) (l' : Layout) (hl : tick k.layout = .ok (l', .noEvent)) :
    handleKeystateChanges k =
      .ok { pressNew (releaseOld (setL k l') l'.keycodes false) l'.keycodes with curKeys := l'.keycodes } := by
  have hadj : adjustKeys ({ k with layout := l' } : KState) (({ k with layout := l' } : KState).curKeys ++ l'.keycodes)
      = l'.keycodes := by
    rw [adjustKeys_rest ({ k with layout := l' } : KState) hr.unmod hr.unshift]
    show k.curKeys ++ l'.keycodes = l'.keycodes
    rw [hr.cur]; rfl
  have hov : k.overrides.overrideKeys l'.keycodes k.overrideStates = .ok (l'.keycodes, k.overrideStates) :=
    overrideKeys_empty _ hr.noOvr _ _
  have hcw : applyCapsWord ({ k with layout := l', overrideStates := k.overrideStates } : KState) l'.keycodes
      = (l'.keycodes, { k with layout := l', overrideStates := k.overrideStates }) := by
    unfold applyCapsWord; simp only [hr.caps]
  -- [seq] sequence mode is off (`KRest.seqOff`): the hooks do nothing, the press loop is `pressNew`
  have hoff : (releaseOld ({ k with layout := l', overrideStates := k.overrideStates } : KState) l'.keycodes false).seq.off = true := by
    rw [releaseOld_seq]; exact hr.seqOff
  have hh := seqReleasedHook_inactive _ l'.keycodes (off_inactive _ hoff)
  have hp := pressLoop_off l'.keycodes l'.keycodes _ hoff
  unfold handleKeystateChanges
  simp only [hl, applyUnmodEvent, hadj, hov, hr.ovrClean, eraseOverridden_nil, hcw, hh, hp, hkcCustom]
  rfl

theorem tickStates_rest_ok (k : KState) (hr : KRest k) (l' : Layout)
    (hl : tick k.layout = .ok (l', .noEvent)) : tickStates k = .ok (afterTick k l') := by
  obtain ⟨o, p, lp, hk2⟩ := (releaseOld_frame (setL k l') l'.keycodes false).trans (pressNew_frame _ l'.keycodes)
  have hkc := hkc_rest_eq k hr l' hl
  unfold afterTick
  rw [hk2] at hkc ⊢
  have e2 := handleScrolling_none ({ setL k l' with out := o, prevKeys := p, lastPressedKey := lp, curKeys := l'.keycodes } : KState) hr.scroll hr.hscroll
  have e3 := handleMoveMouse_none ({ setL k l' with out := o, prevKeys := p, lastPressedKey := lp, curKeys := l'.keycodes } : KState) hr.moveV hr.moveH
  have e3s := tickSequenceState_inactive ({ setL k l' with out := o, prevKeys := p, lastPressedKey := lp, curKeys := l'.keycodes } : KState) (off_inactive _ hr.seqOff)
  have e4 := tickIdleTimeout_nil ({ setL k l' with out := o, prevKeys := p, lastPressedKey := lp, curKeys := l'.keycodes } : KState) hr.wfi
  have e5 := tickHeldVkeys_nil ({ setL k l' with out := o, lastPressedKey := lp, macroOnPressCancelDuration := k.macroOnPressCancelDuration - 1, prevKeys := l'.keycodes, curKeys := [] } : KState) hr.vk
  unfold tickStates
  simp only [hkc]
  rw [e2]; simp only []
  rw [e3]; simp only []
  rw [e3s]; simp only []
  rw [e4]; simp only []
  have hrc : (setL k l').dyn.rcd = none := hr.noRec
  simp only [dynTickRecord, hrc]
  exact e5

theorem tickStates_rest_err (k : KState) (e : L.Crash) (hl : tick k.layout = .error e) :
    tickStates k = .error (.layout e) := by
  unfold tickStates handleKeystateChanges
  simp only [hl]

theorem tickStates_rest_custom (k : KState) (hr : KRest k) (l' : Layout) (ce : CustomEv)
    (hl : tick k.layout = .ok (l', ce)) (hce : ce ≠ .noEvent) : tickStates k = .error .customId := by
  cases ce with
  | noEvent => exact absurd rfl hce
  | press id =>
    unfold tickStates handleKeystateChanges
    simp only [hl, applyUnmodEvent]
    rw [customActs_none ({ k with layout := l' } : KState) hr.customs id]
  | release id =>
    unfold tickStates handleKeystateChanges
    simp only [hl, applyUnmodEvent]
    rw [customActs_none ({ k with layout := l' } : KState) hr.customs id]

theorem afterTick_layout (k : KState) (l' : Layout) : (afterTick k l').layout = l' := by
  obtain ⟨o, p, lp, hk2⟩ := (releaseOld_frame (setL k l') l'.keycodes false).trans (pressNew_frame _ l'.keycodes)
  unfold afterTick
  rw [hk2]
  rfl

theorem afterTick_setL (k : KState) (l a b : Layout) (h : a.keycodes = b.keycodes) :
    afterTick (setL k l) b = setL (afterTick k a) b := by
  unfold afterTick
  have e : setL (setL k l) b = setL k b := rfl
  have e' : setL k b = setL (setL k a) b := rfl
  rw [e, e', ← h, releaseOld_setL, pressNew_setL]
  rfl

/-- results of a kanata-level step: the same crash, or two states equal except history ages -/
def KRel (r1 r2 : Except K.Crash KState) : Prop :=
  match r1, r2 with
  | .ok a, .ok b => AgeEquiv a b
  | .error c1, .error c2 => c1 = c2
  | _, _ => False

/-- the invariant of the layered fragment at the kanata level -/
structure KLay (k : KState) : Prop where
  rest : KRest k
  cfg : C04.CfgFrag k.layout.cfg
  inert : C04.Inert k.layout

theorem KRest.setL {k : KState} (h : KRest k) (l : Layout) : KRest (setL k l) :=
  ⟨h.customs, h.noOvr, h.ovrClean, h.cur, h.unmod, h.unshift, h.caps, h.scroll, h.hscroll, h.moveV,
    h.moveH, h.wfi, h.vk, h.mcd, h.seqOff, h.noRec⟩

theorem KLay.of_equiv {k k' : KState} (h : KLay k) (he : AgeEquiv k k') : KLay k' := by
  obtain ⟨l', e, rfl⟩ := he
  exact ⟨h.rest.setL l', e.cfg ▸ h.cfg, inert_ageEq e h.inert⟩

/-- **one `tick_states` preserves `AgeEquiv`, with identical output and identical crash** (layered
fragment, kanata-level components at rest) -/
theorem tickStates_equiv {k k' : KState} (hk : KLay k) (he : AgeEquiv k k') :
    KRel (tickStates k) (tickStates k') := by
  obtain ⟨l2, e, rfl⟩ := he
  have ht := tick_ageEq e hk.cfg hk.inert
  rcases coreR_eq_iff ht with ⟨c, h1, h2⟩ | ⟨s1, s2, cu, h1, h2, h3⟩
  · rw [tickStates_rest_err k c h1, tickStates_rest_err (setL k l2) c h2]
    exact rfl
  · by_cases hcu : cu = .noEvent
    · subst hcu
      rw [tickStates_rest_ok k hk.rest s1 h1, tickStates_rest_ok (setL k l2) (hk.rest.setL l2) s2 h2]
      exact ⟨s2, (afterTick_layout k s1).symm ▸ h3, afterTick_setL k l2 s1 s2 h3.keycodes⟩
    · rw [tickStates_rest_custom k hk.rest s1 cu h1 hcu,
        tickStates_rest_custom (setL k l2) (hk.rest.setL l2) s2 cu h2 hcu]
      exact rfl

theorem tickStates_klay {k k' : KState} (hk : KLay k) (h : tickStates k = .ok k') : KLay k' := by
  obtain ⟨l', hl, e1, _, e3⟩ := tickStates_rest k k' hk.rest h
  obtain ⟨r1, r2⟩ := tick_inert hk.cfg hk.inert l' .noEvent hl
  exact ⟨e3, e1 ▸ r2 ▸ hk.cfg, e1 ▸ r1⟩

/-! ### `handle_input_event` with the kanata-level components at rest, in closed form -/

theorem handleInput_press_eq (k : KState) (hm : k.macroOnPressCancelDuration = 0) (hn : k.dyn.rcd = none) (code : Nat) :
    handleInputEvent k (.press code) =
      match k.layout.event (.press (0, code)) with
      | .error e => .error (.layout e)
      | .ok l => .ok (setL { k with ticksSinceIdle := 0 } l) := by
  unfold handleInputEvent
  simp only [dynRecord_none _ _ _ (show ({ k with ticksSinceIdle := 0 } : KState).dyn.rcd = none from hn)]
  simp only [hm, gt_iff_lt, Nat.lt_irrefl, if_false]
  rfl

theorem handleInput_release_eq (k : KState) (hn : k.dyn.rcd = none) (code : Nat) :
    handleInputEvent k (.release code) =
      match k.layout.event (.release (0, code)) with
      | .error e => .error (.layout e)
      | .ok l => .ok (setL { k with ticksSinceIdle := 0 } l) := by
  unfold handleInputEvent
  simp only [dynRecord_none _ _ _ (show ({ k with ticksSinceIdle := 0 } : KState).dyn.rcd = none from hn)]
  rfl

theorem handleInput_tap_eq (k : KState) (code : Nat) :
    handleInputEvent k (.tap code) =
      match k.layout.event (.press (0, code)) with
      | .error e => .error (.layout e)
      | .ok l => match l.event (.release (0, code)) with
        | .error e => .error (.layout e)
        | .ok l => .ok (setL { k with ticksSinceIdle := 0 } l) := rfl

theorem scanLayers_setL (k : KState) (l : Layout) (cur : List KeyCode) (code : Nat) :
    ∀ order, scanLayers (setL k l) cur code order = scanLayers k cur code order := by
  intro order
  induction order with
  | nil => rfl
  | cons x xs ih =>
    simp only [scanLayers, ih]
    rfl

theorem repeatTarget_setL (k : KState) (l : Layout) (cur : List KeyCode) (order : List Nat) (code : Nat)
    (hd : l.defaultLayer = k.layout.defaultLayer) :
    repeatTarget (setL k l) cur order code = repeatTarget k cur order code := by
  unfold repeatTarget
  rw [scanLayers_setL]
  show (match scanLayers k cur code order with
    | some kc => some kc
    | none =>
      match (match outputsFor k l.defaultLayer code with
             | some outs => repeatCandidate k cur outs
             | none => none) with
      | some kc => some kc
      | none => if isActive k cur code then some code else none) = _
  rw [hd]
  rfl

theorem writeRepeat_setL (k : KState) (l : Layout) (kc : KeyCode) :
    writeRepeat (setL k l) kc = setL (writeRepeat k kc) l := by
  unfold writeRepeat
  show (if k.ignoreMin ≤ kc ∧ kc ≤ k.ignoreMax then setL k l else (setL k l).emit (.down kc)) = _
  split <;> rfl

theorem handleRepeat_rest_eq (k : KState) (hn : k.overrides.isEmpty = true)
    (hs : k.seq.st.active = false) (code : Nat) :
    handleRepeat k code =
      match k.layout.transOrder with
      | .error e => .error (.layout e)
      | .ok order =>
        .ok { (match repeatTarget k (k.curKeys ++ k.layout.keycodes) order code with
               | some kc => writeRepeat k kc
               | none => k) with curKeys := [] } := by
  unfold handleRepeat
  simp only [hs, Bool.false_and, Bool.false_eq_true, if_false]
  rw [overrideKeys_empty k.overrides hn]
  rfl

theorem handleRepeat_equiv (k0 : KState) (l2 : Layout) (hn : k0.overrides.isEmpty = true)
    (hs : k0.seq.st.active = false) (e0 : AgeEq k0.layout l2) (code : Nat) :
    KRel (handleRepeat k0 code) (handleRepeat (setL k0 l2) code) := by
  rw [handleRepeat_rest_eq k0 hn hs, handleRepeat_rest_eq (setL k0 l2) hn hs]
  show KRel (match k0.layout.transOrder with | .error e => _ | .ok order => _)
    (match l2.transOrder with | .error e => _ | .ok order => _)
  rw [← e0.transOrder]
  cases k0.layout.transOrder with
  | error c => exact rfl
  | ok order =>
    show KRel
      (.ok { (match repeatTarget k0 (k0.curKeys ++ k0.layout.keycodes) order code with
              | some kc => writeRepeat k0 kc
              | none => k0) with curKeys := [] })
      (.ok { (match repeatTarget (setL k0 l2) (k0.curKeys ++ l2.keycodes) order code with
              | some kc => writeRepeat (setL k0 l2) kc
              | none => setL k0 l2) with curKeys := [] })
    rw [← e0.keycodes, repeatTarget_setL k0 l2 _ order code e0.defaultLayer.symm]
    cases repeatTarget k0 (k0.curKeys ++ k0.layout.keycodes) order code with
    | none => exact ⟨l2, e0, rfl⟩
    | some kc =>
      show KRel (.ok { writeRepeat k0 kc with curKeys := [] })
        (.ok { writeRepeat (setL k0 l2) kc with curKeys := [] })
      rw [writeRepeat_setL]
      obtain ⟨o, ho⟩ := writeRepeat_fields k0 kc
      rw [ho]
      exact ⟨l2, e0, rfl⟩

/-- **one `handle_input_event` preserves `AgeEquiv`, with identical output and identical crash** -/
theorem handleInput_equiv {k k' : KState} (hk : KLay k) (he : AgeEquiv k k') (i : Input) :
    KRel (handleInputEvent k i) (handleInputEvent k' i) := by
  obtain ⟨l2, e, rfl⟩ := he
  cases i with
  | press code =>
    rw [handleInput_press_eq k hk.rest.mcd hk.rest.noRec, handleInput_press_eq (setL k l2) hk.rest.mcd hk.rest.noRec]
    rcases coreL_eq_iff (event_ageEq e hk.cfg hk.inert (.press (0, code))) with ⟨c, h1, h2⟩ | ⟨s1, s2, h1, h2, h3⟩
    · show KRel (match k.layout.event _ with | .error e => _ | .ok l => _) (match l2.event _ with | .error e => _ | .ok l => _)
      rw [h1, h2]; exact rfl
    · show KRel (match k.layout.event _ with | .error e => _ | .ok l => _) (match l2.event _ with | .error e => _ | .ok l => _)
      rw [h1, h2]; exact ⟨s2, h3, rfl⟩
  | release code =>
    rw [handleInput_release_eq k hk.rest.noRec, handleInput_release_eq (setL k l2) hk.rest.noRec]
    rcases coreL_eq_iff (event_ageEq e hk.cfg hk.inert (.release (0, code))) with ⟨c, h1, h2⟩ | ⟨s1, s2, h1, h2, h3⟩
    · show KRel (match k.layout.event _ with | .error e => _ | .ok l => _) (match l2.event _ with | .error e => _ | .ok l => _)
      rw [h1, h2]; exact rfl
    · show KRel (match k.layout.event _ with | .error e => _ | .ok l => _) (match l2.event _ with | .error e => _ | .ok l => _)
      rw [h1, h2]; exact ⟨s2, h3, rfl⟩
  | tap code =>
    rw [handleInput_tap_eq k, handleInput_tap_eq (setL k l2)]
    rcases coreL_eq_iff (event_ageEq e hk.cfg hk.inert (.press (0, code))) with ⟨c, h1, h2⟩ | ⟨s1, s2, h1, h2, h3⟩
    · show KRel (match k.layout.event _ with | .error e => _ | .ok l => _) (match l2.event _ with | .error e => _ | .ok l => _)
      rw [h1, h2]; exact rfl
    · show KRel (match k.layout.event _ with | .error e => _ | .ok l => _) (match l2.event _ with | .error e => _ | .ok l => _)
      rw [h1, h2]
      obtain ⟨i1, c1, _⟩ := event_inert hk.cfg hk.inert _ s1 h1
      rcases coreL_eq_iff (event_ageEq h3 (c1 ▸ hk.cfg) i1 (.release (0, code))) with ⟨c, g1, g2⟩ | ⟨t1, t2, g1, g2, g3⟩
      · simp only [g1, g2]; exact rfl
      · simp only [g1, g2]; exact ⟨t2, g3, rfl⟩
  | rep code =>
    exact handleRepeat_equiv { k with ticksSinceIdle := 0 } l2 hk.rest.noOvr (off_inactive _ hk.rest.seqOff) e code

theorem handleInput_klay {k k' : KState} (hk : KLay k) (i : Input) (h : handleInputEvent k i = .ok k') :
    KLay k' := by
  obtain ⟨r1, _, r3⟩ := handleInput_rest k k' hk.rest i h
  cases i with
  | press code =>
    obtain ⟨i1, c1, _⟩ := event_inert hk.cfg hk.inert _ _ r3
    exact ⟨r1, c1 ▸ hk.cfg, i1⟩
  | release code =>
    obtain ⟨i1, c1, _⟩ := event_inert hk.cfg hk.inert _ _ r3
    exact ⟨r1, c1 ▸ hk.cfg, i1⟩
  | tap code =>
    obtain ⟨l1, e1, e2⟩ := r3
    obtain ⟨i1, c1, _⟩ := event_inert hk.cfg hk.inert _ _ e1
    obtain ⟨i2, c2, _⟩ := event_inert (c1 ▸ hk.cfg) i1 _ _ e2
    exact ⟨r1, c2 ▸ c1 ▸ hk.cfg, i2⟩
  | rep code =>
    simp only [] at r3
    exact ⟨r1, r3 ▸ hk.cfg, r3 ▸ hk.inert⟩

/-! ### the blocking decision -/

theorem isIdle_setL (k : KState) (l2 : Layout) (e : AgeEq k.layout l2) : isIdle (setL k l2) = isIdle k := by
  unfold isIdle isIdleBase
  simp only [setL, ← e.queue, ← e.waiting, ← e.extraWaiting, ← e.lpt, ← e.oneshot, ← e.activeSequences,
    ← e.tapDanceEager, ← e.actionQueue, ← e.states]

theorem canBlock_fst_setL (k : KState) (l2 : Layout) (e : AgeEq k.layout l2) (ms : Nat) :
    (canBlockUpdateIdleWaiting (setL k l2) ms).1 = setL (canBlockUpdateIdleWaiting k ms).1 l2 := by
  have h1 := isIdle_setL k l2 e
  unfold canBlockUpdateIdleWaiting
  simp only [h1]
  show (if (!isIdle k) = true then setL { k with ticksSinceIdle := 0 } l2
      else if (!k.waitingForIdle.isEmpty || k.liveReloadRequested) = true then
        setL { k with ticksSinceIdle := min (k.ticksSinceIdle + ms) 65535 } l2
      else setL k l2) =
    setL (if (!isIdle k) = true then { k with ticksSinceIdle := 0 }
      else if (!k.waitingForIdle.isEmpty || k.liveReloadRequested) = true then
        { k with ticksSinceIdle := min (k.ticksSinceIdle + ms) 65535 }
      else k) l2
  split
  · rfl
  · split <;> rfl

theorem canBlock_equiv {k k' : KState} (he : AgeEquiv k k') (ms : Nat) :
    AgeEquiv (canBlockUpdateIdleWaiting k ms).1 (canBlockUpdateIdleWaiting k' ms).1 := by
  obtain ⟨l2, e, rfl⟩ := he
  rw [canBlock_fst_setL k l2 e ms]
  obtain ⟨t, ht⟩ := canBlock_fields k ms
  rw [ht]
  exact ⟨l2, e, rfl⟩

theorem canBlock_klay {k : KState} (hk : KLay k) (ms : Nat) : KLay (canBlockUpdateIdleWaiting k ms).1 := by
  obtain ⟨t, ht⟩ := canBlock_fields k ms
  rw [ht]
  exact ⟨⟨hk.rest.customs, hk.rest.noOvr, hk.rest.ovrClean, hk.rest.cur, hk.rest.unmod, hk.rest.unshift,
    hk.rest.caps, hk.rest.scroll, hk.rest.hscroll, hk.rest.moveV, hk.rest.moveH, hk.rest.wfi, hk.rest.vk,
    hk.rest.mcd, hk.rest.seqOff, hk.rest.noRec⟩, hk.cfg, hk.inert⟩

end KVerif.C07
