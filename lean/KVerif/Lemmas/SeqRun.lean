/-
Helper lemmas for C12, runtime part: on tables of plain keys, with plain keys typed and no modifier
held, `do_sequence_press_logic` is the automaton `absKey` over the typed word — the overlap
bookkeeping and the modifier backtracking never find anything, and the front-dropping loop computes
the longest viable suffix.
-/
import KVerif.Lemmas.SeqTrie
namespace KVerif.Seq

/-! ### bit facts -/

theorem and_mask_of_lt : ∀ x, x < 1024 → x &&& MASK_KEYCODES = x := by
  unfold MASK_KEYCODES; decide +kernel

theorem and_notmarker_of_lt : ∀ x, x < 1024 → x &&& NOT_OVERLAP_MARKER = x := by
  unfold NOT_OVERLAP_MARKER; decide +kernel

theorem or_marker_ge : ∀ x, x < 1024 → ¬ (x ||| KEY_OVERLAP_MARKER) < 1024 := by
  unfold KEY_OVERLAP_MARKER; decide +kernel

theorem plainKey_lt {k : Nat} (h : plainKey k = true) : k < 1024 := by
  simp [plainKey] at h; exact h.1.1.1

theorem plainKey_normalise {k : Nat} (h : plainKey k = true) : normaliseMod k = k := by
  simp only [plainKey, isModifier, Bool.and_eq_true, Bool.not_eq_true', Bool.or_eq_false_iff,
    beq_eq_false_iff_ne, decide_eq_true_eq] at h
  obtain ⟨⟨⟨_, hm⟩, _⟩, _⟩ := h
  simp only [normaliseMod]
  have h1 : k ≠ KC_RSHIFT := by omega
  have h2 : k ≠ KC_RGUI := by omega
  have h3 : k ≠ KC_RCTRL := by omega
  simp [h1, h2, h3]

/-! ### trie lookups in terms of the specification's `viable` / `lookupKey` -/

theorem getOrDescendant_eq (t : Trie Nat) (w : Key) :
    t.getOrDescendant w =
      match lookupKey t.entries w with
      | some j => .hasValue j
      | none => if viable t.entries w then .inTrie else .notInTrie := by
  unfold Trie.getOrDescendant lookupKey viable
  cases t.entries.find? (fun e => e.1 == w) <;> rfl

theorem viable_of_lookup {tbl : List (Key × Nat)} {w : Key} {j : Nat} (h : lookupKey tbl w = some j) :
    viable tbl w = true := by
  unfold lookupKey at h
  cases hf : tbl.find? (fun e => e.1 == w) with
  | none => simp [hf] at h
  | some e =>
    have he := List.mem_of_find?_eq_some hf
    have hk : e.1 = w := by simpa using List.find?_some hf
    simp only [viable, List.any_eq_true]
    exact ⟨e, he, by simp [← hk, List.isPrefixOf_iff_prefix]⟩

theorem isNot_getOrDescendant (t : Trie Nat) (w : Key) :
    (t.getOrDescendant w).isNot = !viable t.entries w := by
  rw [getOrDescendant_eq]
  cases hl : lookupKey t.entries w with
  | some j => simp [Trie.GetRes.isNot, viable_of_lookup hl]
  | none => cases viable t.entries w <;> simp [Trie.GetRes.isNot]

theorem eq_notInTrie_of_isNot {r : Res} (h : r.isNot = true) : r = .notInTrie := by
  cases r <;> simp_all [Trie.GetRes.isNot]

/-- every stored key consists of plain keys and is non-empty -/
@[reducible] def PlainTrie (t : Trie Nat) : Prop := plainTable t.entries = true

theorem not_viable_of_big {t : Trie Nat} (hp : PlainTrie t) {w : Key} {x : Nat} (hx : x ∈ w)
    (hbig : ¬ x < 1024) : viable t.entries w = false := by
  cases hv : viable t.entries w with
  | false => rfl
  | true =>
    exfalso
    simp only [viable, List.any_eq_true, List.isPrefixOf_iff_prefix] at hv
    obtain ⟨e, he, hpre⟩ := hv
    simp only [PlainTrie, plainTable, List.all_eq_true, Bool.and_eq_true] at hp
    have := (hp e he).1 x (hpre.subset hx)
    exact hbig (plainKey_lt this)

/-! ### the pieces of `do_sequence_press_logic` on plain input -/

theorem overlapFix_plain {t : Trie Nat} (hp : PlainTrie t) (ovl : List Nat) {k : Nat} (hk : k < 1024) :
    overlapFix t ovl k ((k &&& MASK_KEYCODES) ||| KEY_OVERLAP_MARKER) =
      (ovl ++ [KEY_OVERLAP_MARKER, k], .notInTrie, true) := by
  have hpov : ¬ ((k &&& MASK_KEYCODES) ||| KEY_OVERLAP_MARKER) < 1024 := by
    rw [and_mask_of_lt k hk]; exact or_marker_ge k hk
  generalize (k &&& MASK_KEYCODES) ||| KEY_OVERLAP_MARKER = pov at hpov
  have hm : ¬ KEY_OVERLAP_MARKER < 1024 := by decide
  have n0 : (t.getOrDescendant (ovl ++ [pov])).isNot = true := by
    rw [isNot_getOrDescendant, not_viable_of_big hp (x := pov) (by simp) hpov]; rfl
  have n1 : (t.getOrDescendant (ovl ++ [KEY_OVERLAP_MARKER, pov])).isNot = true := by
    rw [isNot_getOrDescendant, not_viable_of_big hp (x := pov) (by simp) hpov]; rfl
  have n2 : (t.getOrDescendant (ovl ++ [KEY_OVERLAP_MARKER, k])).isNot = true := by
    rw [isNot_getOrDescendant, not_viable_of_big hp (x := KEY_OVERLAP_MARKER) (by simp) hm]; rfl
  unfold overlapFix
  simp only [n0, n1, n2, Bool.not_true, Bool.false_eq_true, if_false, and_mask_of_lt k hk, if_true]
  rw [eq_notInTrie_of_isNot n2]

theorem backtrack_plain (t : Trie Nat) (mc : Bool) (seq : List Nat) (hs : ∀ x ∈ seq, x < 1024)
    (hn : (t.getOrDescendant seq).isNot = true) :
    ∀ n, n ≤ seq.length → backtrack t mc n seq = (seq, .notInTrie)
  | 0, _ => rfl
  | i + 1, hi => by
    have hlt : i < seq.length := by omega
    have hx : seq.getD i 0 = seq[i] := by simp [List.getD, hlt]
    have hx1 : seq[i] < 1024 := hs _ (List.getElem_mem hlt)
    have hne : seq[i] ≠ KEY_OVERLAP_MARKER := by unfold KEY_OVERLAP_MARKER; omega
    simp only [backtrack, hx, hne, if_false, and_mask_of_lt _ hx1, and_notmarker_of_lt _ hx1,
      List.set_getElem_self, ite_self, hn, if_true]
    exact backtrack_plain t mc seq hs hn i (by omega)

theorem stdVariant_plain (t : Trie Nat) (mc : Bool) (seq : List Nat) (hs : ∀ x ∈ seq, x < 1024) :
    stdVariant t mc seq =
      if viable t.entries seq then (seq, t.getOrDescendant seq, false) else (seq, .notInTrie, true) := by
  unfold stdVariant
  cases hv : viable t.entries seq with
  | true =>
    have : (t.getOrDescendant seq).isNot = false := by rw [isNot_getOrDescendant, hv]; rfl
    simp [this]
  | false =>
    have hn : (t.getOrDescendant seq).isNot = true := by rw [isNot_getOrDescendant, hv]; rfl
    simp only [hn, if_true, backtrack_plain t mc seq hs hn seq.length (Nat.le_refl _)]
    simp [Trie.GetRes.isNot]

theorem dropFront_lvs (t : Trie Nat) : ∀ w : Key,
    dropFront t w (t.getOrDescendant w) = (lvs t.entries w, t.getOrDescendant (lvs t.entries w))
  | [] => rfl
  | x :: w => by
    simp only [dropFront, lvs, isNot_getOrDescendant]
    cases viable t.entries (x :: w) with
    | true => simp
    | false => simpa using dropFront_lvs t w

theorem lvs_viable (tbl : List (Key × Nat)) : ∀ w : Key, lvs tbl w ≠ [] → viable tbl (lvs tbl w) = true
  | [], h => by simp [lvs] at h
  | x :: w, h => by
    simp only [lvs] at h ⊢
    cases hv : viable tbl (x :: w) with
    | true => simp [hv]
    | false => simp only [hv] at h ⊢; exact lvs_viable tbl w h

theorem lvs_of_viable (tbl : List (Key × Nat)) (w : Key) (h : viable tbl w = true) : lvs tbl w = w := by
  cases w with
  | nil => rfl
  | cons x w => simp [lvs, h]

theorem lvs_plain (tbl : List (Key × Nat)) : ∀ w : Key, (∀ x ∈ w, x < 1024) → ∀ x ∈ lvs tbl w, x < 1024
  | [], _, x, hx => by simp [lvs] at hx
  | y :: w, h, x, hx => by
    simp only [lvs] at hx
    split at hx
    · exact h x hx
    · exact lvs_plain tbl w (fun z hz => h z (by simp [hz])) x hx

/-! ### one key press -/

theorem lookupKey_nil_of_plain {t : Trie Nat} (hp : PlainTrie t) : lookupKey t.entries [] = none := by
  unfold lookupKey
  cases hf : t.entries.find? (fun e => e.1 == []) with
  | none => rfl
  | some e =>
    exfalso
    have he := List.mem_of_find?_eq_some hf
    have hk : e.1 = [] := by simpa using List.find?_some hf
    simp only [PlainTrie, plainTable, List.all_eq_true, Bool.and_eq_true] at hp
    have := (hp e he).2
    simp [hk] at this

/-- **`do_sequence_press_logic` on plain input, in closed form.** -/
theorem doSeqPress_plain_eq {t : Trie Nat} (hp : PlainTrie t) (mc : Bool) (e : Eng) {k : Nat}
    (hk : plainKey k = true) (hs : ∀ x ∈ e.st.sequence, x < 1024) :
    doSeqPress t mc e k 0 =
      (let b := pressBase e k
       let seq0 := e.st.sequence ++ [k]
       let w := lvs t.entries seq0
       if viable t.entries seq0 then
         let e2 : Eng := { b with st := { b.st with sequence := seq0, overlapped := seq0 } }
         match lookupKey t.entries seq0 with
         | some j => terminate e2 j true
         | none => e2
       else
         let ovl' := e.st.overlapped ++ [KEY_OVERLAP_MARKER, k]
         let e3 : Eng := { b with st := { b.st with sequence := w, overlapped := ovl' } }
         if w.isEmpty then cancelSequence e3
         else match lookupKey t.entries w with
           | some j => terminate { e3 with st := { e3.st with overlapped := ovl' ++ [KEY_OVERLAP_MARKER] } } j false
           | none => e3) := by
  have hk1 : k < 1024 := plainKey_lt hk
  have hpushed : normaliseMod k ||| 0 = k := by rw [Nat.or_zero, plainKey_normalise hk]
  have hs0 : ∀ x ∈ e.st.sequence ++ [k], x < 1024 := by
    intro x hx
    rcases List.mem_append.1 hx with h | h
    · exact hs x h
    · simp at h; omega
  unfold doSeqPress
  simp only [hpushed, overlapFix_plain hp e.st.overlapped hk1, stdVariant_plain t mc _ hs0]
  cases hv : viable t.entries (e.st.sequence ++ [k]) with
  | true =>
    simp only [if_true, reconcile, finish]
    rw [getOrDescendant_eq, hv]
    cases hl : lookupKey t.entries (e.st.sequence ++ [k]) with
    | some j => rfl
    | none => rfl
  | false =>
    have hn : t.getOrDescendant (e.st.sequence ++ [k]) = .notInTrie := by
      apply eq_notInTrie_of_isNot; rw [isNot_getOrDescendant, hv]; rfl
    have hdf := dropFront_lvs t (e.st.sequence ++ [k])
    rw [hn] at hdf
    simp only [Bool.false_eq_true, if_false, reconcile, hdf, isNot_getOrDescendant]
    generalize hw : lvs t.entries (e.st.sequence ++ [k]) = w
    cases w with
    | nil =>
      have h0 : ∀ j, t.getOrDescendant [] ≠ .hasValue j := by
        intro j; rw [getOrDescendant_eq t [], lookupKey_nil_of_plain hp]
        show (if viable t.entries [] = true then Trie.GetRes.inTrie else Trie.GetRes.notInTrie) ≠ _
        split <;> simp
      simp only [List.isEmpty_nil, Bool.or_true, if_true, finish]
    | cons x w' =>
      have hvw : viable t.entries (x :: w') = true := by
        rw [← hw]; exact lvs_viable _ _ (by rw [hw]; simp)
      simp only [hvw, Bool.not_true, List.isEmpty_cons, Bool.or_false, Bool.false_eq_true, if_false, finish]
      rw [getOrDescendant_eq, hvw]
      cases hl : lookupKey t.entries (x :: w') with
      | none => rfl
      | some j =>
        have hm : ¬ KEY_OVERLAP_MARKER < 1024 := by decide
        have : t.getOrDescendant (e.st.overlapped ++ [KEY_OVERLAP_MARKER, k] ++ [KEY_OVERLAP_MARKER]) = .notInTrie := by
          apply eq_notInTrie_of_isNot
          rw [isNot_getOrDescendant, not_viable_of_big hp (x := KEY_OVERLAP_MARKER) (by simp) hm]; rfl
        simp only [pressBase, this]

/-! ### facts that hold for every table (plain, chorded, overlap groups) -/

/-- a key the code counts as a typed character when backspacing -/
def isCharKey (k : Nat) : Bool :=
  k != KEY_OVERLAP_MARKER && !isModifier (k &&& MASK_KEYCODES) && !isIgnored (k &&& MASK_KEYCODES)

def charCount (seq : List Nat) : Nat := (seq.filter isCharKey).length

theorem backspaces_cons (k : Nat) (ks : List Nat) (ne : Nat) :
    backspaces (k :: ks) ne =
      if isCharKey k then
        (if ne > 0 then backspaces ks (ne - 1) else ((backspaces ks ne).1, (backspaces ks ne).2 + 1))
      else backspaces ks ne := by
  simp only [backspaces, isCharKey]
  by_cases h1 : k = KEY_OVERLAP_MARKER
  · simp [h1]
  · by_cases h2 : isModifier (k &&& MASK_KEYCODES) = true
    · simp [h1, h2]
    · by_cases h3 : isIgnored (k &&& MASK_KEYCODES) = true
      · simp [h1, h2, h3]
      · simp [h1, h2, h3]

theorem backspaces_eq : ∀ (seq : List Nat) (ne : Nat),
    backspaces seq ne = (ne - charCount seq, charCount seq - ne)
  | [], ne => by simp [backspaces, charCount]
  | k :: ks, ne => by
    have ih := backspaces_eq ks
    rw [backspaces_cons]
    cases hc : isCharKey k with
    | false =>
      simp only [Bool.false_eq_true, if_false, ih, charCount, List.filter_cons, hc]
    | true =>
      have hcc : charCount (k :: ks) = charCount ks + 1 := by simp [charCount, hc]
      simp only [if_true, ih, hcc]
      by_cases h4 : ne > 0
      · simp only [h4, if_true]
        refine Prod.ext ?_ ?_ <;> simp <;> omega
      · simp only [h4, if_false]
        refine Prod.ext ?_ ?_ <;> simp <;> omega

theorem cancelSequence_fields (e : Eng) :
    (cancelSequence e).st.active = false ∧ (cancelSequence e).taps = e.taps ∧
    (cancelSequence e).states = e.states ∧ (cancelSequence e).st.mode = e.st.mode ∧
    (cancelSequence e).out = e.out ++
      (if e.st.mode = .hiddenDelayType then e.st.rawOscs.flatMap (fun k => osPress k ++ osRelease k) else []) := by
  unfold cancelSequence
  cases h : e.st.mode <;> simp [h]

theorem terminate_fields (e : Eng) (j : Nat) (b : Bool) :
    (terminate e j b).st.active = false ∧ (terminate e j b).taps = e.taps ++ [j] ∧
    (terminate e j b).st.mode = e.st.mode ∧
    (e.st.mode ≠ .visibleBackspaced → (terminate e j b).out = e.out) := by
  unfold terminate
  cases h : e.st.mode <;> simp [h]

/-- in visible-backspaced mode a completed sequence sends, after releasing held ctrl/alt/gui keys,
one backspace per character key of the completed sequence, less the `sequence-noerase` count -/
theorem terminate_visible_out (e : Eng) (j : Nat) (b : Bool) (h : e.st.mode = .visibleBackspaced) :
    ∃ rel : List Nat, (terminate e j b).out = e.out ++ rel.flatMap osRelease ++
      (List.replicate (charCount (if b then e.st.overlapped else e.st.sequence) - e.st.noerase)
        [Out.down KC_BSPACE, Out.up KC_BSPACE]).flatten := by
  unfold terminate
  simp only [h, backspaces_eq]
  exact ⟨_, rfl⟩

theorem reconcile_hidden (t : Trie Nat) (e : Eng) (std ovl : List Nat × Res × Bool) :
    (reconcile t e std ovl).1.st.mode = e.st.mode ∧ (reconcile t e std ovl).1.taps = e.taps ∧
    ((reconcile t e std ovl).1.out = e.out ∨
      ((reconcile t e std ovl).1.st.active = false ∧ e.st.mode = .hiddenDelayType ∧
        (reconcile t e std ovl).1.out = e.out ++ e.st.rawOscs.flatMap (fun k => osPress k ++ osRelease k))) := by
  unfold reconcile
  rcases std with ⟨s1, s2, s3⟩
  rcases ovl with ⟨o1, o2, o3⟩
  cases s3 <;> cases o3 <;> simp only [and_self, true_or]
  split
  · have := cancelSequence_fields
      { e with st := { e.st with sequence := (dropFront t s1 s2).1, overlapped := o1 } }
    refine ⟨this.2.2.2.1, this.2.1, ?_⟩
    by_cases hm : e.st.mode = .hiddenDelayType
    · right; exact ⟨this.1, hm, by simpa [hm] using this.2.2.2.2⟩
    · left; simpa [hm] using this.2.2.2.2
  · simp

theorem overlapFix_invalid (t : Trie Nat) (ovl : List Nat) (p pov : Nat) :
    (overlapFix t ovl p pov).2.2 = true → (overlapFix t ovl p pov).2.1.isNot = true := by
  unfold overlapFix
  by_cases h0 : (t.getOrDescendant (ovl ++ [pov])).isNot = true
  · simp only [h0, Bool.not_true, Bool.false_eq_true, if_false]
    by_cases h1 : (t.getOrDescendant (ovl ++ [KEY_OVERLAP_MARKER, pov])).isNot = true
    · simp only [h1, Bool.not_true, Bool.false_eq_true, if_false]
      by_cases h2 : (t.getOrDescendant (ovl ++ [KEY_OVERLAP_MARKER, p])).isNot = true
      · simp only [h2, Bool.not_true, Bool.false_eq_true, if_false]
        by_cases h3 : p &&& MASK_KEYCODES = p
        · simp only [h3, if_true]; intro _; exact h2
        · simp only [h3, if_false]; intro h; exact h
      · simp [h2]
    · simp [h1]
  · simp [h0]

theorem stdVariant_invalid (t : Trie Nat) (mc : Bool) (seq : List Nat) :
    (stdVariant t mc seq).2.2 = true → (stdVariant t mc seq).2.1.isNot = true := by
  unfold stdVariant
  by_cases h : (t.getOrDescendant seq).isNot = true
  · simp only [h, if_true]; exact id
  · simp [h]

theorem finish_out_hidden (t : Trie Nat) (x : Eng × Res × Res) (hx : x.1.st.mode ≠ .visibleBackspaced) :
    (finish t x).out = x.1.out := by
  simp only [finish]
  split
  · exact (terminate_fields x.1 _ true).2.2.2 hx
  · split
    · split
      · exact (terminate_fields _ _ true).2.2.2 hx
      · exact (terminate_fields _ _ false).2.2.2 hx
    · rfl

theorem finish_noValue (t : Trie Nat) (e : Eng) (r1 r2 : Res) (h1 : ∀ j, r1 ≠ .hasValue j)
    (h2 : ∀ j, r2 ≠ .hasValue j) : finish t (e, r1, r2) = e := by
  simp only [finish]

theorem dropFront_nil_res (t : Trie Nat) : ∀ (s : List Nat) (res : Res),
    (dropFront t s res).1 = [] →
      (s = [] ∧ (dropFront t s res).2 = res) ∨ (dropFront t s res).2 = t.getOrDescendant []
  | [], res, _ => Or.inl ⟨rfl, rfl⟩
  | x :: s, res, h => by
    simp only [dropFront] at h ⊢
    split at h
    · rename_i hn
      simp only [hn, if_true]
      rcases dropFront_nil_res t s _ h with ⟨rfl, h'⟩ | h'
      · right; exact h'
      · right; exact h'
    · simp at h

/-- what `finish (reconcile …)` can do to the output in a hidden mode: nothing, or — only in
hidden-delay-type, only when this key cancels the sequence, and then no virtual key is tapped —
type the raw keys -/
theorem finish_reconcile_hidden (t : Trie Nat) (hne : ∀ j, t.getOrDescendant [] ≠ .hasValue j)
    (e : Eng) (std ovl : List Nat × Res × Bool)
    (hstd : std.2.2 = true → std.2.1.isNot = true) (hovl : ovl.2.2 = true → ovl.2.1.isNot = true)
    (hm : e.st.mode ≠ .visibleBackspaced) :
    (finish t (reconcile t e std ovl)).out = e.out ∨
      (e.st.mode = .hiddenDelayType ∧ (finish t (reconcile t e std ovl)).st.active = false ∧
        (finish t (reconcile t e std ovl)).taps = e.taps ∧
        (finish t (reconcile t e std ovl)).out =
          e.out ++ e.st.rawOscs.flatMap (fun k => osPress k ++ osRelease k)) := by
  rcases std with ⟨s1, s2, s3⟩
  rcases ovl with ⟨o1, o2, o3⟩
  cases s3 <;> cases o3
  · left; rw [finish_out_hidden]; all_goals simp [reconcile, hm]
  · left; rw [finish_out_hidden]; all_goals simp [reconcile, hm]
  · left; rw [finish_out_hidden]; all_goals simp [reconcile, hm]
  · -- both variants invalid: front-dropping, possibly cancel
    have ho2 : o2 = .notInTrie := eq_notInTrie_of_isNot (hovl rfl)
    have hs2 : s2.isNot = true := hstd rfl
    subst ho2
    simp only [reconcile]
    split
    · rename_i hc
      have cf := cancelSequence_fields
        { e with st := { e.st with sequence := (dropFront t s1 s2).1, overlapped := o1 } }
      have hres : ∀ j, (dropFront t s1 s2).2 ≠ .hasValue j := by
        intro j hj
        simp only [Bool.or_eq_true] at hc
        rcases hc with hc | hc
        · rw [hj] at hc; simp [Trie.GetRes.isNot] at hc
        · have hnil : (dropFront t s1 s2).1 = [] := by simpa using hc
          rcases dropFront_nil_res t s1 s2 hnil with ⟨_, h'⟩ | h'
          · rw [h'] at hj; rw [hj] at hs2; simp [Trie.GetRes.isNot] at hs2
          · rw [h'] at hj; exact hne j hj
      rw [finish_noValue t _ _ _ hres (by intro j; simp)]
      by_cases hd : e.st.mode = .hiddenDelayType
      · right
        refine ⟨hd, cf.1, cf.2.1, ?_⟩
        rw [cf.2.2.2.2]; simp [hd]
      · left
        rw [cf.2.2.2.2]; simp [hd]
    · left; rw [finish_out_hidden]; all_goals simp [hm]

/-- **hidden modes, every table**: a key pressed in sequence mode emits nothing at the OS, except
that hidden-delay-type types the raw keys (this one included) when this key cancels the sequence —
and then no virtual key is tapped. -/
theorem doSeqPress_hidden (t : Trie Nat) (hne : ∀ j, t.getOrDescendant [] ≠ .hasValue j) (mc : Bool)
    (e : Eng) (k mm : Nat) (hm : e.st.mode ≠ .visibleBackspaced) :
    (doSeqPress t mc e k mm).out = e.out ∨
      (e.st.mode = .hiddenDelayType ∧ (doSeqPress t mc e k mm).st.active = false ∧
        (doSeqPress t mc e k mm).taps = e.taps ∧
        (doSeqPress t mc e k mm).out = e.out ++
          (e.st.rawOscs ++ [k]).flatMap (fun k => osPress k ++ osRelease k)) := by
  have hb : (pressBase e k).out = e.out ∧ (pressBase e k).st.mode = e.st.mode ∧
      (pressBase e k).taps = e.taps ∧ (pressBase e k).st.rawOscs = e.st.rawOscs ++ [k] := by
    unfold pressBase
    cases h : e.st.mode <;> simp_all
  have := finish_reconcile_hidden t hne (pressBase e k)
    (stdVariant t mc (e.st.sequence ++ [normaliseMod k ||| mm]))
    (overlapFix t e.st.overlapped (normaliseMod k ||| mm)
      ((normaliseMod k ||| mm) &&& MASK_KEYCODES ||| KEY_OVERLAP_MARKER))
    (stdVariant_invalid t mc _) (overlapFix_invalid t _ _ _) (by rw [hb.2.1]; exact hm)
  rw [hb.1, hb.2.1, hb.2.2.1, hb.2.2.2] at this
  exact this

end KVerif.Seq
