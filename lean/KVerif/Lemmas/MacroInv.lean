/-
C08 helper lemmas: the invariant behind "macros end with their keys released".

  Owed     every `FakeKey k` in `states` is owed a `Release k` by some active sequence
  SeqOK    every active sequence is a suffix of what the parser emits: step events (presses,
           releases, delays, custom items) in which every press is followed by its release, then
           `Complete`; nothing tapped
  RepOK    the sequences remembered by `RepeatingSequence` states are of that shape too

`process_sequences` preserves it as long as the ring holds at most 4 sequences (it never evicts
then); starting a sequence preserves it whether or not the ring has room (`start_sequence` releases
what an evicted sequence still owed); the cancellation paths establish it.
When no sequence is active, `Owed` says that no `FakeKey` is left.
-/
import KVerif.Lemmas.MacroPlay
import KVerif.Lemmas.MacroExpand
import KVerif.Model.MacroCancel
namespace KVerif.Macro
open KVerif.L

/-- an event list as `parse_macro` emits it -/
def EvsOK (evs : List SeqEv) : Prop :=
  ∃ steps, evs = steps ++ [.complete] ∧ steps.all isStep = true ∧ closedB steps = true

def SeqOK (q : SeqState) : Prop := q.tapped = none ∧ EvsOK q.remaining

def Owed (seqs : List SeqState) (states : List St) : Prop :=
  ∀ k, St.fakeKey k ∈ states → ∃ q ∈ seqs, SeqEv.release k ∈ q.remaining

def RepOK (states : List St) : Prop := ∀ evs c, St.repeatingSequence evs c ∈ states → EvsOK evs

/-- the part of the invariant that concerns sequences -/
structure SeqInv (s : Layout) : Prop where
  ok : ∀ q ∈ s.activeSequences, SeqOK q
  owed : Owed s.activeSequences s.states
  rep : RepOK s.states
  cap : s.activeSequences.length ≤ ACTIVE_SEQ_CAP

/-! ### membership facts -/

theorem mem_pushCap {α} {cap : Nat} {l : List α} {x y : α} (h : y ∈ pushCap cap l x) : y ∈ l ∨ y = x := by
  unfold pushCap at h
  split at h
  · simpa using h
  · exact Or.inl h

theorem fake_mem_filter_seqRelease {states : List St} {k kc : KeyCode}
    (h : St.fakeKey k ∈ states.filter (·.seqRelease kc)) : St.fakeKey k ∈ states ∧ k ≠ kc := by
  rw [List.mem_filter] at h
  refine ⟨h.1, ?_⟩
  have := h.2
  simpa [St.seqRelease] using this

theorem rep_mem_filter_seqRelease {states : List St} {evs : List SeqEv} {c : Coord} {kc : KeyCode}
    (h : St.repeatingSequence evs c ∈ states.filter (·.seqRelease kc)) : St.repeatingSequence evs c ∈ states :=
  (List.mem_filter.mp h).1

/-- what an effect can leave in `states`: fake keys only of the pressed key, repeating states never -/
theorem effStates_fake {states : List St} {e : Eff} {k : KeyCode} (h : St.fakeKey k ∈ effStates states e) :
    (St.fakeKey k ∈ states ∧ e ≠ .untap k ∧ e ≠ .perform (.release k)) ∨
    e = .perform (.press k) ∨ e = .perform (.tap k) := by
  cases e with
  | idle => exact Or.inl ⟨h, by simp, by simp⟩
  | untap kc =>
    obtain ⟨h1, h2⟩ := fake_mem_filter_seqRelease h
    exact Or.inl ⟨h1, by simpa using fun h => h2 h.symm, by simp⟩
  | perform ev =>
    cases ev with
    | press kc =>
      rcases mem_pushCap h with h | h
      · exact Or.inl ⟨h, by simp, by simp⟩
      · injection h with h; subst h; exact Or.inr (Or.inl rfl)
    | tap kc =>
      rcases mem_pushCap h with h | h
      · exact Or.inl ⟨h, by simp, by simp⟩
      · injection h with h; subst h; exact Or.inr (Or.inr rfl)
    | release kc =>
      obtain ⟨h1, h2⟩ := fake_mem_filter_seqRelease h
      exact Or.inl ⟨h1, by simp, by simpa using fun h => h2 h.symm⟩
    | custom id =>
      rcases mem_pushCap h with h | h
      · exact Or.inl ⟨h, by simp, by simp⟩
      · cases h
    | noOp => exact Or.inl ⟨h, by simp, by simp⟩
    | delay d => exact Or.inl ⟨h, by simp, by simp⟩
    | complete => exact Or.inl ⟨h, by simp, by simp⟩

theorem effStates_rep {states : List St} {e : Eff} {evs : List SeqEv} {c : Coord}
    (h : St.repeatingSequence evs c ∈ effStates states e) : St.repeatingSequence evs c ∈ states := by
  cases e with
  | idle => exact h
  | untap kc => exact rep_mem_filter_seqRelease h
  | perform ev =>
    cases ev with
    | press kc | tap kc | custom id =>
      rcases mem_pushCap h with h | h
      · exact h
      · cases h
    | release kc => exact rep_mem_filter_seqRelease h
    | noOp | delay _ | complete => exact h

/-! ### shape of a well-formed sequence -/

theorem closedB_tail {e : SeqEv} {l : List SeqEv} (h : closedB (e :: l) = true) : closedB l = true := by
  cases e <;> simp only [closedB, Bool.and_eq_true] at h <;> first | exact h | exact h.2

theorem EvsOK_cases {evs : List SeqEv} (h : EvsOK evs) :
    evs = [.complete] ∨ ∃ e tail, evs = e :: tail ∧ isStep e = true ∧ EvsOK tail ∧
      (∀ k, e = .press k → SeqEv.release k ∈ tail) := by
  obtain ⟨steps, rfl, h1, h2⟩ := h
  cases steps with
  | nil => exact Or.inl rfl
  | cons e st =>
    right
    simp only [List.all_cons, Bool.and_eq_true] at h1
    refine ⟨e, st ++ [.complete], rfl, h1.1, ⟨st, rfl, h1.2, closedB_tail h2⟩, ?_⟩
    rintro k rfl
    simp only [closedB, Bool.and_eq_true, List.contains_eq_mem, decide_eq_true_eq] at h2
    exact List.mem_append_left _ h2.1

theorem EvsOK_ne_nil {evs : List SeqEv} (h : EvsOK evs) : evs ≠ [] := by
  obtain ⟨steps, rfl, _, _⟩ := h; simp

/-- a sequence to keep after its step (`remaining` not empty) -/
def keep (q : SeqState) : List SeqState := if q.remaining.isEmpty then [] else [q]

/-- **one sequence, one tick**: stepping a well-formed sequence keeps everything owed -/
theorem owed_step (q : SeqState) (others : List SeqState) (states : List St) (hq : SeqOK q)
    (h : Owed (q :: others) states) :
    Owed (others ++ keep (seqStep q)) (effStates states (seqEffect q)) ∧
    (∀ x ∈ keep (seqStep q), SeqOK x) := by
  obtain ⟨cur, delay, tapped, remaining⟩ := q
  obtain ⟨ht, hev⟩ := hq
  simp only at ht hev
  subst ht
  by_cases hd : delay > 0
  · -- counting a delay down
    have e1 : seqEffect ⟨cur, delay, none, remaining⟩ = .idle := by simp [seqEffect, hd]
    have e2 : seqStep ⟨cur, delay, none, remaining⟩ = ⟨cur, delay - 1, none, remaining⟩ := by simp [seqStep, hd]
    have hne := EvsOK_ne_nil hev
    have e3 : keep ⟨cur, delay - 1, none, remaining⟩ = [⟨cur, delay - 1, none, remaining⟩] := by
      cases remaining with
      | nil => exact absurd rfl hne
      | cons _ _ => rfl
    rw [e1, e2, e3]
    refine ⟨?_, ?_⟩
    · intro k hk
      obtain ⟨q0, hq0, hr⟩ := h k hk
      rcases List.mem_cons.mp hq0 with rfl | hq0
      · exact ⟨⟨cur, delay - 1, none, remaining⟩, by simp, hr⟩
      · exact ⟨q0, by simp [hq0], hr⟩
    · intro x hx
      simp only [List.mem_singleton] at hx
      subst hx; exact ⟨rfl, hev⟩
  · have hd0 : delay = 0 := by omega
    subst hd0
    rcases EvsOK_cases hev with rfl | ⟨e, tail, rfl, hstep, htail, hpress⟩
    · -- `Complete`: the sequence ends
      obtain ⟨c1, c2⟩ := complete_tick cur
      have e3 : keep (seqStep ⟨cur, 0, none, [.complete]⟩) = [] := by simp [keep, c2]
      rw [c1, e3]
      refine ⟨?_, by simp⟩
      intro k hk
      obtain ⟨q0, hq0, hr⟩ := h k hk
      rcases List.mem_cons.mp hq0 with rfl | hq0
      · simp at hr
      · exact ⟨q0, by simp [hq0], hr⟩
    · -- a step event
      obtain ⟨f1, f2⟩ := first_tick cur e hstep tail
      have hne := EvsOK_ne_nil htail
      have e3 : keep ⟨some e, ticksOf e - 1, none, tail⟩ = [⟨some e, ticksOf e - 1, none, tail⟩] := by
        cases tail with
        | nil => exact absurd rfl hne
        | cons _ _ => rfl
      rw [f1, f2, e3]
      refine ⟨?_, ?_⟩
      · intro k hk
        rcases effStates_fake hk with ⟨hin, _, hnr⟩ | hp | hp
        · obtain ⟨q0, hq0, hr⟩ := h k hin
          rcases List.mem_cons.mp hq0 with rfl | hq0
          · refine ⟨⟨some e, ticksOf e - 1, none, tail⟩, by simp, ?_⟩
            simp only [List.mem_cons] at hr
            rcases hr with hr | hr
            · subst hr; exact absurd rfl hnr
            · exact hr
          · exact ⟨q0, by simp [hq0], hr⟩
        · injection hp with hp
          exact ⟨⟨some e, ticksOf e - 1, none, tail⟩, by simp, hpress k hp⟩
        · injection hp with hp
          subst hp; simp [isStep] at hstep
      · intro x hx
        simp only [List.mem_singleton] at hx
        subst hx; exact ⟨rfl, htail⟩

/-! ### the loop of `process_sequences` -/

theorem putBack_states (s : Layout) (q : SeqState) : (putBack s q).states = s.states := by
  unfold putBack; split <;> rfl

theorem putBack_seqs (s : Layout) (q : SeqState) (h : s.activeSequences.length < ACTIVE_SEQ_CAP) :
    (putBack s q).activeSequences = s.activeSequences ++ keep q := by
  unfold putBack keep
  by_cases hr : q.remaining.isEmpty
  · simp [hr]
  · simp only [hr, Bool.not_false, if_true, pushBackWrap, h, Bool.false_eq_true, if_false]

/-- what the loop leaves: the sequences not yet visited, those kept from before, and the stepped
ones that still have events; `states` with the visited sequences' effects applied in order.
Needs the ring to hold at most 4 (it never evicts then: each round pops before it pushes). -/
theorem seqLoop_spec : ∀ (n : Nat) (s : Layout) (todo kept : List SeqState),
    s.activeSequences = todo ++ kept → n ≤ todo.length → todo.length + kept.length ≤ ACTIVE_SEQ_CAP →
    (seqLoop n s).activeSequences = todo.drop n ++ kept ++ (todo.take n).flatMap (fun q => keep (seqStep q)) ∧
    (seqLoop n s).states = ((todo.take n).map seqEffect).foldl effStates s.states := by
  intro n
  induction n with
  | zero => intro s todo kept h _ _; simp [seqLoop, h]
  | succ n ih =>
    intro s todo kept h hn hcap
    cases todo with
    | nil => simp at hn
    | cons q todo' =>
      simp only [List.cons_append] at h
      simp only [seqLoop, h]
      have hs := applyEff_states { s with activeSequences := todo' ++ kept } (seqEffect q)
      have ha := applyEff_seqs { s with activeSequences := todo' ++ kept } (seqEffect q)
      simp only at hs ha
      have hlen : (applyEff { s with activeSequences := todo' ++ kept } (seqEffect q)).activeSequences.length < ACTIVE_SEQ_CAP := by
        rw [ha]; simp only [List.length_append, List.length_cons] at hcap ⊢; omega
      have hpb := putBack_seqs _ (seqStep q) hlen
      rw [ha, List.append_assoc] at hpb
      have hkl : (keep (seqStep q)).length ≤ 1 := by unfold keep; split <;> simp
      obtain ⟨i1, i2⟩ := ih _ todo' (kept ++ keep (seqStep q)) hpb (by simpa using hn)
        (by simp only [List.length_append, List.length_cons] at hcap ⊢; omega)
      rw [i1, i2, putBack_states, hs]
      simp [List.append_assoc]

/-- `Owed` and `SeqOK` through the effects of a list of sequences, one after the other -/
theorem owed_fold : ∀ (todo kept : List SeqState) (states : List St),
    (∀ q ∈ todo ++ kept, SeqOK q) → Owed (todo ++ kept) states →
    Owed (kept ++ todo.flatMap (fun q => keep (seqStep q))) ((todo.map seqEffect).foldl effStates states) ∧
    (∀ q ∈ kept ++ todo.flatMap (fun q => keep (seqStep q)), SeqOK q) := by
  intro todo
  induction todo with
  | nil => intro kept states hok ho; simpa using ⟨ho, hok⟩
  | cons q todo' ih =>
    intro kept states hok ho
    have hq : SeqOK q := hok q (by simp)
    obtain ⟨o1, o2⟩ := owed_step q (todo' ++ kept) states hq (by simpa using ho)
    have := ih (kept ++ keep (seqStep q)) (effStates states (seqEffect q))
      (by
        intro x hx
        simp only [List.mem_append] at hx
        rcases hx with hx | hx | hx
        · exact hok x (by simp [hx])
        · exact hok x (by simp [hx])
        · exact o2 x hx)
      (by simpa [List.append_assoc] using o1)
    simpa [List.append_assoc] using this

theorem effStates_fold_rep {evs : List SeqEv} {c : Coord} : ∀ (effs : List Eff) (states : List St),
    St.repeatingSequence evs c ∈ effs.foldl effStates states → St.repeatingSequence evs c ∈ states := by
  intro effs
  induction effs with
  | nil => intro states h; exact h
  | cons e rest ih => intro states h; exact effStates_rep (ih _ h)

theorem lastRepeating_mem {states : List St} {evs : List SeqEv} (h : lastRepeating states = some evs) :
    ∃ c, St.repeatingSequence evs c ∈ states := by
  unfold lastRepeating at h
  obtain ⟨st, hst, hm⟩ := List.exists_of_findSome?_eq_some h
  cases st <;> simp at hm
  rename_i evs' c
  subst hm
  exact ⟨c, by simpa using hst⟩

theorem lastRepeating_none {states : List St} (h : lastRepeating states = none) :
    ∀ evs c, St.repeatingSequence evs c ∉ states := by
  unfold lastRepeating at h
  intro evs c hm
  rw [List.findSome?_eq_none_iff] at h
  have := h (.repeatingSequence evs c) (by simpa using hm)
  simp at this

/-- **`process_sequences` preserves the invariant** -/
theorem processSequences_inv (s : Layout) (h : SeqInv s) : SeqInv (processSequences s) := by
  rw [processSequences_eq]
  obtain ⟨l1, l2⟩ := seqLoop_spec s.activeSequences.length s s.activeSequences [] (by simp) (Nat.le_refl _)
    (by simpa using h.cap)
  simp only [List.drop_length, List.take_length, List.nil_append] at l1 l2
  obtain ⟨o1, o2⟩ := owed_fold s.activeSequences [] s.states (by simpa using h.ok) (by simpa using h.owed)
  simp only [List.nil_append] at o1 o2
  have hrep : RepOK (seqLoop s.activeSequences.length s).states := by
    intro evs c hm
    rw [l2] at hm
    exact h.rep evs c (effStates_fold_rep _ _ hm)
  have hlen : (seqLoop s.activeSequences.length s).activeSequences.length ≤ ACTIVE_SEQ_CAP := by
    rw [l1]
    have : ∀ l : List SeqState, (l.flatMap (fun q => keep (seqStep q))).length ≤ l.length := by
      intro l
      induction l with
      | nil => simp
      | cons q l ih =>
        have hkl : (keep (seqStep q)).length ≤ 1 := by unfold keep; split <;> simp
        simp only [List.flatMap_cons, List.length_append, List.length_cons]; omega
    exact Nat.le_trans (this _) h.cap
  refine ⟨?_, ?_, ?_, ?_⟩
  · intro q hq
    rw [restartRepeating_seqs] at hq
    split at hq
    · unfold restartOf at hq
      split at hq
      · rename_i evs hl
        simp only [List.mem_singleton] at hq
        subst hq
        obtain ⟨c, hc⟩ := lastRepeating_mem hl
        exact ⟨rfl, hrep evs c hc⟩
      · cases hq
    · rw [l1] at hq; exact o2 q hq
  · rw [restartRepeating_seqs, restartRepeating_states]
    split
    · rename_i hemp
      intro k hk
      rw [l2] at hk
      obtain ⟨q, hq, _⟩ := o1 k hk
      rw [← l1] at hq
      rw [List.isEmpty_iff.mp hemp] at hq
      cases hq
    · rw [l1, l2]; exact o1
  · rw [restartRepeating_states]; exact hrep
  · rw [restartRepeating_seqs]
    split
    · unfold restartOf; split <;> simp <;> decide
    · exact hlen

/-- `process_sequences` never lengthens the ring beyond what it was, except for the one restart -/
theorem processSequences_length (s : Layout) (h : s.activeSequences.length ≤ ACTIVE_SEQ_CAP) :
    (processSequences s).activeSequences.length ≤ max s.activeSequences.length 1 := by
  rw [processSequences_eq]
  obtain ⟨l1, _⟩ := seqLoop_spec s.activeSequences.length s s.activeSequences [] (by simp) (Nat.le_refl _)
    (by simpa using h)
  simp only [List.drop_length, List.take_length, List.nil_append] at l1
  have : ∀ l : List SeqState, (l.flatMap (fun q => keep (seqStep q))).length ≤ l.length := by
    intro l
    induction l with
    | nil => simp
    | cons q l ih =>
      have hkl : (keep (seqStep q)).length ≤ 1 := by unfold keep; split <;> simp
      simp only [List.flatMap_cons, List.length_append, List.length_cons]; omega
  rw [restartRepeating_seqs]
  split
  · unfold restartOf; split <;> simp <;> omega
  · rw [l1]; have := this s.activeSequences; omega

/-! ### starting and cancelling -/

theorem oshOther_states (s : Layout) (b : Bool) (c : Coord) : (oshOther s b c).1.states = s.states := by
  unfold oshOther; split <;> rfl
theorem oshOther_seqs (s : Layout) (b : Bool) (c : Coord) :
    (oshOther s b c).1.activeSequences = s.activeSequences := by
  unfold oshOther; split <;> rfl

theorem releaseEvicted_sub (q : SeqState) : ∀ (states : List St) (x : St),
    x ∈ releaseEvicted states q → x ∈ states := by
  unfold releaseEvicted
  generalize seqOwedKeys q = ks
  induction ks with
  | nil => intro states x h; exact h
  | cons k ks ih =>
    intro states x h
    simp only [List.foldl_cons] at h
    exact (List.mem_filter.mp (ih _ x h)).1

theorem releaseEvicted_fake (q : SeqState) : ∀ (states : List St) (k : KeyCode),
    St.fakeKey k ∈ releaseEvicted states q → k ∉ seqOwedKeys q := by
  unfold releaseEvicted
  generalize seqOwedKeys q = ks
  induction ks with
  | nil => intro states k _; simp
  | cons k' ks ih =>
    intro states k h
    simp only [List.foldl_cons] at h
    have h1 := ih _ k h
    have h2 : St.fakeKey k ∈ states.filter (·.seqRelease k') := by
      have : ∀ (l : List KeyCode) (st : List St) (x : St),
          x ∈ l.foldl (fun st k => st.filter (·.seqRelease k)) st → x ∈ st := by
        intro l
        induction l with
        | nil => intro st x h; exact h
        | cons a l ih' => intro st x h; simp only [List.foldl_cons] at h; exact (List.mem_filter.mp (ih' _ x h)).1
      exact this ks _ _ h
    obtain ⟨_, hne⟩ := fake_mem_filter_seqRelease h2
    simp only [List.mem_cons, not_or]
    exact ⟨hne, h1⟩

theorem mem_seqOwedKeys {q : SeqState} {k : KeyCode} (h : SeqEv.release k ∈ q.remaining) : k ∈ seqOwedKeys q := by
  unfold seqOwedKeys
  simp only [List.mem_append, List.mem_filterMap]
  exact Or.inr ⟨.release k, h, rfl⟩

/-- `start_sequence` with room in the ring: the sequence is appended, nothing else changes -/
theorem startSequence_room (s : Layout) (evs : List SeqEv) (h : s.activeSequences.length < ACTIVE_SEQ_CAP) :
    (startSequence s evs).activeSequences = s.activeSequences ++ [{ remaining := evs }] ∧
    (startSequence s evs).states = s.states := by
  unfold startSequence
  simp only [pushBackWrap, h, if_true, and_self]

/-- **`start_sequence` keeps the invariant, full ring or not**: what the evicted sequence owed is
released with it -/
theorem startSequence_inv (s : Layout) (evs : List SeqEv) (h : SeqInv s) (hev : EvsOK evs) :
    SeqInv (startSequence s evs) ∧
    (startSequence s evs).activeSequences.length ≤ s.activeSequences.length + 1 := by
  by_cases hroom : s.activeSequences.length < ACTIVE_SEQ_CAP
  · obtain ⟨r1, r2⟩ := startSequence_room s evs hroom
    refine ⟨⟨?_, ?_, ?_, ?_⟩, by rw [r1]; simp⟩
    · intro q hq
      rw [r1] at hq
      rcases List.mem_append.mp hq with hq | hq
      · exact h.ok q hq
      · simp only [List.mem_singleton] at hq; subst hq; exact ⟨rfl, hev⟩
    · intro k hk
      rw [r2] at hk
      obtain ⟨q, hq, hr⟩ := h.owed k hk
      exact ⟨q, by rw [r1]; simp [hq], hr⟩
    · rw [r2]; exact h.rep
    · rw [r1]; simp only [List.length_append, List.length_singleton]; omega
  · cases hs : s.activeSequences with
    | nil => rw [hs] at hroom; simp at hroom
    | cons q0 t =>
      have hcap := h.cap
      rw [hs] at hcap hroom
      have e1 : (startSequence s evs).activeSequences = t ++ [{ remaining := evs }] := by
        unfold startSequence; simp only [pushBackWrap, hs, hroom, if_false]
      have e2 : (startSequence s evs).states = releaseEvicted s.states q0 := by
        unfold startSequence; simp only [pushBackWrap, hs, hroom, if_false]
      refine ⟨⟨?_, ?_, ?_, ?_⟩, by rw [e1]; simp⟩
      · intro q hq
        rw [e1] at hq
        rcases List.mem_append.mp hq with hq | hq
        · exact h.ok q (by rw [hs]; exact List.mem_cons_of_mem _ hq)
        · simp only [List.mem_singleton] at hq; subst hq; exact ⟨rfl, hev⟩
      · intro k hk
        rw [e2] at hk
        have hin := releaseEvicted_sub q0 _ _ hk
        have hno := releaseEvicted_fake q0 _ _ hk
        obtain ⟨q, hq, hr⟩ := h.owed k hin
        rw [hs] at hq
        rcases List.mem_cons.mp hq with rfl | hq
        · exact absurd (mem_seqOwedKeys hr) hno
        · exact ⟨q, by rw [e1]; simp [hq], hr⟩
      · intro e c' hm
        rw [e2] at hm
        exact h.rep e c' (releaseEvicted_sub q0 _ _ hm)
      · rw [e1]
        simp only [List.length_append, List.length_cons, List.length_nil] at hcap ⊢; omega

theorem armSequence_states (s : Layout) (a : Action) (evs : List SeqEv) (c : Coord) (o rep : Bool) :
    (armSequence s a evs c o rep).states =
      if rep then pushCap STATES_CAP (startSequence s evs).states (.repeatingSequence evs c)
      else (startSequence s evs).states := by
  unfold armSequence
  cases rep <;> simp only [Bool.false_eq_true, if_false, if_true, oshOther_states] <;> rfl

theorem armSequence_seqs (s : Layout) (a : Action) (evs : List SeqEv) (c : Coord) (o rep : Bool) :
    (armSequence s a evs c o rep).activeSequences = (startSequence s evs).activeSequences := by
  unfold armSequence
  cases rep <;> simp only [Bool.false_eq_true, if_false, if_true, oshOther_seqs] <;> rfl

/-- **starting a macro keeps the invariant**, whether or not the ring has room; with room the
sequence is appended and the other sequences are untouched -/
theorem armSequence_inv (s : Layout) (a : Action) (evs : List SeqEv) (c : Coord) (o rep : Bool)
    (h : SeqInv s) (hev : EvsOK evs) :
    SeqInv (armSequence s a evs c o rep) ∧
    (armSequence s a evs c o rep).activeSequences.length ≤ s.activeSequences.length + 1 ∧
    (s.activeSequences.length < ACTIVE_SEQ_CAP →
      (armSequence s a evs c o rep).activeSequences = s.activeSequences ++ [{ remaining := evs }]) := by
  obtain ⟨i, hl⟩ := startSequence_inv s evs h hev
  have hs := armSequence_seqs s a evs c o rep
  have hst := armSequence_states s a evs c o rep
  refine ⟨⟨?_, ?_, ?_, ?_⟩, by rw [hs]; exact hl, fun hroom => by rw [hs]; exact (startSequence_room s evs hroom).1⟩
  · rw [hs]; exact i.ok
  · intro k hk
    rw [hst] at hk
    have hk' : St.fakeKey k ∈ (startSequence s evs).states := by
      split at hk
      · rcases mem_pushCap hk with hk | hk
        · exact hk
        · cases hk
      · exact hk
    obtain ⟨q, hq, hr⟩ := i.owed k hk'
    exact ⟨q, by rw [hs]; exact hq, hr⟩
  · intro evs' c' hm
    rw [hst] at hm
    split at hm
    · rcases mem_pushCap hm with hm | hm
      · exact i.rep evs' c' hm
      · injection hm with h1 h2; subst h1; exact hev
    · exact i.rep evs' c' hm
  · rw [hs]; exact i.cap

theorem armCancelSequences_fields (s : Layout) (a : Action) (c : Coord) (o : Bool) :
    (armCancelSequences s a c o).activeSequences = [] ∧
    (armCancelSequences s a c o).states =
      s.states.filter (fun st => !(match st with | .fakeKey _ => true | _ => false)) := by
  unfold armCancelSequences
  simp only [oshOther_states, oshOther_seqs]
  exact ⟨trivial, rfl⟩

/-- **`CancelSequences`** leaves no sequence and no fake key -/
theorem armCancelSequences_inv (s : Layout) (a : Action) (c : Coord) (o : Bool) (h : RepOK s.states) :
    SeqInv (armCancelSequences s a c o) ∧ (armCancelSequences s a c o).activeSequences = [] ∧
    ∀ k, St.fakeKey k ∉ (armCancelSequences s a c o).states := by
  obtain ⟨f1, f2⟩ := armCancelSequences_fields s a c o
  have hnf : ∀ k, St.fakeKey k ∉ (armCancelSequences s a c o).states := by
    intro k hk
    rw [f2, List.mem_filter] at hk
    simp at hk
  refine ⟨⟨by rw [f1]; simp, fun k hk => absurd hk (hnf k), ?_, by rw [f1]; simp⟩, f1, hnf⟩
  intro evs c' hm
  rw [f2] at hm
  exact h evs c' (List.mem_filter.mp hm).1

/-- **the cancellation glue of kanata** (`CancelMacroOnRelease`, a press during a cancel-on-press
macro) leaves no sequence, no fake key and no repeating state -/
theorem cancelAll_inv (l : Layout) :
    SeqInv (cancelAll l) ∧ (cancelAll l).activeSequences = [] ∧
    (∀ k, St.fakeKey k ∉ (cancelAll l).states) ∧ (∀ evs c, St.repeatingSequence evs c ∉ (cancelAll l).states) := by
  have hnf : ∀ k, St.fakeKey k ∉ (cancelAll l).states := by
    intro k hk
    simp [cancelAll, isFakeOrRepeating] at hk
  have hnr : ∀ evs c, St.repeatingSequence evs c ∉ (cancelAll l).states := by
    intro evs c hk
    simp [cancelAll, isFakeOrRepeating] at hk
  exact ⟨⟨by simp [cancelAll], fun k hk => absurd hk (hnf k), fun evs c hm => absurd hm (hnr evs c), by simp [cancelAll]⟩,
    rfl, hnf, hnr⟩

/-- anything that touches neither the ring nor fake keys nor repeating states keeps the invariant -/
theorem SeqInv.frame {s s' : Layout} (h : SeqInv s) (hs : s'.activeSequences = s.activeSequences)
    (hf : ∀ k, St.fakeKey k ∈ s'.states → St.fakeKey k ∈ s.states)
    (hr : ∀ evs c, St.repeatingSequence evs c ∈ s'.states → St.repeatingSequence evs c ∈ s.states) :
    SeqInv s' :=
  ⟨by rw [hs]; exact h.ok, by rw [hs]; exact fun k hk => h.owed k (hf k hk),
   fun evs c hm => h.rep evs c (hr evs c hm), by rw [hs]; exact h.cap⟩

/-- **when no sequence is active, no fake key is down** -/
theorem SeqInv.released {s : Layout} (h : SeqInv s) (he : s.activeSequences = []) :
    ∀ k, St.fakeKey k ∉ s.states := by
  intro k hk
  obtain ⟨q, hq, _⟩ := h.owed k hk
  rw [he] at hq; cases hq

/-- what the parser emits is well-formed -/
theorem EvsOK_spell (body : List Body) : EvsOK (spellAll body ++ [.complete]) :=
  ⟨spellAll body, rfl, spellAll_steps body, closedB_spellAll body⟩

/-- **a balanced list of steps leaves no fake key of its own**: whatever `FakeKey k` is in `states`
after performing the events was there before, and the events neither press nor release `k` -/
theorem fold_fake : ∀ (evs : List SeqEv) (states : List St) (k : KeyCode), closedB evs = true →
    evs.all isStep = true → St.fakeKey k ∈ evs.foldl stApply states →
    St.fakeKey k ∈ states ∧ SeqEv.press k ∉ evs ∧ SeqEv.release k ∉ evs := by
  intro evs
  induction evs with
  | nil => intro states k _ _ h; exact ⟨h, by simp, by simp⟩
  | cons e rest ih =>
    intro states k hc hall h
    simp only [List.foldl_cons] at h
    simp only [List.all_cons, Bool.and_eq_true] at hall
    obtain ⟨i1, i2, i3⟩ := ih (stApply states e) k (closedB_tail hc) hall.2 h
    cases e with
    | press k' =>
      simp only [stApply] at i1
      by_cases hk : k' = k
      · subst hk
        simp only [closedB, Bool.and_eq_true, List.contains_eq_mem, decide_eq_true_eq] at hc
        exact absurd hc.1 i3
      · have : St.fakeKey k ∈ states := by
          rcases mem_pushCap i1 with h | h
          · exact h
          · injection h with h; exact absurd h.symm hk
        exact ⟨this, by simp [i2, Ne.symm hk], by simp [i3]⟩
    | tap k' => simp [isStep] at hall
    | release k' =>
      simp only [stApply] at i1
      obtain ⟨j1, j2⟩ := fake_mem_filter_seqRelease i1
      exact ⟨j1, by simp [i2], by simp [i3, j2]⟩
    | custom id =>
      simp only [stApply] at i1
      have : St.fakeKey k ∈ states := by
        rcases mem_pushCap i1 with h | h
        · exact h
        · cases h
      exact ⟨this, by simp [i2], by simp [i3]⟩
    | noOp | delay _ | complete =>
      simp only [stApply] at i1
      exact ⟨i1, by simp [i2], by simp [i3]⟩

end KVerif.Macro
