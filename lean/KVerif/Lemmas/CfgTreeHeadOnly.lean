/-
Lemmas for C16 (templates): the "keywords only in head position" discipline.

`hoList badH badT ts`: in every list of the forest `ts`, the head — if it is an atom — avoids `badH`,
and the atoms directly in the tail avoid `badT`.  With `badH ⊆ badT` this is preserved by one sweep
of `evaluate_conditionals` (a replacement splices the *tail* of a conditional form into the
surrounding list), together with "the atoms directly in the forest avoid `badT`" (`freeTop`).
Used with `badT` = the four conditional keywords (`Props/C16tmpl.lean: cond_loop_is_spec`) and with
`badT` = `template-expand`, `t!`, `concat` (`expand_is_subst`).
-/
import KVerif.Lemmas.CfgTreeCond
namespace KVerif.CfgTree

/-- the atoms directly in the forest avoid `bad` -/
def freeTop (bad : Str → Bool) : List Tree → Bool
  | [] => true
  | .atom a :: rest => !bad a && freeTop bad rest
  | .list _ :: rest => freeTop bad rest

/-- the head, if it is an atom, avoids `bad` -/
def headOK (bad : Str → Bool) : List Tree → Bool
  | .atom a :: _ => !bad a
  | _ => true

mutual
  def hoTree (badH badT : Str → Bool) : Tree → Bool
    | .atom _ => true
    | .list l => headOK badH l && freeTop badT l.tail && hoList badH badT l
  def hoList (badH badT : Str → Bool) : List Tree → Bool
    | [] => true
    | t :: rest => hoTree badH badT t && hoList badH badT rest
end

theorem freeTop_append (bad : Str → Bool) (a b : List Tree) :
    freeTop bad (a ++ b) = (freeTop bad a && freeTop bad b) := by
  induction a with
  | nil => simp [freeTop]
  | cons t rest ih => cases t <;> simp [freeTop, ih, Bool.and_assoc]

theorem freeTop_tail (bad : Str → Bool) (l : List Tree) (h : freeTop bad l = true) :
    freeTop bad l.tail = true := by
  cases l with
  | nil => rfl
  | cons t rest => cases t <;> simp_all [freeTop]

theorem freeTop_drop (bad : Str → Bool) (n : Nat) (l : List Tree) (h : freeTop bad l = true) :
    freeTop bad (l.drop n) = true := by
  induction n generalizing l with
  | zero => simpa using h
  | succ n ih =>
    cases l with
    | nil => rfl
    | cons t rest =>
      simp only [List.drop_succ_cons]
      exact ih rest (by have := freeTop_tail bad (t :: rest) h; simpa using this)

theorem freeTop_headOK (badH badT : Str → Bool) (hsub : ∀ a, badH a = true → badT a = true)
    (l : List Tree) (h : freeTop badT l = true) : headOK badH l = true := by
  cases l with
  | nil => rfl
  | cons t rest =>
    cases t with
    | list _ => rfl
    | atom a =>
      simp only [freeTop, Bool.and_eq_true, Bool.not_eq_true'] at h
      simp only [headOK, Bool.not_eq_true']
      cases hb : badH a with
      | false => rfl
      | true => rw [hsub a hb] at h; exact absurd h.1 (by simp)

theorem hoList_append (badH badT : Str → Bool) (a b : List Tree) :
    hoList badH badT (a ++ b) = (hoList badH badT a && hoList badH badT b) := by
  induction a with
  | nil => simp [hoList]
  | cons t rest ih => simp [hoList, ih, Bool.and_assoc]

theorem hoList_drop (badH badT : Str → Bool) (n : Nat) (l : List Tree)
    (h : hoList badH badT l = true) : hoList badH badT (l.drop n) = true := by
  induction n generalizing l with
  | zero => simpa using h
  | succ n ih =>
    cases l with
    | nil => rfl
    | cons t rest =>
      simp only [List.drop_succ_cons]
      simp only [hoList, Bool.and_eq_true] at h
      exact ih rest h.2

theorem hoTree_list (badH badT : Str → Bool) (l : List Tree) :
    hoTree badH badT (.list l) =
      (headOK badH l && freeTop badT l.tail && hoList badH badT l) := by
  simp [hoTree]

/-- what a conditional form is replaced by keeps the discipline, and its atoms avoid `badT` -/
theorem condReplacement_ho (badH badT : Str → Bool) (l repl : List Tree)
    (h : condReplacement l = some (.ok repl)) (hl : hoTree badH badT (.list l) = true) :
    hoList badH badT repl = true ∧ freeTop badT repl = true := by
  rw [hoTree_list] at hl
  simp only [Bool.and_eq_true] at hl
  rw [condReplacement_eq] at h
  split at h
  · cases h
  · cases h
  · rename_i b hb
    simp only [Option.some.injEq, Except.ok.injEq] at h
    subst h
    cases b with
    | false => simp [hoList, freeTop]
    | true =>
      simp only [if_true]
      refine ⟨hoList_drop badH badT 3 l hl.2, ?_⟩
      cases l with
      | nil => rfl
      | cons t rest =>
        simp only [List.drop_succ_cons]
        exact freeTop_drop badT 2 rest (by simpa using hl.1.2)

/-- **one sweep of `evaluate_conditionals` keeps the discipline.**  Also: the atoms directly in the
forest keep avoiding `badT`, and a leading atom stays where it is. -/
theorem condPass_ho (badH badT : Str → Bool) (hsub : ∀ a, badH a = true → badT a = true) :
    ∀ (ts ts1 : List Tree) (c : Bool), condPass ts = .ok (ts1, c) → hoList badH badT ts = true →
      hoList badH badT ts1 = true ∧ (freeTop badT ts = true → freeTop badT ts1 = true) ∧
      (∀ a tl, ts = .atom a :: tl → ∃ tl1, ts1 = .atom a :: tl1 ∧
        (freeTop badT tl = true → freeTop badT tl1 = true))
  | [], ts1, c, h, _ => by
    simp only [condPass_nil, Except.ok.injEq, Prod.mk.injEq] at h
    obtain ⟨rfl, rfl⟩ := h
    exact ⟨rfl, fun h => h, fun a tl h => by cases h⟩
  | .atom a :: rest, ts1, c, h, ho => by
    simp only [condPass_atom] at h
    cases hr : condPass rest with
    | error e => simp [hr] at h
    | ok p =>
      obtain ⟨r, c'⟩ := p
      simp only [hr, Except.ok.injEq, Prod.mk.injEq] at h
      obtain ⟨rfl, rfl⟩ := h
      simp only [hoList, Bool.and_eq_true] at ho
      obtain ⟨i1, i2, -⟩ := condPass_ho badH badT hsub rest r c' hr ho.2
      refine ⟨by simp [hoList, hoTree, i1], ?_, ?_⟩
      · intro hf
        simp only [freeTop, Bool.and_eq_true] at hf ⊢
        exact ⟨hf.1, i2 hf.2⟩
      · intro a' tl hh
        cases hh
        exact ⟨r, rfl, i2⟩
  | .list l :: rest, ts1, c, h, ho => by
    simp only [condPass_list] at h
    simp only [hoList, Bool.and_eq_true] at ho
    refine ⟨?_, ?_, fun a tl hh => by cases hh⟩
    all_goals
      cases hrep : condReplacement l with
      | some res =>
        cases res with
        | error e => simp [hrep] at h
        | ok repl =>
          simp only [hrep] at h
          cases hr : condPass rest with
          | error e => simp [hr] at h
          | ok p =>
            obtain ⟨r, c'⟩ := p
            simp only [hr, Except.ok.injEq, Prod.mk.injEq] at h
            obtain ⟨rfl, rfl⟩ := h
            obtain ⟨i1, i2, -⟩ := condPass_ho badH badT hsub rest r c' hr ho.2
            obtain ⟨j1, j2⟩ := condReplacement_ho badH badT l repl hrep ho.1
            first
              | (rw [hoList_append, j1, i1]; rfl)
              | (intro hf
                 simp only [freeTop] at hf
                 rw [freeTop_append, j2, i2 hf]; rfl)
      | none =>
        simp only [hrep] at h
        cases hl : condPass l with
        | error e => simp [hl] at h
        | ok pl =>
          obtain ⟨l', c1⟩ := pl
          simp only [hl] at h
          cases hr : condPass rest with
          | error e => simp [hr] at h
          | ok p =>
            obtain ⟨r, c2⟩ := p
            simp only [hr, Except.ok.injEq, Prod.mk.injEq] at h
            obtain ⟨rfl, rfl⟩ := h
            obtain ⟨i1, i2, -⟩ := condPass_ho badH badT hsub rest r c2 hr ho.2
            have hol := ho.1
            rw [hoTree_list] at hol
            simp only [Bool.and_eq_true] at hol
            obtain ⟨k1, k2, k3⟩ := condPass_ho badH badT hsub l l' c1 hl hol.2
            first
              | (intro hf
                 simp only [freeTop] at hf ⊢
                 exact i2 hf)
              | (have hl' : hoTree badH badT (.list l') = true := by
                   rw [hoTree_list]
                   simp only [Bool.and_eq_true]
                   refine ⟨⟨?_, ?_⟩, k1⟩
                   · match l, hol, k2, k3 with
                     | [], _, _, _ =>
                       simp only [condPass_nil, Except.ok.injEq, Prod.mk.injEq] at hl
                       rw [← hl.1]; rfl
                     | .list l0 :: tl, hol, k2, _ =>
                       exact freeTop_headOK badH badT hsub l' (k2 (by simpa [freeTop] using hol.1.2))
                     | .atom a :: tl, hol, _, k3 =>
                       obtain ⟨tl1, rfl, -⟩ := k3 a tl rfl
                       exact hol.1.1
                   · match l, hol, k2, k3 with
                     | [], _, _, _ =>
                       simp only [condPass_nil, Except.ok.injEq, Prod.mk.injEq] at hl
                       rw [← hl.1]; rfl
                     | .list l0 :: tl, hol, k2, _ =>
                       exact freeTop_tail badT l' (k2 (by simpa [freeTop] using hol.1.2))
                     | .atom a :: tl, hol, _, k3 =>
                       obtain ⟨tl1, rfl, k4⟩ := k3 a tl rfl
                       exact k4 (by simpa using hol.1.2)
                 simp only [hoList, hl', i1, Bool.and_self])

/-- the whole loop `while evaluate_conditionals(..)? {}` keeps the discipline -/
theorem condLoop_ho (badH badT : Str → Bool) (hsub : ∀ a, badH a = true → badT a = true) :
    ∀ (n : Nat) (ts r : List Tree), condLoop n ts = .ok r → hoList badH badT ts = true →
      hoList badH badT r = true ∧ (freeTop badT ts = true → freeTop badT r = true) := by
  intro n
  induction n with
  | zero => intro ts r h; simp [condLoop, fuelOut] at h
  | succ n ih =>
    intro ts r h ho
    simp only [condLoop] at h
    cases hp : condPass ts with
    | error e => simp [hp] at h
    | ok p =>
      obtain ⟨ts1, c⟩ := p
      simp only [hp] at h
      obtain ⟨i1, i2, -⟩ := condPass_ho badH badT hsub ts ts1 c hp ho
      cases c with
      | false =>
        simp only [Bool.false_eq_true, if_false, Except.ok.injEq] at h
        subst h
        exact ⟨i1, i2⟩
      | true =>
        simp only [if_true] at h
        obtain ⟨j1, j2⟩ := ih ts1 r h i1
        exact ⟨j1, fun hf => j2 (i2 hf)⟩

end KVerif.CfgTree
